package engine

import (
	"bytes"
	"context"
	"os"
	"os/exec"
	"strconv"
	"time"
)

// WorkerResult is what a sandboxed subprocess run produced.
type WorkerResult struct {
	Stdout   []byte
	Stderr   []byte
	ExitCode int
	TimedOut bool
	Died     bool // killed by signal / non-zero exit without our marker
}

// RunWorker re-executes the current binary with "--worker <args...>" under ulimit -v (KiB) and a deadline.
// A worker death or deadline is an observation judged by the caller's oracle, never a harness error.
func RunWorker(stdin []byte, vmemKiB int, deadline time.Duration, args ...string) WorkerResult {
	exe, _ := os.Executable()
	ctx, cancel := context.WithTimeout(context.Background(), deadline)
	defer cancel()
	sh := "ulimit -v " + strconv.Itoa(vmemKiB) + "; exec \"$0\" --worker \"$@\""
	cmd := exec.CommandContext(ctx, "/bin/bash", append([]string{"-c", sh, exe}, args...)...)
	cmd.Stdin = bytes.NewReader(stdin)
	var so, se bytes.Buffer
	cmd.Stdout = &so
	cmd.Stderr = &se
	cmd.Env = append(os.Environ(), "GOMAXPROCS=2", "VERIF_SCRATCH_BASE="+Scratch())
	err := cmd.Run()
	r := WorkerResult{Stdout: so.Bytes(), Stderr: se.Bytes()}
	if ctx.Err() == context.DeadlineExceeded {
		r.TimedOut = true
		return r
	}
	if err != nil {
		r.Died = true
		if ee, ok := err.(*exec.ExitError); ok {
			r.ExitCode = ee.ExitCode()
		} else {
			r.ExitCode = -1
		}
	}
	return r
}
