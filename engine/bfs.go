package engine

import (
	"fmt"
	"sync"
)

// Space describes an explicit-state search over REAL operations.  L is a live instance of the
// system under test together with its reference model; O is one operation of the alphabet.
//
// A state is identified by Key(l).  Live instances usually cannot be cloned, so a state is
// re-obtained either by replaying the shortest op history on a fresh instance (Save == nil) or
// by loading a snapshot (Save/Load != nil, e.g. a database image).
type Space[L any, O any] struct {
	New   func() L
	Close func(L)
	// Ops is the finite menu of operations offered in the state; must depend on the state only.
	Ops func(l L) []O
	// Apply executes the real operation, lets the model predict and compares (step oracle).
	// check=false while replaying a prefix (failures were already reported when it was first run).
	// The returned string is the outcome class (for the histogram / vacuity guard).
	Apply func(l L, op O, check bool) string
	Key   func(l L) string
	// Invariant is the state oracle, evaluated once in every distinct state.
	Invariant func(l L, hist []O)
	Save      func(l L) any
	Load      func(snap any) L

	MaxDepth  int
	MaxStates int
	Workers   int
	Stop      func() bool // budget exhausted?
}

type BFSResult struct {
	States         int
	Transitions    int
	DepthCompleted int
	FrontierLeft   int
	Exhaustive     bool // fixpoint reached (no frontier left, no cap hit)
	CapHit         string
	Outcomes       map[string]int
	Samples        []string
	PerDepth       []int
	SelfLoops      int
	Aux            map[string]int
}

type node[O any] struct {
	hist []O
	snap any
}

// BFS explores the space breadth first.  Deterministic: successors are merged in (parent, op) order.
func BFS[L any, O any](sp Space[L, O]) BFSResult {
	res := BFSResult{Outcomes: map[string]int{}}
	workers := sp.Workers
	if workers == 0 {
		workers = 16
	}
	obtain := func(n node[O]) L {
		if sp.Load != nil && n.snap != nil {
			return sp.Load(n.snap)
		}
		l := sp.New()
		for _, op := range n.hist {
			sp.Apply(l, op, false)
		}
		return l
	}
	seen := map[string]bool{}
	var mu sync.Mutex

	root := sp.New()
	rk := sp.Key(root)
	seen[rk] = true
	if sp.Invariant != nil {
		sp.Invariant(root, nil)
	}
	rootNode := node[O]{}
	if sp.Save != nil {
		rootNode.snap = sp.Save(root)
	}
	// determinism self-check on the root: a second fresh instance must have the same key.
	r2 := sp.New()
	if k2 := sp.Key(r2); k2 != rk {
		panic(fmt.Sprintf("CHECK-BROKEN: nondeterminism: two fresh instances differ:\n%s\n%s", rk, k2))
	}
	if sp.Close != nil {
		sp.Close(root)
		sp.Close(r2)
	}
	res.States = 1
	res.PerDepth = []int{1}
	frontier := []node[O]{rootNode}
	capped := false
	for depth := 0; len(frontier) > 0; depth++ {
		if sp.MaxDepth > 0 && depth >= sp.MaxDepth {
			res.CapHit = fmt.Sprintf("max depth %d", sp.MaxDepth)
			capped = true
			break
		}
		type succ struct {
			key  string
			n    node[O]
			desc string
		}
		out := make([][]succ, len(frontier))
		stopped := false
		ParForN(workers, len(frontier), func(i int) {
			if sp.Stop != nil && sp.Stop() {
				mu.Lock()
				stopped = true
				mu.Unlock()
				return
			}
			parent := frontier[i]
			l := obtain(parent)
			pk := sp.Key(l)
			ops := sp.Ops(l)
			fresh := true
			localOutcomes := map[string]int{}
			nself := 0
			for _, op := range ops {
				if !fresh {
					if sp.Close != nil {
						sp.Close(l)
					}
					l = obtain(parent)
				}
				oc := sp.Apply(l, op, true)
				localOutcomes[oc]++
				k := sp.Key(l)
				if k == pk {
					nself++
					continue // self-loop: instance can be reused (key captures the whole state)
				}
				fresh = false
				mu.Lock()
				dup := seen[k]
				if !dup {
					seen[k] = true
				}
				mu.Unlock()
				if dup {
					continue
				}
				h := append(append([]O{}, parent.hist...), op)
				if sp.Invariant != nil {
					sp.Invariant(l, h)
				}
				n := node[O]{hist: h}
				if sp.Save != nil {
					n.snap = sp.Save(l)
				}
				out[i] = append(out[i], succ{key: k, n: n, desc: fmt.Sprint(h)})
			}
			if sp.Close != nil {
				sp.Close(l)
			}
			mu.Lock()
			for k, v := range localOutcomes {
				res.Outcomes[k] += v
			}
			res.Transitions += len(ops)
			res.SelfLoops += nself
			mu.Unlock()
		})
		var next []node[O]
		for i := range out {
			for _, s := range out[i] {
				next = append(next, s.n)
				if len(res.Samples) < 3 || (len(res.Samples) < 6 && len(s.n.hist) > len(res.Samples)) {
					res.Samples = append(res.Samples, s.desc)
				}
			}
		}
		res.States += len(next)
		if stopped {
			res.CapHit = fmt.Sprintf("time budget during depth %d", depth+1)
			res.FrontierLeft = len(next)
			capped = true
			break
		}
		res.DepthCompleted = depth + 1
		res.PerDepth = append(res.PerDepth, len(next))
		frontier = next
		if sp.MaxStates > 0 && res.States >= sp.MaxStates && len(frontier) > 0 {
			res.CapHit = fmt.Sprintf("max states %d after depth %d", sp.MaxStates, depth+1)
			capped = true
			break
		}
	}
	if capped {
		if res.FrontierLeft == 0 {
			res.FrontierLeft = len(frontier)
		}
	} else {
		res.Exhaustive = true
	}
	return res
}

// Coverage renders the result in the keys the model_checking evidence level requires.
func (b BFSResult) Coverage(rule string) Coverage {
	samples := make([]interface{}, 0, len(b.Samples))
	for _, s := range b.Samples {
		samples = append(samples, s)
	}
	return Coverage{
		"states":                        b.States,
		"transitions":                   b.Transitions,
		"traces_validated_against_impl": b.Transitions,
		"samples":                       samples,
		"depth_completed":               b.DepthCompleted,
		"frontier_left":                 b.FrontierLeft,
		"exhaustive":                    b.Exhaustive,
		"cap_hit":                       b.CapHit,
		"outcome_histogram":             b.Outcomes,
		"states_per_depth":              b.PerDepth,
		"self_loops":                    b.SelfLoops,
		"rule":                          rule,
		"aux":                           b.Aux,
	}
}
