package engine

import (
	"runtime"
	"sync"
	"sync/atomic"
)

// ParFor runs f(i) for i in [0,n) on all cores. Work is handed out in index order.
func ParFor(n int, f func(i int)) {
	ParForN(runtime.NumCPU(), n, f)
}

func ParForN(workers, n int, f func(i int)) {
	if workers < 1 {
		workers = 1
	}
	if workers > n {
		workers = n
	}
	var next int64 = -1
	var wg sync.WaitGroup
	for w := 0; w < workers; w++ {
		wg.Add(1)
		go func() {
			defer wg.Done()
			for {
				i := int(atomic.AddInt64(&next, 1))
				if i >= n {
					return
				}
				f(i)
			}
		}()
	}
	wg.Wait()
}

// Counter is a concurrent histogram of outcome classes.
type Counter struct {
	mu sync.Mutex
	m  map[string]int
}

func NewCounter() *Counter { return &Counter{m: map[string]int{}} }
func (c *Counter) Add(k string) {
	c.mu.Lock()
	c.m[k]++
	c.mu.Unlock()
}
func (c *Counter) AddN(k string, n int) {
	c.mu.Lock()
	c.m[k] += n
	c.mu.Unlock()
}
func (c *Counter) Map() map[string]int {
	c.mu.Lock()
	defer c.mu.Unlock()
	out := map[string]int{}
	for k, v := range c.m {
		out[k] = v
	}
	return out
}
func (c *Counter) Len() int {
	c.mu.Lock()
	defer c.mu.Unlock()
	return len(c.m)
}
func (c *Counter) Get(k string) int {
	c.mu.Lock()
	defer c.mu.Unlock()
	return c.m[k]
}

// Set is a concurrent set of strings (distinct-case counting).
type Set struct {
	mu sync.Mutex
	m  map[string]struct{}
}

func NewSet() *Set { return &Set{m: map[string]struct{}{}} }
func (s *Set) Add(k string) bool {
	s.mu.Lock()
	defer s.mu.Unlock()
	if _, ok := s.m[k]; ok {
		return false
	}
	s.m[k] = struct{}{}
	return true
}
func (s *Set) Len() int {
	s.mu.Lock()
	defer s.mu.Unlock()
	return len(s.m)
}

// Catch runs f and converts a panic of the code under test into an observation.
func Catch(f func()) (panicked bool, msg string) {
	defer func() {
		if e := recover(); e != nil {
			panicked = true
			msg = fmtPanic(e)
		}
	}()
	f()
	return
}
