package engine

import (
	"bufio"
	"bytes"
	"encoding/binary"
	"encoding/gob"
	"encoding/json"
	"fmt"
	"io"
	"os"
	"os/exec"
	"runtime"
	"strconv"
	"sync"
)

// BFSMP is BFS with the expansion of frontier states farmed out to worker PROCESSES (same binary, re-executed).
// Use it when the code under test is expensive per transition or contends inside one address space (bolt mmap/munmap,
// global registries).  The master keeps the seen-set and the frontier (encoded snapshots); a worker obtains a state
// from its snapshot, evaluates the state oracle, offers every operation and returns the successors.
//
// Requirements on the Space: Save/Load set; EncodeSnap/DecodeSnap given; the check function must reach the same sequence of
// BFSMP calls deterministically in master and worker (workers are told which call to serve via VERIF_BFS_CALL).
type MP[L any, O any] struct {
	Space[L, O]
	EncodeSnap func(any) []byte
	DecodeSnap func([]byte) any
	Run        *Run
	// Counters returns-and-resets auxiliary counters accumulated by the oracles (merged into BFSResult.Aux).
	Counters func() map[string]int
	Procs    int
	// DescribeHist renders an op history for samples (default fmt.Sprint).
	SkipInvariantAtCap bool
}

type mpTask struct {
	Kind string // root | expand | check | quit
	Snap []byte
	Hist []byte // gob of []O
}

type mpSucc struct {
	Key  string
	Snap []byte
	Hist []byte
	Desc string
}

type mpResult struct {
	Key      string // root: key of the root
	Snap     []byte // root
	Succ     []mpSucc
	Outcomes map[string]int
	NOps     int
	NSelf    int
	Failures []Failure
	Aux      map[string]int
	Err      string
}

var mpCallCounter int

func writeMsg(w io.Writer, v interface{}) error {
	var buf bytes.Buffer
	if err := gob.NewEncoder(&buf).Encode(v); err != nil {
		return err
	}
	b := buf.Bytes()
	var err error
	var l [8]byte
	binary.LittleEndian.PutUint64(l[:], uint64(len(b)))
	if _, err := w.Write(l[:]); err != nil {
		return err
	}
	_, err = w.Write(b)
	return err
}

func readMsg(r io.Reader, v interface{}) error {
	var l [8]byte
	if _, err := io.ReadFull(r, l[:]); err != nil {
		return err
	}
	b := make([]byte, binary.LittleEndian.Uint64(l[:]))
	if _, err := io.ReadFull(r, b); err != nil {
		return err
	}
	return gob.NewDecoder(bytesReader(b)).Decode(v)
}

type byteReader struct {
	b []byte
	i int
}

func (r *byteReader) Read(p []byte) (int, error) {
	if r.i >= len(r.b) {
		return 0, io.EOF
	}
	n := copy(p, r.b[r.i:])
	r.i += n
	return n, nil
}
func bytesReader(b []byte) io.Reader { return &byteReader{b: b} }

func gobBytes(v interface{}) []byte {
	var buf bytes.Buffer
	if err := gob.NewEncoder(&buf).Encode(v); err != nil {
		panic("CHECK-BROKEN: gob: " + err.Error())
	}
	return buf.Bytes()
}

// DrainFailures returns and clears the failures recorded so far (used by worker processes to ship them to the master).
func (r *Run) DrainFailures() []Failure {
	r.mu.Lock()
	defer r.mu.Unlock()
	var out []Failure
	for _, fs := range r.failures {
		for _, f := range fs {
			if f.Case != nil {
				if b, err := json.Marshal(f.Case); err == nil {
					f.Case = string(b) // interface values must be gob-transportable
				} else {
					f.Case = fmt.Sprint(f.Case)
				}
			}
			f.Repro = nil
			out = append(out, f)
		}
	}
	r.failures = map[string][]Failure{}
	r.nfail = 0
	return out
}

// BFSMP runs the search; in a worker process it serves tasks for the matching call and exits the process.
func BFSMP[L any, O any](mp MP[L, O]) BFSResult {
	mpCallCounter++
	call := mpCallCounter
	if w := os.Getenv("VERIF_BFS_WORKER"); w != "" {
		if os.Getenv("VERIF_BFS_CALL") != strconv.Itoa(call) {
			return BFSResult{Outcomes: map[string]int{}}
		}
		mpServe(mp)
		os.Exit(0)
	}
	return mpMaster(mp, call)
}

func mpServe[L any, O any](mp MP[L, O]) {
	in := bufio.NewReaderSize(os.Stdin, 1<<20)
	out := bufio.NewWriterSize(os.Stdout, 1<<20)
	sp := mp.Space
	for {
		var t mpTask
		if err := readMsg(in, &t); err != nil {
			return
		}
		res := mpResult{Outcomes: map[string]int{}}
		func() {
			defer func() {
				if e := recover(); e != nil {
					res.Err = fmt.Sprint(e)
				}
			}()
			switch t.Kind {
			case "quit":
				os.Exit(0)
			case "root":
				l := sp.New()
				res.Key = sp.Key(l)
				res.Snap = mp.EncodeSnap(sp.Save(l))
				if sp.Close != nil {
					sp.Close(l)
				}
			case "check":
				var hist []O
				gob.NewDecoder(bytesReader(t.Hist)).Decode(&hist)
				l := sp.Load(mp.DecodeSnap(t.Snap))
				if sp.Invariant != nil {
					sp.Invariant(l, hist)
				}
				if sp.Close != nil {
					sp.Close(l)
				}
			case "expand":
				var hist []O
				gob.NewDecoder(bytesReader(t.Hist)).Decode(&hist)
				snap := mp.DecodeSnap(t.Snap)
				l := sp.Load(snap)
				if sp.Invariant != nil {
					sp.Invariant(l, hist)
				}
				pk := sp.Key(l)
				ops := sp.Ops(l)
				fresh := true
				for _, op := range ops {
					if !fresh {
						if sp.Close != nil {
							sp.Close(l)
						}
						l = sp.Load(snap)
						fresh = true
					}
					oc := sp.Apply(l, op, true)
					res.Outcomes[oc]++
					res.NOps++
					k := sp.Key(l)
					if k == pk {
						res.NSelf++
						continue
					}
					fresh = false
					h := append(append([]O{}, hist...), op)
					res.Succ = append(res.Succ, mpSucc{Key: k, Snap: mp.EncodeSnap(sp.Save(l)), Hist: gobBytes(h), Desc: fmt.Sprint(h)})
				}
				if sp.Close != nil {
					sp.Close(l)
				}
			}
		}()
		if mp.Run != nil {
			res.Failures = mp.Run.DrainFailures()
		}
		if mp.Counters != nil {
			res.Aux = mp.Counters()
		}
		if err := writeMsg(out, &res); err != nil {
			return
		}
		out.Flush()
	}
}

type mpWorker struct {
	cmd *exec.Cmd
	in  *bufio.Writer
	out *bufio.Reader
	pw  io.WriteCloser
}

func (w *mpWorker) do(t mpTask) (mpResult, error) {
	var res mpResult
	if err := writeMsg(w.in, &t); err != nil {
		return res, err
	}
	if err := w.in.Flush(); err != nil {
		return res, err
	}
	err := readMsg(w.out, &res)
	return res, err
}

func mpMaster[L any, O any](mp MP[L, O], call int) BFSResult {
	res := BFSResult{Outcomes: map[string]int{}, Aux: map[string]int{}}
	procs := mp.Procs
	if procs == 0 {
		procs = runtime.NumCPU()
	}
	exe, _ := os.Executable()
	var workers []*mpWorker
	spawn := func() *mpWorker {
		cmd := exec.Command(exe, os.Args[1:]...)
		cmd.Env = append(os.Environ(), "VERIF_BFS_WORKER=1", "VERIF_BFS_CALL="+strconv.Itoa(call), "GOMAXPROCS=2", "VERIF_SCRATCH_BASE="+Scratch())
		cmd.Stderr = os.Stderr
		pin, _ := cmd.StdinPipe()
		pout, _ := cmd.StdoutPipe()
		if err := cmd.Start(); err != nil {
			panic("CHECK-BROKEN: cannot start BFS worker: " + err.Error())
		}
		return &mpWorker{cmd: cmd, in: bufio.NewWriterSize(pin, 1<<20), out: bufio.NewReaderSize(pout, 1<<20), pw: pin}
	}
	for i := 0; i < procs; i++ {
		workers = append(workers, spawn())
	}
	defer func() {
		for _, w := range workers {
			w.pw.Close()
			w.cmd.Wait()
		}
	}()
	absorb := func(r mpResult) {
		for k, v := range r.Outcomes {
			res.Outcomes[k] += v
		}
		for k, v := range r.Aux {
			res.Aux[k] += v
		}
		res.Transitions += r.NOps
		res.SelfLoops += r.NSelf
		if mp.Run != nil {
			for _, f := range r.Failures {
				mp.Run.Fail(f)
			}
		}
	}
	// root, twice (determinism self-check)
	r1, err1 := workers[0].do(mpTask{Kind: "root"})
	r2, err2 := workers[len(workers)-1].do(mpTask{Kind: "root"})
	if err1 != nil || err2 != nil || r1.Err != "" || r2.Err != "" {
		panic(fmt.Sprintf("CHECK-BROKEN: BFS worker failed on the root: %v %v %s %s", err1, err2, r1.Err, r2.Err))
	}
	if r1.Key != r2.Key {
		panic(fmt.Sprintf("CHECK-BROKEN: nondeterminism: two fresh instances differ: %s vs %s", r1.Key, r2.Key))
	}
	absorb(r1)
	absorb(r2)
	seen := map[string]bool{r1.Key: true}
	type fnode struct {
		snap []byte
		hist []byte
	}
	frontier := []fnode{{snap: r1.Snap, hist: gobBytes([]O{})}}
	res.States = 1
	res.PerDepth = []int{1}
	capped := false
	runLevel := func(kind string, nodes []fnode) ([]mpResult, bool) {
		out := make([]mpResult, len(nodes))
		var next int
		var mu sync.Mutex
		stopped := false
		var wg sync.WaitGroup
		for wi := range workers {
			wg.Add(1)
			go func(wi int) {
				defer wg.Done()
				for {
					mu.Lock()
					if stopped || next >= len(nodes) {
						mu.Unlock()
						return
					}
					if mp.Stop != nil && mp.Stop() {
						stopped = true
						mu.Unlock()
						return
					}
					i := next
					next++
					mu.Unlock()
					r, err := workers[wi].do(mpTask{Kind: kind, Snap: nodes[i].snap, Hist: nodes[i].hist})
					if err != nil || r.Err != "" {
						// a worker death is a harness problem here (code under test is expected not to kill the process in this engine)
						msg := r.Err
						if err != nil {
							msg = err.Error()
						}
						var h []O
						gob.NewDecoder(bytesReader(nodes[i].hist)).Decode(&h)
						if mp.Run != nil {
							mp.Run.Broken("BFS worker failed while expanding %v: %s", h, msg)
						}
						mu.Lock()
						workers[wi].pw.Close()
						workers[wi].cmd.Wait()
						workers[wi] = spawn()
						mu.Unlock()
						r = mpResult{Outcomes: map[string]int{}}
					}
					out[i] = r
				}
			}(wi)
		}
		wg.Wait()
		return out[:next], stopped
	}
	for depth := 0; len(frontier) > 0; depth++ {
		if mp.MaxDepth > 0 && depth >= mp.MaxDepth {
			res.CapHit = fmt.Sprintf("max depth %d", mp.MaxDepth)
			capped = true
			break
		}
		results, stopped := runLevel("expand", frontier)
		var nextF []fnode
		for _, r := range results {
			absorb(r)
			for _, s := range r.Succ {
				if seen[s.Key] {
					continue
				}
				seen[s.Key] = true
				nextF = append(nextF, fnode{snap: s.Snap, hist: s.Hist})
				if len(res.Samples) < 3 || (len(res.Samples) < 6 && depth+1 > len(res.Samples)) {
					res.Samples = append(res.Samples, s.Desc)
				}
			}
		}
		res.States += len(nextF)
		if stopped {
			res.CapHit = fmt.Sprintf("time budget during depth %d (%d of %d frontier states expanded)", depth+1, len(results), len(frontier))
			res.FrontierLeft = len(nextF) + len(frontier) - len(results)
			capped = true
			frontier = nextF
			break
		}
		res.DepthCompleted = depth + 1
		res.PerDepth = append(res.PerDepth, len(nextF))
		frontier = nextF
		if mp.MaxStates > 0 && res.States >= mp.MaxStates && len(frontier) > 0 {
			res.CapHit = fmt.Sprintf("max states %d after depth %d", mp.MaxStates, depth+1)
			capped = true
			break
		}
	}
	if capped {
		if res.FrontierLeft == 0 {
			res.FrontierLeft = len(frontier)
		}
		// states on the last frontier were reached but never expanded: evaluate the state oracle on them
		if !mp.SkipInvariantAtCap && (mp.Stop == nil || !mp.Stop()) {
			results, _ := runLevel("check", frontier)
			for _, r := range results {
				absorb(r)
			}
			res.Aux["frontier_states_checked_by_state_oracle"] += len(results)
		}
	} else {
		res.Exhaustive = true
	}
	return res
}
