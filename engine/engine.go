// Package engine holds the plumbing shared by every check: tier/seed handling,
// evidence files, violation + known-finding reporting, replay files.
package engine

import (
	"encoding/json"
	"fmt"
	"os"
	"path/filepath"
	"sort"
	"strconv"
	"strings"
	"sync"
	"time"
)

// Root is the verif directory the check runs from (a snapshot worktree under `vp run`, /verif otherwise).
var Root = func() string {
	if r := os.Getenv("VERIF_ROOT"); r != "" {
		return r
	}
	return "/verif"
}()

// Failure is one violation of a property found by a check.
type Failure struct {
	// Sig is the signature matched against known_findings.json: site + symptom + discriminating class.
	Sig string `json:"signature"`
	// Detail is a human-readable description of the failing case.
	Detail string `json:"detail"`
	// Case is the replayable artefact (input tuple, op list, schedule, crash image recipe).
	Case interface{} `json:"case"`
	// Repro re-executes the case from scratch; returns true when the failure shows again. Optional.
	Repro func() bool `json:"-"`
}

type Finding struct {
	Property    string `json:"property"`
	ID          string `json:"id"`
	Status      string `json:"status"` // known | fixed
	Signature   string `json:"signature"`
	Description string `json:"description"`
	Commit      string `json:"commit,omitempty"`
}

type Run struct {
	ID    string
	Tier  string
	Seed  int64
	Level string
	start time.Time

	mu          sync.Mutex
	failures    map[string][]Failure // by signature
	nfail       int
	Assumptions []string
	broken      string
	// RaceWorkload, when set, makes Finish run the free-running race-detector supplement (engine.RacePass) with that workload.
	RaceWorkload string
	deadline    time.Time
}

// Start parses "<id> <tier>" style arguments prepared by the group main.
func Start(id, tier, level string) *Run {
	seed := int64(0)
	if s := os.Getenv("VERIF_SEED"); s != "" {
		if v, err := strconv.ParseInt(s, 10, 64); err == nil {
			seed = v
		}
	}
	if tier != "quick" && tier != "thorough" {
		fmt.Fprintf(os.Stderr, "CHECK-BROKEN: bad tier %q\n", tier)
		os.Exit(2)
	}
	r := &Run{ID: id, Tier: tier, Seed: seed, Level: level, start: time.Now(), failures: map[string][]Failure{}}
	if os.Getenv("VERIF_BFS_WORKER") == "" {
		// replay files of earlier runs of this check are stale
		if old, err := filepath.Glob(filepath.Join(Root, "replays", id+"-*.json")); err == nil {
			for _, f := range old {
				os.Remove(f)
			}
		}
	}
	return r
}

func (r *Run) Quick() bool    { return r.Tier == "quick" }
func (r *Run) Thorough() bool { return r.Tier == "thorough" }

// Pick returns q for the quick tier and t for the thorough one.
func (r *Run) Pick(q, t int) int {
	if r.Quick() {
		return q
	}
	return t
}

// SetBudget sets a wall-clock budget after which capped explorations stop (exit 0, exhaustive:false).
func (r *Run) SetBudget(d time.Duration) { r.deadline = r.start.Add(d) }
func (r *Run) OutOfTime() bool {
	return !r.deadline.IsZero() && time.Now().After(r.deadline)
}
func (r *Run) Elapsed() time.Duration { return time.Since(r.start) }

// Fail records a violation. Safe for concurrent use. At most 20 failures are kept per signature.
func (r *Run) Fail(f Failure) {
	r.mu.Lock()
	defer r.mu.Unlock()
	r.nfail++
	if len(r.failures[f.Sig]) < 20 {
		r.failures[f.Sig] = append(r.failures[f.Sig], f)
	}
}

func (r *Run) Failf(sig string, c interface{}, format string, a ...interface{}) {
	r.Fail(Failure{Sig: sig, Case: c, Detail: fmt.Sprintf(format, a...)})
}

// Broken marks the check itself as unusable (vacuous exploration, nondeterminism, missing symbol...).
func (r *Run) Broken(format string, a ...interface{}) {
	r.mu.Lock()
	defer r.mu.Unlock()
	if r.broken == "" {
		r.broken = fmt.Sprintf(format, a...)
	}
}

func loadFindings() []Finding {
	b, err := os.ReadFile(filepath.Join(Root, "known_findings.json"))
	if err != nil {
		return nil
	}
	var fs []Finding
	if err := json.Unmarshal(b, &fs); err != nil {
		fmt.Fprintf(os.Stderr, "CHECK-BROKEN: known_findings.json: %v\n", err)
		os.Exit(2)
	}
	return fs
}

// Coverage is the "coverage" object of the evidence file; checks fill the keys their level needs.
type Coverage map[string]interface{}

// Finish writes the evidence file, prints KNOWN-FINDING / VIOLATION lines and exits.
func (r *Run) Finish(cov Coverage) {
	if cov == nil {
		cov = Coverage{}
	}
	if r.RaceWorkload != "" && os.Getenv("VERIF_BFS_WORKER") == "" {
		r.RacePassInto(r.RaceWorkload, cov)
	}
	wall := time.Since(r.start).Seconds()
	known := map[string]Finding{}
	for _, f := range loadFindings() {
		if f.Property == r.ID && f.Status == "known" {
			known[f.Signature] = f
		}
	}
	sigs := make([]string, 0, len(r.failures))
	for s := range r.failures {
		sigs = append(sigs, s)
	}
	sort.Strings(sigs)
	nviol := 0
	var knownSeen []string
	var lines []string
	flaky := ""
	for _, s := range sigs {
		fs := r.failures[s]
		// shortest case first: it is the one shown in the detail line and the first one a replay executes
		sort.SliceStable(fs, func(i, j int) bool { return len(fs[i].Detail) < len(fs[j].Detail) })
		// 5x reproduction rule for the first failure of each signature.
		if fs[0].Repro != nil {
			ok := 0
			for i := 0; i < 5; i++ {
				if fs[0].Repro() {
					ok++
				}
			}
			if ok != 5 {
				flaky = fmt.Sprintf("signature %q reproduced %d/5: %s", s, ok, fs[0].Detail)
				continue
			}
		}
		if kf, ok := known[s]; ok {
			knownSeen = append(knownSeen, s)
			lines = append(lines, fmt.Sprintf("KNOWN-FINDING: property=%s %s [%s] (%d cases, e.g. %s)", r.ID, kf.Description, s, len(fs), oneLine(fs[0].Detail)))
			continue
		}
		nviol++
		os.MkdirAll(filepath.Join(Root, "replays"), 0o755)
		path := filepath.Join(Root, "replays", fmt.Sprintf("%s-%s.json", r.ID, sanitize(s)))
		rep := map[string]interface{}{"property": r.ID, "tier": r.Tier, "signature": s, "failures": fs, "tree": treeID()}
		b, _ := json.MarshalIndent(rep, "", " ")
		os.WriteFile(path, b, 0o644)
		lines = append(lines, fmt.Sprintf("  detail: %s", oneLine(fs[0].Detail)))
		lines = append(lines, fmt.Sprintf("VIOLATION property=%s replay=%s", r.ID, path))
	}
	if cov == nil {
		cov = Coverage{}
	}
	cov["known_findings_seen"] = knownSeen
	cov["failing_cases"] = r.nfail
	ev := map[string]interface{}{
		"property_id": r.ID,
		"tier":        r.Tier,
		"seed":        r.Seed,
		"level":       r.Level,
		"coverage":    cov,
		"assumptions": r.Assumptions,
		"wall_s":      wall,
		"violations":  nviol,
		"tree":        treeID(),
	}
	if r.Assumptions == nil {
		ev["assumptions"] = []string{}
	}
	b, err := json.MarshalIndent(ev, "", " ")
	if err != nil {
		fmt.Fprintf(os.Stderr, "CHECK-BROKEN: evidence marshal: %v\n", err)
		os.Exit(2)
	}
	evDir := filepath.Join(Root, "evidence")
	if os.Getenv("VERIF_MUTANT") != "" {
		// a selftest run against a deliberately broken overlay must not replace the evidence of the real tree
		evDir = filepath.Join(Root, ".build", "mutant-evidence")
	}
	os.MkdirAll(evDir, 0o755)
	if err := os.WriteFile(filepath.Join(evDir, r.ID+".json"), append(b, '\n'), 0o644); err != nil {
		fmt.Fprintf(os.Stderr, "CHECK-BROKEN: evidence write: %v\n", err)
		os.Exit(2)
	}
	for _, l := range lines {
		fmt.Println(l)
	}
	Cleanup() // Finish exits the process: clean-up deferred in main would not run
	if r.broken != "" || flaky != "" {
		fmt.Fprintf(os.Stderr, "CHECK-BROKEN: %s %s\n", r.broken, flaky)
		os.Exit(2)
	}
	summary(r, cov, wall, nviol)
	if nviol > 0 {
		os.Exit(1)
	}
	os.Exit(0)
}

func summary(r *Run, cov Coverage, wall float64, nviol int) {
	keys := []string{"states", "transitions", "evaluations", "distinct_nontrivial", "exhaustive", "depth_completed"}
	var parts []string
	for _, k := range keys {
		if v, ok := cov[k]; ok {
			parts = append(parts, fmt.Sprintf("%s=%v", k, v))
		}
	}
	fmt.Printf("%s %s: %s violations=%d wall=%.1fs\n", r.ID, r.Tier, strings.Join(parts, " "), nviol, wall)
}

func oneLine(s string) string {
	s = strings.ReplaceAll(s, "\n", " | ")
	if len(s) > 400 {
		s = s[:400] + "…"
	}
	return s
}

func sanitize(s string) string {
	var b strings.Builder
	for _, c := range s {
		if c >= 'a' && c <= 'z' || c >= 'A' && c <= 'Z' || c >= '0' && c <= '9' || c == '-' || c == '_' || c == '.' {
			b.WriteRune(c)
		} else {
			b.WriteByte('_')
		}
	}
	out := b.String()
	if len(out) > 80 {
		out = out[:80]
	}
	return out
}

func treeID() string { return os.Getenv("VERIF_TREE") }

// Scratch returns a per-process scratch directory on tmpfs (removed by Cleanup).
var scratchOnce sync.Once
var scratchDir string

func Scratch() string {
	scratchOnce.Do(func() {
		base := "/dev/shm"
		if parent := os.Getenv("VERIF_SCRATCH_BASE"); parent != "" {
			base = parent // a worker process: inside the scratch directory of the check that started it, which removes it
		}
		if st, err := os.Stat(base); err != nil || !st.IsDir() {
			base = filepath.Join(Root, ".scratch")
			os.MkdirAll(base, 0o755)
		}
		d, err := os.MkdirTemp(base, fmt.Sprintf("verif-%d-", os.Getpid()))
		if err != nil {
			fmt.Fprintf(os.Stderr, "CHECK-BROKEN: scratch: %v\n", err)
			os.Exit(2)
		}
		scratchDir = d
	})
	return scratchDir
}

func Cleanup() {
	if scratchDir != "" {
		os.RemoveAll(scratchDir)
	}
}

func fmtPanic(e interface{}) string {
	s := fmt.Sprint(e)
	if len(s) > 300 {
		s = s[:300]
	}
	return s
}
