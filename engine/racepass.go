package engine

import (
	"bytes"
	"fmt"
	"os"
	"os/exec"
	"path/filepath"
	"regexp"
	"strings"
	"time"
)

// RacePass is the SUPPLEMENT the model-checking guidance asks for next to any enumeration of sequential executions: the same
// API calls are run free-running from several goroutines in a binary built with the Go race detector (from the current /repo
// tree, through the same overlay as the check, so mutants and seeded changes are honoured).  It can only ADD findings
// (unsynchronised shared state inside functions that must be re-entrant: a package-level scratch variable, a cache without a
// lock); it never clears anything and its silence is not evidence.
//
// Returns the sites of the reported races (innermost repository functions), "" if none, and the raw report.
func RacePass(workload string) (sites []string, report string, err error) {
	b := os.Getenv("VERIF_BUILD_DIR")
	if b == "" {
		return nil, "", fmt.Errorf("VERIF_BUILD_DIR not set")
	}
	// "group:workload" selects the workload package checks/racepass/<group> (it may use that group's export files)
	pkg := "./checks/racepass"
	if i := strings.Index(workload, ":"); i > 0 {
		pkg, workload = "./checks/racepass/"+workload[:i], workload[i+1:]
	}
	bin := filepath.Join(b, "racepass")
	build := exec.Command("go", "build", "-race", "-tags", "verif", "-overlay", filepath.Join(b, "overlay.json"), "-o", bin, pkg)
	build.Dir = Root
	if out, e := build.CombinedOutput(); e != nil {
		return nil, "", fmt.Errorf("race build failed: %v: %s", e, out)
	}
	cmd := exec.Command("/bin/bash", "-c", "ulimit -S -v unlimited 2>/dev/null; exec \"$0\" \"$1\"", bin, workload)
	cmd.Env = append(os.Environ(), "GORACE=halt_on_error=0 exitcode=0 history_size=2", "GOMAXPROCS=8")
	var so, se bytes.Buffer
	cmd.Stdout, cmd.Stderr = &so, &se
	done := make(chan error, 1)
	if e := cmd.Start(); e != nil {
		return nil, "", e
	}
	go func() { done <- cmd.Wait() }()
	select {
	case e := <-done:
		if e != nil {
			return nil, se.String(), fmt.Errorf("race pass %s: %v: %s", workload, e, tailStr(se.String(), 400))
		}
	case <-time.After(300 * time.Second):
		// a supplement must never raise an alarm of its own: an overloaded machine only means "nothing added"
		cmd.Process.Kill()
		<-done
		return nil, "", errRaceSkipped
	}
	report = se.String()
	if !strings.Contains(report, "WARNING: DATA RACE") {
		return nil, "", nil
	}
	// innermost repository function of each racing access
	re := regexp.MustCompile(`(?m)^  (github\.com/skycoin/skycoin/[^\s]+?)\(\)?\s*$`)
	seen := map[string]bool{}
	ignored := 0
	reTop := regexp.MustCompile(`(?m)^(?:Read|Write|Previous read|Previous write) at [^\n]*\n  (\S+)`)
	for _, blk := range strings.Split(report, "WARNING: DATA RACE")[1:] {
		// a race on the internal state of a math/rand generator (both accesses inside math/rand) is not a race on any state the
		// listed properties talk about (pex's package-level *rand.Rand is used by concurrent readers): recorded, not filed
		if tops := reTop.FindAllStringSubmatch(blk, 2); len(tops) == 2 && strings.HasPrefix(tops[0][1], "math/rand.") && strings.HasPrefix(tops[1][1], "math/rand.") {
			ignored++
			continue
		}
		if m := re.FindStringSubmatch(blk); m != nil && !seen[m[1]] {
			seen[m[1]] = true
			sites = append(sites, m[1])
		}
	}
	if len(sites) == 0 && ignored == 0 {
		sites = []string{"unknown-site"}
	}
	RaceIgnored = ignored
	if len(report) > 6000 {
		report = report[:6000]
	}
	return sites, report, nil
}

// RaceIgnored: number of reports of the last pass that were not filed (races inside math/rand generator state).
var RaceIgnored int

var errRaceSkipped = fmt.Errorf("race pass did not finish within 300 s (skipped)")

func tailStr(s string, n int) string {
	if len(s) > n {
		return s[len(s)-n:]
	}
	return s
}

// RacePassInto runs the pass for a check and files every race as a violation of the property.
func (r *Run) RacePassInto(workload string, cov Coverage) {
	sites, rep, err := RacePass(workload)
	info := map[string]interface{}{"workload": workload, "races": len(sites), "reports_not_filed_rng_state": RaceIgnored}
	if err == errRaceSkipped {
		info["skipped"] = err.Error()
	} else if err != nil {
		info["error"] = err.Error()
		r.Broken("race-detector supplement: %v", err)
	}
	for _, s := range sites {
		r.Failf("data-race:"+s, map[string]interface{}{"workload": workload, "report": rep}, "free-running race-detector pass (%s): unsynchronised shared state reached from concurrent calls, innermost repository function %s", workload, s)
	}
	if cov != nil {
		cov["race_detector_supplement"] = info
	}
	r.Assumptions = append(r.Assumptions, "supplement (can only add findings, never clears): the workload '"+workload+"' is run free-running from 8 goroutines in a -race build of the current tree")
}
