#!/bin/bash
# MANIFEST.setup_cmd: build the framework from files on disk only (offline) and warm the build cache.
cd "$(dirname "$0")" || exit 1
export GOFLAGS=-mod=mod GOPROXY=off GOSUMDB=off GOTOOLCHAIN=local GOCACHE=$(pwd)/.cache
mkdir -p .build evidence replays
go build -o .build/ovgen ./tools/ovgen || exit 1
for g in $(ls checks); do
  B=.build/$g; mkdir -p $B
  .build/ovgen -group $g -out $(pwd)/$B >/dev/null || exit 1
  if [ -x checks/$g/pregen.sh ]; then checks/$g/pregen.sh "$(pwd)/$B" || exit 1; fi
  go build -tags verif -overlay $B/overlay.json -o $B/check ./checks/$g || exit 1
  # warm the -race build (race-detector supplement, engine/racepass.go) so that no check pays for it in its own time
  case $g in
    txn|crypto|codec|pure) go build -race -tags verif -overlay $B/overlay.json -o $B/racepass ./checks/racepass || exit 1 ;;
    peers|wsvc)            go build -race -tags verif -overlay $B/overlay.json -o $B/racepass ./checks/racepass/$g || exit 1 ;;
  esac
done
echo setup ok
