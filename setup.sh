#!/bin/bash
# MANIFEST.setup_cmd: build the framework from files on disk only (offline) and warm the build cache.
cd "$(dirname "$0")" || exit 1
export GOFLAGS=-mod=mod GOPROXY=off GOSUMDB=off GOTOOLCHAIN=local GOCACHE=$(pwd)/.cache
mkdir -p .build evidence replays
go build -o .build/ovgen ./tools/ovgen || exit 1
for g in $(ls checks); do
  B=.build/$g; mkdir -p $B
  .build/ovgen -group $g -out $(pwd)/$B >/dev/null || exit 1
  if [ -x checks/$g/pregen.sh ]; then checks/$g/pregen.sh "$(pwd)/$B" || exit 1; fi
  go build -tags verif -overlay $B/overlay.json -o $B/check ./checks/$g || exit 1
done
echo setup ok
