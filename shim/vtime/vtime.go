// Package vtime is a drop-in seam for the parts of package time the skycoin files under test use.
// Repo files get their `time` import redirected here by ovgen (import-spec rewrite only).  By default
// everything passes through to the real clock; a harness calls Set/Advance to switch to a virtual clock.
// Under the virtual clock, timers and tickers never fire (a harness that wants a timer to fire calls Fire).
package vtime

import (
	"sync"
	"time"
)

type (
	Time     = time.Time
	Duration = time.Duration
	Timer    = time.Timer
	Ticker   = time.Ticker
	Month    = time.Month
	Location = time.Location
)

const (
	Nanosecond  = time.Nanosecond
	Microsecond = time.Microsecond
	Millisecond = time.Millisecond
	Second      = time.Second
	Minute      = time.Minute
	Hour        = time.Hour
	RFC3339     = time.RFC3339
	RFC3339Nano = time.RFC3339Nano
)

var UTC = time.UTC

var (
	mu      sync.Mutex
	virtual bool
	now     time.Time
	tick    time.Duration // auto-tick: every Now() under the virtual clock advances it by this much (0 = off)
)

// SetAutoTick makes every Now() call under the virtual clock advance the clock by d afterwards (0 switches
// it off, the default).  With a tick no two calls observe the same instant, which removes timestamp ties
// (and with them map-iteration-order dependent tie-breaks) from the code under test.
func SetAutoTick(d time.Duration) { mu.Lock(); tick = d; mu.Unlock() }

// Peek returns the virtual clock without ticking it; ok=false when the real clock is in use.
func Peek() (t time.Time, ok bool) { mu.Lock(); defer mu.Unlock(); return now, virtual }

// Set switches to the virtual clock at t.
func Set(t time.Time) { mu.Lock(); virtual, now = true, t; mu.Unlock() }

// SetUnix switches to the virtual clock at the given unix second.
func SetUnix(sec int64) { Set(time.Unix(sec, 0).UTC()) }

// Advance moves the virtual clock forward.
func Advance(d time.Duration) { mu.Lock(); now = now.Add(d); mu.Unlock() }

// Real switches back to the real clock.
func Real() { mu.Lock(); virtual = false; mu.Unlock() }

func Now() time.Time {
	mu.Lock()
	defer mu.Unlock()
	if virtual {
		t := now
		now = now.Add(tick)
		return t
	}
	return time.Now()
}

func Since(t time.Time) time.Duration { return Now().Sub(t) }
func Until(t time.Time) time.Duration { return t.Sub(Now()) }
func Unix(sec, nsec int64) time.Time  { return time.Unix(sec, nsec) }
func Date(year int, month Month, day, hour, min, sec, nsec int, loc *Location) time.Time {
	return time.Date(year, month, day, hour, min, sec, nsec, loc)
}
func ParseDuration(s string) (time.Duration, error) { return time.ParseDuration(s) }
func Parse(layout, value string) (time.Time, error) { return time.Parse(layout, value) }

func isVirtual() bool { mu.Lock(); defer mu.Unlock(); return virtual }

// Sleep returns immediately under the virtual clock (and advances it), otherwise sleeps.
func Sleep(d time.Duration) {
	if isVirtual() {
		Advance(d)
		return
	}
	time.Sleep(d)
}

const never = time.Duration(1<<62 - 1)

func After(d time.Duration) <-chan time.Time {
	if isVirtual() {
		return make(chan time.Time) // never fires
	}
	return time.After(d)
}

func NewTimer(d time.Duration) *time.Timer {
	if isVirtual() {
		return time.NewTimer(never)
	}
	return time.NewTimer(d)
}

func NewTicker(d time.Duration) *time.Ticker {
	if isVirtual() {
		return time.NewTicker(never)
	}
	return time.NewTicker(d)
}

func Tick(d time.Duration) <-chan time.Time {
	if isVirtual() {
		return make(chan time.Time)
	}
	return time.Tick(d)
}

func AfterFunc(d time.Duration, f func()) *time.Timer {
	if isVirtual() {
		return time.AfterFunc(never, f)
	}
	return time.AfterFunc(d, f)
}
