// Package vnet is the drop-in for package net in concurrency-rewritten files (property C32): an in-memory
// TCP-like network whose blocking Accept / Read are scheduling points of verif/shim/vsched.
//
// Model: Listen registers a listener under its address for the current execution; Dial to a listening
// address succeeds immediately (the connection sits in the backlog until Accept takes it, as with a kernel
// accept queue), Dial to anything else is refused.  A connection is a pair of unbounded byte queues: Write
// never blocks, Read blocks until data, peer close (io.EOF) or local Close (error).  Deadlines are accepted
// and never expire.  No happens-before edge is derived from network traffic (the race monitor treats data
// sent over a socket as unsynchronised, like the Go memory model does).
package vnet

import (
	"errors"
	"fmt"
	"io"
	"net"
	"strconv"
	"strings"
	"syscall"
	"time"

	"verif/shim/vsched"
)

type (
	Conn     = net.Conn
	Listener = net.Listener
	Addr     = net.Addr
	Error    = net.Error
	OpError  = net.OpError
	TCPAddr  = net.TCPAddr
	IP       = net.IP
)

var ErrClosed = net.ErrClosed

func SplitHostPort(hostport string) (host, port string, err error) {
	return net.SplitHostPort(hostport)
}
func JoinHostPort(host, port string) string { return net.JoinHostPort(host, port) }
func ParseIP(s string) net.IP               { return net.ParseIP(s) }

type addr string

func (a addr) Network() string { return "tcp" }
func (a addr) String() string  { return string(a) }

func normalize(w *vsched.World, address string) (string, error) {
	host, port, err := net.SplitHostPort(address)
	if err != nil {
		return "", &net.OpError{Op: "listen", Net: "tcp", Err: err}
	}
	if host == "" || host == "0.0.0.0" {
		host = "127.0.0.1"
	}
	p, err := strconv.Atoi(port)
	if err != nil {
		return "", &net.OpError{Op: "listen", Net: "tcp", Err: err}
	}
	if p == 0 {
		w.NetPort++
		p = w.NetPort
	}
	return net.JoinHostPort(host, strconv.Itoa(p)), nil
}

type listener struct {
	obj     *vsched.Obj
	a       addr
	backlog []*conn
	closed  bool
}

// Listen mirrors net.Listen.
func Listen(network, address string) (net.Listener, error) {
	w := vsched.Cur()
	if !strings.HasPrefix(network, "tcp") {
		return nil, fmt.Errorf("vnet: unsupported network %q", network)
	}
	reg := regObj(w)
	vsched.Point("net.Listen "+address, 0x301, nil, reg)
	a, err := normalize(w, address)
	if err != nil {
		return nil, err
	}
	if _, ok := w.NetRegistry()[a]; ok {
		return nil, &net.OpError{Op: "listen", Net: "tcp", Err: syscall.EADDRINUSE}
	}
	l := &listener{obj: vsched.NewObj("listener " + a), a: addr(a)}
	w.NetRegistry()[a] = l
	return l, nil
}

func regObj(w *vsched.World) *vsched.Obj {
	r := w.NetRegistry()
	if o, ok := r["\x00obj"]; ok {
		return o.(*vsched.Obj)
	}
	o := vsched.NewObj("net-registry")
	r["\x00obj"] = o
	return o
}

func (l *listener) Accept() (net.Conn, error) {
	vsched.Point("Accept "+string(l.a), 0x302, func() bool { return len(l.backlog) > 0 || l.closed }, l.obj)
	if l.closed {
		return nil, &net.OpError{Op: "accept", Net: "tcp", Addr: l.a, Err: net.ErrClosed}
	}
	c := l.backlog[0]
	l.backlog = l.backlog[1:]
	return c, nil
}

func (l *listener) Close() error {
	w := vsched.Cur()
	vsched.Point("Listener.Close "+string(l.a), 0x303, nil, l.obj, regObj(w))
	if l.closed {
		return &net.OpError{Op: "close", Net: "tcp", Addr: l.a, Err: net.ErrClosed}
	}
	l.closed = true
	delete(w.NetRegistry(), string(l.a))
	for _, c := range l.backlog {
		// connections never accepted are reset
		c.closed = true
		c.out.wclosed = true
		c.in.rclosed = true
	}
	l.backlog = nil
	return nil
}

func (l *listener) Addr() net.Addr { return l.a }

// half is one direction of a connection.
type half struct {
	obj     *vsched.Obj
	buf     []byte
	wclosed bool // the writing end was closed: reader gets io.EOF after draining
	rclosed bool // the reading end was closed: writer gets EPIPE
	limit   int  // > 0: a Write waits while limit or more bytes are unread (a peer that has stopped reading stalls the writer)
}

type pipeLimit struct{ n int }

// SetPipeLimit makes every connection dialled afterwards in this execution bounded: a Write blocks while n or more bytes are
// unread, until the other end reads or either end closes - the send buffer of a TCP connection whose peer stopped reading.
// (Deadlines never expire in this world, so a stalled Write ends only with a read or a close.)
func SetPipeLimit(n int) { vsched.Cur().NetRegistry()["#pipe-limit"] = &pipeLimit{n} }

type conn struct {
	local, remote         addr
	in, out               *half
	closed                bool
	nRead, nWrite, nClose string // operation names (precomputed)
}

func (c *conn) names() *conn {
	c.nRead = "Read " + string(c.local) + "<-" + string(c.remote)
	c.nWrite = "Write " + string(c.local) + "->" + string(c.remote)
	c.nClose = "Conn.Close " + string(c.local) + "-" + string(c.remote)
	return c
}

// DialTimeout mirrors net.DialTimeout (the timeout never expires: a dial either succeeds or is refused at once).
func DialTimeout(network, address string, timeout time.Duration) (net.Conn, error) {
	return DialFrom("", address)
}

// Dial mirrors net.Dial.
func Dial(network, address string) (net.Conn, error) { return DialFrom("", address) }

// DialFrom dials address from the given local address ("" = next ephemeral port); harness peers use it to
// choose their source address.
func DialFrom(local, address string) (net.Conn, error) {
	w := vsched.Cur()
	reg := regObj(w)
	var l *listener
	host, port, err := net.SplitHostPort(address)
	if err != nil {
		return nil, &net.OpError{Op: "dial", Net: "tcp", Err: err}
	}
	if host == "" {
		host = "127.0.0.1"
	}
	key := net.JoinHostPort(host, port)
	// the dial synchronises with the registry (is someone listening?) and, if so, with the listener's backlog
	vsched.Point("net.Dial "+key, 0x304, nil, reg)
	if x, ok := w.NetRegistry()[key]; ok {
		l = x.(*listener)
	}
	if l == nil || l.closed {
		return nil, &net.OpError{Op: "dial", Net: "tcp", Addr: addr(key), Err: syscall.ECONNREFUSED}
	}
	if local == "" {
		w.NetPort++
		local = "127.0.0.1:" + strconv.Itoa(w.NetPort)
	}
	ab := &half{obj: vsched.NewObj("pipe " + local + "->" + key)}
	ba := &half{obj: vsched.NewObj("pipe " + key + "->" + local)}
	if pl, ok := w.NetRegistry()["#pipe-limit"].(*pipeLimit); ok {
		ab.limit, ba.limit = pl.n, pl.n
	}
	client := (&conn{local: addr(local), remote: addr(key), in: ba, out: ab}).names()
	server := (&conn{local: addr(key), remote: addr(local), in: ab, out: ba}).names()
	vsched.Point("connect (enqueue in backlog) "+key, 0x305, nil, l.obj)
	if l.closed {
		return nil, &net.OpError{Op: "dial", Net: "tcp", Addr: addr(key), Err: syscall.ECONNREFUSED}
	}
	l.backlog = append(l.backlog, server)
	return client, nil
}

var errClosedConn = errors.New("use of closed network connection")

func (c *conn) Read(p []byte) (int, error) {
	vsched.Point(c.nRead, 0x311, func() bool { return len(c.in.buf) > 0 || c.in.wclosed || c.closed }, c.in.obj)
	if c.closed {
		return 0, &net.OpError{Op: "read", Net: "tcp", Source: c.local, Addr: c.remote, Err: errClosedConn}
	}
	if len(c.in.buf) > 0 {
		n := copy(p, c.in.buf)
		c.in.buf = c.in.buf[n:]
		return n, nil
	}
	return 0, io.EOF
}

func (c *conn) Write(p []byte) (int, error) {
	var ready func() bool
	if c.out.limit > 0 {
		ready = func() bool { return len(c.out.buf) < c.out.limit || c.closed || c.out.rclosed }
	}
	vsched.Point(c.nWrite, 0x312, ready, c.out.obj)
	if c.closed {
		return 0, &net.OpError{Op: "write", Net: "tcp", Source: c.local, Addr: c.remote, Err: errClosedConn}
	}
	if c.out.rclosed {
		return 0, &net.OpError{Op: "write", Net: "tcp", Source: c.local, Addr: c.remote, Err: syscall.EPIPE}
	}
	c.out.buf = append(c.out.buf, p...)
	return len(p), nil
}

func (c *conn) Close() error {
	vsched.Point(c.nClose, 0x313, nil, c.in.obj, c.out.obj)
	if c.closed {
		return &net.OpError{Op: "close", Net: "tcp", Source: c.local, Addr: c.remote, Err: errClosedConn}
	}
	c.closed = true
	c.out.wclosed = true
	c.in.rclosed = true
	return nil
}

func (c *conn) LocalAddr() net.Addr  { return c.local }
func (c *conn) RemoteAddr() net.Addr { return c.remote }

func (c *conn) deadline(op string) error {
	// observes the closed flag (as the real call does) - a scheduling point that only reads
	vsched.PointRead(op, 0x314, nil, c.in.obj, c.out.obj)
	if c.closed {
		return &net.OpError{Op: "set", Net: "tcp", Source: c.local, Addr: c.remote, Err: errClosedConn}
	}
	return nil
}
func (c *conn) SetDeadline(t time.Time) error      { return c.deadline("SetDeadline") }
func (c *conn) SetReadDeadline(t time.Time) error  { return c.deadline("SetReadDeadline") }
func (c *conn) SetWriteDeadline(t time.Time) error { return c.deadline("SetWriteDeadline") }
