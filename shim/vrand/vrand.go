// Package vrand is the seam for math/rand as used by the peer-exchange code (Shuffle, Perm, Intn, Seed...).
// Default: pass-through to math/rand.  A harness installs a Script: every random decision becomes an
// environment answer that the explorer enumerates (Choices records how many alternatives each call had).
package vrand

import (
	"math/rand"
	"sync"
)

// Script decides every random choice.  Answers[i] is the answer to the i-th choice point (default 0);
// Arity records the number of alternatives seen at each choice point so an explorer can enumerate them.
type Script struct {
	Answers []int
	Arity   []int
}

var (
	mu     sync.Mutex
	script *Script
)

// Install makes all following calls deterministic under s (nil = back to math/rand).
func Install(s *Script) { mu.Lock(); script = s; mu.Unlock() }

func choose(n int) (int, bool) {
	mu.Lock()
	defer mu.Unlock()
	if script == nil {
		return 0, false
	}
	if n <= 0 {
		return 0, true
	}
	i := len(script.Arity)
	script.Arity = append(script.Arity, n)
	a := 0
	if i < len(script.Answers) {
		a = script.Answers[i] % n
	}
	return a, true
}

func Seed(seed int64) { rand.Seed(seed) }

func Intn(n int) int {
	if a, ok := choose(n); ok {
		return a
	}
	return rand.Intn(n)
}
func Int63n(n int64) int64 {
	if a, ok := choose(int(n)); ok {
		return int64(a)
	}
	return rand.Int63n(n)
}
func Int31n(n int32) int32 {
	if a, ok := choose(int(n)); ok {
		return int32(a)
	}
	return rand.Int31n(n)
}
func Int() int {
	if a, ok := choose(2); ok {
		return a
	}
	return rand.Int()
}
func Int63() int64 {
	if a, ok := choose(2); ok {
		return int64(a)
	}
	return rand.Int63()
}
func Uint32() uint32 {
	if a, ok := choose(2); ok {
		return uint32(a)
	}
	return rand.Uint32()
}
func Float64() float64 {
	if a, ok := choose(2); ok {
		return float64(a) / 2
	}
	return rand.Float64()
}

// Perm: under a script the permutation is built by successive choices (n * (n-1) * ... alternatives = every permutation reachable).
func Perm(n int) []int {
	mu.Lock()
	s := script
	mu.Unlock()
	if s == nil {
		return rand.Perm(n)
	}
	rest := make([]int, n)
	for i := range rest {
		rest[i] = i
	}
	out := make([]int, 0, n)
	for len(rest) > 0 {
		a, _ := choose(len(rest))
		out = append(out, rest[a])
		rest = append(rest[:a], rest[a+1:]...)
	}
	return out
}

func Shuffle(n int, swap func(i, j int)) {
	mu.Lock()
	s := script
	mu.Unlock()
	if s == nil {
		rand.Shuffle(n, swap)
		return
	}
	// Fisher-Yates with scripted choices: every permutation is reachable.
	for i := n - 1; i > 0; i-- {
		j, _ := choose(i + 1)
		swap(i, j)
	}
}

type Rand = rand.Rand
type Source = rand.Source

// New wraps the source: while a Script is installed every Int63 drawn from the generator is a scripted
// answer (raw value, default 0, arity recorded as 0 = unknown), so r.Int63n(n) yields answer % n for small
// answers; without a script the generator behaves exactly like rand.New(src).
func New(src rand.Source) *rand.Rand { return rand.New(&seamSource{inner: src}) }

type seamSource struct{ inner rand.Source }

func (s *seamSource) Int63() int64 {
	mu.Lock()
	sc := script
	if sc != nil {
		i := len(sc.Arity)
		sc.Arity = append(sc.Arity, 0)
		a := 0
		if i < len(sc.Answers) {
			a = sc.Answers[i]
		}
		mu.Unlock()
		if a < 0 {
			a = 0
		}
		return int64(a)
	}
	mu.Unlock()
	return s.inner.Int63()
}

func (s *seamSource) Seed(seed int64) { s.inner.Seed(seed) }

func NewSource(seed int64) rand.Source { return rand.NewSource(seed) }
