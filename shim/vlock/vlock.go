// Package vlock is a drop-in seam for the parts of package sync that wallet.Service and kvstorage use.  Its RWMutex behaves like
// sync.RWMutex but records which goroutine holds it, and reports the acquisition patterns that Go's RWMutex turns into a hang
// under ONE scheduling deviation:
//
//   * a goroutine that already holds the read lock takes the read lock again ("recursive read locking"): if a writer calls Lock
//     between the two acquisitions, the writer waits for the first RUnlock and the second RLock waits for the writer — forever;
//   * a goroutine that holds the read or write lock calls Lock: certain self-deadlock (reported, then the call panics so that the
//     harness does not hang).
//
// The report is the deterministic witness of the interleaving "reader R1 … writer W arrives … reader R1 again"; no real
// concurrency is needed to find it, so a sequential request enumeration covers the schedules with one writer arrival.
package vlock

import (
	"bytes"
	"runtime"
	"strconv"
	"strings"
	"sync"
	"sync/atomic"
)

type (
	Mutex     = sync.Mutex
	WaitGroup = sync.WaitGroup
	Once      = sync.Once
	Map       = sync.Map
	Pool      = sync.Pool
	Cond      = sync.Cond
	Locker    = sync.Locker
)

func NewCond(l Locker) *Cond { return sync.NewCond(l) }

type Event struct {
	Kind  string // recursive-read-lock | lock-while-holding-read-lock | lock-while-holding-write-lock
	Site  string // innermost non-shim function of the second acquisition
	Outer string // function that made the first acquisition
	Stack string
}

var (
	evMu   sync.Mutex
	events []Event
)

// Drain returns and clears the reports.
func Drain() []Event {
	evMu.Lock()
	defer evMu.Unlock()
	e := events
	events = nil
	return e
}

func goid() uint64 {
	var buf [64]byte
	n := runtime.Stack(buf[:], false)
	f := bytes.Fields(buf[:n])
	if len(f) < 2 {
		return 0
	}
	id, _ := strconv.ParseUint(string(f[1]), 10, 64)
	return id
}

func caller() (string, string) {
	var pcs [32]uintptr
	n := runtime.Callers(3, pcs[:])
	fr := runtime.CallersFrames(pcs[:n])
	var names []string
	for {
		f, more := fr.Next()
		if f.Function != "" && !strings.Contains(f.Function, "verif/shim/vlock") {
			names = append(names, f.Function)
		}
		if !more || len(names) >= 12 {
			break
		}
	}
	site := ""
	if len(names) > 0 {
		site = names[0]
	}
	return site, strings.Join(names, " <- ")
}

type RWMutex struct {
	mu      sync.RWMutex
	hmu     sync.Mutex
	readers map[uint64][]string // goroutine -> sites of its read acquisitions
	writer  uint64
}

func (m *RWMutex) report(kind, outer string) {
	site, stack := caller()
	evMu.Lock()
	events = append(events, Event{Kind: kind, Site: site, Outer: outer, Stack: stack})
	evMu.Unlock()
}

// Interleave, when set, is called before every lock acquisition (Lock or RLock) that is not itself made from inside an Interleave
// call.  At that point the calling operation holds no lock of this mutex yet (or has released it), so a harness can run a
// second operation to completion there: this enumerates the schedules in which another call executes atomically BETWEEN two
// critical sections of the first one (check-then-act across a lock release) — one preemption at a lock boundary.
var Interleave func()

var inInterleave int32

// SetGoroutineInterleave installs (f != nil) or removes (nil) an Interleave hook that applies to lock acquisitions of the
// CALLING goroutine only, so that several harness goroutines can each enumerate their own lock-boundary schedules.
func SetGoroutineInterleave(f func()) {
	if f == nil {
		gHooks.Delete(goid())
		return
	}
	gHooks.Store(goid(), &gHook{f: f})
}

type gHook struct {
	f  func()
	in bool
}

var gHooks sync.Map

func maybeInterleave() {
	if h, ok := gHooks.Load(goid()); ok {
		if gh := h.(*gHook); !gh.in {
			gh.in = true
			defer func() { gh.in = false }()
			gh.f()
		}
		return
	}
	if f := Interleave; f != nil && atomic.CompareAndSwapInt32(&inInterleave, 0, 1) {
		f()
		atomic.StoreInt32(&inInterleave, 0)
	}
}

func (m *RWMutex) RLock() {
	maybeInterleave()
	g := goid()
	m.hmu.Lock()
	if m.readers == nil {
		m.readers = map[uint64][]string{}
	}
	held := m.readers[g]
	m.hmu.Unlock()
	if len(held) > 0 {
		m.report("recursive-read-lock", held[0])
	}
	m.mu.RLock()
	site, _ := caller()
	m.hmu.Lock()
	m.readers[g] = append(m.readers[g], site)
	m.hmu.Unlock()
}

func (m *RWMutex) RUnlock() {
	g := goid()
	m.hmu.Lock()
	if r := m.readers[g]; len(r) > 0 {
		m.readers[g] = r[:len(r)-1]
		if len(m.readers[g]) == 0 {
			delete(m.readers, g)
		}
	}
	m.hmu.Unlock()
	m.mu.RUnlock()
}

func (m *RWMutex) Lock() {
	maybeInterleave()
	g := goid()
	m.hmu.Lock()
	held := m.readers[g]
	w := m.writer
	m.hmu.Unlock()
	if len(held) > 0 {
		m.report("lock-while-holding-read-lock", held[0])
		panic("vlock: Lock called while the same goroutine holds the read lock (self-deadlock)")
	}
	if w == g && g != 0 {
		m.report("lock-while-holding-write-lock", "")
		panic("vlock: Lock called while the same goroutine holds the write lock (self-deadlock)")
	}
	m.mu.Lock()
	m.hmu.Lock()
	m.writer = g
	m.hmu.Unlock()
}

func (m *RWMutex) Unlock() {
	m.hmu.Lock()
	m.writer = 0
	m.hmu.Unlock()
	m.mu.Unlock()
}

func (m *RWMutex) RLocker() sync.Locker { return (*rlocker)(m) }

type rlocker RWMutex

func (r *rlocker) Lock()   { (*RWMutex)(r).RLock() }
func (r *rlocker) Unlock() { (*RWMutex)(r).RUnlock() }
