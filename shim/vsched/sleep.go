package vsched

import "sort"

// Sleep sets over macro-steps.
//
// View the bounded system as a transition system whose transitions are RUNS: (goroutine T, the select
// alternatives it takes, an optional cut after j operations); a run ends when T blocks / finishes / busy-
// waits (cost 0) or at the cut (a preemption, cost 1).  Every schedule with <= k preemptions is a path of
// total cost <= k and vice versa, and the cost of a path is the sum of the costs of its transitions, so it is
// invariant under commuting independent transitions.  Two runs of different goroutines are independent when
// no operation of one conflicts with an operation of the other, where the operation a run is blocked on at
// its end, and every channel of the select it starts with, count as operations of the run.  Operations
// conflict when they touch a common object unless both only observe it or both are commuting updates.
//
// Classic sleep sets on that system: after the subtree of option A at a decision point has been explored, A
// (with the footprint of its longest run from there) sleeps in the later sibling subtrees until an operation
// conflicting with its footprint, or any operation of A's goroutine, is executed.  A sleeping option is not
// offered.  Every pruned path has an explored permutation with the same transitions, hence the same cost.

const (
	modeRead  uint8 = 1
	modeComm  uint8 = 2
	modeWrite uint8 = 3
)

type fpItem struct {
	obj  uint64 // canonical object id; 0 = object without canonical identity (conflicts with everything)
	mode uint8
}

type sleepEntry struct {
	gid uint64 // canonical goroutine id
	alt int32
	fp  []fpItem
}

func (e *sleepEntry) hash() uint64 { return mix(e.gid, uint64(uint32(e.alt))+0x51ee9) }

// footprint is the accumulated footprint of an option's first run.
type footprint map[uint64]uint8

func (f footprint) add(obj uint64, mode uint8) {
	m, ok := f[obj]
	switch {
	case !ok:
		f[obj] = mode
	case m == mode:
	default:
		f[obj] = modeWrite // write, or read + commuting update by the same run
	}
}

func (f footprint) items() []fpItem {
	out := make([]fpItem, 0, len(f))
	for o, m := range f {
		out = append(out, fpItem{o, m})
	}
	sort.Slice(out, func(i, j int) bool { return out[i].obj < out[j].obj })
	return out
}

func modesConflict(a, b uint8) bool {
	if a == modeRead && b == modeRead {
		return false
	}
	if a == modeComm && b == modeComm {
		return false
	}
	return true
}

// conflicts reports whether an operation on objs with the given mode conflicts with the footprint.
func conflicts(fp []fpItem, objs []*Obj, mode uint8) bool {
	for _, o := range objs {
		if o == nil {
			continue
		}
		if o.id == 0 {
			return true
		}
		for _, it := range fp {
			if it.obj == 0 || (it.obj == o.id && modesConflict(it.mode, mode)) {
				return true
			}
		}
	}
	return false
}

func effMode(e *effect) uint8 {
	switch {
	case e.commT != 0:
		return modeComm
	case e.write:
		return modeWrite
	}
	return modeRead
}

// wake removes from the sleep set the entries of the goroutines that move and those conflicting with the
// operation; it returns the filtered set (a new slice when something was removed).
func wake(sleep []sleepEntry, g *G, e *effect) []sleepEntry {
	if len(sleep) == 0 {
		return sleep
	}
	mode := effMode(e)
	keep := sleep[:0:0]
	changed := false
	for i := range sleep {
		s := &sleep[i]
		if s.gid == g.id || (e.o != nil && s.gid == e.o.id) || conflicts(s.fp, e.objs, mode) {
			changed = true
			continue
		}
		keep = append(keep, *s)
	}
	if !changed {
		return sleep
	}
	return keep
}

func sleepHashes(sleep []sleepEntry) []uint64 {
	if len(sleep) == 0 {
		return nil
	}
	out := make([]uint64, len(sleep))
	for i := range sleep {
		out[i] = sleep[i].hash()
	}
	sort.Slice(out, func(i, j int) bool { return out[i] < out[j] })
	return out
}

// subset reports a ⊆ b for sorted slices.
func subset(a, b []uint64) bool {
	j := 0
	for _, x := range a {
		for j < len(b) && b[j] < x {
			j++
		}
		if j == len(b) || b[j] != x {
			return false
		}
	}
	return true
}

// recTarget records the footprint of the first run of an option.
type recTarget struct {
	g  *G
	fp footprint
}

// recordOp adds an executed operation to the footprints being recorded for the goroutines that move.
func (w *World) recordOp(g *G, e *effect) {
	if len(w.recs) == 0 {
		return
	}
	mode := effMode(e)
	for i := range w.recs {
		r := &w.recs[i]
		if r.g == g || (e.o != nil && r.g == e.o) {
			for _, o := range e.objs {
				if o != nil {
					r.fp.add(o.id, mode)
				}
			}
			// A sleeping entry blocks EVERY variant of the goroutine's run, so the footprint also covers what
			// decides which variants exist: all channels of every select the run passes through.
			if r.g == g {
				addPending(r.fp, g)
			} else {
				addPending(r.fp, e.o)
			}
		}
	}
}

// pendingDeps lists the objects the pending operation of a parked goroutine depends on, with the mode of the
// dependence: a pending receive / Lock / Wait / Accept / Read only OBSERVES the object until it can proceed
// (it conflicts with writes and commuting updates of others, not with their reads); a pending send offers a
// value to a receiver (write).
func pendingDeps(g *G, f func(o *Obj, mode uint8)) {
	p := g.pend
	if p == nil {
		return
	}
	for i := range p.cases {
		if c := p.cases[i].c; c != nil {
			if p.cases[i].send {
				f(&c.Obj, modeWrite)
			} else {
				f(&c.Obj, modeRead)
			}
		}
	}
	for _, o := range p.objs {
		if o != nil {
			f(o, modeRead)
		}
	}
}

// addPending adds the dependences of g's pending operation to the footprint (the run is blocked on them, or
// they decide which alternatives it has).
func addPending(fp footprint, g *G) {
	pendingDeps(g, func(o *Obj, mode uint8) { fp.add(o.id, mode) })
}

// endRuns closes the recordings of every goroutine other than next (their run is over).
func (w *World) endRuns(next *G) {
	if len(w.recs) == 0 {
		return
	}
	k := 0
	for _, r := range w.recs {
		if r.g == next {
			w.recs[k] = r
			k++
			continue
		}
		if r.g.state == gParked {
			addPending(r.fp, r.g)
		}
	}
	w.recs = w.recs[:k]
}

// wakePending removes the entries conflicting with the pending operation of g (whose run just ended).
func wakePending(sleep []sleepEntry, g *G) []sleepEntry {
	keep := sleep[:0:0]
	changed := false
	for i := range sleep {
		hit := false
		pendingDeps(g, func(o *Obj, mode uint8) {
			if !hit && conflicts(sleep[i].fp, []*Obj{o}, mode) {
				hit = true
			}
		})
		if hit {
			changed = true
			continue
		}
		keep = append(keep, sleep[i])
	}
	if !changed {
		return sleep
	}
	return keep
}
