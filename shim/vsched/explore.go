package vsched

import (
	"fmt"
	"strings"
	"time"
)

// Options of an exploration.
type Options struct {
	Bound       int                    // preemption bound
	Horizon     int                    // max scheduling steps per execution
	MaxExecs    int64                  // 0 = unlimited
	Deadline    time.Time              // zero = none
	LowPriority func(name string) bool // goroutines (by spawn-site name) that are only scheduled when nothing else is enabled
	NoCache     bool                   // disable the state cache (for cross-checking the reduction)
	Sleep       bool                   // EXPERIMENTAL sleep sets over runs (sleep.go); off by default - the state cache alone decides
	Shared      Visited                // visited-state table shared by several explorer processes (nil: private map)
	Shuffle     uint64                 // != 0: pseudo-random option order derived from this seed (parallel explorers diverge)
	Watch       []Choice               // debugging: report why the explorer does not follow this schedule
	Prefix      []PrefixStep           // explore only the subtree below this choice prefix (parallel workers)
	// FrontierDepth > 0: do not expand decision points at this depth; hand their prefix to OnFrontier instead
	FrontierDepth int
	OnFrontier    func(prefix []PrefixStep)
	Record        bool // keep traces for every execution (slow; replay / samples)
}

// PrefixStep is one pinned decision with its preemption cost.
type PrefixStep struct {
	C    Choice `json:"c"`
	Cost int8   `json:"k"`
}

// Execution is what the explorer hands to the oracle after each execution.
type Execution struct {
	Outcome    Outcome
	Steps      int
	Goroutines int
	Preempts   int
	Choices    []Choice // decisions of the exploring phase (replayable with Replay)
	TraceKey   [2]uint64
	Races      []Race
	Accesses   int64
	Panic      string
	PanicG     string
	PanicStack string
	Broken     string
	Blocked    []string // goroutines parked on a disabled operation at the end: "name: op"
	Unfinished []string // must-finish goroutines that did not finish
	Trace      []Event  // record mode
	Notes      []Note
	Nontrivial bool // >= 1 context switch between two goroutines that operate on a common synchronisation object
	Switches   int  // context switches in the exploring phase
	Objects    int
}

// Stats of one Explore call.
type Stats struct {
	Bound         int
	Executions    int64 // complete executions (any outcome except pruned)
	Pruned        int64 // executions cut by the state cache (every option of a decision point already covered)
	Frontier      int64 // executions stopped at the frontier depth (handed to workers)
	Skipped       int64 // options dropped by the state cache without being executed
	SleepSkipped  int64 // options not offered because they were asleep (sleep sets)
	CacheStates   int64
	MaxSteps      int
	MaxGoroutines int
	MaxDepth      int
	Steps         int64
	Accesses      int64
	Exhaustive    bool // the whole tree within the bound was explored
	Stopped       string
	Broken        string
}

type option struct {
	c        Choice
	cost     int8
	key      [2]uint64 // predicted state key after the operation
	gid      uint64    // canonical id of the goroutine
	fp       footprint // footprint of the option's first run (recorded while its subtree is explored)
	explored bool      // its subtree has been entered
}

type node struct {
	opts    []option
	idx     int
	started bool // the option at idx has been entered
}

// Visited is a set of expanded states shared by several explorers.  Covered reports whether the state
// (key, goroutine entitled to continue) was already claimed with at least `left` remaining preemptions;
// otherwise it claims it for the caller, who then has to expand it.
type Visited interface {
	Covered(key [2]uint64, prev uint64, left int8) bool
}

type cacheKey struct {
	k    [2]uint64
	prev uint64
}

type cacheVal struct {
	left  int8
	sleep []uint64 // sorted hashes of the sleep set the state was expanded with
}

type controller struct {
	opts         Options
	stack        []node
	depth        int // exploring-phase decision depth in the current execution
	used         int // preemptions used in the current execution
	cache        map[cacheKey]cacheVal
	fixed        []Choice // replay mode: follow exactly this list, then first option
	replay       bool
	optbuf       []option
	shadow       map[uintptr]*cell
	raceSigs     map[string]bool
	netReg       map[string]any
	keep         []any
	skipped      int64 // options dropped by the state cache without being executed
	sleepSkipped int64 // options not offered because they were asleep
}

func (c *controller) pick(w *World, prev *G) (*G, int32) {
	if !w.exploring {
		return c.pickDeterministic(w, prev)
	}
	d := c.depth
	if c.replay {
		if d < len(c.fixed) {
			ch := c.fixed[d]
			g, ok := c.validate(w, ch)
			if !ok {
				w.Break("replay diverged at decision %d: goroutine %d alt %d not enabled", d, ch.G, ch.Alt)
				w.end(Diverged)
				return nil, 0
			}
			c.account(w, prev, g)
			c.depth++
			w.choices = append(w.choices, ch)
			return g, ch.Alt
		}
		opts := c.options(w, prev, 127)
		if len(opts) == 0 {
			return nil, 0
		}
		c.depth++
		ch := opts[0].c
		w.choices = append(w.choices, ch)
		g := w.gs[ch.G]
		c.account(w, prev, g)
		return g, ch.Alt
	}
	if d == len(c.stack) {
		// a new decision point
		if c.opts.FrontierDepth > 0 && d >= c.opts.FrontierDepth {
			if len(c.options(w, prev, c.opts.Bound-c.used)) == 0 {
				return nil, 0 // the execution ends here anyway
			}
			p := make([]PrefixStep, d)
			for i := 0; i < d; i++ {
				o := c.stack[i].opts[c.stack[i].idx]
				p[i] = PrefixStep{C: o.c, Cost: o.cost}
			}
			c.opts.OnFrontier(p)
			w.end(Frontier)
			return nil, 0
		}
		remaining := c.opts.Bound - c.used
		opts := c.options(w, prev, remaining)
		if len(opts) == 0 {
			return nil, 0
		}
		n := node{opts: append([]option(nil), opts...)}
		if c.opts.Shuffle != 0 && len(n.opts) > 1 {
			// deterministic pseudo-random order (function of the seed and the state), so that explorer
			// processes sharing a visited table spread over the tree
			r := mix(c.opts.Shuffle, w.key[0])
			for i := len(n.opts) - 1; i > 0; i-- {
				r = mix(r, uint64(i))
				j := int(r % uint64(i+1))
				n.opts[i], n.opts[j] = n.opts[j], n.opts[i]
			}
		}
		var e effect
		for i := range n.opts {
			o := &n.opts[i]
			g := w.gs[o.c.G]
			o.gid = g.id
			w.effectOf(g, o.c.Alt, &e)
			o.key = w.keyAfter(g, &e)
		}
		c.stack = append(c.stack, n)
	}
	n := &c.stack[d]
	deepest := d == len(c.stack)-1
	if deepest && !n.started {
		// choose the next option of this decision point that is neither asleep nor covered by the state cache
		remaining := c.opts.Bound - c.used
		for ; n.idx < len(n.opts); n.idx++ {
			o := &n.opts[n.idx]
			g, ok := c.validate(w, o.c)
			if !ok {
				w.Break("prefix replay diverged at decision %d (nondeterministic harness or code under test)", d)
				w.end(Diverged)
				return nil, 0
			}
			if c.opts.Sleep && asleep(w.sleep, o) {
				c.sleepSkipped++
				c.watch(w, d, o, "asleep")
				continue
			}
			var e effect
			w.effectOf(g, o.c.Alt, &e)
			succ := c.successorSleep(w, n, n.idx, g, &e, prev)
			if !c.opts.NoCache {
				// State cache on predicted successor states: the state reached by an option is identified by
				// the causal-history key right after the chosen operation (computed without executing it) plus
				// the goroutine that will be running (continuing it is free at the next decision).  An option
				// whose successor was already expanded with at least the same remaining budget and with a
				// sleep set contained in the present one is dropped.
				ck := cacheKey{k: o.key, prev: g.id}
				left := int8(remaining - int(o.cost))
				if c.opts.Shared != nil {
					if c.opts.Shared.Covered(o.key, g.id, left) {
						c.skipped++
						continue
					}
				} else {
					sh := sleepHashes(succ)
					if v, ok := c.cache[ck]; ok && v.left >= left && subset(v.sleep, sh) {
						c.skipped++
						c.watch(w, d, o, "covered by the state cache")
						continue
					}
					c.cache[ck] = cacheVal{left: left, sleep: sh}
				}
			}
			break
		}
		if n.idx >= len(n.opts) {
			w.end(Pruned)
			return nil, 0
		}
		n.started = true
		n.opts[n.idx].explored = true
		if len(n.opts) > 1 && n.opts[n.idx].fp == nil {
			n.opts[n.idx].fp = footprint{}
		}
	}
	o := &n.opts[n.idx]
	g, ok := c.validate(w, o.c)
	if !ok {
		w.Break("prefix replay diverged at decision %d (nondeterministic harness or code under test)", d)
		w.end(Diverged)
		return nil, 0
	}
	if c.opts.Sleep {
		var e effect
		w.effectOf(g, o.c.Alt, &e)
		w.sleep = c.successorSleep(w, n, n.idx, g, &e, prev)
		if o.fp != nil {
			// record the footprint of this option's first run (every execution through it contributes)
			addPending(o.fp, g)
			w.recs = append(w.recs, recTarget{g: g, fp: o.fp})
		}
	}
	c.used += int(o.cost)
	w.preempts += int(o.cost)
	c.depth++
	w.choices = append(w.choices, o.c)
	return g, o.c.Alt
}

func asleep(sleep []sleepEntry, o *option) bool {
	for i := range sleep {
		if sleep[i].gid == o.gid && sleep[i].alt == o.c.Alt {
			return true
		}
	}
	return false
}

// successorSleep is the sleep set after taking option i of node n: the current sleep set plus the earlier
// explored siblings, minus everything woken by the operation.
func (c *controller) successorSleep(w *World, n *node, i int, g *G, e *effect, prev *G) []sleepEntry {
	if !c.opts.Sleep {
		return nil
	}
	cur := w.sleep
	if prev != nil && prev != g && prev.state == gParked && len(cur) > 0 {
		// prev's run ends here, parked on its pending operation: the run depends on the objects of that
		// operation (it is blocked on them / they decide how it continues), so they belong to its footprint
		cur = wakePending(cur, prev)
	}
	added := false
	for j := 0; j < i; j++ {
		s := &n.opts[j]
		if !s.explored || s.fp == nil || s.gid == g.id {
			continue
		}
		if !added {
			cur = append([]sleepEntry(nil), cur...)
			added = true
		}
		cur = append(cur, sleepEntry{gid: s.gid, alt: s.c.Alt, fp: s.fp.items()})
	}
	return wake(cur, g, e)
}

func (c *controller) account(w *World, prev, g *G) {
	if prev != nil && prev != g && prev.state == gParked && len(w.alts(prev, nil)) > 0 {
		w.preempts++
	}
}

func (c *controller) validate(w *World, ch Choice) (*G, bool) {
	if int(ch.G) >= len(w.gs) {
		return nil, false
	}
	g := w.gs[ch.G]
	w.altbuf = w.alts(g, w.altbuf[:0])
	for _, a := range w.altbuf {
		if a == ch.Alt {
			return g, true
		}
	}
	return nil, false
}

// spinning reports whether g just came back to the same select after a closed-channel receive and that
// alternative is again the only one ready: a busy-wait (`case m := <-closed: continue`).  Its iterations are
// pure reads that change nothing outside the goroutine, so under a fair scheduler they are equivalent to
// waiting: the goroutine is treated like one that yields (switching away is free, it runs again only when
// nothing else can run; if that stays so the step horizon reports the livelock).
func (w *World) spinning(g *G, alts []int32) bool {
	return g.stutterSig != 0 && len(alts) == 1 && alts[0] == g.stutterAlt && g.pend != nil && g.pend.kind == opComm &&
		selSig(g.pend) == g.stutterSig
}

// options lists the possible next steps: prev's alternatives first (free), then the other goroutines in
// creation order (cost 1 if prev is still enabled = preemption, else free).  Low-priority goroutines are
// offered only when no normal goroutine is enabled, busy-waiting goroutines only when nothing else is.
func (c *controller) options(w *World, prev *G, remaining int) []option {
	out := c.optbuf[:0]
	prevEnabled := false
	var spinner *G
	var spinAlt int32
	if prev != nil && prev.state == gParked && !prev.low {
		w.altbuf = w.alts(prev, w.altbuf[:0])
		if w.spinning(prev, w.altbuf) {
			spinner, spinAlt = prev, w.altbuf[0]
		} else {
			for _, a := range w.altbuf {
				out = append(out, option{c: Choice{G: int16(prev.idx), Alt: a}})
				prevEnabled = true
			}
		}
	}
	cost := int8(0)
	if prevEnabled {
		cost = 1
	}
	if int(cost) <= remaining {
		for _, g := range w.gs {
			if g == prev || g.low || g.state != gParked {
				continue
			}
			w.altbuf = w.alts(g, w.altbuf[:0])
			if w.spinning(g, w.altbuf) {
				if spinner == nil {
					spinner, spinAlt = g, w.altbuf[0]
				}
				continue
			}
			for _, a := range w.altbuf {
				out = append(out, option{c: Choice{G: int16(g.idx), Alt: a}, cost: cost})
			}
		}
	}
	if len(out) == 0 {
		// nothing of normal priority is enabled (a budget cut cannot be the reason: prev would be an option)
		for _, g := range w.gs {
			if !g.low || g.state != gParked {
				continue
			}
			w.altbuf = w.alts(g, w.altbuf[:0])
			if len(w.altbuf) > 0 {
				// low-priority steps commute with everything: one fixed order suffices
				out = append(out, option{c: Choice{G: int16(g.idx), Alt: w.altbuf[0]}})
				break
			}
		}
	}
	if len(out) == 0 && spinner != nil {
		out = append(out, option{c: Choice{G: int16(spinner.idx), Alt: spinAlt}})
	}
	c.optbuf = out
	return out
}

// pickDeterministic is the scheduler of the set-up phase: continue prev if enabled, else the enabled
// goroutine with the lowest index; no choice points are recorded.
func (c *controller) pickDeterministic(w *World, prev *G) (*G, int32) {
	opts := c.options(w, prev, 0)
	if len(opts) == 0 {
		// nothing free: allow switching (prev enabled case is covered, so this means nothing is enabled)
		return nil, 0
	}
	o := opts[0]
	return w.gs[o.c.G], o.c.Alt
}

func (c *controller) run(body func()) *Execution {
	// the maps of the previous execution are reused (cleared): allocating them afresh for every execution
	// was a large part of the allocation volume
	if c.shadow == nil {
		c.shadow, c.raceSigs, c.netReg = map[uintptr]*cell{}, map[string]bool{}, map[string]any{}
	}
	clear(c.shadow)
	clear(c.raceSigs)
	clear(c.netReg)
	w := &World{horizon: c.opts.Horizon, endC: make(chan struct{}), ctl: c,
		shadow: c.shadow, raceSigs: c.raceSigs, netReg: c.netReg, record: c.opts.Record, NetPort: 40000, keep: c.keep[:0]}
	if w.horizon == 0 {
		w.horizon = 5000
	}
	c.depth, c.used = 0, 0
	cur.Store(w)
	g0 := w.newG(nil, "main", body)
	w.cur = g0
	w.steps = 1
	g0.wake <- 0
	<-w.endC
	// tear down: every parked goroutine exits (runtime.Goexit runs the deferred calls of the code under
	// test; rewritten operations inside them see the aborted flag and exit again)
	for _, g := range w.gs {
		select {
		case g.wake <- altAbort:
		default:
		}
	}
	w.live.Wait()
	cur.Store(nil)
	for i := range w.keep {
		w.keep[i] = nil
	}
	c.keep = w.keep[:0]
	e := &Execution{Outcome: w.outcome, Steps: w.steps, Goroutines: len(w.gs), Preempts: w.preempts, Choices: w.choices,
		TraceKey: w.key, Races: w.Races, Accesses: w.accesses, Panic: w.panicVal, PanicG: w.panicG, PanicStack: w.panicStk,
		Broken: w.broken, Trace: w.Trace, Notes: w.Notes, Objects: w.nobj}
	for _, g := range w.gs {
		if g.state == gDone {
			continue
		}
		if g.must {
			e.Unfinished = append(e.Unfinished, g.name)
		}
		if g.pend != nil {
			e.Blocked = append(e.Blocked, g.name+": "+g.pend.blockedOn())
		}
	}
	for _, p := range w.swPairs {
		if p[0] < 64 && p[1] < 64 && w.gs[p[0]].shared&(1<<uint(p[1])) != 0 {
			e.Nontrivial = true
			break
		}
	}
	e.Switches = len(w.swPairs)
	return e
}

func (p *pend) blockedOn() string {
	switch p.kind {
	case opComm:
		var parts []string
		for _, c := range p.cases {
			if c.c == nil {
				parts = append(parts, "nil-chan")
				continue
			}
			d := "recv "
			if c.send {
				d = "send "
			}
			parts = append(parts, d+c.c.Label)
		}
		s := strings.Join(parts, " | ")
		if p.site != "" {
			s += " @" + p.site
		}
		return s
	default:
		s := p.name
		if p.site != "" {
			s += " @" + p.site
		}
		return s
	}
}

// Explore runs body under every schedule with at most opts.Bound preemptions (depth-first, stateless:
// body is re-executed from scratch for each schedule) and calls onExec after each complete execution.
// onExec returning false stops the exploration.
func Explore(body func(), opts Options, onExec func(*Execution) bool) Stats {
	c := &controller{opts: opts, cache: map[cacheKey]cacheVal{}}
	st := Stats{Bound: opts.Bound}
	if len(opts.Prefix) > 0 {
		// pin the prefix: single-option nodes
		for _, ps := range opts.Prefix {
			c.stack = append(c.stack, node{opts: []option{{c: ps.C, cost: ps.Cost, explored: true}}, started: true})
		}
	}
	pinned := len(opts.Prefix)
	for {
		e := c.run(body)
		st.Steps += int64(e.Steps)
		if e.Broken != "" {
			st.Broken = e.Broken
			return st
		}
		if e.Outcome == Frontier {
			st.Frontier++
		} else if e.Outcome == Pruned {
			st.Pruned++
			// pruned executions are still shown to the oracle (races seen in the prefix, harness markers)
			if !onExec(e) {
				st.Stopped = "oracle"
				break
			}
		} else {
			st.Executions++
			st.Accesses += e.Accesses
			if e.Steps > st.MaxSteps {
				st.MaxSteps = e.Steps
			}
			if e.Goroutines > st.MaxGoroutines {
				st.MaxGoroutines = e.Goroutines
			}
			if len(e.Choices) > st.MaxDepth {
				st.MaxDepth = len(e.Choices)
			}
			if !onExec(e) {
				st.Stopped = "oracle"
				break
			}
		}
		// do not backtrack into the pinned prefix
		ok := false
		for len(c.stack) > pinned {
			top := &c.stack[len(c.stack)-1]
			top.idx++
			top.started = false
			if top.idx < len(top.opts) {
				ok = true
				break
			}
			c.stack = c.stack[:len(c.stack)-1]
		}
		if !ok {
			st.Exhaustive = true
			break
		}
		if opts.MaxExecs > 0 && st.Executions+st.Pruned >= opts.MaxExecs {
			st.Stopped = fmt.Sprintf("execution cap %d", opts.MaxExecs)
			break
		}
		if !opts.Deadline.IsZero() && (st.Executions+st.Pruned)%64 == 0 && time.Now().After(opts.Deadline) {
			st.Stopped = "time budget"
			break
		}
		if t, ok := opts.Shared.(*SharedTable); ok && t.IsFull() {
			st.Stopped = "visited table full"
			break
		}
	}
	st.CacheStates = int64(len(c.cache))
	st.Skipped = c.skipped
	st.SleepSkipped = c.sleepSkipped
	return st
}

// Replay executes body once under exactly the given choice list (recording the trace).
func Replay(body func(), choices []Choice, opts Options) *Execution {
	opts.Record = true
	c := &controller{opts: opts, replay: true, fixed: choices}
	return c.run(body)
}

// watch reports (debugging aid) when the option that the watched schedule takes at depth d is skipped.
func (c *controller) watch(w *World, d int, o *option, why string) {
	if len(c.opts.Watch) <= d || c.opts.Watch[d] != o.c || len(w.choices) != d {
		return
	}
	for i, ch := range w.choices {
		if c.opts.Watch[i] != ch {
			return
		}
	}
	fmt.Printf("WATCH: at decision %d option g=%s alt=%d is %s\n", d, w.gs[o.c.G].name, o.c.Alt, why)
	for _, s := range w.sleep {
		name := "?"
		for _, g := range w.gs {
			if g.id == s.gid {
				name = g.name
			}
		}
		fmt.Printf("   sleeping: %s alt=%d fp=%v\n", name, s.alt, s.fp)
	}
}
