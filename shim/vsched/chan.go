package vsched

import (
	"fmt"
	"unsafe"
)

type item struct {
	val any
	vc  VC
}

// core is the untyped state of a channel.
type core struct {
	Obj
	cap     int
	buf     []item
	closed  bool
	closeVC VC
	nsend   int
	nrecv   int
	recvVCs []VC
	sends   int // values ever sent (0 for close-only channels)
	timer   bool
}

// Chan is the rewritten form of `chan T`.
type Chan[T any] struct {
	c core
}

// MakeChan is the rewritten form of make(chan T, n).
func MakeChan[T any](n int, label string) *Chan[T] {
	w := Cur()
	w.checkAbort()
	if n < 0 {
		panic("makechan: size out of range")
	}
	ch := &Chan[T]{}
	ch.c.Obj = Obj{Label: label, w: w}
	w.initObj(&ch.c.Obj)
	ch.c.cap = n
	if n > 0 {
		ch.c.recvVCs = make([]VC, n)
	}
	return ch
}

// NewTimerChan is a channel nothing ever sends on (virtual timers never fire).
func NewTimerChan[T any](label string) *Chan[T] {
	ch := MakeChan[T](1, label)
	ch.c.timer = true
	return ch
}

func (ch *Chan[T]) core() *core {
	if ch == nil {
		return nil
	}
	return &ch.c
}

type selCase struct {
	c    *core
	send bool
	val  any
}

// SelCase is one case of a rewritten select.
type SelCase interface {
	selCase() selCase
	setResult(v any, ok bool)
}

// RecvCaseT is a receive case; after Select returned its index, Value/Value2 give the received value.
type RecvCaseT[T any] struct {
	ch *Chan[T]
	v  T
	ok bool
}

func (r *RecvCaseT[T]) selCase() selCase { return selCase{c: r.ch.core()} }
func (r *RecvCaseT[T]) setResult(v any, ok bool) {
	if ok && v != nil {
		r.v = v.(T)
	}
	r.ok = ok
}
func (r *RecvCaseT[T]) Value() T          { return r.v }
func (r *RecvCaseT[T]) Value2() (T, bool) { return r.v, r.ok }

// SendCaseT is a send case.
type SendCaseT[T any] struct {
	ch *Chan[T]
	v  T
}

func (s *SendCaseT[T]) selCase() selCase       { return selCase{c: s.ch.core(), send: true, val: s.v} }
func (s *SendCaseT[T]) setResult(any, bool)    {}
func (ch *Chan[T]) RecvCase() *RecvCaseT[T]    { return &RecvCaseT[T]{ch: ch} }
func (ch *Chan[T]) SendCase(v T) *SendCaseT[T] { return &SendCaseT[T]{ch: ch, v: v} }

func encAlt(caseIdx, partner int) int32 { return int32(caseIdx)<<10 | int32(partner+1) }
func decAlt(a int32) (caseIdx, partner int) {
	return int(a >> 10), int(a&1023) - 1
}

// commAlts lists the enabled alternatives of a pending channel operation / select.
func (w *World) commAlts(g *G, p *pend, out []int32) []int32 {
	if p.completed {
		return append(out, altResume)
	}
	n0 := len(out)
	for i := range p.cases {
		cs := &p.cases[i]
		c := cs.c
		if c == nil {
			continue
		}
		if cs.send {
			if c.closed || (c.cap > 0 && len(c.buf) < c.cap) {
				out = append(out, encAlt(i, -1))
				continue
			}
			if c.cap == 0 {
				out = w.partners(g, c, false, i, out)
			}
		} else {
			if len(c.buf) > 0 || c.closed {
				out = append(out, encAlt(i, -1))
				continue
			}
			if c.cap == 0 && p.hasDefault {
				// a polling receiver can take the value of a blocked sender
				out = w.partners(g, c, true, i, out)
			}
			// a blocking receiver on an unbuffered channel is passive: the sender initiates the rendezvous
		}
	}
	if len(out) == n0 && p.hasDefault {
		out = append(out, altDefault)
	}
	if g.stutterSig != 0 && len(out)-n0 > 1 && g.stutterSig == selSig(p) {
		// Select fairness: the goroutine came straight back to the same select after taking a closed-channel
		// receive (e.g. `case m := <-closed: continue`).  Go's select picks uniformly among the ready cases, so
		// repeating that alternative forever has probability 0, and repeating it once more leads to no new
		// state outside the goroutine.  It is not offered again while another alternative is ready.
		k := n0
		for _, a := range out[n0:] {
			if a != g.stutterAlt {
				out[k] = a
				k++
			}
		}
		out = out[:k]
	}
	return out
}

// selSig identifies a select by its channels and directions.
func selSig(p *pend) uint64 {
	h := uint64(0x51)
	for i := range p.cases {
		v := uint64(uintptr(unsafe.Pointer(p.cases[i].c)))
		if p.cases[i].send {
			v ^= 1
		}
		h = mix(h, v)
	}
	if p.hasDefault {
		h = mix(h, 7)
	}
	if h == 0 {
		h = 1
	}
	return h
}

// partners appends one alternative per goroutine blocked (in an operation without default) on the
// opposite direction of unbuffered channel c.
func (w *World) partners(g *G, c *core, wantSend bool, caseIdx int, out []int32) []int32 {
	for _, o := range w.gs {
		if o == g || o.state != gParked || o.pend == nil || o.pend.kind != opComm || o.pend.completed || o.pend.hasDefault {
			continue
		}
		for j := range o.pend.cases {
			if o.pend.cases[j].c == c && o.pend.cases[j].send == wantSend {
				out = append(out, encAlt(caseIdx, o.idx))
				break
			}
		}
	}
	return out
}

// comm runs a (possibly single-case) select: park, then perform the chosen alternative.
func (w *World) comm(cases []selCase, hasDefault bool, name string) (idx int, val any, ok bool) {
	w.checkAbort()
	p := &w.cur.pbuf
	*p = pend{kind: opComm, cases: cases, hasDefault: hasDefault, name: name}
	alt := w.yield(p)
	g := w.cur
	switch alt {
	case altResume:
		// the partner performed the rendezvous (and the clocks) for us
		return p.resIdx, p.resVal, p.resOK
	case altDefault:
		if g.low {
			w.lowViolation(g, "select default")
		}
		return -1, nil, false
	}
	ci, partner := decAlt(alt)
	cs := &cases[ci]
	c := cs.c
	if partner >= 0 {
		o := w.gs[partner]
		op := o.pend
		j := -1
		for k := range op.cases {
			if op.cases[k].c == c && op.cases[k].send != cs.send {
				j = k
				break
			}
		}
		if j < 0 || op.completed {
			panic("vsched: rendezvous partner vanished")
		}
		if g.low || o.low {
			w.lowViolation(g, "rendezvous")
		}
		// Go memory model: send happens-before the receive completes and the receive happens-before
		// the send completes (unbuffered) -> both clocks become the join.
		g.vc.join(o.vc)
		o.vc = g.vc.clone()
		g.vc.tick(g.idx)
		o.vc.tick(o.idx)
		c.sends++
		op.completed = true
		op.resIdx = j
		if cs.send {
			op.resVal, op.resOK = cs.val, true
			return ci, nil, false
		}
		op.resOK = false
		return ci, op.cases[j].val, true
	}
	// buffered / closed path
	if cs.send {
		if c.closed {
			panic("send on closed channel")
		}
		if g.low {
			w.lowViolation(g, "send")
		}
		if c.nsend >= c.cap {
			// the k-th receive happens-before the (k+cap)-th send completes
			g.vc.join(c.recvVCs[c.nsend%c.cap])
		}
		c.nsend++
		c.sends++
		c.buf = append(c.buf, item{val: cs.val, vc: g.vc.clone()})
		g.vc.tick(g.idx)
		return ci, nil, false
	}
	if len(c.buf) > 0 {
		if g.low {
			w.lowViolation(g, "receive of a value")
		}
		it := c.buf[0]
		c.buf[0] = item{}
		c.buf = c.buf[1:]
		g.vc.join(it.vc)
		c.recvVCs[c.nrecv%c.cap] = g.vc.clone()
		c.nrecv++
		g.vc.tick(g.idx)
		return ci, it.val, true
	}
	if !c.closed {
		panic("vsched: receive alternative chosen but nothing to receive")
	}
	if g.low && c.sends != 0 {
		w.lowViolation(g, "receive on a channel that carries values")
	}
	g.vc.join(c.closeVC)
	if len(cases) > 1 {
		g.stutterSig, g.stutterAlt = selSig(p), alt
	}
	return ci, nil, false
}

func (w *World) touch(g *G, o *Obj) {
	if o.users == nil {
		o.users = map[int]struct{}{}
	}
	o.users[g.idx] = struct{}{}
	if g.objs == nil {
		g.objs = map[*Obj]struct{}{}
	}
	g.objs[o] = struct{}{}
}

func (w *World) lowViolation(g *G, what string) {
	w.Break("low-priority goroutine %s performed a non-commuting operation (%s); the partial-order argument for delaying it does not hold", g.name, what)
}

// Send is the rewritten `c <- v`.
func (ch *Chan[T]) Send(v T) {
	w := Cur()
	w.checkAbort()
	cs := w.cur.casebuf[:1]
	cs[0] = selCase{c: ch.core(), send: true, val: v}
	w.comm(cs, false, "send")
}

// Recv is the rewritten `<-c`.
func (ch *Chan[T]) Recv() T {
	v, _ := ch.Recv2()
	return v
}

// Recv2 is the rewritten `v, ok := <-c`.
func (ch *Chan[T]) Recv2() (T, bool) {
	w := Cur()
	w.checkAbort()
	cs := w.cur.casebuf[:1]
	cs[0] = selCase{c: ch.core()}
	_, v, ok := w.comm(cs, false, "recv")
	var zero T
	if !ok {
		return zero, false
	}
	if v == nil {
		return zero, true
	}
	return v.(T), true
}

// Close is the rewritten close(c).
func (ch *Chan[T]) Close() {
	w := Cur()
	if ch == nil {
		w.yield(&pend{kind: opClose, name: "close nil channel"})
		panic("close of nil channel")
	}
	c := &ch.c
	w.checkAbort()
	g0 := w.cur
	g0.objbuf[0] = &c.Obj
	p := &g0.pbuf
	*p = pend{kind: opClose, name: "close", objs: g0.objbuf[:1]}
	w.yield(p)
	g := w.cur
	if g.low {
		w.lowViolation(g, "close")
	}
	if c.closed {
		panic("close of closed channel")
	}
	c.closed = true
	c.closeVC = g.vc.clone()
	g.vc.tick(g.idx)
}

// Len / Cap are the rewritten len(c) / cap(c) (not scheduling points).
func (ch *Chan[T]) Len() int {
	if ch == nil {
		return 0
	}
	return len(ch.c.buf)
}
func (ch *Chan[T]) Cap() int {
	if ch == nil {
		return 0
	}
	return ch.c.cap
}

// Select is the rewritten select statement: it returns the index of the chosen case (-1 = default).
func Select(hasDefault bool, cases ...SelCase) int {
	w := Cur()
	w.checkAbort()
	var cs []selCase
	if len(cases) <= len(w.cur.casebuf) {
		cs = w.cur.casebuf[:len(cases)]
	} else {
		cs = make([]selCase, len(cases))
	}
	for i, c := range cases {
		cs[i] = c.selCase()
	}
	name := "select"
	idx, v, ok := w.comm(cs, hasDefault, name)
	if idx >= 0 {
		cases[idx].setResult(v, ok)
	}
	return idx
}

func (c *core) String() string {
	return fmt.Sprintf("%s[%d/%d closed=%v]", c.Label, len(c.buf), c.cap, c.closed)
}
