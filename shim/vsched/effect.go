package vsched

// effect is what executing one alternative of a pending operation does to the causal-history hashes.  It is
// computed by the scheduler BEFORE the goroutine is woken, which lets the explorer predict the state key of
// every option of a decision point without executing it (explore.go).
type effect struct {
	gh     uint64 // new hash of the goroutine
	o      *G     // rendezvous partner
	oh     uint64 // its new hash
	objs   []*Obj // objects the operation depends on
	write  bool   // objects' hashes advance to wlast
	wlast  uint64
	commT  uint64 // != 0: commuting update; term added to the object's accumulator
	objbuf [4]*Obj
}

func (w *World) effectOf(g *G, alt int32, e *effect) {
	p := g.pend
	*e = effect{}
	fold := func(code uint64, objs []*Obj, write bool) {
		h := mix(g.h, code)
		for _, o := range objs {
			if o != nil {
				h = mix(h, o.last)
			}
		}
		e.gh, e.objs, e.write, e.wlast = h, objs, write, h
	}
	switch p.kind {
	case opStart:
		e.gh = mix(g.h, 0x57) // "started" differs from "not started yet"
	case opSimple, opQuiesce:
		if p.comm {
			o := p.objs[0]
			e.gh = mix(mix(g.h, p.code), o.base)
			e.objs = p.objs
			e.commT = mix(g.h, p.code) | 1
			return
		}
		fold(p.code, p.objs, !p.read)
	case opClose:
		fold(0x10, p.objs, true)
	case opComm:
		switch alt {
		case altResume:
			e.gh = mix(g.h, 0x52) // "resumed" differs from "completed by the partner, still parked"
			return
		case altDefault:
			// a default is a pure read of the channels' states: it commutes with other reads
			objs := e.objbuf[:0]
			for i := range p.cases {
				if p.cases[i].c != nil {
					objs = append(objs, &p.cases[i].c.Obj)
				}
			}
			fold(0xd0, objs, false)
			return
		}
		ci, partner := decAlt(alt)
		cs := &p.cases[ci]
		c := cs.c
		e.objbuf[0] = &c.Obj
		if partner >= 0 {
			o := w.gs[partner]
			j := partnerCase(o.pend, c, cs.send)
			hg, ho := g.h, o.h
			e.gh = mix(mix(mix(hg, 0xa0+uint64(ci)), c.last), ho)
			e.o, e.oh = o, mix(mix(mix(ho, 0xb0+uint64(j)), c.last), hg)
			e.objs, e.write, e.wlast = e.objbuf[:1], true, mix(e.gh, e.oh)
			return
		}
		switch {
		case cs.send:
			fold(0xc0+uint64(ci), e.objbuf[:1], true)
		case len(c.buf) > 0:
			fold(0xe0+uint64(ci), e.objbuf[:1], true)
		default:
			// A receive that observes "closed and drained" is a pure read: it commutes with every other such
			// read and is ordered only after the close / the receives that drained the buffer (whose hash it
			// folds in).  It is not recorded as a write on the channel object.
			fold(0xf0+uint64(ci), e.objbuf[:1], false)
		}
	}
}

func partnerCase(op *pend, c *core, send bool) int {
	for k := range op.cases {
		if op.cases[k].c == c && op.cases[k].send != send {
			return k
		}
	}
	panic("vsched: rendezvous partner vanished")
}

func keyTerm(id, h uint64) (uint64, uint64) { return mix(id, h), mix(h, id^0x5555) }

// keyAfter predicts the state key after the effect.
func (w *World) keyAfter(g *G, e *effect) [2]uint64 {
	k := w.key
	a0, a1 := keyTerm(g.id, g.h)
	b0, b1 := keyTerm(g.id, e.gh)
	k[0] += b0 - a0
	k[1] += b1 - a1
	if e.o != nil {
		a0, a1 = keyTerm(e.o.id, e.o.h)
		b0, b1 = keyTerm(e.o.id, e.oh)
		k[0] += b0 - a0
		k[1] += b1 - a1
	}
	return k
}

func (w *World) commit(g *G, e *effect) {
	w.setH(g, e.gh)
	if e.o != nil {
		w.setH(e.o, e.oh)
	}
	for _, o := range e.objs {
		if o == nil {
			continue
		}
		if e.commT != 0 {
			o.acc += e.commT
			o.last = mix(o.base, o.acc)
		} else if e.write {
			o.last, o.base, o.acc = e.wlast, e.wlast, 0
		}
		w.share(g, o)
		if e.o != nil {
			w.share(e.o, o)
		}
		if w.record {
			w.touch(g, o)
			if e.o != nil {
				w.touch(e.o, o)
			}
		}
	}
}
