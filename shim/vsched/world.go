// Package vsched is a cooperative scheduler for rewritten Go code (property C32).
//
// Code rewritten by checks/sched/gen calls vsched instead of using goroutines, channels, select,
// sync and net directly.  Exactly ONE virtual goroutine (G) runs at any time; every rewritten
// operation is a scheduling point at which the running G announces its pending operation, parks,
// and continues only when the scheduler picks it.  The scheduler knows for every parked G which
// alternatives of its pending operation are enabled (channel buffer occupancy / closed flag /
// rendezvous partner, mutex owner, waitgroup counter, vnet buffers), so it can enumerate the
// possible next steps, detect deadlock, and replay a recorded choice list exactly.
//
// The explorer (explore.go) re-executes a closed harness body from scratch for every schedule
// (stateless exploration) and drives the choice at each scheduling point.  hb.go keeps Go-memory-
// model vector clocks and reports happens-before races on instrumented fields.
package vsched

import (
	"fmt"
	"reflect"
	"runtime"
	"strings"
	"sync"
	"sync/atomic"
)

// Outcome of one execution.
type Outcome int

const (
	Completed Outcome = iota // no goroutine enabled, main goroutine finished
	Deadlock                 // no goroutine enabled, main goroutine (or a must-finish goroutine) unfinished
	Horizon                  // step horizon hit
	Panicked                 // a goroutine panicked
	Pruned                   // cut by the explorer (state cache); not a complete execution
	Diverged                 // replay prefix could not be followed (nondeterminism) -> CHECK-BROKEN
	Frontier                 // stopped at the frontier depth (the subtree is explored by a worker)
)

func (o Outcome) String() string {
	return [...]string{"completed", "deadlock", "horizon", "panic", "pruned", "diverged", "frontier"}[o]
}

type gstate int8

const (
	gParked gstate = iota
	gRunning
	gDone
)

// G is a virtual goroutine.
type G struct {
	w      *World
	idx    int    // dense index in creation order (deterministic for a fixed schedule prefix)
	id     uint64 // canonical id: hash(parent id, spawn number) - schedule independent
	name   string
	state  gstate
	wake   chan int32
	pend   *pend
	vc     VC     // Go memory model clock (race monitor)
	h      uint64 // Merkle hash of this goroutine's causal history (state cache / canonical trace)
	nspawn int
	nobjs  int  // objects created by this goroutine (canonical object ids)
	low    bool // low priority (see World.LowPriority)
	must   bool // must finish for the execution to count as terminated
	steps  int
	objs   map[*Obj]struct{} // objects touched (only in record mode)
	// stutter: the last operation of this goroutine was a receive on a closed, drained channel (a pure read
	// that changes nothing outside the goroutine) chosen in a select with signature stutterSig
	stutterSig uint64
	stutterAlt int32
	pbuf       pend       // the pending operation (a goroutine has at most one)
	casebuf    [4]selCase // its cases
	objbuf     [2]*Obj
	shared     uint64 // goroutines (dense index < 64) that operate on an object this goroutine also operates on
}

func (g *G) Name() string { return g.name }

// alternatives of a pending operation
const (
	altDefault int32 = -1 // select default
	altResume  int32 = -2 // passive side of a completed rendezvous continues
	altAbort   int32 = -3
)

type opKind uint8

const (
	opStart opKind = iota
	opComm
	opClose
	opSimple
	opQuiesce
	opExit
)

// pend is a pending operation of a parked G.
type pend struct {
	kind opKind
	name string
	// comm
	cases      []selCase
	hasDefault bool
	completed  bool
	resIdx     int
	resVal     any
	resOK      bool
	// simple
	ready func() bool
	objs  []*Obj
	code  uint64
	read  bool // the operation only observes the objects (commutes with other reads)
	comm  bool // commuting update (WaitGroup Add/Done): observes nothing, commutes with other such updates
	site  string
}

// Obj is the scheduler's view of a synchronisation object.
type Obj struct {
	last  uint64 // Merkle hash of the object's history: mix(base, acc) while commuting updates are pending
	base  uint64 // hash at the last non-commuting operation
	acc   uint64 // commutative sum of the commuting updates since then
	Label string
	w     *World
	users map[int]struct{}
	mask  uint64 // goroutines (dense index < 64) that operated on this object
	id    uint64 // canonical identity: hash(creating goroutine's canonical id, its creation counter); 0 = unknown
}

// Event is one scheduling step (kept only in record mode).
type Event struct {
	Step int    `json:"step"`
	G    string `json:"g"`
	Op   string `json:"op"`
	Site string `json:"site,omitempty"`
	Sw   string `json:"switch,omitempty"` // "", "free" or "preempt"
}

func (e Event) String() string {
	s := fmt.Sprintf("%3d %-34s %s", e.Step, e.G, e.Op)
	if e.Site != "" {
		s += "  @" + e.Site
	}
	if e.Sw != "" {
		s += "  [" + e.Sw + "]"
	}
	return s
}

// Note is a harness-level marker (begin/end of a call) with the step at which it was made.
type Note struct {
	Step int
	G    string
	Text string
}

// Choice is one scheduling decision: which G runs and which alternative of its pending operation.
type Choice struct {
	G   int16
	Alt int32
}

// World is the state of one execution.
type World struct {
	gs      []*G
	cur     *G
	steps   int
	horizon int
	aborted atomic.Bool
	endC    chan struct{}
	ended   bool
	live    sync.WaitGroup

	outcome  Outcome
	panicVal string
	panicG   string
	panicStk string
	broken   string

	key [2]uint64 // commutative sum over goroutines of mix(id, h)

	exploring bool // false: deterministic set-up phase (no choice points recorded)
	ctl       *controller

	// race monitor
	shadow   map[uintptr]*cell
	keep     []any
	Races    []Race
	raceSigs map[string]bool
	cellSlab [24]cell
	ncell    int
	accesses int64

	record   bool
	Trace    []Event
	Notes    []Note
	choices  []Choice // choices actually taken in the exploring phase
	preempts int
	swPairs  [][2]int16 // context switches (from, to) in the exploring phase

	nobj     int
	LazyObjs int
	sleep    []sleepEntry // sleep set of the execution in progress (explore.go)
	recs     []recTarget  // footprints being recorded
	netReg   map[string]any
	NetPort  int

	altbuf []int32
	eff    effect
}

// W is the world of the execution in progress (nil outside an execution).
var cur atomic.Pointer[World]

// Cur returns the world of the execution in progress; it panics when there is none.
func Cur() *World {
	w := cur.Load()
	if w == nil {
		panic("vsched: operation outside an execution")
	}
	return w
}

func (w *World) G() *G { return w.cur }

// NetRegistry is scratch space for shim/vnet (listeners by address), fresh per execution.
func (w *World) NetRegistry() map[string]any { return w.netReg }

func mix(a, b uint64) uint64 {
	x := a*0x9E3779B97F4A7C15 ^ (b + 0xBF58476D1CE4E5B9 + (a << 6) + (a >> 2))
	x ^= x >> 30
	x *= 0xBF58476D1CE4E5B9
	x ^= x >> 27
	x *= 0x94D049BB133111EB
	x ^= x >> 31
	return x
}

func (w *World) setH(g *G, h uint64) {
	a0, a1 := keyTerm(g.id, g.h)
	g.h = h
	b0, b1 := keyTerm(g.id, g.h)
	w.key[0] += b0 - a0
	w.key[1] += b1 - a1
}

func (w *World) newG(parent *G, name string, f func()) *G {
	g := &G{w: w, idx: len(w.gs), name: name, wake: make(chan int32, 1), state: gParked}
	if parent == nil {
		g.id = 0x1234567
		g.vc = VC{1}
		g.must = true
	} else {
		parent.nspawn++
		g.id = mix(parent.id, uint64(parent.nspawn))
		g.vc = parent.vc.clone()
		g.vc.tick(g.idx)
		parent.vc.tick(parent.idx)
		w.setH(parent, mix(parent.h, 0x5a00+uint64(parent.nspawn)))
	}
	if w.ctl != nil && w.ctl.opts.LowPriority != nil && w.ctl.opts.LowPriority(name) {
		g.low = true
	}
	g.name = fmt.Sprintf("%s#%d", name, g.idx)
	g.h = 0
	w.gs = append(w.gs, g)
	t0, t1 := keyTerm(g.id, g.h)
	w.key[0] += t0
	w.key[1] += t1
	if parent != nil {
		w.setH(g, mix(parent.h, 0x77))
	}
	g.pbuf = pend{kind: opStart, name: "start"}
	g.pend = &g.pbuf
	w.live.Add(1)
	spawn(func() {
		defer w.live.Done()
		defer func() {
			if r := recover(); r != nil {
				if _, ok := r.(abortT); ok {
					return
				}
				// panic in the code under test (or a harness bug): an observation.
				if !w.aborted.Load() && w.cur == g {
					buf := make([]byte, 8192)
					buf = buf[:runtime.Stack(buf, false)]
					w.panicVal = fmt.Sprint(r)
					w.panicG = g.name
					w.panicStk = string(buf)
					g.state = gDone
					w.end(Panicked)
				}
			}
		}()
		alt := <-g.wake
		if alt == altAbort || w.aborted.Load() {
			return
		}
		g.pend = nil
		g.state = gRunning
		f()
		if w.aborted.Load() {
			return
		}
		// exit: hand over to the next goroutine
		g.state = gDone
		g.pend = nil
		next, nalt := w.schedule(g)
		if next != nil {
			next.wake <- nalt
		}
	})
	return g
}

// Real goroutines are pooled: a virtual goroutine runs on an idle pooled goroutine, which keeps its grown
// stack for the next one (creating a goroutine and growing its stack for every virtual goroutine of every
// execution was a sizeable part of the cost of an execution).  Teardown therefore unwinds with a panic that
// the wrapper recovers (deferred calls of the code under test run, as with runtime.Goexit).
type poolWorker struct{ run chan func() }

var (
	poolMu   sync.Mutex
	poolIdle []*poolWorker
)

func spawn(f func()) {
	poolMu.Lock()
	var pw *poolWorker
	if n := len(poolIdle); n > 0 {
		pw = poolIdle[n-1]
		poolIdle = poolIdle[:n-1]
	}
	poolMu.Unlock()
	if pw == nil {
		pw = &poolWorker{run: make(chan func(), 1)}
		go func() {
			for f := range pw.run {
				f()
				poolMu.Lock()
				poolIdle = append(poolIdle, pw)
				poolMu.Unlock()
			}
		}()
	}
	pw.run <- f
}

type abortT struct{}

// funcName returns a short name of the function a closure was created in.
func funcName(f func()) string {
	fn := runtime.FuncForPC(reflect.ValueOf(f).Pointer())
	if fn == nil {
		return "?"
	}
	return shortFunc(fn.Name())
}

func shortFunc(n string) string {
	if i := strings.LastIndex(n, "/"); i >= 0 {
		n = n[i+1:]
	}
	return n
}

// Go starts a virtual goroutine (rewritten `go` statement).
func Go(f func()) {
	w := Cur()
	w.checkAbort()
	w.newG(w.cur, funcName(f), f)
}

// GoNamed starts a virtual goroutine with an explicit name (harness threads).
func GoNamed(name string, f func()) {
	w := Cur()
	w.checkAbort()
	g := w.newG(w.cur, name, f)
	g.must = true
}

func (w *World) checkAbort() {
	if w.aborted.Load() {
		panic(abortT{})
	}
}

// yield announces the pending operation of the running goroutine and parks it until the scheduler
// picks it; it returns the chosen alternative.
func (w *World) yield(p *pend) int32 {
	if w.aborted.Load() {
		panic(abortT{})
	}
	g := w.cur
	if g == nil || g.state != gRunning {
		panic("vsched: yield from a goroutine that is not the running virtual goroutine (unrewritten `go`?)")
	}
	if w.record {
		p.site = callerSite()
	}
	g.pend = p
	g.state = gParked
	next, alt := w.schedule(g)
	if next != g {
		if next != nil {
			next.wake <- alt
		}
		alt = <-g.wake
		if alt == altAbort || w.aborted.Load() {
			panic(abortT{})
		}
	}
	g.state = gRunning
	g.pend = nil
	g.stutterSig = 0
	return alt
}

func callerSite() string {
	var pcs [12]uintptr
	n := runtime.Callers(3, pcs[:])
	fr := runtime.CallersFrames(pcs[:n])
	for {
		f, more := fr.Next()
		if !strings.HasPrefix(f.Function, "verif/shim/vsched.") && !strings.HasPrefix(f.Function, "verif/shim/vsync.") &&
			!strings.HasPrefix(f.Function, "verif/shim/vnet.") && !strings.HasPrefix(f.Function, "verif/shim/vsched/stime.") {
			return fmt.Sprintf("%s:%d", shortFunc(f.Function), f.Line)
		}
		if !more {
			return ""
		}
	}
}

// end terminates the execution with the given outcome (called by the running goroutine or the scheduler).
func (w *World) end(o Outcome) {
	if w.ended {
		return
	}
	w.ended = true
	w.outcome = o
	w.aborted.Store(true)
	close(w.endC)
}

// Break marks the execution (and the whole check) as broken: a modelling assumption was violated.
func (w *World) Break(format string, a ...any) {
	if w.broken == "" {
		w.broken = fmt.Sprintf(format, a...)
	}
}

// alts appends the enabled alternatives of g's pending operation.
func (w *World) alts(g *G, out []int32) []int32 {
	p := g.pend
	if p == nil || g.state != gParked {
		return out
	}
	switch p.kind {
	case opStart, opClose:
		return append(out, 0)
	case opSimple:
		if p.ready == nil || p.ready() {
			return append(out, 0)
		}
		return out
	case opQuiesce:
		for _, o := range w.gs {
			if o != g && !o.low && o.state == gParked && o.pend != nil && o.pend.kind != opQuiesce {
				if n := len(w.alts(o, out)); n > len(out) {
					return out
				}
			}
		}
		return append(out, 0)
	case opComm:
		return w.commAlts(g, p, out)
	}
	return out
}

// schedule picks the next goroutine to run. prev is the goroutine that just parked or finished.
// It returns (nil, 0) when the execution ended.
func (w *World) schedule(prev *G) (*G, int32) {
	if w.ended {
		return nil, 0
	}
	w.steps++
	if w.steps > w.horizon {
		w.end(Horizon)
		return nil, 0
	}
	g, alt := w.ctl.pick(w, prev)
	if g == nil {
		if !w.ended {
			// quiescent
			o := Completed
			for _, x := range w.gs {
				if x.must && x.state != gDone {
					o = Deadlock
				}
			}
			w.end(o)
		}
		return nil, 0
	}
	if w.record {
		sw := ""
		if prev != nil && prev != g {
			sw = "free"
			if prev.state == gParked && len(w.alts(prev, nil)) > 0 {
				sw = "preempt"
			}
		}
		w.Trace = append(w.Trace, Event{Step: w.steps, G: g.name, Op: g.pend.describe(alt, w), Site: g.pend.site, Sw: sw})
	}
	w.effectOf(g, alt, &w.eff)
	if w.exploring {
		w.endRuns(g)
		w.recordOp(g, &w.eff)
	}
	w.commit(g, &w.eff)
	g.steps++
	if w.exploring && prev != nil && prev != g {
		w.swPairs = append(w.swPairs, [2]int16{int16(prev.idx), int16(g.idx)})
	}
	w.cur = g
	return g, alt
}

func (p *pend) describe(alt int32, w *World) string {
	switch p.kind {
	case opStart:
		return "start"
	case opComm:
		if alt == altResume {
			c := p.cases[p.resIdx]
			if c.send {
				return "send completed (by partner) on " + c.c.Label
			}
			return "recv completed (by partner) on " + c.c.Label
		}
		if alt == altDefault {
			return "select default"
		}
		ci, partner := decAlt(alt)
		c := p.cases[ci]
		s := "recv "
		if c.send {
			s = "send "
		}
		s += c.c.Label
		if !c.send && c.c.closed && len(c.c.buf) == 0 {
			s += " (closed)"
		}
		if partner >= 0 {
			s += " <-> " + w.gs[partner].name
		}
		if len(p.cases) > 1 || p.hasDefault {
			s = fmt.Sprintf("select case %d: %s", ci, s)
		}
		return s
	case opClose:
		if len(p.objs) == 1 && p.objs[0] != nil {
			return "close " + p.objs[0].Label
		}
		return p.name
	default:
		return p.name
	}
}

// Note records a harness marker.
func Mark(text string) {
	w := Cur()
	if w.aborted.Load() {
		return
	}
	w.Notes = append(w.Notes, Note{Step: w.steps, G: w.cur.name, Text: text})
}

// StartExploring ends the deterministic set-up phase: from now on every scheduling point is a choice point.
func StartExploring() {
	w := Cur()
	w.checkAbort()
	w.exploring = true
}

// StopExploring switches back to the deterministic scheduler (first enabled, non-preemptive) for the rest of
// the execution: harnesses whose scenario does not include Shutdown use it for the final clean-up.
func StopExploring() {
	w := Cur()
	w.checkAbort()
	w.exploring = false
}

// Quiesce parks the caller until no other normal-priority goroutine is enabled.
func Quiesce() {
	w := Cur()
	w.checkAbort() // (teardown: do not overwrite the pending operation the goroutine was parked on)
	p := &w.cur.pbuf
	*p = pend{kind: opQuiesce, name: "quiesce", code: 0x9999}
	w.yield(p)
}

// Yield is a plain scheduling point (always enabled).
func Yield(name string) {
	w := Cur()
	w.checkAbort() // (teardown: do not overwrite the pending operation the goroutine was parked on)
	p := &w.cur.pbuf
	*p = pend{kind: opSimple, name: name, code: 0x4444}
	w.yield(p)
}

// Point is a scheduling point for shim objects (vsync, vnet): the caller parks until ready() holds and
// the scheduler picks it.  After Point returns the caller (still the only running goroutine) mutates the
// object state.  objs are the objects the operation depends on (for the canonical trace).
func Point(name string, code uint64, ready func() bool, objs ...*Obj) {
	w := Cur()
	w.checkAbort() // (teardown: do not overwrite the pending operation the goroutine was parked on)
	p := &w.cur.pbuf
	*p = pend{kind: opSimple, name: name, ready: ready, objs: objs, code: code}
	w.yield(p)
}

// PointRead is Point for operations that only observe the objects' state (they commute with each other).
func PointRead(name string, code uint64, ready func() bool, objs ...*Obj) {
	w := Cur()
	w.checkAbort() // (teardown: do not overwrite the pending operation the goroutine was parked on)
	p := &w.cur.pbuf
	*p = pend{kind: opSimple, name: name, ready: ready, objs: objs, code: code, read: true}
	w.yield(p)
}

// PointCommute is Point for updates that observe nothing and commute with each other (WaitGroup.Add/Done:
// the counter after a set of them does not depend on their order).  They stay ordered with respect to the
// non-commuting operations on the object (Wait).
func PointCommute(name string, code uint64, obj *Obj) {
	w := Cur()
	w.checkAbort()
	g := w.cur
	g.objbuf[0] = obj
	p := &g.pbuf
	*p = pend{kind: opSimple, name: name, objs: g.objbuf[:1], code: code, comm: true}
	w.yield(p)
}

// share maintains the "operate on a common object" relation between goroutines.
func (w *World) share(g *G, o *Obj) {
	if g.idx >= 64 {
		return
	}
	bit := uint64(1) << uint(g.idx)
	if o.mask&bit == 0 {
		for m, i := o.mask, 0; m != 0; m, i = m>>1, i+1 {
			if m&1 != 0 {
				w.gs[i].shared |= bit
			}
		}
		g.shared |= o.mask
		o.mask |= bit
	}
}

// NewObj registers a synchronisation object with the current execution.
func NewObj(label string) *Obj {
	w := Cur()
	w.checkAbort()
	o := &Obj{Label: label, w: w}
	w.initObj(o)
	return o
}

// NewObjLazy registers an object whose creation point is not known (a zero-value sync object initialised at
// its first use: WHICH goroutine uses it first depends on the schedule, so it has no canonical identity).
// Operations on it are treated as conflicting with every other operation by the sleep-set reduction.
func NewObjLazy(label string) *Obj {
	w := Cur()
	w.checkAbort()
	w.nobj++
	w.LazyObjs++
	return &Obj{Label: label, w: w}
}

func (w *World) initObj(o *Obj) {
	w.nobj++
	g := w.cur
	g.nobjs++
	o.id = mix(g.id^0x0b1ec7, uint64(g.nobjs)) | 1
}

// Fresh reports whether o belongs to the current execution (shims re-initialise stale zero-value objects).
func (o *Obj) Fresh() bool { return o != nil && o.w == cur.Load() }
