// Package stime is the drop-in for package time in concurrency-rewritten files (property C32).
// Clock reads pass through to the real clock (no decision of the code under test depends on them: they only
// feed log lines and LastSent/LastReceived stamps); timers are backed by vsched channels that NEVER fire
// (assumption stated in the evidence: the strand timers only log, connection deadlines are not modelled).
package stime

import (
	"time"

	"verif/shim/vsched"
)

type (
	Time     = time.Time
	Duration = time.Duration
	Month    = time.Month
	Weekday  = time.Weekday
	Location = time.Location
)

const (
	Nanosecond  = time.Nanosecond
	Microsecond = time.Microsecond
	Millisecond = time.Millisecond
	Second      = time.Second
	Minute      = time.Minute
	Hour        = time.Hour
	RFC3339     = time.RFC3339
	RFC3339Nano = time.RFC3339Nano
)

var UTC = time.UTC

func Now() Time                                { return time.Now() }
func Since(t Time) Duration                    { return time.Since(t) }
func Until(t Time) Duration                    { return time.Until(t) }
func Unix(sec, nsec int64) Time                { return time.Unix(sec, nsec) }
func ParseDuration(s string) (Duration, error) { return time.ParseDuration(s) }

// Timer mirrors time.Timer; C never delivers.
type Timer struct {
	C *vsched.Chan[Time]
}

func NewTimer(d Duration) *Timer       { return &Timer{C: vsched.NewTimerChan[Time]("timer")} }
func (t *Timer) Stop() bool            { return true }
func (t *Timer) Reset(d Duration) bool { return true }

// After mirrors time.After; the channel never delivers.
func After(d Duration) *vsched.Chan[Time] { return vsched.NewTimerChan[Time]("time.After") }

// Ticker mirrors time.Ticker; C never delivers.
type Ticker struct {
	C *vsched.Chan[Time]
}

func NewTicker(d Duration) *Ticker       { return &Ticker{C: vsched.NewTimerChan[Time]("ticker")} }
func (t *Ticker) Stop()                  {}
func Tick(d Duration) *vsched.Chan[Time] { return vsched.NewTimerChan[Time]("time.Tick") }

// Sleep is a plain scheduling point.
func Sleep(d Duration) { vsched.Yield("Sleep") }
