package vsched

import (
	"fmt"
	"reflect"
	"sort"
	"sync"
	"unsafe"
)

// VC is a vector clock indexed by the dense goroutine index.
type VC []uint32

func (v VC) clone() VC {
	o := make(VC, len(v))
	copy(o, v)
	return o
}

func (v *VC) tick(i int) {
	for len(*v) <= i {
		*v = append(*v, 0)
	}
	(*v)[i]++
}

func (v *VC) join(o VC) {
	for len(*v) < len(o) {
		*v = append(*v, 0)
	}
	for i, x := range o {
		if x > (*v)[i] {
			(*v)[i] = x
		}
	}
}

func (v VC) at(i int) uint32 {
	if i < len(v) {
		return v[i]
	}
	return 0
}

// Acquire / Release let shim objects (vsync) create happens-before edges for the race monitor.
type Clock struct{ vc VC }

// Release joins the running goroutine's clock into c (unlock, Done, ...).
func (c *Clock) Release() {
	w := Cur()
	g := w.cur
	c.vc.join(g.vc)
	g.vc.tick(g.idx)
}

// ReleaseStore replaces c by the running goroutine's clock.
func (c *Clock) ReleaseStore() {
	w := Cur()
	g := w.cur
	c.vc = g.vc.clone()
	g.vc.tick(g.idx)
}

// Acquire joins c into the running goroutine's clock (lock, Wait returns, ...).
func (c *Clock) Acquire() {
	w := Cur()
	g := w.cur
	g.vc.join(c.vc)
}

type epoch struct {
	g     int
	clk   uint32
	fn    string
	write bool
}

type cell struct {
	w     epoch // last write (g = -1: none)
	reads []epoch
	name  string
}

// Race is a pair of conflicting accesses unordered by happens-before.
type Race struct {
	Field string `json:"field"`
	A     string `json:"first"`  // "<func> (read|write) by <goroutine>"
	B     string `json:"second"` //
	Sig   string `json:"signature"`
}

func kind(wr bool) string {
	if wr {
		return "write"
	}
	return "read"
}

func (w *World) access(p unsafe.Pointer, write bool, field, fn string) {
	if w.aborted.Load() {
		return
	}
	g := w.cur
	w.accesses++
	a := uintptr(p)
	c := w.shadow[a]
	if c == nil {
		if w.ncell < len(w.cellSlab) {
			c = &w.cellSlab[w.ncell]
			w.ncell++
			*c = cell{w: epoch{g: -1}, name: field}
		} else {
			c = &cell{w: epoch{g: -1}, name: field}
		}
		w.shadow[a] = c
		w.keep = append(w.keep, p) // keep the object alive so the address is not reused within the execution
	}
	now := g.vc.at(g.idx)
	report := func(prev epoch) {
		x, y := fmt.Sprintf("%s:%s", prev.fn, kind(prev.write)), fmt.Sprintf("%s:%s", fn, kind(write))
		if y < x {
			x, y = y, x
		}
		sig := fmt.Sprintf("race:%s:%s/%s", field, x, y)
		if w.raceSigs[sig] {
			return
		}
		w.raceSigs[sig] = true
		w.Races = append(w.Races, Race{Field: field,
			A:   fmt.Sprintf("%s %s by %s", prev.fn, kind(prev.write), w.gs[prev.g].name),
			B:   fmt.Sprintf("%s %s by %s", fn, kind(write), g.name),
			Sig: sig})
	}
	// the previous write must happen-before this access
	if c.w.g >= 0 && c.w.g != g.idx && c.w.clk > g.vc.at(c.w.g) {
		report(c.w)
	}
	if write {
		for _, r := range c.reads {
			if r.g != g.idx && r.clk > g.vc.at(r.g) {
				report(r)
			}
		}
		c.w = epoch{g: g.idx, clk: now, fn: fn, write: true}
		c.reads = c.reads[:0]
		return
	}
	for i := range c.reads {
		if c.reads[i].g == g.idx {
			c.reads[i].clk, c.reads[i].fn = now, fn
			return
		}
	}
	c.reads = append(c.reads, epoch{g: g.idx, clk: now, fn: fn})
}

// R records a read of *p (field `field`, in function `fn`) and returns p.
func R[T any](p *T, field, fn string) *T {
	if w := cur.Load(); w != nil {
		w.access(unsafe.Pointer(p), false, field, fn)
	}
	return p
}

// W records a write of *p and returns p.
func W[T any](p *T, field, fn string) *T {
	if w := cur.Load(); w != nil {
		w.access(unsafe.Pointer(p), true, field, fn)
	}
	return p
}

type fieldInfo struct {
	off  uintptr
	name string
}

var structFields sync.Map // reflect.Type -> []fieldInfo

// RS records a read of every field of the struct *p (a whole-struct copy) and returns p.
func RS[T any](p *T, typeName, fn string) *T {
	w := cur.Load()
	if w == nil || p == nil {
		return p
	}
	t := reflect.TypeOf(p).Elem()
	var fs []fieldInfo
	if v, ok := structFields.Load(t); ok {
		fs = v.([]fieldInfo)
	} else {
		if t.Kind() != reflect.Struct {
			panic("vsched.RS: not a struct: " + t.String())
		}
		for i := 0; i < t.NumField(); i++ {
			f := t.Field(i)
			fs = append(fs, fieldInfo{off: f.Offset, name: typeName + "." + f.Name})
		}
		sort.Slice(fs, func(i, j int) bool { return fs[i].off < fs[j].off })
		structFields.Store(t, fs)
	}
	base := unsafe.Pointer(p)
	for _, f := range fs {
		w.access(unsafe.Add(base, f.off), false, f.name, fn)
	}
	return p
}
