package vsched_test

import (
	"sort"
	"testing"

	"verif/shim/vsched"
	"verif/shim/vsync"
)

// two goroutines increment a shared counter under a mutex; a third reads it without the lock (race).
func TestMutexAndRace(t *testing.T) {
	for _, locked := range []bool{true, false} {
		var outcomes = map[int]int{}
		races := map[string]bool{}
		body := func() {
			var mu vsync.Mutex
			var wg vsync.WaitGroup
			x := new(int)
			vsched.StartExploring()
			wg.Add(2)
			for i := 0; i < 2; i++ {
				vsched.GoNamed("inc", func() {
					defer wg.Done()
					if locked {
						mu.Lock()
					}
					v := *vsched.R(x, "x", "inc")
					vsched.Yield("between")
					*vsched.W(x, "x", "inc") = v + 1
					if locked {
						mu.Unlock()
					}
				})
			}
			wg.Wait()
			outcomes[*vsched.R(x, "x", "main")]++
		}
		st := vsched.Explore(body, vsched.Options{Bound: 2, NoCache: !locked}, func(e *vsched.Execution) bool {
			// (with a data race the state cache is not sound - the race itself is the report - so the racy variant runs uncached)
			if e.Outcome != vsched.Completed && e.Outcome != vsched.Pruned {
				t.Fatalf("outcome %v blocked %v", e.Outcome, e.Blocked)
			}
			for _, r := range e.Races {
				races[r.Sig] = true
			}
			return true
		})
		t.Logf("locked=%v stats=%+v outcomes=%v races=%v", locked, st, outcomes, races)
		if locked && (len(races) != 0 || len(outcomes) != 1) {
			t.Fatalf("locked: races %v outcomes %v", races, outcomes)
		}
		if !locked && (len(races) == 0 || len(outcomes) != 2) {
			t.Fatalf("unlocked: races %v outcomes %v", races, outcomes)
		}
		if !st.Exhaustive {
			t.Fatal("not exhaustive")
		}
	}
}

// classic lock-order deadlock needs one preemption.
func TestDeadlock(t *testing.T) {
	for bound := 0; bound <= 1; bound++ {
		dead := 0
		var sample *vsched.Execution
		body := func() {
			var a, b vsync.Mutex
			var wg vsync.WaitGroup
			vsched.StartExploring()
			wg.Add(2)
			vsched.GoNamed("ab", func() { defer wg.Done(); a.Lock(); b.Lock(); b.Unlock(); a.Unlock() })
			vsched.GoNamed("ba", func() { defer wg.Done(); b.Lock(); a.Lock(); a.Unlock(); b.Unlock() })
			wg.Wait()
		}
		st := vsched.Explore(body, vsched.Options{Bound: bound}, func(e *vsched.Execution) bool {
			if e.Outcome == vsched.Deadlock {
				dead++
				sample = e
			}
			return true
		})
		t.Logf("bound=%d stats=%+v deadlocks=%d", bound, st, dead)
		if bound == 0 && dead != 0 {
			t.Fatal("deadlock at bound 0?")
		}
		if bound == 1 {
			if dead == 0 {
				t.Fatal("deadlock missed")
			}
			r := vsched.Replay(body, sample.Choices, vsched.Options{})
			if r.Outcome != vsched.Deadlock {
				t.Fatalf("replay: %v", r.Outcome)
			}
			for _, ev := range r.Trace {
				t.Log(ev.String())
			}
			t.Log(r.Blocked)
		}
	}
}

// channels: unbuffered rendezvous, buffered, close, select with default.
func TestChannels(t *testing.T) {
	results := map[string]int{}
	body := func() {
		c := vsched.MakeChan[int](0, "c")
		d := vsched.MakeChan[int](1, "d")
		quit := vsched.MakeChan[struct{}](0, "quit")
		var wg vsync.WaitGroup
		vsched.StartExploring()
		wg.Add(3)
		got := ""
		vsched.GoNamed("producer", func() {
			defer wg.Done()
			rc := quit.RecvCase()
			switch vsched.Select(false, c.SendCase(1), rc) {
			case 0:
				got += "s"
			case 1:
				got += "q"
			}
		})
		vsched.GoNamed("consumer", func() {
			defer wg.Done()
			rc, rq := c.RecvCase(), quit.RecvCase()
			switch vsched.Select(false, rc, rq) {
			case 0:
				got += "r"
				d.Send(rc.Value())
			case 1:
				got += "Q"
			}
		})
		vsched.GoNamed("closer", func() {
			defer wg.Done()
			quit.Close()
		})
		wg.Wait()
		rd := d.RecvCase()
		if vsched.Select(true, rd) == 0 {
			got += "d"
		}
		// (the appends to got are unsynchronised test state: canonicalise the order)
		b := []byte(got)
		sort.Slice(b, func(i, j int) bool { return b[i] < b[j] })
		results[string(b)]++
	}
	st := vsched.Explore(body, vsched.Options{Bound: 2}, func(e *vsched.Execution) bool {
		if e.Outcome != vsched.Completed {
			t.Fatalf("outcome %v %v", e.Outcome, e.Blocked)
		}
		return true
	})
	t.Logf("stats=%+v results=%v", st, results)
	// possible: both quit (qQ / Qq), rendezvous (sr or rs + d), one... after rendezvous nobody else
	if len(results) < 2 {
		t.Fatalf("too few outcomes: %v", results)
	}
	// compare with uncached exploration: same outcome set
	results2 := map[string]int{}
	saved := results
	results = results2
	st2 := vsched.Explore(body, vsched.Options{Bound: 2, NoCache: true}, func(e *vsched.Execution) bool { return true })
	t.Logf("nocache stats=%+v results=%v", st2, results2)
	for k := range results2 {
		if saved[k] == 0 {
			t.Fatalf("cache lost outcome %q", k)
		}
	}
	for k := range saved {
		if results2[k] == 0 {
			t.Fatalf("outcome %q only with cache?", k)
		}
	}
}

func TestPanicAndLeak(t *testing.T) {
	panics := 0
	body := func() {
		c := vsched.MakeChan[int](0, "c")
		vsched.StartExploring()
		vsched.Go(func() { c.Recv() }) // leaks: blocked forever
		vsched.GoNamed("x", func() { c2 := vsched.MakeChan[int](0, "c2"); c2.Close(); c2.Close() })
	}
	st := vsched.Explore(body, vsched.Options{Bound: 1}, func(e *vsched.Execution) bool {
		if e.Outcome == vsched.Panicked {
			panics++
			if e.Panic != "close of closed channel" {
				t.Fatalf("panic %q", e.Panic)
			}
		}
		return true
	})
	t.Logf("%+v panics=%d", st, panics)
	if panics == 0 {
		t.Fatal("no panic seen")
	}
}
