package vsched

import (
	"fmt"
	"os"
	"sync/atomic"
	"syscall"
	"unsafe"
)

// SharedTable is a lock-free open-addressing hash set of visited states in a file mapped MAP_SHARED, so that
// several explorer PROCESSES (each with its own cooperative scheduler) expand every state once.
// Entry = two words: w0 = fingerprint 0 (non-zero), w1 = fingerprint 1 (high 56 bits) | remaining budget + 1.
type SharedTable struct {
	words []uint64
	hdr   []uint64
	mask  uint64
	data  []byte
	Full  bool
}

// OpenSharedTable maps (creating it if needed) a table with 2^bits entries.
func OpenSharedTable(path string, bits uint) (*SharedTable, error) {
	size := int64(16)<<bits + 4096 // + header page (entry counter)
	f, err := os.OpenFile(path, os.O_RDWR|os.O_CREATE, 0o600)
	if err != nil {
		return nil, err
	}
	defer f.Close()
	if st, err := f.Stat(); err != nil {
		return nil, err
	} else if st.Size() != size {
		if err := f.Truncate(size); err != nil {
			return nil, err
		}
	}
	data, err := syscall.Mmap(int(f.Fd()), 0, int(size), syscall.PROT_READ|syscall.PROT_WRITE, syscall.MAP_SHARED)
	if err != nil {
		return nil, fmt.Errorf("mmap %s: %v", path, err)
	}
	t := &SharedTable{data: data, mask: (uint64(1) << bits) - 1}
	t.hdr = unsafe.Slice((*uint64)(unsafe.Pointer(&data[0])), 512)
	t.words = unsafe.Slice((*uint64)(unsafe.Pointer(&data[4096])), (len(data)-4096)/8)
	return t, nil
}

func (t *SharedTable) Close() { syscall.Munmap(t.data) }

// Count returns the number of used entries.
func (t *SharedTable) Count() int64 { return int64(atomic.LoadUint64(&t.hdr[0])) }

// NextItem hands out work item indices to the processes sharing the table (atomic counter in the header).
func (t *SharedTable) NextItem() int64 { return int64(atomic.AddUint64(&t.hdr[2], 1)) - 1 }

// SetFull / IsFull: a worker that could not insert marks the table (all workers then report it).
func (t *SharedTable) IsFull() bool { return t.Full || atomic.LoadUint64(&t.hdr[1]) != 0 }

func (t *SharedTable) Covered(key [2]uint64, prev uint64, left int8) bool {
	k0 := mix(key[0], prev)
	if k0 == 0 {
		k0 = 1
	}
	k1 := mix(key[1], prev^0xabcdef) &^ 0xFF
	want := k1 | uint64(uint8(left)+1)
	i := k0 & t.mask
	for probes := uint64(0); probes <= t.mask; probes++ {
		w0 := &t.words[2*i]
		w1 := &t.words[2*i+1]
		a := atomic.LoadUint64(w0)
		if a == 0 {
			if atomic.CompareAndSwapUint64(w0, 0, k0) {
				atomic.StoreUint64(w1, want)
				if n := atomic.AddUint64(&t.hdr[0], 1); n > t.mask-t.mask/4 {
					// more than 75% full: give up before probing degenerates
					t.Full = true
					atomic.StoreUint64(&t.hdr[1], 1)
				}
				return false
			}
			a = atomic.LoadUint64(w0)
		}
		if a == k0 {
			var b uint64
			for spin := 0; ; spin++ {
				b = atomic.LoadUint64(w1)
				if b != 0 {
					break
				}
				if spin > 1000 {
					syscall.Nanosleep(&syscall.Timespec{Nsec: 1000}, nil)
				}
			}
			if b&^0xFF == k1 {
				for {
					if int8(uint8(b&0xFF)-1) >= left {
						return true
					}
					if atomic.CompareAndSwapUint64(w1, b, want) {
						return false // claimed with a larger budget: expand again
					}
					b = atomic.LoadUint64(w1)
				}
			}
		}
		i = (i + 1) & t.mask
	}
	t.Full = true
	atomic.StoreUint64(&t.hdr[1], 1)
	return false
}
