// Package vsync is the drop-in for package sync in concurrency-rewritten files (property C32): Mutex,
// RWMutex and WaitGroup whose blocking operations are scheduling points of verif/shim/vsched.  Zero values
// are ready to use, as in package sync.  Happens-before edges (unlock -> lock, Done -> Wait) are reported to
// the race monitor.
package vsync

import (
	"fmt"
	"reflect"
	"unsafe"

	"verif/shim/vsched"
)

type state struct {
	obj  *vsched.Obj
	clk  vsched.Clock
	rclk vsched.Clock // RWMutex: joined clocks of RUnlocks
}

// init (re)initialises the scheduler object; it reports true when the object is new for this execution
// (zero value, or left over from an earlier execution), in which case the caller resets its own fields.
func (s *state) init(label string) bool {
	if s.obj == nil || !s.obj.Fresh() {
		// first use of a zero value: no canonical identity (see vsched.NewObjLazy)
		*s = state{obj: vsched.NewObjLazy(label)}
		return true
	}
	return false
}

// Init gives a zero-value Mutex / RWMutex / WaitGroup / Once its identity at its creation point (the
// rewriter inserts the call after `var x sync.T`), so that the object is known to the scheduler under a
// schedule-independent name.  p must be a pointer to one of those types.
func Init(p interface{}, label string) {
	switch x := p.(type) {
	case *Mutex:
		*x = Mutex{s: state{obj: vsched.NewObj(label)}}
	case *RWMutex:
		*x = RWMutex{s: state{obj: vsched.NewObj(label)}}
	case *WaitGroup:
		*x = WaitGroup{s: state{obj: vsched.NewObj(label)}}
	case *Once:
		*x = Once{s: state{obj: vsched.NewObj(label)}}
	default:
		panic(fmt.Sprintf("vsync.Init: unsupported type %T", p))
	}
}

var (
	tMutex     = reflect.TypeOf(Mutex{})
	tRWMutex   = reflect.TypeOf(RWMutex{})
	tWaitGroup = reflect.TypeOf(WaitGroup{})
	tOnce      = reflect.TypeOf(Once{})
)

// InitFields calls Init on every direct field of struct *p that is a vsync object (the rewriter wraps
// `&T{...}` composite literals of such structs) and returns p.
func InitFields[T any](p *T, label string) *T {
	v := reflect.ValueOf(p).Elem()
	if v.Kind() != reflect.Struct {
		panic("vsync.InitFields: not a struct")
	}
	t := v.Type()
	for i := 0; i < t.NumField(); i++ {
		f := t.Field(i)
		ptr := unsafe.Pointer(v.Field(i).UnsafeAddr())
		l := label + "." + f.Name
		switch f.Type {
		case tMutex:
			Init((*Mutex)(ptr), l)
		case tRWMutex:
			Init((*RWMutex)(ptr), l)
		case tWaitGroup:
			Init((*WaitGroup)(ptr), l)
		case tOnce:
			Init((*Once)(ptr), l)
		}
	}
	return p
}

// Locker mirrors sync.Locker.
type Locker interface {
	Lock()
	Unlock()
}

// Mutex mirrors sync.Mutex.
type Mutex struct {
	s      state
	locked bool
}

func (m *Mutex) Lock() {
	if m.s.init("mutex") {
		m.locked = false
	}
	vsched.Point("Lock", 0x201, func() bool { return !m.locked }, m.s.obj)
	m.locked = true
	m.s.clk.Acquire()
}

func (m *Mutex) Unlock() {
	if m.s.init("mutex") {
		m.locked = false
	}
	vsched.Point("Unlock", 0x202, nil, m.s.obj)
	if !m.locked {
		panic("sync: unlock of unlocked mutex")
	}
	m.locked = false
	m.s.clk.Release()
}

// RWMutex mirrors sync.RWMutex.
type RWMutex struct {
	s       state
	writer  bool
	readers int
}

func (m *RWMutex) Lock() {
	if m.s.init("rwmutex") {
		m.writer, m.readers = false, 0
	}
	vsched.Point("Lock", 0x211, func() bool { return !m.writer && m.readers == 0 }, m.s.obj)
	m.writer = true
	m.s.clk.Acquire()
	m.s.rclk.Acquire()
}

func (m *RWMutex) Unlock() {
	if m.s.init("rwmutex") {
		m.writer, m.readers = false, 0
	}
	vsched.Point("Unlock", 0x212, nil, m.s.obj)
	if !m.writer {
		panic("sync: Unlock of unlocked RWMutex")
	}
	m.writer = false
	m.s.clk.Release()
}

func (m *RWMutex) RLock() {
	if m.s.init("rwmutex") {
		m.writer, m.readers = false, 0
	}
	vsched.Point("RLock", 0x213, func() bool { return !m.writer }, m.s.obj)
	m.readers++
	m.s.clk.Acquire()
}

func (m *RWMutex) RUnlock() {
	if m.s.init("rwmutex") {
		m.writer, m.readers = false, 0
	}
	vsched.Point("RUnlock", 0x214, nil, m.s.obj)
	if m.readers == 0 {
		panic("sync: RUnlock of unlocked RWMutex")
	}
	m.readers--
	m.s.rclk.Release()
}

// RLocker mirrors (*sync.RWMutex).RLocker.
func (m *RWMutex) RLocker() Locker { return (*rlocker)(m) }

type rlocker RWMutex

func (r *rlocker) Lock()   { (*RWMutex)(r).RLock() }
func (r *rlocker) Unlock() { (*RWMutex)(r).RUnlock() }

// WaitGroup mirrors sync.WaitGroup.
type WaitGroup struct {
	s state
	n int
}

func (wg *WaitGroup) Add(delta int) {
	if wg.s.init("waitgroup") {
		wg.n = 0
	}
	vsched.PointCommute("WaitGroup.Add", 0x221+uint64(uint32(int32(delta)))<<16, wg.s.obj)
	wg.n += delta
	if wg.n < 0 {
		panic("sync: negative WaitGroup counter")
	}
	if delta < 0 {
		wg.s.clk.Release()
	}
}

func (wg *WaitGroup) Done() {
	if wg.s.init("waitgroup") {
		wg.n = 0
	}
	vsched.PointCommute("WaitGroup.Done", 0x222, wg.s.obj)
	wg.n--
	if wg.n < 0 {
		panic("sync: negative WaitGroup counter")
	}
	wg.s.clk.Release()
}

func (wg *WaitGroup) Wait() {
	if wg.s.init("waitgroup") {
		wg.n = 0
	}
	vsched.Point("WaitGroup.Wait", 0x223, func() bool { return wg.n == 0 }, wg.s.obj)
	wg.s.clk.Acquire()
}

// Once mirrors sync.Once (the function runs inside the first caller; later callers wait for it).
type Once struct {
	s       state
	done    bool
	running bool
}

func (o *Once) Do(f func()) {
	if o.s.init("once") {
		o.done, o.running = false, false
	}
	vsched.Point("Once.Do", 0x231, func() bool { return !o.running }, o.s.obj)
	if o.done {
		o.s.clk.Acquire()
		return
	}
	o.running = true
	defer func() {
		o.running = false
		o.done = true
		o.s.clk.Release()
	}()
	f()
}
