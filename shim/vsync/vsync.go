// Package vsync is the drop-in for package sync in concurrency-rewritten files (property C32): Mutex,
// RWMutex and WaitGroup whose blocking operations are scheduling points of verif/shim/vsched.  Zero values
// are ready to use, as in package sync.  Happens-before edges (unlock -> lock, Done -> Wait) are reported to
// the race monitor.
package vsync

import (
	"verif/shim/vsched"
)

type state struct {
	obj  *vsched.Obj
	clk  vsched.Clock
	rclk vsched.Clock // RWMutex: joined clocks of RUnlocks
}

// init (re)initialises the scheduler object; it reports true when the object is new for this execution
// (zero value, or left over from an earlier execution), in which case the caller resets its own fields.
func (s *state) init(label string) bool {
	if s.obj == nil || !s.obj.Fresh() {
		*s = state{obj: vsched.NewObj(label)}
		return true
	}
	return false
}

// Locker mirrors sync.Locker.
type Locker interface {
	Lock()
	Unlock()
}

// Mutex mirrors sync.Mutex.
type Mutex struct {
	s      state
	locked bool
}

func (m *Mutex) Lock() {
	if m.s.init("mutex") {
		m.locked = false
	}
	vsched.Point("Lock", 0x201, func() bool { return !m.locked }, m.s.obj)
	m.locked = true
	m.s.clk.Acquire()
}

func (m *Mutex) Unlock() {
	if m.s.init("mutex") {
		m.locked = false
	}
	vsched.Point("Unlock", 0x202, nil, m.s.obj)
	if !m.locked {
		panic("sync: unlock of unlocked mutex")
	}
	m.locked = false
	m.s.clk.Release()
}

// RWMutex mirrors sync.RWMutex.
type RWMutex struct {
	s       state
	writer  bool
	readers int
}

func (m *RWMutex) Lock() {
	if m.s.init("rwmutex") {
		m.writer, m.readers = false, 0
	}
	vsched.Point("Lock", 0x211, func() bool { return !m.writer && m.readers == 0 }, m.s.obj)
	m.writer = true
	m.s.clk.Acquire()
	m.s.rclk.Acquire()
}

func (m *RWMutex) Unlock() {
	if m.s.init("rwmutex") {
		m.writer, m.readers = false, 0
	}
	vsched.Point("Unlock", 0x212, nil, m.s.obj)
	if !m.writer {
		panic("sync: Unlock of unlocked RWMutex")
	}
	m.writer = false
	m.s.clk.Release()
}

func (m *RWMutex) RLock() {
	if m.s.init("rwmutex") {
		m.writer, m.readers = false, 0
	}
	vsched.Point("RLock", 0x213, func() bool { return !m.writer }, m.s.obj)
	m.readers++
	m.s.clk.Acquire()
}

func (m *RWMutex) RUnlock() {
	if m.s.init("rwmutex") {
		m.writer, m.readers = false, 0
	}
	vsched.Point("RUnlock", 0x214, nil, m.s.obj)
	if m.readers == 0 {
		panic("sync: RUnlock of unlocked RWMutex")
	}
	m.readers--
	m.s.rclk.Release()
}

// RLocker mirrors (*sync.RWMutex).RLocker.
func (m *RWMutex) RLocker() Locker { return (*rlocker)(m) }

type rlocker RWMutex

func (r *rlocker) Lock()   { (*RWMutex)(r).RLock() }
func (r *rlocker) Unlock() { (*RWMutex)(r).RUnlock() }

// WaitGroup mirrors sync.WaitGroup.
type WaitGroup struct {
	s state
	n int
}

func (wg *WaitGroup) Add(delta int) {
	if wg.s.init("waitgroup") {
		wg.n = 0
	}
	vsched.PointCommute("WaitGroup.Add", 0x221+uint64(uint32(int32(delta)))<<16, wg.s.obj)
	wg.n += delta
	if wg.n < 0 {
		panic("sync: negative WaitGroup counter")
	}
	if delta < 0 {
		wg.s.clk.Release()
	}
}

func (wg *WaitGroup) Done() {
	if wg.s.init("waitgroup") {
		wg.n = 0
	}
	vsched.PointCommute("WaitGroup.Done", 0x222, wg.s.obj)
	wg.n--
	if wg.n < 0 {
		panic("sync: negative WaitGroup counter")
	}
	wg.s.clk.Release()
}

func (wg *WaitGroup) Wait() {
	if wg.s.init("waitgroup") {
		wg.n = 0
	}
	vsched.Point("WaitGroup.Wait", 0x223, func() bool { return wg.n == 0 }, wg.s.obj)
	wg.s.clk.Acquire()
}

// Once mirrors sync.Once (the function runs inside the first caller; later callers wait for it).
type Once struct {
	s       state
	done    bool
	running bool
}

func (o *Once) Do(f func()) {
	if o.s.init("once") {
		o.done, o.running = false, false
	}
	vsched.Point("Once.Do", 0x231, func() bool { return !o.running }, o.s.obj)
	if o.done {
		o.s.clk.Acquire()
		return
	}
	o.running = true
	defer func() {
		o.running = false
		o.done = true
		o.s.clk.Release()
	}()
	f()
}
