// Package vos is a drop-in seam for the parts of package os that the skycoin file-handling code
// (src/util/file/file.go, src/kvstorage/*.go, src/wallet/wallet.go, service.go, wallets.go) uses.
// Repo files get their `os` import redirected here by ovgen (import-spec rewrite only); the sister
// package verif/shim/vos/vioutil replaces io/ioutil.
//
// Every call passes through to the real file system.  In addition a harness can
//
//   - Record(dir): log every mutating operation below dir WITH ITS DATA (open(flags), write(bytes),
//     sync, close, rename, remove, truncate, mkdir) — the input of the crash-image enumeration (C20);
//   - SetReadOnly(dir, true): make every mutating operation below dir fail with EACCES, as on a
//     read-only / permission-less wallet directory (failure injection for C19; this sandbox runs as root,
//     so chmod cannot produce that failure).
//
// With no mount registered the overhead is one atomic load per call.
package vos

import (
	"io/fs"
	"os"
	"path/filepath"
	"runtime"
	"strings"
	"sync"
	"sync/atomic"
	"syscall"
)

// ---- pass-through aliases -------------------------------------------------------------------------

type (
	FileMode  = os.FileMode
	FileInfo  = os.FileInfo
	PathError = os.PathError
)

const (
	O_RDONLY = os.O_RDONLY
	O_WRONLY = os.O_WRONLY
	O_RDWR   = os.O_RDWR
	O_APPEND = os.O_APPEND
	O_CREATE = os.O_CREATE
	O_EXCL   = os.O_EXCL
	O_SYNC   = os.O_SYNC
	O_TRUNC  = os.O_TRUNC

	ModePerm = os.ModePerm
	ModeDir  = os.ModeDir
)

var (
	Args = os.Args

	ErrNotExist   = os.ErrNotExist
	ErrExist      = os.ErrExist
	ErrPermission = os.ErrPermission
	ErrInvalid    = os.ErrInvalid
)

func IsNotExist(err error) bool           { return os.IsNotExist(err) }
func IsExist(err error) bool              { return os.IsExist(err) }
func IsPermission(err error) bool         { return os.IsPermission(err) }
func Stat(name string) (FileInfo, error)  { return os.Stat(name) }
func Lstat(name string) (FileInfo, error) { return os.Lstat(name) }
func Getwd() (string, error)              { return os.Getwd() }
func Getenv(k string) string              { return os.Getenv(k) }
func Getpid() int                         { return os.Getpid() }
func TempDir() string                     { return os.TempDir() }
func Exit(code int)                       { os.Exit(code) }

// ---- operation log --------------------------------------------------------------------------------

// Op is one file-system operation as it was issued by the code under test.
type Op struct {
	Kind   string `json:"kind"`            // open | write | sync | close | rename | remove | removeall | truncate | mkdir | mkdirall
	Path   string `json:"path"`            // path relative to the recorded directory
	Path2  string `json:"path2,omitempty"` // rename target (relative)
	Flags  int    `json:"flags,omitempty"` // open flags
	Perm   uint32 `json:"perm,omitempty"`
	Data   []byte `json:"data,omitempty"` // write: the bytes
	Off    int64  `json:"off"`            // write: file offset; truncate: new size
	Handle int    `json:"handle,omitempty"`
	Site   string `json:"site"`          // first caller outside the shim, e.g. "file.SaveBinary"
	Err    string `json:"err,omitempty"` // the operation failed (and therefore had no effect)
}

// Log is the recorded history of one directory.
type Log struct {
	mu  sync.Mutex
	Dir string
	Ops []Op
	nh  int
}

type mount struct {
	dir      string // cleaned, with trailing separator
	log      *Log
	readOnly bool
}

var (
	active int32 // number of registered mounts (fast path)
	mmu    sync.RWMutex
	mounts []*mount
)

func norm(dir string) string {
	d, err := filepath.Abs(dir)
	if err != nil {
		d = filepath.Clean(dir)
	}
	return d + string(filepath.Separator)
}

func find(path string) (*mount, string) {
	if atomic.LoadInt32(&active) == 0 {
		return nil, ""
	}
	p, err := filepath.Abs(path)
	if err != nil {
		p = filepath.Clean(path)
	}
	mmu.RLock()
	defer mmu.RUnlock()
	for _, m := range mounts {
		if strings.HasPrefix(p+string(filepath.Separator), m.dir) {
			rel := strings.TrimPrefix(p+string(filepath.Separator), m.dir)
			rel = strings.TrimSuffix(rel, string(filepath.Separator))
			if rel == "" {
				rel = "."
			}
			return m, rel
		}
	}
	return nil, ""
}

func getMount(dir string, create bool) *mount {
	d := norm(dir)
	for _, m := range mounts {
		if m.dir == d {
			return m
		}
	}
	if !create {
		return nil
	}
	m := &mount{dir: d}
	mounts = append(mounts, m)
	atomic.AddInt32(&active, 1)
	return m
}

func dropIfIdle(m *mount) {
	if m.log != nil || m.readOnly {
		return
	}
	for i, x := range mounts {
		if x == m {
			mounts = append(mounts[:i], mounts[i+1:]...)
			atomic.AddInt32(&active, -1)
			return
		}
	}
}

// Record starts logging every mutating operation on paths below dir.
func Record(dir string) *Log {
	mmu.Lock()
	defer mmu.Unlock()
	m := getMount(dir, true)
	m.log = &Log{Dir: strings.TrimSuffix(m.dir, string(filepath.Separator))}
	return m.log
}

// Stop ends the recording and returns the operations.
func (l *Log) Stop() []Op {
	mmu.Lock()
	if m := getMount(l.Dir, false); m != nil && m.log == l {
		m.log = nil
		dropIfIdle(m)
	}
	mmu.Unlock()
	l.mu.Lock()
	defer l.mu.Unlock()
	return append([]Op(nil), l.Ops...)
}

// SetReadOnly makes every mutating operation below dir fail with EACCES (on=true) or lifts that again.
func SetReadOnly(dir string, on bool) {
	mmu.Lock()
	defer mmu.Unlock()
	m := getMount(dir, on)
	if m == nil {
		return
	}
	m.readOnly = on
	dropIfIdle(m)
}

// site names the function of the code under test that issued the operation: the first frame inside the
// skycoin module (so that a write issued through encoding/json or io.Copy is attributed to its skycoin
// caller); if there is none, the first frame outside the shim.
func site() string {
	pcs := make([]uintptr, 24)
	n := runtime.Callers(2, pcs)
	frames := runtime.CallersFrames(pcs[:n])
	short := func(fn string) string {
		if i := strings.LastIndex(fn, "/"); i >= 0 {
			fn = fn[i+1:]
		}
		return fn
	}
	first := ""
	for {
		f, more := frames.Next()
		if f.Function != "" && !strings.Contains(f.Function, "verif/shim/vos") {
			if strings.Contains(f.Function, "skycoin/skycoin/") {
				return short(f.Function)
			}
			if first == "" {
				first = short(f.Function)
			}
		}
		if !more {
			break
		}
	}
	if first == "" {
		return "?"
	}
	return first
}

func (m *mount) add(op Op, err error) {
	if m == nil || m.log == nil {
		return
	}
	if err != nil {
		op.Err = err.Error()
	}
	m.log.mu.Lock()
	m.log.Ops = append(m.log.Ops, op)
	m.log.mu.Unlock()
}

func (m *mount) deny(op, path string) error {
	if m != nil && m.readOnly {
		return &os.PathError{Op: op, Path: path, Err: syscall.EACCES}
	}
	return nil
}

// ---- mutating functions ---------------------------------------------------------------------------

func MkdirAll(path string, perm FileMode) error {
	m, rel := find(path)
	if m == nil {
		return os.MkdirAll(path, perm)
	}
	if st, err := os.Stat(path); err == nil && st.IsDir() {
		return nil // nothing changes; not an effect
	}
	err := m.deny("mkdir", path)
	if err == nil {
		err = os.MkdirAll(path, perm)
	}
	m.add(Op{Kind: "mkdirall", Path: rel, Perm: uint32(perm), Site: site()}, err)
	return err
}

func Mkdir(path string, perm FileMode) error {
	m, rel := find(path)
	if m == nil {
		return os.Mkdir(path, perm)
	}
	err := m.deny("mkdir", path)
	if err == nil {
		err = os.Mkdir(path, perm)
	}
	m.add(Op{Kind: "mkdir", Path: rel, Perm: uint32(perm), Site: site()}, err)
	return err
}

func Remove(name string) error {
	m, rel := find(name)
	if m == nil {
		return os.Remove(name)
	}
	err := m.deny("remove", name)
	if err == nil {
		err = os.Remove(name)
	}
	m.add(Op{Kind: "remove", Path: rel, Site: site()}, err)
	return err
}

func RemoveAll(name string) error {
	m, rel := find(name)
	if m == nil {
		return os.RemoveAll(name)
	}
	err := m.deny("remove", name)
	if err == nil {
		err = os.RemoveAll(name)
	}
	m.add(Op{Kind: "removeall", Path: rel, Site: site()}, err)
	return err
}

func Rename(oldpath, newpath string) error {
	m, rel := find(oldpath)
	m2, rel2 := find(newpath)
	if m == nil && m2 == nil {
		return os.Rename(oldpath, newpath)
	}
	var err error
	if m != nil {
		err = m.deny("rename", oldpath)
	}
	if err == nil && m2 != nil {
		err = m2.deny("rename", newpath)
	}
	if err == nil {
		err = os.Rename(oldpath, newpath)
	}
	if m == m2 {
		m.add(Op{Kind: "rename", Path: rel, Path2: rel2, Site: site()}, err)
	} else {
		// crossing the recorded directory: seen as a disappearance / an appearance of unknown content
		m.add(Op{Kind: "rename-out", Path: rel, Site: site()}, err)
		m2.add(Op{Kind: "rename-in", Path: rel2, Site: site()}, err)
	}
	return err
}

func Truncate(name string, size int64) error {
	m, rel := find(name)
	if m == nil {
		return os.Truncate(name, size)
	}
	err := m.deny("truncate", name)
	if err == nil {
		err = os.Truncate(name, size)
	}
	m.add(Op{Kind: "truncate", Path: rel, Off: size, Site: site()}, err)
	return err
}

func Chmod(name string, mode FileMode) error { return os.Chmod(name, mode) }

// ---- files ----------------------------------------------------------------------------------------

// File wraps *os.File; writes through it are logged when the file lives below a recorded directory.
type File struct {
	f      *os.File
	m      *mount
	rel    string
	handle int
	off    int64
	app    bool
}

func Open(name string) (*File, error) { return OpenFile(name, O_RDONLY, 0) }

func Create(name string) (*File, error) {
	return OpenFile(name, O_RDWR|O_CREATE|O_TRUNC, 0o666)
}

func OpenFile(name string, flag int, perm FileMode) (*File, error) {
	m, rel := find(name)
	mutating := flag&(O_WRONLY|O_RDWR|O_CREATE|O_TRUNC|O_APPEND) != 0
	if m == nil || !mutating {
		f, err := os.OpenFile(name, flag, perm)
		if err != nil {
			return nil, err
		}
		return &File{f: f}, nil
	}
	if err := m.deny("open", name); err != nil {
		m.add(Op{Kind: "open", Path: rel, Flags: flag, Perm: uint32(perm), Site: site()}, err)
		return nil, err
	}
	f, err := os.OpenFile(name, flag, perm)
	h := 0
	if m.log != nil {
		m.log.mu.Lock()
		m.log.nh++
		h = m.log.nh
		m.log.mu.Unlock()
	}
	m.add(Op{Kind: "open", Path: rel, Flags: flag, Perm: uint32(perm), Handle: h, Site: site()}, err)
	if err != nil {
		return nil, err
	}
	return &File{f: f, m: m, rel: rel, handle: h, app: flag&O_APPEND != 0}, nil
}

func (f *File) Name() string {
	if f == nil {
		return ""
	}
	return f.f.Name()
}

func (f *File) Read(b []byte) (int, error) {
	if f == nil {
		return 0, os.ErrInvalid
	}
	n, err := f.f.Read(b)
	f.off += int64(n)
	return n, err
}

func (f *File) Write(b []byte) (int, error) {
	if f == nil {
		return 0, os.ErrInvalid
	}
	off := f.off
	if f.app {
		off = -1 // append: offset = current end of file
	}
	n, err := f.f.Write(b)
	f.off += int64(n)
	if f.m != nil {
		f.m.add(Op{Kind: "write", Path: f.rel, Data: append([]byte(nil), b[:n]...), Off: off, Handle: f.handle, Site: site()}, nil)
		if err != nil {
			f.m.add(Op{Kind: "write", Path: f.rel, Off: off + int64(n), Handle: f.handle, Site: site()}, err)
		}
	}
	return n, err
}

func (f *File) WriteString(s string) (int, error) { return f.Write([]byte(s)) }

func (f *File) WriteAt(b []byte, off int64) (int, error) {
	if f == nil {
		return 0, os.ErrInvalid
	}
	n, err := f.f.WriteAt(b, off)
	if f.m != nil {
		f.m.add(Op{Kind: "write", Path: f.rel, Data: append([]byte(nil), b[:n]...), Off: off, Handle: f.handle, Site: site()}, nil)
	}
	return n, err
}

func (f *File) Truncate(size int64) error {
	if f == nil {
		return os.ErrInvalid
	}
	err := f.f.Truncate(size)
	if f.m != nil {
		f.m.add(Op{Kind: "truncate", Path: f.rel, Off: size, Handle: f.handle, Site: site()}, err)
	}
	return err
}

func (f *File) Sync() error {
	if f == nil {
		return os.ErrInvalid
	}
	err := f.f.Sync()
	if f.m != nil {
		f.m.add(Op{Kind: "sync", Path: f.rel, Handle: f.handle, Site: site()}, err)
	}
	return err
}

func (f *File) Close() error {
	if f == nil {
		return os.ErrInvalid // same as (*os.File)(nil).Close()
	}
	err := f.f.Close()
	if f.m != nil {
		f.m.add(Op{Kind: "close", Path: f.rel, Handle: f.handle, Site: site()}, err)
	}
	return err
}

func (f *File) Stat() (FileInfo, error) {
	if f == nil {
		return nil, os.ErrInvalid
	}
	return f.f.Stat()
}

func (f *File) Readdirnames(n int) ([]string, error) {
	if f == nil {
		return nil, os.ErrInvalid
	}
	return f.f.Readdirnames(n)
}

func (f *File) Readdir(n int) ([]FileInfo, error) {
	if f == nil {
		return nil, os.ErrInvalid
	}
	return f.f.Readdir(n)
}

// ---- helpers for the vioutil sister package ----------------------------------------------------------

func ReadFile(name string) ([]byte, error) { return os.ReadFile(name) }

func WriteFile(name string, data []byte, perm FileMode) error {
	// same sequence as os.WriteFile / ioutil.WriteFile: open(O_WRONLY|O_CREATE|O_TRUNC), write, close
	f, err := OpenFile(name, O_WRONLY|O_CREATE|O_TRUNC, perm)
	if err != nil {
		return err
	}
	_, err = f.Write(data)
	if err1 := f.Close(); err1 != nil && err == nil {
		err = err1
	}
	return err
}

func ReadDir(name string) ([]fs.DirEntry, error) { return os.ReadDir(name) }
