// Package vioutil is the io/ioutil counterpart of verif/shim/vos: the functions of io/ioutil that the
// skycoin file-handling code uses, routed through vos so that writes are logged / can be denied.
package vioutil

import (
	"io"
	"os"
	"sort"

	"verif/shim/vos"
)

var Discard = io.Discard

func ReadAll(r io.Reader) ([]byte, error) { return io.ReadAll(r) }

func ReadFile(filename string) ([]byte, error) { return vos.ReadFile(filename) }

// WriteFile behaves like ioutil.WriteFile: open(O_WRONLY|O_CREATE|O_TRUNC, perm), write, close.
func WriteFile(filename string, data []byte, perm os.FileMode) error {
	return vos.WriteFile(filename, data, perm)
}

// ReadDir behaves like ioutil.ReadDir: the directory's entries as FileInfo, sorted by name.
func ReadDir(dirname string) ([]os.FileInfo, error) {
	f, err := os.Open(dirname)
	if err != nil {
		return nil, err
	}
	list, err := f.Readdir(-1)
	f.Close()
	if err != nil {
		return nil, err
	}
	sort.Slice(list, func(i, j int) bool { return list[i].Name() < list[j].Name() })
	return list, nil
}

func TempDir(dir, pattern string) (string, error) { return os.MkdirTemp(dir, pattern) }
