package main

import (
	"bytes"
	"crypto/sha256"
	"fmt"
	"github.com/skycoin/skycoin/src/api"
	"math/big"
	"strings"
	"sync/atomic"

	"golang.org/x/crypto/ripemd160"

	"github.com/skycoin/skycoin/src/cipher"
	"github.com/skycoin/skycoin/src/cipher/base58"

	"verif/engine"
	mb58 "verif/model/base58"
	"verif/model/secp"
)

// C15 — base58 and address text encodings are exact and canonical.
// Oracle: verif/model/base58 (math/big definition). All families are full enumerations.
func init() { register("C15", "exploration", c15) }

type c15ctx struct {
	r       *engine.Run
	out     *engine.Counter
	evals   int64
	nontriv int64
	fam     *engine.Counter
}

func (c *c15ctx) ev(fam string, n int64) { atomic.AddInt64(&c.evals, n); c.fam.AddN(fam, int(n)) }

// one encode case: Encode equal to the definition, and Decode(Encode(b)) == b
func (c *c15ctx) encodeCase(b []byte) {
	r := c.r
	var got string
	if pn, pm := engine.Catch(func() { got = base58.Encode(b) }); pn {
		r.Failf("base58.Encode:panic", hx(b), "Encode(%x) panics: %s", b, pm)
		return
	}
	want := mb58.Encode(b)
	if got != want {
		sig := "base58.Encode:wrong-text"
		if len(b) > 0 && b[0] == 0 {
			sig = "base58.Encode:wrong-text:leading-zero-bytes"
		}
		r.Failf(sig, hx(b), "Encode(%x) = %q, definition %q", b, got, want)
		return
	}
	var back []byte
	var err error
	if pn, pm := engine.Catch(func() { back, err = base58.Decode(got) }); pn {
		r.Failf("base58.Decode:panic", got, "Decode(Encode(%x)=%q) panics: %s", b, got, pm)
		return
	}
	if len(b) == 0 {
		// Encode(empty) == "" by the definition; the round trip needs Decode("") == empty
		if err != nil {
			r.Failf("base58.Decode:rejects-empty-string:encoding-of-the-empty-byte-string", "", "Encode([]) = %q but Decode(%q) fails: %v", got, got, err)
		} else if len(back) != 0 {
			r.Failf("base58.Decode:round-trip", "", "Decode(\"\") = %x", back)
		}
		return
	}
	if err != nil || !bytes.Equal(back, b) {
		r.Failf("base58.Decode:round-trip", hx(b), "Decode(Encode(%x)=%q) = %x, %v", b, got, back, err)
	}
}

// one decode case: agree with the definition; success implies canonical (re-encoding gives the input)
func (c *c15ctx) decodeCase(s string) (accepted bool) {
	r := c.r
	var got []byte
	var err error
	if pn, pm := engine.Catch(func() { got, err = base58.Decode(s) }); pn {
		r.Failf("base58.Decode:panic", s, "Decode(%q) panics: %s", s, pm)
		return false
	}
	want, merr := mb58.Decode(s)
	if s == "" {
		// judged once in the encode family (empty byte string)
		return err == nil
	}
	if (err == nil) != (merr == nil) {
		sig := "base58.Decode:accepts-invalid-text"
		if merr == nil {
			sig = "base58.Decode:rejects-valid-text"
		}
		r.Failf(sig, s, "Decode(%q) = %x, %v; definition: %x, %v", s, got, err, want, merr)
		return err == nil
	}
	if err != nil {
		return false
	}
	if !bytes.Equal(got, want) {
		sig := "base58.Decode:wrong-bytes"
		if strings.HasPrefix(s, "1") {
			sig = "base58.Decode:wrong-bytes:leading-1"
		}
		r.Failf(sig, s, "Decode(%q) = %x, definition %x", s, got, want)
		return true
	}
	if re := base58.Encode(got); re != s {
		r.Failf("base58.Decode:not-canonical", s, "Decode(%q) succeeds but Encode(Decode) = %q", s, re)
	}
	return true
}

func c15(r *engine.Run) {
	r.RaceWorkload = "text" // supplement: free-running race-detector pass over the same API (can only add findings)
	c := &c15ctx{r: r, out: engine.NewCounter(), fam: engine.NewCounter()}
	if mb58.Encode([]byte{0, 0, 1}) != "112" || mb58.Encode([]byte("Hello World!")) != "2NEpo7TZRRrLZSi2U" {
		r.Broken("model/base58 vector")
	}
	alphabet := map[string]interface{}{}

	// ---- (1) encode: every byte string of length <= 2, length 3 (thorough: 4) over a boundary byte alphabet
	c.encodeCase([]byte{})
	c.ev("encode", 1)
	atomic.AddInt64(&c.nontriv, 1)
	engine.ParFor(256, func(a int) {
		c.encodeCase([]byte{byte(a)})
		n := int64(1)
		nt := int64(0)
		if a == 0 {
			nt++
		}
		for b := 0; b < 256; b++ {
			c.encodeCase([]byte{byte(a), byte(b)})
			n++
			if a == 0 {
				nt++
			}
		}
		c.ev("encode", n)
		atomic.AddInt64(&c.nontriv, nt)
	})
	c.out.AddN("encode:ok", 1+256+65536)
	small := []byte{0x00, 0x01, 0x39, 0x3a, 0x57, 0x58, 0xff}
	if r.Thorough() {
		small = []byte{0x00, 0x01, 0x02, 0x39, 0x3a, 0x3b, 0x57, 0x58, 0x7f, 0x80, 0xfe, 0xff}
	}
	alphabet["encode_small_bytes"] = len(small)
	maxL := r.Pick(3, 4)
	var rec func(prefix []byte)
	rec = func(prefix []byte) {
		if len(prefix) >= 3 {
			c.encodeCase(prefix)
			c.ev("encode", 1)
			c.out.Add("encode:ok")
			if prefix[0] == 0 {
				atomic.AddInt64(&c.nontriv, 1)
			}
		}
		if len(prefix) == maxL {
			return
		}
		for _, b := range small {
			rec(append(append([]byte{}, prefix...), b))
		}
	}
	rec(nil)
	// long inputs
	runs := []int{1, 2, 3, 4, 5, 8, 24, 25, 33, 34, 35, 64, 65, 128, 255, 256, 257, 512, 1000}
	alphabet["long_runs"] = runs
	for _, n := range runs {
		for _, tail := range [][]byte{nil, {1}, {0xff}, {0x39}, {0, 1}, bytes.Repeat([]byte{0xff}, 32)} {
			c.encodeCase(append(make([]byte, n), tail...))
			c.ev("encode-long", 1)
			atomic.AddInt64(&c.nontriv, 1)
		}
		for _, fill := range []byte{0xff, 0x80, 0x01, 0x39} {
			c.encodeCase(bytes.Repeat([]byte{fill}, n))
			c.ev("encode-long", 1)
			atomic.AddInt64(&c.nontriv, 1)
		}
		c.out.AddN("encode:long", 10)
	}

	// ---- (2) decode: every string of <= 3 (thorough 4) letters over the 58 characters + confusables + non-ASCII
	letters := []string{}
	for i := 0; i < len(mb58.Alphabet); i++ {
		letters = append(letters, string(mb58.Alphabet[i]))
	}
	extra := []string{"0", "O", "I", "l", " ", "\x00", "\x7f", "\x80", "\u0080", "é", "ÿ", "ı", "１", "\U0001F600"}
	letters = append(letters, extra...)
	alphabet["decode_letters"] = len(letters)
	alphabet["decode_extra_letters"] = fmt.Sprintf("%q", extra)
	depth := r.Pick(3, 4)
	alphabet["decode_max_letters"] = depth
	c.decodeCase("")
	c.ev("decode", 1)
	var acc, rej int64
	engine.ParFor(len(letters), func(i int) {
		var n, a, rj, nt int64
		var walk func(s string, d int, bad bool)
		walk = func(s string, d int, bad bool) {
			n++
			if c.decodeCase(s) {
				a++
			} else {
				rj++
			}
			if bad || s[0] == '1' {
				nt++
			}
			if d == depth {
				return
			}
			for j, l := range letters {
				walk(s+l, d+1, bad || j >= 58)
			}
		}
		walk(letters[i], 1, i >= 58)
		c.ev("decode", n)
		atomic.AddInt64(&acc, a)
		atomic.AddInt64(&rej, rj)
		atomic.AddInt64(&c.nontriv, nt)
	})
	c.out.AddN("decode:accept", int(acc))
	c.out.AddN("decode:reject:char", int(rej))
	// long runs of '1'
	for _, n := range runs {
		ones := strings.Repeat("1", n)
		for _, s := range []string{ones, ones + "2", ones + "z", ones + "21", ones + "0", ones + "é", "2" + ones, strings.Repeat("z", n), strings.Repeat("2", n), ones + strings.Repeat("z", 44)} {
			if c.decodeCase(s) {
				c.out.Add("decode:long:accept")
			} else {
				c.out.Add("decode:long:reject")
			}
			c.ev("decode-long", 1)
			atomic.AddInt64(&c.nontriv, 1)
		}
	}

	// ---- (3) address text: fixtures × every single edit
	c15Addresses(c, alphabet)

	for _, k := range []string{"encode:ok", "encode:long", "decode:accept", "decode:reject:char", "decode:long:accept", "decode:long:reject",
		"addr:accept", "addr:reject:char", "addr:reject:length", "addr:reject:checksum", "addr:reject:version"} {
		if c.out.Get(k) == 0 {
			r.Broken("vacuous: outcome class %q never seen: %v", k, c.out.Map())
		}
	}
	r.Assumptions = append(r.Assumptions,
		"byte strings: all of length <= 2, a boundary byte alphabet at length 3 (thorough 4), and long runs; text: all strings of <= 3 (thorough 4) letters over the 58 characters plus confusable and non-ASCII letters, long runs of '1'; addresses: every single-character edit of the fixture addresses. Nothing is said about other inputs",
		"SHA256 and RIPEMD160 are trusted; the HTTP endpoint /api/v2/address/verify is exercised through its real handler (export VerifAddressVerify) on every text of the address families",
		"the empty byte string / empty text is judged once: Encode([]) must be \"\" and the round trip needs Decode(\"\") to succeed")
	alphabet["families"] = c.fam.Map()
	r.Finish(engine.Coverage{
		"evaluations":         c.evals,
		"distinct_nontrivial": c.nontriv,
		"rule":                "full enumeration of each family; every enumerated input is distinct by construction (letters are not concatenations of each other). Non-trivial = byte string with a leading zero byte, text with a leading '1' or containing a letter outside the alphabet, every long run, every address edit",
		"samples":             []interface{}{"00ff (bytes)", "1z (text)", "1é", strings.Repeat("1", 35) + "2", "address fixture with each character substituted by each of the 58 characters"},
		"exhaustive":          true,
		"outcome_histogram":   c.out.Map(),
		"alphabet":            alphabet,
	})
}

func hash160x(pub []byte) (k [20]byte) {
	h1 := sha256.Sum256(pub)
	h2 := sha256.Sum256(h1[:])
	rh := ripemd160.New()
	rh.Write(h2[:])
	copy(k[:], rh.Sum(nil))
	return
}

func c15Addresses(c *c15ctx, alphabet map[string]interface{}) {
	r := c.r
	type fixture struct {
		name string
		key  [20]byte
	}
	var fx []fixture
	nk := r.Pick(8, 16)
	for i := 1; i <= nk; i++ {
		pub := mPub(big.NewInt(int64(i)))
		k := hash160x(pub)
		fx = append(fx, fixture{fmt.Sprintf("pub(%d)", i), k})
		// address derivation itself: ripemd160(sha256(sha256(pubkey))), version 0
		var pk cipher.PubKey
		copy(pk[:], pub)
		a := cipher.AddressFromPubKey(pk)
		c.ev("address-derive", 1)
		if a.Version != 0 || a.Key != cipher.Ripemd160(k) || a.String() != mb58.AddressString(k, 0) {
			r.Failf("cipher.AddressFromPubKey:wrong-address", hx(pub), "AddressFromPubKey(%x) = %s, definition %s", pub, a.String(), mb58.AddressString(k, 0))
		}
	}
	var z, zf, ff, one [20]byte
	copy(zf[2:], bytes.Repeat([]byte{0xff}, 18))
	copy(ff[:], bytes.Repeat([]byte{0xff}, 20))
	one[19] = 1
	fx = append(fx, fixture{"key all zero", z}, fixture{"key 0000ff..", zf}, fixture{"key all ff", ff}, fixture{"key ..01", one})
	alphabet["address_fixtures"] = len(fx)
	subst := mb58.Alphabet + "0OIl é"
	engine.ParFor(len(fx), func(i int) {
		f := fx[i]
		s := mb58.AddressString(f.key, 0)
		raw := mb58.AddressBytes(f.key, 0)
		set := map[string]bool{s: true}
		addv := func(v string) { set[v] = true }
		rs := []rune(subst)
		for pos := 0; pos <= len(s); pos++ {
			for _, ch := range rs {
				addv(s[:pos] + string(ch) + s[pos:]) // insertion
				if pos < len(s) {
					addv(s[:pos] + string(ch) + s[pos+1:]) // substitution
				}
			}
			if pos < len(s) {
				addv(s[:pos] + s[pos+1:]) // deletion
				if pos+1 < len(s) {
					addv(s[:pos] + string(s[pos+1]) + string(s[pos]) + s[pos+2:]) // transposition
				}
			}
		}
		addv("1" + s)
		addv("11" + s)
		addv(strings.TrimPrefix(s, "1"))
		addv(" " + s)
		addv(s + " ")
		addv(s + "\n")
		for _, ws := range []string{"\t", "\r\n", "\x00", "\u00a0", "\u2003", "  "} {
			addv(ws + s)
			addv(s + ws)
			addv(ws + s + ws)
		}
		addv(strings.ToUpper(s))
		addv(strings.ToLower(s))
		// byte-level edits, re-encoded by the model: version, checksum, length
		for v := 1; v < 256; v++ {
			addv(mb58.AddressString(f.key, byte(v))) // other version, correct checksum
			b := append([]byte{}, raw...)
			b[20] = byte(v) // other version, stale checksum
			addv(mb58.Encode(b))
		}
		for j := 0; j < 25; j++ {
			for _, d := range []byte{1, 0xff, 0x80} {
				b := append([]byte{}, raw...)
				b[j] += d
				addv(mb58.Encode(b))
			}
		}
		addv(mb58.Encode(raw[:24]))
		addv(mb58.Encode(append(append([]byte{}, raw...), 0)))
		addv(mb58.Encode(append([]byte{0}, raw...)))
		addv(mb58.Encode(raw[1:]))
		// 24- and 26-byte payloads with a checksum that is correct for their first len-4 bytes
		for _, l := range []int{20, 22} {
			p := append(append([]byte{}, raw[:l]...), 0)
			h := sha256.Sum256(p)
			addv(mb58.Encode(append(p, h[:4]...)))
		}
		for v := range set {
			c.ev("address", 1)
			atomic.AddInt64(&c.nontriv, 1)
			ma, merr := mb58.ParseAddress(v)
			var a cipher.Address
			var err error
			if pn, pm := engine.Catch(func() { a, err = cipher.DecodeBase58Address(v) }); pn {
				r.Failf("cipher.DecodeBase58Address:panic", v, "DecodeBase58Address(%q) panics: %s", v, pm)
				continue
			}
			cls := "addr:accept"
			switch merr {
			case nil:
			case mb58.ErrChar:
				cls = "addr:reject:char"
			case mb58.ErrAddrLength:
				cls = "addr:reject:length"
			case mb58.ErrAddrChecksum:
				cls = "addr:reject:checksum"
			case mb58.ErrAddrVersion:
				cls = "addr:reject:version"
			}
			c.out.Add(cls)
			// the same text through the API endpoint: 200 exactly for the canonical address texts (with the right version)
			if v != "" {
				var st int
				var ver uint8
				var hb string
				if pn, pm := engine.Catch(func() { st, ver, hb = api.VerifAddressVerify(v) }); pn {
					r.Failf("api.addressVerify:panic", v, "POST /api/v2/address/verify {address: %q} panics: %s", v, pm)
				} else if (st == 200) != (merr == nil) || (st != 200 && st != 422) {
					sig := "api.addressVerify:accepts-non-address:" + cls[len("addr:"):]
					if merr == nil {
						sig = "api.addressVerify:rejects-canonical-address"
					}
					r.Failf(sig, v, "POST /api/v2/address/verify {address: %q} → %d %s; definition: %v (fixture %s = %s)", v, st, strings.TrimSpace(hb), merr, f.name, s)
				} else if st == 200 && ver != ma.Version {
					r.Failf("api.addressVerify:wrong-version", v, "POST /api/v2/address/verify {address: %q} → version %d, definition %d", v, ver, ma.Version)
				}
				c.ev("address-api", 1)
			}
			if (err == nil) != (merr == nil) {
				sig := "cipher.DecodeBase58Address:accepts-non-address:" + cls[len("addr:"):]
				if merr == nil {
					sig = "cipher.DecodeBase58Address:rejects-canonical-address"
				}
				r.Failf(sig, v, "DecodeBase58Address(%q) err=%v; definition: %v (fixture %s = %s)", v, err, merr, f.name, s)
				continue
			}
			if err == nil {
				if a.Version != ma.Version || [20]byte(a.Key) != ma.Key {
					r.Failf("cipher.DecodeBase58Address:wrong-address", v, "DecodeBase58Address(%q) = %x/%d, definition %x/%d", v, a.Key, a.Version, ma.Key, ma.Version)
				}
				if a.String() != v {
					r.Failf("cipher.DecodeBase58Address:not-one-to-one", v, "DecodeBase58Address(%q).String() = %q", v, a.String())
				}
				if !bytes.Equal(a.Bytes(), mb58.AddressBytes(ma.Key, ma.Version)) {
					r.Failf("cipher.Address.Bytes:wrong", v, "Bytes() = %x", a.Bytes())
				}
			}
			// AddressFromBytes on the decoded payload must agree as well
			if pb, e := mb58.Decode(v); e == nil {
				_, me := mb58.ParseAddressBytes(pb)
				var e2 error
				if pn, pm := engine.Catch(func() { _, e2 = cipher.AddressFromBytes(pb) }); pn {
					r.Failf("cipher.AddressFromBytes:panic", hx(pb), "AddressFromBytes(%x) panics: %s", pb, pm)
				} else if (e2 == nil) != (me == nil) {
					r.Failf("cipher.AddressFromBytes:wrong-verdict:"+cls[len("addr:"):], hx(pb), "AddressFromBytes(%x) err=%v; definition %v", pb, e2, me)
				}
			}
		}
	})
	_ = secp.N
}
