package main

import (
	"bytes"
	"fmt"
	"math/big"
	"sync/atomic"

	"github.com/skycoin/skycoin/src/cipher"
	skysecp "github.com/skycoin/skycoin/src/cipher/secp256k1-go"
	secpgo "github.com/skycoin/skycoin/src/cipher/secp256k1-go/secp256k1-go2"

	"verif/engine"
	"verif/model/bip"
	"verif/model/secp"
)

// C14 — the secp256k1 implementation agrees with the curve mathematics.
// Every family below is a FULL product of boundary alphabets; the oracle is verif/model/secp (textbook big.Int).
// Levels observed: low  = secp256k1-go2 (primitives; panics on out-of-contract input are "reject by panic", counted),
//
//	mid  = secp256k1-go  (what package cipher calls),
//	top  = package cipher (must return errors, never panic, where it has an error return).
func init() { register("C14", "exploration", c14) }

type c14ctx struct {
	r       *engine.Run
	out     *engine.Counter // outcome classes (vacuity guard)
	pan     *engine.Counter // low-level reject-by-panic sites
	lax     *engine.Counter // low-level acceptance of out-of-contract input (recorded, not judged)
	nontriv *engine.Set
	evals   int64
	fam     *engine.Counter // evaluations per family
}

func (c *c14ctx) eval(fam string) { atomic.AddInt64(&c.evals, 1); c.fam.Add(fam) }

type kcase struct {
	Family string `json:"family"`
	In     string `json:"in"`
}

var (
	glvLambda = bi("5363ad4cc05c30e0a5261c028812645a122e22ea20816678df02967c1b23bd72")
	glvA1B2   = bi("3086d221a7d46bcde86c90e49284eb15")
	glvB1     = bi("e4437ed6010e88286f547fa90abfe4c3")
	glvA2     = bi("0114ca50f7a8e2f3f657c1108d9d44cfd8")
)

// scalar alphabet S
func c14Scalars(thorough bool) []num {
	n, p := secp.N, secp.P
	s := []num{
		{"0", big.NewInt(0)}, {"1", big.NewInt(1)}, {"2", big.NewInt(2)}, {"3", big.NewInt(3)},
		{"n-2", add(n, -2)}, {"n-1", add(n, -1)}, {"n", n}, {"n+1", add(n, 1)},
		{"n/2", secp.HalfN}, {"n/2+1", add(secp.HalfN, 1)},
		{"2^256-1", add(pow2(256), -1)}, {"p", p}, {"p-1", add(p, -1)}, {"p-n", new(big.Int).Sub(p, n)},
		{"lambda", glvLambda}, {"lambda-1", add(glvLambda, -1)}, {"lambda+1", add(glvLambda, 1)},
		{"n-lambda", new(big.Int).Sub(n, glvLambda)},
		{"a1b2", glvA1B2}, {"b1", glvB1}, {"a2", glvA2},
	}
	ks := []uint{32, 64, 127, 128, 129, 255}
	if thorough {
		ks = []uint{1, 4, 8, 16, 26, 31, 32, 33, 52, 63, 64, 65, 96, 126, 127, 128, 129, 130, 160, 192, 224, 254, 255}
	}
	for _, k := range ks {
		s = append(s, num{fmt.Sprintf("2^%d", k), pow2(k)}, num{fmt.Sprintf("2^%d-1", k), add(pow2(k), -1)}, num{fmt.Sprintf("2^%d+1", k), add(pow2(k), 1)})
	}
	// rounding boundaries of the GLV split: c = floor((k*const + n/2)/n) steps from j-1 to j at k = ceil((j*n - n/2)/const)
	js := []int64{1, 2}
	if thorough {
		js = []int64{1, 2, 3, 1 << 20, 1 << 62}
	}
	for _, cst := range []num{{"a1b2", glvA1B2}, {"b1", glvB1}} {
		for _, j := range js {
			t := new(big.Int).Mul(big.NewInt(j), n)
			t.Sub(t, secp.HalfN)
			q, m := new(big.Int).DivMod(t, cst.V, new(big.Int))
			if m.Sign() != 0 {
				q.Add(q, big.NewInt(1))
			}
			if q.Cmp(n) < 0 {
				s = append(s, num{fmt.Sprintf("glvstep(%s,%d)", cst.Name, j), q}, num{fmt.Sprintf("glvstep(%s,%d)-1", cst.Name, j), add(q, -1)})
			}
		}
	}
	if thorough {
		for j := int64(2); j <= 6; j++ {
			s = append(s, num{fmt.Sprintf("%d*lambda mod n", j), new(big.Int).Mod(new(big.Int).Mul(big.NewInt(j), glvLambda), n)})
		}
	}
	nd := 8
	if thorough {
		nd = 24
	}
	for i := 0; i < nd; i++ {
		s = append(s, num{fmt.Sprintf("digest%d", i), digest("C14/scalar", i)})
	}
	return dedup(s)
}

func validOnly(in []num) []num {
	var out []num
	for _, x := range in {
		if secp.ValidScalar(x.V) {
			out = append(out, x)
		}
	}
	return out
}

func c14(r *engine.Run) {
	r.RaceWorkload = "signatures" // supplement: free-running race-detector pass over the same API (can only add findings)
	if err := bip.SelfCheck(nil); err != nil {
		r.Broken("reference model self-check failed: %v", err)
		r.Finish(nil)
		return
	}
	c := &c14ctx{r: r, out: engine.NewCounter(), pan: engine.NewCounter(), lax: engine.NewCounter(), nontriv: engine.NewSet(), fam: engine.NewCounter()}
	S := c14Scalars(r.Thorough())
	alphabet := map[string]interface{}{"scalars": len(S), "scalar_names": names(S)}

	timings := map[string]float64{}
	step := func(name string, f func()) {
		t0 := r.Elapsed()
		f()
		timings[name] = (r.Elapsed() - t0).Seconds()
	}
	step("keygen", func() { c14Keygen(c, S) })
	step("parse", func() { c14Parse(c, alphabet) })
	step("sign", func() { c14Sign(c, S, alphabet) })
	step("recover+verify", func() { c14Recover(c, S, alphabet) })
	step("ecdh", func() { c14ECDH(c, S, alphabet) })
	step("small-result", func() { c14SmallResults(c, alphabet) })
	step("detkeys", func() { c14DetKeys(c, alphabet) })
	alphabet["family_wall_s"] = timings

	// vacuity guards: every class must have been seen
	need := []string{
		"keygen:valid", "keygen:reject:zero", "keygen:reject:>=n",
		"parse:valid", "parse:reject:prefix", "parse:reject:x>=p", "parse:reject:not-on-curve",
		"sign:low:ok", "sign:low:s-flipped", "sign:low:s==0", "sign:api:ok", "sign:api:reject:seckey", "sign:api:reject:null-hash",
		"recover:ok", "recover:ok:recid&2", "recover:reject:r-range", "recover:reject:s-range", "recover:reject:recid", "recover:reject:r+n>=p", "recover:reject:no-point",
		"verify:accept", "verify:valid-high-s", "verify:reject:mismatch", "verify:reject:recid",
		"ecdh:ok", "ecdh:reject:seckey", "ecdh:reject:pubkey",
		"detkeys:ok", "detkeys:reject:empty-seed",
	}
	for _, k := range need {
		if c.out.Get(k) == 0 {
			r.Broken("vacuous: outcome class %q never seen; histogram %v", k, c.out.Map())
		}
	}
	if c.pan.Len() == 0 {
		r.Broken("vacuous: no low-level reject-by-panic observed")
	}
	r.Assumptions = append(r.Assumptions,
		"scalars, messages, nonces, x coordinates, r and s range over the listed boundary alphabets only (curve order, field prime, powers of two, GLV constants and rounding steps, fixed digests); nothing is said about other 256-bit values",
		"the random nonce inside cipher.SignHash / secp256k1.Sign is not controlled: those signatures are judged by relations (verify and recover under the model, s <= n/2, recid < 4), never by bytes; the nonce-dependent arithmetic is compared byte-for-byte through Signature.Sign with chosen nonces",
		"secp256k1-go2 (low level) panics or lax acceptance on out-of-contract input are recorded in reject_by_panic / lowlevel_lax and not judged; package cipher and secp256k1-go are judged on every input, except that secp256k1.RecoverPubkey's pass-through of a recovery byte > 3 is recorded only (cipher.PubKeyFromSig is judged)",
		"signature acceptance oracle: a signature is mathematically valid for a key when r,s are in [1,n-1], recid < 4 and the key recovered by the model equals the key; invalid must be rejected, valid with s <= n/2 must be accepted, valid with s > n/2 may be accepted or rejected (the low-s policy is C10's subject; what the code does is recorded in lowlevel_lax)",
		"SHA256 / RIPEMD160 are trusted (stdlib / x/crypto in the model)")
	alphabet["families"] = c.fam.Map()
	r.Finish(engine.Coverage{
		"evaluations":         c.evals,
		"distinct_nontrivial": c.nontriv.Len(),
		"rule":                "full Cartesian products per family (keygen, parse X×prefix, sign d×z×k, recover r×s×recid×z, verify ×keys, ECDH d×pub, deterministic sequences); a case is non-trivial when the model rejects it by a range/encoding/curve rule or accepts it (a full scalar-multiplication value comparison); trivial = well-formed signature that simply belongs to another key; distinctness by (family, input bytes)",
		"samples":             c14Samples(S),
		"exhaustive":          true,
		"outcome_histogram":   c.out.Map(),
		"reject_by_panic":     c.pan.Map(),
		"lowlevel_lax":        c.lax.Map(),
		"alphabet":            alphabet,
	})
}

func c14Samples(S []num) []interface{} {
	return []interface{}{
		map[string]string{"family": "keygen", "seckey": hx(b32(S[len(S)-1].V))},
		map[string]string{"family": "parse", "pubkey": "02" + hx(b32(add(secp.P, 1)))},
		map[string]string{"family": "sign", "d": "n-1", "z": "2^256-1", "k": "lambda"},
		map[string]string{"family": "recover", "r": "1", "s": "n/2+1", "recid": "2", "z": "n"},
	}
}

// ---------------------------------------------------------------- keygen over S

func c14Keygen(c *c14ctx, S []num) {
	r := c.r
	engine.ParFor(len(S), func(i int) {
		s := S[i]
		k := b32(s.V)
		cs := kcase{"keygen", hx(k)}
		c.eval("keygen")
		valid := secp.ValidScalar(s.V)
		cls := "keygen:valid"
		if s.V.Sign() == 0 {
			cls = "keygen:reject:zero"
		} else if !valid {
			cls = "keygen:reject:>=n"
		}
		c.out.Add(cls)
		c.nontriv.Add("keygen/" + cs.In)
		var want, wantU []byte
		if valid {
			want = mPub(s.V)
			wantU = secp.Uncompressed(mBaseMul(s.V))
		}
		// low: SeckeyIsValid
		if got := secpgo.SeckeyIsValid(k); (got == 1) != valid {
			r.Failf("secp256k1go.SeckeyIsValid:wrong-verdict", cs, "SeckeyIsValid(%s)=%d, model valid=%v", s.Name, got, valid)
		}
		// low: GeneratePublicKey
		var got []byte
		if pn, msg := engine.Catch(func() { got = secpgo.GeneratePublicKey(k) }); pn {
			if valid {
				r.Failf("secp256k1go.GeneratePublicKey:panic-on-valid-key", cs, "GeneratePublicKey(%s) panics: %s", s.Name, msg)
			} else {
				c.pan.Add("secp256k1go.GeneratePublicKey:invalid-seckey")
			}
		} else if !valid {
			c.lax.Add("secp256k1go.GeneratePublicKey:returns-for-invalid-seckey")
		} else if !bytes.Equal(got, want) {
			r.Failf("secp256k1go.GeneratePublicKey:wrong-pubkey", cs, "GeneratePublicKey(%s)=%x, model %x", s.Name, got, want)
		}
		// low: BaseMultiply (any scalar; k = 0 mod n gives infinity)
		kmod := new(big.Int).Mod(s.V, secp.N)
		got = nil
		if pn, msg := engine.Catch(func() { got = secpgo.BaseMultiply(k) }); pn {
			if kmod.Sign() != 0 {
				r.Failf("secp256k1go.BaseMultiply:panic", cs, "BaseMultiply(%s) panics: %s", s.Name, msg)
			} else {
				c.pan.Add("secp256k1go.BaseMultiply:result-infinity")
			}
		} else if kmod.Sign() == 0 {
			c.lax.Add("secp256k1go.BaseMultiply:returns-for-infinity")
		} else if w := secp.Compress(mBaseMul(kmod)); !bytes.Equal(got, w) {
			r.Failf("secp256k1go.BaseMultiply:wrong-point", cs, "BaseMultiply(%s)=%x, model %x", s.Name, got, w)
		}
		// mid
		if g := skysecp.VerifySeckey(k); (g == 1) != valid {
			r.Failf("secp256k1.VerifySeckey:wrong-verdict", cs, "VerifySeckey(%s)=%d, model valid=%v", s.Name, g, valid)
		}
		got = nil
		if pn, msg := engine.Catch(func() { got = skysecp.PubkeyFromSeckey(k) }); pn {
			if valid {
				r.Failf("secp256k1.PubkeyFromSeckey:panic-on-valid-key", cs, "PubkeyFromSeckey(%s) panics: %s", s.Name, msg)
			} else {
				c.pan.Add("secp256k1.PubkeyFromSeckey:invalid-seckey")
			}
		} else if valid != (got != nil) || (valid && !bytes.Equal(got, want)) {
			r.Failf("secp256k1.PubkeyFromSeckey:wrong-pubkey", cs, "PubkeyFromSeckey(%s)=%x, model %x", s.Name, got, want)
		}
		if valid {
			got = nil
			if pn, msg := engine.Catch(func() { got = skysecp.UncompressedPubkeyFromSeckey(k) }); pn || !bytes.Equal(got, wantU) {
				r.Failf("secp256k1.UncompressedPubkeyFromSeckey:wrong", cs, "UncompressedPubkeyFromSeckey(%s)=%x panic=%q, model %x", s.Name, got, msg, wantU)
			}
		}
		// top: NewSecKey, PubKeyFromSecKey, AddressFromSecKey, SecKey.Verify
		var err error
		var sk cipher.SecKey
		if pn, msg := engine.Catch(func() { sk, err = cipher.NewSecKey(k) }); pn {
			r.Failf("cipher.NewSecKey:panic-instead-of-error", cs, "NewSecKey(%s) panics: %s", s.Name, msg)
		} else if (err == nil) != valid {
			r.Failf("cipher.NewSecKey:wrong-verdict", cs, "NewSecKey(%s) err=%v, model valid=%v", s.Name, err, valid)
		}
		copy(sk[:], k)
		var pk cipher.PubKey
		if pn, msg := engine.Catch(func() { pk, err = cipher.PubKeyFromSecKey(sk) }); pn {
			r.Failf("cipher.PubKeyFromSecKey:panic-instead-of-error:"+cls[len("keygen:"):], cs, "PubKeyFromSecKey(%s) panics instead of returning an error: %s", s.Name, msg)
		} else if (err == nil) != valid {
			r.Failf("cipher.PubKeyFromSecKey:wrong-verdict", cs, "PubKeyFromSecKey(%s) err=%v, model valid=%v", s.Name, err, valid)
		} else if valid && !bytes.Equal(pk[:], want) {
			r.Failf("cipher.PubKeyFromSecKey:wrong-pubkey", cs, "PubKeyFromSecKey(%s)=%x, model %x", s.Name, pk[:], want)
		}
		if pn, msg := engine.Catch(func() { _, err = cipher.AddressFromSecKey(sk) }); pn {
			r.Failf("cipher.AddressFromSecKey:panic-instead-of-error:"+cls[len("keygen:"):], cs, "AddressFromSecKey(%s) panics instead of returning an error: %s", s.Name, msg)
		} else if (err == nil) != valid {
			r.Failf("cipher.AddressFromSecKey:wrong-verdict", cs, "AddressFromSecKey(%s) err=%v, model valid=%v", s.Name, err, valid)
		}
		if pn, msg := engine.Catch(func() { err = sk.Verify() }); pn {
			r.Failf("cipher.SecKey.Verify:panic-instead-of-error", cs, "SecKey(%s).Verify panics: %s", s.Name, msg)
		} else if (err == nil) != valid {
			r.Failf("cipher.SecKey.Verify:wrong-verdict", cs, "SecKey(%s).Verify err=%v, model valid=%v", s.Name, err, valid)
		}
	})
}

// ---------------------------------------------------------------- pubkey parsing over X × prefix

func c14XCoords(thorough bool) []num {
	p := secp.P
	xs := []num{{"0", big.NewInt(0)}, {"1", big.NewInt(1)}, {"2", big.NewInt(2)}, {"3", big.NewInt(3)}, {"p-1", add(p, -1)}, {"p-2", add(p, -2)},
		{"p", p}, {"p+1", add(p, 1)}, {"p+2", add(p, 2)}, {"p+3", add(p, 3)}, {"2^256-1", add(pow2(256), -1)}, {"2^255", pow2(255)}, {"n", secp.N}, {"Gx", secp.Gx}}
	// points with a tiny y (y < 2^32+977 = 2^256-p): the field code keeps values un-normalised in [p, 2^256) there.
	// x = cuberoot(y^2 - 7); the model (LiftX) decides validity, the root extraction is only a generator of candidates.
	p1 := add(p, -1)
	var omega *big.Int
	for g := int64(2); ; g++ {
		omega = new(big.Int).Exp(big.NewInt(g), new(big.Int).Div(p1, big.NewInt(3)), p)
		if omega.Cmp(big.NewInt(1)) != 0 {
			break
		}
	}
	maxY := int64(40)
	if thorough {
		maxY = 400
	}
	for y := int64(1); y <= maxY; y++ {
		cc := new(big.Int).Mod(big.NewInt(y*y-7), p)
		for _, e := range []*big.Int{new(big.Int).Div(add(p, 2), big.NewInt(9)), new(big.Int).Div(add(new(big.Int).Lsh(p, 1), 1), big.NewInt(9))} {
			x := new(big.Int).Exp(cc, e, p)
			if new(big.Int).Exp(x, big.NewInt(3), p).Cmp(cc) != 0 {
				continue
			}
			for j := 0; j < 3; j++ {
				xs = append(xs, num{fmt.Sprintf("x(y=%d)#%d", y, j), new(big.Int).Set(x)})
				x.Mul(x, omega).Mod(x, p)
			}
			break
		}
	}
	// x of valid points and non-residues, taken in order from a fixed digest stream
	want := 8
	if thorough {
		want = 32
	}
	nv, nn := 0, 0
	for i := 0; nv < want || nn < want; i++ {
		x := new(big.Int).Mod(digest("C14/x", i), p)
		_, ok := secp.LiftX(x, false)
		if ok && nv < want {
			xs = append(xs, num{fmt.Sprintf("valid%d", nv), x})
			nv++
		} else if !ok && nn < want {
			xs = append(xs, num{fmt.Sprintf("nonresidue%d", nn), x})
			nn++
		}
	}
	return dedup(xs)
}

func parseClass(err error) string {
	switch err {
	case nil:
		return "parse:valid"
	case secp.ErrPrefix:
		return "parse:reject:prefix"
	case secp.ErrXRange:
		return "parse:reject:x>=p"
	case secp.ErrNotOnCurve:
		return "parse:reject:not-on-curve"
	}
	return "parse:reject:length"
}

func c14Parse(c *c14ctx, alphabet map[string]interface{}) {
	r := c.r
	X := c14XCoords(r.Thorough())
	prefixes := []byte{0x00, 0x01, 0x02, 0x03, 0x04, 0x05, 0x06, 0x07, 0x82, 0xff}
	alphabet["x_coords"] = names(X)
	alphabet["prefix_bytes"] = len(prefixes)
	engine.ParFor(len(X), func(i int) {
		for _, pf := range prefixes {
			pub := append([]byte{pf}, b32(X[i].V)...)
			cs := kcase{"parse", hx(pub)}
			c.eval("parse")
			pt, merr := secp.ParseCompressed(pub)
			cls := parseClass(merr)
			c.out.Add(cls)
			c.nontriv.Add("parse/" + cs.In)
			valid := merr == nil
			tag := cls[len("parse:"):]
			// low: PubkeyIsValid
			var code int
			if pn, msg := engine.Catch(func() { code = secpgo.PubkeyIsValid(pub) }); pn {
				if valid {
					r.Failf("secp256k1go.PubkeyIsValid:panic-on-valid-key", cs, "PubkeyIsValid(%x) panics: %s", pub, msg)
				} else {
					c.pan.Add("secp256k1go.PubkeyIsValid:" + tag)
				}
			} else if (code == 1) != valid {
				r.Failf("secp256k1go.PubkeyIsValid:wrong-verdict:"+tag, cs, "PubkeyIsValid(%s,%02x)=%d, model: %v", X[i].Name, pf, code, merr)
			}
			// low: ParsePubkey + IsValid + coordinates
			var xy secpgo.XY
			var perr error
			var isv bool
			if pn, msg := engine.Catch(func() {
				perr = xy.ParsePubkey(pub)
				if perr == nil {
					isv = xy.IsValid()
				}
			}); pn {
				r.Failf("secp256k1go.XY.ParsePubkey:panic", cs, "ParsePubkey(%x) panics: %s", pub, msg)
			} else if valid {
				if perr != nil || !isv {
					r.Failf("secp256k1go.XY.ParsePubkey:rejects-valid", cs, "ParsePubkey(%x) err=%v IsValid=%v, model valid", pub, perr, isv)
				} else {
					xy.X.Normalize()
					xy.Y.Normalize()
					if xy.X.GetBig().Cmp(pt.X) != 0 || xy.Y.GetBig().Cmp(pt.Y) != 0 {
						r.Failf("secp256k1go.XY.ParsePubkey:wrong-point", cs, "ParsePubkey(%x) = (%s,%s), model (%x,%x)", pub, xy.X.String(), xy.Y.String(), pt.X, pt.Y)
					}
				}
			} else if perr == nil && isv {
				// SetB32 reduces x mod p silently: a non-canonical encoding parses to a valid point at this level
				c.lax.Add("secp256k1go.XY.ParsePubkey+IsValid:accepts:" + tag)
			}
			// mid: VerifyPubkey
			if pn, msg := engine.Catch(func() { code = skysecp.VerifyPubkey(pub) }); pn {
				r.Failf("secp256k1.VerifyPubkey:panic:"+tag, cs, "VerifyPubkey(%s,%02x) panics instead of returning a code: %s", X[i].Name, pf, msg)
			} else if (code == 1) != valid {
				r.Failf("secp256k1.VerifyPubkey:wrong-verdict:"+tag, cs, "VerifyPubkey(%s,%02x)=%d, model: %v", X[i].Name, pf, code, merr)
			}
			if valid {
				var u []byte
				if pn, msg := engine.Catch(func() { u = skysecp.UncompressPubkey(pub) }); pn || !bytes.Equal(u, secp.Uncompressed(pt)) {
					r.Failf("secp256k1.UncompressPubkey:wrong", cs, "UncompressPubkey(%x)=%x panic=%q", pub, u, msg)
				}
				if pf == 2 || pf == 3 {
					y := make([]byte, 32)
					secpgo.DecompressPoint(pub[1:], pf == 3, y)
					if !bytes.Equal(y, b32(pt.Y)) {
						r.Failf("secp256k1go.DecompressPoint:wrong-y", cs, "DecompressPoint(%x)=%x, model %x", pub, y, pt.Y)
					}
				}
			}
			// top: NewPubKey, PubKeyFromHex, PubKey.Verify
			var err error
			if pn, msg := engine.Catch(func() { _, err = cipher.NewPubKey(pub) }); pn {
				r.Failf("cipher.NewPubKey:panic-instead-of-error:"+tag, cs, "NewPubKey(%s,%02x) panics instead of returning an error: %s", X[i].Name, pf, msg)
			} else if (err == nil) != valid {
				r.Failf("cipher.NewPubKey:wrong-verdict:"+tag, cs, "NewPubKey(%s,%02x) err=%v, model: %v", X[i].Name, pf, err, merr)
			}
			if pn, msg := engine.Catch(func() { _, err = cipher.PubKeyFromHex(hx(pub)) }); pn {
				r.Failf("cipher.PubKeyFromHex:panic-instead-of-error:"+tag, cs, "PubKeyFromHex(%x) panics instead of returning an error: %s", pub, msg)
			} else if (err == nil) != valid {
				r.Failf("cipher.PubKeyFromHex:wrong-verdict:"+tag, cs, "PubKeyFromHex(%x) err=%v, model: %v", pub, err, merr)
			}
			var pk cipher.PubKey
			copy(pk[:], pub)
			if pn, msg := engine.Catch(func() { err = pk.Verify() }); pn {
				r.Failf("cipher.PubKey.Verify:panic-instead-of-error:"+tag, cs, "PubKey(%x).Verify panics instead of returning an error: %s", pub, msg)
			} else if (err == nil) != valid {
				r.Failf("cipher.PubKey.Verify:wrong-verdict:"+tag, cs, "PubKey(%x).Verify err=%v, model: %v", pub, err, merr)
			}
		}
	})
	// wrong lengths at the top level
	for _, l := range []int{0, 1, 32, 34, 65} {
		c.eval("parse")
		b := make([]byte, l)
		if l > 0 {
			b[0] = 2
		}
		var err error
		if pn, msg := engine.Catch(func() { _, err = cipher.NewPubKey(b) }); pn || err == nil {
			r.Failf("cipher.NewPubKey:wrong-length-accepted", kcase{"parse", hx(b)}, "NewPubKey(len %d) err=%v panic=%q", l, err, msg)
		}
		c.out.Add("parse:reject:length")
		c.nontriv.Add(fmt.Sprintf("parse/len%d", l))
	}
}
