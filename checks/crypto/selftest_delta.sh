#!/bin/bash
# checks/crypto/selftest_delta.sh <Cnn> [mutant.json ...]
# Detection relative to the unchanged tree: while findings of this group are not yet fixed / entered in known_findings.json the
# unchanged tree already exits 1, so "exit 1" alone proves nothing. A mutant counts as DETECTED only if it produces at least one
# violation SIGNATURE that the unchanged tree does not produce. (Repo-test survival is checked by tools/selftest.sh.)
cd "$(dirname "$0")/../.." || exit 2
id=$1; shift
muts=("$@"); [ ${#muts[@]} -eq 0 ] && muts=(mutants/$id-*.json)
sigs() { grep '^VIOLATION' | sed 's#.*replays/##' | sort -u; }
base=$(./run $id quick 2>&1 | sigs)
echo "baseline signatures on the unchanged tree: $(echo "$base" | grep -c . )"
for m in "${muts[@]}"; do
  name=$(basename "$m" .json)
  out=$(VERIF_MUTANT=$(realpath "$m") ./run $id quick 2>&1); code=$?
  if [ $code -eq 2 ]; then echo "$name BROKEN: $(echo "$out" | tail -2)"; continue; fi
  new=$(comm -13 <(echo "$base") <(echo "$out" | sigs))
  if [ -n "$new" ]; then echo "$name DETECTED (new signatures: $(echo "$new" | wc -l)): $(echo "$new" | head -3 | tr '\n' ' ')"; else echo "$name MISSED"; fi
done
