package main

import (
	"bytes"
	"crypto/sha256"
	"fmt"
	"strings"
	"sync/atomic"

	"github.com/skycoin/skycoin/src/cipher/bip39"
	"github.com/skycoin/skycoin/src/cipher/bip39/wordlists"

	"verif/engine"
	"verif/model/bip"
)

// C16 — BIP32/39/44 derivation matches the standards.
// Oracle: verif/model/bip (written from the BIP texts, validated at start-up against BIP32 test vector 1 and the
// BIP39 "abandon … about" vectors). The English word list is read from the repository as data only.
func init() { register("C16", "exploration", c16) }

type c16ctx struct {
	r       *engine.Run
	w       *bip.Words
	out     *engine.Counter
	nontriv *engine.Set
	evals   int64
	fam     *engine.Counter
}

func (c *c16ctx) ev(fam string) { atomic.AddInt64(&c.evals, 1); c.fam.Add(fam) }

func c16(r *engine.Run) {
	r.RaceWorkload = "hd" // supplement: free-running race-detector pass over the same API (can only add findings)
	w, err := bip.NewWords(wordlists.English)
	if err != nil {
		r.Broken("word list: %v", err)
		r.Finish(nil)
		return
	}
	if err := bip.SelfCheck(w); err != nil {
		r.Broken("reference model self-check failed: %v", err)
		r.Finish(nil)
		return
	}
	c := &c16ctx{r: r, w: w, out: engine.NewCounter(), nontriv: engine.NewSet(), fam: engine.NewCounter()}
	alphabet := map[string]interface{}{}
	timings := map[string]float64{}
	step := func(name string, f func()) {
		t0 := r.Elapsed()
		f()
		timings[name] = (r.Elapsed() - t0).Seconds()
	}
	var mnemonics []string
	step("bip39-entropy", func() { mnemonics = c16Entropy(c, alphabet) })
	step("bip39-validate", func() { c16Validate(c, mnemonics, alphabet) })
	step("bip39-seed", func() { c16Seed(c, mnemonics, alphabet) })
	step("bip32-derive", func() { c16Derive(c, alphabet) })
	step("bip32-paths", func() { c16Paths(c, alphabet) })
	step("bip32-serialise", func() { c16Serialise(c, alphabet) })
	step("bip44", func() { c16BIP44(c, alphabet) })
	alphabet["family_wall_s"] = timings
	alphabet["families"] = c.fam.Map()

	for _, k := range []string{
		"entropy:ok", "entropy:reject:size",
		"mnemonic:valid", "mnemonic:reject:checksum", "mnemonic:reject:count", "mnemonic:reject:word", "mnemonic:reject:shape",
		"seed:ok", "seed:reject:mnemonic",
		"master:ok", "master:reject:seed-length",
		"ckd:hardened", "ckd:normal", "ckdpub:ok", "ckdpub:reject:hardened", "ckd:reject:depth",
		"path:ok", "path:reject",
		"parse:ok", "parse:reject:base58", "parse:reject:length", "parse:reject:checksum", "parse:reject:version", "parse:reject:master-fingerprint", "parse:reject:master-index", "parse:reject:key-data",
		"bip44:ok", "bip44:reject:coin", "bip44:reject:account",
	} {
		if c.out.Get(k) == 0 {
			r.Broken("vacuous: outcome class %q never seen: %v", k, c.out.Map())
		}
	}
	r.Assumptions = append(r.Assumptions,
		"entropies, passphrases, seeds, child indices, paths and corruptions range over the listed alphabets only; 'impossible child' keys (IL >= n, sum zero: probability < 2^-127) are not reachable with them",
		"the English BIP39 word list is taken from the repository as data (its CRC is pinned there); HMAC-SHA512, SHA256, RIPEMD160 and Unicode NFKD are trusted (stdlib / golang.org/x)",
		"the reference models are validated at start-up against BIP32 test vector 1 (all five derivation steps, xprv and xpub) and the BIP39 zero/ff/7f-entropy vectors and seeds")
	r.Finish(engine.Coverage{
		"evaluations":         c.evals,
		"distinct_nontrivial": c.nontriv.Len(),
		"rule":                "full products per family (entropy kinds × sizes, every single-word neighbour and every last word of each mnemonic, mnemonic × passphrase, seeds × index tuples up to depth 3, path strings, every single-character / single-byte corruption of extended-key strings, BIP44 coin × account × chain × index); non-trivial = the model rejects, or a hardened/boundary index (>= 2^31-1) or non-ASCII passphrase is involved, or a corruption is accepted; distinctness by (family, input)",
		"samples": []interface{}{
			map[string]string{"family": "bip39-entropy", "entropy": "80" + strings.Repeat("00", 15)},
			map[string]string{"family": "bip39-seed", "mnemonic": mnemonics[0], "passphrase": "p\u00e4ssword"},
			map[string]string{"family": "bip32-derive", "seed": "000102030405060708090a0b0c0d0e0f", "path": "m/2147483647'/0/2147483648"},
			map[string]string{"family": "bip44", "path": "m/44'/8000'/0'/1/2147483647"},
		},
		"exhaustive":        true,
		"outcome_histogram": c.out.Map(),
		"alphabet":          alphabet,
	})
}

// ---------------------------------------------------------------- BIP39: entropy <-> mnemonic

func c16EntropyKinds(size int, thorough bool) []namedBytes {
	mk := func(first, fill byte) []byte {
		b := bytes.Repeat([]byte{fill}, size)
		b[0] = first
		return b
	}
	out := []namedBytes{
		{"zero", mk(0, 0)}, {"ff", mk(0xff, 0xff)}, {"80 00..", mk(0x80, 0)}, {"7f ff..", mk(0x7f, 0xff)}, {"00..01", append(make([]byte, size-1), 1)},
		{"00 ff..", mk(0, 0xff)},
	}
	nd := 4
	if thorough {
		nd = 24
	}
	for i := 0; i < nd; i++ {
		h := sha256.Sum256([]byte(fmt.Sprintf("verif/C16/entropy/%d/%d", size, i)))
		h2 := sha256.Sum256(h[:])
		out = append(out, namedBytes{fmt.Sprintf("digest%d", i), append(h[:], h2[:]...)[:size]})
	}
	return out
}

func c16Entropy(c *c16ctx, alphabet map[string]interface{}) (mnemonics []string) {
	r := c.r
	sizes := []int{16, 20, 24, 28, 32}
	for _, size := range sizes {
		for _, e := range c16EntropyKinds(size, r.Thorough()) {
			c.ev("bip39-entropy")
			cs := map[string]string{"family": "bip39-entropy", "entropy": hx(e.B)}
			c.out.Add("entropy:ok")
			want, err := c.w.Mnemonic(e.B)
			if err != nil {
				r.Broken("model Mnemonic: %v", err)
				return
			}
			if e.B[0] == 0 || e.B[0] == 0xff || e.B[0] == 0x80 || e.B[0] == 0x7f {
				c.nontriv.Add("entropy/" + hx(e.B))
			}
			mnemonics = append(mnemonics, want)
			var got string
			var gerr error
			if pn, pm := engine.Catch(func() { got, gerr = bip39.NewMnemonic(e.B) }); pn || gerr != nil {
				r.Failf("bip39.NewMnemonic:fails", cs, "NewMnemonic(%x) err=%v panic=%q", e.B, gerr, pm)
				continue
			}
			if got != want {
				r.Failf(fmt.Sprintf("bip39.NewMnemonic:wrong-sentence:%d-bit", size*8), cs, "NewMnemonic(%x) = %q, BIP39 gives %q", e.B, got, want)
				continue
			}
			var back []byte
			if pn, pm := engine.Catch(func() { back, gerr = bip39.EntropyFromMnemonic(want) }); pn || gerr != nil || !bytes.Equal(back, e.B) {
				r.Failf(fmt.Sprintf("bip39.EntropyFromMnemonic:round-trip:%d-bit", size*8), cs, "EntropyFromMnemonic(%q) = %x err=%v panic=%q, want %x", want, back, gerr, pm, e.B)
			}
			if pn, pm := engine.Catch(func() { gerr = bip39.ValidateMnemonic(want) }); pn || gerr != nil {
				r.Failf(fmt.Sprintf("bip39.ValidateMnemonic:rejects-valid:%d-bit", size*8), cs, "ValidateMnemonic(%q) err=%v panic=%q", want, gerr, pm)
			}
		}
	}
	// every invalid size 0..40 bytes (plus a few larger)
	for n := 0; n <= 68; n++ {
		valid := n >= 16 && n <= 32 && n%4 == 0
		if valid {
			continue
		}
		c.ev("bip39-entropy")
		c.out.Add("entropy:reject:size")
		c.nontriv.Add(fmt.Sprintf("entropy/size%d", n))
		if _, err := c.w.Mnemonic(make([]byte, n)); err == nil {
			r.Broken("model accepts entropy size %d", n)
		}
		var gerr error
		var got string
		if pn, pm := engine.Catch(func() { got, gerr = bip39.NewMnemonic(bytes.Repeat([]byte{0x5a}, n)) }); pn {
			r.Failf("bip39.NewMnemonic:panic:invalid-size", n, "NewMnemonic(%d bytes) panics: %s", n, pm)
		} else if gerr == nil {
			r.Failf("bip39.NewMnemonic:accepts-invalid-size", n, "NewMnemonic(%d bytes) = %q", n, got)
		}
		if pn, pm := engine.Catch(func() { _, gerr = bip39.NewEntropy(n * 8) }); pn || gerr == nil {
			r.Failf("bip39.NewEntropy:accepts-invalid-size", n, "NewEntropy(%d bits) err=%v panic=%q", n*8, gerr, pm)
		}
	}
	for _, bitsz := range []int{-32, 0, 1, 127, 129, 130, 136, 255, 257, 288} {
		c.ev("bip39-entropy")
		var gerr error
		if pn, pm := engine.Catch(func() { _, gerr = bip39.NewEntropy(bitsz) }); pn || gerr == nil {
			r.Failf("bip39.NewEntropy:accepts-invalid-size", bitsz, "NewEntropy(%d bits) err=%v panic=%q", bitsz, gerr, pm)
		}
	}
	for _, bitsz := range []int{128, 160, 192, 224, 256} {
		c.ev("bip39-entropy")
		e, gerr := bip39.NewEntropy(bitsz)
		if gerr != nil || len(e)*8 != bitsz {
			r.Failf("bip39.NewEntropy:wrong-size", bitsz, "NewEntropy(%d) = %d bytes, %v", bitsz, len(e), gerr)
		}
	}
	alphabet["entropy_sizes"] = sizes
	alphabet["entropy_kinds_per_size"] = len(c16EntropyKinds(16, r.Thorough()))
	return mnemonics
}

// ---------------------------------------------------------------- BIP39: which sentences are mnemonics

func mnemonicClass(err error) string {
	switch err {
	case nil:
		return "mnemonic:valid"
	case bip.ErrChecksum:
		return "mnemonic:reject:checksum"
	case bip.ErrCount:
		return "mnemonic:reject:count"
	case bip.ErrWord:
		return "mnemonic:reject:word"
	}
	return "mnemonic:reject:shape"
}

func (c *c16ctx) judgeSentence(m string) {
	r := c.r
	c.ev("bip39-validate")
	ent, merr := c.w.Entropy(m)
	cls := mnemonicClass(merr)
	c.out.Add(cls)
	c.nontriv.Add("sentence/" + m)
	tag := cls[len("mnemonic:"):]
	var verr, eerr error
	var got []byte
	if pn, pm := engine.Catch(func() { verr = bip39.ValidateMnemonic(m) }); pn {
		r.Failf("bip39.ValidateMnemonic:panic:"+tag, m, "ValidateMnemonic(%q) panics: %s", m, pm)
		return
	}
	if pn, pm := engine.Catch(func() { got, eerr = bip39.EntropyFromMnemonic(m) }); pn {
		r.Failf("bip39.EntropyFromMnemonic:panic:"+tag, m, "EntropyFromMnemonic(%q) panics: %s", m, pm)
		return
	}
	if (verr == nil) != (merr == nil) {
		sig := "bip39.ValidateMnemonic:accepts-invalid:" + tag
		if merr == nil {
			sig = "bip39.ValidateMnemonic:rejects-valid"
		}
		r.Failf(sig, m, "ValidateMnemonic(%q) err=%v; BIP39: %v", m, verr, merr)
	}
	if (eerr == nil) != (merr == nil) {
		sig := "bip39.EntropyFromMnemonic:accepts-invalid:" + tag
		if merr == nil {
			sig = "bip39.EntropyFromMnemonic:rejects-valid"
		}
		r.Failf(sig, m, "EntropyFromMnemonic(%q) err=%v; BIP39: %v", m, eerr, merr)
	}
	if (verr == nil) != (eerr == nil) {
		r.Failf("bip39:validity-paths-disagree:"+tag, m, "ValidateMnemonic(%q) err=%v but EntropyFromMnemonic err=%v", m, verr, eerr)
	}
	if merr == nil && eerr == nil {
		if !bytes.Equal(got, ent) {
			r.Failf("bip39.EntropyFromMnemonic:wrong-entropy", m, "EntropyFromMnemonic(%q) = %x, BIP39 %x", m, got, ent)
		} else if back, err := bip39.NewMnemonic(got); err != nil || back != m {
			r.Failf("bip39.NewMnemonic:round-trip", m, "NewMnemonic(EntropyFromMnemonic(%q)) = %q, %v", m, back, err)
		}
	}
}

func c16Validate(c *c16ctx, mnemonics []string, alphabet map[string]interface{}) {
	r := c.r
	// (1) every single word replaced by its successor and predecessor in the list
	engine.ParFor(len(mnemonics), func(i int) {
		ws := strings.Split(mnemonics[i], " ")
		for p := range ws {
			idx := c.w.Index[ws[p]]
			for _, d := range []int{1, 2047, 16, 1024} {
				alt := append([]string{}, ws...)
				alt[p] = c.w.List[(idx+d)%2048]
				c.judgeSentence(strings.Join(alt, " "))
			}
		}
	})
	// (2) every word of the list in the last position (exactly 2048 / 2^(11-CS) of them are valid — the model decides)
	nLast := len(mnemonics)
	if r.Quick() {
		nLast = 0
		for i := range mnemonics {
			if i%5 == 0 { // the "zero", 5th ... kinds of every size: a fixed subset
				nLast++
			}
		}
	}
	var pick []string
	for i, m := range mnemonics {
		if r.Thorough() || i%5 == 0 {
			pick = append(pick, m)
		}
	}
	alphabet["last_word_sweeps"] = len(pick)
	engine.ParFor(len(pick), func(i int) {
		ws := strings.Split(pick[i], " ")
		for _, wd := range c.w.List {
			alt := append(append([]string{}, ws[:len(ws)-1]...), wd)
			c.judgeSentence(strings.Join(alt, " "))
		}
	})
	// (3) shapes
	for _, m := range mnemonics {
		ws := strings.Split(m, " ")
		n := len(ws)
		shapes := []string{
			strings.Join(ws[:n-1], " "), strings.Join(ws[1:], " "), m + " " + ws[0], m + " " + ws[0] + " " + ws[1], m + " " + ws[0] + " " + ws[1] + " " + ws[2], m + " " + m,
			strings.Join(ws[:n-3], " "), strings.Join(ws[:3], " "), ws[0], "",
			" " + m, m + " ", "\t" + m, m + "\n", strings.Replace(m, " ", "  ", 1), strings.Replace(m, " ", "\t", 1), strings.Replace(m, " ", "\n", 1),
			strings.Replace(m, " ", "\u00a0", 1), strings.Replace(m, " ", "\u3000", 1), strings.ReplaceAll(m, " ", ""), strings.ReplaceAll(m, " ", ","),
			strings.ToUpper(m), strings.Title(m), //nolint
			strings.Replace(m, ws[2], ws[2]+"x", 1), strings.Replace(m, ws[n-1], "zzzz", 1), strings.Replace(m, ws[0], "abandoned", 1), strings.Replace(m, ws[1], "\u00e1bandon", 1),
			strings.Replace(m, ws[1], ws[1][:len(ws[1])-1], 1), strings.Replace(m, ws[3], "", 1),
		}
		for _, s := range shapes {
			c.judgeSentence(s)
		}
	}
	alphabet["mnemonics"] = len(mnemonics)
}

// ---------------------------------------------------------------- BIP39: mnemonic + passphrase -> seed

func c16Seed(c *c16ctx, mnemonics []string, alphabet map[string]interface{}) {
	r := c.r
	pass := []namedBytes{
		{"empty", nil}, {"TREZOR", []byte("TREZOR")}, {"p\u00e4ssword (NFC)", []byte("p\u00e4ssword")}, {"pa\u0308ssword (NFD)", []byte("pa\u0308ssword")},
		{"fullwidth pass (NFKD -> ascii)", []byte("\uff50\uff41\uff53\uff53")}, {"ligature fi", []byte("\ufb01sh")}, {"hangul syllable", []byte("\ud55c")}, {"space", []byte(" ")},
		{"200 bytes", bytes.Repeat([]byte("x"), 200)}, {"mnemonic", []byte("mnemonic")},
	}
	var pn []string
	for _, p := range pass {
		pn = append(pn, p.Name)
	}
	alphabet["passphrases"] = pn
	var ms []string
	stepM := r.Pick(5, 2)
	for i, m := range mnemonics {
		if i%stepM == 0 {
			ms = append(ms, m)
		}
	}
	alphabet["seed_mnemonics"] = len(ms)
	type job struct {
		m string
		p namedBytes
	}
	var jobs []job
	for _, m := range ms {
		for _, p := range pass {
			jobs = append(jobs, job{m, p})
		}
	}
	engine.ParFor(len(jobs), func(i int) {
		j := jobs[i]
		c.ev("bip39-seed")
		cs := map[string]string{"family": "bip39-seed", "mnemonic": j.m, "passphrase": string(j.p.B)}
		c.out.Add("seed:ok")
		ascii := true
		for _, b := range j.p.B {
			if b >= 0x80 {
				ascii = false
			}
		}
		if !ascii {
			c.nontriv.Add("seed/" + j.m + "/" + string(j.p.B))
		}
		want := bip.Seed(j.m, string(j.p.B))
		var got []byte
		var err error
		if pnc, pm := engine.Catch(func() { got, err = bip39.NewSeed(j.m, string(j.p.B)) }); pnc || err != nil {
			r.Failf("bip39.NewSeed:fails", cs, "NewSeed(valid mnemonic, %s) err=%v panic=%q", j.p.Name, err, pm)
			return
		}
		if !bytes.Equal(got, want) {
			sig := "bip39.NewSeed:wrong-seed"
			if !ascii {
				sig = "bip39.NewSeed:wrong-seed:passphrase-not-NFKD-normalised"
			}
			r.Failf(sig, cs, "NewSeed(%q, %s) = %x, BIP39 (PBKDF2 over NFKD forms) = %x", j.m, j.p.Name, got, want)
		}
	})
	// invalid mnemonics must be refused
	for _, m := range ms {
		ws := strings.Split(m, " ")
		for _, bad := range []string{strings.Join(ws[1:], " "), m + " ", strings.Replace(m, ws[0], "zzzz", 1), ""} {
			c.ev("bip39-seed")
			c.out.Add("seed:reject:mnemonic")
			c.nontriv.Add("seed-bad/" + bad)
			if _, merr := c.w.Entropy(bad); merr == nil {
				continue
			}
			var err error
			if pnc, pm := engine.Catch(func() { _, err = bip39.NewSeed(bad, "") }); pnc || err == nil {
				r.Failf("bip39.NewSeed:accepts-invalid-mnemonic", bad, "NewSeed(%q) err=%v panic=%q", bad, err, pm)
			}
		}
	}
}
