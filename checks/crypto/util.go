package main

import (
	"crypto/sha256"
	"encoding/hex"
	"fmt"
	"math/big"
	"sort"
	"sync"

	"verif/model/secp"
)

// named big integers used as alphabet letters
type num struct {
	Name string
	V    *big.Int
}

func bi(s string) *big.Int {
	v, ok := new(big.Int).SetString(s, 16)
	if !ok {
		panic("bad hex " + s)
	}
	return v
}

func add(a *big.Int, d int64) *big.Int { return new(big.Int).Add(a, big.NewInt(d)) }
func pow2(k uint) *big.Int             { return new(big.Int).Lsh(big.NewInt(1), k) }

func digest(label string, i int) *big.Int {
	h := sha256.Sum256([]byte(fmt.Sprintf("verif/%s/%d", label, i)))
	return new(big.Int).SetBytes(h[:])
}

// b32 is the 32-byte big-endian form (value must be < 2^256).
func b32(v *big.Int) []byte { return secp.Bytes32(v) }

func hx(b []byte) string { return hex.EncodeToString(b) }

// dedup keeps the first occurrence of every value, dropping values that do not fit in 256 bits or are negative.
func dedup(in []num) []num {
	seen := map[string]bool{}
	var out []num
	for _, n := range in {
		if n.V.Sign() < 0 || n.V.BitLen() > 256 {
			continue
		}
		k := n.V.Text(16)
		if seen[k] {
			continue
		}
		seen[k] = true
		out = append(out, n)
	}
	return out
}

func names(in []num) []string {
	var out []string
	for _, n := range in {
		out = append(out, n.Name)
	}
	return out
}

// memoised k*G of the model (the alphabets reuse the same scalars in many products)
var baseMulMemo sync.Map

func mBaseMul(k *big.Int) secp.Point {
	key := k.Text(16)
	if v, ok := baseMulMemo.Load(key); ok {
		return v.(secp.Point)
	}
	p := secp.BaseMul(k)
	baseMulMemo.Store(key, p)
	return p
}

// mPub is the model public key (compressed) for a valid secret.
func mPub(d *big.Int) []byte { return secp.Compress(mBaseMul(d)) }

func sortedKeys(m map[string]int) []string {
	var ks []string
	for k := range m {
		ks = append(ks, k)
	}
	sort.Strings(ks)
	return ks
}
