package main

import (
	"bytes"
	"crypto/sha256"
	"fmt"
	"math/big"

	"github.com/skycoin/skycoin/src/cipher"
	skysecp "github.com/skycoin/skycoin/src/cipher/secp256k1-go"
	secpgo "github.com/skycoin/skycoin/src/cipher/secp256k1-go/secp256k1-go2"

	"verif/engine"
	"verif/model/secp"
)

// ---------------------------------------------------------------- results with a small coordinate
//
// The other families choose the INPUTS at the boundaries; the result of a scalar multiplication is then a generic point.  The
// field arithmetic keeps values unreduced between operations, so a RESULT with a small coordinate (below 2^32+977, where
// v and v+p both fit the representation) is a boundary of its own.  Nobody knows the discrete logarithm of such a point, but it
// can be the result of operations on attacker-chosen inputs: for a target T with a small x or y and a scalar k,
//
//	ECDH / Multiply:     pub = k^-1·T, sec = k              → T
//	BaseMultiplyAdd:     pub = T − k·G, scalar k            → T
//	recovery / verify:   R = a·G + b·T, r = R.x, s = r/b, z = a·r/b  (a valid signature of z under the key T, made without a
//	                     secret key) → recovers T, verifies under T, does not verify under −T.
func c14SmallResults(c *c14ctx, alphabet map[string]interface{}) {
	r := c.r
	n := secp.N
	type target struct {
		name string
		pt   secp.Point
	}
	var T []target
	ylim, xlim := int64(64), int64(24)
	if r.Thorough() {
		ylim, xlim = 1024, 256
	}
	for y := int64(1); y <= ylim; y++ {
		if pt, ok := secp.LiftY(big.NewInt(y)); ok {
			T = append(T, target{fmt.Sprintf("y=%d", y), pt}, target{fmt.Sprintf("y=p-%d", y), secp.Neg(pt)})
		}
	}
	// y just below and above the width of one limb / of the unreduced window
	for _, y := range []*big.Int{add(pow2(26), -1), pow2(26), add(pow2(32), 976), add(pow2(32), 977), add(pow2(32), 978)} {
		for d := int64(0); d < 40; d++ {
			if pt, ok := secp.LiftY(add(y, d)); ok {
				T = append(T, target{fmt.Sprintf("y=0x%x", pt.Y), pt})
				break
			}
		}
	}
	for x := int64(1); x <= xlim; x++ {
		for _, odd := range []bool{false, true} {
			if pt, ok := secp.LiftX(big.NewInt(x), odd); ok {
				T = append(T, target{fmt.Sprintf("x=%d,odd=%v", x, odd), pt})
			}
		}
	}
	ks := []num{{"1", big.NewInt(1)}, {"2", big.NewInt(2)}, {"3", big.NewInt(3)}, {"n-1", add(n, -1)}, {"lambda", glvLambda},
		{"digest0", new(big.Int).Mod(digest("C14/small", 0), n)}, {"digest1", new(big.Int).Mod(digest("C14/small", 1), n)}}
	if r.Thorough() {
		ks = append(ks, num{"n/2", secp.HalfN}, num{"2^128", pow2(128)}, num{"digest2", new(big.Int).Mod(digest("C14/small", 2), n)})
	}
	bs := []*big.Int{big.NewInt(1), big.NewInt(777)}
	var tn []string
	for _, t := range T {
		tn = append(tn, t.name)
	}
	alphabet["small_result_targets"] = tn
	alphabet["small_result_scalars"] = names(ks)
	engine.ParFor(len(T), func(ti int) {
		t := T[ti]
		want := secp.Compress(t.pt)
		neg := secp.Compress(secp.Neg(t.pt))
		var tpk, npk cipher.PubKey
		copy(tpk[:], want)
		copy(npk[:], neg)
		for _, k := range ks {
			kinv := new(big.Int).ModInverse(k.V, n)
			sec := b32(k.V)
			// --- multiplication
			pub := secp.Compress(secp.Mul(kinv, t.pt))
			cs := map[string]string{"family": "small-result", "target": t.name, "pubkey": hx(pub), "seckey": hx(sec)}
			desc := fmt.Sprintf("pub=(%s)^-1·T sec=%s with T the point %s (%x)", k.Name, k.Name, t.name, want)
			c.eval("small-result:ecdh")
			c.nontriv.Add("small/ecdh/" + cs["pubkey"] + cs["seckey"])
			c.out.Add("small-result:ecdh")
			var got []byte
			if pnc, pm := engine.Catch(func() { got = secpgo.Multiply(pub, sec) }); pnc {
				r.Failf("secp256k1go.Multiply:panic:small-result", cs, "%s: panics: %s", desc, pm)
			} else if !bytes.Equal(got, want) {
				r.Failf("secp256k1go.Multiply:wrong-point:small-result", cs, "%s: got %x, model %x", desc, got, want)
			}
			got = nil
			if pnc, pm := engine.Catch(func() { got = skysecp.ECDH(pub, sec) }); pnc {
				r.Failf("secp256k1.ECDH:panic:small-result", cs, "%s: panics: %s", desc, pm)
			} else if !bytes.Equal(got, want) {
				r.Failf("secp256k1.ECDH:wrong:small-result", cs, "%s: got %x, model %x", desc, got, want)
			}
			var pk cipher.PubKey
			var sk cipher.SecKey
			copy(pk[:], pub)
			copy(sk[:], sec)
			var err error
			got = nil
			if pnc, pm := engine.Catch(func() { got, err = cipher.ECDH(pk, sk) }); pnc {
				r.Failf("cipher.ECDH:panic-instead-of-error:small-result", cs, "%s: panics: %s", desc, pm)
			} else if err != nil {
				r.Failf("cipher.ECDH:wrong-verdict:small-result", cs, "%s: err=%v", desc, err)
			} else if h := sha256.Sum256(want); !bytes.Equal(got, h[:]) {
				r.Failf("cipher.ECDH:wrong-secret:small-result", cs, "%s: got %x, model sha256(%x)", desc, got, want)
			}
			// --- k·G + pub
			if base := secp.Add(t.pt, secp.Neg(mBaseMul(k.V))); !base.Inf {
				pub2 := secp.Compress(base)
				cs2 := map[string]string{"family": "small-result", "target": t.name, "pubkey": hx(pub2), "scalar": hx(sec)}
				c.eval("small-result:basemultiplyadd")
				c.nontriv.Add("small/bma/" + cs2["pubkey"] + cs2["scalar"])
				got = nil
				if pnc, pm := engine.Catch(func() { got = secpgo.BaseMultiplyAdd(pub2, sec) }); pnc {
					r.Failf("secp256k1go.BaseMultiplyAdd:panic:small-result", cs2, "pub=T-%s·G scalar=%s, T the point %s: panics: %s", k.Name, k.Name, t.name, pm)
				} else if !bytes.Equal(got, want) {
					r.Failf("secp256k1go.BaseMultiplyAdd:wrong-point:small-result", cs2, "pub=T-%s·G scalar=%s, T the point %s: got %x, model %x", k.Name, k.Name, t.name, got, want)
				}
			}
			// --- a signature valid under the key T, built without a secret key
			for _, b := range bs {
				R := secp.Add(mBaseMul(k.V), secp.Mul(b, t.pt))
				if R.Inf {
					continue
				}
				rr := new(big.Int).Mod(R.X, n)
				if rr.Sign() == 0 {
					continue
				}
				binv := new(big.Int).ModInverse(b, n)
				s := new(big.Int).Mod(new(big.Int).Mul(rr, binv), n)
				z := new(big.Int).Mod(new(big.Int).Mul(new(big.Int).Mul(k.V, rr), binv), n)
				recid := int(R.Y.Bit(0))
				if R.X.Cmp(n) >= 0 {
					recid |= 2
				}
				if s.Cmp(secp.HalfN) > 0 { // the low-s form of the same signature
					s.Sub(n, s)
					recid ^= 1
				}
				if s.Sign() == 0 {
					continue
				}
				if Q, ok := secp.Recover(z, rr, s, recid); !ok || !secp.Equal(Q, t.pt) || !secp.Verify(t.pt, z, rr, s) {
					r.Broken("harness: constructed signature does not recover the target %s in the model", t.name)
					return
				}
				msg := b32(z)
				s65 := append(append(b32(rr), b32(s)...), byte(recid))
				var csig cipher.Sig
				copy(csig[:], s65)
				var h cipher.SHA256
				copy(h[:], msg)
				cs3 := map[string]string{"family": "small-result", "target": t.name, "sig": hx(s65), "msg": hx(msg), "pubkey": hx(want)}
				d3 := fmt.Sprintf("signature (r=R.x, s=r/b, z=a·r/b for R=a·G+b·T, a=%s b=%v) valid under the key T = point %s (%x)", k.Name, b, t.name, want)
				c.eval("small-result:recover")
				c.nontriv.Add("small/rec/" + cs3["sig"] + cs3["msg"])
				c.out.Add("small-result:recover")
				got = nil
				var code int
				if pn, pm := engine.Catch(func() { got, code = secpgo.RecoverPublicKey(s65[:64], msg, recid) }); pn {
					r.Failf("secp256k1go.RecoverPublicKey:panic:small-result", cs3, "%s: panics: %s", d3, pm)
				} else if code != 1 || !bytes.Equal(got, want) {
					r.Failf("secp256k1go.RecoverPublicKey:wrong-key:small-result", cs3, "%s: code=%d key=%x", d3, code, got)
				}
				got = nil
				if pn, pm := engine.Catch(func() { got = skysecp.RecoverPubkey(msg, s65) }); pn {
					r.Failf("secp256k1.RecoverPubkey:panic:small-result", cs3, "%s: panics: %s", d3, pm)
				} else if !bytes.Equal(got, want) {
					r.Failf("secp256k1.RecoverPubkey:wrong-key:small-result", cs3, "%s: key=%x", d3, got)
				}
				var rpk cipher.PubKey
				if pn, pm := engine.Catch(func() { rpk, err = cipher.PubKeyFromSig(csig, h) }); pn {
					r.Failf("cipher.PubKeyFromSig:panic-instead-of-error:small-result", cs3, "%s: panics: %s", d3, pm)
				} else if err != nil || !bytes.Equal(rpk[:], want) {
					r.Failf("cipher.PubKeyFromSig:wrong-key:small-result", cs3, "%s: err=%v key=%x", d3, err, rpk[:])
				}
				if pn, pm := engine.Catch(func() { err = cipher.VerifyPubKeySignedHash(tpk, csig, h) }); pn {
					r.Failf("cipher.VerifyPubKeySignedHash:panic-instead-of-error:small-result", cs3, "%s: panics: %s", d3, pm)
				} else if err != nil {
					r.Failf("cipher.VerifyPubKeySignedHash:rejects-valid-signature:small-result", cs3, "%s: %v", d3, err)
				}
				if pn, _ := engine.Catch(func() { err = cipher.VerifyPubKeySignedHash(npk, csig, h) }); !pn && err == nil {
					r.Failf("cipher.VerifyPubKeySignedHash:accepts-signature-for-another-key:small-result", cs3, "%s: accepted under the negated key %x", d3, neg)
				}
				if pn, pm := engine.Catch(func() { err = cipher.VerifyAddressSignedHash(cipher.AddressFromPubKey(tpk), csig, h) }); pn {
					r.Failf("cipher.VerifyAddressSignedHash:panic-instead-of-error:small-result", cs3, "%s: panics: %s", d3, pm)
				} else if err != nil {
					r.Failf("cipher.VerifyAddressSignedHash:rejects-valid-signature:small-result", cs3, "%s: %v", d3, err)
				}
				if v := skysecp.VerifySignature(msg, s65, want); v != 1 {
					r.Failf("secp256k1.VerifySignature:rejects-valid-signature:small-result", cs3, "%s: %d", d3, v)
				}
			}
		}
	})
}
