package main

import (
	"bytes"
	"crypto/sha256"
	"fmt"
	"math/big"

	"github.com/skycoin/skycoin/src/cipher"
	skysecp "github.com/skycoin/skycoin/src/cipher/secp256k1-go"
	secpgo "github.com/skycoin/skycoin/src/cipher/secp256k1-go/secp256k1-go2"

	"verif/engine"
	"verif/model/secp"
)

// ---------------------------------------------------------------- ECDH / point multiplication over S × public keys

type namedBytes struct {
	Name string
	B    []byte
}

func c14PubAlphabet(thorough bool) []namedBytes {
	n, p := secp.N, secp.P
	ds := []num{{"1", big.NewInt(1)}, {"2", big.NewInt(2)}, {"n-1", add(n, -1)}, {"lambda", glvLambda}}
	nd := 4
	if thorough {
		nd = 12
		ds = append(ds, num{"n/2", secp.HalfN}, num{"2^128", pow2(128)})
	}
	for i := 0; i < nd; i++ {
		ds = append(ds, num{fmt.Sprintf("digest%d", i), new(big.Int).Mod(digest("C14/ecdhkey", i), n)})
	}
	var out []namedBytes
	for _, d := range ds {
		out = append(out, namedBytes{"pub(" + d.Name + ")", mPub(d.V)})
	}
	var nonres *big.Int
	for i := 0; ; i++ {
		x := new(big.Int).Mod(digest("C14/x", i), p)
		if _, ok := secp.LiftX(x, false); !ok {
			nonres = x
			break
		}
	}
	inv := []namedBytes{
		{"04||Gx", append([]byte{4}, b32(secp.Gx)...)},
		{"00||Gx", append([]byte{0}, b32(secp.Gx)...)},
		{"02||p+1", append([]byte{2}, b32(add(p, 1))...)},
		{"03||2^256-1", append([]byte{3}, b32(add(pow2(256), -1))...)},
		{"02||nonresidue", append([]byte{2}, b32(nonres)...)},
		{"all-zero", make([]byte, 33)},
		{"02||0", append([]byte{2}, make([]byte, 32)...)},
	}
	return append(out, inv...)
}

func c14ECDH(c *c14ctx, S []num, alphabet map[string]interface{}) {
	r := c.r
	pubs := c14PubAlphabet(r.Thorough())
	var pn []string
	for _, p := range pubs {
		pn = append(pn, p.Name)
	}
	alphabet["ecdh_pubkeys"] = pn
	engine.ParFor(len(S), func(i int) {
		d := S[i]
		sec := b32(d.V)
		dOK := secp.ValidScalar(d.V)
		for _, pb := range pubs {
			c.eval("ecdh")
			cs := map[string]string{"family": "ecdh", "pubkey": hx(pb.B), "seckey": hx(sec)}
			c.nontriv.Add("ecdh/" + cs["pubkey"] + cs["seckey"])
			desc := fmt.Sprintf("pub=%s sec=%s", pb.Name, d.Name)
			Q, perr := secp.ParseCompressed(pb.B)
			var want []byte
			cls := "ecdh:ok"
			switch {
			case perr != nil:
				cls = "ecdh:reject:pubkey"
			case !dOK:
				cls = "ecdh:reject:seckey"
			default:
				Sp, ok := secp.ECDH(Q, d.V)
				if !ok {
					r.Broken("model ECDH failed on valid input %s", desc)
					return
				}
				want = secp.Compress(Sp)
			}
			c.out.Add(cls)
			tag := cls[len("ecdh:"):]
			if perr != nil {
				tag += ":" + parseClass(perr)[len("parse:reject:"):]
			}
			// mid
			var got []byte
			if pnc, pm := engine.Catch(func() { got = skysecp.ECDH(pb.B, sec) }); pnc {
				r.Failf("secp256k1.ECDH:panic:"+tag, cs, "%s: panics instead of returning nil: %s", desc, pm)
			} else if !bytes.Equal(got, want) {
				r.Failf("secp256k1.ECDH:wrong:"+tag, cs, "%s: got %x, model %x", desc, got, want)
			}
			// top
			var pk cipher.PubKey
			var sk cipher.SecKey
			copy(pk[:], pb.B)
			copy(sk[:], sec)
			var err error
			got = nil
			if pnc, pm := engine.Catch(func() { got, err = cipher.ECDH(pk, sk) }); pnc {
				r.Failf("cipher.ECDH:panic-instead-of-error:"+tag, cs, "%s: panics instead of returning an error: %s", desc, pm)
			} else if (err == nil) != (want != nil) {
				r.Failf("cipher.ECDH:wrong-verdict:"+tag, cs, "%s: err=%v, model ok=%v", desc, err, want != nil)
			} else if want != nil {
				h := sha256.Sum256(want)
				if !bytes.Equal(got, h[:]) {
					r.Failf("cipher.ECDH:wrong-secret", cs, "%s: got %x, model sha256(%x)", desc, got, want)
				}
			}
			// low: Multiply (any scalar, reduced mod n by the group law) and BaseMultiplyAdd
			if perr == nil {
				kmod := new(big.Int).Mod(d.V, secp.N)
				got = nil
				if pnc, pm := engine.Catch(func() { got = secpgo.Multiply(pb.B, sec) }); pnc {
					if kmod.Sign() == 0 {
						c.pan.Add("secp256k1go.Multiply:result-infinity")
					} else {
						r.Failf("secp256k1go.Multiply:panic", cs, "%s: panics: %s", desc, pm)
					}
				} else if kmod.Sign() == 0 {
					c.lax.Add("secp256k1go.Multiply:returns-for-infinity")
				} else if w := secp.Compress(secp.MulMemo(kmod, Q)); !bytes.Equal(got, w) {
					r.Failf("secp256k1go.Multiply:wrong-point", cs, "%s: got %x, model %x", desc, got, w)
				}
				sum := secp.Add(mBaseMul(kmod), Q)
				got = nil
				if pnc, pm := engine.Catch(func() { got = secpgo.BaseMultiplyAdd(pb.B, sec) }); pnc {
					if sum.Inf {
						c.pan.Add("secp256k1go.BaseMultiplyAdd:result-infinity")
					} else {
						r.Failf("secp256k1go.BaseMultiplyAdd:panic", cs, "%s: panics: %s", desc, pm)
					}
				} else if sum.Inf {
					c.lax.Add("secp256k1go.BaseMultiplyAdd:returns-for-infinity")
				} else if w := secp.Compress(sum); !bytes.Equal(got, w) {
					r.Failf("secp256k1go.BaseMultiplyAdd:wrong-point", cs, "%s: got %x, model %x", desc, got, w)
				}
			} else {
				if pnc, _ := engine.Catch(func() { got = secpgo.Multiply(pb.B, sec) }); pnc {
					c.pan.Add("secp256k1go.Multiply:invalid-pubkey")
				} else if got != nil {
					c.lax.Add("secp256k1go.Multiply:accepts-invalid-pubkey:" + parseClass(perr)[len("parse:reject:"):])
				}
			}
		}
	})
}

// ---------------------------------------------------------------- deterministic key sequences

func c14DetKeys(c *c14ctx, alphabet map[string]interface{}) {
	r := c.r
	seeds := []namedBytes{
		{"empty", []byte{}},
		{"1 byte 00", []byte{0}},
		{"'a'", []byte("a")},
		{"32×00", make([]byte, 32)},
		{"32×ff", bytes.Repeat([]byte{0xff}, 32)},
		{"mnemonic text", []byte("abandon abandon abandon abandon abandon abandon abandon abandon abandon abandon abandon about")},
		{"33 bytes", b32AndOne()},
		{"64×5a", bytes.Repeat([]byte{0x5a}, 64)},
		{"1000×07", bytes.Repeat([]byte{7}, 1000)},
	}
	if r.Thorough() {
		for i := 0; i < 16; i++ {
			seeds = append(seeds, namedBytes{fmt.Sprintf("digest%d", i), b32(digest("C14/seed", i))})
		}
	}
	depth := r.Pick(4, 8)
	var sn []string
	for _, s := range seeds {
		sn = append(sn, s.Name)
	}
	alphabet["det_seeds"] = sn
	alphabet["det_depth"] = depth
	engine.ParFor(len(seeds), func(i int) {
		sd := seeds[i]
		c.eval("detkeys")
		cs := map[string]string{"family": "detkeys", "seed": hx(sd.B)}
		c.nontriv.Add("detkeys/" + cs["seed"])
		if len(sd.B) == 0 {
			c.out.Add("detkeys:reject:empty-seed")
			var e1, e2, e3, e4 error
			if pn, pm := engine.Catch(func() {
				_, _, e1 = cipher.GenerateDeterministicKeyPair(sd.B)
				_, _, _, e2 = cipher.DeterministicKeyPairIterator(sd.B)
				_, e3 = cipher.GenerateDeterministicKeyPairs(sd.B, 2)
				_, _, e4 = cipher.GenerateDeterministicKeyPairsSeed(sd.B, 2)
			}); pn || e1 == nil || e2 == nil || e3 == nil || e4 == nil {
				r.Failf("cipher.GenerateDeterministicKeyPair:empty-seed-not-rejected", cs, "empty seed: errors %v %v %v %v panic=%q", e1, e2, e3, e4, pm)
			}
			return
		}
		c.out.Add("detkeys:ok")
		msecs, mpubs, mnext := secp.DetSequence(sd.B, depth)
		mn1, mp1, ms1 := secp.DetIterator(sd.B)
		for rep := 0; rep < 2; rep++ { // twice: reproducible
			var pk cipher.PubKey
			var sk cipher.SecKey
			var err error
			if pn, pm := engine.Catch(func() { pk, sk, err = cipher.GenerateDeterministicKeyPair(sd.B) }); pn || err != nil {
				r.Failf("cipher.GenerateDeterministicKeyPair:fails", cs, "seed %s: err=%v panic=%q", sd.Name, err, pm)
			} else if !bytes.Equal(pk[:], mp1) || !bytes.Equal(sk[:], ms1) {
				r.Failf("cipher.GenerateDeterministicKeyPair:wrong-keys", cs, "seed %s: (%x,%x), documented derivation gives (%x,%x)", sd.Name, pk[:], sk[:], mp1, ms1)
			}
			var next []byte
			if pn, pm := engine.Catch(func() { next, pk, sk, err = cipher.DeterministicKeyPairIterator(sd.B) }); pn || err != nil {
				r.Failf("cipher.DeterministicKeyPairIterator:fails", cs, "seed %s: err=%v panic=%q", sd.Name, err, pm)
			} else if !bytes.Equal(next, mn1) || !bytes.Equal(pk[:], mp1) || !bytes.Equal(sk[:], ms1) {
				r.Failf("cipher.DeterministicKeyPairIterator:wrong", cs, "seed %s: next=%x pub=%x sec=%x, documented derivation gives %x %x %x", sd.Name, next, pk[:], sk[:], mn1, mp1, ms1)
			}
			var keys []cipher.SecKey
			if pn, pm := engine.Catch(func() { next, keys, err = cipher.GenerateDeterministicKeyPairsSeed(sd.B, depth) }); pn || err != nil || len(keys) != depth {
				r.Failf("cipher.GenerateDeterministicKeyPairsSeed:fails", cs, "seed %s: err=%v n=%d panic=%q", sd.Name, err, len(keys), pm)
			} else {
				if !bytes.Equal(next, mnext) {
					r.Failf("cipher.GenerateDeterministicKeyPairsSeed:wrong-next-seed", cs, "seed %s: next seed %x, model %x", sd.Name, next, mnext)
				}
				for j, k := range keys {
					if !bytes.Equal(k[:], msecs[j]) {
						r.Failf("cipher.GenerateDeterministicKeyPairsSeed:wrong-key", cs, "seed %s: key %d = %x, model %x", sd.Name, j, k[:], msecs[j])
						continue
					}
					p, err := cipher.PubKeyFromSecKey(k)
					if err != nil || !bytes.Equal(p[:], mpubs[j]) {
						r.Failf("cipher.PubKeyFromSecKey:sequence-pair-mismatch", cs, "seed %s: key %d pubkey %x err=%v, model %x", sd.Name, j, p[:], err, mpubs[j])
					}
				}
			}
			var keys2 []cipher.SecKey
			if pn, pm := engine.Catch(func() { keys2, err = cipher.GenerateDeterministicKeyPairs(sd.B, depth) }); pn || err != nil || len(keys2) != depth {
				r.Failf("cipher.GenerateDeterministicKeyPairs:fails", cs, "seed %s: err=%v panic=%q", sd.Name, err, pm)
			} else {
				for j := range keys2 {
					if !bytes.Equal(keys2[j][:], msecs[j]) {
						r.Failf("cipher.GenerateDeterministicKeyPairs:wrong-key", cs, "seed %s: key %d = %x, model %x", sd.Name, j, keys2[j][:], msecs[j])
					}
				}
			}
			if h := skysecp.Secp256k1Hash(sd.B); !bytes.Equal(h, secp.DetHash(sd.B)) {
				r.Failf("secp256k1.Secp256k1Hash:wrong", cs, "seed %s: %x, model %x", sd.Name, h, secp.DetHash(sd.B))
			}
		}
	})
}

func b32AndOne() []byte { return append(bytes.Repeat([]byte{0x11}, 32), 0x22) }
