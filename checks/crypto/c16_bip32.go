package main

import (
	"bytes"
	"crypto/sha256"
	"encoding/binary"
	"fmt"
	"math/big"
	"strings"

	"github.com/skycoin/skycoin/src/cipher/bip32"
	"github.com/skycoin/skycoin/src/cipher/bip44"

	"verif/engine"
	mb58 "verif/model/base58"
	"verif/model/bip"
	"verif/model/secp"
)

var c16Indices = []uint32{0, 1, 1<<31 - 1, 1 << 31, 1<<31 + 1, 1<<32 - 1}

func c16Seeds(thorough bool) []namedBytes {
	tv1 := []byte{0, 1, 2, 3, 4, 5, 6, 7, 8, 9, 10, 11, 12, 13, 14, 15}
	d := func(i, n int) []byte {
		h := sha256.Sum256([]byte(fmt.Sprintf("verif/C16/seed/%d", i)))
		h2 := sha256.Sum256(h[:])
		return append(h[:], h2[:]...)[:n]
	}
	s := []namedBytes{{"BIP32 TV1 (16 bytes)", tv1}, {"16×00", make([]byte, 16)}, {"32 bytes digest", d(1, 32)}, {"64×ff", bytes.Repeat([]byte{0xff}, 64)}, {"64 bytes digest", d(2, 64)}, {"17 bytes", d(3, 17)}}
	if thorough {
		s = append(s, namedBytes{"63 bytes", d(4, 63)}, namedBytes{"33 bytes", d(5, 33)}, namedBytes{"32×00", make([]byte, 32)})
	}
	return s
}

func pathString(p []uint32) string {
	s := "m"
	for _, i := range p {
		if i >= bip.Hardened {
			s += fmt.Sprintf("/%d'", i-bip.Hardened)
		} else {
			s += fmt.Sprintf("/%d", i)
		}
	}
	return s
}

// compare one real private node with the model node
func (c *c16ctx) cmpPriv(site string, cs interface{}, where string, got *bip32.PrivateKey, want *bip.Key) bool {
	r := c.r
	ok := true
	if got.String() != want.String() {
		r.Failf(site+":wrong-xprv", cs, "%s: xprv %s, BIP32 %s", where, got.String(), want.String())
		ok = false
	}
	pub := got.PublicKey()
	if pub.String() != want.Neuter().String() {
		r.Failf(site+":wrong-xpub", cs, "%s: xpub %s, BIP32 %s", where, pub.String(), want.Neuter().String())
		ok = false
	}
	fp := want.Fingerprint()
	if !bytes.Equal(got.Fingerprint(), fp[:]) || !bytes.Equal(got.Identifier(), want.Identifier()) || !bytes.Equal(pub.Fingerprint(), fp[:]) {
		r.Failf(site+":wrong-fingerprint", cs, "%s: fingerprint %x identifier %x, BIP32 %x %x", where, got.Fingerprint(), got.Identifier(), fp, want.Identifier())
		ok = false
	}
	if got.Depth != want.Depth || got.ChildNumber() != want.Index || !bytes.Equal(got.ParentFingerprint, want.ParentFP[:]) {
		r.Failf(site+":wrong-metadata", cs, "%s: depth %d index %d parent %x, BIP32 %d %d %x", where, got.Depth, got.ChildNumber(), got.ParentFingerprint, want.Depth, want.Index, want.ParentFP)
		ok = false
	}
	return ok
}

func c16Derive(c *c16ctx, alphabet map[string]interface{}) {
	r := c.r
	seeds := c16Seeds(r.Thorough())
	var sn []string
	for _, s := range seeds {
		sn = append(sn, s.Name)
	}
	alphabet["bip32_seeds"] = sn
	alphabet["child_indices"] = c16Indices
	// invalid seed lengths
	for _, n := range []int{0, 1, 15, 65, 66, 128} {
		c.ev("bip32-master")
		c.out.Add("master:reject:seed-length")
		c.nontriv.Add(fmt.Sprintf("master/len%d", n))
		if _, err := bip.Master(make([]byte, n)); err == nil {
			r.Broken("model accepts seed length %d", n)
		}
		var err error
		if pn, pm := engine.Catch(func() { _, err = bip32.NewMasterKey(bytes.Repeat([]byte{7}, n)) }); pn || err == nil {
			r.Failf("bip32.NewMasterKey:accepts-invalid-seed-length", n, "NewMasterKey(%d bytes) err=%v panic=%q", n, err, pm)
		}
	}
	for n := 16; n <= 64; n++ { // every valid length
		c.ev("bip32-master")
		seed := bytes.Repeat([]byte{byte(n)}, n)
		want, merr := bip.Master(seed)
		got, err := bip32.NewMasterKey(seed)
		if merr != nil || err != nil {
			r.Failf("bip32.NewMasterKey:rejects-valid-seed-length", n, "NewMasterKey(%d bytes) err=%v (model %v)", n, err, merr)
			continue
		}
		c.out.Add("master:ok")
		if got.String() != want.String() {
			r.Failf("bip32.NewMasterKey:wrong-xprv", n, "NewMasterKey(%d×%02x) = %s, BIP32 %s", n, n, got.String(), want.String())
		}
	}
	maxDepth := 3
	type job struct {
		si int
		i0 uint32
	}
	var jobs []job
	for si := range seeds {
		for _, i := range c16Indices {
			jobs = append(jobs, job{si, i})
		}
	}
	engine.ParFor(len(jobs), func(j int) {
		sd := seeds[jobs[j].si]
		depthFor := maxDepth
		if r.Quick() && jobs[j].si >= 2 {
			depthFor = 2 // quick: full depth-3 product on two seeds, depth 2 on the others
		}
		if r.Thorough() && jobs[j].si == 0 {
			depthFor = 4 // thorough: all 6^4 index tuples on the BIP32 test-vector seed
		}
		mm, merr := bip.Master(sd.B)
		rm, err := bip32.NewMasterKey(sd.B)
		if merr != nil || err != nil {
			r.Failf("bip32.NewMasterKey:fails", hx(sd.B), "NewMasterKey(%s) err=%v (model %v)", sd.Name, err, merr)
			return
		}
		if jobs[j].i0 == c16Indices[0] {
			c.ev("bip32-master")
			c.out.Add("master:ok")
			c.cmpPriv("bip32.NewMasterKey", map[string]string{"seed": hx(sd.B)}, "master of "+sd.Name, rm, mm)
		}
		var walk func(rp *bip32.PrivateKey, mp *bip.Key, path []uint32, idx uint32)
		walk = func(rp *bip32.PrivateKey, mp *bip.Key, path []uint32, idx uint32) {
			path = append(append([]uint32{}, path...), idx)
			ps := pathString(path)
			cs := map[string]string{"family": "bip32-derive", "seed": hx(sd.B), "path": ps}
			c.ev("bip32-derive")
			boundary := false
			for _, i := range path {
				if i >= 1<<31-1 {
					boundary = true
				}
			}
			if boundary {
				c.nontriv.Add("derive/" + hx(sd.B) + ps)
			}
			mc, merr := mp.CKDpriv(idx)
			var rc *bip32.PrivateKey
			var err error
			if pn, pm := engine.Catch(func() { rc, err = rp.NewPrivateChildKey(idx) }); pn {
				r.Failf("bip32.NewPrivateChildKey:panic", cs, "%s: panics: %s", ps, pm)
				return
			}
			if (err == nil) != (merr == nil) {
				r.Failf("bip32.NewPrivateChildKey:wrong-verdict", cs, "%s: err=%v, BIP32 %v", ps, err, merr)
				return
			}
			if err != nil {
				return
			}
			hardened := idx >= bip.Hardened
			if hardened {
				c.out.Add("ckd:hardened")
			} else {
				c.out.Add("ckd:normal")
			}
			tag := "normal"
			if hardened {
				tag = "hardened"
			}
			if !c.cmpPriv("bip32.NewPrivateChildKey:"+tag, cs, ps, rc, mc) {
				return
			}
			// public derivation commutes with private derivation
			rpub := rp.PublicKey()
			var pc *bip32.PublicKey
			if pn, pm := engine.Catch(func() { pc, err = rpub.NewPublicChildKey(idx) }); pn {
				r.Failf("bip32.PublicKey.NewPublicChildKey:panic", cs, "%s: panics: %s", ps, pm)
			} else if hardened {
				c.out.Add("ckdpub:reject:hardened")
				if err == nil {
					r.Failf("bip32.PublicKey.NewPublicChildKey:hardened-child-from-public-key", cs, "%s: a hardened child was derived from the parent's extended PUBLIC key: %s", ps, pc.String())
				}
			} else {
				c.out.Add("ckdpub:ok")
				mpc, mperr := mp.Neuter().CKDpub(idx)
				if mperr != nil || mpc.String() != mc.Neuter().String() {
					r.Broken("model: CKDpub does not commute with CKDpriv at %s", ps)
				}
				if err != nil {
					r.Failf("bip32.PublicKey.NewPublicChildKey:fails", cs, "%s: err=%v", ps, err)
				} else if pc.String() != mc.Neuter().String() || pc.String() != rc.PublicKey().String() {
					r.Failf("bip32.PublicKey.NewPublicChildKey:differs-from-public-key-of-private-child", cs, "%s: xpub-derived %s, pub(xprv child) %s, BIP32 %s", ps, pc.String(), rc.PublicKey().String(), mc.Neuter().String())
				}
			}
			if p2, err := rp.NewPublicChildKey(idx); err != nil || p2.String() != mc.Neuter().String() {
				r.Failf("bip32.PrivateKey.NewPublicChildKey:wrong", cs, "%s: err=%v", ps, err)
			}
			// the same public derivation from a RELOADED parent: a key deserialised from bytes the caller still holds, and a
			// Clone of it (their slices have spare capacity / share storage with the input) - the results must be the same and
			// neither the parent key nor the caller's buffer may change
			if !hardened {
				engine.Catch(func() {
					ser := rpub.Serialize()
					buf := append(make([]byte, 0, len(ser)), ser...)
					dk, derr := bip32.DeserializePublicKey(buf)
					if derr != nil {
						r.Failf("bip32.DeserializePublicKey:round-trip", cs, "%s: err=%v", ps, derr)
						return
					}
					want := mc.Neuter().String()
					cl := dk.Clone()
					for _, k := range []*bip32.PublicKey{dk, &cl} {
						for _, ix := range []uint32{idx, idx ^ 1, idx} {
							got, e := k.NewPublicChildKey(ix)
							if ix == idx && (e != nil || got.String() != want) {
								r.Failf("bip32.PublicKey.NewPublicChildKey:differs-from-public-key-of-private-child:reloaded-parent", cs, "%s: child of the deserialised/cloned parent: err=%v", ps, e)
							}
						}
						if k.String() != rpub.String() {
							r.Failf("bip32.PublicKey.NewPublicChildKey:mutates-its-parent", cs, "%s: the parent key changed while deriving children: %s, was %s", ps, k.String(), rpub.String())
						}
					}
					if !bytes.Equal(buf, ser) {
						r.Failf("bip32.PublicKey.NewPublicChildKey:writes-into-the-buffer-the-key-was-deserialised-from", cs, "%s: caller's buffer %x, was %x", ps, buf, ser)
					}
					c.out.Add("ckdpub:reloaded-parent")
				})
			}
			// text round trips
			xprv, xpub := mc.String(), mc.Neuter().String()
			if pn, pm := engine.Catch(func() {
				if k, err := bip32.DeserializeEncodedPrivateKey(xprv); err != nil || k.String() != xprv {
					r.Failf("bip32.DeserializeEncodedPrivateKey:round-trip", cs, "%s: %s err=%v", ps, xprv, err)
				}
				if k, err := bip32.DeserializeEncodedPublicKey(xpub); err != nil || k.String() != xpub {
					r.Failf("bip32.DeserializeEncodedPublicKey:round-trip", cs, "%s: %s err=%v", ps, xpub, err)
				}
			}); pn {
				r.Failf("bip32.DeserializeEncodedKey:panic-on-valid-text", cs, "%s: panics: %s", ps, pm)
			}
			if pn, pm := engine.Catch(func() {
				if _, err := bip32.DeserializeEncodedPrivateKey(xpub); err == nil {
					r.Failf("bip32.DeserializeEncodedPrivateKey:accepts-xpub", cs, "%s", xpub)
				}
			}); pn {
				r.Failf("bip32.DeserializeEncodedPrivateKey:panic-instead-of-error:xpub-given", cs, "%s: panics: %s", xpub, pm)
			}
			if pn, pm := engine.Catch(func() {
				if _, err := bip32.DeserializeEncodedPublicKey(xprv); err == nil {
					r.Failf("bip32.DeserializeEncodedPublicKey:accepts-xprv", cs, "%s", xprv)
				}
			}); pn {
				r.Failf("bip32.DeserializeEncodedPublicKey:panic-instead-of-error:xprv-given", cs, "%s: panics: %s", xprv, pm)
			}
			// the same node through the path API
			if k, err := bip32.NewPrivateKeyFromPath(sd.B, ps); err != nil || k.String() != xprv {
				r.Failf("bip32.NewPrivateKeyFromPath:wrong", cs, "%s: err=%v", ps, err)
			}
			if len(path) < depthFor {
				for _, nx := range c16Indices {
					walk(rc, mc, path, nx)
				}
			}
		}
		walk(rm, mm, nil, jobs[j].i0)
	})
	// depth limit: a key at depth 255 has no children (constructed through the text form)
	mm, _ := bip.Master(seeds[0].B)
	deep := *mm
	deep.Depth = 255
	deep.ParentFP = [4]byte{1, 2, 3, 4}
	deep.Index = 7
	for _, idx := range c16Indices {
		c.ev("bip32-derive")
		c.out.Add("ckd:reject:depth")
		c.nontriv.Add(fmt.Sprintf("derive/depth255/%d", idx))
		k, err := bip32.DeserializeEncodedPrivateKey(deep.String())
		if err != nil {
			r.Failf("bip32.DeserializeEncodedPrivateKey:rejects-depth-255", deep.String(), "err=%v", err)
			break
		}
		if _, err := k.NewPrivateChildKey(idx); err == nil {
			r.Failf("bip32.NewPrivateChildKey:depth-overflow", deep.String(), "child %d of a depth-255 key derived", idx)
		}
		if idx < bip.Hardened {
			if _, err := k.PublicKey().NewPublicChildKey(idx); err == nil {
				r.Failf("bip32.PublicKey.NewPublicChildKey:depth-overflow", deep.String(), "child %d of a depth-255 public key derived", idx)
			}
		}
		deep254 := deep
		deep254.Depth = 254
		k2, err := bip32.DeserializeEncodedPrivateKey(deep254.String())
		if err != nil {
			r.Failf("bip32.DeserializeEncodedPrivateKey:rejects-depth-254", deep254.String(), "err=%v", err)
			break
		}
		mc, _ := deep254.CKDpriv(idx)
		if ch, err := k2.NewPrivateChildKey(idx); err != nil || ch.String() != mc.String() {
			r.Failf("bip32.NewPrivateChildKey:depth-254-child-wrong", deep254.String(), "child %d err=%v", idx, err)
		}
	}
}

// ---------------------------------------------------------------- path strings

func c16Paths(c *c16ctx, alphabet map[string]interface{}) {
	r := c.r
	elems := []string{"0", "1", "0'", "1'", "2147483647", "2147483647'", "2147483648", "2147483648'", "4294967295", "4294967296", "99999999999999999999", "-1", "+1", "00", "01'", "0''", "'", "", " 0", "0 ", "0x1", "1e3", "1_0", "m", "M", "０", "0h", "0H"}
	var paths []string
	for _, head := range []string{"m", "M", "", "/m", " m", "m "} {
		paths = append(paths, head)
		for _, e := range elems {
			paths = append(paths, head+"/"+e)
			if head == "m" {
				for _, e2 := range elems {
					paths = append(paths, head+"/"+e+"/"+e2)
				}
			}
		}
	}
	paths = append(paths, "m/44'/8000'/0'/0/0", "m/0/1/2/3/4/5/6/7/8/9", "m//", "//", "m/0//1", "0/1", "m/0'/1/2'/2/1000000000")
	alphabet["path_strings"] = len(paths)
	seed := c16Seeds(false)[0].B
	mm, _ := bip.Master(seed)
	engine.ParFor(len(paths), func(i int) {
		p := paths[i]
		c.ev("bip32-paths")
		c.nontriv.Add("path/" + p)
		want, merr := bip.ParsePath(p)
		var got *bip32.Path
		var err error
		if pn, pm := engine.Catch(func() { got, err = bip32.ParsePath(p) }); pn {
			r.Failf("bip32.ParsePath:panic", p, "ParsePath(%q) panics: %s", p, pm)
			return
		}
		if (err == nil) != (merr == nil) {
			sig := "bip32.ParsePath:accepts-invalid-path"
			if merr == nil {
				sig = "bip32.ParsePath:rejects-valid-path"
			}
			r.Failf(sig, p, "ParsePath(%q) err=%v; expected %v", p, err, merr)
			return
		}
		if err != nil {
			c.out.Add("path:reject")
			if _, e := bip32.NewPrivateKeyFromPath(seed, p); e == nil {
				r.Failf("bip32.NewPrivateKeyFromPath:accepts-invalid-path", p, "NewPrivateKeyFromPath(%q) succeeds", p)
			}
			return
		}
		c.out.Add("path:ok")
		okp := len(got.Elements) == len(want)+1 && got.Elements[0].Master
		for j := 0; okp && j < len(want); j++ {
			e := got.Elements[j+1]
			okp = !e.Master && e.ChildNumber == want[j] && e.Hardened() == (want[j] >= bip.Hardened)
		}
		if !okp {
			r.Failf("bip32.ParsePath:wrong-elements", p, "ParsePath(%q) = %+v, expected %v", p, got.Elements, want)
			return
		}
		mk, merr := mm.Derive(want)
		k, err := bip32.NewPrivateKeyFromPath(seed, p)
		if merr != nil || err != nil || k.String() != mk.String() {
			r.Failf("bip32.NewPrivateKeyFromPath:wrong", p, "NewPrivateKeyFromPath(%q) err=%v (model %v)", p, err, merr)
		}
	})
}

// ---------------------------------------------------------------- serialisation: corruptions of xprv / xpub strings

func parseClass16(err error) string {
	switch err {
	case nil:
		return "parse:ok"
	case bip.ErrB58:
		return "parse:reject:base58"
	case bip.ErrLen:
		return "parse:reject:length"
	case bip.ErrCheck:
		return "parse:reject:checksum"
	case bip.ErrVersion:
		return "parse:reject:version"
	case bip.ErrMasterFP:
		return "parse:reject:master-fingerprint"
	case bip.ErrMasterIdx:
		return "parse:reject:master-index"
	}
	return "parse:reject:key-data"
}

func check4x(b []byte) []byte {
	h1 := sha256.Sum256(b)
	h2 := sha256.Sum256(h1[:])
	return h2[:4]
}

func (c *c16ctx) judgeKeyText(s string, origin string) {
	r := c.r
	for _, wantPriv := range []bool{true, false} {
		c.ev("bip32-serialise")
		mk, merr := bip.Parse(s, wantPriv)
		cls := parseClass16(merr)
		c.out.Add(cls)
		c.nontriv.Add(fmt.Sprintf("keytext/%v/%s", wantPriv, s))
		tag := cls[len("parse:"):]
		var err error
		var back string
		fn := "bip32.DeserializeEncodedPublicKey"
		if wantPriv {
			fn = "bip32.DeserializeEncodedPrivateKey"
		}
		if pn, pm := engine.Catch(func() {
			if wantPriv {
				var k *bip32.PrivateKey
				k, err = bip32.DeserializeEncodedPrivateKey(s)
				if err == nil {
					back = k.String()
				}
			} else {
				var k *bip32.PublicKey
				k, err = bip32.DeserializeEncodedPublicKey(s)
				if err == nil {
					back = k.String()
				}
			}
		}); pn {
			r.Failf(fn+":panic-instead-of-error:"+tag, s, "%s(%q) [%s] panics: %s", fn, s, origin, pm)
			continue
		}
		if (err == nil) != (merr == nil) {
			sig := fn + ":accepts-invalid:" + tag
			if merr == nil {
				sig = fn + ":rejects-valid"
			}
			r.Failf(sig, s, "%s(%q) [%s] err=%v; BIP32: %v", fn, s, origin, err, merr)
			continue
		}
		if err == nil && (back != s || back != mk.String()) {
			r.Failf(fn+":round-trip", s, "%s(%q).String() = %q", fn, s, back)
		}
	}
}

func c16Serialise(c *c16ctx, alphabet map[string]interface{}) {
	r := c.r
	seed := c16Seeds(false)[0].B
	mm, _ := bip.Master(seed)
	child, _ := mm.Derive([]uint32{bip.Hardened, 1, bip.Hardened + 2})
	other, _ := bip.Master(c16Seeds(false)[2].B)
	oc, _ := other.Derive([]uint32{1<<31 - 1})
	keys := []*bip.Key{mm, mm.Neuter(), child, child.Neuter()}
	if r.Thorough() {
		keys = append(keys, oc, oc.Neuter())
	}
	alphabet["corrupted_strings"] = len(keys)
	subst := mb58.Alphabet + "0OIl "
	type job struct {
		k   *bip.Key
		pos int
	}
	var jobs []job
	for _, k := range keys {
		for pos := 0; pos <= len(k.String()); pos++ {
			jobs = append(jobs, job{k, pos})
		}
	}
	// (1) text level: every single-character substitution, insertion, deletion
	engine.ParFor(len(jobs), func(i int) {
		s := jobs[i].k.String()
		pos := jobs[i].pos
		if pos == 0 {
			c.judgeKeyText(s, "unchanged")
			c.judgeKeyText("1"+s, "leading 1")
			c.judgeKeyText(s+" ", "trailing space")
			c.judgeKeyText("", "empty")
		}
		for _, ch := range subst {
			if pos < len(s) && byte(ch) != s[pos] {
				c.judgeKeyText(s[:pos]+string(ch)+s[pos+1:], fmt.Sprintf("substitute %d", pos))
			}
			if r.Thorough() || ch == '1' || ch == 'z' || ch == '0' {
				c.judgeKeyText(s[:pos]+string(ch)+s[pos:], fmt.Sprintf("insert %d", pos))
			}
		}
		if pos < len(s) {
			c.judgeKeyText(s[:pos]+s[pos+1:], fmt.Sprintf("delete %d", pos))
		}
	})
	// (2) byte level with a recomputed checksum: every single byte of the 78-byte payload changed four ways
	var bjobs []job
	for _, k := range keys {
		for pos := 0; pos < 78; pos++ {
			bjobs = append(bjobs, job{k, pos})
		}
	}
	engine.ParFor(len(bjobs), func(i int) {
		raw := bjobs[i].k.Serialize()
		pos := bjobs[i].pos
		for _, f := range []func(byte) byte{func(b byte) byte { return b + 1 }, func(b byte) byte { return b ^ 0x80 }, func(byte) byte { return 0 }, func(byte) byte { return 0xff }} {
			b := append([]byte{}, raw...)
			b[pos] = f(b[pos])
			if bytes.Equal(b, raw) {
				continue
			}
			c.judgeKeyText(mb58.Encode(append(b, check4x(b)...)), fmt.Sprintf("byte %d changed, checksum recomputed", pos))
			c.judgeKeyText(mb58.Encode(append(b, raw[0:4]...)), fmt.Sprintf("byte %d changed, stale checksum", pos))
		}
	})
	// (3) crafted fields with a correct checksum
	put := func(k *bip.Key, mut func(b []byte)) string {
		b := k.Serialize()
		mut(b)
		return mb58.Encode(append(b, check4x(b)...))
	}
	n, p := secp.N, secp.P
	var nonres *big.Int
	for i := 0; ; i++ {
		x := new(big.Int).Mod(digest("C14/x", i), p)
		if _, ok := secp.LiftX(x, false); !ok {
			nonres = x
			break
		}
	}
	privVals := []num{{"0", big.NewInt(0)}, {"1", big.NewInt(1)}, {"n-1", add(n, -1)}, {"n", n}, {"n+1", add(n, 1)}, {"2^256-1", add(pow2(256), -1)}}
	for _, k := range []*bip.Key{mm, child} {
		for _, v := range privVals {
			v := v
			c.judgeKeyText(put(k, func(b []byte) { copy(b[46:78], b32(v.V)) }), "private key = "+v.Name)
		}
		for _, pf := range []byte{1, 2, 3, 4, 0xff} {
			pf := pf
			c.judgeKeyText(put(k, func(b []byte) { b[45] = pf }), fmt.Sprintf("private key prefix %02x", pf))
		}
	}
	pubVals := []num{{"0", big.NewInt(0)}, {"1", big.NewInt(1)}, {"Gx", secp.Gx}, {"nonresidue", nonres}, {"p-1", add(p, -1)}, {"p", p}, {"p+1", add(p, 1)}, {"2^256-1", add(pow2(256), -1)}}
	for _, k := range []*bip.Key{mm.Neuter(), child.Neuter()} {
		for _, v := range pubVals {
			for _, pf := range []byte{0, 2, 3, 4, 6, 7} {
				v, pf := v, pf
				c.judgeKeyText(put(k, func(b []byte) { b[45] = pf; copy(b[46:78], b32(v.V)) }), fmt.Sprintf("public key %02x||%s", pf, v.Name))
			}
		}
	}
	for _, k := range keys {
		for _, ver := range [][4]byte{{0x04, 0x35, 0x83, 0x94}, {0x04, 0x35, 0x87, 0xCF}, {0x04, 0x88, 0xAD, 0xE5}, {0x04, 0x88, 0xB2, 0x1F}, {0, 0, 0, 0}, bip.VersionPrv, bip.VersionPub} {
			ver := ver
			c.judgeKeyText(put(k, func(b []byte) { copy(b[0:4], ver[:]) }), fmt.Sprintf("version %x", ver))
		}
		for _, d := range []byte{0, 1, 254, 255} {
			for _, fp := range [][4]byte{{}, {0, 0, 0, 1}, {1, 0, 0, 0}} {
				for _, idx := range []uint32{0, 1, 1 << 31, 1<<32 - 1} {
					d, fp, idx := d, fp, idx
					c.judgeKeyText(put(k, func(b []byte) { b[4] = d; copy(b[5:9], fp[:]); binary.BigEndian.PutUint32(b[9:13], idx) }), fmt.Sprintf("depth %d fingerprint %x index %d", d, fp, idx))
				}
			}
		}
		// wrong payload lengths with a valid checksum
		raw := k.Serialize()
		for _, b := range [][]byte{raw[:77], append(append([]byte{}, raw...), 0), raw[1:], append([]byte{0}, raw...)} {
			c.judgeKeyText(mb58.Encode(append(append([]byte{}, b...), check4x(b)...)), fmt.Sprintf("payload length %d", len(b)))
		}
	}
	// byte-slice API
	for _, k := range keys {
		c.ev("bip32-serialise")
		raw := k.Serialize()
		full := append(append([]byte{}, raw...), check4x(raw)...)
		if k.Priv != nil {
			got, err := bip32.DeserializePrivateKey(full)
			if err != nil || !bytes.Equal(got.Serialize(), full) {
				r.Failf("bip32.DeserializePrivateKey:round-trip", hx(full), "err=%v", err)
			}
		} else {
			got, err := bip32.DeserializePublicKey(full)
			if err != nil || !bytes.Equal(got.Serialize(), full) {
				r.Failf("bip32.DeserializePublicKey:round-trip", hx(full), "err=%v", err)
			}
		}
	}
	_ = strings.Repeat
}

// ---------------------------------------------------------------- BIP44

func c16BIP44(c *c16ctx, alphabet map[string]interface{}) {
	r := c.r
	seeds := c16Seeds(false)[:r.Pick(2, 4)]
	coins := []uint32{0, 1, 8000, 1<<31 - 1, 1 << 31, 1<<31 + 1, 1<<32 - 1}
	accounts := []uint32{0, 1, 1<<31 - 1, 1 << 31, 1<<31 + 1, 1<<32 - 1}
	children := []uint32{0, 1, 1<<31 - 1}
	alphabet["bip44"] = map[string]interface{}{"coins": coins, "accounts": accounts, "chains": 2, "address_indices": children, "seeds": len(seeds)}
	type job struct {
		seed namedBytes
		coin uint32
	}
	var jobs []job
	for _, s := range seeds {
		for _, co := range coins {
			jobs = append(jobs, job{s, co})
		}
	}
	engine.ParFor(len(jobs), func(i int) {
		sd, coin := jobs[i].seed, jobs[i].coin
		mm, _ := bip.Master(sd.B)
		c.ev("bip44")
		cs := map[string]string{"family": "bip44", "seed": hx(sd.B), "coin": fmt.Sprint(coin)}
		c.nontriv.Add(fmt.Sprintf("bip44/%s/%d", hx(sd.B), coin))
		var rcoin *bip44.Coin
		var err error
		if pn, pm := engine.Catch(func() { rcoin, err = bip44.NewCoin(sd.B, bip44.CoinType(coin)) }); pn {
			r.Failf("bip44.NewCoin:panic", cs, "NewCoin(coin %d) panics: %s", coin, pm)
			return
		}
		if coin >= bip.Hardened {
			c.out.Add("bip44:reject:coin")
			if err == nil {
				r.Failf("bip44.NewCoin:accepts-coin-type>=2^31", cs, "NewCoin(coin %d) = %s", coin, rcoin.String())
			}
			return
		}
		mcoin, merr := mm.Derive([]uint32{44 + bip.Hardened, coin + bip.Hardened})
		if err != nil || merr != nil {
			r.Failf("bip44.NewCoin:fails", cs, "NewCoin(coin %d) err=%v (model %v)", coin, err, merr)
			return
		}
		if !c.cmpPriv("bip44.NewCoin", cs, fmt.Sprintf("m/44'/%d'", coin), rcoin.PrivateKey, mcoin) {
			return
		}
		for _, acc := range accounts {
			c.ev("bip44")
			acs := map[string]string{"family": "bip44", "seed": hx(sd.B), "coin": fmt.Sprint(coin), "account": fmt.Sprint(acc)}
			c.nontriv.Add(fmt.Sprintf("bip44/%s/%d/%d", hx(sd.B), coin, acc))
			var ra *bip44.Account
			if pn, pm := engine.Catch(func() { ra, err = rcoin.Account(acc) }); pn {
				r.Failf("bip44.Coin.Account:panic", acs, "Account(%d) panics: %s", acc, pm)
				continue
			}
			if acc >= bip.Hardened {
				c.out.Add("bip44:reject:account")
				if err == nil {
					r.Failf("bip44.Coin.Account:accepts-account>=2^31", acs, "Account(%d) = %s (depth %d index %d)", acc, ra.String(), ra.Depth, ra.ChildNumber())
				}
				continue
			}
			mp, _ := bip.BIP44Path(coin, acc, 0, 0)
			macc, merr := mm.Derive(mp[:3])
			if err != nil || merr != nil {
				r.Failf("bip44.Coin.Account:fails", acs, "Account(%d) err=%v (model %v)", acc, err, merr)
				continue
			}
			if !c.cmpPriv("bip44.Coin.Account", acs, pathString(mp[:3]), ra.PrivateKey, macc) {
				continue
			}
			for chain := uint32(0); chain < 2; chain++ {
				var rch *bip32.PrivateKey
				if chain == 0 {
					rch, err = ra.External()
				} else {
					rch, err = ra.Change()
				}
				mch, merr := macc.CKDpriv(chain)
				if err != nil || merr != nil {
					r.Failf("bip44.Account.chain:fails", acs, "chain %d err=%v (model %v)", chain, err, merr)
					continue
				}
				if !c.cmpPriv("bip44.Account.chain", acs, pathString(append(mp[:3:3], chain)), rch, mch) {
					continue
				}
				for _, ix := range children {
					c.ev("bip44")
					c.out.Add("bip44:ok")
					full, _ := bip.BIP44Path(coin, acc, chain, ix)
					mk, merr := mm.Derive(full)
					rk, err := rch.NewPrivateChildKey(ix)
					if err != nil || merr != nil {
						r.Failf("bip44:address-key-fails", acs, "%s err=%v (model %v)", pathString(full), err, merr)
						continue
					}
					c.cmpPriv("bip44:address-key", acs, pathString(full), rk, mk)
					// and the watch-only route: xpub of the chain node derives the same address public key
					pk, err := rch.PublicKey().NewPublicChildKey(ix)
					if err != nil || pk.String() != mk.Neuter().String() {
						r.Failf("bip44:xpub-route-differs", acs, "%s: err=%v", pathString(full), err)
					}
				}
			}
			clone := ra.Clone()
			if clone.String() != ra.String() {
				r.Failf("bip44.Account.Clone:differs", acs, "clone %s", clone.String())
			}
		}
	})
}
