package main

import (
	"bytes"
	"fmt"
	"math/big"

	"github.com/skycoin/skycoin/src/cipher"
	skysecp "github.com/skycoin/skycoin/src/cipher/secp256k1-go"
	secpgo "github.com/skycoin/skycoin/src/cipher/secp256k1-go/secp256k1-go2"

	"verif/engine"
	"verif/model/secp"
)

func c14Messages(thorough bool) []num {
	n := secp.N
	m := []num{{"0", big.NewInt(0)}, {"1", big.NewInt(1)}, {"n-1", add(n, -1)}, {"n", n}, {"n+1", add(n, 1)}, {"2^256-1", add(pow2(256), -1)}}
	nd := 4
	if thorough {
		nd = 10
		m = append(m, num{"2^255", pow2(255)}, num{"n/2", secp.HalfN}, num{"2n mod 2^256?", new(big.Int).Sub(add(pow2(256), -1), n)})
	}
	for i := 0; i < nd; i++ {
		m = append(m, num{fmt.Sprintf("digest%d", i), digest("C14/msg", i)})
	}
	return dedup(m)
}

func c14Nonces(thorough bool) []num {
	n := secp.N
	k := []num{{"1", big.NewInt(1)}, {"2", big.NewInt(2)}, {"3", big.NewInt(3)}, {"n-1", add(n, -1)}, {"n-2", add(n, -2)},
		{"n/2", secp.HalfN}, {"n/2+1", add(secp.HalfN, 1)}, {"2^128", pow2(128)}, {"lambda", glvLambda}}
	nd := 3
	if thorough {
		nd = 8
		k = append(k, num{"2^255", pow2(255)}, num{"2^64-1", add(pow2(64), -1)}, num{"n-lambda", new(big.Int).Sub(n, glvLambda)})
	}
	for i := 0; i < nd; i++ {
		k = append(k, num{fmt.Sprintf("digest%d", i), new(big.Int).Mod(digest("C14/nonce", i), n)})
	}
	return validOnly(dedup(k))
}

func setNum(v *big.Int) secpgo.Number {
	var x secpgo.Number
	x.Set(v)
	return x
}

func sig65(r, s *big.Int, recid byte) []byte {
	return append(append(b32(r), b32(s)...), recid)
}

// ---------------------------------------------------------------- signing

func c14Sign(c *c14ctx, S []num, alphabet map[string]interface{}) {
	r := c.r
	D := validOnly(S)
	M := c14Messages(r.Thorough())
	K := c14Nonces(r.Thorough())
	alphabet["messages"] = names(M)
	alphabet["nonces"] = names(K)
	alphabet["seckeys_valid"] = len(D)
	// s targets reached by solving for the message: z = s*k - r*d (mod n)
	targets := []num{{"s=0", big.NewInt(0)}, {"s=1", big.NewInt(1)}, {"s=n/2", secp.HalfN}, {"s=n/2+1", add(secp.HalfN, 1)}, {"s=n-1", add(secp.N, -1)}}
	alphabet["s_targets"] = names(targets)

	// (1) Signature.Sign with chosen nonce: full product D × (M ∪ solved messages) × K, byte-exact
	engine.ParFor(len(D), func(i int) {
		d := D[i]
		Q := mBaseMul(d.V)
		var Qxy secpgo.XY
		if err := Qxy.ParsePubkey(secp.Compress(Q)); err != nil {
			r.Broken("ParsePubkey of a model key failed: %v", err)
			return
		}
		for _, k := range K {
			R := mBaseMul(k.V)
			rr := new(big.Int).Mod(R.X, secp.N)
			zs := append([]num{}, M...)
			for _, t := range targets {
				z := new(big.Int).Mul(t.V, k.V)
				z.Sub(z, new(big.Int).Mul(rr, d.V))
				z.Mod(z, secp.N)
				zs = append(zs, num{"solve(" + t.Name + ")", z})
			}
			for _, z := range zs {
				c.eval("sign-low")
				cs := map[string]string{"family": "sign-low", "d": hx(b32(d.V)), "z": hx(b32(z.V)), "k": hx(b32(k.V))}
				key := "sign-low/" + cs["d"] + cs["z"] + cs["k"]
				// model: memoised R makes this cheap; replicate SignWithNonce's definition through the public function
				msig, mok := secp.SignWithNonce(d.V, z.V, k.V, true)
				var sg secpgo.Signature
				sk, msg, nonce := setNum(d.V), setNum(z.V), setNum(k.V)
				recid := -1
				var ret int
				if pn, pm := engine.Catch(func() { ret = sg.Sign(&sk, &msg, &nonce, &recid) }); pn {
					r.Failf("secp256k1go.Signature.Sign:panic", cs, "Sign(d=%s,z=%s,k=%s) panics: %s", d.Name, z.Name, k.Name, pm)
					continue
				}
				if (ret == 1) != mok {
					r.Failf("secp256k1go.Signature.Sign:wrong-verdict", cs, "Sign(d=%s,z=%s,k=%s) ret=%d, model ok=%v", d.Name, z.Name, k.Name, ret, mok)
					continue
				}
				if !mok {
					c.out.Add("sign:low:s==0")
					c.nontriv.Add(key)
					continue
				}
				if (msig.RecID&1 == 1) != (R.Y.Bit(0) == 1) { // low-s flip happened
					c.out.Add("sign:low:s-flipped")
				} else {
					c.out.Add("sign:low:ok")
				}
				c.nontriv.Add(key)
				if sg.R.Cmp(msig.R) != 0 || sg.S.Cmp(msig.S) != 0 || recid != msig.RecID {
					sigc := "secp256k1go.Signature.Sign:wrong-signature"
					if sg.R.Cmp(msig.R) == 0 && new(big.Int).Add(&sg.S.Int, msig.S).Cmp(secp.N) == 0 {
						sigc = "secp256k1go.Signature.Sign:s-not-normalised-like-model"
					}
					r.Failf(sigc, cs, "Sign(d=%s,z=%s,k=%s) = (r=%x,s=%x,recid=%d), model (r=%x,s=%x,recid=%d)", d.Name, z.Name, k.Name, &sg.R.Int, &sg.S.Int, recid, msig.R, msig.S, msig.RecID)
					continue
				}
				// the produced signature verifies and recovers in the implementation (model side of this is the model's own definition)
				var vok, rok bool
				var rec secpgo.XY
				if pn, pm := engine.Catch(func() {
					vok = sg.Verify(&Qxy, &msg)
					rok = sg.Recover(&rec, &msg, recid)
				}); pn {
					r.Failf("secp256k1go.Signature.Verify/Recover:panic", cs, "verify/recover of own signature panics: %s", pm)
				} else {
					if !vok {
						r.Failf("secp256k1go.Signature.Verify:rejects-valid", cs, "Verify rejects the signature of (d=%s,z=%s,k=%s)", d.Name, z.Name, k.Name)
					}
					if !rok || !bytes.Equal(rec.Bytes(), secp.Compress(Q)) {
						r.Failf("secp256k1go.Signature.Recover:wrong-key", cs, "Recover of the signature of (d=%s,z=%s,k=%s) ok=%v", d.Name, z.Name, k.Name, rok)
					}
				}
			}
		}
	})

	// (2) public API: cipher.SignHash / secp256k1.Sign over S × M (random nonce inside: relations only)
	engine.ParFor(len(S), func(i int) {
		d := S[i]
		valid := secp.ValidScalar(d.V)
		var sec cipher.SecKey
		copy(sec[:], b32(d.V))
		for _, z := range M {
			c.eval("sign-api")
			var h cipher.SHA256
			copy(h[:], b32(z.V))
			cs := map[string]string{"family": "sign-api", "seckey": hx(sec[:]), "hash": hx(h[:])}
			c.nontriv.Add("sign-api/" + cs["seckey"] + cs["hash"])
			var sig cipher.Sig
			var err error
			if pn, pm := engine.Catch(func() { sig, err = cipher.SignHash(h, sec) }); pn {
				r.Failf("cipher.SignHash:panic-instead-of-error", cs, "SignHash(hash=%s, sec=%s) panics: %s", z.Name, d.Name, pm)
				continue
			}
			wantOK := valid && z.V.Sign() != 0
			if (err == nil) != wantOK {
				r.Failf("cipher.SignHash:wrong-verdict", cs, "SignHash(hash=%s, sec=%s) err=%v, want ok=%v", z.Name, d.Name, err, wantOK)
				continue
			}
			if !valid {
				c.out.Add("sign:api:reject:seckey")
				continue
			}
			if z.V.Sign() == 0 {
				c.out.Add("sign:api:reject:null-hash")
				continue
			}
			c.out.Add("sign:api:ok")
			c14JudgeAPISig(c, "cipher.SignHash", cs, d, z, sig[:])
			var raw []byte
			if pn, pm := engine.Catch(func() { raw = skysecp.Sign(h[:], sec[:]) }); pn || len(raw) != 65 {
				r.Failf("secp256k1.Sign:panic-or-length", cs, "Sign(hash=%s, sec=%s) len=%d panic=%q", z.Name, d.Name, len(raw), pm)
				continue
			}
			c14JudgeAPISig(c, "secp256k1.Sign", cs, d, z, raw)
		}
	})
}

// relations a signature with an unknown nonce must satisfy
func c14JudgeAPISig(c *c14ctx, site string, cs interface{}, d, z num, sig []byte) {
	r := c.r
	rr, ss := new(big.Int).SetBytes(sig[:32]), new(big.Int).SetBytes(sig[32:64])
	Q := mBaseMul(d.V)
	if !secp.Verify(Q, z.V, rr, ss) {
		r.Failf(site+":signature-does-not-verify-under-model", cs, "%s(hash=%s, sec=%s) = %x does not verify", site, z.Name, d.Name, sig)
		return
	}
	if ss.Cmp(secp.HalfN) > 0 {
		r.Failf(site+":high-s", cs, "%s(hash=%s, sec=%s): s > n/2", site, z.Name, d.Name)
	}
	if sig[64] >= 4 {
		r.Failf(site+":recid-out-of-range", cs, "%s(hash=%s, sec=%s): recid %d", site, z.Name, d.Name, sig[64])
		return
	}
	if q, ok := secp.Recover(z.V, rr, ss, int(sig[64])); !ok || !secp.Equal(q, Q) {
		r.Failf(site+":recid-does-not-recover-signer", cs, "%s(hash=%s, sec=%s): model recovery with recid %d gives another key", site, z.Name, d.Name, sig[64])
	}
}

// ---------------------------------------------------------------- recover and verify

type sigKey struct {
	name string
	d    *big.Int
	pub  []byte
	xy   secpgo.XY
	pt   secp.Point
	addr cipher.Address
}

func c14Recover(c *c14ctx, S []num, alphabet map[string]interface{}) {
	r := c.r
	n, p := secp.N, secp.P
	// keys
	kd := []num{{"1", big.NewInt(1)}, {"2", big.NewInt(2)}, {"n-1", add(n, -1)}, {"lambda", glvLambda}, {"digest0", new(big.Int).Mod(digest("C14/key", 0), n)}, {"digest1", new(big.Int).Mod(digest("C14/key", 1), n)}}
	if r.Thorough() {
		kd = append(kd, num{"n/2", secp.HalfN}, num{"2^128", pow2(128)}, num{"digest2", new(big.Int).Mod(digest("C14/key", 2), n)}, num{"digest3", new(big.Int).Mod(digest("C14/key", 3), n)})
	}
	var keys []*sigKey
	for _, k := range kd {
		sk := &sigKey{name: k.Name, d: k.V, pt: mBaseMul(k.V)}
		sk.pub = secp.Compress(sk.pt)
		if err := sk.xy.ParsePubkey(sk.pub); err != nil {
			r.Broken("ParsePubkey of model key: %v", err)
			return
		}
		var pk cipher.PubKey
		copy(pk[:], sk.pub)
		sk.addr = cipher.AddressFromPubKey(pk)
		keys = append(keys, sk)
	}
	// messages
	Mall := c14Messages(r.Thorough())
	var M []num
	for _, m := range Mall {
		M = append(M, m)
	}
	// r and s alphabets: boundaries plus the components of genuine signatures (so that the product contains accepts)
	R := []num{{"0", big.NewInt(0)}, {"1", big.NewInt(1)}, {"2", big.NewInt(2)}, {"3", big.NewInt(3)}, {"p-n-1", add(new(big.Int).Sub(p, n), -1)}, {"p-n", new(big.Int).Sub(p, n)},
		{"n-1", add(n, -1)}, {"n", n}, {"n+1", add(n, 1)}, {"2^256-1", add(pow2(256), -1)}}
	Sv := []num{{"0", big.NewInt(0)}, {"1", big.NewInt(1)}, {"n/2", secp.HalfN}, {"n/2+1", add(secp.HalfN, 1)}, {"2^255-1", add(pow2(255), -1)}, {"2^255", pow2(255)},
		{"n-1", add(n, -1)}, {"n", n}, {"n+1", add(n, 1)}, {"2^256-1", add(pow2(256), -1)}}
	// small r with r+n a valid x (recid bit 1): search upward from 1 (deterministic)
	cnt := 0
	for x := int64(4); cnt < 2; x++ {
		if _, ok := secp.LiftX(add(n, x), false); ok {
			R = append(R, num{fmt.Sprintf("small%d(r+n on curve)", x), big.NewInt(x)})
			cnt++
		}
	}
	ngen := 4
	if r.Thorough() {
		ngen = 8
	}
	for i := 0; i < ngen; i++ {
		key := keys[i%len(keys)]
		z := M[(i*3+1)%len(M)]
		k := new(big.Int).Mod(digest("C14/recnonce", i), n)
		sg, ok := secp.SignWithNonce(key.d, z.V, k, true)
		if !ok {
			continue
		}
		R = append(R, num{fmt.Sprintf("r(sig%d)", i), sg.R})
		Sv = append(Sv, num{fmt.Sprintf("s(sig%d)", i), sg.S}, num{fmt.Sprintf("n-s(sig%d)", i), new(big.Int).Sub(n, sg.S)})
	}
	R, Sv = dedup(R), dedup(Sv)
	recids := []int{0, 1, 2, 3, 4, 5, 255}
	alphabet["sig_r"] = names(R)
	alphabet["sig_s"] = names(Sv)
	alphabet["recids"] = recids
	alphabet["verify_keys"] = len(keys)
	alphabet["verify_messages"] = len(M)

	type job struct{ ri, si int }
	var jobs []job
	for ri := range R {
		for si := range Sv {
			jobs = append(jobs, job{ri, si})
		}
	}
	engine.ParFor(len(jobs), func(j int) {
		rv, sv := R[jobs[j].ri], Sv[jobs[j].si]
		rOK, sOK := secp.ValidScalar(rv.V), secp.ValidScalar(sv.V)
		highS := sv.V.Cmp(secp.HalfN) > 0 // s above n/2: whether such a signature is accepted is a policy (C10), not mathematics
		for _, z := range M {
			msg := b32(z.V)
			var h cipher.SHA256
			copy(h[:], msg)
			// model verdicts per key (independent of recid)
			mver := make([]bool, len(keys))
			for ki, k := range keys {
				mver[ki] = secp.Verify(k.pt, z.V, rv.V, sv.V)
			}
			for _, recid := range recids {
				c.eval("recover")
				cs := map[string]string{"family": "recover", "r": hx(b32(rv.V)), "s": hx(b32(sv.V)), "recid": fmt.Sprint(recid), "msg": hx(msg)}
				ckey := "recover/" + cs["r"] + cs["s"] + cs["recid"] + cs["msg"]
				desc := fmt.Sprintf("r=%s s=%s recid=%d z=%s", rv.Name, sv.Name, recid, z.Name)
				Q, mok := secp.Recover(z.V, rv.V, sv.V, recid&3)
				// classify by the textbook rule, in textbook order
				cls := "recover:ok"
				switch {
				case !rOK:
					cls = "recover:reject:r-range"
				case !sOK:
					cls = "recover:reject:s-range"
				case recid > 3:
					cls = "recover:reject:recid"
				case recid&2 != 0 && new(big.Int).Add(rv.V, n).Cmp(p) >= 0:
					cls = "recover:reject:r+n>=p"
				case !mok:
					cls = "recover:reject:no-point"
				case recid&2 != 0:
					cls = "recover:ok:recid&2"
				}
				c.out.Add(cls)
				wantOK := mok && recid <= 3
				var want []byte
				if mok {
					want = secp.Compress(Q)
				}
				c.nontriv.Add(ckey)
				sig64 := append(b32(rv.V), b32(sv.V)...)
				s65 := append(append([]byte{}, sig64...), byte(recid))
				var csig cipher.Sig
				copy(csig[:], s65)

				// low: RecoverPublicKey (recid as int; bits above 1 are out of contract)
				var got []byte
				var code int
				if pn, pm := engine.Catch(func() { got, code = secpgo.RecoverPublicKey(sig64, msg, recid) }); pn {
					if mok {
						r.Failf("secp256k1go.RecoverPublicKey:panic", cs, "%s: panics: %s", desc, pm)
					} else {
						c.pan.Add("secp256k1go.RecoverPublicKey:" + cls[len("recover:"):])
					}
				} else if recid > 3 {
					if code == 1 {
						c.lax.Add("secp256k1go.RecoverPublicKey:ignores-recid-bits-above-1")
					}
					if (code == 1) != mok || (mok && !bytes.Equal(got, want)) {
						r.Failf("secp256k1go.RecoverPublicKey:wrong:recid>3", cs, "%s: code=%d key=%x, model(recid&3) ok=%v key=%x", desc, code, got, mok, want)
					}
				} else if (code == 1) != mok {
					r.Failf("secp256k1go.RecoverPublicKey:wrong-verdict:"+cls[len("recover:"):], cs, "%s: code=%d, model ok=%v", desc, code, mok)
				} else if mok && !bytes.Equal(got, want) {
					r.Failf("secp256k1go.RecoverPublicKey:wrong-key", cs, "%s: key=%x, model %x", desc, got, want)
				}
				// mid: RecoverPubkey
				got = nil
				if pn, pm := engine.Catch(func() { got = skysecp.RecoverPubkey(msg, s65) }); pn {
					r.Failf("secp256k1.RecoverPubkey:panic:"+cls[len("recover:"):], cs, "%s: panics: %s", desc, pm)
				} else if recid > 3 {
					// the recovery byte is passed through unchecked at this level (the existing suite pins that: a signature
					// with recid 0xdd must fail in VerifySignature, not in recovery); recorded, value compared with recid&3
					if got != nil {
						c.lax.Add("secp256k1.RecoverPubkey:ignores-recid-bits-above-1")
					}
					if (got != nil) != mok || (mok && !bytes.Equal(got, want)) {
						r.Failf("secp256k1.RecoverPubkey:wrong:recid>3", cs, "%s: recovered=%x, model(recid&3) ok=%v key=%x", desc, got, mok, want)
					}
				} else if (got != nil) != wantOK {
					sg := "secp256k1.RecoverPubkey:wrong-verdict:" + cls[len("recover:"):]
					r.Failf(sg, cs, "%s: recovered=%x, model ok=%v", desc, got, wantOK)
				} else if wantOK && !bytes.Equal(got, want) {
					r.Failf("secp256k1.RecoverPubkey:wrong-key", cs, "%s: key=%x, model %x", desc, got, want)
				}
				// top: PubKeyFromSig
				var pk cipher.PubKey
				var err error
				if pn, pm := engine.Catch(func() { pk, err = cipher.PubKeyFromSig(csig, h) }); pn {
					r.Failf("cipher.PubKeyFromSig:panic-instead-of-error:"+cls[len("recover:"):], cs, "%s: panics: %s", desc, pm)
				} else if (err == nil) != wantOK {
					r.Failf("cipher.PubKeyFromSig:wrong-verdict:"+cls[len("recover:"):], cs, "%s: err=%v key=%x, model ok=%v", desc, err, pk[:], wantOK)
				} else if wantOK && !bytes.Equal(pk[:], want) {
					r.Failf("cipher.PubKeyFromSig:wrong-key", cs, "%s: key=%x, model %x", desc, pk[:], want)
				}
				// signature acceptance rule
				// mathematically valid = in-range r,s, recid 0..3, recovery succeeds. Valid with s <= n/2 must be accepted,
				// invalid must be rejected; valid with s > n/2 may go either way here (the low-s policy belongs to C10): recorded.
				wrong := func(accepted, valid bool) bool {
					if !valid {
						return accepted
					}
					if highS {
						if accepted {
							c.lax.Add("high-s-valid-signature:accepted")
						} else {
							c.lax.Add("high-s-valid-signature:rejected")
						}
						return false
					}
					return !accepted
				}
				if pn, pm := engine.Catch(func() { err = cipher.VerifySignatureRecoverPubKey(csig, h) }); pn {
					r.Failf("cipher.VerifySignatureRecoverPubKey:panic-instead-of-error", cs, "%s: panics: %s", desc, pm)
				} else if wrong(err == nil, wantOK) {
					r.Failf("cipher.VerifySignatureRecoverPubKey:wrong-verdict", cs, "%s: err=%v, mathematically valid=%v", desc, err, wantOK)
				}
				if v := skysecp.VerifySignatureValidity(s65); (recid > 3 && v == 1) || (recid <= 3 && !highS && v != 1) {
					r.Failf("secp256k1.VerifySignatureValidity:wrong-verdict", cs, "%s: %d", desc, v)
				}
				for ki, k := range keys {
					c.eval("verify")
					vcs := map[string]string{"family": "verify", "r": cs["r"], "s": cs["s"], "recid": cs["recid"], "msg": cs["msg"], "pubkey": hx(k.pub)}
					acc := wantOK && bytes.Equal(want, k.pub) // mathematically valid for this key
					vcls := "verify:reject:mismatch"
					switch {
					case acc && highS:
						vcls = "verify:valid-high-s"
					case acc:
						vcls = "verify:accept"
					case !rOK || !sOK:
						vcls = "verify:reject:range"
					case recid > 3:
						vcls = "verify:reject:recid"
					case !mok:
						vcls = "verify:reject:no-recovery"
					}
					c.out.Add(vcls)
					if vcls != "verify:reject:mismatch" {
						c.nontriv.Add("verify/" + ckey + hx(k.pub))
					}
					if acc && !mver[ki] {
						r.Broken("model inconsistency: recovery gives key %s but Verify rejects (%s)", k.name, desc)
					}
					// low: Signature.Verify (no recid; in-contract only when r,s in range)
					if recid == 0 {
						var sg secpgo.Signature
						sg.R.Set(rv.V)
						sg.S.Set(sv.V)
						m := setNum(z.V)
						var lv bool
						if pn, pm := engine.Catch(func() { lv = sg.Verify(&k.xy, &m) }); pn {
							if rOK && sOK {
								r.Failf("secp256k1go.Signature.Verify:panic", vcs, "%s key=%s: panics: %s", desc, k.name, pm)
							} else {
								c.pan.Add("secp256k1go.Signature.Verify:scalar-out-of-range")
							}
						} else if rOK && sOK {
							if lv != mver[ki] {
								r.Failf("secp256k1go.Signature.Verify:wrong-verdict", vcs, "%s key=%s: Verify=%v, model %v", desc, k.name, lv, mver[ki])
							}
						} else if lv {
							c.lax.Add("secp256k1go.Signature.Verify:accepts-out-of-range-scalar")
						}
					}
					// mid: VerifySignature
					var v int
					if pn, pm := engine.Catch(func() { v = skysecp.VerifySignature(msg, s65, k.pub) }); pn {
						r.Failf("secp256k1.VerifySignature:panic", vcs, "%s key=%s: panics: %s", desc, k.name, pm)
					} else if wrong(v == 1, acc) {
						r.Failf("secp256k1.VerifySignature:wrong-verdict:"+vcls[len("verify:"):], vcs, "%s key=%s: VerifySignature=%d, mathematically valid=%v", desc, k.name, v, acc)
					}
					// top
					var kp cipher.PubKey
					copy(kp[:], k.pub)
					if pn, pm := engine.Catch(func() { err = cipher.VerifyPubKeySignedHash(kp, csig, h) }); pn {
						r.Failf("cipher.VerifyPubKeySignedHash:panic-instead-of-error", vcs, "%s key=%s: panics: %s", desc, k.name, pm)
					} else if wrong(err == nil, acc) {
						r.Failf("cipher.VerifyPubKeySignedHash:wrong-verdict:"+vcls[len("verify:"):], vcs, "%s key=%s: err=%v, mathematically valid=%v", desc, k.name, err, acc)
					}
					if pn, pm := engine.Catch(func() { err = cipher.VerifyAddressSignedHash(k.addr, csig, h) }); pn {
						r.Failf("cipher.VerifyAddressSignedHash:panic-instead-of-error", vcs, "%s key=%s: panics: %s", desc, k.name, pm)
					} else if wrong(err == nil, acc) {
						r.Failf("cipher.VerifyAddressSignedHash:wrong-verdict:"+vcls[len("verify:"):], vcs, "%s key=%s: err=%v, mathematically valid=%v", desc, k.name, err, acc)
					}
				}
			}
		}
	})
}
