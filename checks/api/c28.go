package main

import (
	"bufio"
	"bytes"
	"encoding/json"
	"fmt"
	"hash/fnv"
	"io"
	"net/http"
	"net/http/httptest"
	"net/url"
	"os"
	"path/filepath"
	"runtime"
	"runtime/debug"
	"sort"
	"strings"
	"sync"
	"syscall"
	"time"
	"verif/shim/vlock"

	"verif/engine"
	apimodel "verif/model/api"
	"verif/shim/vtime"
)

// C28 — no API request can crash the node or the request handler.
//
// A REAL node (fixture.go) in two states is driven through the real mux with every request of the product
// (c28_alphabet.go).  All requests run in worker subprocesses that stream "started"/"result" lines, so a panic is
// an observation with its stack, and a worker death or a missed deadline is attributed to the request that was
// running.  Requests that succeed in changing the node's state are followed by a fresh copy of the fixture (depth 1);
// in the thorough tier each such state change is then performed again on a fresh copy and EVERY read request of the
// product is repeated on the changed node (depth 2; only abnormal answers are reported in full, the rest is counted).
func init() {
	register("C28", "exploration", c28)
	workers["c28"] = c28Worker
}

// c28Obs is what a worker reports for one executed request.
type c28Obs struct {
	ID          int    `json:"id"`
	After       int    `json:"after,omitempty"` // depth 2: id of the state-changing request this read followed (0 = depth 1)
	Status      int    `json:"status"`
	Panic       string `json:"panic,omitempty"`
	Site        string `json:"site,omitempty"`
	Stack       string `json:"stack,omitempty"`
	BodyOK      bool   `json:"body_ok"`
	Body        string `json:"body,omitempty"` // first bytes, only when the body is not acceptable
	Reset       bool   `json:"reset,omitempty"`
	Micros      int64  `json:"us,omitempty"` // informational only (never judged)
	ResetMicros int64  `json:"reset_us,omitempty"`
}

type c28Job struct {
	State    string   `json:"state"`
	Pristine string   `json:"pristine"`
	Work     string   `json:"work"`
	IDs      []int    `json:"ids"`
	Reqs     []c28Req `json:"reqs"`  // the concrete requests of IDs (enumerated once, by the main process)
	Reads    []c28Req `json:"reads"` // depth 2: the single-parameter read requests repeated after a successful state change
	Depth2   bool     `json:"depth2"`
	CPUSecs  uint64   `json:"cpu_secs"` // CPU-time budget of the worker (RLIMIT_CPU), 0 = none
}

// panicSite extracts the innermost skycoin function from a panic stack.
func panicSite(stack string) string {
	lines := strings.Split(stack, "\n")
	seenPanic := false
	for _, l := range lines {
		if strings.HasPrefix(l, "panic(") {
			seenPanic = true
			continue
		}
		if !seenPanic || strings.HasPrefix(l, "\t") {
			continue
		}
		if i := strings.Index(l, "github.com/skycoin/skycoin/src/"); i >= 0 {
			f := l[i+len("github.com/skycoin/skycoin/src/"):]
			if j := strings.LastIndex(f, "("); j > 0 {
				f = f[:j]
			}
			return f
		}
	}
	return "unknown"
}

func c28Exec(n *node, rt *apimodel.Route, q *c28Req) (o c28Obs) {
	o.ID = q.ID
	u := &url.URL{Path: q.Path, RawQuery: q.Query}
	h := make(http.Header, 2)
	req := &http.Request{Method: q.Method, URL: u, Proto: "HTTP/1.1", ProtoMajor: 1, ProtoMinor: 1, Header: h,
		Host: c27Host, RemoteAddr: "192.0.2.7:40000", RequestURI: u.RequestURI()}
	if q.Body != "" {
		req.Body = io.NopCloser(strings.NewReader(q.Body))
		req.ContentLength = int64(len(q.Body))
	} else {
		req.Body = http.NoBody
	}
	if q.CType != "" {
		h["Content-Type"] = []string{q.CType}
	}
	for k, v := range q.Headers {
		h[k] = []string{v}
	}
	if rt == nil {
		rt = &apimodel.Route{Path: "/", Resp: "any"} // static files: no golden route, any well-formed response
	}
	rec := httptest.NewRecorder()
	func() {
		defer func() {
			if e := recover(); e != nil {
				o.Panic = fmt.Sprint(e)
				if len(o.Panic) > 300 {
					o.Panic = o.Panic[:300]
				}
				st := string(debug.Stack())
				o.Site = panicSite(st)
				if len(st) > 3000 {
					st = st[:3000]
				}
				o.Stack = st
			}
		}()
		n.mux.ServeHTTP(rec, req)
	}()
	// lock-order seam (shim/vlock): a recursive read lock taken while serving the request hangs the handler as soon as a
	// writer arrives between the two acquisitions (one scheduling deviation) — reported like a crash of the handler
	if evs := vlock.Drain(); len(evs) > 0 && o.Panic == "" {
		o.Panic = "handler can hang: " + evs[0].Kind + " (first acquired in " + evs[0].Outer + ")"
		o.Site = "can-hang:" + evs[0].Kind + ":" + evs[0].Site
		o.Stack = evs[0].Stack
	}
	o.Status = rec.Code
	body := rec.Body.Bytes()
	o.BodyOK = true
	if o.Panic == "" {
		switch {
		case http.StatusText(o.Status) == "":
			o.BodyOK = false
		case o.Status == 200 && rt.Resp == "json":
			o.BodyOK = len(bytes.TrimSpace(body)) > 0 && json.Valid(body)
		}
		if !o.BodyOK {
			if len(body) > 200 {
				body = body[:200]
			}
			o.Body = string(body)
		}
	}
	return o
}

func c28Worker(args []string) {
	quiet()
	debug.SetGCPercent(200)
	in, _ := io.ReadAll(os.Stdin)
	var job c28Job
	w := bufio.NewWriter(os.Stdout)
	defer w.Flush()
	if err := json.Unmarshal(in, &job); err != nil {
		fmt.Fprintf(w, "B bad job: %v\n", err)
		return
	}
	g, err := apimodel.Load(filepath.Join(engine.Root, goldenTable))
	if err != nil {
		fmt.Fprintf(w, "B %v\n", err)
		return
	}
	info, err := loadFxInfo(job.Pristine)
	if err != nil {
		fmt.Fprintf(w, "B %v\n", err)
		return
	}
	vtime.SetUnix(info.ClockUnix)
	if job.CPUSecs > 0 {
		// load-independent deadline: the kernel kills the worker when it has burnt this much CPU time
		syscall.Setrlimit(syscall.RLIMIT_CPU, &syscall.Rlimit{Cur: job.CPUSecs, Max: job.CPUSecs}) //nolint:errcheck
	}
	byID := map[int]*c28Req{}
	for i := range job.Reqs {
		byID[job.Reqs[i].ID] = &job.Reqs[i]
	}
	var readSingles []*c28Req
	for i := range job.Reads {
		readSingles = append(readSingles, &job.Reads[i])
	}
	var n *node
	reset := func() error {
		n.close()
		n = nil
		os.RemoveAll(job.Work) //nolint:errcheck
		if err := copyTree(job.Pristine, job.Work); err != nil {
			return err
		}
		var err error
		n, err = openNode(job.Work)
		return err
	}
	if err := reset(); err != nil {
		fmt.Fprintf(w, "B open fixture: %v\n", err)
		return
	}
	defer func() { n.close(); os.RemoveAll(job.Work) }()
	emit := func(o c28Obs) {
		b, _ := json.Marshal(o)
		w.WriteString("R ")
		w.Write(b)
		w.WriteString("\n")
	}
	if job.Depth2 {
		c28Depth2(w, g, job, byID, readSingles, &n, reset, emit)
		fmt.Fprintf(w, "E\n")
		return
	}
	for _, id := range job.IDs {
		q := byID[id]
		if q == nil {
			fmt.Fprintf(w, "B unknown request id %d\n", id)
			return
		}
		fmt.Fprintf(w, "S %d\n", id)
		w.Flush()
		rt := g.Route(q.Path)
		t0 := time.Now()
		o := c28Exec(n, rt, q)
		o.Micros = time.Since(t0).Microseconds()
		changed := o.Panic != "" || (q.Mut && o.Status >= 200 && o.Status < 300)
		o.Reset = changed
		if changed {
			t1 := time.Now()
			if err := reset(); err != nil {
				fmt.Fprintf(w, "B reopen fixture: %v\n", err)
				return
			}
			o.ResetMicros = time.Since(t1).Microseconds()
			emit(o)
			continue
		}
		emit(o)
	}
	fmt.Fprintf(w, "E\n")
}

// c28Agg summarises the well-formed answers of the reads repeated after one state-changing request (depth 2).
type c28Agg struct {
	After  int            `json:"after"`
	N      int            `json:"n"`
	Status map[string]int `json:"status"`
	Redone bool           `json:"redone"` // the state-changing request succeeded again on the fresh copy
}

// c28Depth2: for every id (a state-changing request that succeeded at depth 1): fresh fixture, perform it again, then
// repeat every read request on the changed node.  Only abnormal observations are reported in full.
func c28Depth2(w *bufio.Writer, g *apimodel.Golden, job c28Job, byID map[int]*c28Req, reads []*c28Req, n **node, reset func() error, emit func(c28Obs)) {
	for _, id := range job.IDs {
		q := byID[id]
		if q == nil {
			fmt.Fprintf(w, "B unknown request id %d\n", id)
			return
		}
		redo := func() (bool, error) {
			if err := reset(); err != nil {
				return false, err
			}
			o := c28Exec(*n, g.Route(q.Path), q)
			return o.Panic == "" && o.Status >= 200 && o.Status < 300, nil
		}
		fmt.Fprintf(w, "S %d %d\n", id, id)
		w.Flush()
		ok, err := redo()
		if err != nil {
			fmt.Fprintf(w, "B reopen fixture: %v\n", err)
			return
		}
		agg := c28Agg{After: id, Status: map[string]int{}, Redone: ok}
		if ok {
			for _, rq := range reads {
				fmt.Fprintf(w, "S %d %d\n", rq.ID, id)
				w.Flush()
				o2 := c28Exec(*n, g.Route(rq.Path), rq)
				o2.After = id
				if o2.Panic != "" || !o2.BodyOK {
					emit(o2)
					if o2.Panic != "" {
						// the node may hold locks now: fresh copy, same state change, go on with the next read
						if ok2, err := redo(); err != nil || !ok2 {
							break
						}
					}
					continue
				}
				agg.N++
				agg.Status[fmt.Sprint(o2.Status)]++
			}
		}
		b, _ := json.Marshal(agg)
		w.WriteString("D ")
		w.Write(b)
		w.WriteString("\n")
	}
}

func c28FirstID(state string) int {
	if state == "chain" {
		return 1
	}
	return 1000001
}

// c28RunShard runs the ids in worker subprocesses until all are done; a death or timeout is attributed to the request
// that had been started last, recorded, and the rest continues in a new worker.
func c28RunShard(job c28Job, byID map[int]*c28Req, deadline time.Duration, vmemKiB int, onObs func(c28Obs), onAgg func(c28Agg), onDeath func(id, after int, kind, detail string), onBroken func(string)) {
	ids := job.IDs
	for len(ids) > 0 {
		job.IDs = ids
		job.Reqs = job.Reqs[:0]
		for _, id := range ids {
			job.Reqs = append(job.Reqs, *byID[id])
		}
		jb, _ := json.Marshal(job)
		wr := engine.RunWorker(jb, vmemKiB, deadline, "c28")
		done := map[int]bool{}
		lastS, lastAfter, finished := 0, 0, false
		pending := false
		sc := bufio.NewScanner(bytes.NewReader(wr.Stdout))
		sc.Buffer(make([]byte, 1<<20), 1<<26)
		for sc.Scan() {
			l := sc.Text()
			switch {
			case strings.HasPrefix(l, "S "):
				lastAfter = 0
				fmt.Sscanf(l[2:], "%d %d", &lastS, &lastAfter)
				pending = true
			case strings.HasPrefix(l, "R "):
				var o c28Obs
				if err := json.Unmarshal([]byte(l[2:]), &o); err != nil {
					onBroken("worker result line: " + err.Error())
					return
				}
				pending = false
				if o.After == 0 {
					done[o.ID] = true
				}
				onObs(o)
			case strings.HasPrefix(l, "D "):
				var a c28Agg
				if err := json.Unmarshal([]byte(l[2:]), &a); err != nil {
					onBroken("worker summary line: " + err.Error())
					return
				}
				pending = false
				done[a.After] = true
				onAgg(a)
			case strings.HasPrefix(l, "B "):
				onBroken("worker: " + l[2:])
				return
			case l == "E":
				finished = true
			}
		}
		if finished && !wr.TimedOut && !wr.Died {
			return
		}
		if !pending {
			onBroken(fmt.Sprintf("worker ended without finishing and without a request in flight (timeout=%v died=%v exit=%d): %s", wr.TimedOut, wr.Died, wr.ExitCode, tail(string(wr.Stderr), 300)))
			return
		}
		kind := "worker-killed-by-cpu-or-memory-limit"
		if wr.TimedOut {
			kind = "no-return-within-deadline"
		} else if bytes.Contains(wr.Stderr, []byte("goroutine ")) || bytes.Contains(wr.Stderr, []byte("fatal error")) {
			kind = "worker-crash"
		}
		onDeath(lastS, lastAfter, kind, tail(string(wr.Stderr), 600))
		// continue after the culprit (a depth-2 culprit belongs to the state-changing request lastAfter, which is done)
		skip := lastS
		if lastAfter != 0 {
			skip = lastAfter
		}
		var rest []int
		after := false
		for _, id := range ids {
			if after && !done[id] {
				rest = append(rest, id)
			}
			if id == skip {
				after = true
			}
		}
		ids = rest
	}
}

func c28(r *engine.Run) {
	quiet()
	if old, _ := filepath.Glob(filepath.Join(engine.Root, "replays", "C28-*.json")); len(old) > 0 {
		for _, f := range old {
			os.Remove(f)
		}
	}
	g, err := apimodel.Load(filepath.Join(engine.Root, goldenTable))
	if err != nil {
		r.Broken("golden table: %v", err)
		r.Finish(nil)
	}
	scratch := engine.Scratch()
	states := []string{"chain", "genesis-only"}
	infos := map[string]*fxInfo{}
	reqs := map[string][]c28Req{}
	byID := map[int]*c28Req{}
	for _, st := range states {
		info, err := buildFixture(filepath.Join(scratch, "fx-"+st), st)
		if err != nil {
			r.Broken("building fixture %s: %v", st, err)
			r.Finish(nil)
		}
		infos[st] = info
		reqs[st] = c28Requests(g, info, c28FirstID(st))
		if st == "chain" {
			reqs[st] = append(reqs[st], c28StaticRequests(info, c28FirstID(st)+len(reqs[st])+1000)...)
		}
		if only := os.Getenv("VERIF_C28_ONLY"); only != "" {
			// debugging aid: restrict to endpoints containing the string; the run is then reported CHECK-BROKEN, never as a verdict
			var keep []c28Req
			for _, q := range reqs[st] {
				if strings.Contains(q.Method+" "+q.Path, only) {
					keep = append(keep, q)
				}
			}
			reqs[st] = keep
			r.Broken("debug filter VERIF_C28_ONLY=%q active", only)
		}
		for i := range reqs[st] {
			byID[reqs[st][i].ID] = &reqs[st][i]
		}
	}
	dbg := func(what string) {
		if os.Getenv("VERIF_C28_DEBUG") != "" {
			fmt.Fprintf(os.Stderr, "c28 %6.1fs %s\n", r.Elapsed().Seconds(), what)
		}
	}
	dbg("fixtures built, requests enumerated")
	// shards
	nw := runtime.NumCPU()
	if nw > 16 {
		nw = 16
	}
	type shard struct {
		job      c28Job
		deadline time.Duration
		danger   bool
	}
	var shards []shard
	per := nw / len(states)
	if per < 1 {
		per = 1
	}
	wi := 0
	for _, st := range states {
		bins := make([][]int, per)
		k := 0
		for i := range reqs[st] {
			q := &reqs[st][i]
			if q.Danger {
				wi++
				shards = append(shards, shard{job: c28Job{State: st, Pristine: filepath.Join(scratch, "fx-"+st), Work: filepath.Join(scratch, fmt.Sprintf("w%d", wi)), IDs: []int{q.ID}, CPUSecs: uint64(r.Pick(60, 300))},
					deadline: time.Duration(r.Pick(900, 3600)) * time.Second, danger: true})
				continue
			}
			bins[k%per] = append(bins[k%per], q.ID)
			k++
		}
		for _, b := range bins {
			if len(b) == 0 {
				continue
			}
			wi++
			shards = append(shards, shard{job: c28Job{State: st, Pristine: filepath.Join(scratch, "fx-"+st), Work: filepath.Join(scratch, fmt.Sprintf("w%d", wi)), IDs: b, CPUSecs: uint64(r.Pick(300, 3000))},
				deadline: time.Duration(r.Pick(900, 3600)) * time.Second})
		}
	}
	// dangerous single requests first (they take the longest), then the shards
	sort.SliceStable(shards, func(i, j int) bool { return shards[i].danger && !shards[j].danger })

	var mu sync.Mutex
	evals, evals2 := 0, 0
	status := map[string]int{}
	perEndpoint := map[string]int{}
	okEndpoint := map[string]bool{}
	statusClasses := map[string]map[string]bool{}
	distinct := engine.NewSet()
	resets := 0
	type viol struct {
		sigBase string // endpoint + symptom + site
		state   string
		classes map[string]string
		detail  string
		c       interface{}
	}
	var viols []viol
	fiveXX := map[string]int{}
	abnormal := map[int]bool{}  // requests that panicked / answered badly / killed a worker at depth 1
	changedOK := map[int]bool{} // state-changing requests that succeeded at depth 1
	timeEP := map[string]int64{}
	var timeReset int64
	executed := map[int]bool{}
	onObs := func(o c28Obs) {
		mu.Lock()
		defer mu.Unlock()
		q := byID[o.ID]
		ep := q.Method + " " + q.Path
		if o.After == 0 {
			evals++
			executed[o.ID] = true
			if len(q.Classes) > 0 {
				distinct.Add(q.State + "|" + ep + "|" + q.classKey())
			}
		} else {
			evals2++
		}
		if o.Reset {
			resets++
		}
		if o.After == 0 {
			if o.Panic != "" || !o.BodyOK {
				abnormal[o.ID] = true
			} else if o.Reset && q.Mut {
				changedOK[o.ID] = true
			}
		}
		perEndpoint[ep]++
		timeEP[ep] += o.Micros
		timeReset += o.ResetMicros
		sk := fmt.Sprint(o.Status)
		if o.Panic != "" {
			sk = "panic"
		}
		status[sk]++
		if statusClasses[ep] == nil {
			statusClasses[ep] = map[string]bool{}
		}
		statusClasses[ep][sk] = true
		if o.Panic == "" && o.Status >= 200 && o.Status < 300 {
			okEndpoint[ep] = true
		}
		if o.Status >= 500 && o.Panic == "" {
			fiveXX[fmt.Sprintf("%s %d", ep, o.Status)]++
		}
		ctx := ""
		if o.After != 0 {
			a := byID[o.After]
			ctx = fmt.Sprintf(" after the successful state-changing request %s %s {%s}", a.Method, a.Path, a.classKey())
		}
		switch {
		case o.Panic != "":
			viols = append(viols, viol{sigBase: ep + ":panic:" + o.Site, state: q.State, classes: q.Classes,
				detail: fmt.Sprintf("[%s] %s %s?%s body=%s%s: panic %q at %s", q.State, q.Method, q.Path, clip(q.Query, 200), clip(q.Body, 300), ctx, o.Panic, o.Site),
				c:      map[string]interface{}{"request": q, "after": o.After, "panic": o.Panic, "site": o.Site, "stack": o.Stack}})
		case !o.BodyOK:
			sym := "body-not-json"
			if http.StatusText(o.Status) == "" {
				sym = fmt.Sprintf("unregistered-status-%d", o.Status)
			}
			viols = append(viols, viol{sigBase: ep + ":" + sym, state: q.State, classes: q.Classes,
				detail: fmt.Sprintf("[%s] %s %s?%s body=%s%s: status %d, response body %q", q.State, q.Method, q.Path, clip(q.Query, 200), clip(q.Body, 300), ctx, o.Status, o.Body),
				c:      map[string]interface{}{"request": q, "after": o.After, "status": o.Status, "response_body": o.Body}})
		}
	}
	onDeath := func(id, after int, kind, detail string) {
		mu.Lock()
		defer mu.Unlock()
		d := struct {
			id, after    int
			kind, detail string
		}{id, after, kind, detail}
		q := byID[d.id]
		ep := q.Method + " " + q.Path
		status[d.kind]++
		executed[d.id] = true
		abnormal[d.id] = true
		evals++
		if len(q.Classes) > 0 {
			distinct.Add(q.State + "|" + ep + "|" + q.classKey())
		}
		viols = append(viols, viol{sigBase: ep + ":" + d.kind, state: q.State, classes: q.Classes,
			detail: fmt.Sprintf("[%s] %s %s?%s body=%s: %s (worker stderr: %s)", q.State, q.Method, q.Path, clip(q.Query, 200), clip(q.Body, 300), d.kind, clip(d.detail, 300)),
			c:      map[string]interface{}{"request": q, "after": d.after, "symptom": d.kind, "stderr": d.detail}})
	}
	onBroken := func(b string) {
		mu.Lock()
		defer mu.Unlock()
		r.Broken("%s", b)
	}
	redone, notRedone := 0, 0
	onAgg := func(a c28Agg) {
		mu.Lock()
		defer mu.Unlock()
		if a.Redone {
			redone++
		} else {
			notRedone++
		}
		evals2 += a.N
		for k, v := range a.Status {
			status[k] += v
		}
	}
	engine.ParForN(nw, len(shards), func(i int) {
		s := shards[i]
		c28RunShard(s.job, byID, s.deadline, 4<<20, onObs, onAgg, onDeath, onBroken)
		dbg(fmt.Sprintf("shard %d done (%d ids, danger=%v)", i, len(s.job.IDs), s.danger))
	})

	dbg("depth 1 done")
	// depth 2 (thorough): every read request is repeated after each state-changing request that succeeded at depth 1
	reads2 := 0
	if r.Thorough() {
		var shards2 []shard
		for _, st := range states {
			var reads []c28Req
			var muts []int
			for i := range reqs[st] {
				q := &reqs[st][i]
				switch {
				case q.Danger || abnormal[q.ID]:
				case q.Mut:
					if changedOK[q.ID] {
						muts = append(muts, q.ID)
					}
				default:
					reads = append(reads, *q)
				}
			}
			reads2 += len(reads) * len(muts)
			bins := make([][]int, per)
			for i, id := range muts {
				bins[i%per] = append(bins[i%per], id)
			}
			for _, b := range bins {
				if len(b) == 0 {
					continue
				}
				wi++
				shards2 = append(shards2, shard{job: c28Job{State: st, Pristine: filepath.Join(scratch, "fx-"+st), Work: filepath.Join(scratch, fmt.Sprintf("w%d", wi)), IDs: b, Depth2: true, Reads: reads, CPUSecs: 6000},
					deadline: 3600 * time.Second})
			}
		}
		engine.ParForN(nw, len(shards2), func(i int) {
			s := shards2[i]
			c28RunShard(s.job, byID, s.deadline, 4<<20, onObs, onAgg, onDeath, onBroken)
			dbg(fmt.Sprintf("depth-2 shard %d done (%d state changes)", i, len(s.job.IDs)))
		})
		if notRedone > 0 {
			r.Broken("nondeterminism: %d state-changing requests that succeeded at depth 1 did not succeed again on a fresh copy", notRedone)
		}
	}

	// signatures: per (endpoint, symptom, site, state) the minimal sets of off-base parameter classes that trigger it
	groups := map[string][]viol{}
	for _, v := range viols {
		k := v.sigBase + ":state=" + v.state
		groups[k] = append(groups[k], v)
	}
	gk := []string{}
	for k := range groups {
		gk = append(gk, k)
	}
	sort.Strings(gk)
	for _, k := range gk {
		vs := groups[k]
		sort.SliceStable(vs, func(i, j int) bool { return len(vs[i].classes) < len(vs[j].classes) })
		var minimal []map[string]string
		for _, v := range vs {
			covered := false
			for _, m := range minimal {
				sub := true
				for p, c := range m {
					if v.classes[p] != c {
						sub = false
					}
				}
				if sub {
					covered = true
				}
			}
			if !covered {
				minimal = append(minimal, v.classes)
			}
			var m map[string]string
			for _, mm := range minimal {
				sub := true
				for p, c := range mm {
					if v.classes[p] != c {
						sub = false
					}
				}
				if sub {
					m = mm
					break
				}
			}
			ks := []string{}
			for p, c := range m {
				ks = append(ks, p+"="+c)
			}
			sort.Strings(ks)
			cls := strings.Join(ks, ",")
			if cls == "" {
				cls = "base-request"
			}
			sig := k + ":" + cls
			hs := fnv.New32a()
			hs.Write([]byte(sig))
			// the short hash keeps the (truncated) replay file names of different signatures apart
			r.Fail(engine.Failure{Sig: fmt.Sprintf("%06x:%s", hs.Sum32()&0xffffff, sig), Detail: v.detail, Case: v.c})
		}
	}

	// vacuity guards
	total := 0
	for _, st := range states {
		total += len(reqs[st])
	}
	if evals != total && r.ID != "" {
		missing := 0
		for id := range byID {
			if !executed[id] {
				missing++
			}
		}
		r.Broken("executed %d of %d requests (%d never ran)", evals, total, missing)
	}
	endpoints := 0
	var never2xx []string
	for i := range g.Routes {
		rt := &g.Routes[i]
		if rt.Path == "/" {
			continue
		}
		for m := range rt.Methods {
			endpoints++
			ep := m + " " + rt.Path
			if perEndpoint[ep] == 0 {
				r.Broken("vacuous: endpoint %s was never exercised", ep)
			}
			if !okEndpoint[ep] {
				never2xx = append(never2xx, ep)
			}
		}
	}
	sort.Strings(never2xx)
	// endpoints that cannot succeed on a node without peers
	expectedNever := map[string]bool{"GET /api/v1/csrf": true /* token checking is off: 404 */, "POST /api/v1/resendUnconfirmedTxns": true, "POST /api/v1/network/connection/disconnect": true, "GET /api/v1/network/connection": true}
	for _, ep := range never2xx {
		if !expectedNever[ep] && len(viols) == 0 {
			r.Broken("vacuous: the base request of %s never succeeded (statuses seen: %v)", ep, keys(statusClasses[ep]))
		}
	}
	if status["400"] == 0 || status["200"] == 0 || status["404"] == 0 {
		r.Broken("vacuous: status histogram %v", status)
	}
	if resets < 10 {
		r.Broken("vacuous: only %d state-changing requests succeeded", resets)
	}
	if r.Thorough() && (evals2 == 0 || redone == 0) {
		r.Broken("vacuous: no depth-2 request ran")
	}
	samples := []interface{}{}
	for _, st := range states {
		for i := range reqs[st] {
			if q := &reqs[st][i]; len(q.Classes) == 2 && len(samples) < 4 && q.ID%97 == 0 {
				samples = append(samples, map[string]interface{}{"state": q.State, "method": q.Method, "path": q.Path, "query": clip(q.Query, 200), "body": clip(q.Body, 300), "classes": q.Classes})
			}
		}
	}
	if len(samples) == 0 {
		samples = append(samples, reqs["chain"][0])
	}
	fx := []string{}
	for k, v := range fiveXX {
		fx = append(fx, fmt.Sprintf("%s x%d", k, v))
	}
	sort.Strings(fx)
	r.Assumptions = append(r.Assumptions,
		"node fixture: daemon with networking disabled (no peers: broadcast answers 503, connection endpoints 404), block-publisher visor on a real bolt file, wallet service with sha256-xor, kvstorage with the txid storage loaded; all API sets on, CSRF and header checks off, no credentials",
		"two states: 'chain' = genesis + 3 blocks, 1 pending transaction, spent outputs, 3 wallets with funds; 'genesis-only' = genesis block + 1 pending transaction",
		"product: per endpoint the full product of the typed value sets for <= 3 parameters, all pairs of parameter values (others at their valid base) beyond; JSON endpoints carry a body-shape parameter; values that may exhaust the node (2^64-1 counts, 1e10000000 amounts) are tried alone, each in its own worker with a deadline",
		"a 5xx answer is a well-formed response for this property (listed under five_xx); a 200 answer of a JSON endpoint must parse as JSON; v2 error bodies need not be JSON (README)",
		"the fixture is re-created from the pristine copy after every request that changed state (2xx on a state-changing endpoint) or panicked",
		"depth 2 (thorough): every state-changing request that succeeded at depth 1 is performed again on a fresh copy, then every read request of the product (except those already abnormal at depth 1 and the sandboxed ones) is repeated on the changed node",
		"transaction signatures use the node's random nonces, so hashes differ from run to run; classes, verdicts and finding signatures do not",
	)
	type kv struct {
		k string
		v int64
	}
	var tl []kv
	for k, v := range timeEP {
		tl = append(tl, kv{k, v})
	}
	sort.Slice(tl, func(i, j int) bool { return tl[i].v > tl[j].v })
	slow := []string{fmt.Sprintf("fixture resets: %d ms", timeReset/1000)}
	for i := 0; i < len(tl) && i < 8; i++ {
		slow = append(slow, fmt.Sprintf("%s: %d ms over %d requests", tl[i].k, tl[i].v/1000, perEndpoint[tl[i].k]))
	}
	r.Finish(engine.Coverage{
		"time_spent_informational": slow,
		"evaluations":              evals + evals2,
		"depth1_requests":          evals,
		"depth2_requests":          evals2,
		"distinct_nontrivial":      distinct.Len(),
		"rule":                     "distinct (state, endpoint, off-base parameter-class assignment) tuples with at least one parameter off its valid base value",
		"exhaustive":               true,
		"samples":                  samples,
		"outcome_histogram":        status,
		"endpoints":                endpoints,
		"endpoints_never_2xx":      never2xx,
		"fixture_resets":           resets,
		"five_xx":                  fx,
		"workers":                  map[string]int{"processes": nw, "shards": len(shards)},
		"requests_per_state":       map[string]int{"chain": len(reqs["chain"]), "genesis-only": len(reqs["genesis-only"])},
		"fixture":                  map[string]interface{}{"chain_head": infos["chain"].Head, "genesis_head": infos["genesis-only"].Head},
	})
}

func keys(m map[string]bool) []string {
	out := []string{}
	for k := range m {
		out = append(out, k)
	}
	sort.Strings(out)
	return out
}

func clip(s string, n int) string {
	if len(s) > n {
		return s[:n] + fmt.Sprintf("…(%d bytes)", len(s))
	}
	return s
}
