package main

import (
	"encoding/json"
	"fmt"
	"github.com/skycoin/skycoin/src/cipher/bip39"
	"io"
	"net/http"
	"os"
	"path/filepath"
	"strings"
	"sync"
	"time"

	"github.com/skycoin/skycoin/src/api"
	"github.com/skycoin/skycoin/src/cipher"
	"github.com/skycoin/skycoin/src/cipher/bip44"
	"github.com/skycoin/skycoin/src/cipher/crypto"
	"github.com/skycoin/skycoin/src/coin"
	"github.com/skycoin/skycoin/src/daemon"
	"github.com/skycoin/skycoin/src/daemon/gnet"
	"github.com/skycoin/skycoin/src/kvstorage"
	"github.com/skycoin/skycoin/src/params"
	"github.com/skycoin/skycoin/src/readable"
	"github.com/skycoin/skycoin/src/util/useragent"
	"github.com/skycoin/skycoin/src/visor"
	"github.com/skycoin/skycoin/src/visor/dbutil"
	"github.com/skycoin/skycoin/src/wallet"
	_ "github.com/skycoin/skycoin/src/wallet/bip44wallet"
	_ "github.com/skycoin/skycoin/src/wallet/collection"
	_ "github.com/skycoin/skycoin/src/wallet/deterministic"
	_ "github.com/skycoin/skycoin/src/wallet/xpubwallet"

	"verif/shim/vtime"
)

// The C28 fixture: a REAL node without networking — api.Gateway over daemon.Daemon (networking disabled), visor.Visor
// (block publisher, so the harness can make blocks) on a real bolt file, wallet.Service (sha256-xor) and kvstorage.
// It is built once per state into a directory (data.db, wallets/, kv/, pex/, fixture.json) and then only copied.

const (
	fxGenesisTime  = 1700000000
	fxGenesisCoins = 100e12 // droplets
	fxPassword     = "pw"
	fxPlainSeed    = "verif plain wallet seed"
	fxEncSeed      = "verif encrypted wallet seed"
	fxBip44Seed    = "legal winner thank year wave sausage worth useful legal winner thank yellow"
	fxFreshSeed    = "abandon abandon abandon abandon abandon abandon abandon abandon abandon abandon abandon about"
)

// fxInfo is the manifest of a built fixture: every concrete value the request alphabet needs.
type fxInfo struct {
	State        string   `json:"state"` // "chain" or "genesis-only"
	Head         uint64   `json:"head"`
	ClockUnix    int64    `json:"clock_unix"` // virtual clock when the fixture was finished
	GenesisAddr  string   `json:"genesis_addr"`
	KnownAddr    string   `json:"known_addr"`   // holds outputs, in no wallet
	UnknownAddr  string   `json:"unknown_addr"` // valid, never used
	LockedAddr   string   `json:"locked_addr"`  // locked distribution address
	PlainAddrs   []string `json:"plain_addrs"`
	EncAddrs     []string `json:"enc_addrs"`
	Bip44Addrs   []string `json:"bip44_addrs"`
	ManyAddrs    []string `json:"many_addrs"` // 200 distinct addresses, the first ones known to the chain
	GenesisHash  string   `json:"genesis_block_hash"`
	HeadHash     string   `json:"head_block_hash"`
	TxGenesis    string   `json:"tx_genesis"`
	TxConfirmed  string   `json:"tx_confirmed"`
	TxPending    string   `json:"tx_pending"`
	UxUnspent    string   `json:"ux_unspent"`
	UxSpent      string   `json:"ux_spent"`       // spent by a confirmed transaction ("" in the genesis-only state)
	UxPendingIn  string   `json:"ux_pending_in"`  // unspent, spent by the pending transaction
	UxPendingOut string   `json:"ux_pending_out"` // created by the pending transaction
	EncPending   string   `json:"enc_pending"`
	EncConfirmed string   `json:"enc_confirmed"`
	EncDouble    string   `json:"enc_double_spend"` // signed, unconfirmed, spends an output a CONFIRMED transaction already spent (chain) / the pending one spends (genesis-only)
	EncNewSpend  string   `json:"enc_new_spend"`    // signed and valid, not in the pool
	EncUnsigned  string   `json:"enc_unsigned"`     // valid unsigned spend of a plain-wallet output
	EncNoInputs  string   `json:"enc_no_inputs"`
	// EncVariants: further encoded transactions with boundary field values (output coins 0 / 2^63-1 / 2^63 / 2^64-1, output hours
	// 2^64-1, sums that wrap), each once as a signed spend of an unspent output and once without inputs
	EncVariants map[string]string `json:"enc_variants"`
	XPub        string            `json:"xpub"`
	SecKeyHex   string            `json:"seckey_hex"` // an unrelated secret key (collection wallets / private-keys)
}

type fxKeys struct {
	genPub cipher.PubKey
	genSec cipher.SecKey
	kSec   cipher.SecKey
	kAddr  cipher.Address
	d0, d1 cipher.Address
}

func fxMakeKeys() fxKeys {
	p, s := cipher.MustGenerateDeterministicKeyPair([]byte("verif-c28-genesis"))
	_, ks := cipher.MustGenerateDeterministicKeyPair([]byte("verif-c28-known"))
	_, d0 := cipher.MustGenerateDeterministicKeyPair([]byte("verif-c28-dist0"))
	_, d1 := cipher.MustGenerateDeterministicKeyPair([]byte("verif-c28-dist1"))
	return fxKeys{genPub: p, genSec: s, kSec: ks, kAddr: cipher.MustAddressFromSecKey(ks),
		d0: cipher.MustAddressFromSecKey(d0), d1: cipher.MustAddressFromSecKey(d1)}
}

// node is one opened fixture.
type node struct {
	dir string
	db  *dbutil.DB
	v   *visor.Visor
	d   *daemon.Daemon
	w   *wallet.Service
	s   *kvstorage.Manager
	gw  *api.Gateway
	mux *http.ServeMux
}

var daemonNewMu sync.Mutex // daemon.New registers the gnet message types in package-level maps

func openNode(dir string) (*node, error) {
	k := fxMakeKeys()
	n := &node{dir: dir}
	var err error
	if n.db, err = visor.OpenDB(filepath.Join(dir, "data.db"), false); err != nil {
		return nil, err
	}
	fail := func(e error) (*node, error) {
		n.db.Close() //nolint:errcheck
		return nil, e
	}
	wc := wallet.NewConfig()
	wc.WalletDir = filepath.Join(dir, "wallets")
	wc.EnableWalletAPI = true
	wc.EnableSeedAPI = true
	wc.CryptoType = crypto.CryptoTypeSha256Xor
	bc := bip44.CoinTypeSkycoin
	wc.Bip44Coin = &bc
	if n.w, err = wallet.NewService(wc); err != nil {
		return fail(fmt.Errorf("wallet.NewService: %v", err))
	}
	vc := visor.NewConfig()
	vc.IsBlockPublisher = true
	vc.Arbitrating = true
	vc.BlockchainPubkey = k.genPub
	vc.BlockchainSeckey = k.genSec
	vc.GenesisAddress = cipher.AddressFromPubKey(k.genPub)
	vc.GenesisTimestamp = fxGenesisTime
	vc.GenesisCoinVolume = fxGenesisCoins
	vc.Distribution = params.Distribution{MaxCoinSupply: 100e6, InitialUnlockedCount: 1, UnlockAddressRate: 5, UnlockTimeInterval: 3600 * 24 * 365,
		Addresses: []string{k.d0.String(), k.d1.String()}}
	if n.v, err = visor.New(vc, n.db, n.w); err != nil {
		return fail(fmt.Errorf("visor.New: %v", err))
	}
	dc := daemon.NewConfig()
	dc.Daemon.DisableNetworking = true
	dc.Daemon.DataDirectory = filepath.Join(dir, "pex")
	dc.Daemon.BlockchainPubkey = k.genPub
	dc.Daemon.UserAgent = useragent.Data{Coin: "skycoin", Version: "0.27.0"}
	dc.Daemon.DefaultConnections = []string{"118.178.135.93:6000", "47.88.33.156:6000"}
	dc.Daemon.MaxLastBlocksCount = 256
	dc.Pex.DataDirectory = filepath.Join(dir, "pex")
	dc.Pex.DownloadPeerList = false
	dc.Pex.NetworkDisabled = true
	dc.Pex.DefaultConnections = dc.Daemon.DefaultConnections
	os.MkdirAll(dc.Pex.DataDirectory, 0o700) //nolint:errcheck
	daemonNewMu.Lock()
	gnet.EraseMessages()
	n.d, err = daemon.New(dc, n.v)
	daemonNewMu.Unlock()
	if err != nil {
		return fail(fmt.Errorf("daemon.New: %v", err))
	}
	sc := kvstorage.NewConfig()
	sc.StorageDir = filepath.Join(dir, "kv")
	sc.EnableStorageAPI = true
	sc.EnabledStorages = []kvstorage.Type{kvstorage.TypeTxIDNotes}
	if n.s, err = kvstorage.NewManager(sc); err != nil {
		return fail(fmt.Errorf("kvstorage.NewManager: %v", err))
	}
	n.gw = api.NewGateway(n.d, n.v, n.w, n.s)
	if err := n.v.Init(); err != nil {
		return fail(fmt.Errorf("visor.Init: %v", err))
	}
	en := map[string]struct{}{}
	for _, s := range api.VerifAPISets() {
		en[s] = struct{}{}
	}
	// the GUI is on: "/" and every top-level entry of the static directory are served by net/http's file server behind the
	// same middleware (their error bodies are plain text, unlike every API handler's)
	static := filepath.Join(dir, "static")
	if _, err := os.Stat(static); err != nil {
		os.MkdirAll(filepath.Join(static, "assets"), 0o700)                                                                               //nolint:errcheck
		os.WriteFile(filepath.Join(static, "index.html"), []byte("<html><body>"+strings.Repeat("skycoin ", 200)+"</body></html>"), 0o600) //nolint:errcheck
		os.WriteFile(filepath.Join(static, "assets", "app.js"), []byte("console.log('skycoin')\n"), 0o600)                                //nolint:errcheck
		os.WriteFile(filepath.Join(static, "main.v2.js"), []byte("// bundle v2\n"), 0o600)                                                //nolint:errcheck
	}
	n.mux = api.VerifNewServerMux(api.VerifMuxConfig{Host: c27Host, DisableCSRF: true, DisableHeaderCheck: true, DisableCSP: true, EnabledAPISets: en, EnableGUI: true, AppLoc: static,
		Health: api.HealthConfig{BuildInfo: readable.BuildInfo{Version: "0.27.0", Commit: "verif", Branch: "verif"},
			DaemonUserAgent: useragent.Data{Coin: "skycoin", Version: "0.27.0"}, BlockPublisher: true}}, n.gw)
	return n, nil
}

func (n *node) close() {
	if n != nil && n.db != nil {
		n.db.Close() //nolint:errcheck
	}
}

func copyTree(src, dst string) error {
	return filepath.Walk(src, func(p string, info os.FileInfo, err error) error {
		if err != nil {
			return err
		}
		rel, _ := filepath.Rel(src, p)
		t := filepath.Join(dst, rel)
		if info.IsDir() {
			return os.MkdirAll(t, 0o700)
		}
		in, err := os.Open(p)
		if err != nil {
			return err
		}
		defer in.Close()
		out, err := os.OpenFile(t, os.O_CREATE|os.O_TRUNC|os.O_WRONLY, 0o600)
		if err != nil {
			return err
		}
		if _, err := io.Copy(out, in); err != nil {
			out.Close()
			return err
		}
		return out.Close()
	})
}

// ---- building -------------------------------------------------------------------------------------------------

type fxBuilder struct {
	n *node
	k fxKeys
}

func (b *fxBuilder) unspents(a cipher.Address) coin.UxArray {
	m, err := b.n.v.GetUnspentsOfAddrs([]cipher.Address{a})
	if err != nil {
		panic(err)
	}
	return m[a]
}

type fxOut struct {
	addr  cipher.Address
	coins uint64
	hours uint64
}

// spend builds (and signs unless unsigned) a transaction spending ux to outs.
func fxSpend(ins coin.UxArray, keys []cipher.SecKey, outs []fxOut, sign bool) coin.Transaction {
	var t coin.Transaction
	for _, u := range ins {
		if err := t.PushInput(u.Hash()); err != nil {
			panic(err)
		}
	}
	for _, o := range outs {
		if err := t.PushOutput(o.addr, o.coins, o.hours); err != nil {
			panic(err)
		}
	}
	if sign {
		t.SignInputs(keys)
	} else {
		t.Sigs = make([]cipher.Sig, len(t.In))
	}
	if err := t.UpdateHeader(); err != nil {
		panic(err)
	}
	return t
}

func (b *fxBuilder) inject(t coin.Transaction) {
	if _, _, _, err := b.n.v.InjectUserTransaction(t); err != nil {
		panic(fmt.Errorf("fixture: InjectUserTransaction: %v", err))
	}
}

func (b *fxBuilder) block() coin.SignedBlock {
	vtime.Advance(10 * time.Hour)
	sb, err := b.n.v.CreateAndExecuteBlock()
	if err != nil {
		panic(fmt.Errorf("fixture: CreateAndExecuteBlock: %v", err))
	}
	return sb
}

func hexOf(t coin.Transaction) string {
	h, err := t.SerializeHex()
	if err != nil {
		panic(err)
	}
	return h
}

func addrStrings(es wallet.Entries) []string {
	var out []string
	for _, e := range es {
		out = append(out, e.Address.String())
	}
	return out
}

// buildFixture creates the fixture directory for a state and returns its manifest.
func buildFixture(dir, state string) (info *fxInfo, err error) {
	defer func() {
		if e := recover(); e != nil {
			err = fmt.Errorf("fixture %s: %v", state, e)
		}
	}()
	if err := os.MkdirAll(dir, 0o700); err != nil {
		return nil, err
	}
	vtime.SetUnix(fxGenesisTime + 3600)
	n, err := openNode(dir)
	if err != nil {
		return nil, err
	}
	defer n.close()
	b := &fxBuilder{n: n, k: fxMakeKeys()}
	k := b.k
	gAddr := cipher.AddressFromPubKey(k.genPub)

	// wallets: plain deterministic (3 addresses), encrypted deterministic (2), bip44 (2 external)
	plain, err := n.w.CreateWallet("plain.wlt", wallet.Options{Type: wallet.WalletTypeDeterministic, Seed: fxPlainSeed, Label: "plain", GenerateN: 3, CryptoType: crypto.CryptoTypeSha256Xor})
	if err != nil {
		return nil, fmt.Errorf("create plain wallet: %v", err)
	}
	enc, err := n.w.CreateWallet("enc.wlt", wallet.Options{Type: wallet.WalletTypeDeterministic, Seed: fxEncSeed, Label: "enc", GenerateN: 2, Encrypt: true, Password: []byte(fxPassword)})
	if err != nil {
		return nil, fmt.Errorf("create encrypted wallet: %v", err)
	}
	b44, err := n.w.CreateWallet("bip44.wlt", wallet.Options{Type: wallet.WalletTypeBip44, Seed: fxBip44Seed, Label: "bip44", GenerateN: 2, CryptoType: crypto.CryptoTypeSha256Xor})
	if err != nil {
		return nil, fmt.Errorf("create bip44 wallet: %v", err)
	}
	pe, err := plain.GetEntries()
	if err != nil {
		return nil, err
	}
	ee, err := enc.GetEntries()
	if err != nil {
		return nil, err
	}
	be, err := b44.GetEntries(wallet.OptionExternal())
	if err != nil {
		return nil, err
	}
	pA := func(i int) cipher.Address { return pe[i].SkycoinAddress() }
	_, unkSec := cipher.MustGenerateDeterministicKeyPair([]byte("verif-c28-unknown"))
	_, otherSec := cipher.MustGenerateDeterministicKeyPair([]byte("verif-c28-other"))
	info = &fxInfo{State: state, GenesisAddr: gAddr.String(), KnownAddr: k.kAddr.String(), UnknownAddr: cipher.MustAddressFromSecKey(unkSec).String(),
		LockedAddr: k.d1.String(), PlainAddrs: addrStrings(pe), EncAddrs: addrStrings(ee), Bip44Addrs: addrStrings(be), SecKeyHex: otherSec.Hex()}
	info.ManyAddrs = append(info.ManyAddrs, gAddr.String(), k.kAddr.String(), pA(0).String(), pA(1).String())
	for i := 0; len(info.ManyAddrs) < 200; i++ {
		_, s := cipher.MustGenerateDeterministicKeyPair([]byte(fmt.Sprintf("verif-c28-many-%d", i)))
		info.ManyAddrs = append(info.ManyAddrs, cipher.MustAddressFromSecKey(s).String())
	}
	if x, ok := b44.(interface{ XPub() string }); ok {
		info.XPub = x.XPub()
	}
	// a watch-only (xpub) wallet over the external chain of the bip44 wallet: it owns the same - funded - addresses but holds no
	// secret keys, so every request that makes a wallet sign meets a wallet that cannot
	{
		seed, err := bip39.NewSeed(fxBip44Seed, "")
		if err != nil {
			return nil, err
		}
		c, err := bip44.NewCoin(seed, bip44.CoinTypeSkycoin)
		if err != nil {
			return nil, err
		}
		acct, err := c.Account(0)
		if err != nil {
			return nil, err
		}
		ext, err := acct.External()
		if err != nil {
			return nil, err
		}
		xp := ext.PublicKey().String()
		xw, err := n.w.CreateWallet("xpub.wlt", wallet.Options{Type: wallet.WalletTypeXPub, XPub: xp, Label: "xpub", GenerateN: 2})
		if err != nil {
			return nil, fmt.Errorf("create xpub wallet: %v", err)
		}
		xe, err := xw.GetEntries()
		if err != nil || len(xe) < 1 || xe[0].Address.String() != be[0].Address.String() {
			return nil, fmt.Errorf("fixture: the xpub wallet does not own the bip44 wallet's first external address (%v)", err)
		}
		if info.XPub == "" {
			info.XPub = xp
		}
	}

	gb, err := n.v.GetSignedBlockBySeq(0)
	if err != nil || gb == nil {
		return nil, fmt.Errorf("no genesis block: %v", err)
	}
	info.GenesisHash = gb.HashHeader().Hex()
	info.TxGenesis = gb.Body.Transactions[0].Hash().Hex()
	info.EncNoInputs = hexOf(gb.Body.Transactions[0])
	gux := b.unspents(gAddr)
	if len(gux) != 1 {
		return nil, fmt.Errorf("genesis address has %d outputs", len(gux))
	}
	const C = 1e6 // droplets per coin
	total := gux[0].Body.Coins

	switch state {
	case "genesis-only":
		p0 := fxSpend(gux, []cipher.SecKey{k.genSec}, []fxOut{{pA(0), 1000 * C, 1000}, {gAddr, total - 1000*C, 1000}}, true)
		b.inject(p0)
		info.TxPending, info.EncPending = p0.Hash().Hex(), hexOf(p0)
		info.TxConfirmed = info.TxGenesis
		info.EncConfirmed = info.EncNoInputs
		info.UxUnspent = gux[0].Hash().Hex()
		info.UxPendingIn = gux[0].Hash().Hex()
		info.UxPendingOut = p0.Out[0].UxID(p0.Hash()).Hex()
		ds := fxSpend(gux, []cipher.SecKey{k.genSec}, []fxOut{{k.kAddr, 5 * C, 10}, {gAddr, total - 5*C, 10}}, true)
		info.EncDouble, info.EncNewSpend = hexOf(ds), hexOf(ds)
		info.EncUnsigned = hexOf(fxSpend(gux, nil, []fxOut{{k.kAddr, 7 * C, 10}, {gAddr, total - 7*C, 10}}, false))
	case "chain":
		// block 1: genesis output -> wallets, distribution addresses, known address, change
		t1 := fxSpend(gux, []cipher.SecKey{k.genSec}, []fxOut{
			{pA(0), 1000 * C, 1000}, {ee[0].SkycoinAddress(), 1000 * C, 1000}, {be[0].SkycoinAddress(), 1000 * C, 1000},
			{k.d0, 500 * C, 500}, {k.d1, 500 * C, 500}, {k.kAddr, 100 * C, 100}, {k.kAddr, 50 * C, 50}, {gAddr, total - 4150*C, 100000}}, true)
		b.inject(t1)
		b.block()
		info.UxSpent = gux[0].Hash().Hex()
		// block 2: plain wallet spends its first output
		pux := b.unspents(pA(0))
		t2 := fxSpend(pux, []cipher.SecKey{pe[0].Secret}, []fxOut{{pA(1), 600 * C, 400}, {k.kAddr, 100 * C, 100}, {pA(0), 300 * C, 100}}, true)
		b.inject(t2)
		b.block()
		info.TxConfirmed, info.EncConfirmed = t2.Hash().Hex(), hexOf(t2)
		// block 3: genesis change moves on
		g2 := b.unspents(gAddr)
		t3 := fxSpend(g2, []cipher.SecKey{k.genSec}, []fxOut{{gAddr, g2[0].Body.Coins - 50*C, 1000}, {k.kAddr, 50 * C, 50}}, true)
		b.inject(t3)
		// two pending transactions that spend the same output of the known address: block 3 confirms one of them, the other one
		// becomes invalid and is dropped by the periodic clean-up (RemoveInvalidUnconfirmed) — the node has a pool HISTORY, and
		// every index kept next to the pool must have followed it
		kx := b.unspents(k.kAddr)
		cx1 := fxSpend(kx[:1], []cipher.SecKey{k.kSec}, []fxOut{{pA(2), 10 * C, 10}, {k.kAddr, kx[0].Body.Coins - 10*C, 10}}, true)
		cx2 := fxSpend(kx[:1], []cipher.SecKey{k.kSec}, []fxOut{{k.kAddr, kx[0].Body.Coins, 20}}, true)
		b.inject(cx1)
		b.inject(cx2)
		b.block()
		if removed, err := n.v.RemoveInvalidUnconfirmed(); err != nil || len(removed) != 1 {
			return nil, fmt.Errorf("fixture: RemoveInvalidUnconfirmed removed %v, err %v (want exactly the losing double spend)", removed, err)
		}
		// pending: plain wallet's second address spends
		p1in := b.unspents(pA(1))
		p1 := fxSpend(p1in, []cipher.SecKey{pe[1].Secret}, []fxOut{{k.kAddr, 100 * C, 100}, {pA(1), 500 * C, 100}}, true)
		b.inject(p1)
		info.TxPending, info.EncPending = p1.Hash().Hex(), hexOf(p1)
		info.UxPendingIn = p1in[0].Hash().Hex()
		info.UxPendingOut = p1.Out[0].UxID(p1.Hash()).Hex()
		kux := b.unspents(k.kAddr)
		info.UxUnspent = kux[0].Hash().Hex()
		// an unconfirmed double spend of the (spent) genesis output
		info.EncDouble = hexOf(fxSpend(gux, []cipher.SecKey{k.genSec}, []fxOut{{k.kAddr, 5 * C, 10}, {gAddr, total - 5*C, 10}}, true))
		// a valid spend that is not in the pool
		info.EncNewSpend = hexOf(fxSpend(kux[:1], []cipher.SecKey{k.kSec}, []fxOut{{k.kAddr, kux[0].Body.Coins - 1*C, 1}, {pA(2), 1 * C, 1}}, true))
		// an unsigned spend of the plain wallet's change output
		cux := b.unspents(pA(0))
		info.EncUnsigned = hexOf(fxSpend(cux, nil, []fxOut{{k.kAddr, 100 * C, 10}, {pA(0), cux[0].Body.Coins - 100*C, 10}}, false))
	default:
		return nil, fmt.Errorf("unknown state %q", state)
	}
	// boundary-valued transactions: spend of an unspent output of the known address (signed), and the same outputs without inputs
	{
		info.EncVariants = map[string]string{}
		var vin coin.UxArray
		var vkeys []cipher.SecKey
		if kux := b.unspents(k.kAddr); len(kux) > 0 {
			vin, vkeys = kux[:1], []cipher.SecKey{k.kSec}
		} else {
			vin, vkeys = b.unspents(gAddr)[:1], []cipher.SecKey{k.genSec}
		}
		const maxI64 = uint64(1)<<63 - 1
		shapes := map[string][]fxOut{
			"coins-2^63-1":        {{k.kAddr, maxI64, 1}},
			"coins-2^63":          {{k.kAddr, maxI64 + 1, 1}},
			"coins-2^64-1":        {{k.kAddr, ^uint64(0), 1}},
			"coins-sum-wraps":     {{k.kAddr, ^uint64(0), 1}, {pA(0), 2e6, 1}},
			"hours-2^64-1":        {{k.kAddr, 1e6, ^uint64(0)}},
			"hours-sum-wraps":     {{k.kAddr, 1e6, ^uint64(0)}, {pA(0), 1e6, 2}},
			"coins-and-hours-max": {{k.kAddr, ^uint64(0), ^uint64(0)}},
		}
		for name, outs := range shapes {
			info.EncVariants["spend:"+name] = hexOf(fxSpend(vin, vkeys, outs, true))
			info.EncVariants["spend-unsigned:"+name] = hexOf(fxSpend(vin, nil, outs, false))
			info.EncVariants["no-inputs:"+name] = hexOf(fxSpend(nil, nil, outs, false))
		}
	}
	head, err := n.v.GetHeadBlock()
	if err != nil {
		return nil, err
	}
	info.Head, info.HeadHash = head.Seq(), head.HashHeader().Hex()
	// a few stored values
	if err := n.s.AddStorageValue(kvstorage.TypeTxIDNotes, "key1", "note one"); err != nil {
		return nil, err
	}
	vtime.Advance(time.Hour)
	info.ClockUnix = vtime.Now().Unix()
	mb, _ := json.MarshalIndent(info, "", " ")
	if err := os.WriteFile(filepath.Join(dir, "fixture.json"), mb, 0o600); err != nil {
		return nil, err
	}
	return info, nil
}

func loadFxInfo(dir string) (*fxInfo, error) {
	b, err := os.ReadFile(filepath.Join(dir, "fixture.json"))
	if err != nil {
		return nil, err
	}
	var i fxInfo
	if err := json.Unmarshal(b, &i); err != nil {
		return nil, err
	}
	return &i, nil
}
