package main

import (
	"encoding/json"
	"fmt"
	"go/ast"
	"go/parser"
	"go/token"
	"net/http"
	"os"
	"path/filepath"
	"reflect"
	"sort"
	"strconv"
	"strings"
)

// effectiveSource returns the path of the source file that was actually compiled into this binary for the
// given /repo-relative file: the overlay of the build directory (mutant / fix / import rewrite) wins.
func effectiveSource(rel string) string {
	p := filepath.Join("/repo", rel)
	exe, err := os.Executable()
	if err != nil {
		return p
	}
	b, err := os.ReadFile(filepath.Join(filepath.Dir(exe), "overlay.json"))
	if err != nil {
		return p
	}
	var ov struct{ Replace map[string]string }
	if json.Unmarshal(b, &ov) != nil {
		return p
	}
	if r, ok := ov.Replace[p]; ok {
		return r
	}
	return p
}

// codeRoute is one route registration found in newServerMux.
type codeRoute struct {
	Path    string
	API     string
	Methods map[string][]string // nil map: registered without an API-set table (always enabled, handler decides the method)
	Via     string              // registering helper
	Line    int
}

// extractRoutes reads the route table out of newServerMux by AST: every call of the registration closures
// (webHandlerV1, webHandlerV2, webHandler, csrfHandlerV1) with its literal endpoint and its literal
// map[string][]string{http.MethodX: {EndpointsY,...}}.  Anything it cannot read literally, and any other
// registration on the mux, is returned as a problem (never silently skipped).
func extractRoutes(file string) (routes []codeRoute, problems []string, err error) {
	fset := token.NewFileSet()
	f, err := parser.ParseFile(fset, file, nil, 0)
	if err != nil {
		return nil, nil, err
	}
	consts := map[string]string{}
	for _, d := range f.Decls {
		gd, ok := d.(*ast.GenDecl)
		if !ok || gd.Tok != token.CONST {
			continue
		}
		for _, s := range gd.Specs {
			vs := s.(*ast.ValueSpec)
			for i, n := range vs.Names {
				if i < len(vs.Values) {
					if bl, ok := vs.Values[i].(*ast.BasicLit); ok && bl.Kind == token.STRING {
						v, _ := strconv.Unquote(bl.Value)
						consts[n.Name] = v
					}
				}
			}
		}
	}
	var fn *ast.FuncDecl
	for _, d := range f.Decls {
		if fd, ok := d.(*ast.FuncDecl); ok && fd.Name.Name == "newServerMux" {
			fn = fd
		}
	}
	if fn == nil {
		return nil, nil, fmt.Errorf("newServerMux not found in %s", file)
	}
	httpMethod := func(e ast.Expr) (string, bool) {
		if se, ok := e.(*ast.SelectorExpr); ok {
			if id, ok := se.X.(*ast.Ident); ok && id.Name == "http" && strings.HasPrefix(se.Sel.Name, "Method") {
				return strings.ToUpper(strings.TrimPrefix(se.Sel.Name, "Method")), true
			}
		}
		if bl, ok := e.(*ast.BasicLit); ok && bl.Kind == token.STRING {
			v, _ := strconv.Unquote(bl.Value)
			return v, true
		}
		return "", false
	}
	strLit := func(e ast.Expr) (string, bool) {
		switch t := e.(type) {
		case *ast.BasicLit:
			if t.Kind == token.STRING {
				v, _ := strconv.Unquote(t.Value)
				return v, true
			}
		case *ast.Ident:
			if v, ok := consts[t.Name]; ok {
				return v, true
			}
		}
		return "", false
	}
	readMap := func(e ast.Expr, line int) (map[string][]string, bool) {
		if id, ok := e.(*ast.Ident); ok && id.Name == "nil" {
			return nil, true
		}
		cl, ok := e.(*ast.CompositeLit)
		if !ok {
			return nil, false
		}
		m := map[string][]string{}
		for _, el := range cl.Elts {
			kv, ok := el.(*ast.KeyValueExpr)
			if !ok {
				return nil, false
			}
			meth, ok := httpMethod(kv.Key)
			if !ok {
				return nil, false
			}
			vl, ok := kv.Value.(*ast.CompositeLit)
			if !ok {
				return nil, false
			}
			sets := []string{}
			for _, se := range vl.Elts {
				s, ok := strLit(se)
				if !ok {
					return nil, false
				}
				sets = append(sets, s)
			}
			if _, dup := m[meth]; dup {
				problems = append(problems, fmt.Sprintf("line %d: method %s listed twice", line, meth))
			}
			m[meth] = sets
		}
		return m, true
	}
	ast.Inspect(fn.Body, func(n ast.Node) bool {
		ce, ok := n.(*ast.CallExpr)
		if !ok {
			return true
		}
		line := fset.Position(ce.Pos()).Line
		switch fun := ce.Fun.(type) {
		case *ast.Ident:
			switch fun.Name {
			case "webHandlerV1", "webHandlerV2":
				// the definitions of the closures call webHandler(apiVersion, "/api/v1"+endpoint, ...): skip non literal
				if len(ce.Args) != 3 {
					problems = append(problems, fmt.Sprintf("line %d: %s with %d args", line, fun.Name, len(ce.Args)))
					return true
				}
				ep, ok := strLit(ce.Args[0])
				if !ok {
					problems = append(problems, fmt.Sprintf("line %d: %s endpoint is not a literal", line, fun.Name))
					return true
				}
				m, ok := readMap(ce.Args[2], line)
				if !ok {
					problems = append(problems, fmt.Sprintf("line %d: %s %s: API-set table is not a literal", line, fun.Name, ep))
					return true
				}
				v := "v1"
				if fun.Name == "webHandlerV2" {
					v = "v2"
				}
				routes = append(routes, codeRoute{Path: "/api/" + v + ep, API: v, Methods: m, Via: fun.Name, Line: line})
			case "webHandler":
				if len(ce.Args) != 4 {
					return true
				}
				ep, ok := strLit(ce.Args[1])
				if !ok {
					// the generic forwarding calls inside webHandlerV1/V2 and the GUI file loop (never taken: GUI disabled)
					return true
				}
				m, ok := readMap(ce.Args[3], line)
				if !ok {
					problems = append(problems, fmt.Sprintf("line %d: webHandler %s: API-set table is not a literal", line, ep))
					return true
				}
				v := "v1"
				if id, ok := ce.Args[0].(*ast.Ident); ok && id.Name == "apiVersion2" {
					v = "v2"
				}
				routes = append(routes, codeRoute{Path: ep, API: v, Methods: m, Via: "webHandler", Line: line})
			case "csrfHandlerV1":
				if len(ce.Args) != 2 {
					return true
				}
				ep, ok := strLit(ce.Args[0])
				if !ok {
					problems = append(problems, fmt.Sprintf("line %d: csrfHandlerV1 endpoint is not a literal", line))
					return true
				}
				routes = append(routes, codeRoute{Path: "/api/v1" + ep, API: "v1", Methods: nil, Via: "csrfHandlerV1", Line: line})
			}
		case *ast.SelectorExpr:
			if id, ok := fun.X.(*ast.Ident); ok && id.Name == "mux" && (fun.Sel.Name == "Handle" || fun.Sel.Name == "HandleFunc") {
				// the only legitimate one is mux.Handle(endpoint, handler) inside webHandlerWithOptionals
				if a, ok := ce.Args[0].(*ast.Ident); !ok || a.Name != "endpoint" {
					problems = append(problems, fmt.Sprintf("line %d: direct registration on the mux outside webHandlerWithOptionals", line))
				}
			}
		}
		return true
	})
	sort.Slice(routes, func(i, j int) bool { return routes[i].Path < routes[j].Path })
	return routes, problems, nil
}

// muxPatterns lists the patterns registered on a real ServeMux (reflection over the private pattern list of
// net/http; returns nil when this Go version lays the mux out differently).
func muxPatterns(mux *http.ServeMux) []string {
	v := reflect.ValueOf(mux).Elem()
	ps := v.FieldByName("patterns")
	if !ps.IsValid() || ps.Kind() != reflect.Slice {
		return nil
	}
	var out []string
	for i := 0; i < ps.Len(); i++ {
		p := ps.Index(i)
		if p.Kind() == reflect.Ptr {
			p = p.Elem()
		}
		s := p.FieldByName("str")
		if !s.IsValid() || s.Kind() != reflect.String {
			return nil
		}
		out = append(out, s.String())
	}
	sort.Strings(out)
	return out
}
