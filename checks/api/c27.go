package main

import (
	"crypto/hmac"
	"crypto/sha256"
	"encoding/base64"
	"encoding/json"
	"errors"
	"fmt"
	"hash/fnv"
	"io"
	"net/http"
	"net/http/httptest"
	"net/url"
	"os"
	"path/filepath"
	"runtime"
	"runtime/debug"
	"sort"
	"strings"
	"time"

	"github.com/sirupsen/logrus"
	"github.com/skycoin/skycoin/src/api"
	"github.com/skycoin/skycoin/src/cipher"
	"github.com/skycoin/skycoin/src/coin"
	"github.com/skycoin/skycoin/src/util/logging"

	"verif/engine"
	apimodel "verif/model/api"
	"verif/shim/vtime"
)

// C27 — HTTP API access control is enforced on every endpoint.
//
// The REAL mux (api.newServerMux through the export file) is built for every configuration and driven with
// recorders.  "Reached the endpoint's logic" is observed directly: the mux gets a generated recording Gatewayer
// (every method notes the call), and the few handlers that never touch the gateway are recognised by their own
// success response.  The oracle is model/api (golden table from the README + reference predicate); the route
// table read from the current http.go by AST is compared with the golden table first.
//
// Exhaustive product: golden route x 7 methods x API-set configurations x {CSRF on/off} x {header check on/off}
// x {credentials configured or not} x token class x Host x Origin/Referer x credentials x Content-Type.
func init() {
	register("C27", "exploration", c27)
	workers["c27"] = c27Worker
}

const (
	c27Host     = "127.0.0.1:6420"
	c27WLHost   = "wallet.example:8443"
	c27User     = "a"
	c27Pass     = "bc"
	goldenTable = "spec/api_routes.json" // relative to engine.Root
)

var c27Methods = []string{"GET", "POST", "PUT", "DELETE", "HEAD", "OPTIONS", "PATCH"}

// ---- variants -------------------------------------------------------------------------------------------

type hostVar struct{ Class, Host string }
type originVar struct{ Class, Origin, Referer string }
type credVar struct {
	Class      string
	Given      bool
	Broken     bool
	User, Pass string
}
type ctypeVar struct{ Class, Value string }

// Alphabets.  "rich" adds further members of the same classes (second/third credential split, localhost alias,
// Referer-only variants, ...); the base alphabet has every class the property statement names.
func tokenVars(csrfOn, rich bool, method string) []string {
	if !csrfOn {
		return []string{apimodel.TokNone, apimodel.TokGarbage}
	}
	if !rich && method != "POST" && method != "PUT" && method != "DELETE" {
		// base alphabet: for methods that are not state-changing the token is irrelevant; two classes show it is ignored
		return []string{apimodel.TokNone, apimodel.TokOlder}
	}
	return []string{apimodel.TokNone, apimodel.TokFresh, apimodel.TokExpired, apimodel.TokGarbage, apimodel.TokBadSig, apimodel.TokTruncSig, apimodel.TokTampered, apimodel.TokOlder,
		apimodel.TokForgedEmptyKey, apimodel.TokForgedZeroKey}
}

func hostVars(hdrOn, rich bool) []hostVar {
	if !hdrOn {
		return []hostVar{{"configured", c27Host}, {"other", "evil.example"}}
	}
	v := []hostVar{
		{"configured", c27Host},
		{"whitelisted", c27WLHost},
		{"other", "evil.example"},
		{"empty", ""},
		{"configured-as-prefix", c27Host + ".evil.example"},
	}
	if rich {
		v = append(v, hostVar{"localhost-alias", "localhost:6420"}, hostVar{"configured-without-port", "127.0.0.1"})
	}
	return v
}

func originVars(hdrOn, rich bool) []originVar {
	if !hdrOn {
		return []originVar{{"none", "", ""}, {"origin-foreign", "http://evil.example", ""}}
	}
	v := []originVar{
		{"none", "", ""},
		{"origin-same", "http://" + c27Host, ""},
		{"origin-whitelisted", "http://" + c27WLHost, ""},
		{"origin-foreign", "http://evil.example", ""},
		{"origin-unparsable", "http://[::1", ""},
		{"origin-configured-as-prefix", "http://" + c27Host + ".evil.example", ""},
		{"referer-foreign", "", "http://evil.example/x"},
	}
	if rich {
		v = append(v,
			originVar{"referer-same", "", "http://" + c27Host + "/index.html"},
			originVar{"referer-whitelisted", "", "http://" + c27WLHost + "/x"},
			originVar{"referer-unparsable", "", "%zz"},
			originVar{"origin-same+referer-foreign", "http://" + c27Host, "http://evil.example/x"},
			originVar{"origin-foreign+referer-same", "http://evil.example", "http://" + c27Host + "/"},
			originVar{"origin-null", "null", ""},
		)
	}
	return v
}

func credVars(authOn, rich bool) []credVar {
	if !authOn {
		v := []credVar{{Class: "none"}, {Class: "given-but-none-configured", Given: true, User: c27User, Pass: c27Pass}}
		if rich {
			v = append(v, credVar{Class: "malformed-header", Broken: true})
		}
		return v
	}
	v := []credVar{
		{Class: "none"},
		{Class: "right", Given: true, User: c27User, Pass: c27Pass},
		{Class: "wrong-user", Given: true, User: "x", Pass: c27Pass},
		{Class: "wrong-password", Given: true, User: c27User, Pass: "xx"},
		{Class: "split-ab-c", Given: true, User: "ab", Pass: "c"},
	}
	if rich {
		v = append(v,
			credVar{Class: "split-empty-abc", Given: true, User: "", Pass: "abc"},
			credVar{Class: "split-abc-empty", Given: true, User: "abc", Pass: ""},
			credVar{Class: "malformed-header", Broken: true},
			credVar{Class: "right-user-empty-password", Given: true, User: c27User, Pass: ""},
		)
	}
	return v
}

func ctypeVars(rt *apimodel.Route, method string) []ctypeVar {
	if rt.API == "v2" {
		if method == "POST" {
			return []ctypeVar{{"json", "application/json"}, {"json-charset", "application/json; charset=utf-8"}, {"form", "application/x-www-form-urlencoded"}, {"absent", ""}, {"jsonx", "application/jsonx"}}
		}
		return []ctypeVar{{"json", "application/json"}, {"form", "application/x-www-form-urlencoded"}}
	}
	return []ctypeVar{{"native", ""}} // v1: the content type the endpoint documents (form, or JSON for the JSON-body endpoints)
}

// ---- canonical (well-formed) request per route: enough to get past the handler's own argument validation ------

type canon struct {
	query string // URL query
	form  string // form body (POST/PUT/PATCH/DELETE to form endpoints)
	json  string // JSON body
}

type c27Fixture struct {
	addr   string
	txnHex string
	hash   string
	canon  map[string]canon
}

func newC27Fixture() *c27Fixture {
	_, sk := cipher.MustGenerateDeterministicKeyPair([]byte("verif-c27"))
	addr := cipher.MustAddressFromSecKey(sk)
	var txn coin.Transaction
	h := cipher.SumSHA256([]byte("verif-c27-input"))
	if err := txn.PushInput(h); err != nil {
		panic(err)
	}
	if err := txn.PushOutput(addr, 1e6, 1); err != nil {
		panic(err)
	}
	txn.SignInputs([]cipher.SecKey{sk})
	if err := txn.UpdateHeader(); err != nil {
		panic(err)
	}
	hx, err := txn.SerializeHex()
	if err != nil {
		panic(err)
	}
	f := &c27Fixture{addr: addr.String(), txnHex: hx, hash: h.Hex()}
	a := f.addr
	mnemonic := "abandon abandon abandon abandon abandon abandon abandon abandon abandon abandon abandon about"
	createTxn := `{"hours_selection":{"type":"manual"},"addresses":["` + a + `"],"to":[{"address":"` + a + `","coins":"1","hours":"1"}]}`
	wltTxn := `{"hours_selection":{"type":"manual"},"wallet_id":"w.wlt","to":[{"address":"` + a + `","coins":"1","hours":"1"}]}`
	f.canon = map[string]canon{
		"/api/v1/balance":                       {query: "addrs=" + a, form: "addrs=" + a},
		"/api/v2/address/verify":                {json: `{"address":"` + a + `"}`},
		"/api/v1/wallet":                        {query: "id=w.wlt"},
		"/api/v1/wallet/transactions":           {query: "id=w.wlt"},
		"/api/v2/wallet/seed/verify":            {json: `{"seed":"` + mnemonic + `"}`},
		"/api/v1/wallet/create":                 {form: "type=deterministic&seed=s&label=l"},
		"/api/v1/wallet/createTemp":             {form: "type=deterministic&seed=s&label=l"},
		"/api/v1/wallet/newAddress":             {form: "id=w.wlt"},
		"/api/v1/wallet/scan":                   {form: "id=w.wlt"},
		"/api/v1/wallet/update":                 {form: "id=w.wlt&label=l"},
		"/api/v1/wallet/balance":                {query: "id=w.wlt"},
		"/api/v1/wallet/transaction":            {json: wltTxn},
		"/api/v2/wallet/transaction/sign":       {json: `{"wallet_id":"w.wlt","encoded_transaction":"` + hx + `"}`},
		"/api/v1/wallet/unload":                 {form: "id=w.wlt"},
		"/api/v1/wallet/encrypt":                {form: "id=w.wlt&password=p"},
		"/api/v1/wallet/decrypt":                {form: "id=w.wlt&password=p"},
		"/api/v1/wallet/seed":                   {form: "id=w.wlt&password=p"},
		"/api/v2/wallet/recover":                {json: `{"id":"w.wlt","seed":"s"}`},
		"/api/v2/data":                          {query: "type=txid&key=k", json: `{"type":"txid","key":"k","val":"v"}`},
		"/api/v2/transaction":                   {json: createTxn},
		"/api/v1/transaction":                   {query: "txid=" + f.hash},
		"/api/v1/rawtx":                         {query: "txid=" + f.hash},
		"/api/v1/injectTransaction":             {json: `{"rawtx":"` + hx + `"}`},
		"/api/v2/transaction/verify":            {json: `{"encoded_transaction":"` + hx + `"}`},
		"/api/v1/block":                         {query: "seq=1"},
		"/api/v1/blocks":                        {query: "start=1&end=2", form: "start=1&end=2"},
		"/api/v1/last_blocks":                   {query: "num=1"},
		"/api/v1/uxout":                         {query: "uxid=" + f.hash},
		"/api/v1/address_uxouts":                {query: "address=" + a},
		"/api/v1/network/connection":            {query: "addr=1.2.3.4:6000"},
		"/api/v1/network/connection/disconnect": {form: "id=1"},
	}
	return f
}

// ownResponse recognises, for the handlers that never touch the gateway, the endpoint's own success response.
func ownResponse(path string, csrfOn bool, status int, body string) bool {
	switch path {
	case "/api/v1/csrf":
		if csrfOn {
			return status == 200 && strings.Contains(body, `"csrf_token"`)
		}
		return status == 404 && strings.HasPrefix(body, "404 Not Found")
	case "/api/v1/version":
		return status == 200 && strings.Contains(body, `"version"`)
	case "/api/v1/wallet/newSeed":
		return status == 200 && strings.Contains(body, `"seed"`)
	case "/api/v2/wallet/seed/verify":
		return status == 200 && strings.Contains(body, `"data"`)
	case "/api/v2/address/verify":
		return status == 200 && strings.Contains(body, `"version"`)
	case "/":
		return status == 404 && strings.HasPrefix(body, "404 Not Found")
	}
	return false
}

// ---- plan -----------------------------------------------------------------------------------------------

type c27Mux struct {
	Mask   int // bit i = API set i of golden.APISets enabled
	CSRF   bool
	Hdr    bool
	Auth   bool
	Rich   bool  // rich variant alphabet
	Routes []int // golden route indexes exercised under this configuration
}

func (m c27Mux) flags() string {
	b := func(x bool, s string) string {
		if x {
			return s + "+"
		}
		return s + "-"
	}
	return b(m.CSRF, "csrf") + b(m.Hdr, "hdr") + b(m.Auth, "auth")
}

func maskSets(g *apimodel.Golden, mask int) []string {
	out := []string{}
	for i, s := range g.APISets {
		if mask&(1<<uint(i)) != 0 {
			out = append(out, s)
		}
	}
	return out
}

// foreignSet picks, for a route, the API set outside its own sets that is the most plausible confusion.
func foreignSet(own []string) string {
	switch strings.Join(own, ",") {
	case "":
		return "READ"
	case "READ":
		return "STATUS"
	case "READ,STATUS":
		return "TXN"
	case "WALLET":
		return "INSECURE_WALLET_SEED"
	case "INSECURE_WALLET_SEED", "TXN":
		return "WALLET"
	case "TXN,WALLET", "STORAGE":
		return "READ"
	case "NET_CTRL":
		return "STATUS"
	}
	for _, c := range []string{"READ", "WALLET", "STATUS", "TXN", "STORAGE"} {
		in := false
		for _, o := range own {
			if o == c {
				in = true
			}
		}
		if !in {
			return c
		}
	}
	return "NET_CTRL"
}

// c27Plan lists the mux configurations.  quick: for every route all subsets of its own API sets, each with and
// without one foreign set, base alphabet.  thorough: all 2^7 API-set configurations for every route with the
// base alphabet, plus the quick configurations with the rich alphabet.
func c27Plan(g *apimodel.Golden, thorough bool) []c27Mux {
	idx := map[string]int{}
	for i, s := range g.APISets {
		idx[s] = i
	}
	perRoute := map[int][]int{}
	for ri := range g.Routes {
		own := g.Routes[ri].OwnSets()
		f := foreignSet(own)
		for sub := 0; sub < 1<<uint(len(own)); sub++ {
			mask := 0
			for i, s := range own {
				if sub&(1<<uint(i)) != 0 {
					mask |= 1 << uint(idx[s])
				}
			}
			for _, m := range []int{mask, mask | 1<<uint(idx[f])} {
				dup := false
				for _, r := range perRoute[m] {
					if r == ri {
						dup = true
					}
				}
				if !dup {
					perRoute[m] = append(perRoute[m], ri)
				}
			}
		}
	}
	var plan []c27Mux
	emit := func(byMask map[int][]int, rich bool) {
		masks := []int{}
		for m := range byMask {
			masks = append(masks, m)
		}
		sort.Ints(masks)
		for _, m := range masks {
			for fl := 0; fl < 8; fl++ {
				plan = append(plan, c27Mux{Mask: m, CSRF: fl&1 != 0, Hdr: fl&2 != 0, Auth: fl&4 != 0, Rich: rich, Routes: byMask[m]})
			}
		}
	}
	if !thorough {
		emit(perRoute, false)
		return plan
	}
	all := map[int][]int{}
	for mask := 0; mask < 1<<uint(len(g.APISets)); mask++ {
		for ri := range g.Routes {
			all[mask] = append(all[mask], ri)
		}
	}
	emit(all, false)
	emit(perRoute, true)
	return plan
}

func (m c27Mux) cost(g *apimodel.Golden) int {
	per := len(hostVars(m.Hdr, m.Rich)) * len(originVars(m.Hdr, m.Rich)) * len(credVars(m.Auth, m.Rich))
	n := 0
	for _, ri := range m.Routes {
		rt := &g.Routes[ri]
		for _, meth := range c27Methods {
			n += per * len(tokenVars(m.CSRF, m.Rich, meth)) * len(ctypeVars(rt, meth)) * len(probePaths(rt))
		}
	}
	return n
}

func probePaths(rt *apimodel.Route) []string {
	if rt.Path == "/" {
		return []string{"/", "/api/v1/nonexistent", "/api/v2/nonexistent"}
	}
	return []string{rt.Path}
}

// ---- executing one configuration --------------------------------------------------------------------------

// c27Case identifies one request of the product (JSON-serialisable, replayable).
type c27Case struct {
	Sets    []string `json:"enabled_api_sets"`
	CSRF    bool     `json:"csrf_enabled"`
	Hdr     bool     `json:"header_check_enabled"`
	Auth    bool     `json:"credentials_configured"`
	Path    string   `json:"path"`
	Method  string   `json:"method"`
	Token   string   `json:"token_class"`
	Host    string   `json:"host_header"`
	HostC   string   `json:"host_class"`
	Origin  string   `json:"origin"`
	Referer string   `json:"referer"`
	OriginC string   `json:"origin_class"`
	Cred    string   `json:"credentials_class"`
	User    string   `json:"user,omitempty"`
	Pass    string   `json:"password,omitempty"`
	CType   string   `json:"content_type"`
	CTypeC  string   `json:"content_type_class"`

	Status   int      `json:"observed_status"`
	Reached  bool     `json:"observed_reached"`
	Gateway  string   `json:"gateway_method_called,omitempty"`
	ExpReach bool     `json:"expected_reach"`
	Failing  []string `json:"expected_failing_layers"`
	ExpStat  []int    `json:"expected_statuses"`
}

type c27Failure struct {
	Sig    string  `json:"sig"`
	Detail string  `json:"detail"`
	Case   c27Case `json:"case"`
}

type c27Result struct {
	Evals         int64                 `json:"evals"`
	Nontrivial    int64                 `json:"nontrivial"`
	Reached       int64                 `json:"reached"`
	Refused       int64                 `json:"refused"`
	DontCare      int64                 `json:"dontcare"`
	FirstLayerOK  int64                 `json:"first_layer_ok"`
	FirstLayerOff int64                 `json:"first_layer_off"`
	Status        map[string]int64      `json:"status"`
	Layer         map[string]int64      `json:"layer"`              // refusals per first failing layer (expected)
	Classes       map[string]int64      `json:"classes"`            // per (failing-layer-set) class
	ReachedRM     map[string]int64      `json:"reached_rm"`         // reached count per "METHOD path"
	GatewayCalls  map[string]int64      `json:"gateway_calls"`      // gateway method -> count
	TokenIssues   int64                 `json:"token_issues"`       // GET /api/v1/csrf performed by the harness
	BeforeIssue   int64                 `json:"before_first_issue"` // requests made before this process issued any token
	Configs       int                   `json:"configs"`            // mux configurations executed
	Singles       map[string]bool       `json:"singles"`            // layer:discriminator of single-layer bypasses
	Multi         map[string]c27Failure `json:"multi"`              // joined discriminators -> example, for multi-layer bypasses
	Failures      []c27Failure          `json:"failures"`
	Samples       []c27Case             `json:"samples"`
	StreamHash    uint64                `json:"stream_hash"`
	statusArr     [600]int64
	Nondet        string `json:"nondet,omitempty"`
	Broken        string `json:"broken,omitempty"`
	perSig        map[string]int
}

func newC27Result() *c27Result {
	return &c27Result{Status: map[string]int64{}, Layer: map[string]int64{}, Classes: map[string]int64{}, ReachedRM: map[string]int64{},
		GatewayCalls: map[string]int64{}, Singles: map[string]bool{}, Multi: map[string]c27Failure{}, perSig: map[string]int{}}
}

func (res *c27Result) fail(sig, detail string, c c27Case) {
	res.perSig[sig]++
	if res.perSig[sig] <= 3 {
		res.Failures = append(res.Failures, c27Failure{sig, detail, c})
	}
}

type c27Env struct {
	g   *apimodel.Golden
	fx  *c27Fixture
	gw  *api.VerifGateway
	res *c27Result
	h   interface {
		io.Writer
		Sum64() uint64
	}
}

var errStub = errors.New("verif: recording gateway stub")

func basicAuthHeader(u, p string) string {
	return "Basic " + base64.StdEncoding.EncodeToString([]byte(u+":"+p))
}

type c27Hdr struct{ origin, referer, token, auth string }

// serve sends one request to the mux and returns status, body, gateway method (if any), panic text.
func (e *c27Env) serve(mux *http.ServeMux, method, path, query, body, ctype, host string, hdr c27Hdr) (int, string, string, string) {
	u := &url.URL{Path: path, RawQuery: query}
	h := make(http.Header, 5)
	req := &http.Request{Method: method, URL: u, Proto: "HTTP/1.1", ProtoMajor: 1, ProtoMinor: 1, Header: h,
		Host: host, RemoteAddr: "192.0.2.7:40000", RequestURI: path}
	if body != "" {
		req.Body = io.NopCloser(strings.NewReader(body))
		req.ContentLength = int64(len(body))
	} else {
		req.Body = http.NoBody
	}
	if ctype != "" {
		h["Content-Type"] = []string{ctype}
	}
	if hdr.origin != "" {
		h["Origin"] = []string{hdr.origin}
	}
	if hdr.referer != "" {
		h["Referer"] = []string{hdr.referer}
	}
	if hdr.token != "" {
		h["X-Csrf-Token"] = []string{hdr.token}
	}
	if hdr.auth != "" {
		h["Authorization"] = []string{hdr.auth}
	}
	rec := httptest.NewRecorder()
	e.gw.Calls, e.gw.Last = 0, ""
	pan, msg := engine.Catch(func() { mux.ServeHTTP(rec, req) })
	if !pan {
		msg = ""
	} else if msg == "" {
		msg = "panic"
	}
	gwm := ""
	if e.gw.Calls > 0 {
		gwm = e.gw.Last
	}
	return rec.Code, rec.Body.String(), gwm, msg
}

type c27Tokens struct {
	expired, older, fresh string
}

// issue obtains a token from the node itself through GET /api/v1/csrf on this very mux.
func (e *c27Env) issue(mux *http.ServeMux, m c27Mux) (string, error) {
	hdr := c27Hdr{}
	if m.Auth {
		hdr.auth = basicAuthHeader(c27User, c27Pass)
	}
	st, body, _, pan := e.serve(mux, "GET", "/api/v1/csrf", "", "", "", c27Host, hdr)
	e.res.TokenIssues++
	if pan != "" || st != 200 {
		return "", fmt.Errorf("GET /api/v1/csrf: status %d panic %q body %q", st, pan, body)
	}
	var v struct {
		Token string `json:"csrf_token"`
	}
	if err := json.Unmarshal([]byte(body), &v); err != nil || v.Token == "" {
		return "", fmt.Errorf("GET /api/v1/csrf: body %q", body)
	}
	return v.Token, nil
}

func (e *c27Env) reissue(mux *http.ServeMux, m c27Mux, t *c27Tokens) error {
	var err error
	vtime.Advance(time.Second)
	if t.older, err = e.issue(mux, m); err != nil {
		return err
	}
	vtime.Advance(time.Second)
	if t.fresh, err = e.issue(mux, m); err != nil {
		return err
	}
	vtime.Advance(time.Second)
	return nil
}

func tokenValue(class string, t *c27Tokens) string {
	switch class {
	case apimodel.TokNone:
		return ""
	case apimodel.TokFresh:
		return t.fresh
	case apimodel.TokExpired:
		return t.expired
	case apimodel.TokOlder:
		return t.older
	case apimodel.TokGarbage:
		return "Z2FyYmFnZQ.Z2FyYmFnZQ"
	case apimodel.TokBadSig:
		if t.fresh == "" {
			return "x.y"
		}
		b := []byte(t.fresh)
		i := len(b) - 1
		if b[i] == 'A' {
			b[i] = 'B'
		} else {
			b[i] = 'A'
		}
		return string(b)
	case apimodel.TokTruncSig:
		return strings.Split(t.fresh, ".")[0] + "."
	case apimodel.TokForgedEmptyKey:
		return forgedToken(nil)
	case apimodel.TokForgedZeroKey:
		return forgedToken(make([]byte, 64))
	case apimodel.TokTampered:
		// a payload with a far later expiry, carried under the fresh token's signature
		parts := strings.Split(t.fresh, ".")
		sig := "x"
		if len(parts) == 2 {
			sig = parts[1]
		}
		payload := `{"Nonce":"AAAA","ExpiresAt":"2999-01-01T00:00:00Z"}`
		return base64.RawURLEncoding.EncodeToString([]byte(payload)) + "." + sig
	}
	return ""
}

// forgedToken is a token in the node's format that the CLIENT made: an unexpired payload under HMAC-SHA256 with a key the
// client can guess.  Only a node whose secret is that key would take it.
func forgedToken(key []byte) string {
	payload := []byte(`{"Nonce":"AAAA","ExpiresAt":"2999-01-01T00:00:00Z"}`)
	h := hmac.New(sha256.New, key)
	h.Write(payload)
	return base64.RawURLEncoding.EncodeToString(payload) + "." + base64.RawURLEncoding.EncodeToString(h.Sum(nil))
}

// beforeFirstIssue runs in a process that has not yet issued any token (every worker starts as one): all API sets on, token
// checking on, and every state-changing method of every route with the token classes that exist without an issued token.
func (e *c27Env) beforeFirstIssue() {
	m := c27Mux{Mask: 1<<uint(len(e.g.APISets)) - 1, CSRF: true}
	mux, mc := e.newMux(m)
	vtime.Set(time.Date(2026, 1, 1, 0, 0, 0, 0, time.UTC))
	var tok c27Tokens
	sets := maskSets(e.g, m.Mask)
	for ri := range e.g.Routes {
		rt := &e.g.Routes[ri]
		if rt.Path == "/api/v1/csrf" {
			continue // would issue a token
		}
		cn := e.fx.canon[rt.Path]
		for _, path := range probePaths(rt) {
			for _, method := range []string{"POST", "PUT", "DELETE"} {
				body, ctype := "", "application/json"
				switch {
				case rt.API == "v2":
					if method != "DELETE" {
						body = cn.json
					}
				case cn.json != "":
					body = cn.json
				default:
					body, ctype = cn.form, "application/x-www-form-urlencoded"
				}
				for _, tk := range []string{apimodel.TokNone, apimodel.TokGarbage, apimodel.TokForgedEmptyKey, apimodel.TokForgedZeroKey} {
					status, rbody, gwm, _ := e.serve(mux, method, path, cn.query, body, ctype, c27Host, c27Hdr{token: tokenValue(tk, &tok)})
					reached := gwm != "" || ownResponse(rt.Path, true, status, rbody)
					ex := e.g.Expect(rt, mc, apimodel.Request{Method: method, Token: tk, Host: c27Host, ContentType: ctype})
					e.res.BeforeIssue++
					if reached && !ex.Reach {
						c := c27Case{Sets: sets, CSRF: true, Path: path, Method: method, Token: tk, Host: c27Host, HostC: "configured", OriginC: "none", Cred: "none",
							CType: ctype, Status: status, Reached: reached, Gateway: gwm, ExpReach: ex.Reach, Failing: ex.Failing, ExpStat: ex.Statuses}
						e.res.fail("access:reached-but-must-be-refused:csrf:"+tk+":"+method+":before-first-issue",
							fmt.Sprintf("in a process that has not issued a token yet: %s %s with token class %s → status %d, reached", method, path, tk, status), c)
					}
				}
			}
		}
	}
}

func (e *c27Env) newMux(m c27Mux) (*http.ServeMux, apimodel.Config) {
	en := map[string]struct{}{}
	men := map[string]bool{}
	for _, s := range maskSets(e.g, m.Mask) {
		en[s] = struct{}{}
		men[s] = true
	}
	cfg := api.VerifMuxConfig{Host: c27Host, DisableCSRF: !m.CSRF, DisableHeaderCheck: !m.Hdr, DisableCSP: true,
		EnabledAPISets: en, HostWhitelist: []string{c27WLHost}}
	mc := apimodel.Config{Enabled: men, CSRF: m.CSRF, HeaderCheck: m.Hdr, Host: c27Host, Whitelist: []string{c27WLHost}}
	if m.Auth {
		cfg.Username, cfg.Password = c27User, c27Pass
		mc.AuthUser, mc.AuthPass = c27User, c27Pass
	}
	return api.VerifNewServerMux(cfg, e.gw), mc
}

func discriminator(layer string, c *c27Case) string {
	switch layer {
	case "auth":
		return "auth:" + c.Cred
	case "content_type":
		return "content_type:" + c.CTypeC
	case "host":
		return "host:" + c.HostC
	case "origin":
		return "origin:" + c.OriginC
	case "csrf":
		return "csrf:" + c.Token + ":" + c.Method
	case "method":
		return "method:" + c.Method + " " + c.Path
	case "api_set":
		return "api_set:" + c.Method + " " + c.Path
	}
	return layer
}

// runMux enumerates the whole variant product of one configuration.
func (e *c27Env) runMux(m c27Mux) error {
	mux, mc := e.newMux(m)
	res := e.res
	res.Configs++
	var tok c27Tokens
	vtime.Set(time.Date(2026, 1, 1, 0, 0, 0, 0, time.UTC))
	if m.CSRF {
		var err error
		if tok.expired, err = e.issue(mux, m); err != nil {
			return err
		}
		vtime.Advance(40 * time.Second) // lifetime is 30 s
		if err := e.reissue(mux, m, &tok); err != nil {
			return err
		}
	}
	hosts, origins, creds := hostVars(m.Hdr, m.Rich), originVars(m.Hdr, m.Rich), credVars(m.Auth, m.Rich)
	auths := make([]string, len(creds))
	for i, cv := range creds {
		if cv.Given {
			auths[i] = basicAuthHeader(cv.User, cv.Pass)
		} else if cv.Broken {
			auths[i] = "Basic !!!not-base64!!!"
		}
	}
	sets := maskSets(e.g, m.Mask)
	classKey := map[string]string{}
	var hb [4]byte
	mkCase := func(path, method, tk string, hv hostVar, ov originVar, cv credVar, ct ctypeVar, ctype string, status int, reached bool, gwm string, ex apimodel.Expect) c27Case {
		return c27Case{Sets: sets, CSRF: m.CSRF, Hdr: m.Hdr, Auth: m.Auth, Path: path, Method: method, Token: tk,
			Host: hv.Host, HostC: hv.Class, Origin: ov.Origin, Referer: ov.Referer, OriginC: ov.Class, Cred: cv.Class, User: cv.User, Pass: cv.Pass,
			CType: ctype, CTypeC: ct.Class, Status: status, Reached: reached, Gateway: gwm, ExpReach: ex.Reach, Failing: ex.Failing, ExpStat: ex.Statuses}
	}
	for _, ri := range m.Routes {
		rt := &e.g.Routes[ri]
		cn := e.fx.canon[rt.Path]
		for _, path := range probePaths(rt) {
			for _, method := range c27Methods {
				rmKey := method + " " + rt.Path
				toks := tokenVars(m.CSRF, m.Rich, method)
				for _, ct := range ctypeVars(rt, method) {
					body, ctype := "", ct.Value
					switch {
					case rt.API == "v2":
						if method != "GET" && method != "HEAD" && method != "DELETE" {
							body = cn.json
						}
					case cn.json != "":
						body, ctype = cn.json, "application/json"
					case method != "GET" && method != "HEAD":
						body, ctype = cn.form, "application/x-www-form-urlencoded"
					}
					for _, tk := range toks {
						for _, hv := range hosts {
							for _, ov := range origins {
								for ci, cv := range creds {
									hdr := c27Hdr{origin: ov.Origin, referer: ov.Referer, token: tokenValue(tk, &tok), auth: auths[ci]}
									status, rbody, gwm, pan := e.serve(mux, method, path, cn.query, body, ctype, hv.Host, hdr)
									reached := gwm != "" || ownResponse(rt.Path, m.CSRF, status, rbody)
									rq := apimodel.Request{Method: method, Token: tk, Host: hv.Host, Origin: ov.Origin, Referer: ov.Referer,
										AuthGiven: cv.Given, AuthBroken: cv.Broken, User: cv.User, Pass: cv.Pass, ContentType: ctype}
									ex := e.g.Expect(rt, mc, rq)
									res.Evals++
									hb[0], hb[1], hb[2] = byte(status), byte(status>>8), 0
									if reached {
										hb[2] = 1
									}
									e.h.Write(hb[:3])
									if status >= 0 && status < len(res.statusArr) {
										res.statusArr[status]++
									} else {
										res.statusArr[0]++
									}
									if gwm != "" {
										res.GatewayCalls[gwm]++
									}
									if reached {
										res.Reached++
										res.ReachedRM[rmKey]++
									} else {
										res.Refused++
									}
									if ex.DontCare {
										res.DontCare++
									}
									if len(ex.Failing) > 0 {
										res.Nontrivial++
										res.Layer[ex.Failing[0]]++
										var bits [8]byte
										for i, l := range ex.Failing {
											bits[i] = l[0] + l[len(l)-1]
										}
										bk := string(bits[:len(ex.Failing)])
										ck, ok := classKey[bk]
										if !ok {
											ck = strings.Join(ex.Failing, "+")
											classKey[bk] = ck
										}
										res.Classes[ck]++
										if !reached && !ex.DontCare {
											if status == e.g.Statuses[ex.Failing[0]] {
												res.FirstLayerOK++
											} else {
												res.FirstLayerOff++
											}
										}
									} else {
										res.Classes["all-conditions-hold"]++
									}
									if len(res.Samples) < 6 && (res.Evals%100003 == 1 || (len(res.Samples) < 3 && len(ex.Failing) == 1 && res.Evals%977 == 0)) {
										res.Samples = append(res.Samples, mkCase(path, method, tk, hv, ov, cv, ct, ctype, status, reached, gwm, ex))
									}
									ok := ex.Allowed(reached, status)
									if pan != "" && gwm == "" {
										ok = false // a panic before any gateway call is the handler's or a middleware's own
									}
									if !ok {
										c := mkCase(path, method, tk, hv, ov, cv, ct, ctype, status, reached, gwm, ex)
										e.classify(&c, pan)
									}
									if m.CSRF && reached && rt.Path == "/api/v1/csrf" {
										// the node has just issued a token to this request: per the README every earlier token is now
										// superseded, so obtain a new older/fresh pair before going on
										if err := e.reissue(mux, m, &tok); err != nil {
											return err
										}
									}
								}
							}
						}
					}
				}
			}
		}
	}
	return nil
}

func (e *c27Env) classify(c *c27Case, pan string) {
	res := e.res
	cfg := fmt.Sprintf("sets=%v csrf=%v headercheck=%v auth=%v", c.Sets, c.CSRF, c.Hdr, c.Auth)
	reqs := fmt.Sprintf("%s %s token=%s Host=%q Origin=%q Referer=%q credentials=%s(%q,%q) Content-Type=%q", c.Method, c.Path, c.Token, c.Host, c.Origin, c.Referer, c.Cred, c.User, c.Pass, c.CType)
	switch {
	case pan != "" && c.Gateway == "":
		res.fail("handler:panic-before-gateway:"+c.Path, fmt.Sprintf("%s [%s]: panic %s", reqs, cfg, pan), *c)
	case c.Reached && len(c.Failing) == 1:
		d := discriminator(c.Failing[0], c)
		res.Singles[d] = true
		res.fail("access:reached-but-must-be-refused:"+d,
			fmt.Sprintf("%s [%s] reached the endpoint (gateway call %q, status %d) although the %s condition fails; expected status %v", reqs, cfg, c.Gateway, c.Status, c.Failing[0], c.ExpStat), *c)
	case c.Reached:
		var ds []string
		for _, l := range c.Failing {
			ds = append(ds, discriminator(l, c))
		}
		k := strings.Join(ds, " & ")
		if _, ok := res.Multi[k]; !ok {
			res.Multi[k] = c27Failure{"access:reached-but-must-be-refused:" + k,
				fmt.Sprintf("%s [%s] reached the endpoint (gateway call %q, status %d) although %v fail", reqs, cfg, c.Gateway, c.Status, c.Failing), *c}
		}
	case c.ExpReach:
		res.Singles[fmt.Sprintf("spurious:%s %s:status-%d", c.Method, c.Path, c.Status)] = true
		res.fail(fmt.Sprintf("access:refused-although-all-conditions-hold:%s %s:status-%d", c.Method, c.Path, c.Status),
			fmt.Sprintf("%s [%s] was answered %d without reaching the endpoint although every condition of the statement holds", reqs, cfg, c.Status), *c)
	default:
		// refused, but with a status none of the failing conditions documents: every failing condition was passed over and
		// some other layer refused. This is a consequence of other findings when each component was also seen alone.
		var ds []string
		for _, l := range c.Failing {
			ds = append(ds, discriminator(l, c))
		}
		ds = append(ds, fmt.Sprintf("spurious:%s %s:status-%d", c.Method, c.Path, c.Status))
		k := strings.Join(ds, " & ")
		if _, ok := res.Multi[k]; !ok {
			res.Multi[k] = c27Failure{fmt.Sprintf("access:refused-with-undocumented-status:%s:status-%d", strings.Join(c.Failing, "+"), c.Status),
				fmt.Sprintf("%s [%s] was refused with %d; documented statuses for the failing conditions %v are %v", reqs, cfg, c.Status, c.Failing, c.ExpStat), *c}
		}
	}
}

// c27Replay re-executes one recorded case from scratch (fresh mux, fresh token choreography) and reports whether the
// observation is still rejected by the reference predicate.
func c27Replay(g *apimodel.Golden, fx *c27Fixture, c c27Case) bool {
	mask := 0
	for i, s := range g.APISets {
		for _, e := range c.Sets {
			if e == s {
				mask |= 1 << uint(i)
			}
		}
	}
	rt := g.Route(c.Path)
	if rt == nil {
		rt = g.Route("/")
	}
	m := c27Mux{Mask: mask, CSRF: c.CSRF, Hdr: c.Hdr, Auth: c.Auth, Rich: true}
	env := &c27Env{g: g, fx: fx, gw: &api.VerifGateway{Err: errStub}, res: newC27Result(), h: fnv.New64a()}
	mux, mc := env.newMux(m)
	var tok c27Tokens
	vtime.Set(time.Date(2026, 1, 1, 0, 0, 0, 0, time.UTC))
	if m.CSRF {
		var err error
		if tok.expired, err = env.issue(mux, m); err != nil {
			return false
		}
		vtime.Advance(40 * time.Second)
		if err := env.reissue(mux, m, &tok); err != nil {
			return false
		}
	}
	var cv credVar
	for _, x := range credVars(c.Auth, true) {
		if x.Class == c.Cred {
			cv = x
		}
	}
	hdr := c27Hdr{origin: c.Origin, referer: c.Referer, token: tokenValue(c.Token, &tok)}
	if cv.Given {
		hdr.auth = basicAuthHeader(cv.User, cv.Pass)
	} else if cv.Broken {
		hdr.auth = "Basic !!!not-base64!!!"
	}
	cn := fx.canon[rt.Path]
	body := ""
	switch {
	case rt.API == "v2":
		if c.Method != "GET" && c.Method != "HEAD" && c.Method != "DELETE" {
			body = cn.json
		}
	case cn.json != "":
		body = cn.json
	case c.Method != "GET" && c.Method != "HEAD":
		body = cn.form
	}
	status, rbody, gwm, pan := env.serve(mux, c.Method, c.Path, cn.query, body, c.CType, c.Host, hdr)
	reached := gwm != "" || ownResponse(rt.Path, m.CSRF, status, rbody)
	ex := g.Expect(rt, mc, apimodel.Request{Method: c.Method, Token: c.Token, Host: c.Host, Origin: c.Origin, Referer: c.Referer,
		AuthGiven: cv.Given, AuthBroken: cv.Broken, User: cv.User, Pass: cv.Pass, ContentType: c.CType})
	if pan != "" && gwm == "" {
		return true
	}
	return !ex.Allowed(reached, status) && status == c.Status && reached == c.Reached
}

// ---- worker ---------------------------------------------------------------------------------------------

type c27Job struct {
	Thorough  bool  `json:"thorough"`
	Shard     []int `json:"shard"` // indexes into the plan
	Selfcheck bool  `json:"selfcheck"`
}

func quiet() {
	logging.Disable()
	logging.SetLevel(logrus.PanicLevel)
}

func c27Worker(args []string) {
	quiet()
	debug.SetGCPercent(400)
	var job c27Job
	b, _ := io.ReadAll(os.Stdin)
	if err := json.Unmarshal(b, &job); err != nil {
		fmt.Println(`{"broken":"bad job"}`)
		return
	}
	res := c27RunShard(job)
	out, _ := json.Marshal(res)
	os.Stdout.Write(out)
}

func c27RunShard(job c27Job) *c27Result {
	res := newC27Result()
	g, err := apimodel.Load(filepath.Join(engine.Root, goldenTable))
	if err != nil {
		res.Broken = err.Error()
		return res
	}
	plan := c27Plan(g, job.Thorough)
	env := &c27Env{g: g, fx: newC27Fixture(), gw: &api.VerifGateway{Err: errStub}, res: res, h: fnv.New64a()}
	env.beforeFirstIssue()
	for n, pi := range job.Shard {
		if pi < 0 || pi >= len(plan) {
			res.Broken = "shard index out of plan"
			return res
		}
		if n == 0 && job.Selfcheck {
			// determinism self-check: the first configuration is executed twice and must give the same observation stream
			scratch := newC27Result()
			e2 := &c27Env{g: g, fx: env.fx, gw: env.gw, res: scratch, h: fnv.New64a()}
			if err := e2.runMux(plan[pi]); err != nil {
				res.Broken = err.Error()
				return res
			}
			h1 := e2.h.Sum64()
			e3 := &c27Env{g: g, fx: env.fx, gw: env.gw, res: newC27Result(), h: fnv.New64a()}
			if err := e3.runMux(plan[pi]); err != nil {
				res.Broken = err.Error()
				return res
			}
			if h1 != e3.h.Sum64() {
				res.Nondet = fmt.Sprintf("configuration %d gave two different observation streams", pi)
			}
		}
		if err := env.runMux(plan[pi]); err != nil {
			res.Broken = fmt.Sprintf("configuration %d (%s sets=%v): %v", pi, plan[pi].flags(), maskSets(g, plan[pi].Mask), err)
			return res
		}
	}
	res.StreamHash = env.h.Sum64()
	for st, n := range res.statusArr {
		if n > 0 {
			res.Status[fmt.Sprint(st)] += n
		}
	}
	return res
}

// ---- main ------------------------------------------------------------------------------------------------

func c27(r *engine.Run) {
	quiet()
	if old, _ := filepath.Glob(filepath.Join(engine.Root, "replays", "C27-*.json")); len(old) > 0 {
		for _, f := range old {
			os.Remove(f) // replay files of an earlier run of this check
		}
	}
	g, err := apimodel.Load(filepath.Join(engine.Root, goldenTable))
	if err != nil {
		r.Broken("golden table: %v", err)
		r.Finish(nil)
	}

	// 1. route table of the current tree vs golden table
	src := effectiveSource("src/api/http.go")
	code, problems, err := extractRoutes(src)
	if err != nil {
		r.Broken("route extraction from %s: %v", src, err)
		r.Finish(nil)
	}
	tableDiffs := c27CompareTables(r, g, code, problems)

	// 1b. the mux really built from that source registers exactly these patterns
	gw := &api.VerifGateway{Err: errStub}
	probe := api.VerifNewServerMux(api.VerifMuxConfig{Host: c27Host, DisableCSRF: true, DisableHeaderCheck: true, DisableCSP: true, EnabledAPISets: map[string]struct{}{}}, gw)
	pats := muxPatterns(probe)
	if pats == nil {
		r.Assumptions = append(r.Assumptions, "net/http.ServeMux private pattern list not readable with this Go version: registered patterns were checked per route through mux.Handler only")
	} else {
		want := map[string]bool{}
		for _, c := range code {
			want[c.Path] = true
		}
		for _, p := range pats {
			if !want[p] {
				r.Failf("route-table:registered-on-mux-but-not-in-extracted-table:"+p, p, "pattern %q is registered on the real mux but was not found by the AST extraction of newServerMux", p)
			}
			delete(want, p)
		}
		for p := range want {
			r.Failf("route-table:extracted-but-not-registered:"+p, p, "route %q is in newServerMux's source but not registered on the real mux", p)
		}
	}
	for _, c := range code {
		req := httptest.NewRequest("GET", "http://"+c27Host+c.Path, nil)
		if _, pat := probe.Handler(req); pat != c.Path {
			r.Failf("route-table:path-not-routed-to-its-pattern:"+c.Path, c.Path, "GET %s is routed to pattern %q", c.Path, pat)
		}
	}

	// 2. the product, sharded over worker subprocesses (each owns its virtual clock and the package-level token secret)
	plan := c27Plan(g, r.Thorough())
	nw := runtime.NumCPU()
	if nw > 16 {
		nw = 16
	}
	if nw > len(plan) {
		nw = len(plan)
	}
	type bin struct {
		cost int
		idx  []int
	}
	order := make([]int, len(plan))
	for i := range order {
		order[i] = i
	}
	sort.SliceStable(order, func(a, b int) bool { return plan[order[a]].cost(g) > plan[order[b]].cost(g) })
	bins := make([]bin, nw)
	total := 0
	for _, pi := range order {
		c := plan[pi].cost(g)
		total += c
		best := 0
		for b := range bins {
			if bins[b].cost < bins[best].cost {
				best = b
			}
		}
		bins[best].cost += c
		bins[best].idx = append(bins[best].idx, pi)
	}
	deadline := time.Duration(r.Pick(600, 3000)) * time.Second
	results := make([]*c27Result, nw)
	engine.ParForN(nw, nw, func(i int) {
		sort.Ints(bins[i].idx)
		job, _ := json.Marshal(c27Job{Thorough: r.Thorough(), Shard: bins[i].idx, Selfcheck: true})
		wr := engine.RunWorker(job, 4<<20, deadline, "c27")
		res := newC27Result()
		if wr.TimedOut || wr.Died {
			res.Broken = fmt.Sprintf("worker %d died/timed out (timeout=%v exit=%d): %s", i, wr.TimedOut, wr.ExitCode, tail(string(wr.Stderr), 400))
		} else if err := json.Unmarshal(wr.Stdout, res); err != nil {
			res.Broken = fmt.Sprintf("worker %d output: %v: %s", i, err, tail(string(wr.Stdout), 200))
		}
		results[i] = res
	})

	// 3. merge
	tot := newC27Result()
	var hashes []uint64
	for _, res := range results {
		if res.Broken != "" {
			r.Broken("%s", res.Broken)
		}
		if res.Nondet != "" {
			r.Broken("nondeterminism: %s", res.Nondet)
		}
		tot.Evals += res.Evals
		tot.Nontrivial += res.Nontrivial
		tot.Reached += res.Reached
		tot.Refused += res.Refused
		tot.DontCare += res.DontCare
		tot.FirstLayerOK += res.FirstLayerOK
		tot.FirstLayerOff += res.FirstLayerOff
		tot.TokenIssues += res.TokenIssues
		tot.BeforeIssue += res.BeforeIssue
		tot.Configs += res.Configs
		for k, v := range res.Status {
			tot.Status[k] += v
		}
		for k, v := range res.Layer {
			tot.Layer[k] += v
		}
		for k, v := range res.Classes {
			tot.Classes[k] += v
		}
		for k, v := range res.ReachedRM {
			tot.ReachedRM[k] += v
		}
		for k, v := range res.GatewayCalls {
			tot.GatewayCalls[k] += v
		}
		for k := range res.Singles {
			tot.Singles[k] = true
		}
		for k, v := range res.Multi {
			if _, ok := tot.Multi[k]; !ok {
				tot.Multi[k] = v
			}
		}
		tot.Failures = append(tot.Failures, res.Failures...)
		if len(tot.Samples) < 6 {
			tot.Samples = append(tot.Samples, res.Samples...)
		}
		hashes = append(hashes, res.StreamHash)
	}
	fx := newC27Fixture()
	sort.SliceStable(tot.Failures, func(i, j int) bool { return tot.Failures[i].Case.Gateway != "" && tot.Failures[j].Case.Gateway == "" })
	for _, f := range tot.Failures {
		f := f
		repro := func() bool { return c27Replay(g, fx, f.Case) }
		if strings.HasSuffix(f.Sig, ":before-first-issue") {
			// needs a process that has issued no token: a fresh worker with an empty shard runs just that part
			repro = func() bool {
				job, _ := json.Marshal(c27Job{Thorough: r.Thorough()})
				wr := engine.RunWorker(job, 4<<20, 300*time.Second, "c27")
				res := newC27Result()
				if wr.TimedOut || wr.Died || json.Unmarshal(wr.Stdout, res) != nil {
					return false
				}
				for _, f2 := range res.Failures {
					if f2.Sig == f.Sig {
						return true
					}
				}
				return false
			}
		}
		r.Fail(engine.Failure{Sig: f.Sig, Detail: f.Detail, Case: f.Case, Repro: repro})
	}
	// multi-layer bypasses are consequences of single-layer ones when every component was itself seen alone
	mk := []string{}
	for k := range tot.Multi {
		mk = append(mk, k)
	}
	sort.Strings(mk)
	explained := 0
	for _, k := range mk {
		all := true
		for _, d := range strings.Split(k, " & ") {
			if !tot.Singles[d] {
				all = false
			}
		}
		if all {
			explained++
			continue
		}
		f := tot.Multi[k]
		r.Fail(engine.Failure{Sig: f.Sig, Detail: f.Detail + " (components: " + k + ")", Case: f.Case, Repro: func() bool { return c27Replay(g, fx, f.Case) }})
	}

	// 4. vacuity guards
	if tot.Evals != int64(total) && r.ID != "" {
		r.Broken("executed %d requests but the plan has %d", tot.Evals, total)
	}
	servedRM, neverReached := 0, []string{}
	for i := range g.Routes {
		rt := &g.Routes[i]
		for _, m := range c27Methods {
			if _, served := rt.Sets(m); served {
				servedRM++
				if tot.ReachedRM[m+" "+rt.Path] == 0 {
					neverReached = append(neverReached, m+" "+rt.Path)
				}
			}
		}
	}
	if len(neverReached) > 0 && len(tot.Failures) == 0 {
		r.Broken("vacuous: never reached %v", neverReached)
	}
	for _, l := range apimodel.Layers {
		if tot.Layer[l] == 0 {
			r.Broken("vacuous: no request was expected to fail first at layer %s", l)
		}
	}
	if tot.Reached == 0 || tot.Refused == 0 {
		r.Broken("vacuous: reached=%d refused=%d", tot.Reached, tot.Refused)
	}
	if len(tot.GatewayCalls) < 40 {
		r.Broken("vacuous: only %d distinct gateway methods were called", len(tot.GatewayCalls))
	}

	r.Assumptions = append(r.Assumptions,
		"reach = the recording Gatewayer (generated from the current interface) was called, or, for the 6 handlers that never use the gateway (csrf, version, newSeed, seed/verify, address/verify, index), the endpoint's own success response was written",
		"golden table spec/api_routes.json was transcribed from src/api/README.md; rows the README omits (wallet/createTemp, transactions/num, API set of /api/v2/transactions, index '/') are inferred and marked documented=false",
		"a request failing several conditions may be refused with the documented status of any of them (the README fixes no order); agreement with the outermost-first order is reported as first_layer_agreement",
		"credentials sent to a node that has none configured: the statement does not decide; both 401 and normal service are accepted (counted as dont_care)",
		"configured interface is "+c27Host+" (loopback, so the Host check is active), whitelist ["+c27WLHost+"], credentials "+c27User+"/"+c27Pass+"; GUI disabled; TLS not modelled",
		fmt.Sprintf("API-set configurations: %s", map[bool]string{true: "all 2^7 for every route", false: "per route all subsets of its own sets, each with and without one foreign set"}[r.Thorough()]),
	)
	sort.Slice(hashes, func(i, j int) bool { return hashes[i] < hashes[j] })
	nodePath := c27NodePath(r, g, engine.NewCounter())
	r.Finish(engine.Coverage{
		"node_configuration_path": nodePath,
		"evaluations":             tot.Evals,
		"distinct_nontrivial":     tot.Nontrivial,
		"rule":                    "requests (each a distinct (route, method, API-set configuration, csrf/header/auth flags, token, Host, Origin/Referer, credentials, Content-Type) tuple, evaluated once) for which at least one access-control condition of the reference predicate fails",
		"exhaustive":              true,
		"samples":                 tot.Samples,
		"outcome_histogram":       map[string]interface{}{"reached": tot.Reached, "refused": tot.Refused, "status": tot.Status},
		"expected_first_failing":  tot.Layer,
		"failing_layer_classes":   len(tot.Classes),
		"first_layer_agreement":   map[string]int64{"refused_with_status_of_outermost_failing_layer": tot.FirstLayerOK, "refused_with_status_of_another_failing_layer": tot.FirstLayerOff},
		"dont_care":               tot.DontCare,
		"mux_configurations":      tot.Configs,
		"tokens_issued_by_node":   tot.TokenIssues,
		"requests_before_the_first_token_issue_of_a_process": tot.BeforeIssue,
		"gateway_methods_called":                             len(tot.GatewayCalls),
		"gateway_methods_total":                              api.VerifGatewayMethods,
		"served_route_methods":                               servedRM,
		"multi_layer_bypasses":                               map[string]int{"distinct": len(tot.Multi), "explained_by_single_layer_findings": explained},
		"route_table":                                        map[string]interface{}{"golden_routes": len(g.Routes), "code_routes": len(code), "differences": tableDiffs, "source": src, "mux_patterns": len(pats), "readme_notes": g.ReadmeNotes},
		"alphabet": map[string]interface{}{"methods": len(c27Methods), "routes": len(g.Routes), "api_set_masks": len(plan) / 8,
			"token_classes": len(tokenVars(true, true, "POST")), "hosts_base": len(hostVars(true, false)), "hosts_rich": len(hostVars(true, true)),
			"origin_referer_base": len(originVars(true, false)), "origin_referer_rich": len(originVars(true, true)),
			"credentials_base": len(credVars(true, false)) + len(credVars(false, false)), "credentials_rich": len(credVars(true, true)) + len(credVars(false, true)), "content_types_v2_post": 5},
		"workers": nw,
	})
}

func tail(s string, n int) string {
	if len(s) > n {
		return s[len(s)-n:]
	}
	return s
}

// c27CompareTables reports every difference between the golden table and the table extracted from http.go.
func c27CompareTables(r *engine.Run, g *apimodel.Golden, code []codeRoute, problems []string) []string {
	var diffs []string
	add := func(sig string, c interface{}, format string, a ...interface{}) {
		d := fmt.Sprintf(format, a...)
		diffs = append(diffs, d)
		r.Failf(sig, c, "%s", d)
	}
	for _, p := range problems {
		add("route-table:unreadable-registration", p, "newServerMux: %s", p)
	}
	byPath := map[string]*codeRoute{}
	for i := range code {
		if _, dup := byPath[code[i].Path]; dup {
			add("route-table:registered-twice:"+code[i].Path, code[i], "%s is registered twice in newServerMux", code[i].Path)
		}
		byPath[code[i].Path] = &code[i]
	}
	norm := func(s []string) string {
		c := append([]string{}, s...)
		sort.Strings(c)
		return strings.Join(c, ",")
	}
	for i := range g.Routes {
		rt := &g.Routes[i]
		c, ok := byPath[rt.Path]
		if !ok {
			add("route-table:documented-endpoint-not-registered:"+rt.Path, rt.Path, "%s (%s) is documented but not registered in newServerMux", rt.Path, rt.Doc)
			continue
		}
		delete(byPath, rt.Path)
		if c.API != rt.API {
			add("route-table:api-version-differs:"+rt.Path, rt.Path, "%s: registered as %s, documented as %s", rt.Path, c.API, rt.API)
		}
		allAny := true
		for _, s := range rt.Methods {
			if s != nil {
				allAny = false
			}
		}
		if c.Methods == nil {
			if !allAny {
				add("route-table:registered-without-api-set-table:"+rt.Path, rt.Path, "%s is registered without an API-set table (always enabled) but documented with sets %v (%s)", rt.Path, rt.Methods, rt.Doc)
			}
			continue
		}
		if allAny {
			add("route-table:api-sets-differ:"+rt.Path, rt.Path, "%s is documented as always enabled (%s) but registered with %v", rt.Path, rt.Doc, c.Methods)
			continue
		}
		for m, sets := range rt.Methods {
			cs, ok := c.Methods[m]
			if !ok {
				add("route-table:documented-method-not-served:"+m+" "+rt.Path, rt.Path, "%s %s is documented (%s) but the method is not in the registered table %v", m, rt.Path, rt.Doc, c.Methods)
				continue
			}
			if norm(cs) != norm(sets) {
				add("route-table:api-sets-differ:"+m+" "+rt.Path, map[string]interface{}{"path": rt.Path, "method": m, "documented": sets, "registered": cs},
					"%s %s: documented API sets %v (%s), registered API sets %v (http.go line %d)", m, rt.Path, sets, rt.Doc, cs, c.Line)
			}
		}
		for m, cs := range c.Methods {
			if _, ok := rt.Methods[m]; !ok {
				add("route-table:undocumented-method-served:"+m+" "+rt.Path, rt.Path, "%s %s is served (sets %v) but not documented (%s)", m, rt.Path, cs, rt.Doc)
			}
		}
	}
	rest := []string{}
	for p := range byPath {
		rest = append(rest, p)
	}
	sort.Strings(rest)
	for _, p := range rest {
		add("route-table:registered-endpoint-not-in-golden-table:"+p, p, "%s is registered in newServerMux (line %d, %v) but is not in the golden table", p, byPath[p].Line, byPath[p].Methods)
	}
	return diffs
}

var _ = filepath.Join
