#!/bin/bash
# Run by ./run after ovgen (cwd = /verif, go env exported): generates the recording Gatewayer stub from the
# current /repo/src/api interfaces and adds it to the overlay of this build directory.
B=$1
ROOT=$(cd "$(dirname "$0")/../.." && pwd)
cd "$ROOT" || exit 2
go build -o "$ROOT/.build/apigen" ./checks/api/gen || { echo "CHECK-BROKEN: api/gen build" >&2; exit 2; }
"$ROOT/.build/apigen" "$B" >/dev/null || exit 2
