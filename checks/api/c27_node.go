package main

import (
	"fmt"
	"net/http"
	"net/http/httptest"
	"net/url"
	"os"
	"strings"

	"github.com/skycoin/skycoin/src/api"
	"github.com/skycoin/skycoin/src/fiber"
	"github.com/skycoin/skycoin/src/skycoin"

	"verif/engine"
	apimodel "verif/model/api"
)

// C27 part N — the node's own configuration path.
//
// The main product builds the mux from a configuration the harness writes itself.  A node builds it from command-line
// settings: skycoin.Config.postProcess turns the flag strings into API sets and a host whitelist, Coin.createGUI hands them to
// api.Create.  Here the API server is obtained exactly that way (export VerifNodeAPIServer) for a set of node
// configurations, and the full product Host × Origin/Referer × method of the access predicate is run on two endpoints that
// need no gateway; the expected verdict comes from the same reference predicate, fed with what the SETTINGS mean (the
// whitelist is the list of non-empty names the operator wrote).
func c27NodePath(r *engine.Run, g *apimodel.Golden, oc *engine.Counter) map[string]interface{} {
	dataDir, err := os.MkdirTemp(engine.Scratch(), "c27node")
	if err != nil {
		r.Broken("scratch: %v", err)
		return nil
	}
	defer os.RemoveAll(dataDir)
	base := skycoin.NewNodeConfig("", fiber.NodeConfig{
		CoinName:            "skycoin",
		GenesisSignatureStr: "eb10468d10054d15f2b6f8946cd46797779aa20a7617ceb4be884189f219bc9a164e56a5b9f7bec392a804ff3740210348d73db77a37adb542a8e08d429ac92700",
		GenesisAddressStr:   "2jBbGxZRGoQG1mqhPBnXnLTxK6oxsTf8os6",
		GenesisCoinVolume:   100000000000000,
		GenesisTimestamp:    1426562704,
		BlockchainPubkeyStr: "0328c576d3f420e7682058a981173a4b374c7cc5ff55bf394d3cf57059bbe6456a",
		Port:                6000,
		WebInterfacePort:    6420,
		DataDirectory:       dataDir,

		UnconfirmedBurnFactor: 10, UnconfirmedMaxTransactionSize: 32768, UnconfirmedMaxDropletPrecision: 3,
		CreateBlockBurnFactor: 10, CreateBlockMaxTransactionSize: 32768, CreateBlockMaxDropletPrecision: 3,
		MaxBlockTransactionsSize: 32768,

		DisplayName: "Skycoin", Ticker: "SKY", CoinHoursName: "Coin Hours", CoinHoursNameSingular: "Coin Hour", CoinHoursTicker: "SCH",
		QrURIPrefix: "skycoin", ExplorerURL: "https://explorer.skycoin.com", VersionURL: "https://version.skycoin.com/skycoin/version.txt", Bip44Coin: 8000,
	})
	base.RegisterFlags() // sets the flag-backed fields to their defaults, as the node's init() does (no flags are parsed)
	type variant struct {
		name string
		mod  func(n *skycoin.NodeConfig)
		wl   []string
		hdr  bool
	}
	variants := []variant{
		{"default", func(n *skycoin.NodeConfig) {}, nil, true},
		{"host-whitelist=one-name", func(n *skycoin.NodeConfig) { n.HostWhitelist = c27WLHost }, []string{c27WLHost}, true},
		{"host-whitelist=two-names", func(n *skycoin.NodeConfig) { n.HostWhitelist = c27WLHost + ",other.example:1" }, []string{c27WLHost, "other.example:1"}, true},
		{"disable-header-check", func(n *skycoin.NodeConfig) { n.DisableHeaderCheck = true }, nil, false},
		{"enable-all-api-sets", func(n *skycoin.NodeConfig) { n.EnableAllAPISets = true }, nil, true},
	}
	evals := 0
	for _, v := range variants {
		n := base
		v.mod(&n)
		var srv *api.Server
		pan, msg := engine.Catch(func() { srv, err = skycoin.VerifNodeAPIServer(n) })
		if pan || err != nil {
			r.Broken("node configuration %s: the node's own API server could not be created: %v %s", v.name, err, msg)
			continue
		}
		own := srv.Addr()
		h := api.VerifServerHandler(srv)
		cfg := apimodel.Config{Enabled: map[string]bool{}, CSRF: true, HeaderCheck: v.hdr, Host: own, Whitelist: v.wl}
		for _, s := range g.APISets {
			cfg.Enabled[s] = true // the two endpoints used here belong to no API set
		}
		hosts := []struct{ class, v string }{{"own", own}, {"whitelisted", c27WLHost}, {"foreign", "evil.example"}, {"empty-host", ""}}
		origins := []originVar{
			{"none", "", ""}, {"origin-same", "http://" + own, ""}, {"origin-whitelisted", "http://" + c27WLHost, ""}, {"origin-foreign", "http://evil.example", ""},
			{"origin-null", "null", ""}, {"origin-file", "file://", ""}, {"origin-empty-host-with-path", "http:///x", ""},
			{"referer-about-blank", "", "about:blank"}, {"referer-relative", "", "/index.html"}, {"referer-same", "", "http://" + own + "/"}, {"referer-foreign", "", "http://evil.example/"},
			{"referer-null", "", "null"},
		}
		for _, path := range []string{"/api/v1/version", "/api/v1/csrf"} {
			rt := g.Route(path)
			if rt == nil {
				r.Broken("golden table has no route %s", path)
				continue
			}
			for _, method := range []string{"GET", "POST", "HEAD"} {
				for _, hv := range hosts {
					for _, ov := range origins {
						req := &http.Request{Method: method, URL: &url.URL{Path: path}, Proto: "HTTP/1.1", ProtoMajor: 1, ProtoMinor: 1, Header: http.Header{},
							Host: hv.v, RemoteAddr: "192.0.2.7:40000", RequestURI: path, Body: http.NoBody}
						if ov.Origin != "" {
							req.Header.Set("Origin", ov.Origin)
						}
						if ov.Referer != "" {
							req.Header.Set("Referer", ov.Referer)
						}
						rec := httptest.NewRecorder()
						cs := map[string]interface{}{"node_configuration": v.name, "method": method, "path": path, "host": hv.class, "origin_referer": ov.Class}
						if pan, msg := engine.Catch(func() { h.ServeHTTP(rec, req) }); pan {
							r.Failf("node-configuration-path:panic", cs, "%s %s [%s]: %s", method, path, v.name, msg)
							continue
						}
						evals++
						body := rec.Body.String()
						reached := ownResponse(path, true, rec.Code, body)
						ex := g.Expect(rt, cfg, apimodel.Request{Method: method, Token: apimodel.TokNone, Host: hv.v, Origin: ov.Origin, Referer: ov.Referer})
						oc.Add(fmt.Sprintf("node-path:%s:reach=%v", v.name, reached))
						if !ex.Allowed(reached, rec.Code) {
							what := "refused-but-must-be-served"
							layer := ""
							if reached {
								what = "reached-but-must-be-refused"
								if len(ex.Failing) > 0 {
									layer = ":" + ex.Failing[0]
								}
							}
							r.Failf("access:"+what+layer+":node-configuration-path:"+ov.Class, cs,
								"node configuration %q (made by the node's own postProcess/createGUI): %s %s with Host %q Origin %q Referer %q → status %d (reached=%v), the access rules say reach=%v failing=%v statuses=%v",
								v.name, method, path, hv.v, ov.Origin, ov.Referer, rec.Code, reached, ex.Reach, ex.Failing, ex.Statuses)
						}
					}
				}
			}
		}
		api.VerifServerClose(srv)
	}
	setEvals, setVariants := c27NodeAPISets(r, g, oc, base)
	return map[string]interface{}{
		"api_set_spellings": map[string]interface{}{
			"what":                "the API-set settings (-enable-api-sets, -disable-api-sets, -enable-all-api-sets) in every accepted spelling (upper/lower/mixed case, blanks around the names) × one GET endpoint of every API set: refused as disabled exactly when the settings name it disabled",
			"node_configurations": setVariants,
			"requests":            setEvals,
		},
		"what":                "API server created by skycoin.Config.postProcess + Coin.createGUI for each node configuration; Host × Origin/Referer × method on /api/v1/version and /api/v1/csrf vs the reference access predicate",
		"node_configurations": len(variants),
		"requests":            evals,
	}
}

// c27NodeAPISets: what the operator WROTE decides which API sets are on.  validateAPISets accepts a name in any case and with
// blanks around it, so every accepted spelling must have the effect of the name it was accepted as.
func c27NodeAPISets(r *engine.Run, g *apimodel.Golden, oc *engine.Counter, base skycoin.NodeConfig) (evals, nvariants int) {
	// the sets -enable-all-api-sets turns on (documented: every set but the insecure and deprecated ones)
	all := map[string]bool{"READ": true, "STATUS": true, "WALLET": true, "TXN": true, "NET_CTRL": true, "STORAGE": true}
	type variant struct {
		enableAll       bool
		enable, disable string
	}
	spell := func(names []string, style int) string {
		out := make([]string, len(names))
		for i, n := range names {
			switch style {
			case 0:
				out[i] = n
			case 1:
				out[i] = strings.ToLower(n)
			case 2:
				out[i] = n[:1] + strings.ToLower(n[1:])
			case 3:
				out[i] = " " + n
			case 4:
				out[i] = n + " "
			}
		}
		return strings.Join(out, ",")
	}
	lists := [][]string{{}, {"WALLET"}, {"READ", "WALLET"}, {"STATUS", "STORAGE", "NET_CTRL"}, {"INSECURE_WALLET_SEED", "TXN"}}
	var variants []variant
	for _, ea := range []bool{false, true} {
		for _, en := range lists {
			for _, dis := range lists {
				for style := 0; style < 5; style++ {
					if style > 0 && len(en) == 0 && len(dis) == 0 {
						continue
					}
					variants = append(variants, variant{ea, spell(en, style), spell(dis, style)})
				}
			}
		}
	}
	// one GET probe per API set: a route served for GET whose only set is that one
	probes := map[string]string{}
	for i := range g.Routes {
		rt := &g.Routes[i]
		sets, ok := rt.Sets("GET")
		if !ok || len(sets) != 1 || strings.Contains(rt.Path, "{") {
			continue
		}
		if _, have := probes[sets[0]]; !have {
			probes[sets[0]] = rt.Path
		}
	}
	norm := func(list string) map[string]bool {
		m := map[string]bool{}
		for _, k := range strings.Split(list, ",") {
			if k = strings.ToUpper(strings.TrimSpace(k)); k != "" {
				m[k] = true
			}
		}
		return m
	}
	for _, v := range variants {
		n := base
		n.EnableAllAPISets, n.EnabledAPISets, n.DisabledAPISets = v.enableAll, v.enable, v.disable
		name := fmt.Sprintf("enable-all-api-sets=%v enable-api-sets=%q disable-api-sets=%q", v.enableAll, v.enable, v.disable)
		var srv *api.Server
		var err error
		pan, msg := engine.Catch(func() { srv, err = skycoin.VerifNodeAPIServer(n) })
		if pan || err != nil {
			r.Broken("node configuration %s: the node's own API server could not be created: %v %s", name, err, msg)
			continue
		}
		nvariants++
		own := srv.Addr()
		h := api.VerifServerHandler(srv)
		en, dis := norm(v.enable), norm(v.disable)
		for _, set := range g.APISets {
			path, ok := probes[set]
			if !ok {
				continue
			}
			want := (en[set] || (v.enableAll && all[set])) && !dis[set]
			req := &http.Request{Method: "GET", URL: &url.URL{Path: path}, Proto: "HTTP/1.1", ProtoMajor: 1, ProtoMinor: 1, Header: http.Header{},
				Host: own, RemoteAddr: "192.0.2.7:40000", RequestURI: path, Body: http.NoBody}
			rec := httptest.NewRecorder()
			// the server has no gateway: an endpoint that gets past the API-set gate may panic on it, which is "not refused" here
			engine.Catch(func() { h.ServeHTTP(rec, req) })
			evals++
			refused := rec.Code == 403 && strings.Contains(rec.Body.String(), "Endpoint is disabled")
			oc.Add(fmt.Sprintf("node-api-sets:%s:enabled=%v", set, !refused))
			cs := map[string]interface{}{"node_configuration": name, "api_set": set, "probe": "GET " + path}
			if !want && !refused {
				r.Failf("access:reached-but-must-be-refused:api_set:node-configuration-path:"+set, cs,
					"node started with %s: GET %s (API set %s, which these settings leave disabled) is not refused as disabled (status %d)", name, path, set, rec.Code)
			} else if want && refused {
				r.Failf("access:refused-but-must-be-served:api_set:node-configuration-path:"+set, cs,
					"node started with %s: GET %s (API set %s, which these settings enable) is refused as disabled", name, path, set)
			}
		}
		api.VerifServerClose(srv)
	}
	return
}
