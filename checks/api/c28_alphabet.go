package main

import (
	"encoding/json"
	"fmt"
	"net/url"
	"sort"
	"strconv"
	"strings"

	apimodel "verif/model/api"
)

// ---- typed value sets ---------------------------------------------------------------------------------------------
//
// Every parameter of the golden table has a type; a type is a finite list of (class, value).  The FIRST entry is the
// base value (a valid, accepted one); "absent" means the parameter is not sent at all.  Values that depend on the
// node's state come from the fixture manifest.  Classes marked danger run in their own worker with a deadline.

type pval struct {
	Class  string
	Val    string // text value (query / form / JSON string)
	Raw    string // raw JSON literal, when set it replaces the JSON string of Val in JSON bodies
	Absent bool
	Danger bool
}

func pv(class, val string) pval  { return pval{Class: class, Val: val} }
func raw(class, lit string) pval { return pval{Class: class, Raw: lit, Val: lit} }

var absent = pval{Class: "absent", Absent: true}

const (
	two64m1 = "18446744073709551615"
	two64   = "18446744073709551616"
	two63   = "9223372036854775808"
)

func badChecksum(a string) string {
	b := []byte(a)
	i := len(b) - 1
	if b[i] == '2' {
		b[i] = '3'
	} else {
		b[i] = '2'
	}
	return string(b)
}

func unknownHash(tag string) string {
	// a well-formed hash that is in no index
	s := fmt.Sprintf("%064x", 0)
	h := []byte(s)
	for i, c := range []byte(tag) {
		h[i%64] = "0123456789abcdef"[int(c)%16]
	}
	h[63] = 'e'
	return string(h)
}

// valueSet returns the value set of a parameter type for a fixture.
func valueSet(typ string, f *fxInfo) []pval {
	opt := func(xs ...pval) []pval { // drop values the state cannot construct
		var out []pval
		for _, x := range xs {
			if x.Absent || !strings.Contains(x.Val, "\x00NONE") {
				out = append(out, x)
			}
		}
		return out
	}
	orNone := func(s string) string {
		if s == "" {
			return "\x00NONE"
		}
		return s
	}
	switch typ {
	case "addresses":
		return []pval{pv("known", f.GenesisAddr), absent, pv("empty", ""), pv("wallet-address", f.PlainAddrs[0]), pv("two-known", f.KnownAddr+","+f.PlainAddrs[1]),
			pv("unknown", f.UnknownAddr), pv("bad-checksum", badChecksum(f.KnownAddr)), pv("garbage", "xyz"), pv("duplicated", f.KnownAddr+","+f.KnownAddr),
			pv("200-addresses", strings.Join(f.ManyAddrs, ",")), pv("trailing-comma", f.KnownAddr+","), pv("known+bad", f.KnownAddr+",zz")}
	case "address":
		return []pval{pv("known", f.KnownAddr), absent, pv("empty", ""), pv("wallet-address", f.PlainAddrs[1]), pv("unknown", f.UnknownAddr),
			pv("bad-checksum", badChecksum(f.KnownAddr)), pv("garbage", "xyz"), pv("null-address", "1111111111111111111111111"), pv("two", f.KnownAddr+","+f.GenesisAddr)}
	case "uxids":
		return opt(pv("unspent", f.UxUnspent), absent, pv("empty", ""), pv("spent", orNone(f.UxSpent)), pv("spent-by-pending", f.UxPendingIn), pv("created-by-pending", f.UxPendingOut),
			pv("unknown", unknownHash("ux")), pv("malformed", "zz"), pv("short", "abcd"), pv("duplicated", f.UxUnspent+","+f.UxUnspent), pv("unspent+spent", orNone(f.UxSpent)+","+f.UxUnspent),
			pv("txid-as-uxid", f.TxConfirmed))
	case "uxid":
		return opt(pv("unspent", f.UxUnspent), absent, pv("empty", ""), pv("spent", orNone(f.UxSpent)), pv("spent-by-pending", f.UxPendingIn), pv("created-by-pending", f.UxPendingOut),
			pv("unknown", unknownHash("ux")), pv("malformed", "zz"), pv("short", "abcd"), pv("txid-as-uxid", f.TxConfirmed))
	case "txid":
		return []pval{pv("confirmed", f.TxConfirmed), absent, pv("empty", ""), pv("pending", f.TxPending), pv("genesis", f.TxGenesis), pv("unknown", unknownHash("tx")),
			pv("malformed", "zz"), pv("odd-length", "abc"), pv("uxid-as-txid", f.UxUnspent), pv("65-hex", f.TxConfirmed+"0")}
	case "blockhash":
		return []pval{absent, pv("genesis", f.GenesisHash), pv("empty", ""), pv("head", f.HeadHash), pv("unknown", unknownHash("bk")), pv("malformed", "zz"), pv("txid-as-hash", f.TxConfirmed)}
	case "seq":
		h := f.Head
		return []pval{pv("0", "0"), absent, pv("empty", ""), pv("1", "1"), pv("head", fmt.Sprint(h)), pv("head+1", fmt.Sprint(h+1)), pv("2^64-1", two64m1), pv("2^64", two64),
			pv("-1", "-1"), pv("x", "x"), pv("1.5", "1.5"), pv("2^63", two63)}
	case "seqs":
		h := f.Head
		many := make([]string, 200)
		for i := range many {
			many[i] = strconv.Itoa(i)
		}
		return []pval{absent, pv("0", "0"), pv("empty", ""), pv("0,head", fmt.Sprintf("0,%d", h)), pv("duplicate", "0,0"), pv("head,head+1", fmt.Sprintf("%d,%d", h, h+1)),
			pv("x", "x"), pv("empty-element", "0,,1"), pv("2^64-1", two64m1), pv("-1", "-1"), pv("200-seqs", strings.Join(many, ","))}
	case "bool":
		return []pval{absent, pv("1", "1"), pv("0", "0"), pv("true", "true"), pv("false", "false"), pv("empty", ""), pv("x", "x"), pv("2", "2")}
	case "jsonbool":
		return []pval{absent, raw("true", "true"), raw("false", "false"), raw("string", `"true"`), raw("null", "null"), raw("number", "1"), raw("object", "{}")}
	case "walletid":
		return []pval{pv("plain", "plain.wlt"), absent, pv("empty", ""), pv("encrypted", "enc.wlt"), pv("bip44", "bip44.wlt"), pv("xpub-watch-only", "xpub.wlt"), pv("unknown", "nope.wlt"),
			pv("path-traversal", "../wallets/plain.wlt"), pv("long", strings.Repeat("w", 5000))}
	case "password":
		return []pval{absent, pv("right", fxPassword), pv("empty", ""), pv("wrong", "wrong"), pv("long", strings.Repeat("p", 5000))}
	case "newpassword":
		return []pval{absent, pv("given", "newpw"), pv("empty", ""), pv("long", strings.Repeat("p", 5000))}
	case "seed":
		return []pval{pv("fresh-mnemonic", fxFreshSeed), absent, pv("empty", ""), pv("existing-plain-wallet-seed", fxPlainSeed), pv("existing-encrypted-wallet-seed", fxEncSeed),
			pv("existing-bip44-wallet-seed", fxBip44Seed), pv("not-a-mnemonic", "abc def"), pv("bad-mnemonic-checksum", "abandon abandon abandon abandon abandon abandon abandon abandon abandon abandon abandon abandon"),
			pv("long", strings.Repeat("seed ", 2000))}
	case "passphrase":
		return []pval{absent, pv("given", "pp"), pv("empty", "")}
	case "wallettype":
		return []pval{pv("deterministic", "deterministic"), absent, pv("empty", ""), pv("bip44", "bip44"), pv("xpub", "xpub"), pv("collection", "collection"), pv("bogus", "bogus")}
	case "bip44coin":
		return []pval{absent, pv("8000", "8000"), pv("0", "0"), pv("2^32-1", "4294967295"), pv("2^32", "4294967296"), pv("-1", "-1"), pv("x", "x"), pv("empty", "")}
	case "xpub":
		return opt(absent, pv("valid", orNone(f.XPub)), pv("garbage", "xpubgarbage"), pv("empty", ""))
	case "privkeys":
		return []pval{absent, pv("one", f.SecKeyHex), pv("duplicate", f.SecKeyHex+","+f.SecKeyHex), pv("garbage", "zz"), pv("empty", "")}
	case "label":
		return []pval{pv("given", "a label"), absent, pv("empty", ""), pv("long", strings.Repeat("l", 10000)), pv("control-chars", "a\x00b\n‮")}
	case "scan", "num":
		return []pval{absent, pv("1", "1"), pv("0", "0"), pv("3", "3"), pv("empty", ""), pv("-1", "-1"), pv("x", "x"), pv("2^64", two64),
			{Class: "2^64-1", Val: two64m1, Danger: true}}
	case "entropy":
		return []pval{absent, pv("128", "128"), pv("256", "256"), pv("0", "0"), pv("129", "129"), pv("-1", "-1"), pv("x", "x"), pv("2^64", two64), pv("empty", "")}
	case "storagetype":
		return []pval{pv("txid", "txid"), absent, pv("empty", ""), pv("not-loaded", "client"), pv("bogus", "bogus")}
	case "storagekey":
		return []pval{pv("existing", "key1"), absent, pv("empty", ""), pv("missing", "nokey"), pv("long", strings.Repeat("k", 5000))}
	case "storageval":
		return []pval{pv("given", "v"), absent, pv("empty", ""), pv("long", strings.Repeat("v", 100000))}
	case "page":
		return []pval{absent, pv("1", "1"), pv("0", "0"), pv("2", "2"), pv("beyond-last", "1000"), pv("2^64-1", two64m1), pv("2^63+1", "9223372036854775809"), pv("2^64", two64), pv("-1", "-1"), pv("x", "x"), pv("empty", "")}
	case "limit":
		return []pval{absent, pv("1", "1"), pv("0", "0"), pv("10", "10"), pv("100", "100"), pv("101", "101"), pv("2^64-1", two64m1), pv("2^64", two64), pv("-1", "-1"), pv("x", "x"), pv("empty", "")}
	case "sort":
		return []pval{absent, pv("asc", "asc"), pv("desc", "desc"), pv("ASC", "ASC"), pv("bogus", "bogus"), pv("empty", "")}
	case "int":
		return []pval{absent, pv("1", "1"), pv("0", "0"), pv("-1", "-1"), pv("2^31", "2147483648"), pv("2^63-1", "9223372036854775807"), pv("2^63", two63), pv("x", "x"), pv("empty", "")}
	case "connaddr":
		return []pval{pv("ip:port", "118.178.135.93:6000"), absent, pv("empty", ""), pv("garbage", "garbage"), pv("ipv6", "[::1]:6000")}
	case "connstates":
		return []pval{absent, pv("pending", "pending"), pv("connected,introduced", "connected,introduced"), pv("bogus", "bogus"), pv("empty-element", "pending,,"), pv("empty", "")}
	case "direction":
		return []pval{absent, pv("incoming", "incoming"), pv("outgoing", "outgoing"), pv("bogus", "bogus"), pv("empty", "")}
	case "gnetid":
		return []pval{pv("1", "1"), absent, pv("empty", ""), pv("0", "0"), pv("2^64-1", two64m1), pv("2^64", two64), pv("-1", "-1"), pv("x", "x")}
	case "rawtx", "enctxn":
		half := f.EncNewSpend[:len(f.EncNewSpend)/2]
		if len(half)%2 == 1 {
			half = half[:len(half)-1]
		}
		vals := []pval{pv("valid-new-spend", f.EncNewSpend), absent, pv("empty", ""), pv("pending", f.EncPending), pv("confirmed", f.EncConfirmed),
			pv("unconfirmed-double-spend-of-spent-output", f.EncDouble), pv("unsigned", f.EncUnsigned), pv("no-inputs", f.EncNoInputs),
			pv("truncated", half), pv("zz", "zz"), pv("odd-length-hex", "abc"), pv("trailing-bytes", f.EncNewSpend+"00"),
			pv("length-prefix-only", "ffffffff"), pv("huge", strings.Repeat("00", 40000)),
			raw("wrong-type-number", "123"), raw("null", "null"), raw("huge-integer", "123456789012345678901234567890"), raw("nested", nested(64))}
		vnames := make([]string, 0, len(f.EncVariants))
		for k := range f.EncVariants {
			vnames = append(vnames, k)
		}
		sort.Strings(vnames)
		for _, k := range vnames {
			vals = append(vals, pv(k, f.EncVariants[k]))
		}
		return vals
	case "signindexes":
		return []pval{absent, raw("empty-list", "[]"), raw("[0]", "[0]"), raw("duplicate", "[0,0]"), raw("out-of-range", "[7]"), raw("negative", "[-1]"),
			raw("huge-integer", "[99999999999999999999]"), raw("string", `"0"`), raw("null", "null"), raw("floats", "[0.5]"), raw("nested", "[[0]]")}
	case "amount":
		return []pval{pv("1", "1"), absent, pv("0.001", "0.001"), pv("0", "0"), pv("-1", "-1"), pv("1e3", "1e3"), pv("max", "9223372036854.775807"), pv("max+1-droplet", "9223372036854.775808"),
			pv("1e400", "1e400"), pv("0.0001", "0.0001"), pv("empty", ""), pv("x", "x"), raw("number", "1"), raw("null", "null"),
			{Class: "1e10000000", Val: "1e10000000", Danger: true}, {Class: "1e-10000000", Val: "1e-10000000", Danger: true}, {Class: "1e-2000000000", Val: "1e-2000000000", Danger: true}}
	case "hours":
		return []pval{pv("1", "1"), absent, pv("0", "0"), pv("2^64-1", two64m1), pv("2^64", two64), pv("-1", "-1"), pv("x", "x"), raw("number", "1"), raw("null", "null")}
	case "sharefactor":
		return []pval{absent, pv("0.5", "0.5"), pv("0", "0"), pv("1", "1"), pv("1.5", "1.5"), pv("-1", "-1"), pv("x", "x"), raw("number", "0.5"), raw("null", "null"), pv("1e400", "1e400"), pv("1e-400", "1e-400"),
			{Class: "1e10000000", Val: "1e10000000", Danger: true}, {Class: "1e-10000000", Val: "1e-10000000", Danger: true}, {Class: "1e-2000000000", Val: "1e-2000000000", Danger: true}}
	case "hstype":
		return []pval{pv("manual", "manual"), absent, pv("auto", "auto"), pv("empty", ""), pv("bogus", "bogus"), raw("number", "1"), raw("null", "null")}
	case "hsmode":
		return []pval{absent, pv("share", "share"), pv("empty", ""), pv("bogus", "bogus"), raw("null", "null")}
	case "addresslist":
		q := func(xs ...string) string { b, _ := json.Marshal(xs); return string(b) }
		return []pval{absent, raw("plain-wallet-address", q(f.PlainAddrs[0])), raw("known", q(f.KnownAddr)), raw("genesis", q(f.GenesisAddr)), raw("empty-list", "[]"), raw("unknown", q(f.UnknownAddr)),
			raw("duplicated", q(f.KnownAddr, f.KnownAddr)), raw("bad-checksum", q(badChecksum(f.KnownAddr))), raw("empty-string", q("")), raw("200-addresses", q(f.ManyAddrs...)),
			raw("string", `"`+f.KnownAddr+`"`), raw("null", "null"), raw("numbers", "[1,2]"), raw("nested", nested(64))}
	case "uxidlist":
		q := func(xs ...string) string { b, _ := json.Marshal(xs); return string(b) }
		return opt(absent, raw("unspent", q(f.UxUnspent)), raw("spent", orNoneRaw(f.UxSpent)), raw("spent-by-pending", q(f.UxPendingIn)), raw("created-by-pending", q(f.UxPendingOut)),
			raw("unknown", q(unknownHash("ux"))), raw("duplicated", q(f.UxUnspent, f.UxUnspent)), raw("malformed", q("zz")), raw("empty-list", "[]"), raw("null", "null"), raw("numbers", "[1]"))
	case "changeaddress":
		return []pval{absent, pv("known", f.KnownAddr), pv("wallet-address", f.PlainAddrs[0]), pv("bad-checksum", badChecksum(f.KnownAddr)), pv("empty", ""), pv("null-address", "1111111111111111111111111"),
			raw("number", "1"), raw("null", "null")}
	case "toaddress":
		return []pval{pv("known", f.KnownAddr), absent, pv("same-as-source", f.PlainAddrs[0]), pv("bad-checksum", badChecksum(f.KnownAddr)), pv("empty", ""), pv("null-address", "1111111111111111111111111"),
			raw("number", "1"), raw("null", "null")}
	case "toshape":
		// shape of the "to" list around the base receiver
		return []pval{pv("one", "one"), pv("absent", "absent"), pv("empty-list", "empty"), pv("two", "two"), pv("duplicate", "dup"), pv("null", "null"), pv("object", "object"), pv("list-of-null", "nullelem"), pv("300-receivers", "many")}
	case "bodyshape":
		return []pval{pv("object", "object"), pv("empty-body", ""), raw("null", "null"), raw("array", "[]"), raw("string", `"x"`), raw("number", "1"), pv("truncated", "truncated"),
			pv("trailing-garbage", "trailing"), raw("deep-nesting", nested(20000)), pv("not-json", "a=b&c=d"), pv("unknown-field-only", `{"zzz":1}`), pv("duplicate-keys", "dupkeys"), pv("utf8-bom", "bom")}
	}
	panic("no value set for parameter type " + typ)
}

func orNoneRaw(s string) string {
	if s == "" {
		return "\x00NONE"
	}
	b, _ := json.Marshal([]string{s})
	return string(b)
}

func nested(n int) string { return strings.Repeat("[", n) + strings.Repeat("]", n) }

// ---- endpoints ------------------------------------------------------------------------------------------------------

type c28Param struct {
	Name string
	Type string
	Vals []pval
}

// c28Req is one concrete request of the product.
type c28Req struct {
	ID      int               `json:"id"`
	State   string            `json:"state"`
	Method  string            `json:"method"`
	Path    string            `json:"path"`
	Query   string            `json:"query,omitempty"`
	Body    string            `json:"body,omitempty"`
	CType   string            `json:"content_type,omitempty"`
	Headers map[string]string `json:"headers,omitempty"`
	Classes map[string]string `json:"classes"` // parameter -> class, for every parameter that is not at its base value
	Mut     bool              `json:"state_changing,omitempty"`
	Danger  bool              `json:"danger,omitempty"`
	Single  bool              `json:"single,omitempty"` // at most one parameter off base (the depth-2 read set is made of these)
}

func (q *c28Req) classKey() string {
	ks := make([]string, 0, len(q.Classes))
	for k, v := range q.Classes {
		ks = append(ks, k+"="+v)
	}
	sort.Strings(ks)
	return strings.Join(ks, ",")
}

// endpoints that can change the node's state when they succeed
var c28Mutating = map[string]bool{
	"POST /api/v1/wallet/create": true, "POST /api/v1/wallet/createTemp": true, "POST /api/v1/wallet/newAddress": true, "POST /api/v1/wallet/scan": true,
	"POST /api/v1/wallet/update": true, "POST /api/v1/wallet/unload": true, "POST /api/v1/wallet/encrypt": true, "POST /api/v1/wallet/decrypt": true,
	"POST /api/v2/wallet/recover": true, "POST /api/v2/data": true, "DELETE /api/v2/data": true, "POST /api/v1/injectTransaction": true,
	"POST /api/v1/wallet/transaction": true, "POST /api/v1/resendUnconfirmedTxns": true, "POST /api/v1/network/connection/disconnect": true,
}

// c28Base names, per endpoint, the class that is the base (valid) value where it is not the first of the type's set.
var c28Base = map[string]map[string]string{
	"POST /api/v2/wallet/transaction/sign": {"encoded_transaction": "unsigned"},
	"POST /api/v1/injectTransaction":       {"no_broadcast": "true"},
	"POST /api/v2/transaction":             {"addresses": "genesis"},
	"POST /api/v2/wallet/recover":          {"id": "encrypted", "seed": "existing-encrypted-wallet-seed"},
	"POST /api/v1/wallet/decrypt":          {"id": "encrypted", "password": "right"},
	"POST /api/v1/wallet/seed":             {"id": "encrypted", "password": "right"},
	"POST /api/v1/wallet/encrypt":          {"password": "given"},
	"GET /api/v1/last_blocks":              {"num": "1"},
}

func withBase(vals []pval, class string) []pval {
	for i, v := range vals {
		if v.Class == class {
			out := append([]pval{v}, vals[:i]...)
			return append(out, vals[i+1:]...)
		}
	}
	panic("base class " + class + " not in value set")
}

// expandParams turns the golden parameter list of a route+method into typed parameters (composite bodies are expanded).
func expandParams(rt *apimodel.Route, method string, f *fxInfo) []c28Param {
	var ps []c28Param
	add := func(name, typ string) {
		vals := valueSet(typ, f)
		if b, ok := c28Base[method+" "+rt.Path][name]; ok {
			vals = withBase(vals, b)
		}
		ps = append(ps, c28Param{Name: name, Type: typ, Vals: vals})
	}
	for _, p := range rt.Params {
		switch p.Type {
		case "create_txn", "wallet_create_txn":
			if p.Type == "wallet_create_txn" {
				add("wallet_id", "walletid")
				add("password", "password")
				add("unsigned", "jsonbool")
			} else {
				add("addresses", "addresslist")
			}
			add("unspents", "uxidlist")
			add("hours_selection.type", "hstype")
			add("hours_selection.mode", "hsmode")
			add("hours_selection.share_factor", "sharefactor")
			add("change_address", "changeaddress")
			add("ignore_unconfirmed", "jsonbool")
			add("to", "toshape")
			add("to[0].address", "toaddress")
			add("to[0].coins", "amount")
			add("to[0].hours", "hours")
			if p.Type == "wallet_create_txn" {
				add("addresses", "addresslist")
			}
		default:
			if rt.Path == "/api/v2/data" {
				// GET: type,key in the query; POST: JSON type,key,val; DELETE: type,key in the query
				if p.Name == "val" && method != "POST" {
					continue
				}
			}
			add(p.Name, p.Type)
		}
	}
	if jsonBody(rt, method) {
		add("$body", "bodyshape")
	}
	return ps
}

func jsonBody(rt *apimodel.Route, method string) bool {
	switch rt.Body {
	case "json":
		return method == "POST"
	case "json-for-POST":
		return method == "POST"
	}
	return false
}

// setPath stores a raw JSON literal at a dotted path ("a.b", "to[0].coins" is handled by the caller).
func setPath(m map[string]interface{}, path string, lit string) {
	parts := strings.Split(path, ".")
	cur := m
	for _, p := range parts[:len(parts)-1] {
		nx, ok := cur[p].(map[string]interface{})
		if !ok {
			nx = map[string]interface{}{}
			cur[p] = nx
		}
		cur = nx
	}
	cur[parts[len(parts)-1]] = json.RawMessage(lit)
}

func jsonLit(v pval) string {
	if v.Raw != "" {
		return v.Raw
	}
	b, _ := json.Marshal(v.Val)
	return string(b)
}

// buildRequest renders one assignment of values to the parameters of a route+method.
func buildRequest(rt *apimodel.Route, method string, ps []c28Param, asg []pval) (query, body, ctype string) {
	if !jsonBody(rt, method) {
		vals := url.Values{}
		for i, p := range ps {
			if !asg[i].Absent {
				vals.Set(p.Name, asg[i].Val)
			}
		}
		enc := vals.Encode()
		if method == "POST" {
			return "", enc, "application/x-www-form-urlencoded"
		}
		return enc, "", ""
	}
	ctype = "application/json"
	obj := map[string]interface{}{}
	toShape := ""
	recv := map[string]interface{}{}
	shape := "object"
	for i, p := range ps {
		v := asg[i]
		switch {
		case p.Name == "$body":
			shape = v.Class
			if v.Class != "object" {
				body = v.Val
			}
		case p.Name == "to":
			toShape = v.Val
		case strings.HasPrefix(p.Name, "to[0]."):
			if !v.Absent {
				recv[strings.TrimPrefix(p.Name, "to[0].")] = json.RawMessage(jsonLit(v))
			}
		default:
			if !v.Absent {
				setPath(obj, p.Name, jsonLit(v))
			}
		}
	}
	if toShape != "" {
		rb, _ := json.Marshal(recv)
		r := string(rb)
		switch toShape {
		case "one":
			obj["to"] = json.RawMessage("[" + r + "]")
		case "absent":
		case "empty":
			obj["to"] = json.RawMessage("[]")
		case "two":
			r2 := strings.Replace(r, `"coins":"1"`, `"coins":"2"`, 1)
			obj["to"] = json.RawMessage("[" + r + "," + r2 + "]")
		case "dup":
			obj["to"] = json.RawMessage("[" + r + "," + r + "]")
		case "null":
			obj["to"] = json.RawMessage("null")
		case "object":
			obj["to"] = json.RawMessage(r)
		case "nullelem":
			obj["to"] = json.RawMessage("[null]")
		case "many":
			xs := make([]string, 300)
			for i := range xs {
				xs[i] = strings.Replace(r, `"hours":"1"`, fmt.Sprintf(`"hours":"%d"`, i+1), 1)
			}
			obj["to"] = json.RawMessage("[" + strings.Join(xs, ",") + "]")
		}
	}
	ob, err := json.Marshal(obj)
	if err != nil {
		// a raw literal that is not JSON by itself cannot be embedded; send it as the whole body instead
		ob = []byte("{}")
	}
	switch shape {
	case "object":
		body = string(ob)
	case "truncated":
		body = string(ob[:len(ob)/2])
	case "trailing-garbage":
		body = string(ob) + "}{"
	case "duplicate-keys":
		body = "{" + strings.TrimPrefix(string(ob), "{")
		if len(ob) > 2 {
			body = string(ob[:len(ob)-1]) + "," + strings.TrimPrefix(string(ob), "{")
		}
	case "utf8-bom":
		body = "\xef\xbb\xbf" + string(ob)
	}
	return "", body, ctype
}

// c28Requests enumerates the product for one fixture state: per route+method the full product of the value sets for
// up to 3 parameters, all pairs of parameter values (others at base) beyond.
func c28Requests(g *apimodel.Golden, f *fxInfo, startID int) []c28Req {
	var out []c28Req
	id := startID
	for ri := range g.Routes {
		rt := &g.Routes[ri]
		if rt.Path == "/" {
			continue
		}
		methods := []string{}
		for m := range rt.Methods {
			methods = append(methods, m)
		}
		sort.Strings(methods)
		for _, method := range methods {
			ps := expandParams(rt, method, f)
			seen := map[string]bool{}
			force := false
			emit := func(asg []pval) {
				q, b, ct := buildRequest(rt, method, ps, asg)
				key := q + "\x00" + b
				if seen[key] {
					return
				}
				seen[key] = true
				r := c28Req{ID: id, State: f.State, Method: method, Path: rt.Path, Query: q, Body: b, CType: ct, Classes: map[string]string{}, Mut: c28Mutating[method+" "+rt.Path]}
				off := 0
				for i, p := range ps {
					if asg[i].Class != p.Vals[0].Class {
						r.Classes[p.Name] = asg[i].Class
						off++
					}
					if asg[i].Danger {
						r.Danger = true
					}
				}
				r.Single = off <= 1
				if r.Danger && off > 1 && !force {
					return // values that may exhaust the node are only tried alone (each needs its own sandboxed worker)
				}
				id++
				out = append(out, r)
			}
			base := make([]pval, len(ps))
			for i, p := range ps {
				base[i] = p.Vals[0]
			}
			if len(ps) <= 3 {
				var rec func(i int, asg []pval)
				rec = func(i int, asg []pval) {
					if i == len(ps) {
						emit(asg)
						return
					}
					for _, v := range ps[i].Vals {
						asg[i] = v
						rec(i+1, asg)
					}
				}
				rec(0, make([]pval, len(ps)))
			} else {
				emit(base)
				for i := 0; i < len(ps); i++ {
					for j := i + 1; j < len(ps); j++ {
						for _, vi := range ps[i].Vals {
							for _, vj := range ps[j].Vals {
								asg := append([]pval{}, base...)
								asg[i], asg[j] = vi, vj
								emit(asg)
							}
						}
					}
				}
			}
			// a dangerous value that is only looked at in a particular mode is also tried in that mode: the share factor of a
			// create-transaction request is compared only when hours_selection is auto/share
			pi := func(name string) int {
				for i, p := range ps {
					if p.Name == name {
						return i
					}
				}
				return -1
			}
			pick := func(i int, class string) (pval, bool) {
				for _, v := range ps[i].Vals {
					if v.Class == class {
						return v, true
					}
				}
				return pval{}, false
			}
			if it, im, is := pi("hours_selection.type"), pi("hours_selection.mode"), pi("hours_selection.share_factor"); it >= 0 && im >= 0 && is >= 0 {
				auto, ok1 := pick(it, "auto")
				share, ok2 := pick(im, "share")
				if ok1 && ok2 {
					force = true
					for _, v := range ps[is].Vals {
						asg := append([]pval{}, base...)
						asg[it], asg[im], asg[is] = auto, share, v
						// auto mode forbids explicit hours on the destinations
						if ih := pi("to[0].hours"); ih >= 0 {
							if ab, ok := pick(ih, "absent"); ok {
								asg[ih] = ab
							}
						}
						emit(asg)
					}
					force = false
				}
			}
		}
	}
	return out
}

// c28StaticRequests: the GUI's static files (index page, file server) — paths × Range / conditional headers × methods, each
// also with a query (the logging middleware treats URIs containing "v2" differently).
func c28StaticRequests(f *fxInfo, startID int) []c28Req {
	var out []c28Req
	id := startID
	paths := []string{"/", "/index.html", "/assets/app.js", "/assets/", "/assets", "/main.v2.js", "/missing.html", "/assets/../index.html", "/static"}
	ranges := []string{"", "bytes=0-9", "bytes=5-", "bytes=-5", "bytes=1000000-2000000", "bytes=9-0", "bytes=abc", "bytes=0-0,2-3", "lines=1-2"}
	conds := []map[string]string{nil, {"If-Modified-Since": "Mon, 02 Jan 2096 15:04:05 GMT"}, {"If-None-Match": "*"}, {"If-Range": "\"etag\""}, {"If-Match": "\"nope\""}}
	for _, method := range []string{"GET", "HEAD", "POST"} {
		for _, p := range paths {
			for _, q := range []string{"", "x=v2"} {
				for _, rg := range ranges {
					for ci, cd := range conds {
						if rg != "" && ci > 0 && ci != 3 {
							continue // conditional headers are combined with a range only where they interact (If-Range)
						}
						h := map[string]string{}
						cls := map[string]string{}
						if rg != "" {
							h["Range"] = rg
							cls["range"] = rg
						}
						for k, v := range cd {
							h[k] = v
							cls["conditional"] = k
						}
						if q != "" {
							cls["query"] = q
						}
						cls["path"] = p
						out = append(out, c28Req{ID: id, State: f.State, Method: method, Path: p, Query: q, Headers: h, Classes: cls, Single: len(cls) <= 2})
						id++
					}
				}
			}
		}
	}
	return out
}
