package main

import (
	"bytes"
	"encoding/binary"
	"encoding/hex"
	"fmt"
	"math/big"
	"strings"
	"sync/atomic"

	"github.com/skycoin/skycoin/src/cipher"
	secp256k1 "github.com/skycoin/skycoin/src/cipher/secp256k1-go"
	secp "github.com/skycoin/skycoin/src/cipher/secp256k1-go/secp256k1-go2"
	"github.com/skycoin/skycoin/src/coin"
	"github.com/skycoin/skycoin/src/transaction"

	"verif/engine"
	mtx "verif/model/txn"
	"verif/model/txnsecp"
)

// C10 — signatures, transactions and block headers are not third-party malleable; only low-s, recid<4 signatures are
// accepted or produced.
//
// Part A (signature level).  Objects = valid (key, digest, signature) triples: real cipher.SignHash output, the real
// Signature.Sign driven with an enumerated nonce alphabet (compared bit-for-bit with the reference signer), signatures
// CONSTRUCTED with s on the boundary set {1,2,h-1,h,h+1,h+2,2^255-1,2^255,2^255+1,n-2,n-1} (h = floor(n/2)) by solving for the
// digest (known key) and signatures constructed by public-key recovery with r on its boundaries (recid 2/3 reachable).
// Every object × every transform (all 520 single-bit flips, s->n-s, r->r+n, recid changes, r<->s, null, length changes)
// is judged by four real functions against the reference: accept <=> textbook-valid for that key AND s <= h AND recid < 4.
// Part B (transaction level): three signed fixture transactions (pay+change, merge, split) × every single-bit flip of the encoding, byte
// extension/truncation, and ~40 structured third-party edits (with and without recomputing the unsigned header fields):
// nothing whose bytes differ may pass VerifySingleTxnHardConstraints against the same unspent outputs.
// Part C (block header level): every bit flip of a signed header / its signature must fail SignedBlock.VerifySignature; every
// bit flip of a body transaction must change the body hash the signature covers.
func init() { register("C10", "exploration", c10) }

type c10obj struct {
	Name string
	pk   cipher.PubKey
	addr cipher.Address
	q    txnsecp.Point
	z    [32]byte
	sig  [65]byte
}

type c10case struct {
	Object    string `json:"object"`
	Transform string `json:"transform"`
	PubKey    string `json:"pubkey,omitempty"`
	Digest    string `json:"digest,omitempty"`
	BaseSig   string `json:"base_signature,omitempty"`
	Sig       string `json:"signature,omitempty"`
	Func      string `json:"function,omitempty"`
	Bytes     string `json:"bytes,omitempty"`
}

var two256 = new(big.Int).Lsh(big.NewInt(1), 256)

func pointEq(a, b txnsecp.Point) bool {
	return !a.Inf && !b.Inf && a.X.Cmp(b.X) == 0 && a.Y.Cmp(b.Y) == 0
}

// c10Expect: the reference judgement of signature b for digest z and key q.
// strict: textbook-valid, recovers q, recid<4, s <= floor(n/2).  highbit: same but with the weaker "s < 2^255" rule.
// recoverable*: some key is recovered (for the functions that do not take a key).
func c10Expect(b [65]byte, z [32]byte, q txnsecp.Point) (strict, highbit, recStrict, recHighbit bool) {
	s := txnsecp.ParseSig(b)
	if s.Recid >= 4 {
		return
	}
	p, ok := txnsecp.Recover(s, new(big.Int).SetBytes(z[:]))
	if !ok {
		return
	}
	hb := txnsecp.HighBitClear(s.S)
	low := txnsecp.LowS(s.S)
	recStrict, recHighbit = low, hb
	if pointEq(p, q) {
		strict, highbit = low, hb
	}
	return
}

type c10sigCtx struct {
	r         *engine.Run
	outcomes  *engine.Counter
	evals     *int64
	nontriv   *engine.Set
	acceptedS *engine.Counter
}

// judge runs the four real verification functions on (obj key, digest, sig) and compares with the reference.
func (c *c10sigCtx) judge(o *c10obj, sig [65]byte, transform string) {
	strict, highbit, recStrict, recHighbit := c10Expect(sig, o.z, o.q)
	msg := cipher.SHA256(o.z)
	csig := cipher.Sig(sig)
	type obs struct {
		name    string
		accept  bool
		panicks bool
		pmsg    string
		exp     bool
		expHB   bool
	}
	res := []obs{{name: "secp256k1.VerifySignature", exp: strict, expHB: highbit}, {name: "cipher.VerifyPubKeySignedHash", exp: strict, expHB: highbit},
		{name: "cipher.VerifyAddressSignedHash", exp: strict, expHB: highbit}, {name: "cipher.VerifySignatureRecoverPubKey", exp: recStrict, expHB: recHighbit}}
	res[0].panicks, res[0].pmsg = engine.Catch(func() { res[0].accept = secp256k1.VerifySignature(msg[:], sig[:], o.pk[:]) == 1 })
	res[1].panicks, res[1].pmsg = engine.Catch(func() { res[1].accept = cipher.VerifyPubKeySignedHash(o.pk, csig, msg) == nil })
	res[2].panicks, res[2].pmsg = engine.Catch(func() { res[2].accept = cipher.VerifyAddressSignedHash(o.addr, csig, msg) == nil })
	res[3].panicks, res[3].pmsg = engine.Catch(func() { res[3].accept = cipher.VerifySignatureRecoverPubKey(csig, msg) == nil })
	atomic.AddInt64(c.evals, int64(len(res)))
	if sig != o.sig {
		c.nontriv.Add(o.Name + "|" + hex.EncodeToString(sig[:]))
	}
	tclass := transform
	if i := strings.IndexByte(tclass, '#'); i >= 0 {
		tclass = tclass[:i]
	}
	for _, v := range res {
		cs := c10case{Object: o.Name, Transform: transform, PubKey: hex.EncodeToString(o.pk[:]), Digest: hex.EncodeToString(o.z[:]),
			BaseSig: hex.EncodeToString(o.sig[:]), Sig: hex.EncodeToString(sig[:]), Func: v.name}
		switch {
		case v.panicks:
			c.outcomes.Add("sig:panic")
			c.r.Failf("signature-verification:"+v.name+":panic:"+tclass, cs, "%s panicked on %s of %s: %s", v.name, transform, o.Name, v.pmsg)
		case v.accept && !v.exp && v.expHB:
			c.outcomes.Add("sig:accepted-with-s-in-(n/2,2^255)")
			what := "is accepted"
			if sig != o.sig {
				what = "is accepted although it differs from the base signature " + hex.EncodeToString(o.sig[:]) + " (third-party malleation by " + transform + ")"
			}
			c.r.Failf("signature-verification:accepts-s-above-half-order:s-in-(n/2,2^255)", cs,
				"%s: signature %x for key %x digest %x %s; its s = %s lies in (floor(n/2), 2^255): only the top bit of s is tested, not s <= n/2",
				v.name, sig, o.pk, o.z, what, txnsecp.ParseSig(sig).S.Text(16))
		case v.accept && !v.exp:
			c.outcomes.Add("sig:WRONGLY-ACCEPTED")
			c.r.Failf("signature-verification:"+v.name+":accepts-invalid:"+tclass, cs,
				"%s accepted %x (%s of %s, base %x) for key %x digest %x; reference: not a valid low-s recid<4 signature of that key", v.name, sig, transform, o.Name, o.sig, o.pk, o.z)
		case !v.accept && v.exp:
			c.outcomes.Add("sig:WRONGLY-REJECTED")
			c.r.Failf("signature-verification:"+v.name+":rejects-valid:"+tclass, cs,
				"%s rejected %x (%s of %s) for key %x digest %x; reference: valid low-s signature", v.name, sig, transform, o.Name, o.pk, o.z)
		case v.accept:
			c.outcomes.Add("sig:accepted:" + v.name)
		default:
			c.outcomes.Add("sig:rejected:" + v.name)
		}
		if v.accept {
			s := txnsecp.ParseSig(sig)
			if !txnsecp.LowS(s.S) || s.Recid >= 4 {
				c.acceptedS.Add("accepted-not-low-s-or-recid>=4")
			} else {
				c.acceptedS.Add("accepted-low-s")
			}
		}
	}
}

type c10tf struct {
	name string
	sig  [65]byte
}

func c10Transforms(base [65]byte, withBitFlips bool) []c10tf {
	var out []c10tf
	s := txnsecp.ParseSig(base)
	mk := func(name string, r, sv *big.Int, recid int) {
		if r.Sign() < 0 || r.Cmp(two256) >= 0 || sv.Sign() < 0 || sv.Cmp(two256) >= 0 {
			return
		}
		out = append(out, c10tf{name, txnsecp.Sig{R: r, S: sv, Recid: recid & 0xff}.Bytes()})
	}
	neg := new(big.Int).Sub(txnsecp.N, s.S)
	if neg.Sign() < 0 {
		neg.Add(neg, two256)
	}
	mk("s-negated", s.R, neg, s.Recid)
	mk("s-negated-recid^1", s.R, neg, s.Recid^1)
	mk("s-plus-n", s.R, new(big.Int).Add(s.S, txnsecp.N), s.Recid)
	mk("r-plus-n", new(big.Int).Add(s.R, txnsecp.N), s.S, s.Recid)
	mk("r-plus-n-recid^2", new(big.Int).Add(s.R, txnsecp.N), s.S, s.Recid^2)
	if s.R.Cmp(txnsecp.N) >= 0 {
		mk("r-minus-n-recid^2", new(big.Int).Sub(s.R, txnsecp.N), s.S, s.Recid^2)
	}
	mk("recid^1", s.R, s.S, s.Recid^1)
	mk("recid^2", s.R, s.S, s.Recid^2)
	mk("recid^3", s.R, s.S, s.Recid^3)
	mk("recid+4", s.R, s.S, s.Recid+4)
	mk("recid+8", s.R, s.S, s.Recid+8)
	mk("recid+27", s.R, s.S, s.Recid+27)
	mk("recid+31", s.R, s.S, s.Recid+31)
	mk("recid|0x80", s.R, s.S, s.Recid|0x80)
	mk("recid=255", s.R, s.S, 255)
	mk("r<->s", s.S, s.R, s.Recid)
	mk("r=0", new(big.Int), s.S, s.Recid)
	mk("s=0", s.R, new(big.Int), s.Recid)
	mk("null", new(big.Int), new(big.Int), 0)
	if withBitFlips {
		for bit := 0; bit < 65*8; bit++ {
			b := base
			b[bit/8] ^= 1 << uint(bit%8)
			out = append(out, c10tf{fmt.Sprintf("bit-flip#%d", bit), b})
		}
	}
	return out
}

func mustSec(d *big.Int) (cipher.SecKey, cipher.PubKey, bool) {
	var b [32]byte
	d.FillBytes(b[:])
	sk, err := cipher.NewSecKey(b[:])
	if err != nil {
		return sk, cipher.PubKey{}, false
	}
	pk, err := cipher.PubKeyFromSecKey(sk)
	if err != nil {
		return sk, pk, false
	}
	return sk, pk, true
}

func be32(v *big.Int) (b [32]byte) {
	new(big.Int).Mod(v, two256).FillBytes(b[:])
	return
}

func c10(r *engine.Run) {
	r.RaceWorkload = "signatures" // supplement: free-running race-detector pass over the same API (can only add findings)
	N, H := txnsecp.N, txnsecp.HalfN
	outcomes := engine.NewCounter()
	acceptedS := engine.NewCounter()
	producedS := engine.NewCounter()
	nontriv := engine.NewSet()
	var evals int64
	ctx := &c10sigCtx{r: r, outcomes: outcomes, evals: &evals, nontriv: nontriv, acceptedS: acceptedS}
	bi := func(x int64) *big.Int { return big.NewInt(x) }
	sub := func(a *big.Int, x int64) *big.Int { return new(big.Int).Sub(a, bi(x)) }
	addi := func(a *big.Int, x int64) *big.Int { return new(big.Int).Add(a, bi(x)) }
	two255 := new(big.Int).Lsh(bi(1), 255)

	// ---- keys and digests -----------------------------------------------------------------------------------------
	type key struct {
		name string
		d    *big.Int
		sk   cipher.SecKey
		pk   cipher.PubKey
		q    txnsecp.Point
	}
	var keys []key
	addKey := func(name string, d *big.Int) {
		sk, pk, ok := mustSec(d)
		if !ok {
			r.Broken("fixture key %s refused by cipher", name)
			return
		}
		q := txnsecp.PubKey(d)
		if !bytes.Equal(txnsecp.Compress(q), pk[:]) {
			r.Failf("cipher.PubKeyFromSecKey:differs-from-reference", map[string]string{"d": d.Text(16)}, "public key of d=%s: real %x reference %x", d.Text(16), pk, txnsecp.Compress(q))
		}
		keys = append(keys, key{name, d, sk, pk, q})
	}
	for i := 0; i < r.Pick(2, 4); i++ {
		addKey(fmt.Sprintf("K%d", i), fixKeys[i].D)
	}
	addKey("d=1", bi(1))
	addKey("d=n-1", sub(N, 1))
	if r.Thorough() {
		addKey("d=2", bi(2))
		addKey("d=n-2", sub(N, 2))
		addKey("d=h", H)
		addKey("d=2^255", two255)
	}
	type dig struct {
		name string
		z    [32]byte
	}
	digests := []dig{{"sha(m0)", h32("c10-m0")}, {"sha(m1)", h32("c10-m1")}, {"z=1", be32(bi(1))}, {"z=n-1", be32(sub(N, 1))}, {"z=n", be32(N)}, {"z=n+1", be32(addi(N, 1))}, {"z=2^256-1", be32(sub(two256, 1))}}
	nonces := func(d *big.Int, z [32]byte) []*big.Int {
		zi := new(big.Int).SetBytes(z[:])
		return []*big.Int{bi(1), bi(2), bi(3), H, addi(H, 1), sub(N, 2), sub(N, 1), two255, txnsecp.Nonce(d, zi, 0), txnsecp.Nonce(d, zi, 1)}
	}

	var objs []*c10obj
	var flipObjs []*c10obj // objects that also get the 520 single-bit flips
	addObj := func(name string, k key, z [32]byte, sig [65]byte, flips bool) {
		o := &c10obj{Name: name, pk: k.pk, addr: cipher.AddressFromPubKey(k.pk), q: k.q, z: z, sig: sig}
		objs = append(objs, o)
		if flips {
			flipObjs = append(flipObjs, o)
		}
	}
	checkProduced := func(origin string, k key, z [32]byte, sig [65]byte) {
		s := txnsecp.ParseSig(sig)
		zi := new(big.Int).SetBytes(z[:])
		atomic.AddInt64(&evals, 1)
		cs := c10case{Object: origin, PubKey: hex.EncodeToString(k.pk[:]), Digest: hex.EncodeToString(z[:]), Sig: hex.EncodeToString(sig[:])}
		if !txnsecp.LowS(s.S) || s.Recid >= 4 {
			producedS.Add("produced-NOT-low-s-or-recid>=4")
			r.Failf("signing:produces-non-low-s-or-bad-recid", cs, "%s produced signature %x with s=%s (floor(n/2)=%s) recid=%d", origin, sig, s.S.Text(16), H.Text(16), s.Recid)
		} else {
			producedS.Add("produced-low-s-recid<4")
		}
		if !txnsecp.Verify(k.q, s, zi) {
			r.Failf("signing:produces-invalid-signature", cs, "%s produced %x which the reference verifier refuses for key %x digest %x", origin, sig, k.pk, z)
		}
		if p, ok := txnsecp.Recover(s, zi); !ok || !pointEq(p, k.q) {
			r.Failf("signing:recovery-id-wrong", cs, "%s produced %x whose recovery id does not lead back to key %x", origin, sig, k.pk)
		}
	}

	// A1: real cipher.SignHash (random nonce inside: relations only) and real Signature.Sign with enumerated nonces
	for ki, k := range keys {
		for di, d := range digests {
			for rep := 0; rep < 2; rep++ {
				var sig cipher.Sig
				var err error
				pan, msg := engine.Catch(func() { sig, err = cipher.SignHash(cipher.SHA256(d.z), k.sk) })
				if pan || err != nil {
					r.Failf("cipher.SignHash:fails-on-valid-input", c10case{Object: k.name + "/" + d.name}, "SignHash(%s,%s): panic=%v %s err=%v", d.name, k.name, pan, msg, err)
					continue
				}
				checkProduced("cipher.SignHash("+d.name+","+k.name+")", k, d.z, [65]byte(sig))
				addObj(fmt.Sprintf("SignHash(%s,%s)#%d", d.name, k.name, rep), k, d.z, [65]byte(sig), rep == 0 && (r.Thorough() || (ki+di)%3 == 0))
			}
			for ni, nonce := range nonces(k.d, d.z) {
				var rs secp.Signature
				var dn, mn, kn secp.Number
				dn.SetBytes(k.sk[:])
				mn.SetBytes(d.z[:])
				kn.SetBytes(nonce.Bytes())
				recid := -1
				ret := 0
				pan, msg := engine.Catch(func() { ret = rs.Sign(&dn, &mn, &kn, &recid) })
				want, wok := txnsecp.Sign(k.d, new(big.Int).SetBytes(d.z[:]), nonce)
				name := fmt.Sprintf("Signature.Sign(%s,%s,k=%s)", d.name, k.name, nonce.Text(16))
				atomic.AddInt64(&evals, 1)
				if pan {
					r.Failf("Signature.Sign:panic", c10case{Object: name}, "%s: panic %s", name, msg)
					continue
				}
				if (ret == 1) != wok {
					r.Failf("Signature.Sign:success-differs-from-reference", c10case{Object: name}, "%s: ret=%d reference ok=%v", name, ret, wok)
					continue
				}
				if !wok {
					producedS.Add("sign-refused")
					continue
				}
				got := txnsecp.Sig{R: &rs.R.Int, S: &rs.S.Int, Recid: recid}
				if got.R.Cmp(want.R) != 0 || got.S.Cmp(want.S) != 0 || got.Recid != want.Recid {
					r.Failf("Signature.Sign:differs-from-reference", c10case{Object: name, Sig: hex.EncodeToString(func() []byte { b := want.Bytes(); return b[:] }())},
						"%s: real (r=%s s=%s recid=%d) reference (r=%s s=%s recid=%d)", name, got.R.Text(16), got.S.Text(16), got.Recid, want.R.Text(16), want.S.Text(16), want.Recid)
				}
				if got.R.Sign() < 0 || got.R.Cmp(two256) >= 0 || got.S.Sign() < 0 || got.S.Cmp(two256) >= 0 || recid < 0 || recid > 255 {
					continue
				}
				sb := got.Bytes()
				checkProduced(name, k, d.z, sb)
				raw, _ := txnsecp.SignRaw(k.d, new(big.Int).SetBytes(d.z[:]), nonce)
				if raw.S.Cmp(H) > 0 {
					producedS.Add("normalisation-branch-taken")
				} else {
					producedS.Add("normalisation-branch-not-taken")
				}
				addObj(name, k, d.z, sb, r.Thorough() && ni >= 8)
			}
		}
	}

	// A2: constructed signatures with s on its boundaries: choose k and s, solve the digest z = s*k - r*d (mod n).
	sBoundary := []struct {
		name string
		s    *big.Int
	}{{"s=1", bi(1)}, {"s=2", bi(2)}, {"s=h-1", sub(H, 1)}, {"s=h", H}, {"s=h+1", addi(H, 1)}, {"s=h+2", addi(H, 2)}, {"s=2^255-1", sub(two255, 1)},
		{"s=2^255", two255}, {"s=2^255+1", addi(two255, 1)}, {"s=n-2", sub(N, 2)}, {"s=n-1", sub(N, 1)},
		{"s=n-2^255", new(big.Int).Sub(N, two255)}, {"s=n-2^255+1", addi(new(big.Int).Sub(N, two255), 1)}}
	for _, k := range keys {
		for ki, kn := range []*big.Int{bi(7), h32ToInt("c10-construct-nonce-1"), h32ToInt("c10-construct-nonce-2")} {
			kn = new(big.Int).Mod(kn, N)
			R := txnsecp.Mul(txnsecp.G(), kn)
			rr := new(big.Int).Mod(R.X, N)
			recid := int(R.Y.Bit(0))
			if R.X.Cmp(N) >= 0 {
				recid |= 2
			}
			for _, sb := range sBoundary {
				z := new(big.Int).Mul(sb.s, kn)
				z.Sub(z, new(big.Int).Mul(rr, k.d))
				z.Mod(z, N)
				if z.Sign() == 0 {
					continue
				}
				sig := txnsecp.Sig{R: rr, S: sb.s, Recid: recid}
				if !txnsecp.Verify(k.q, sig, z) {
					r.Broken("construction of %s for %s is not a textbook-valid signature", sb.name, k.name)
					continue
				}
				addObj(fmt.Sprintf("constructed(%s,%s,nonce#%d)", sb.name, k.name, ki), k, be32(z), sig.Bytes(), r.Thorough() && ki == 0)
				// the real signer driven to exactly this raw s: its output must be the reference's normalised signature
				var rs secp.Signature
				var dn, mn, kk secp.Number
				dn.SetBytes(k.sk[:])
				zb := be32(z)
				mn.SetBytes(zb[:])
				kk.SetBytes(kn.Bytes())
				rrec, ret := -1, 0
				name := fmt.Sprintf("Signature.Sign(raw %s,%s,nonce#%d)", sb.name, k.name, ki)
				pan, msg := engine.Catch(func() { ret = rs.Sign(&dn, &mn, &kk, &rrec) })
				want, wok := txnsecp.Sign(k.d, z, kn)
				evals++
				if pan || ret != 1 || !wok {
					r.Failf("Signature.Sign:fails-on-valid-input", c10case{Object: name}, "%s: panic=%v %s ret=%d reference ok=%v", name, pan, msg, ret, wok)
					continue
				}
				if rs.R.Cmp(want.R) != 0 || rs.S.Cmp(want.S) != 0 || rrec != want.Recid {
					r.Failf("Signature.Sign:differs-from-reference", c10case{Object: name},
						"%s: real (r=%s s=%s recid=%d) reference (r=%s s=%s recid=%d)", name, rs.R.Text(16), rs.S.Text(16), rrec, want.R.Text(16), want.S.Text(16), want.Recid)
				}
				if rs.S.Sign() > 0 && rs.S.Cmp(two256) < 0 && rs.R.Sign() > 0 && rs.R.Cmp(two256) < 0 && rrec >= 0 && rrec < 256 {
					checkProduced(name, k, zb, txnsecp.Sig{R: &rs.R.Int, S: &rs.S.Int, Recid: rrec}.Bytes())
				}
			}
		}
	}
	// A3: constructed by recovery (free key): r on its boundaries incl. r+n < p (recovery ids 2 and 3), s in {1,h,h+1,n-1}
	pMinusN := new(big.Int).Sub(txnsecp.P, N)
	var rCands []struct {
		name  string
		r     *big.Int
		recid int
	}
	findAbscissa := func(from *big.Int, step int64, plusN bool) *big.Int {
		x := new(big.Int).Set(from)
		for i := 0; i < 1000; i++ {
			t := x
			if plusN {
				t = new(big.Int).Add(x, N)
			}
			if _, ok := txnsecp.LiftX(t, false); ok && x.Sign() > 0 {
				return x
			}
			x = new(big.Int).Add(x, bi(step))
		}
		return nil
	}
	for _, c := range []struct {
		name  string
		from  *big.Int
		step  int64
		plusN bool
	}{{"r=smallest-abscissa", bi(1), 1, false}, {"r=largest-abscissa-below-n", sub(N, 1), -1, false},
		{"r=smallest-with-r+n-abscissa", bi(1), 1, true}, {"r=largest-with-r+n<p-abscissa", sub(pMinusN, 1), -1, true}} {
		x := findAbscissa(c.from, c.step, c.plusN)
		if x == nil {
			r.Broken("no abscissa found for %s", c.name)
			continue
		}
		for parity := 0; parity < 2; parity++ {
			rec := parity
			if c.plusN {
				rec |= 2
			}
			rCands = append(rCands, struct {
				name  string
				r     *big.Int
				recid int
			}{fmt.Sprintf("%s,recid=%d", c.name, rec), x, rec})
		}
	}
	for _, rc := range rCands {
		for _, sv := range []struct {
			name string
			s    *big.Int
		}{{"s=1", bi(1)}, {"s=h", H}, {"s=h+1", addi(H, 1)}, {"s=n-1", sub(N, 1)}, {"s=sha", new(big.Int).Rsh(h32ToInt("c10-rec-s"), 2)}} {
			z := h32("c10-recovered-digest")
			sig := txnsecp.Sig{R: rc.r, S: sv.s, Recid: rc.recid}
			q, ok := txnsecp.Recover(sig, new(big.Int).SetBytes(z[:]))
			if !ok {
				r.Broken("recovery construction %s %s failed", rc.name, sv.name)
				continue
			}
			var pk cipher.PubKey
			copy(pk[:], txnsecp.Compress(q))
			k := key{name: "recovered-key", pk: pk, q: q}
			addObj(fmt.Sprintf("recovered(%s,%s)", rc.name, sv.name), k, z, sig.Bytes(), r.Thorough() || (sv.name == "s=sha" && rc.recid%2 == 0))
		}
	}

	// ---- run part A ------------------------------------------------------------------------------------------------
	flipSet := map[*c10obj]bool{}
	for _, o := range flipObjs {
		flipSet[o] = true
	}
	type sjob struct {
		o  *c10obj
		tf c10tf
	}
	var sjobs []sjob
	nTransforms := 0
	for _, o := range objs {
		sjobs = append(sjobs, sjob{o, c10tf{"identity", o.sig}})
		tfs := c10Transforms(o.sig, flipSet[o])
		nTransforms += len(tfs)
		for _, tf := range tfs {
			sjobs = append(sjobs, sjob{o, tf})
		}
	}
	engine.ParFor(len(sjobs), func(i int) { ctx.judge(sjobs[i].o, sjobs[i].tf.sig, sjobs[i].tf.name) })
	// wrong-length signatures: the typed API must refuse to build them, the byte-slice API must not accept them
	for _, o := range objs[:4] {
		for _, b := range [][]byte{o.sig[:64], append(append([]byte{}, o.sig[:]...), 0), append([]byte{0}, o.sig[:]...), nil} {
			evals++
			if _, err := cipher.NewSig(b); err == nil {
				r.Failf("cipher.NewSig:accepts-wrong-length", c10case{Object: o.Name, Bytes: hex.EncodeToString(b)}, "NewSig accepted %d bytes", len(b))
			}
			acc := false
			z := o.z
			pan, _ := engine.Catch(func() { acc = secp256k1.VerifySignature(z[:], b, o.pk[:]) == 1 })
			if acc {
				r.Failf("secp256k1.VerifySignature:accepts-wrong-length", c10case{Object: o.Name, Bytes: hex.EncodeToString(b)}, "VerifySignature accepted a %d byte signature", len(b))
			}
			if pan {
				outcomes.Add("sig:wrong-length-refused-by-panic")
			} else {
				outcomes.Add("sig:wrong-length-refused")
			}
		}
	}

	// ---- part B: transactions ---------------------------------------------------------------------------------------
	txEvals, txNontriv, txHist := c10Transactions(r)
	for k, v := range txHist {
		outcomes.AddN(k, v)
	}
	// ---- part C: block headers ----------------------------------------------------------------------------------------
	blkEvals, blkNontriv, blkHist := c10Blocks(r)
	for k, v := range blkHist {
		outcomes.AddN(k, v)
	}

	// ---- vacuity ------------------------------------------------------------------------------------------------------
	for _, k := range []string{"sig:accepted:secp256k1.VerifySignature", "sig:rejected:secp256k1.VerifySignature", "sig:accepted:cipher.VerifyAddressSignedHash",
		"sig:rejected:cipher.VerifyPubKeySignedHash", "sig:accepted:cipher.VerifySignatureRecoverPubKey", "sig:rejected:cipher.VerifySignatureRecoverPubKey",
		"txn:base-accepted", "txn:rejected", "block:base-accepted", "block:rejected"} {
		if outcomes.Get(k) == 0 {
			r.Broken("vacuous: outcome class %q never seen", k)
		}
	}
	if producedS.Get("normalisation-branch-taken") == 0 || producedS.Get("normalisation-branch-not-taken") == 0 {
		r.Broken("vacuous: low-s normalisation branch coverage %v", producedS.Map())
	}
	hist := outcomes.Map()
	for k, v := range producedS.Map() {
		hist["produce:"+k] = v
	}
	for k, v := range acceptedS.Map() {
		hist["accept:"+k] = v
	}
	r.Assumptions = append(r.Assumptions,
		"keys: fixture keys plus boundary scalars (1, n-1; thorough also 2, n-2, floor(n/2), 2^255); digests incl. 1, n-1, n, n+1, 2^256-1; nonce alphabet {1,2,3,h,h+1,n-2,n-1,2^255, 2 derived}",
		"cipher.SignHash draws its nonce from the system RNG: its outputs are judged by relations (valid, low-s, recid<4, recovers the key), the normalisation logic itself is driven through the real Signature.Sign with enumerated nonces and compared bit-for-bit with the reference",
		"bit flips: all 520 single-bit flips of a subset of objects in the quick tier (every object in the thorough tier), structured transforms on every object",
		"transaction level judged by transaction.VerifySingleTxnHardConstraints against a fixed unspent set (inputs looked up by hash; an input missing from the set = rejected); block level = SignedBlock.VerifySignature and BlockBody.Hash only, the full ExecuteSignedBlock path belongs to the ledger group",
		"reference = textbook ECDSA with public-key recovery over math/big (model/txnsecp)")
	samples := []interface{}{}
	for _, i := range []int{0, len(objs) / 2, len(objs) - 1} {
		o := objs[i]
		samples = append(samples, c10case{Object: o.Name, PubKey: hex.EncodeToString(o.pk[:]), Digest: hex.EncodeToString(o.z[:]), Sig: hex.EncodeToString(o.sig[:]), Transform: "identity"})
	}
	r.Finish(engine.Coverage{
		"evaluations":             evals + txEvals + blkEvals,
		"signature_evaluations":   evals,
		"transaction_evaluations": txEvals,
		"block_evaluations":       blkEvals,
		"distinct_nontrivial":     nontriv.Len() + txNontriv + blkNontriv,
		"rule":                    "distinct transformed objects whose bytes differ from the valid base object (signature level: per key/digest; transaction / block level: distinct mutated encodings)",
		"exhaustive":              true,
		"outcome_histogram":       hist,
		"alphabet": map[string]interface{}{"keys": len(keys), "digests": len(digests), "signature_objects": len(objs), "objects_with_all_bit_flips": len(flipObjs),
			"signature_transforms_applied": nTransforms, "s_boundary_values": len(sBoundary)},
		"samples": samples,
	})
}

func h32ToInt(s string) *big.Int { h := h32(s); return new(big.Int).SetBytes(h[:]) }

// --------------------------------------------------------------------------------------------------------------------
// Part B

type c10utxo struct {
	ux  coin.UxOut
	key int
}

func c10Fixture() (map[cipher.SHA256]coin.UxOut, []c10utxo, coin.BlockHeader) {
	head := coin.BlockHeader{Version: 0, Time: 1700003600, BkSeq: 10, PrevHash: cipher.SHA256(h32("c10-prev")), BodyHash: cipher.SHA256(h32("c10-body"))}
	spec := []struct {
		key          int
		coins, hours uint64
	}{{0, 10e6, 100}, {1, 2e6, 10}, {2, 3e6, 0}, {1, 5e6, 1000}, {2, 1e6, 50}, {0, 4e6, 7}, {6, 9e6, 500}}
	var list []c10utxo
	m := map[cipher.SHA256]coin.UxOut{}
	for i, s := range spec {
		ux := coin.UxOut{Head: coin.UxHead{Time: 1700000000, BkSeq: 5},
			Body: coin.UxBody{SrcTransaction: cipher.SHA256(h32(fmt.Sprintf("c10-src-%d", i))), Address: fixKeys[s.key].Addr, Coins: s.coins, Hours: s.hours}}
		list = append(list, c10utxo{ux, s.key})
		m[ux.Hash()] = ux
	}
	return m, list, head
}

// c10Sign fills in header fields and signs input i with keys[i] using the reference signer.
func c10Finalize(t *mtx.Tx, keys []int) {
	t.Sigs = make([][65]byte, len(t.In))
	t.Length = uint32(t.EncodedSize())
	t.Type = 0
	t.Inner = t.InnerHash()
	for i := range t.In {
		if keys[i] >= 0 {
			t.Sigs[i] = refSign(keys[i], mtx.SigHash(t.Inner, t.In[i]))
		}
	}
}

func c10FixHeader(t *mtx.Tx) {
	t.Length = uint32(t.EncodedSize())
	t.Inner = t.InnerHash()
}

func cloneTx(t *mtx.Tx) *mtx.Tx {
	c := *t
	c.Sigs = append([][65]byte(nil), t.Sigs...)
	c.In = append([][32]byte(nil), t.In...)
	c.Out = append([]mtx.Out(nil), t.Out...)
	return &c
}

func c10Transactions(r *engine.Run) (int64, int, map[string]int) {
	utxo, list, head := c10Fixture()
	hist := engine.NewCounter()
	distinct := engine.NewSet()
	var evals int64
	out := func(k int, coins, hours uint64) mtx.Out {
		return mtx.Out{Addr: addr21(fixKeys[k].Addr), Coins: coins, Hours: hours}
	}
	in := func(i int) [32]byte { return [32]byte(list[i].ux.Hash()) }
	type base struct {
		name string
		tx   *mtx.Tx
		keys []int
		flag transaction.TxnSignedFlag
	}
	mk := func(name string, ins []int, outs []mtx.Out, unsignedAt int) base {
		t := &mtx.Tx{Out: outs}
		var keys []int
		for j, i := range ins {
			t.In = append(t.In, in(i))
			k := list[i].key
			if j == unsignedAt {
				k = -1
			}
			keys = append(keys, k)
		}
		c10Finalize(t, keys)
		flag := transaction.TxnSigned
		if unsignedAt >= 0 {
			flag = transaction.TxnUnsigned
		}
		return base{name, t, keys, flag}
	}
	bases := []base{
		mk("T1-pay+change", []int{0}, []mtx.Out{out(4, 3e6, 10), out(0, 7e6, 40)}, -1),
		mk("T2-merge", []int{1, 2, 3}, []mtx.Out{out(5, 10e6, 600)}, -1),
		mk("T3-split", []int{4, 5}, []mtx.Out{out(3, 1e6, 5), out(4, 2e6, 6), out(5, 2e6, 7)}, -1),
	}
	// accept = decodes, every input is in the unspent set, and the hard constraints hold for the looked-up outputs
	accept := func(b []byte, flag transaction.TxnSignedFlag) (bool, string) {
		var txn coin.Transaction
		var err error
		if pan, msg := engine.Catch(func() { txn, err = coin.DeserializeTransaction(b) }); pan {
			return false, "decode-panic:" + msg
		}
		if err != nil {
			return false, "does-not-decode"
		}
		uxIn := make(coin.UxArray, len(txn.In))
		for i, h := range txn.In {
			ux, ok := utxo[h]
			if !ok {
				return false, "input-not-in-unspent-set"
			}
			uxIn[i] = ux
		}
		pan, msg := engine.Catch(func() { err = transaction.VerifySingleTxnHardConstraints(txn, head, uxIn, flag) })
		if pan {
			return false, "panic:" + firstWords(msg, 4)
		}
		if err != nil {
			if _, ok := err.(transaction.ErrTxnViolatesHardConstraint); !ok {
				return false, "non-hard-error:" + firstWords(err.Error(), 4)
			}
			return false, "hard:" + firstWords(strings.TrimPrefix(err.Error(), "Transaction violates hard constraint: "), 5)
		}
		return true, "accepted"
	}
	type tjob struct {
		b    *base
		name string
		enc  []byte
	}
	var jobs []tjob
	for bi := range bases {
		b := &bases[bi]
		enc := b.tx.Encode()
		ok, why := accept(enc, b.flag)
		evals++
		if !ok {
			r.Broken("fixture transaction %s is not accepted: %s", b.name, why)
			continue
		}
		hist.Add("txn:base-accepted")
		// the real signer on the same body: produced signatures must be low-s / recid<4 and the result accepted
		if b.flag == transaction.TxnSigned {
			ct := toCoin(b.tx)
			ct.Sigs = nil
			var secs []cipher.SecKey
			for _, k := range b.keys {
				secs = append(secs, fixKeys[k].Sec)
			}
			if pan, msg := engine.Catch(func() { ct.SignInputs(secs) }); pan {
				r.Failf("Transaction.SignInputs:panic", c10case{Object: b.name}, "%s", msg)
			} else {
				for i, s := range ct.Sigs {
					ps := txnsecp.ParseSig([65]byte(s))
					if !txnsecp.LowS(ps.S) || ps.Recid >= 4 {
						r.Failf("signing:produces-non-low-s-or-bad-recid", c10case{Object: b.name, Sig: s.Hex()}, "SignInputs signature %d of %s: s=%s recid=%d", i, b.name, ps.S.Text(16), ps.Recid)
					}
				}
				rb, _ := ct.Serialize()
				if ok, why := accept(rb, b.flag); !ok {
					r.Failf("Transaction.SignInputs:result-rejected", c10case{Object: b.name, Bytes: hex.EncodeToString(rb)}, "%s signed by SignInputs is rejected: %s", b.name, why)
				}
				hist.Add("txn:real-signer-accepted")
				evals++
			}
		}
		add := func(name string, e []byte) { jobs = append(jobs, tjob{b, name, e}) }
		// byte level
		for bit := 0; bit < len(enc)*8; bit++ {
			e := append([]byte(nil), enc...)
			e[bit/8] ^= 1 << uint(bit%8)
			add(fmt.Sprintf("bit-flip#%d", bit), e)
		}
		for _, v := range []byte{0x00, 0x01, 0xff} {
			add("append-byte", append(append([]byte(nil), enc...), v))
			add("prepend-byte", append([]byte{v}, enc...))
		}
		add("drop-last-byte", enc[:len(enc)-1])
		add("drop-first-byte", enc[1:])
		// structured third-party edits, each without and with recomputation of the unsigned header fields (Length, InnerHash)
		edit := func(name string, f func(t *mtx.Tx) bool) {
			for _, fix := range []bool{false, true} {
				t := cloneTx(b.tx)
				if !f(t) {
					return
				}
				n := name
				if fix {
					c10FixHeader(t)
					n += "+header-recomputed"
				}
				if t.Encodable() {
					add(n, t.Encode())
				}
			}
		}
		for i := range b.tx.Sigs {
			i := i
			if b.tx.Sigs[i] == ([65]byte{}) {
				edit(fmt.Sprintf("fill-null-sig-with-attacker-sig#%d", i), func(t *mtx.Tx) bool {
					t.Sigs[i] = refSign(6, mtx.SigHash(t.Inner, t.In[i]))
					return true
				})
				continue
			}
			for _, tf := range c10Transforms(b.tx.Sigs[i], false) {
				tf := tf
				edit(fmt.Sprintf("sig[%d]:%s", i, tf.name), func(t *mtx.Tx) bool { t.Sigs[i] = tf.sig; return true })
			}
			edit(fmt.Sprintf("sig[%d]:attacker-signs-right-digest", i), func(t *mtx.Tx) bool {
				t.Sigs[i] = refSign(6, mtx.SigHash(t.Inner, t.In[i]))
				return true
			})
			edit(fmt.Sprintf("sig[%d]:owner-sig-of-other-digest", i), func(t *mtx.Tx) bool {
				t.Sigs[i] = refSign(b.keys[i], h32("c10-unrelated"))
				return true
			})
			for j := range b.tx.Sigs {
				j := j
				if j == i {
					continue
				}
				edit(fmt.Sprintf("copy-sig[%d]-over-sig[%d]", j, i), func(t *mtx.Tx) bool { t.Sigs[i] = t.Sigs[j]; return true })
				if j > i {
					edit(fmt.Sprintf("swap-sigs[%d,%d]", i, j), func(t *mtx.Tx) bool { t.Sigs[i], t.Sigs[j] = t.Sigs[j], t.Sigs[i]; return true })
					edit(fmt.Sprintf("swap-inputs-with-sigs[%d,%d]", i, j), func(t *mtx.Tx) bool {
						t.Sigs[i], t.Sigs[j] = t.Sigs[j], t.Sigs[i]
						t.In[i], t.In[j] = t.In[j], t.In[i]
						return true
					})
					edit(fmt.Sprintf("swap-inputs-without-sigs[%d,%d]", i, j), func(t *mtx.Tx) bool { t.In[i], t.In[j] = t.In[j], t.In[i]; return true })
				}
			}
			edit(fmt.Sprintf("drop-input-and-sig[%d]", i), func(t *mtx.Tx) bool {
				if len(t.In) < 2 {
					return false
				}
				t.In = append(t.In[:i:i], t.In[i+1:]...)
				t.Sigs = append(t.Sigs[:i:i], t.Sigs[i+1:]...)
				return true
			})
			edit(fmt.Sprintf("duplicate-input-and-sig[%d]", i), func(t *mtx.Tx) bool {
				t.In = append(t.In, t.In[i])
				t.Sigs = append(t.Sigs, t.Sigs[i])
				return true
			})
		}
		edit("add-attacker-owned-input-signed-by-attacker", func(t *mtx.Tx) bool {
			t.In = append(t.In, in(6))
			t.Out[0].Coins += 9e6
			inner := t.InnerHash()
			t.Sigs = append(t.Sigs, refSign(6, mtx.SigHash(inner, in(6))))
			return true
		})
		edit("resign-everything-with-attacker-key", func(t *mtx.Tx) bool {
			for i := range t.Sigs {
				t.Sigs[i] = refSign(6, mtx.SigHash(t.Inner, t.In[i]))
			}
			return true
		})
		for o := range b.tx.Out {
			o := o
			edit(fmt.Sprintf("out[%d]:address-to-attacker", o), func(t *mtx.Tx) bool { t.Out[o].Addr = addr21(fixKeys[6].Addr); return true })
			edit(fmt.Sprintf("out[%d]:coins+1", o), func(t *mtx.Tx) bool { t.Out[o].Coins++; return true })
			edit(fmt.Sprintf("out[%d]:coins-1", o), func(t *mtx.Tx) bool { t.Out[o].Coins--; return true })
			edit(fmt.Sprintf("out[%d]:hours+1", o), func(t *mtx.Tx) bool { t.Out[o].Hours++; return true })
			edit(fmt.Sprintf("out[%d]:hours-1", o), func(t *mtx.Tx) bool { t.Out[o].Hours--; return true })
			if o > 0 {
				edit(fmt.Sprintf("swap-outputs[0,%d]", o), func(t *mtx.Tx) bool { t.Out[0], t.Out[o] = t.Out[o], t.Out[0]; return true })
				edit(fmt.Sprintf("move-coin-out[%d]->out[0]", o), func(t *mtx.Tx) bool { t.Out[o].Coins -= 1e6 / 2; t.Out[0].Coins += 1e6 / 2; return true })
			}
		}
		edit("drop-last-output", func(t *mtx.Tx) bool {
			if len(t.Out) < 2 {
				return false
			}
			t.Out = t.Out[:len(t.Out)-1]
			return true
		})
		edit("append-attacker-output", func(t *mtx.Tx) bool { t.Out = append(t.Out, out(6, 1, 0)); return true })
		edit("type=1", func(t *mtx.Tx) bool { t.Type = 1; return true })
		edit("length+1", func(t *mtx.Tx) bool { t.Length++; return true })
		edit("length=0", func(t *mtx.Tx) bool { t.Length = 0; return true })
		edit("length=max", func(t *mtx.Tx) bool { t.Length = ^uint32(0); return true })
		edit("length-low-byte=0", func(t *mtx.Tx) bool { t.Length &^= 0xff; return true })
		edit("inner-hash-zeroed", func(t *mtx.Tx) bool { t.Inner = [32]byte{}; return true })
	}
	engine.ParFor(len(jobs), func(i int) {
		j := jobs[i]
		base := j.b.tx.Encode()
		if bytes.Equal(base, j.enc) {
			hist.Add("txn:transform-is-identity")
			return
		}
		atomic.AddInt64(&evals, 1)
		distinct.Add(j.b.name + hex.EncodeToString(j.enc))
		ok, why := accept(j.enc, j.b.flag)
		if ok {
			class := j.name
			if k := strings.IndexByte(class, '#'); k >= 0 {
				class = class[:k]
			}
			hist.Add("txn:MALLEATED-ACCEPTED")
			r.Failf("transaction:malleable:"+class, c10case{Object: j.b.name, Transform: j.name, Bytes: hex.EncodeToString(j.enc)},
				"%s after third-party edit %q has different bytes and still passes VerifySingleTxnHardConstraints against the same unspent outputs", j.b.name, j.name)
			return
		}
		hist.Add("txn:rejected")
		hist.Add("txn:rejected:" + why)
	})
	if hist.Len() < 8 {
		r.Broken("vacuous: transaction-level outcome classes %v", hist.Map())
	}
	return evals, distinct.Len(), hist.Map()
}

func firstWords(s string, n int) string {
	f := strings.Fields(s)
	if len(f) > n {
		f = f[:n]
	}
	return strings.Join(f, " ")
}

// --------------------------------------------------------------------------------------------------------------------
// Part C

func c10EncodeHeader(h coin.BlockHeader) []byte {
	b := make([]byte, 0, 124)
	var u [8]byte
	binary.LittleEndian.PutUint32(u[:4], h.Version)
	b = append(b, u[:4]...)
	for _, v := range []uint64{h.Time, h.BkSeq, h.Fee} {
		binary.LittleEndian.PutUint64(u[:], v)
		b = append(b, u[:]...)
	}
	b = append(b, h.PrevHash[:]...)
	b = append(b, h.BodyHash[:]...)
	b = append(b, h.UxHash[:]...)
	return b
}

func c10DecodeHeader(b []byte) (h coin.BlockHeader) {
	h.Version = binary.LittleEndian.Uint32(b[0:4])
	h.Time = binary.LittleEndian.Uint64(b[4:12])
	h.BkSeq = binary.LittleEndian.Uint64(b[12:20])
	h.Fee = binary.LittleEndian.Uint64(b[20:28])
	copy(h.PrevHash[:], b[28:60])
	copy(h.BodyHash[:], b[60:92])
	copy(h.UxHash[:], b[92:124])
	return
}

func c10Blocks(r *engine.Run) (int64, int, map[string]int) {
	hist := engine.NewCounter()
	distinct := engine.NewSet()
	var evals int64
	_, list, _ := c10Fixture()
	pub := fixKeys[7]
	mkTx := func(i int, to int) coin.Transaction {
		t := &mtx.Tx{In: [][32]byte{[32]byte(list[i].ux.Hash())}, Out: []mtx.Out{{Addr: addr21(fixKeys[to].Addr), Coins: list[i].ux.Body.Coins, Hours: 1}}}
		c10Finalize(t, []int{list[i].key})
		return toCoin(t)
	}
	for bn, body := range []coin.BlockBody{{Transactions: coin.Transactions{mkTx(0, 4)}}, {Transactions: coin.Transactions{mkTx(1, 4), mkTx(2, 5)}}} {
		head := coin.BlockHeader{Version: 0, Time: 1700007200, BkSeq: 11, Fee: 99, PrevHash: cipher.SHA256(h32("c10-blk-prev")), BodyHash: body.Hash(), UxHash: cipher.SHA256(h32("c10-uxhash"))}
		enc := c10EncodeHeader(head)
		if !bytes.Equal(enc, head.Bytes()) {
			r.Failf("BlockHeader.Bytes:differs-from-documented-layout", c10case{Object: "header", Bytes: hex.EncodeToString(head.Bytes())}, "header encoding differs from the reference layout")
		}
		name := fmt.Sprintf("block#%d", bn)
		digest := [32]byte(head.Hash())
		sig := refSign(7, digest)
		sb := coin.SignedBlock{Block: coin.Block{Head: head, Body: body}, Sig: cipher.Sig(sig)}
		evals++
		if err := sb.VerifySignature(pub.Pub); err != nil {
			r.Broken("fixture block signature not accepted: %v", err)
			continue
		}
		hist.Add("block:base-accepted")
		// the real signer
		rsig := cipher.MustSignHash(head.Hash(), pub.Sec)
		if ps := txnsecp.ParseSig([65]byte(rsig)); !txnsecp.LowS(ps.S) || ps.Recid >= 4 {
			r.Failf("signing:produces-non-low-s-or-bad-recid", c10case{Object: name, Sig: rsig.Hex()}, "block signature s=%s recid=%d", ps.S.Text(16), ps.Recid)
		}
		type bjob struct {
			name string
			head coin.BlockHeader
			sig  [65]byte
		}
		var jobs []bjob
		for bit := 0; bit < len(enc)*8; bit++ {
			e := append([]byte(nil), enc...)
			e[bit/8] ^= 1 << uint(bit%8)
			jobs = append(jobs, bjob{fmt.Sprintf("header-bit-flip#%d", bit), c10DecodeHeader(e), sig})
		}
		for _, tf := range c10Transforms(sig, true) {
			jobs = append(jobs, bjob{"block-sig:" + tf.name, head, tf.sig})
		}
		jobs = append(jobs, bjob{"block-sig:signed-by-non-publisher", head, refSign(6, digest)})
		engine.ParFor(len(jobs), func(i int) {
			j := jobs[i]
			if j.head == head && j.sig == sig {
				return
			}
			atomic.AddInt64(&evals, 1)
			distinct.Add(name + j.name)
			b := coin.SignedBlock{Block: coin.Block{Head: j.head, Body: body}, Sig: cipher.Sig(j.sig)}
			var err error
			pan, msg := engine.Catch(func() { err = b.VerifySignature(pub.Pub) })
			if pan {
				r.Failf("SignedBlock.VerifySignature:panic", c10case{Object: name, Transform: j.name}, "%s", msg)
				return
			}
			if err == nil {
				class := j.name
				if k := strings.IndexByte(class, '#'); k >= 0 {
					class = class[:k]
				}
				s := txnsecp.ParseSig(j.sig)
				if s.S.Cmp(txnsecp.HalfN) > 0 && txnsecp.HighBitClear(s.S) {
					class = "s-in-(n/2,2^255)"
				}
				hist.Add("block:MALLEATED-ACCEPTED")
				r.Failf("block-header:malleable:"+class, c10case{Object: name, Transform: j.name, Sig: hex.EncodeToString(j.sig[:]), Bytes: hex.EncodeToString(c10EncodeHeader(j.head))},
					"%s after %q differs from the signed block and SignedBlock.VerifySignature still accepts it", name, j.name)
				return
			}
			hist.Add("block:rejected")
		})
		// every bit of a body transaction is covered by the signed body hash
		for ti := range body.Transactions {
			tb, _ := body.Transactions[ti].Serialize()
			for bit := 0; bit < len(tb)*8; bit++ {
				e := append([]byte(nil), tb...)
				e[bit/8] ^= 1 << uint(bit%8)
				txn, err := coin.DeserializeTransaction(e)
				evals++
				if err != nil {
					hist.Add("block:body-flip-does-not-decode")
					continue
				}
				nb := coin.BlockBody{Transactions: append(coin.Transactions(nil), body.Transactions...)}
				nb.Transactions[ti] = txn
				distinct.Add(fmt.Sprintf("%s-body-%d-%d", name, ti, bit))
				if nb.Hash() == head.BodyHash {
					r.Failf("block-body:bit-not-covered-by-body-hash", c10case{Object: name, Transform: fmt.Sprintf("txn[%d] bit %d", ti, bit)}, "flipping bit %d of transaction %d leaves BlockBody.Hash unchanged", bit, ti)
				} else {
					hist.Add("block:body-flip-changes-body-hash")
				}
			}
		}
		if len(body.Transactions) > 1 {
			nb := coin.BlockBody{Transactions: coin.Transactions{body.Transactions[1], body.Transactions[0]}}
			evals++
			if nb.Hash() == head.BodyHash {
				r.Failf("block-body:order-not-covered-by-body-hash", c10case{Object: name, Transform: "swap transactions"}, "swapping the two transactions leaves BlockBody.Hash unchanged")
			} else {
				hist.Add("block:body-reorder-changes-body-hash")
			}
		}
	}
	return evals, distinct.Len(), hist.Map()
}
