package main

import (
	"bytes"
	"fmt"
	"math/big"
	"sort"
	"strings"
	"sync/atomic"

	"github.com/shopspring/decimal"

	"github.com/skycoin/skycoin/src/cipher"
	"github.com/skycoin/skycoin/src/coin"
	"github.com/skycoin/skycoin/src/params"
	"github.com/skycoin/skycoin/src/transaction"
	"github.com/skycoin/skycoin/src/util/fee"
	"github.com/skycoin/skycoin/src/util/logging"

	"verif/engine"
	mtx "verif/model/txn"
)

// C12 — spend construction is sound, complete and well formed.
//
// Full product: every non-empty subset (<= 3 of 6 typed outputs; thorough <= 4 of 8) of offered outputs × destination lists
// (all 1- and ordered 2-element lists over {(C,1e6),(C,2e6),(A,1e6),(B,5e5)} + 4 invalid lists) × hour modes (manual hours
// {0,1,9,10} per destination; auto/share {0, 0.5, 1, 0.3333}; 9 invalid mode combinations) × change address {nil, A, C, null}
// × user burn factor {10, 2, 3}.  Oracle (written from the statement): success => well formed unsigned transaction
// (real VerifyUnsigned AND the C09 reference predicate), inputs a duplicate-free subset of the offer, destinations paid
// exactly, remaining coins in one change output at the change address, automatic hours sum to the allotted amount,
// burned hours >= ceil(input hours / burn factor), deterministic; failure => user-level error type, and a lack-of-funds
// error only if NO subset of the offer covers coins, hours and a non-zero fee (brute force over all subsets).
func init() { register("C12", "exploration", c12) }

type c12ux struct {
	Owner string `json:"owner"`
	Coins uint64 `json:"coins"`
	Hours uint64 `json:"initial_hours"`
	AgeS  uint64 `json:"age_seconds"`
}

type c12dest struct {
	To    string `json:"to"`
	Coins uint64 `json:"coins"`
	Hours uint64 `json:"hours"`
}

type c12case struct {
	BurnFactor uint32    `json:"user_burn_factor"`
	Offered    []c12ux   `json:"offered"`
	To         []c12dest `json:"to"`
	HoursType  string    `json:"hours_type"`
	HoursMode  string    `json:"hours_mode"`
	Share      string    `json:"share_factor"`
	Change     string    `json:"change_address"`
	HeadTime   uint64    `json:"head_time"`
	Result     string    `json:"result"`
}

const c12Head = uint64(1700003600)

type c12mode struct {
	name    string
	typ     string
	mode    string
	share   string // "" = nil
	manual  bool
	invalid bool
	autoHrs bool // auto mode with a non-zero To.Hours (invalid)
}

func c12(r *engine.Run) {
	logging.Disable()
	A, B, C := fixKeys[0].Addr, fixKeys[1].Addr, fixKeys[2].Addr
	names := map[cipher.Address]string{A: "A", B: "B", C: "C", {}: "null"}
	typed := []struct {
		owner        cipher.Address
		coins, hours uint64
		age          uint64
	}{{A, 2e6, 1, 3600}, {A, 1e6, 0, 0}, {B, 1e6, 10, 0}, {B, 1001000, 1000, 3600}, {A, 2e6, 10, 3600}, {B, 2e6, 0, 0}, {A, 1e6, 100, 0}, {B, 1e6, 1, 0}}
	nTyped, maxSub := r.Pick(6, 8), r.Pick(3, 4)
	uxs := make([]coin.UxOut, nTyped)
	mux := make([]mtx.UxIn, nTyped)
	for i := 0; i < nTyped; i++ {
		t := typed[i]
		uxs[i] = coin.UxOut{Head: coin.UxHead{Time: c12Head - t.age, BkSeq: uint64(2 + i)},
			Body: coin.UxBody{SrcTransaction: cipher.SHA256(h32(fmt.Sprintf("c12-src-%d", i))), Address: t.owner, Coins: t.coins, Hours: t.hours}}
		mux[i] = mtx.UxIn{Owner: addr21(t.owner), Coins: t.coins, Hours: t.hours, Time: c12Head - t.age}
	}
	var subsets [][]int
	for m := 1; m < 1<<uint(nTyped); m++ {
		var s []int
		for i := 0; i < nTyped; i++ {
			if m>>uint(i)&1 == 1 {
				s = append(s, i)
			}
		}
		if len(s) <= maxSub {
			subsets = append(subsets, s)
		}
	}
	destEl := []coin.TransactionOutput{{Address: C, Coins: 1e6}, {Address: C, Coins: 2e6}, {Address: A, Coins: 1e6}, {Address: B, Coins: 5e5}}
	type dlist struct {
		name    string
		to      []coin.TransactionOutput
		invalid bool
	}
	var dlists []dlist
	for i := range destEl {
		dlists = append(dlists, dlist{to: []coin.TransactionOutput{destEl[i]}})
	}
	for i := range destEl {
		for j := range destEl {
			if i != j {
				dlists = append(dlists, dlist{to: []coin.TransactionOutput{destEl[i], destEl[j]}})
			}
		}
	}
	dlists = append(dlists,
		dlist{name: "no-receivers", invalid: true},
		dlist{name: "zero-coins", to: []coin.TransactionOutput{{Address: C, Coins: 0}}, invalid: true},
		dlist{name: "null-receiver", to: []coin.TransactionOutput{{Coins: 1e6}}, invalid: true},
		dlist{name: "duplicate-receiver", to: []coin.TransactionOutput{destEl[0], destEl[0]}, invalid: true})
	manualHours := []uint64{0, 1, 9, 10}
	if r.Thorough() {
		manualHours = []uint64{0, 1, 2, 9, 10, 45}
	}
	autoModes := []c12mode{{name: "auto-0", typ: "auto", mode: "share", share: "0"}, {name: "auto-0.5", typ: "auto", mode: "share", share: "0.5"},
		{name: "auto-1", typ: "auto", mode: "share", share: "1"}, {name: "auto-0.3333", typ: "auto", mode: "share", share: "0.3333"}}
	invalidModes := []c12mode{
		{name: "share-1.5", typ: "auto", mode: "share", share: "1.5", invalid: true},
		{name: "share--0.1", typ: "auto", mode: "share", share: "-0.1", invalid: true},
		{name: "auto-with-to-hours", typ: "auto", mode: "share", share: "0.5", invalid: true, autoHrs: true},
		{name: "manual-with-mode", typ: "manual", mode: "share", manual: true, invalid: true},
		{name: "manual-with-share", typ: "manual", share: "0.5", manual: true, invalid: true},
		{name: "bogus-type", typ: "bogus", invalid: true},
		{name: "empty-type", typ: "", invalid: true},
		{name: "auto-no-mode", typ: "auto", share: "0.5", invalid: true},
		{name: "auto-bogus-mode", typ: "auto", mode: "bogus", share: "0.5", invalid: true},
		{name: "auto-no-share", typ: "auto", mode: "share", invalid: true},
	}
	nullAddr := cipher.Address{}
	changes := []*cipher.Address{nil, &A, &C, &nullAddr}

	// one request = destination list (with hours filled in) + mode
	type request struct {
		to      []coin.TransactionOutput
		mode    c12mode
		invalid bool
	}
	var requests []request
	for _, dl := range dlists {
		// manual: every assignment of hours
		n := len(dl.to)
		combos := 1
		for i := 0; i < n; i++ {
			combos *= len(manualHours)
		}
		if n == 0 {
			combos = 1
		}
		if dl.invalid && n > 0 {
			combos = 1
		}
		for c := 0; c < combos; c++ {
			to := append([]coin.TransactionOutput(nil), dl.to...)
			k := c
			for i := range to {
				to[i].Hours = manualHours[k%len(manualHours)]
				k /= len(manualHours)
			}
			// two destinations identical in (address, coins, hours) are a duplicate receiver (invalid request)
			inv := dl.invalid
			requests = append(requests, request{to, c12mode{name: "manual", typ: "manual", manual: true}, inv})
		}
		for _, m := range autoModes {
			requests = append(requests, request{append([]coin.TransactionOutput(nil), dl.to...), m, dl.invalid})
		}
		if !dl.invalid && (n == 1 || (dl.to[0].Address == C && dl.to[0].Coins == 1e6)) {
			for _, m := range invalidModes {
				to := append([]coin.TransactionOutput(nil), dl.to...)
				if m.autoHrs {
					to[0].Hours = 5
				}
				requests = append(requests, request{to, m, true})
			}
		}
	}

	outcomes := engine.NewCounter()
	nontrivial := engine.NewSet()
	var evals, friendEvals int64
	var sampleOK, sampleErr, sampleH3 atomic.Value

	for _, bf := range []uint32{10, 2, 3} {
		saved := params.UserVerifyTxn.BurnFactor
		params.UserVerifyTxn.BurnFactor = bf
		bfB := big.NewInt(int64(bf))
		required := func(h *big.Int) *big.Int {
			q := new(big.Int).Add(h, new(big.Int).Sub(bfB, big.NewInt(1)))
			return q.Div(q, bfB)
		}
		remaining := func(h *big.Int) *big.Int { return new(big.Int).Sub(h, required(h)) }
		hoursOf := func(i int) *big.Int { return mtx.Accrued(mux[i], c12Head) }

		type job struct {
			sub []int
			req int
		}
		var jobs []job
		for _, s := range subsets {
			for q := range requests {
				jobs = append(jobs, job{s, q})
			}
		}
		engine.ParFor(len(jobs), func(ji int) {
			jb := jobs[ji]
			rq := requests[jb.req]
			var uxa coin.UxArray
			byHash := map[cipher.SHA256]int{}
			for _, i := range jb.sub {
				uxa = append(uxa, uxs[i])
				byHash[uxs[i].Hash()] = i
			}
			// brute force: does ANY subset of the offer cover coins, hours and a non-zero fee?
			var wantCoins, wantHours uint64
			for _, t := range rq.to {
				wantCoins += t.Coins
				if rq.mode.manual {
					wantHours += t.Hours
				}
			}
			coverable := false
			for m := 1; m < 1<<uint(len(jb.sub)); m++ {
				var c uint64
				h := new(big.Int)
				for k, i := range jb.sub {
					if m>>uint(k)&1 == 1 {
						c += uxs[i].Body.Coins
						h.Add(h, hoursOf(i))
					}
				}
				if c >= wantCoins && h.Sign() > 0 && remaining(h).Cmp(new(big.Int).SetUint64(wantHours)) >= 0 {
					coverable = true
					break
				}
			}
			for ci, ch := range changes {
				p := transaction.Params{To: append([]coin.TransactionOutput(nil), rq.to...), ChangeAddress: ch,
					HoursSelection: transaction.HoursSelection{Type: rq.mode.typ, Mode: rq.mode.mode}}
				var sf *big.Rat
				if rq.mode.share != "" {
					d := decimal.RequireFromString(rq.mode.share)
					p.HoursSelection.ShareFactor = &d
					sf, _ = new(big.Rat).SetString(rq.mode.share)
				}
				invalid := rq.invalid || (ch != nil && ch.Null())
				mkCase := func(res string) c12case {
					c := c12case{BurnFactor: bf, HoursType: rq.mode.typ, HoursMode: rq.mode.mode, Share: rq.mode.share, HeadTime: c12Head, Result: res, Change: "nil"}
					if ch != nil {
						c.Change = names[*ch]
					}
					for _, i := range jb.sub {
						c.Offered = append(c.Offered, c12ux{names[typed[i].owner], typed[i].coins, typed[i].hours, typed[i].age})
					}
					for _, t := range rq.to {
						c.To = append(c.To, c12dest{names[t.Address], t.Coins, t.Hours})
					}
					return c
				}
				var txn *coin.Transaction
				var inputs []transaction.UxBalance
				var err error
				pan, msg := engine.Catch(func() { txn, inputs, err = transaction.Create(p, coin.NewAddressUxOuts(uxa), c12Head) })
				atomic.AddInt64(&evals, 1)
				if pan {
					outcomes.Add("panic")
					r.Failf("transaction.Create:panic", mkCase("panic: "+msg), "panic: %s", msg)
					continue
				}
				if err != nil {
					_, isUser := err.(transaction.Error)
					isFee := err == fee.ErrTxnNoFee || err == fee.ErrTxnInsufficientCoinHours || err == fee.ErrTxnInsufficientFee
					lack := err == transaction.ErrInsufficientBalance || err == transaction.ErrInsufficientHours || err == transaction.ErrNoUnspents || isFee
					cls := "error:" + firstWords(err.Error(), 5)
					outcomes.Add(cls)
					if sampleErr.Load() == nil && lack {
						sampleErr.Store(mkCase(err.Error()))
					}
					switch {
					case !isUser && !isFee:
						r.Failf("transaction.Create:non-user-level-error:"+firstWords(err.Error(), 6), mkCase(err.Error()), "error is not a user-level error type (%T): %v", err, err)
					case invalid:
						// an invalid request failing with a user-level error: fine
					case !lack:
						// a user-level error for another reason: the statement allows it; counted so that it cannot hide
						outcomes.Add("user-level-error-on-valid-request")
					case coverable:
						r.Failf("transaction.Create:lack-of-funds-error-although-coverable:"+firstWords(err.Error(), 4), mkCase(err.Error()),
							"%v, but a subset of the offered outputs covers %d coins + %d hours with a non-zero fee", err, wantCoins, wantHours)
					default:
						nontrivial.Add(fmt.Sprintf("%d|%v|%d|%d", bf, jb.sub, jb.req, ci))
					}
					continue
				}
				// ---------------- success ----------------
				if invalid {
					outcomes.Add("ACCEPTED-INVALID-REQUEST")
					r.Failf("transaction.Create:accepts-invalid-request:"+rq.mode.name, mkCase("success"), "invalid request accepted")
					continue
				}
				outcomes.Add("created")
				if sampleOK.Load() == nil {
					sampleOK.Store(mkCase("created"))
				}
				nontrivial.Add(fmt.Sprintf("%d|%v|%d|%d", bf, jb.sub, jb.req, ci))
				fail := func(sig string, format string, a ...interface{}) {
					r.Failf("transaction.Create:"+sig, mkCase(fmt.Sprintf("created: in=%d out=%v", len(txn.In), txn.Out)), format, a...)
				}
				// 1. well formed (real judgement and reference judgement)
				mt := fromCoin(txn)
				bad := mtx.WellFormed(mt, false, nil)
				verr := txn.VerifyUnsigned()
				if verr != nil || len(bad) > 0 {
					sort.Strings(bad)
					disc := ""
					if n := len(txn.Out); n == len(rq.to)+1 {
						for _, o := range txn.Out[:n-1] {
							if o == txn.Out[n-1] {
								disc = ":change-output-equals-destination"
							}
						}
					}
					outcomes.Add("created-ILL-FORMED" + disc)
					if disc != "" {
						sampleH3.Store(mkCase(fmt.Sprintf("created %v; VerifyUnsigned: %v", txn.Out, verr)))
					}
					fail("result-not-well-formed:"+strings.Join(bad, "+")+disc, "created transaction is not well formed: VerifyUnsigned=%v reference=%v outputs=%v", verr, bad, txn.Out)
				}
				for _, s := range txn.Sigs {
					if !s.Null() {
						fail("result-not-unsigned", "created transaction carries a non-null signature")
					}
				}
				// 2. inputs: offered, distinct, consistent with the returned balances
				seen := map[cipher.SHA256]bool{}
				inCoins, inHours := uint64(0), new(big.Int)
				owners := map[cipher.Address]bool{}
				okInputs := len(inputs) == len(txn.In)
				for k, h := range txn.In {
					i, ok := byHash[h]
					if !ok || seen[h] {
						okInputs = false
						fail("spends-unoffered-or-repeated-input", "input %d (%s) is not an offered output or is repeated", k, h.Hex())
						continue
					}
					seen[h] = true
					inCoins += uxs[i].Body.Coins
					inHours.Add(inHours, hoursOf(i))
					owners[uxs[i].Body.Address] = true
					if k < len(inputs) && (inputs[k].Hash != h || inputs[k].Coins != uxs[i].Body.Coins || new(big.Int).SetUint64(inputs[k].Hours).Cmp(hoursOf(i)) != 0) {
						okInputs = false
					}
				}
				if !okInputs {
					fail("returned-inputs-inconsistent", "returned input balances do not describe the transaction's inputs")
				}
				// 3. destinations paid exactly
				if len(txn.Out) < len(rq.to) {
					fail("destination-missing", "%d outputs for %d destinations", len(txn.Out), len(rq.to))
					continue
				}
				destHours := new(big.Int)
				for k, t := range rq.to {
					o := txn.Out[k]
					if o.Address != t.Address || o.Coins != t.Coins || (rq.mode.manual && o.Hours != t.Hours) {
						fail("destination-not-paid-exactly", "output %d = %v, requested %v", k, o, t)
					}
					destHours.Add(destHours, new(big.Int).SetUint64(o.Hours))
				}
				// 4. change
				if inCoins < wantCoins {
					fail("inputs-do-not-cover-destinations", "inputs hold %d droplets, destinations need %d", inCoins, wantCoins)
					continue
				}
				changeCoins := inCoins - wantCoins
				hasChange := len(txn.Out) == len(rq.to)+1
				switch {
				case len(txn.Out) > len(rq.to)+1:
					fail("extra-outputs", "%d outputs for %d destinations", len(txn.Out), len(rq.to))
				case changeCoins == 0 && hasChange:
					fail("change-output-without-change", "no coins remain but a change output %v exists", txn.Out[len(rq.to)])
				case changeCoins > 0 && !hasChange:
					fail("remaining-coins-not-returned", "%d droplets remain but there is no change output", changeCoins)
				case changeCoins > 0:
					co := txn.Out[len(rq.to)]
					if co.Coins != changeCoins {
						fail("change-amount-wrong", "change output holds %d, remaining coins are %d", co.Coins, changeCoins)
					}
					if ch != nil && co.Address != *ch {
						fail("change-not-at-change-address", "change sent to %s, requested %s", co.Address, ch)
					}
					if ch == nil && !owners[co.Address] {
						fail("automatic-change-address-not-an-input-owner", "change sent to %s which owns none of the spent outputs", co.Address)
					} else if ch == nil {
						// documented on Create: "the address whose bytes are lexically sorted first is chosen from the owners of the outputs being spent"
						for o := range owners {
							if bytes.Compare(o.Bytes(), co.Address.Bytes()) < 0 {
								fail("automatic-change-address-not-the-lexically-first-owner", "change sent to %s although %s, which sorts before it, owns a spent output too", co.Address, o)
								break
							}
						}
					}
				}
				// 5. hours: nothing created, required fee burned
				outHours := new(big.Int)
				for _, o := range txn.Out {
					outHours.Add(outHours, new(big.Int).SetUint64(o.Hours))
				}
				burn := new(big.Int).Sub(inHours, outHours)
				if burn.Cmp(required(inHours)) < 0 || burn.Sign() <= 0 {
					fail("fee-not-burned", "input hours %s, output hours %s: burned %s < required %s", inHours, outHours, burn, required(inHours))
				}
				// 6. automatic hours sum exactly to the allotted amount
				if !rq.mode.manual && okInputs && len(txn.In) > 0 {
					allot := func(h *big.Int, f *big.Rat) *big.Int {
						x := new(big.Rat).Mul(f, new(big.Rat).SetInt(remaining(h)))
						return new(big.Int).Quo(x.Num(), x.Denom())
					}
					okAllot := destHours.Cmp(allot(inHours, sf)) == 0
					why := []string{fmt.Sprintf("share %s of %s remaining hours = %s", rq.mode.share, remaining(inHours), allot(inHours, sf))}
					if !okAllot && !hasChange {
						// documented fallback: no change output can carry the rest, the share becomes 100 %
						one := big.NewRat(1, 1)
						okAllot = destHours.Cmp(allot(inHours, one)) == 0
						why = append(why, fmt.Sprintf("100%% fallback = %s", allot(inHours, one)))
					}
					if !okAllot && len(txn.In) >= 2 {
						// documented: an extra input may be added after the hours were allotted, only to carry change
						last := byHash[txn.In[len(txn.In)-1]]
						if inCoins-uxs[last].Body.Coins == wantCoins {
							h := new(big.Int).Sub(inHours, hoursOf(last))
							okAllot = destHours.Cmp(allot(h, sf)) == 0
							why = append(why, fmt.Sprintf("before the change-carrying extra input = %s", allot(h, sf)))
						}
					}
					if !okAllot {
						fail("automatic-hours-do-not-sum-to-allotment", "destination hours sum to %s; admissible: %s", destHours, strings.Join(why, "; "))
					}
				}
				// 7. deterministic
				t2, _, err2 := transaction.Create(p, coin.NewAddressUxOuts(uxa), c12Head)
				if err2 != nil || t2.Hash() != txn.Hash() {
					fail("nondeterministic", "a second identical call returned a different result (err=%v)", err2)
				}
			}
		})

		// ---- the building blocks --------------------------------------------------------------------------------------
		for _, s := range subsets {
			var uxb []transaction.UxBalance
			byHash := map[cipher.SHA256]int{}
			totalC, totalH := uint64(0), new(big.Int)
			for _, i := range s {
				b, err := transaction.NewUxBalance(c12Head, uxs[i])
				if err != nil || new(big.Int).SetUint64(b.Hours).Cmp(hoursOf(i)) != 0 {
					r.Failf("transaction.NewUxBalance:hours-differ-from-reference", c12ux{names[typed[i].owner], typed[i].coins, typed[i].hours, typed[i].age}, "got %d (%v), reference %s", b.Hours, err, hoursOf(i))
				}
				uxb = append(uxb, b)
				byHash[b.Hash] = i
				totalC += uxs[i].Body.Coins
				totalH.Add(totalH, hoursOf(i))
			}
			for _, wantC := range []uint64{1, 5e5, 1e6, 1001000, 2e6, 3e6, 4e6, 5e6, 7e6} {
				for _, wantH := range []uint64{0, 1, 2, 3, 9, 10, 11, 900, 901, 1000, 2000} {
					for si, choose := range []func([]transaction.UxBalance, uint64, uint64) ([]transaction.UxBalance, error){transaction.ChooseSpendsMinimizeUxOuts, transaction.ChooseSpendsMaximizeUxOuts} {
						friendEvals++
						in := append([]transaction.UxBalance(nil), uxb...)
						var got []transaction.UxBalance
						var err error
						cs := map[string]interface{}{"burn_factor": bf, "offered": s, "coins": wantC, "hours": wantH, "strategy": []string{"minimize", "maximize"}[si]}
						if pan, msg := engine.Catch(func() { got, err = choose(in, wantC, wantH) }); pan {
							r.Failf("transaction.ChooseSpends:panic", cs, "%s", msg)
							continue
						}
						coverable := totalC >= wantC && totalH.Sign() > 0 && remaining(totalH).Cmp(new(big.Int).SetUint64(wantH)) >= 0
						if err != nil {
							outcomes.Add("choose:error")
							if coverable {
								r.Failf("transaction.ChooseSpends:lack-of-funds-error-although-coverable", cs, "%v although all offered outputs together cover the request", err)
							}
							continue
						}
						outcomes.Add("choose:chosen")
						seen := map[cipher.SHA256]bool{}
						c, h := uint64(0), new(big.Int)
						for _, g := range got {
							i, ok := byHash[g.Hash]
							if !ok || seen[g.Hash] {
								r.Failf("transaction.ChooseSpends:unoffered-or-repeated", cs, "chosen %s not offered or repeated", g.Hash.Hex())
							}
							seen[g.Hash] = true
							c += uxs[i].Body.Coins
							h.Add(h, hoursOf(i))
						}
						if c < wantC || h.Sign() == 0 || remaining(h).Cmp(new(big.Int).SetUint64(wantH)) < 0 {
							r.Failf("transaction.ChooseSpends:choice-does-not-cover-request", cs, "chosen outputs hold %d droplets / %s hours (remaining after fee %s)", c, h, remaining(h))
						}
					}
				}
			}
		}
		params.UserVerifyTxn.BurnFactor = saved
	}
	// DistributeCoinHoursProportional: shares sum exactly to the hours, none below its proportional floor
	coinAlpha := []uint64{1, 5e5, 1e6, 2e6, 1001000}
	var coinLists [][]uint64
	for _, a := range coinAlpha {
		coinLists = append(coinLists, []uint64{a})
		for _, b := range coinAlpha {
			coinLists = append(coinLists, []uint64{a, b})
			for _, c := range coinAlpha {
				coinLists = append(coinLists, []uint64{a, b, c})
			}
		}
	}
	hoursAlpha := []uint64{100, 999, 1000, 12345, 1 << 40}
	for h := uint64(0); h <= 30; h++ {
		hoursAlpha = append(hoursAlpha, h)
	}
	for _, cl := range coinLists {
		tot := new(big.Int)
		for _, c := range cl {
			tot.Add(tot, new(big.Int).SetUint64(c))
		}
		for _, h := range hoursAlpha {
			friendEvals++
			var got []uint64
			var err error
			cs := map[string]interface{}{"coins": cl, "hours": h}
			if pan, msg := engine.Catch(func() { got, err = transaction.DistributeCoinHoursProportional(cl, h) }); pan {
				r.Failf("DistributeCoinHoursProportional:panic", cs, "%s", msg)
				continue
			}
			if err != nil {
				r.Failf("DistributeCoinHoursProportional:unexpected-error", cs, "%v", err)
				continue
			}
			outcomes.Add("distribute:ok")
			sum := new(big.Int)
			okLen := len(got) == len(cl)
			for i := range got {
				sum.Add(sum, new(big.Int).SetUint64(got[i]))
				if okLen {
					floor := new(big.Int).Mul(new(big.Int).SetUint64(cl[i]), new(big.Int).SetUint64(h))
					floor.Div(floor, tot)
					if new(big.Int).SetUint64(got[i]).Cmp(floor) < 0 {
						r.Failf("DistributeCoinHoursProportional:share-below-proportional-floor", cs, "share %d = %d < floor %s", i, got[i], floor)
					}
				}
			}
			if !okLen || sum.Cmp(new(big.Int).SetUint64(h)) != 0 {
				r.Failf("DistributeCoinHoursProportional:shares-do-not-sum-to-hours", cs, "shares %v sum to %s, hours %d", got, sum, h)
			}
		}
	}

	// ---- automatic change address: every assignment of k owners to k spent outputs ------------------------------------------
	autoChange := c12AutoChange(r, outcomes)
	httpPart := c12HTTP(r, outcomes)

	// ---- vacuity -----------------------------------------------------------------------------------------------------------
	hist := outcomes.Map()
	for _, k := range []string{"created", "error:balance is not sufficient", "error:hours are not sufficient", "error:Transaction has zero coinhour fee", "choose:chosen", "choose:error", "distribute:ok"} {
		if hist[k] == 0 {
			r.Broken("vacuous: outcome class %q never seen (%v)", k, hist)
		}
	}
	nUserErr := 0
	for k := range hist {
		if strings.HasPrefix(k, "error:") {
			nUserErr++
		}
	}
	if nUserErr < 8 {
		r.Broken("vacuous: only %d distinct error classes", nUserErr)
	}
	r.Assumptions = append(r.Assumptions,
		"offered outputs: typed alphabet of 6 (quick) / 8 (thorough) outputs, every non-empty subset of at most 3 / 4; totals far below 2^63 (larger totals cannot occur with a conserved supply)",
		"user burn factor set through params.UserVerifyTxn.BurnFactor (the variable USER_BURN_FACTOR initialises) to 10, 2 and 3 in turn",
		"automatic change address: the owner of a spent output whose address bytes sort first (the rule documented on Create); the allotted amount of automatic hours may be the share of the remaining hours of the final inputs, of the inputs before a change-carrying extra input, or 100 % when no change output exists (the three cases the documentation of Create describes)",
		"Visor.CreateTransaction / the API layer on top of transaction.Create are not driven here")
	var samples []interface{}
	for _, v := range []*atomic.Value{&sampleOK, &sampleErr, &sampleH3} {
		if x := v.Load(); x != nil {
			samples = append(samples, x)
		}
	}
	r.Finish(engine.Coverage{
		"evaluations":         evals + friendEvals,
		"create_evaluations":  evals,
		"friend_evaluations":  friendEvals,
		"distinct_nontrivial": nontrivial.Len(),
		"rule":                "distinct (burn factor, offered subset, request, change address) tuples for which a transaction was created (all seven result obligations evaluated) or a lack-of-funds error was checked against the brute-force subset search",
		"exhaustive":          true,
		"outcome_histogram":   hist,
		"alphabet": map[string]interface{}{"offered_subsets": len(subsets), "requests": len(requests), "change_addresses": len(changes), "burn_factors": 3,
			"destination_lists": len(dlists), "manual_hours": manualHours, "share_factors": []string{"0", "0.5", "1", "0.3333"}},
		"samples":                  samples,
		"automatic_change_address": autoChange,
		"request_histories_through_the_http_handler": httpPart,
	})
}

// c12AutoChange: k = 2..5 outputs of equal coins (distinct hours, so that the selection order is fixed), all of which the
// request needs, owned by k distinct addresses in EVERY assignment (k! permutations) - so every arrangement of "rank of the
// owner" over the order in which the outputs are chosen occurs - and also with two outputs sharing an owner.  No change address
// is given: the change must go to the owner whose address bytes sort first.
func c12AutoChange(r *engine.Run, outcomes *engine.Counter) map[string]interface{} {
	addrs := make([]cipher.Address, 5)
	for i := range addrs {
		addrs[i] = fixKeys[i].Addr
	}
	sort.Slice(addrs, func(i, j int) bool { return bytes.Compare(addrs[i].Bytes(), addrs[j].Bytes()) < 0 })
	dest := fixKeys[6].Addr
	evals, assignments := 0, 0
	kmax := r.Pick(4, 5)
	for k := 2; k <= kmax; k++ {
		// all functions {outputs} -> {owner ranks 0..k-1} (k^k): permutations and shared owners alike
		total := 1
		for i := 0; i < k; i++ {
			total *= k
		}
		for code := 0; code < total; code++ {
			assign := make([]int, k)
			c := code
			for i := range assign {
				assign[i] = c % k
				c /= k
			}
			assignments++
			var uxa coin.UxArray
			least := k
			for i, rk := range assign {
				uxa = append(uxa, coin.UxOut{Head: coin.UxHead{Time: c12Head - 3600, BkSeq: uint64(2 + i)},
					Body: coin.UxBody{SrcTransaction: cipher.SHA256(h32(fmt.Sprintf("c12-auto-%d", i))), Address: addrs[rk], Coins: 1e6, Hours: uint64(100 * (i + 1))}})
				if rk < least {
					least = rk
				}
			}
			for _, mode := range []string{"manual", "auto"} {
				p := transaction.Params{To: []coin.TransactionOutput{{Address: dest, Coins: uint64(k)*1e6 - 5e5}}, HoursSelection: transaction.HoursSelection{Type: transaction.HoursSelectionTypeManual}}
				if mode == "auto" {
					sf := decimal.RequireFromString("0.5")
					p.HoursSelection = transaction.HoursSelection{Type: transaction.HoursSelectionTypeAuto, Mode: transaction.HoursSelectionModeShare, ShareFactor: &sf}
				}
				var txn *coin.Transaction
				var err error
				cs := map[string]interface{}{"part": "automatic change address", "owner_rank_of_each_output": assign, "hours_selection": mode}
				if pan, msg := engine.Catch(func() { txn, _, err = transaction.Create(p, coin.NewAddressUxOuts(uxa), c12Head) }); pan {
					r.Failf("transaction.Create:panic", cs, "owners %v: panic: %s", assign, msg)
					continue
				}
				evals++
				if err != nil {
					r.Failf("transaction.Create:lack-of-funds-error-although-coverable:auto-change", cs, "owners %v: all %d outputs cover the request, Create fails: %v", assign, k, err)
					continue
				}
				if len(txn.In) != k || len(txn.Out) != 2 {
					r.Failf("transaction.Create:auto-change:unexpected-shape", cs, "owners %v: %d inputs, %d outputs (expected %d and 2)", assign, len(txn.In), len(txn.Out), k)
					continue
				}
				outcomes.Add("auto-change:created")
				if got := txn.Out[1].Address; got != addrs[least] {
					r.Failf("transaction.Create:automatic-change-address-not-the-lexically-first-owner", cs,
						"outputs owned by the addresses of rank %v (by address bytes), all spent, no change address requested: change sent to %s, the lexically first owner is %s", assign, got, addrs[least])
				}
			}
		}
	}
	return map[string]interface{}{"what": "every assignment of owners (k^k, k = 2.." + fmt.Sprint(kmax) + ") to k spent outputs × hours selection, no change address given: change goes to the owner whose address bytes sort first",
		"assignments": assignments, "evaluations": evals}
}
