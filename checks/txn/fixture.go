package main

import (
	"crypto/sha256"
	"math/big"
	"sync"

	"github.com/skycoin/skycoin/src/cipher"
	"github.com/skycoin/skycoin/src/coin"

	mtx "verif/model/txn"
	"verif/model/txnsecp"
)

// Deterministic fixture keys shared by the four checks of the group.
type fixKey struct {
	Sec  cipher.SecKey
	Pub  cipher.PubKey
	Addr cipher.Address
	D    *big.Int // secret as an integer, for the reference signer
}

var fixKeys = func() []fixKey {
	_, secs := cipher.MustGenerateDeterministicKeyPairsSeed([]byte("verif-txn-fixture-keys-v1"), 8)
	out := make([]fixKey, len(secs))
	for i, s := range secs {
		p := cipher.MustPubKeyFromSecKey(s)
		out[i] = fixKey{Sec: s, Pub: p, Addr: cipher.AddressFromPubKey(p), D: new(big.Int).SetBytes(s[:])}
	}
	return out
}()

func addr21(a cipher.Address) (o [21]byte) {
	o[0] = a.Version
	copy(o[1:], a.Key[:])
	return
}

func addrFrom21(b [21]byte) (a cipher.Address) {
	a.Version = b[0]
	copy(a.Key[:], b[1:])
	return
}

// toCoin converts a reference transaction into the real type (nil slices for empty lists).
func toCoin(t *mtx.Tx) coin.Transaction {
	c := coin.Transaction{Length: t.Length, Type: t.Type, InnerHash: cipher.SHA256(t.Inner)}
	if len(t.Sigs) > 0 {
		c.Sigs = make([]cipher.Sig, len(t.Sigs))
		for i := range t.Sigs {
			c.Sigs[i] = cipher.Sig(t.Sigs[i])
		}
	}
	if len(t.In) > 0 {
		c.In = make([]cipher.SHA256, len(t.In))
		for i := range t.In {
			c.In[i] = cipher.SHA256(t.In[i])
		}
	}
	if len(t.Out) > 0 {
		c.Out = make([]coin.TransactionOutput, len(t.Out))
		for i := range t.Out {
			c.Out[i] = coin.TransactionOutput{Address: addrFrom21(t.Out[i].Addr), Coins: t.Out[i].Coins, Hours: t.Out[i].Hours}
		}
	}
	return c
}

func fromCoin(c *coin.Transaction) *mtx.Tx {
	t := &mtx.Tx{Length: c.Length, Type: c.Type, Inner: [32]byte(c.InnerHash)}
	for _, s := range c.Sigs {
		t.Sigs = append(t.Sigs, [65]byte(s))
	}
	for _, h := range c.In {
		t.In = append(t.In, [32]byte(h))
	}
	for _, o := range c.Out {
		t.Out = append(t.Out, mtx.Out{Addr: addr21(o.Address), Coins: o.Coins, Hours: o.Hours})
	}
	return t
}

// refSign signs digest z with fixture key k using the reference signer and a deterministic nonce (memoised):
// transactions built by the checks are therefore byte-for-byte reproducible.
var signCache sync.Map

func refSign(k int, z [32]byte) [65]byte {
	type ck struct {
		k int
		z [32]byte
	}
	if v, ok := signCache.Load(ck{k, z}); ok {
		return v.([65]byte)
	}
	d := fixKeys[k%len(fixKeys)].D
	zi := new(big.Int).SetBytes(z[:])
	for ctr := 0; ; ctr++ {
		s, ok := txnsecp.Sign(d, zi, txnsecp.Nonce(d, zi, ctr))
		if ok {
			b := s.Bytes()
			signCache.Store(ck{k, z}, b)
			return b
		}
	}
}

func h32(s string) [32]byte { return sha256.Sum256([]byte(s)) }
