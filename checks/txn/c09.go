package main

import (
	"bytes"
	"crypto/sha256"
	"encoding/hex"
	"fmt"
	"math/big"
	"os"
	"runtime/pprof"
	"sort"
	"strings"
	"sync/atomic"
	"time"

	"github.com/skycoin/skycoin/src/coin"

	"verif/engine"
	mtx "verif/model/txn"
	"verif/model/txnsecp"
)

// C09 — transaction validity is exactly the documented rule set.
//
// Alphabet: 9 base transactions (1..3 inputs × 1..3 outputs, signed by fixture keys with the reference signer, hence
// byte-reproducible) × ALL ORDERED PAIRS of 35 mutation operators (34 + "none") × {Verify, VerifyUnsigned}.
// Structural operators act before the header (Length, InnerHash) and the signatures are computed, tamper operators
// after it, so a mutated transaction violates exactly the clauses its operators aim at — and every pair of clauses meets.
// Oracle: model/txn.WellFormed (every clause of the statement evaluated independently, own encoder, own ECDSA recovery);
// accept/reject must agree.  Decode canonicality: every truncation, every single-byte substitution from
// {00,01,7f,80,ff} at every offset, all 256 values at the length/count prefixes, and 3 one-byte extensions of every
// distinct serialisation: DeserializeTransaction fails or re-serialises to the same bytes.
func init() { register("C09", "exploration", c09) }

type c09spec struct {
	tx      mtx.Tx
	nullPad int // inputs with index >= nullPad get a null signature at finalisation (-1: none)
}

type c09op struct {
	name   string
	tamper bool
	heavy  bool
	s      func(*c09spec) // structural
	t      func(*mtx.Tx)  // tamper
}

func c09Bases() []c09spec {
	var bases []c09spec
	for ni := 1; ni <= 3; ni++ {
		for no := 1; no <= 3; no++ {
			var t mtx.Tx
			for i := 0; i < ni; i++ {
				t.In = append(t.In, h32(fmt.Sprintf("c09-in-%d-%d-%d", ni, no, i)))
			}
			for o := 0; o < no; o++ {
				t.Out = append(t.Out, mtx.Out{Addr: addr21(fixKeys[3+o].Addr), Coins: uint64(1+o) * 1000000, Hours: uint64(10 * o)})
			}
			bases = append(bases, c09spec{tx: t, nullPad: -1})
		}
	}
	return bases
}

func sumOthers(outs []mtx.Out) *big.Int {
	s := new(big.Int)
	for _, o := range outs[1:] {
		s.Add(s, new(big.Int).SetUint64(o.Coins))
	}
	return s
}

func setSum(target *big.Int) func(*c09spec) {
	return func(s *c09spec) {
		if len(s.tx.Out) == 0 {
			return
		}
		if len(s.tx.Out) == 1 {
			s.tx.Out = append(s.tx.Out, mtx.Out{Addr: s.tx.Out[0].Addr, Coins: 5, Hours: 77})
		}
		v := new(big.Int).Sub(target, sumOthers(s.tx.Out))
		if v.Sign() > 0 && v.IsUint64() {
			s.tx.Out[0].Coins = v.Uint64()
		}
	}
}

func padIn(n int) func(*c09spec) {
	return func(s *c09spec) {
		if len(s.tx.In) >= n {
			return
		}
		if s.nullPad < 0 {
			s.nullPad = len(s.tx.In)
		}
		s.tx.In = append(make([][32]byte, 0, n), s.tx.In...)
		for i := len(s.tx.In); i < n; i++ {
			var h [32]byte
			h[0], h[1], h[2], h[3], h[31] = byte(i), byte(i>>8), byte(i>>16), 0xA5, 0x5A
			s.tx.In = append(s.tx.In, h)
		}
	}
}

func padOut(n int) func(*c09spec) {
	return func(s *c09spec) {
		a := addr21(fixKeys[7].Addr)
		if len(s.tx.Out) < n {
			s.tx.Out = append(make([]mtx.Out, 0, n), s.tx.Out...)
		}
		for i := len(s.tx.Out); i < n; i++ {
			s.tx.Out = append(s.tx.Out, mtx.Out{Addr: a, Coins: 1, Hours: uint64(1000000 + i)})
		}
	}
}

func withSig(i int, f func(txnsecp.Sig) txnsecp.Sig) func(*mtx.Tx) {
	return func(t *mtx.Tx) {
		if len(t.Sigs) == 0 {
			return
		}
		j := i
		if j < 0 {
			j = len(t.Sigs) - 1
		}
		if j >= len(t.Sigs) {
			return
		}
		ns := f(txnsecp.ParseSig(t.Sigs[j]))
		ns.R = new(big.Int).Mod(ns.R, new(big.Int).Lsh(big.NewInt(1), 256))
		ns.S = new(big.Int).Mod(ns.S, new(big.Int).Lsh(big.NewInt(1), 256))
		t.Sigs[j] = ns.Bytes()
	}
}

// smallest r >= 2 that is not the abscissa of a curve point
var c09NoPointX = func() *big.Int {
	for x := int64(2); ; x++ {
		if _, ok := txnsecp.LiftX(big.NewInt(x), false); !ok {
			return big.NewInt(x)
		}
	}
}()

func c09Ops() []c09op {
	two64 := new(big.Int).Lsh(big.NewInt(1), 64)
	ops := []c09op{
		{name: "none"},
		{name: "s-no-inputs", s: func(s *c09spec) { s.tx.In = nil }},
		{name: "s-no-outputs", s: func(s *c09spec) { s.tx.Out = nil }},
		{name: "s-dup-input", s: func(s *c09spec) {
			if len(s.tx.In) > 0 {
				s.tx.In = append(s.tx.In, s.tx.In[0])
			}
		}},
		{name: "s-add-input", s: func(s *c09spec) { s.tx.In = append(s.tx.In, h32(fmt.Sprintf("c09-extra-in-%d", len(s.tx.In)))) }},
		{name: "s-dup-output", s: func(s *c09spec) {
			if len(s.tx.Out) > 0 {
				s.tx.Out = append(s.tx.Out, s.tx.Out[0])
			}
		}},
		{name: "s-near-dup-output-hours+1", s: func(s *c09spec) {
			if len(s.tx.Out) > 0 {
				o := s.tx.Out[0]
				o.Hours++
				s.tx.Out = append(s.tx.Out, o)
			}
		}},
		{name: "s-near-dup-output-other-address", s: func(s *c09spec) {
			if len(s.tx.Out) > 0 {
				o := s.tx.Out[0]
				o.Addr[20] ^= 1
				s.tx.Out = append(s.tx.Out, o)
			}
		}},
		{name: "s-type-1", s: func(s *c09spec) { s.tx.Type = 1 }},
		{name: "s-type-255", s: func(s *c09spec) { s.tx.Type = 255 }},
		{name: "s-zero-coin-last-output", s: func(s *c09spec) {
			if n := len(s.tx.Out); n > 0 {
				s.tx.Out[n-1].Coins = 0
			}
		}},
		{name: "s-coins-sum-2^64", s: setSum(two64)},
		{name: "s-coins-sum-2^64-1", s: setSum(new(big.Int).Sub(two64, big.NewInt(1)))},
		{name: "s-65535-inputs", heavy: true, s: padIn(65535)},
		{name: "s-65536-inputs", heavy: true, s: padIn(65536)},
		{name: "s-65535-outputs", heavy: true, s: padOut(65535)},
		{name: "s-65536-outputs", heavy: true, s: padOut(65536)},

		{name: "t-add-signature", tamper: true, t: func(t *mtx.Tx) {
			if len(t.Sigs) > 0 {
				t.Sigs = append(t.Sigs, t.Sigs[0])
			} else {
				t.Sigs = append(t.Sigs, refSign(0, h32("c09-lonely-sig")))
			}
		}},
		{name: "t-drop-last-signature", tamper: true, t: func(t *mtx.Tx) {
			if n := len(t.Sigs); n > 0 {
				t.Sigs = t.Sigs[:n-1]
			}
		}},
		{name: "t-length+1", tamper: true, t: func(t *mtx.Tx) { t.Length++ }},
		{name: "t-length-1", tamper: true, t: func(t *mtx.Tx) { t.Length-- }},
		{name: "t-length-0", tamper: true, t: func(t *mtx.Tx) { t.Length = 0 }},
		{name: "t-length-max", tamper: true, t: func(t *mtx.Tx) { t.Length = ^uint32(0) }},
		{name: "t-length-low-byte-0", tamper: true, t: func(t *mtx.Tx) { t.Length &^= 0xff }},
		{name: "t-inner-hash-bit-flip", tamper: true, t: func(t *mtx.Tx) { t.Inner[0] ^= 1 }},
		{name: "t-null-sig-first", tamper: true, t: func(t *mtx.Tx) {
			if len(t.Sigs) > 0 {
				t.Sigs[0] = [65]byte{}
			}
		}},
		{name: "t-null-sig-last", tamper: true, t: func(t *mtx.Tx) {
			if n := len(t.Sigs); n > 0 {
				t.Sigs[n-1] = [65]byte{}
			}
		}},
		{name: "t-null-sig-all", tamper: true, t: func(t *mtx.Tx) {
			for i := range t.Sigs {
				t.Sigs[i] = [65]byte{}
			}
		}},
		{name: "t-recid-4", tamper: true, t: withSig(0, func(s txnsecp.Sig) txnsecp.Sig { s.Recid = 4; return s })},
		{name: "t-recid-xor-1", tamper: true, t: withSig(0, func(s txnsecp.Sig) txnsecp.Sig { s.Recid ^= 1; return s })},
		{name: "t-recid-or-2", tamper: true, t: withSig(-1, func(s txnsecp.Sig) txnsecp.Sig { s.Recid |= 2; return s })},
		{name: "t-s-negated", tamper: true, t: withSig(0, func(s txnsecp.Sig) txnsecp.Sig {
			s.S = new(big.Int).Sub(txnsecp.N, s.S)
			s.Recid ^= 1
			return s
		})},
		{name: "t-r-zero", tamper: true, t: withSig(0, func(s txnsecp.Sig) txnsecp.Sig { s.R = new(big.Int); return s })},
		// crafted signature with a tiny r (below p-n, so that r+n is a field element too) and every recovery id: with recid 2/3 the
		// nonce point must be lifted from x = r+n, whether a key can be recovered differs between r and r+n
		{name: "t-tiny-r1-s1-recid0", tamper: true, t: withSig(0, func(s txnsecp.Sig) txnsecp.Sig { return txnsecp.Sig{R: big.NewInt(1), S: big.NewInt(1), Recid: 0} })},
		{name: "t-tiny-r1-s1-recid1", tamper: true, t: withSig(0, func(s txnsecp.Sig) txnsecp.Sig { return txnsecp.Sig{R: big.NewInt(1), S: big.NewInt(1), Recid: 1} })},
		{name: "t-tiny-r1-s1-recid2", tamper: true, t: withSig(0, func(s txnsecp.Sig) txnsecp.Sig { return txnsecp.Sig{R: big.NewInt(1), S: big.NewInt(1), Recid: 2} })},
		{name: "t-tiny-r1-s1-recid3", tamper: true, t: withSig(0, func(s txnsecp.Sig) txnsecp.Sig { return txnsecp.Sig{R: big.NewInt(1), S: big.NewInt(1), Recid: 3} })},
		{name: "t-tiny-r7-s1-recid0", tamper: true, t: withSig(0, func(s txnsecp.Sig) txnsecp.Sig { return txnsecp.Sig{R: big.NewInt(7), S: big.NewInt(1), Recid: 0} })},
		{name: "t-tiny-r7-s1-recid1", tamper: true, t: withSig(0, func(s txnsecp.Sig) txnsecp.Sig { return txnsecp.Sig{R: big.NewInt(7), S: big.NewInt(1), Recid: 1} })},
		{name: "t-tiny-r7-s1-recid2", tamper: true, t: withSig(0, func(s txnsecp.Sig) txnsecp.Sig { return txnsecp.Sig{R: big.NewInt(7), S: big.NewInt(1), Recid: 2} })},
		{name: "t-tiny-r7-s1-recid3", tamper: true, t: withSig(0, func(s txnsecp.Sig) txnsecp.Sig { return txnsecp.Sig{R: big.NewInt(7), S: big.NewInt(1), Recid: 3} })},
		{name: "t-s-zero", tamper: true, t: withSig(-1, func(s txnsecp.Sig) txnsecp.Sig { s.S = new(big.Int); return s })},
		{name: "t-r-equals-order", tamper: true, t: withSig(0, func(s txnsecp.Sig) txnsecp.Sig { s.R = new(big.Int).Set(txnsecp.N); return s })},
		{name: "t-r-not-on-curve", tamper: true, t: withSig(0, func(s txnsecp.Sig) txnsecp.Sig {
			s.R = new(big.Int).Set(c09NoPointX)
			s.Recid &= 1
			return s
		})},
		{name: "t-sig-of-other-message", tamper: true, t: func(t *mtx.Tx) {
			if len(t.Sigs) > 0 {
				t.Sigs[0] = refSign(0, h32("c09-some-other-message"))
			}
		}},
		{name: "t-swap-first-last-sig", tamper: true, t: func(t *mtx.Tx) {
			if n := len(t.Sigs); n > 1 {
				t.Sigs[0], t.Sigs[n-1] = t.Sigs[n-1], t.Sigs[0]
			}
		}},
	}
	return ops
}

func c09Clone(s c09spec) c09spec {
	c := c09spec{nullPad: s.nullPad}
	c.tx = s.tx
	c.tx.In = append([][32]byte(nil), s.tx.In...)
	c.tx.Out = append([]mtx.Out(nil), s.tx.Out...)
	c.tx.Sigs = nil
	return c
}

// c09Build applies (op1, op2) to a base: structural operators in order, finalise, tamper operators in order.
func c09Build(base c09spec, a, b c09op) *mtx.Tx {
	s := c09Clone(base)
	for _, op := range []c09op{a, b} {
		if op.s != nil {
			op.s(&s)
		}
	}
	t := &s.tx
	t.Sigs = make([][65]byte, len(t.In))
	t.Length = uint32(t.EncodedSize())
	t.Inner = t.InnerHash()
	for i := range t.In {
		if s.nullPad >= 0 && i >= s.nullPad {
			continue
		}
		t.Sigs[i] = refSign(i, mtx.SigHash(t.Inner, t.In[i]))
	}
	if len(t.Sigs) == 0 {
		t.Sigs = nil
	}
	for _, op := range []c09op{a, b} {
		if op.t != nil {
			op.t(t)
		}
	}
	return t
}

type c09case struct {
	Base   string `json:"base"`
	Op1    string `json:"op1"`
	Op2    string `json:"op2"`
	Mode   string `json:"mode"`
	TxHex  string `json:"tx_hex,omitempty"`
	Expect string `json:"reference_verdict"`
	Got    string `json:"real_verdict"`
}

func c09(r *engine.Run) {
	r.RaceWorkload = "transactions" // supplement: free-running race-detector pass over the same API (can only add findings)
	if pf := os.Getenv("VERIF_PROFILE"); pf != "" {
		f, _ := os.Create(pf)
		pprof.StartCPUProfile(f)
		defer pprof.StopCPUProfile()
	}
	bases := c09Bases()
	ops := c09Ops()
	cache := mtx.NewRecCache()
	outcomes := engine.NewCounter()
	reasons := engine.NewCounter()
	decodeOutcomes := engine.NewCounter()
	nontrivial := engine.NewSet()
	distinctTx := engine.NewSet()
	corpusSeen := engine.NewSet()
	var evals, decodes, encAgree int64

	heavyBase := func(bi int) bool {
		if r.Thorough() {
			return bi == 0 || bi == 4 || bi == 8
		}
		return bi == 4 // quick: the 65535/65536 element operators only on the 2in-2out base (thorough: the 1in-1out, 2in-2out and 3in-3out bases)
	}

	// quick tier: the four 65535/65536-element operators meet only these partners (both orders); thorough: every operator
	heavyPartner := map[string]bool{"none": true, "s-no-outputs": true, "s-dup-input": true, "t-length+1": true, "t-null-sig-all": true,
		"s-65535-inputs": true, "s-65536-inputs": true, "s-65535-outputs": true, "s-65536-outputs": true}
	type job struct{ bi, i, j int }
	var jobs []job
	for bi := range bases {
		for i := range ops {
			for j := range ops {
				if (ops[i].heavy || ops[j].heavy) && !(heavyBase(bi) && (r.Thorough() || heavyPartner[ops[i].name] && heavyPartner[ops[j].name])) {
					continue
				}
				jobs = append(jobs, job{bi, i, j})
			}
		}
	}
	// serialisations kept for the canonicality part
	type ser struct {
		b    []byte
		name string
	}
	serC := make(chan ser, 1024)
	var sers []ser
	done := make(chan struct{})
	go func() {
		for s := range serC {
			sers = append(sers, s)
		}
		close(done)
	}()

	// the 65535/65536-element jobs allocate tens of MB each: run them on few workers (page-fault contention), the rest on all cores
	var light, heavy []job
	for _, jb := range jobs {
		if ops[jb.i].heavy || ops[jb.j].heavy {
			heavy = append(heavy, jb)
		} else {
			light = append(light, jb)
		}
	}
	runJob := func(jb job) {
		t := c09Build(bases[jb.bi], ops[jb.i], ops[jb.j])
		baseName := fmt.Sprintf("%din-%dout", len(bases[jb.bi].tx.In), len(bases[jb.bi].tx.Out))
		var enc []byte
		id := ""
		if t.Encodable() {
			enc = t.Encode()
			id = string(mtxKey(enc))
		} else {
			id = fmt.Sprintf("unencodable:%s/%s/%s", baseName, ops[jb.i].name, ops[jb.j].name)
		}
		fresh := distinctTx.Add(id)
		ct := toCoin(t)
		// the independent encoder and the real one must agree (Length / InnerHash of the oracle depend on it)
		if fresh {
			realEnc, err := ct.Serialize()
			if t.Encodable() != (err == nil) {
				r.Failf("Transaction.Serialize:encodability-differs", c09case{Base: baseName, Op1: ops[jb.i].name, Op2: ops[jb.j].name},
					"reference encodable=%v, Serialize error=%v", t.Encodable(), err)
			} else if err == nil {
				atomic.AddInt64(&encAgree, 1)
				if !bytes.Equal(realEnc, enc) {
					r.Failf("Transaction.Serialize:bytes-differ-from-documented-layout", c09case{Base: baseName, Op1: ops[jb.i].name, Op2: ops[jb.j].name, TxHex: hexCap(enc)},
						"reference encoding %d bytes, real %d bytes", len(enc), len(realEnc))
				}
			}
		}
		// canonicality corpus: membership must not depend on which of several jobs producing the same bytes ran first
		if enc != nil && len(enc) <= 1200 && (r.Thorough() || jb.i == 0 || jb.j == 0 || jb.bi == 4) && corpusSeen.Add(id) {
			serC <- ser{enc, baseName + "/" + ops[jb.i].name + "/" + ops[jb.j].name}
		}
		badS, badU := mtx.WellFormedBoth(t, cache)
		for _, signed := range []bool{true, false} {
			mode, bad := "Verify", badS
			if !signed {
				mode, bad = "VerifyUnsigned", badU
			}
			var err error
			pan, msg := engine.Catch(func() {
				if signed {
					err = ct.Verify()
				} else {
					err = ct.VerifyUnsigned()
				}
			})
			atomic.AddInt64(&evals, 1)
			exp := "accept"
			if len(bad) > 0 {
				exp = "reject:" + strings.Join(bad, "+")
				if fresh {
					nontrivial.Add(mode + id)
				}
				for _, b := range bad {
					reasons.Add(b)
				}
				outcomes.Add(mode + ":reject")
			} else {
				outcomes.Add(mode + ":accept")
			}
			if !pan && (err == nil) == (len(bad) == 0) {
				continue
			}
			cs := c09case{Base: baseName, Op1: ops[jb.i].name, Op2: ops[jb.j].name, Mode: mode, TxHex: hexCap(enc), Expect: exp}
			switch {
			case pan:
				cs.Got = "panic: " + msg
				r.Failf("Transaction."+mode+":panic", cs, "%s/%s/%s: panic %s", baseName, ops[jb.i].name, ops[jb.j].name, msg)
			case err == nil && len(bad) > 0:
				cs.Got = "accept"
				sort.Strings(bad)
				r.Failf("Transaction."+mode+":accepts-ill-formed:"+strings.Join(bad, "+"), cs,
					"%s on base %s after %s, %s accepted a transaction violating: %s", mode, baseName, ops[jb.i].name, ops[jb.j].name, strings.Join(bad, ", "))
			case err != nil && len(bad) == 0:
				cs.Got = "reject: " + err.Error()
				r.Failf("Transaction."+mode+":rejects-well-formed", cs,
					"%s on base %s after %s, %s rejected a well formed transaction: %v", mode, baseName, ops[jb.i].name, ops[jb.j].name, err)
			}
		}
	}
	heavyDone := make(chan struct{})
	var lightPhase float64
	go func() {
		engine.ParFor(len(light), func(k int) { runJob(light[k]) })
		lightPhase = r.Elapsed().Seconds()
		close(heavyDone)
	}()
	engine.ParForN(r.Pick(3, 6), len(heavy), func(k int) {
		t0 := time.Now()
		runJob(heavy[k])
		if os.Getenv("VERIF_DEBUG") != "" {
			fmt.Fprintf(os.Stderr, "heavy %s/%s %.2fs\n", ops[heavy[k].i].name, ops[heavy[k].j].name, time.Since(t0).Seconds())
		}
	})
	<-heavyDone
	close(serC)
	<-done
	verdictPhase := r.Elapsed().Seconds()
	if os.Getenv("VERIF_PROFILE") != "" {
		pprof.StopCPUProfile()
	}
	sort.Slice(sers, func(i, j int) bool { return bytes.Compare(sers[i].b, sers[j].b) < 0 })

	// ---- decode canonicality -------------------------------------------------------------------------------------
	subs := []byte{0x00, 0x01, 0x7f, 0x80, 0xff}
	checkDecode := func(b []byte, origin string, kind string) {
		atomic.AddInt64(&decodes, 1)
		var tx coin.Transaction
		var err error
		pan, msg := engine.Catch(func() { tx, err = coin.DeserializeTransaction(b) })
		if pan {
			r.Failf("DeserializeTransaction:panic", map[string]string{"origin": origin, "kind": kind, "bytes": hexCap(b)}, "%s of %s: panic %s", kind, origin, msg)
			return
		}
		if err != nil {
			decodeOutcomes.Add(kind + ":fails")
			return
		}
		re, err := tx.Serialize()
		if err != nil || !bytes.Equal(re, b) {
			r.Failf("DeserializeTransaction:non-canonical-decode:"+kind, map[string]string{"origin": origin, "kind": kind, "bytes": hexCap(b), "reencoded": hexCap(re)},
				"%s of %s decodes, but re-serialises to different bytes (%d -> %d bytes, err=%v)", kind, origin, len(b), len(re), err)
			return
		}
		decodeOutcomes.Add(kind + ":decodes-canonically")
	}
	engine.ParFor(len(sers), func(k int) {
		b := sers[k].b
		// the unmodified serialisation must decode to the same fields
		atomic.AddInt64(&decodes, 1)
		tx, err := coin.DeserializeTransaction(b)
		if err != nil {
			r.Failf("DeserializeTransaction:rejects-own-serialisation", map[string]string{"origin": sers[k].name, "bytes": hexCap(b)}, "%s: %v", sers[k].name, err)
		} else if !bytes.Equal(fromCoin(&tx).Encode(), b) {
			r.Failf("DeserializeTransaction:roundtrip-differs", map[string]string{"origin": sers[k].name, "bytes": hexCap(b)}, "%s: fields differ after decode", sers[k].name)
		} else {
			decodeOutcomes.Add("identity:decodes-canonically")
		}
		buf := make([]byte, len(b)+1)
		for n := 0; n < len(b); n++ {
			checkDecode(b[:n], sers[k].name, "truncation")
		}
		nSig := int(uint32(b[37]) | uint32(b[38])<<8 | uint32(b[39])<<16 | uint32(b[40])<<24)
		prefix := map[int]bool{0: true, 1: true, 2: true, 3: true, 37: true, 38: true, 39: true, 40: true}
		if o := 41 + 65*nSig; o+4 <= len(b) {
			nIn := int(uint32(b[o]) | uint32(b[o+1])<<8 | uint32(b[o+2])<<16 | uint32(b[o+3])<<24)
			for i := 0; i < 4; i++ {
				prefix[o+i] = true
			}
			if o2 := o + 4 + 32*nIn; o2+4 <= len(b) {
				for i := 0; i < 4; i++ {
					prefix[o2+i] = true
				}
			}
		}
		for off := 0; off < len(b); off++ {
			vals := subs
			if prefix[off] {
				vals = allBytes
			}
			for _, v := range vals {
				if b[off] == v {
					continue
				}
				copy(buf, b)
				buf[off] = v
				kind := "substitution"
				if prefix[off] {
					kind = "prefix-substitution"
				}
				checkDecode(buf[:len(b)], sers[k].name, kind)
			}
		}
		for _, v := range []byte{0x00, 0x01, 0xff} {
			copy(buf, b)
			buf[len(b)] = v
			checkDecode(buf, sers[k].name, "extension")
		}
	})

	// ---- vacuity guards ------------------------------------------------------------------------------------------
	wantReasons := []string{mtx.NoInputs, mtx.NoOutputs, mtx.SigCount, mtx.TooMany, mtx.DupInput, mtx.DupOutput, mtx.BadType, mtx.ZeroCoins,
		mtx.CoinsOverflow, mtx.BadLength, mtx.BadInner, mtx.NullSig, mtx.BadSig, mtx.NoNullSig}
	for _, w := range wantReasons {
		if reasons.Get(w) == 0 {
			r.Broken("vacuous: clause %q never violated by the alphabet", w)
		}
	}
	for _, k := range []string{"Verify:accept", "Verify:reject", "VerifyUnsigned:accept", "VerifyUnsigned:reject"} {
		if outcomes.Get(k) < 20 {
			r.Broken("vacuous: outcome class %s seen %d times", k, outcomes.Get(k))
		}
	}
	for _, k := range []string{"truncation:fails", "substitution:decodes-canonically", "prefix-substitution:fails", "extension:fails", "identity:decodes-canonically"} {
		if decodeOutcomes.Get(k) == 0 {
			r.Broken("vacuous: decode outcome class %s never seen (%v)", k, decodeOutcomes.Map())
		}
	}
	hist := outcomes.Map()
	for k, v := range reasons.Map() {
		hist["violated:"+k] = v
	}
	for k, v := range decodeOutcomes.Map() {
		hist["decode:"+k] = v
	}
	r.Assumptions = append(r.Assumptions,
		"bounded to 9 base shapes (1..3 inputs × 1..3 outputs) and all ordered pairs of the listed operators; element counts 65535/65536 reached by padding with null-signed inputs / 1-droplet outputs",
		"signature clause decided by a textbook big.Int ECDSA recovery (model/txnsecp); error texts are not compared, only accept/reject",
		"65535/65536-element operators on 1 (quick) / 3 (thorough) of the 9 bases and, in the quick tier, paired only with 5 selected partner operators and each other (thorough: with all); quick tier: canonicality corpus = single-operator serialisations of all bases + all pairs of the 2in-2out base; thorough: everything",
		"byte-level decode mutations only on serialisations of at most 1200 bytes")
	opNames := make([]string, len(ops))
	for i := range ops {
		opNames[i] = ops[i].name
	}
	sample := func(bi, i, j int) c09case {
		t := c09Build(bases[bi], ops[i], ops[j])
		bad := mtx.WellFormed(t, true, cache)
		return c09case{Base: fmt.Sprintf("base#%d", bi), Op1: ops[i].name, Op2: ops[j].name, Mode: "Verify", TxHex: hexCap(t.Encode()), Expect: strings.Join(bad, "+")}
	}
	r.Finish(engine.Coverage{
		"evaluations":           evals + decodes,
		"verdict_evaluations":   evals,
		"decode_evaluations":    decodes,
		"distinct_transactions": distinctTx.Len(),
		"distinct_nontrivial":   nontrivial.Len(),
		"rule":                  "distinct (mode, mutated transaction bytes) on which the reference predicate rejects, i.e. at least one clause of the statement is violated",
		"encoder_agreements":    encAgree,
		"canonicality_corpus":   len(sers),
		"verdict_phase_s":       verdictPhase,
		"light_phase_s":         lightPhase,
		"reference_recoveries":  cache.Len(),
		"exhaustive":            true,
		"outcome_histogram":     hist,
		"alphabet":              map[string]interface{}{"bases": len(bases), "operators": opNames, "ordered_pairs_per_base": len(ops) * len(ops), "jobs": len(jobs), "modes": 2, "substitution_bytes": 5},
		"samples":               []interface{}{sample(4, 5, 20), sample(0, 28, 0), sample(8, 11, 24)},
	})
}

var allBytes = func() []byte {
	b := make([]byte, 256)
	for i := range b {
		b[i] = byte(i)
	}
	return b
}()

func hexCap(b []byte) string {
	if len(b) > 1500 {
		return hex.EncodeToString(b[:1500]) + fmt.Sprintf("…(%d bytes)", len(b))
	}
	return hex.EncodeToString(b)
}

func mtxKey(enc []byte) []byte {
	if len(enc) <= 64 {
		return enc
	}
	h := sha256.Sum256(enc)
	return h[:]
}
