package main

import (
	"bytes"
	"encoding/json"
	"fmt"
	"net/http/httptest"
	"sort"
	"strings"

	"github.com/skycoin/skycoin/src/api"
	"github.com/skycoin/skycoin/src/cipher"
	"github.com/skycoin/skycoin/src/coin"
	"github.com/skycoin/skycoin/src/transaction"
	"github.com/skycoin/skycoin/src/visor"

	"verif/engine"
)

// C12 part H — spend construction as a client of one running node sees it: the real handler of POST /api/v2/transaction over a
// gateway that does what Visor.CreateTransaction does once the outputs are looked up (the real transaction.Create on a fixed set
// of owned outputs).  One handler value serves a whole sequence of requests.  The request alphabet gives or leaves out every
// optional field; every sequence of 2 (thorough 3) requests is run, and every answer must be (1) what a fresh handler answers to
// that request alone and (2) for an accepted request, a transaction that pays the destination exactly and sends the rest to the
// change address THIS request names - the given one, else the owner of a spent output whose address bytes sort first.

type c12Gateway struct {
	api.Gatewayer
	auxs coin.AddressUxOuts
}

func (g *c12Gateway) CreateTransaction(p transaction.Params, wp visor.CreateTransactionParams) (*coin.Transaction, []visor.TransactionInput, error) {
	auxs := make(coin.AddressUxOuts)
	for _, a := range wp.Addresses {
		if uxs, ok := g.auxs[a]; ok {
			auxs[a] = uxs
		}
	}
	txn, uxb, err := transaction.Create(p, auxs, c12Head)
	if err != nil {
		return nil, nil, err
	}
	return txn, visor.NewTransactionInputsFromUxBalance(uxb), nil
}

type c12Req struct {
	Name string
	Body string
	// what the request means
	Change string // "" = automatic
	Manual bool
}

func c12HTTP(r *engine.Run, outcomes *engine.Counter) map[string]interface{} {
	owners := []cipher.Address{fixKeys[0].Addr, fixKeys[1].Addr}
	sort.Slice(owners, func(i, j int) bool { return bytes.Compare(owners[i].Bytes(), owners[j].Bytes()) < 0 })
	dest, explicit := fixKeys[5].Addr, fixKeys[6].Addr
	auxs := make(coin.AddressUxOuts)
	for i, a := range owners {
		auxs[a] = coin.UxArray{{Head: coin.UxHead{Time: c12Head - 3600, BkSeq: uint64(10 + i)},
			Body: coin.UxBody{SrcTransaction: cipher.SHA256(h32(fmt.Sprintf("c12-http-%d", i))), Address: a, Coins: 3e6, Hours: uint64(1000 + i)}}}
	}
	addrs := fmt.Sprintf(`["%s","%s"]`, owners[1], owners[0])
	var alphabet []c12Req
	for _, ch := range []string{"", explicit.String()} {
		for _, hs := range []string{"auto", "manual"} {
			for _, ign := range []string{"", "true"} {
				var parts []string
				to := fmt.Sprintf(`"to":[{"address":"%s","coins":"4.5"}]`, dest)
				if hs == "auto" {
					parts = append(parts, `"hours_selection":{"type":"auto","mode":"share","share_factor":"0.5"}`)
				} else {
					parts = append(parts, `"hours_selection":{"type":"manual"}`)
					to = fmt.Sprintf(`"to":[{"address":"%s","coins":"4.5","hours":"7"}]`, dest)
				}
				if ch != "" {
					parts = append(parts, fmt.Sprintf(`"change_address":"%s"`, ch))
				}
				if ign != "" {
					parts = append(parts, `"ignore_unconfirmed":true`)
				}
				parts = append(parts, to, `"addresses":`+addrs)
				alphabet = append(alphabet, c12Req{Name: fmt.Sprintf("%s,change=%v,ignore_unconfirmed=%v", hs, ch != "", ign != ""), Body: "{" + strings.Join(parts, ",") + "}", Change: ch, Manual: hs == "manual"})
			}
		}
	}
	type answer struct {
		Code   int
		Body   string
		Change string
		Dest   string
		Outs   int
	}
	serve := func(h func(*httptest.ResponseRecorder, c12Req), q c12Req) answer {
		rec := httptest.NewRecorder()
		h(rec, q)
		a := answer{Code: rec.Code, Body: rec.Body.String()}
		var rsp struct {
			Data struct {
				Transaction struct {
					Out []struct {
						Address string `json:"address"`
						Coins   string `json:"coins"`
					} `json:"outputs"`
				} `json:"transaction"`
			} `json:"data"`
		}
		if rec.Code == 200 && json.Unmarshal(rec.Body.Bytes(), &rsp) == nil {
			a.Outs = len(rsp.Data.Transaction.Out)
			if a.Outs >= 1 {
				a.Dest = rsp.Data.Transaction.Out[0].Address + " " + rsp.Data.Transaction.Out[0].Coins
			}
			if a.Outs >= 2 {
				a.Change = rsp.Data.Transaction.Out[1].Address + " " + rsp.Data.Transaction.Out[1].Coins
			}
		}
		return a
	}
	newHandler := func() func(*httptest.ResponseRecorder, c12Req) {
		h := api.VerifTransactionHandlerV2(&c12Gateway{auxs: auxs})
		return func(rec *httptest.ResponseRecorder, q c12Req) {
			req := httptest.NewRequest("POST", "/api/v2/transaction", strings.NewReader(q.Body))
			req.Header.Set("Content-Type", "application/json")
			h(rec, req)
		}
	}
	// each request alone: accepted, pays the destination, change where the request says
	alone := make([]answer, len(alphabet))
	evals := 0
	for i, q := range alphabet {
		var a answer
		if pan, msg := engine.Catch(func() { a = serve(newHandler(), q) }); pan {
			r.Failf("POST /api/v2/transaction:panic", map[string]interface{}{"requests": []string{q.Name}}, "request %s: panic: %s", q.Name, msg)
			return nil
		}
		evals++
		alone[i] = a
		wantChange := q.Change
		if wantChange == "" {
			wantChange = owners[0].String()
		}
		cs := map[string]interface{}{"requests_in_order_on_one_handler": []string{q.Name}, "body": q.Body}
		switch {
		case a.Code != 200:
			r.Failf("POST /api/v2/transaction:refuses-valid-request", cs, "request %s (4.5 of 6 offered coins): status %d %.200s", q.Name, a.Code, a.Body)
		case a.Outs != 2 || a.Dest != dest.String()+" 4.500000":
			r.Failf("POST /api/v2/transaction:destination-not-paid-exactly", cs, "request %s: outputs %d, first %q", q.Name, a.Outs, a.Dest)
		case a.Change != wantChange+" 1.500000":
			r.Failf("POST /api/v2/transaction:change-not-at-the-change-address", cs, "request %s: change output %q, expected 1.5 coins at %s", q.Name, a.Change, wantChange)
		}
		outcomes.Add("http:alone:" + fmt.Sprint(a.Code))
	}
	// every sequence: the last answer equals the answer to that request alone
	depth := r.Pick(2, 3)
	var rec func(prefix []int)
	seqs := 0
	rec = func(prefix []int) {
		if len(prefix) == depth {
			seqs++
			h := newHandler()
			var names []string
			for k, qi := range prefix {
				q := alphabet[qi]
				names = append(names, q.Name)
				var a answer
				if pan, msg := engine.Catch(func() { a = serve(h, q) }); pan {
					r.Failf("POST /api/v2/transaction:panic", map[string]interface{}{"requests": names}, "requests %v: panic: %s", names, msg)
					return
				}
				evals++
				if k > 0 && a != alone[qi] {
					r.Failf("POST /api/v2/transaction:answer-depends-on-earlier-requests", map[string]interface{}{"requests_in_order_on_one_handler": append([]string{}, names...), "last_body": q.Body},
						"one handler, requests in order %v: the last answer is status %d, destination %q, change %q; the same request alone gets status %d, destination %q, change %q (%.160s)",
						names, a.Code, a.Dest, a.Change, alone[qi].Code, alone[qi].Dest, alone[qi].Change, a.Body)
					return
				}
			}
			outcomes.Add("http:sequence-ok")
			return
		}
		for i := range alphabet {
			rec(append(prefix, i))
		}
	}
	rec(nil)
	return map[string]interface{}{
		"what":      "real POST /api/v2/transaction handler over a gateway running the real transaction.Create on fixed outputs; request alphabet = {auto, manual} × change_address {absent, given} × ignore_unconfirmed {absent, true}; every sequence of " + fmt.Sprint(depth) + " requests on one handler value",
		"requests":  len(alphabet),
		"sequences": seqs,
		"served":    evals,
	}
}
