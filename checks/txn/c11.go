package main

import (
	"fmt"
	"math"
	"math/big"
	"os"
	"runtime/pprof"
	"sort"
	"strings"
	"sync/atomic"

	"github.com/skycoin/skycoin/src/cipher"
	"github.com/skycoin/skycoin/src/coin"
	"github.com/skycoin/skycoin/src/params"
	"github.com/skycoin/skycoin/src/transaction"
	"github.com/skycoin/skycoin/src/util/fee"

	"verif/engine"
	mtx "verif/model/txn"
)

// C11 — fee and soft rules accept exactly what they should.
//
// Full product of: burn factor {2,3,10,2^32-1} (thorough: + 4, 100, 2^16) × input-hour total target {0,1,2,bf-1,bf,bf+1,2bf-1,2bf,2^63,2^64-1}
// × head time vs. output time {before, equal, +1h, +1y} × (shape, size limit) {317 B: 1024, 32768; exactly 1024 B: 1024, 1025, 32768;
// exactly 32768 B: 1024, 32767, 32768, 32769} × output hours {0, T-req-1, T-req, T-req+1, T, T+1, T-req split over two outputs,
// a pair whose 64-bit sum wraps to T-req} × owner of the LAST input {ordinary, unlocked distribution, locked distribution}
// × precision 0..6 × amount {10^(6-p), 10^(6-p)-1, 1.1*10^(6-p), 1, 999999, 10^6} placed on the first / last output.
// Oracle: model/txn.Soft (big.Int).  VerifySingleTxnSoftConstraints must return nil exactly when no rule is violated and
// an ErrTxnViolatesSoftConstraint otherwise; for the two small shapes VerifySingleTxnHardConstraints is run on the same
// (unsigned, well formed) transaction and must say nil / ErrTxnViolatesHardConstraint exactly per model/txn.HardArith —
// so a soft-only failure is never reported hard and a hard-only failure never soft.
func init() { register("C11", "exploration", c11) }

type c11case struct {
	BurnFactor uint32   `json:"burn_factor"`
	MaxSize    uint32   `json:"max_txn_size"`
	Precision  uint8    `json:"precision"`
	HeadTime   uint64   `json:"head_time"`
	Shape      string   `json:"shape"`
	Inputs     []c11in  `json:"inputs"`
	OutCoins   []uint64 `json:"first_and_last_output_coins"`
	OutHours   []uint64 `json:"first_and_last_output_hours"`
	NOut       int      `json:"outputs"`
	Size       uint64   `json:"encoded_size"`
	InHours    string   `json:"reference_input_hours"`
	Required   string   `json:"reference_required_fee"`
	Expect     string   `json:"reference_violations"`
	Got        string   `json:"real_result"`
}

type c11in struct {
	Owner string `json:"owner"`
	Coins uint64 `json:"coins"`
	Hours uint64 `json:"hours"`
	Time  uint64 `json:"time"`
}

type c11shape struct {
	name   string
	nIn    int
	nOut   int
	limits []uint32
	hard   bool // also run the hard-constraint cross-check (cheap shapes only)
}

const c11T0 = uint64(1600000000)

func c11(r *engine.Run) {
	r.RaceWorkload = "transactions" // supplement: free-running race-detector pass over the same API (can only add findings)
	if pf := os.Getenv("VERIF_PROFILE"); pf != "" {
		f, _ := os.Create(pf)
		pprof.StartCPUProfile(f)
		defer pprof.StopCPUProfile()
	}
	ordinary, unlockedA, lockedA := fixKeys[0].Addr, fixKeys[1].Addr, fixKeys[2].Addr
	dist := params.Distribution{MaxCoinSupply: 200, InitialUnlockedCount: 1, UnlockAddressRate: 5, UnlockTimeInterval: 31536000,
		Addresses: []string{unlockedA.String(), lockedA.String()}}
	if err := dist.Validate(); err != nil {
		r.Broken("distribution fixture invalid: %v", err)
	}
	lockedSet := map[[21]byte]bool{addr21(lockedA): true}
	owners := []struct {
		name string
		a    cipher.Address
	}{{"ordinary", ordinary}, {"unlocked-distribution", unlockedA}, {"locked-distribution", lockedA}}

	shapes := []c11shape{
		{"2in-2out-317B", 2, 2, []uint32{1024, 32768}, true},
		{"7in-8out-1024B", 7, 8, []uint32{1024, 1025, 32768}, true},
		{"23in-824out-32768B", 23, 824, []uint32{1024, 32767, 32768, 32769}, false},
	}
	bfs := []uint32{2, 3, 10, math.MaxUint32}
	if r.Thorough() {
		bfs = []uint32{2, 3, 4, 10, 100, 1 << 16, math.MaxUint32}
	}
	times := []struct {
		name string
		head uint64
	}{{"before", c11T0 - 10}, {"equal", c11T0}, {"+1h", c11T0 + 3600}, {"+1y", c11T0 + 31536000}}
	tTargets := func(bf uint64) []uint64 {
		// index 10, 11: totals pushed beyond 2^64 (one input overflowing on accrual / two inputs whose sum overflows)
		return []uint64{0, 1, 2, bf - 1, bf, bf + 1, 2*bf - 1, 2 * bf, 1 << 63, math.MaxUint64, math.MaxUint64, 1 << 63}
	}
	positions := []int{0, 1}
	type pc struct {
		p     uint8
		coins uint64
	}
	var precCoins []pc
	for p := uint8(0); p <= 6; p++ {
		d := uint64(1)
		for i := uint8(0); i < 6-p; i++ {
			d *= 10
		}
		seen := map[uint64]bool{}
		for _, v := range []uint64{d, d - 1, d + d/10, 1, 999999, 1000000} {
			if v == 0 || seen[v] {
				continue
			}
			seen[v] = true
			precCoins = append(precCoins, pc{p, v})
		}
	}

	outcomes := engine.NewCounter()
	var evals, hardEvals, boundary, nontrivial int64
	two64 := new(big.Int).Lsh(big.NewInt(1), 64)
	maxU := new(big.Int).SetUint64(math.MaxUint64)

	// filler output addresses (any 21 bytes are an address to the verifier)
	filler := make([]mtx.Out, 1000)
	for i := range filler {
		var a [21]byte
		a[1], a[2], a[3] = byte(i), byte(i>>8), 0xC1
		filler[i] = mtx.Out{Addr: a, Coins: 1000000, Hours: 0}
	}

	type job struct {
		bf    uint32
		ti    int
		tm    int
		shape int
	}
	var jobs []job
	for _, bf := range bfs {
		tt := tTargets(uint64(bf))
		for ti := 0; ti < len(tt); ti++ {
			dup := false
			for k := 0; k < ti; k++ {
				dup = dup || (tt[k] == tt[ti] && ti < 10)
			}
			if dup {
				continue // e.g. bf=2: bf-1 == 1
			}
			for tm := range times {
				for s := range shapes {
					jobs = append(jobs, job{bf, ti, tm, s})
				}
			}
		}
	}
	var sampleCases [3]atomic.Value

	engine.ParFor(len(jobs), func(ji int) {
		jb := jobs[ji]
		sh := shapes[jb.shape]
		head := times[jb.tm].head
		tTarget := tTargets(uint64(jb.bf))[jb.ti]
		for _, own := range owners {
			for pci, pcv := range precCoins {
				for _, pos := range positions {
					if r.Quick() && pos != (pci+jb.ti)%2 {
						continue // quick tier: the odd amount alternates between first and last output; thorough: both
					}
					// ---- outputs (coins) ----
					outs := make([]mtx.Out, sh.nOut)
					outs[0] = mtx.Out{Addr: addr21(fixKeys[4].Addr), Coins: 1000000}
					copy(outs[1:], filler[:sh.nOut-1])
					outs[sh.nOut-1].Addr = addr21(fixKeys[5].Addr)
					if pos == 0 {
						outs[0].Coins = pcv.coins
					} else {
						outs[sh.nOut-1].Coins = pcv.coins
					}
					var totalCoins uint64
					for i := range outs {
						totalCoins += outs[i].Coins
					}
					// ---- inputs: coins balance the outputs; the LAST input carries the owner coordinate ----
					ins := make([]mtx.UxIn, sh.nIn)
					for i := range ins {
						ins[i] = mtx.UxIn{Owner: addr21(ordinary), Coins: 1000000, Time: c11T0}
					}
					ins[0].Coins = totalCoins - uint64(sh.nIn-1)*1000000
					ins[sh.nIn-1].Owner = addr21(own.a)
					// hours: realise the target total at head time where possible
					accr := new(big.Int)
					for i := range ins {
						accr.Add(accr, mtx.Accrued(ins[i], head))
					}
					switch {
					case jb.ti == 10:
						ins[0].Hours = math.MaxUint64
						ins[sh.nIn-1].Hours = 1
					case jb.ti == 11:
						ins[0].Hours = 1 << 63
						ins[sh.nIn-1].Hours = 1 << 63
					case accr.IsUint64() && accr.Uint64() <= tTarget:
						ins[0].Hours = tTarget - accr.Uint64()
					default:
						ins[0].Hours = tTarget
					}
					T := new(big.Int)
					for i := range ins {
						T.Add(T, mtx.Accrued(ins[i], head))
					}
					bfB := new(big.Int).SetUint64(uint64(jb.bf))
					req := new(big.Int).Add(T, new(big.Int).Sub(bfB, big.NewInt(1)))
					req.Div(req, bfB)
					keep := new(big.Int).Sub(T, req)
					// ---- output hours alphabet (relative to the actual total) ----
					type oh struct {
						name   string
						h0, h1 *big.Int // hours of first and last output
					}
					single := func(name string, x *big.Int) (oh, bool) {
						if x.Sign() < 0 {
							return oh{}, false
						}
						a := new(big.Int).Set(x)
						b := new(big.Int)
						if a.Cmp(maxU) > 0 {
							b.Sub(a, maxU)
							a.Set(maxU)
						}
						if b.Cmp(maxU) > 0 {
							return oh{}, false
						}
						return oh{name, a, b}, true
					}
					var ohs []oh
					for _, c := range []struct {
						name string
						x    *big.Int
					}{{"0", new(big.Int)}, {"T-req-1", new(big.Int).Sub(keep, big.NewInt(1))}, {"T-req", keep}, {"T-req+1", new(big.Int).Add(keep, big.NewInt(1))},
						{"T", T}, {"T+1", new(big.Int).Add(T, big.NewInt(1))}} {
						if o, ok := single(c.name, c.x); ok {
							ohs = append(ohs, o)
						}
					}
					if keep.Sign() > 0 && keep.Cmp(maxU) <= 0 {
						ohs = append(ohs, oh{"T-req split", new(big.Int).Sub(keep, big.NewInt(1)), big.NewInt(1)})
					}
					if w := new(big.Int).Add(keep, big.NewInt(1)); keep.Sign() >= 0 && w.Cmp(maxU) <= 0 {
						ohs = append(ohs, oh{"pair wrapping to T-req", new(big.Int).Set(maxU), w}) // (2^64-1) + (T-req+1) = T-req mod 2^64
					}
					seenOH := map[[2]uint64]bool{}
					for _, o := range ohs {
						if k := [2]uint64{o.h0.Uint64(), o.h1.Uint64()}; seenOH[k] {
							continue
						} else {
							seenOH[k] = true
						}
						outs[0].Hours = o.h0.Uint64()
						outs[sh.nOut-1].Hours = o.h1.Uint64()
						tx := &mtx.Tx{Out: outs}
						uxIn := make(coin.UxArray, sh.nIn)
						tx.In = make([][32]byte, sh.nIn)
						for i := range ins {
							uxIn[i] = coin.UxOut{Head: coin.UxHead{Time: ins[i].Time, BkSeq: 3},
								Body: coin.UxBody{SrcTransaction: cipher.SHA256(h32fast(i)), Address: addrFrom21(ins[i].Owner), Coins: ins[i].Coins, Hours: ins[i].Hours}}
							tx.In[i] = [32]byte(uxIn[i].Hash())
						}
						tx.Sigs = make([][65]byte, sh.nIn)
						tx.Length = uint32(tx.EncodedSize())
						if sh.hard {
							tx.Inner = tx.InnerHash()
						}
						ct := toCoin(tx)
						for _, limit := range sh.limits {
							if r.Quick() && jb.shape == 2 && limit == 1024 {
								continue // quick tier: the 32768-byte shape only against the three limits around its own size
							}
							sp := mtx.SoftParams{BurnFactor: jb.bf, MaxSize: limit, Precision: pcv.p, Locked: lockedSet}
							exp := mtx.Soft(tx, ins, head, sp)
							vp := params.VerifyTxn{BurnFactor: jb.bf, MaxTransactionSize: limit, MaxDropletPrecision: pcv.p}
							var err error
							pan, msg := engine.Catch(func() { err = transaction.VerifySingleTxnSoftConstraints(ct, head, uxIn, dist, vp) })
							atomic.AddInt64(&evals, 1)
							mk := func(got string) c11case {
								c := c11case{BurnFactor: jb.bf, MaxSize: limit, Precision: pcv.p, HeadTime: head, Shape: sh.name, NOut: sh.nOut, Size: tx.EncodedSize(),
									OutCoins: []uint64{outs[0].Coins, outs[sh.nOut-1].Coins}, OutHours: []uint64{outs[0].Hours, outs[sh.nOut-1].Hours},
									InHours: exp.InHours.String(), Required: exp.Required.String(), Expect: strings.Join(exp.Violated, "+"), Got: got}
								for i := range ins {
									c.Inputs = append(c.Inputs, c11in{hexAddr(ins[i].Owner), ins[i].Coins, ins[i].Hours, ins[i].Time})
								}
								return c
							}
							class := "accept"
							if len(exp.Violated) > 0 {
								class = "reject:" + strings.Join(exp.Violated, "+")
								atomic.AddInt64(&nontrivial, 1)
							} else if new(big.Int).Sub(exp.InHours, exp.OutHours).Cmp(exp.Required) == 0 || tx.EncodedSize() == uint64(limit) {
								atomic.AddInt64(&nontrivial, 1) // accepted exactly on a boundary (fee == required, size == limit)
								atomic.AddInt64(&boundary, 1)
							}
							if !exp.Representable {
								class = "input-hours>=2^64:" + class
							}
							outcomes.Add(class)
							if ji%480 == 7 && pci == 3 {
								sampleCases[ji%3].Store(mk(fmt.Sprint(err)))
							}
							_, isSoft := err.(transaction.ErrTxnViolatesSoftConstraint)
							switch {
							case pan:
								r.Failf("VerifySingleTxnSoftConstraints:panic", mk("panic: "+msg), "panic: %s", msg)
							case err != nil && !isSoft:
								r.Failf("VerifySingleTxnSoftConstraints:soft-failure-not-reported-as-soft", mk(fmt.Sprintf("%T %v", err, err)), "error of type %T: %v", err, err)
							case err == nil && len(exp.Violated) > 0:
								sort.Strings(exp.Violated)
								r.Failf("VerifySingleTxnSoftConstraints:accepts:"+strings.Join(exp.Violated, "+"), mk("nil"),
									"accepted although: %s (bf=%d limit=%d size=%d precision=%d in-hours=%s out-hours=%s required=%s)", strings.Join(exp.Violated, ", "), jb.bf, limit, tx.EncodedSize(), pcv.p, exp.InHours, exp.OutHours, exp.Required)
							case err != nil && len(exp.Violated) == 0 && exp.Representable:
								r.Failf("VerifySingleTxnSoftConstraints:rejects-conforming:"+softErrClass(err), mk(err.Error()),
									"rejected (%v) although every soft rule holds (bf=%d limit=%d size=%d precision=%d in-hours=%s out-hours=%s required=%s)", err, jb.bf, limit, tx.EncodedSize(), pcv.p, exp.InHours, exp.OutHours, exp.Required)
							}
						}
						if sh.hard {
							hb := mtx.HardArith(tx, ins, head)
							var herr error
							pan, msg := engine.Catch(func() {
								herr = transaction.VerifySingleTxnHardConstraints(ct, coin.BlockHeader{Time: head, BkSeq: 9}, uxIn, transaction.TxnUnsigned)
							})
							atomic.AddInt64(&hardEvals, 1)
							_, isHard := herr.(transaction.ErrTxnViolatesHardConstraint)
							hc := "hard:accept"
							if len(hb) > 0 {
								hc = "hard:reject:" + strings.Join(hb, "+")
							}
							outcomes.Add(hc)
							cs := map[string]interface{}{"shape": sh.name, "head_time": head, "inputs": ins, "first_last_out_hours": []uint64{outs[0].Hours, outs[sh.nOut-1].Hours},
								"first_last_out_coins": []uint64{outs[0].Coins, outs[sh.nOut-1].Coins}, "reference": hb, "real": fmt.Sprint(herr)}
							switch {
							case pan:
								r.Failf("VerifySingleTxnHardConstraints:panic", cs, "panic: %s", msg)
							case herr != nil && !isHard:
								r.Failf("VerifySingleTxnHardConstraints:hard-failure-not-reported-as-hard", cs, "error of type %T: %v", herr, herr)
							case herr == nil && len(hb) > 0:
								r.Failf("VerifySingleTxnHardConstraints:accepts:"+strings.Join(hb, "+"), cs, "hard constraints accepted although: %s", strings.Join(hb, ", "))
							case herr != nil && len(hb) == 0:
								r.Failf("VerifySingleTxnHardConstraints:soft-only-failure-reported-hard-or-spurious", cs, "hard constraints rejected (%v) although no hard rule is violated", herr)
							}
						}
					}
				}
			}
		}
	})

	if os.Getenv("VERIF_PROFILE") != "" {
		pprof.StopCPUProfile()
	}
	// ---- the building blocks on their own boundary products -------------------------------------------------------------
	var friendEvals int64
	hoursAlpha := []uint64{0, 1, 2, 3, 9, 10, 11, 19, 20, 21, 1 << 31, 1<<32 - 2, 1<<32 - 1, 1 << 32, 1<<32 + 1, 1 << 63, 1<<63 + 1, math.MaxUint64 - 1, math.MaxUint64}
	for _, bf := range bfs {
		for _, h := range hoursAlpha {
			for _, f := range hoursAlpha {
				friendEvals++
				tot := new(big.Int).Add(new(big.Int).SetUint64(h), new(big.Int).SetUint64(f))
				bfB := new(big.Int).SetUint64(uint64(bf))
				req := new(big.Int).Div(new(big.Int).Add(tot, new(big.Int).Sub(bfB, big.NewInt(1))), bfB)
				ok := f > 0 && tot.Cmp(two64) < 0 && new(big.Int).SetUint64(f).Cmp(req) >= 0
				var err error
				pan, msg := engine.Catch(func() { err = fee.VerifyTransactionFeeForHours(h, f, bf) })
				if pan {
					r.Failf("fee.VerifyTransactionFeeForHours:panic", []uint64{h, f, uint64(bf)}, "panic %s", msg)
				} else if (err == nil) != ok {
					r.Failf("fee.VerifyTransactionFeeForHours:wrong-verdict", []uint64{h, f, uint64(bf)}, "hours=%d fee=%d bf=%d: got %v, reference ok=%v (required %s)", h, f, bf, err, ok, req)
				}
				outcomes.Add(fmt.Sprintf("fee-for-hours:%v", ok))
			}
		}
	}
	for p := uint8(0); p <= 6; p++ {
		d := uint64(1)
		for i := uint8(0); i < 6-p; i++ {
			d *= 10
		}
		for _, a := range []uint64{0, 1, d - 1, d, d + 1, 2 * d, 10*d - 1, 999999, 1000000, 1000001, math.MaxUint64, math.MaxUint64 - math.MaxUint64%d} {
			friendEvals++
			ok := a%d == 0
			var err error
			pan, msg := engine.Catch(func() { err = params.DropletPrecisionCheck(p, a) })
			if pan {
				r.Failf("params.DropletPrecisionCheck:panic", []uint64{uint64(p), a}, "panic %s", msg)
			} else if (err == nil) != ok {
				r.Failf("params.DropletPrecisionCheck:wrong-verdict", []uint64{uint64(p), a}, "precision=%d amount=%d: got %v want ok=%v", p, a, err, ok)
			}
			outcomes.Add(fmt.Sprintf("precision-check:%v", ok))
		}
	}

	// ---- vacuity ---------------------------------------------------------------------------------------------------------
	hist := outcomes.Map()
	need := []string{"accept", "reject:" + mtx.SoftSize, "reject:" + mtx.SoftNoFee, "reject:" + mtx.SoftLowFee, "reject:" + mtx.SoftLocked, "reject:" + mtx.SoftPrecision,
		"hard:accept", "hard:reject:" + mtx.HardHoursCreated, "hard:reject:" + mtx.HardOutHoursOver + "+" + mtx.HardHoursCreated}
	for _, k := range need {
		if hist[k] == 0 {
			r.Broken("vacuous: outcome class %q never seen", k)
		}
	}
	if boundary == 0 {
		r.Broken("vacuous: no transaction accepted exactly on a boundary")
	}
	r.Assumptions = append(r.Assumptions,
		"parameters inside their validated ranges only (burn factor >= 2, size limit >= 1024, precision <= 6)",
		"input-hour totals of 2^64 or more (not representable in the node's arithmetic; such a transaction also breaks the hard rules): rejection is always allowed there, acceptance only if the unbounded-integer predicate holds",
		"hard/soft classification is checked at the two functions of package transaction on unsigned well formed transactions; the combined path through Blockchain.VerifySingleTxnSoftHardConstraints belongs to the ledger group (C06)",
		"the 32768-byte shape is not run through the hard-constraint cross-check (cost) and, in the quick tier, not against the 1024 limit; quick tier places the precision amount on the first OR last output alternately, thorough on both")
	var samples []interface{}
	for i := range sampleCases {
		if v := sampleCases[i].Load(); v != nil {
			samples = append(samples, v)
		}
	}
	if len(samples) == 0 {
		samples = append(samples, "bf=10 T=10 out hours 9 size 317 limit 1024 precision 3 coins 1000")
	}
	// --- distribution configurations: the locked rule must follow the distribution PASSED to the call, also when one process
	// evaluates several distributions one after the other (same number of locked addresses, different addresses; different counts)
	{
		third := fixKeys[3].Addr
		mk := func(unlocked int, addrs ...cipher.Address) params.Distribution {
			d := params.Distribution{MaxCoinSupply: uint64(60 * len(addrs)), InitialUnlockedCount: uint64(unlocked), UnlockAddressRate: 5, UnlockTimeInterval: 31536000}
			for _, a := range addrs {
				d.Addresses = append(d.Addresses, a.String())
			}
			if err := d.Validate(); err != nil {
				r.Broken("distribution fixture invalid: %v", err)
			}
			return d
		}
		dists := []struct {
			name   string
			d      params.Distribution
			locked map[cipher.Address]bool
		}{
			{"A(unlocked=U,locked=L)", mk(1, unlockedA, lockedA), map[cipher.Address]bool{lockedA: true}},
			{"B(unlocked=L,locked=U)", mk(1, lockedA, unlockedA), map[cipher.Address]bool{unlockedA: true}},
			{"C(unlocked=U,locked=L+T)", mk(1, unlockedA, lockedA, third), map[cipher.Address]bool{lockedA: true, third: true}},
			{"D(all unlocked)", mk(2, unlockedA, lockedA), map[cipher.Address]bool{}},
			{"E(unlocked=T,locked=O)", mk(1, third, ordinary), map[cipher.Address]bool{ordinary: true}},
		}
		spenders := []cipher.Address{ordinary, unlockedA, lockedA, third}
		vp := params.VerifyTxn{BurnFactor: 2, MaxTransactionSize: 32768, MaxDropletPrecision: 3}
		// every ordered sequence of three distributions, each queried for every spender
		for a := range dists {
			for b := range dists {
				for c := range dists {
					for _, di := range []int{a, b, c} {
						for _, sp := range spenders {
							ux := coin.UxOut{Head: coin.UxHead{Time: c11T0, BkSeq: 3}, Body: coin.UxBody{SrcTransaction: cipher.SumSHA256([]byte("cfg")), Address: sp, Coins: 2e6, Hours: 1000}}
							var t coin.Transaction
							t.In = []cipher.SHA256{ux.Hash()}
							t.Sigs = make([]cipher.Sig, 1)
							t.Out = []coin.TransactionOutput{{Address: ordinary, Coins: 2e6, Hours: 100}}
							if err := t.UpdateHeader(); err != nil {
								r.Broken("fixture txn: %v", err)
							}
							var err error
							pan, msg := engine.Catch(func() { err = transaction.VerifySingleTxnSoftConstraints(t, c11T0, coin.UxArray{ux}, dists[di].d, vp) })
							atomic.AddInt64(&evals, 1)
							wantLocked := dists[di].locked[sp]
							cs := map[string]interface{}{"sequence": []string{dists[a].name, dists[b].name, dists[c].name}, "evaluated": dists[di].name, "spender_is_locked": wantLocked}
							if pan {
								r.Failf("VerifySingleTxnSoftConstraints:panic:distribution-sequence", cs, "panic %s", msg)
								continue
							}
							if wantLocked {
								outcomes.Add("config:locked-rejected")
								atomic.AddInt64(&nontrivial, 1)
							} else {
								outcomes.Add("config:accepted")
							}
							if (err != nil) != wantLocked {
								r.Failf("VerifySingleTxnSoftConstraints:locked-rule-does-not-follow-the-distribution-passed", cs,
									"after evaluating %s then %s then %s: distribution %s, spender locked=%v, verdict %v", dists[a].name, dists[b].name, dists[c].name, dists[di].name, wantLocked, err)
							}
						}
					}
				}
			}
		}
	}

	// --- position of the locked input: every assignment of {ordinary, unlocked distribution, locked distribution, locked #2}
	// to the inputs of transactions with 1..4 inputs; the transaction is locked exactly when SOME input is owned by a locked address
	{
		third := fixKeys[3].Addr
		ordinary, unlockedA, lockedA := fixKeys[0].Addr, fixKeys[1].Addr, fixKeys[2].Addr
		dist := params.Distribution{MaxCoinSupply: 180, InitialUnlockedCount: 1, UnlockAddressRate: 5, UnlockTimeInterval: 31536000,
			Addresses: []string{unlockedA.String(), lockedA.String(), third.String()}}
		ownersP := []struct {
			name   string
			a      cipher.Address
			locked bool
		}{{"ordinary", ordinary, false}, {"unlocked-distribution", unlockedA, false}, {"locked-distribution", lockedA, true}, {"locked-distribution-2", third, true}}
		vp := params.VerifyTxn{BurnFactor: 2, MaxTransactionSize: 32768, MaxDropletPrecision: 3}
		for n := 1; n <= 4; n++ {
			total := 1
			for i := 0; i < n; i++ {
				total *= len(ownersP)
			}
			for code := 0; code < total; code++ {
				var uxs coin.UxArray
				var t coin.Transaction
				var names []string
				wantLocked := false
				c := code
				for i := 0; i < n; i++ {
					o := ownersP[c%len(ownersP)]
					c /= len(ownersP)
					ux := coin.UxOut{Head: coin.UxHead{Time: c11T0, BkSeq: 3}, Body: coin.UxBody{SrcTransaction: cipher.SumSHA256([]byte(fmt.Sprintf("pos-%d-%d-%d", n, code, i))), Address: o.a, Coins: 2e6, Hours: 1000}}
					uxs = append(uxs, ux)
					t.In = append(t.In, ux.Hash())
					names = append(names, o.name)
					wantLocked = wantLocked || o.locked
				}
				t.Sigs = make([]cipher.Sig, n)
				t.Out = []coin.TransactionOutput{{Address: ordinary, Coins: uint64(n) * 2e6, Hours: 100}}
				if err := t.UpdateHeader(); err != nil {
					r.Broken("fixture txn: %v", err)
				}
				var err error
				pan, msg := engine.Catch(func() { err = transaction.VerifySingleTxnSoftConstraints(t, c11T0, uxs, dist, vp) })
				atomic.AddInt64(&evals, 1)
				cs := map[string]interface{}{"input_owners": names, "some_input_locked": wantLocked}
				if pan {
					r.Failf("VerifySingleTxnSoftConstraints:panic:locked-input-position", cs, "panic %s", msg)
					continue
				}
				if wantLocked {
					outcomes.Add("position:locked-rejected")
					atomic.AddInt64(&nontrivial, 1)
				} else {
					outcomes.Add("position:accepted")
				}
				if (err != nil) != wantLocked {
					r.Failf("VerifySingleTxnSoftConstraints:locked-rule-depends-on-the-position-of-the-locked-input", cs,
						"inputs owned by %v: some input locked=%v, verdict %v", names, wantLocked, err)
				}
			}
		}
	}

	r.Finish(engine.Coverage{
		"evaluations":          evals + hardEvals + friendEvals,
		"soft_evaluations":     evals,
		"hard_cross_checks":    hardEvals,
		"friend_evaluations":   friendEvals,
		"distinct_nontrivial":  nontrivial,
		"accepted_on_boundary": boundary,
		"rule":                 "parameter tuples (pairwise distinct by construction: coinciding hour totals and output-hour choices are removed before evaluation) on which the reference rejects (>= 1 soft rule violated) or accepts exactly on a boundary (fee == required fee, size == limit)",
		"exhaustive":           true,
		"outcome_histogram":    hist,
		"alphabet": map[string]interface{}{"burn_factors": len(bfs), "hour_totals": 12, "time_relations": len(times), "shape_limit_pairs": r.Pick(8, 9), "output_hour_choices": 8,
			"owners": 3, "precision_amount_pairs": len(precCoins), "positions": r.Pick(1, 2)},
		"samples": samples,
	})
}

func softErrClass(err error) string {
	s := strings.TrimPrefix(err.Error(), "Transaction violates soft constraint: ")
	return firstWords(s, 4)
}

func hexAddr(a [21]byte) string { return fmt.Sprintf("%x", a[:]) }

var h32fastTab = func() [][32]byte {
	t := make([][32]byte, 64)
	for i := range t {
		t[i] = h32(fmt.Sprintf("c11-src-%d", i))
	}
	return t
}()

func h32fast(i int) [32]byte { return h32fastTab[i%64] }
