// Command check (group "ledger"): explicit-state search over real ledger operations (C01–C07).
package main

import (
	"fmt"
	"io"
	"log"
	"os"
	"runtime/pprof"
	"time"

	"github.com/skycoin/skycoin/src/util/logging"

	"verif/engine"
)

var checks = map[string]func(r *engine.Run){}
var levels = map[string]string{}

func register(id, level string, f func(r *engine.Run)) {
	checks[id] = f
	levels[id] = level
}

func main() {
	log.SetOutput(io.Discard)
	logging.Disable()
	if len(os.Args) >= 3 && os.Args[1] == "--worker" && os.Args[2] == "c08" {
		c08Worker()
		return
	}
	if len(os.Args) < 3 {
		fmt.Fprintln(os.Stderr, "usage: check <id> quick|thorough")
		os.Exit(2)
	}
	id, tier := os.Args[1], os.Args[2]
	if tier == "--debug-publisher" {
		debugPublisher()
		return
	}
	if tier == "--debug-alphabet" {
		debugAlphabet()
		return
	}
	f, ok := checks[id]
	if !ok {
		fmt.Fprintf(os.Stderr, "CHECK-BROKEN: no check %s in this group\n", id)
		os.Exit(2)
	}
	if tier == "--replay" {
		if len(os.Args) >= 4 && id != "C08" && id != "C29" && id != "C33" {
			defer engine.Cleanup()
			code := replayLedger(id, os.Args[3])
			engine.Cleanup()
			os.Exit(code)
		}
		tier = "quick"
	}
	if pf := os.Getenv("VERIF_PPROF"); pf != "" && os.Getenv("VERIF_BFS_WORKER") != "" {
		pf = fmt.Sprintf("%s.%d", pf, os.Getpid())
		f, _ := os.Create(pf)
		pprof.StartCPUProfile(f)
		go func() { time.Sleep(25 * time.Second); pprof.StopCPUProfile(); f.Close() }()
	} else if pf != "" {
		f, _ := os.Create(pf)
		pprof.StartCPUProfile(f)
		defer pprof.StopCPUProfile()
		go func() { time.Sleep(40 * time.Second); pprof.StopCPUProfile(); f.Close() }()
	}
	r := engine.Start(id, tier, levels[id])
	defer engine.Cleanup()
	defer func() {
		if e := recover(); e != nil {
			engine.Cleanup()
			fmt.Fprintf(os.Stderr, "CHECK-BROKEN: %v\n", e)
			os.Exit(2)
		}
	}()
	f(r)
}

func budget(r *engine.Run) time.Duration {
	if r.Quick() {
		return 70 * time.Second
	}
	return 18 * time.Minute
}

const c05oracle = "oracle C05: every block made by CreateAndExecuteBlock contains only hard+soft-eligible pending transactions, respects the size limit (second world: 1 KiB transaction/block limits via USER_MAX_TXN_SIZE so that five pending transactions exceed the block), is ordered by fee/kB then hash, resolves conflicts in favour of the first in that order, equals the reference pipeline, and is accepted by a fresh real follower node that replayed the same chain"

func init() {
	roots := []string{"genesis", "distributed"}
	common := "BFS over real ledger operations (inject foreign/user × transaction templates, ExecuteSignedBlock × block alphabet on a follower, CreateAndExecuteBlock on a publisher, refresh, remove-invalid, reopen, rebuild-indexes) from two roots (genesis; a chain with distributed outputs); a state = canonical digest of all bolt buckets; the reference model (model/ledger, big.Int) predicts every step; "
	reg := func(id, kind string, full bool, oracle string) {
		register(id, "model_checking", func(r *engine.Run) {
			ws := worldsFor(kind)
			if os.Getenv("VERIF_EXPERIMENT") == "publisher-offered" {
				ws = worldsFor("publisher-offered")
			}
			if r.Thorough() && (id == "C01" || id == "C03") {
				ws = append(ws, worldsFor("extreme")...) // genesis volume 2^64-2 droplets: coin and hour sums touch 2^64
			}
			runExplore(r, id, exploreCfg{Worlds: ws, MaxDepth: r.Pick(4, 6), MaxStates: r.Pick(2500, 40000), Budget: budget(r), Roots: roots, FullViews: full, LegacyRoot: id == "C03"}, common+oracle)
		})
	}
	reg("C01", "follower+offered", false, "oracle C01: Σ coins of the real unspent set equals the genesis volume in every state; every transaction of an accepted block has Σin = Σout (exact); coin-creating / destroying / sum-wrapping transactions are rejected at injection and inside publisher-signed blocks")
	reg("C02", "follower+offered", false, "oracle C02: the real unspent set (id, owner, coins, hours, time, seq, source) equals created−spent of the model in every state; no output is removed twice; blocks with double spends (inside a block, of spent outputs, of outputs created in the same block, same transaction twice) are rejected")
	reg("C03", "follower+offered", false, "oracle C03: for every transaction of an accepted block Σ output hours ≤ Σ exactly accrued input hours at the previous head time (legacy per-input exception applied only when the exact sum needs ≥ 2^64); injection never admits output hours summing to ≥ 2^64; time deltas up to 1e7 s per block")
	reg("C04", "follower+offered", false, "oracle C04: ExecuteSignedBlock accepts exactly the model-valid next blocks over the whole mutated-block alphabet; the stored chain equals the submitted headers bit for bit and every stored signature verifies over the stored header; a rejected block leaves every bucket unchanged")
	register("C05", "model_checking", func(r *engine.Run) {
		ws := append(worldsFor("publisher"), worldsFor("publisher-small")...)
		runExplore(r, "C05", exploreCfg{Worlds: ws, MaxDepth: r.Pick(6, 8), MaxStates: r.Pick(2500, 40000), Budget: budget(r), Roots: roots}, common+c05oracle)
	})
	_ = func() { reg("C05", "publisher", false, "oracle C05: every block made by CreateAndExecuteBlock contains only hard+soft-eligible pending transactions, respects the size limit, is ordered by fee/kB then hash, resolves conflicts in favour of the first in that order, equals the reference pipeline, and is accepted by a fresh real follower node that replayed the same chain") }
	reg("C06", "both", false, "oracle C06: after every step the real pool (hash set and validity flags) equals the model pool; injection verdict class (ok / soft / hard / user) equals the rules'; Refresh and RemoveInvalid return exactly the hashes the rules predict")
	reg("C07", "both", true, "oracle C07: in every state all query views (per-address unspent index for all 64 address subsets, address count, stored xor checksum, history of every output incl. spender, per-address output history, transaction lists × filters × order, confirmed and predicted balances, block range queries) equal values recomputed from the model; rebuilding indexes/history from the stored blocks reproduces every bucket")
}
