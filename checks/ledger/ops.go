package main

import (
	"bytes"
	"errors"
	"fmt"
	"strings"

	"github.com/boltdb/bolt"
	"github.com/skycoin/skycoin/src/cipher"
	"github.com/skycoin/skycoin/src/coin"
	"github.com/skycoin/skycoin/src/daemon"
	"github.com/skycoin/skycoin/src/transaction"
	"github.com/skycoin/skycoin/src/visor"
	"github.com/skycoin/skycoin/src/visor/dbutil"
	"github.com/skycoin/skycoin/src/visor/historydb"

	"verif/model/ledger"
	"verif/shim/vtime"
)

// op is one operation of the ledger alphabet; its concrete arguments are instantiated from the state it is applied in.
type op struct {
	Kind string // inject-foreign | inject-user | block | publish | refresh | remove-invalid | reopen | rebuild-indexes
	Arg  string
}

var errInjectedWrite = errors.New("verif: injected page-write failure")

func (o op) String() string {
	if o.Arg == "" {
		return o.Kind
	}
	return o.Kind + "(" + o.Arg + ")"
}

// ops lists the operations offered in the current state.
func (n *node) ops(focus string) []op {
	var out []op
	for _, t := range allTemplates {
		if n.tx(t.Name) == nil {
			continue
		}
		out = append(out, op{"inject-foreign", t.Name})
		out = append(out, op{"inject-user", t.Name})
		out = append(out, op{"inject-user-gateway", t.Name})
	}
	if n.W.Publisher {
		for _, dt := range []string{"1s", "1h", "1e7s"} {
			out = append(out, op{"publish", dt})
		}
	}
	if !n.W.Publisher || n.W.OfferBlocks {
		for _, c := range n.blocks() {
			if strings.HasPrefix(c.Name, "valid[") || strings.HasPrefix(c.Name, "valid2[") {
				out = append(out, op{"block-after-failed-write", c.Name}) // same successor state as block(name): no new states
			}
		}
		for _, c := range n.blocks() {
			out = append(out, op{"block", c.Name})
		}
	}
	out = append(out, op{"refresh", ""}, op{"remove-invalid", ""}, op{"reopen", ""}, op{"rebuild-indexes", ""})
	if focus == "" {
		return out
	}
	var kept []op
	for _, o := range out {
		if inFocus(focus, o) {
			kept = append(kept, o)
		}
	}
	return kept
}

// inFocus trims the alphabet per property to the operations its oracle can observe, so that the same budget reaches deeper:
// rejected header mutations only matter to C04, rule-breaking block bodies to C01–C04, user injections to C05/C06.
func inFocus(prop string, o op) bool {
	hdr := o.Kind == "block" && (strings.HasPrefix(o.Arg, "hdr:") || strings.HasPrefix(o.Arg, "valid2:") || o.Arg == "signed-by-intruder" || o.Arg == "null-signature" ||
		o.Arg == "sig-recid-flipped" || o.Arg == "genesis-again" || o.Arg == "head-again" || strings.Contains(o.Arg, "header-kept") || o.Arg == "no-transactions")
	badBody := o.Kind == "block" && !hdr && !strings.HasPrefix(o.Arg, "valid")
	if strings.HasPrefix(o.Arg, "valid-fanout200") || o.Arg == "fanout-200-G" {
		// a 200-output block / transaction: only where the unspent set itself is the subject (it makes every later state large)
		return (prop == "C01" || prop == "C02") && o.Kind == "block"
	}
	if o.Kind == "inject-user-gateway" {
		return prop == "C06"
	}
	if strings.HasPrefix(o.Arg, "hdr-") && strings.HasPrefix(o.Kind, "inject-") {
		return prop == "C06" // header-altered transactions offered to the pool: admission is C06's subject (refused: no new states)
	}
	if o.Kind == "block-after-failed-write" {
		return prop == "C04" // fault injection into the commit: the "appended only if…, unchanged otherwise" clause of C04
	}
	switch prop {
	case "C01", "C02", "C03":
		return !hdr && o.Kind != "inject-user" && o.Kind != "rebuild-indexes"
	case "C04":
		if o.Kind == "inject-user" || o.Kind == "rebuild-indexes" || o.Kind == "refresh" {
			return false
		}
		if o.Kind == "inject-foreign" {
			return o.Arg == "pay-G-A" || o.Arg == "pay-G-B" || o.Arg == "pay-A-B" || o.Arg == "pay-G-L"
		}
		return true
	case "C05":
		return true
	case "C05small":
		if o.Kind == "publish" {
			// two block times: right after the head, and an hour later - coin hours accrue per coin, so outputs of different
			// size change their fee rank with the time base the publisher uses (it must be the head time)
			return o.Arg == "1s" || o.Arg == "1h"
		}
		if o.Kind == "inject-foreign" {
			return o.Arg == "ladder-4-underpaid"
		}
		if o.Kind == "inject-user" {
			switch o.Arg {
			case "pay-G-A", "pay-A-B", "pay-A2-C", "pay-A3-B", "pay-B-A", "pay-G-C-samefee", "merge-A", "ladder-0", "ladder-1", "ladder-2", "ladder-3", "ladder-4":
				return true
			}
		}
		return false
	case "C06":
		if o.Kind == "rebuild-indexes" {
			return false
		}
		return !(hdr && o.Arg != "hdr:time=head:resigned") && !(badBody && !strings.HasPrefix(o.Arg, "bad-txn[wrap-hour-sum") && o.Arg != "double-spend-in-block[pay-G-A,pay-G-B]")
	case "C07":
		if o.Kind == "inject-user" {
			return false
		}
		return !hdr && !(badBody && !strings.HasPrefix(o.Arg, "bad-txn[wrap-hour-sum"))
	}
	return true
}

func injectClass(softErr *transaction.ErrTxnViolatesSoftConstraint, err error) string {
	switch err.(type) {
	case nil:
		if softErr != nil {
			return "soft"
		}
		return ""
	case transaction.ErrTxnViolatesHardConstraint:
		return "hard"
	case transaction.ErrTxnViolatesSoftConstraint:
		return "soft"
	case transaction.ErrTxnViolatesUserConstraint:
		return "user"
	}
	return "error:" + err.Error()
}

// apply executes the real operation and the model operation and compares them (step oracle).
func (n *node) apply(o op, check bool, fail failer) string {
	oc := n.apply1(o, check, fail)
	if !(strings.HasPrefix(oc, "inject:hard") || strings.HasPrefix(oc, "inject:user") || strings.HasPrefix(oc, "block:rejected") || oc == "publish:none" || oc == "n/a" ||
		o.Kind == "inject-user" && strings.HasPrefix(oc, "inject:soft")) {
		n.txCache, n.bkCache, n.bkDone = nil, nil, false
		// the cheap state oracles (unspent set, coin sum, stored chain, pool) are evaluated right after every operation that may
		// have changed the state, so a divergence is seen at the transition that causes it (the full view oracle of C07 runs per state)
		if check && n.M != nil && n.DB != nil {
			n.checkState(func(props, sig, format string, a ...interface{}) {
				fail(props, sig, "after "+o.String()+": "+format, a...)
			}, false)
		}
	}
	return oc
}

// tx returns the (cached) instantiation of a template in the current state.
func (n *node) tx(name string) *coin.Transaction {
	if n.txCache == nil {
		n.txCache = map[string]*coin.Transaction{}
		for _, t := range allTemplates {
			n.txCache[t.Name] = t.Build(n.M)
		}
	}
	return n.txCache[name]
}

func (n *node) blocks() []blockCand {
	if !n.bkDone {
		catch(func() { n.bkCache = blockCandidates(n.M, n.tx) })
		n.bkDone = true
	}
	return n.bkCache
}

func (n *node) apply1(o op, check bool, fail failer) string {
	if !check {
		fail = func(string, string, string, ...interface{}) {}
	}
	m := n.M
	switch o.Kind {
	case "inject-foreign", "inject-user", "inject-user-gateway":
		t := n.tx(o.Arg)
		if t == nil {
			return "n/a"
		}
		user := o.Kind != "inject-foreign"
		_, before := m.Pool[t.Hash()]
		var got string
		var known bool
		pan, msg := catch(func() {
			if o.Kind == "inject-user-gateway" {
				// the same user submission through the daemon's gateway method (the no-broadcast entry point of the API)
				err := daemon.VerifGatewayInjectTransaction(n.V, *t)
				known, got = before, injectClass(nil, err)
			} else if user {
				k, _, _, err := n.V.InjectUserTransaction(*t)
				known, got = k, injectClass(nil, err)
			} else {
				k, se, err := n.V.InjectForeignTransaction(*t)
				known, got = k, injectClass(se, err)
			}
		})
		if pan {
			fail("C06", "inject:panic", "%s: panic %s", o, msg)
			return "panic"
		}
		want, reason := m.Inject(*t, user)
		if got != want {
			props := "C06"
			if (got == "hard") != (want == "hard") || (got == "soft") != (want == "soft") {
				props = "C06,C11"
			}
			if want == "hard" && (reason == "creates-coins" || reason == "destroys-coins" || strings.Contains(reason, "coins-overflow")) {
				props += ",C01"
			}
			if want == "hard" && (reason == "creates-hours" || reason == "output-hours-overflow") {
				props += ",C03"
			}
			if want == "hard" && (reason == "input-not-unspent" || reason == "malformed:dup-input") {
				props += ",C02"
			}
			fail(props, "inject:class-differs:want-"+orOK(want)+":got-"+orOK(got), "%s: node says %q, rules say %q (%s)", o, orOK(got), orOK(want), reason)
		} else if (want == "" || want == "soft" && !user) && known != before {
			fail("C06", "inject:known-flag", "%s: known=%v but the pool %v the transaction before", o, known, map[bool]string{true: "held", false: "did not hold"}[before])
		}
		return "inject:" + orOK(want) + ":" + reason

	case "block", "block-after-failed-write":
		var sb *coin.SignedBlock
		for _, c := range n.blocks() {
			if c.Name == o.Arg {
				b := c.B
				sb = &b
			}
		}
		if sb == nil {
			return "n/a"
		}
		keyBefore := ""
		if check {
			keyBefore = n.key()
		}
		var err error
		if o.Kind == "block-after-failed-write" {
			// fault injection: the commit of this block's execution fails at its first page write (disk error / disk full) - the
			// call must return an error and change nothing, and the node must then treat the SAME block exactly as if the failed
			// attempt had never happened (nothing computed during the rolled-back attempt may survive in memory)
			before := n.key()
			fails := 0
			bolt.VerifFailWrite = func(string) error { fails++; return errInjectedWrite }
			var ferr error
			pan, msg := catch(func() { ferr = n.V.ExecuteSignedBlock(*sb) })
			bolt.VerifFailWrite = nil
			if pan {
				fail("C04,C08", "block:panic:commit-write-fails", "%s: panic %s", o, msg)
				return "panic"
			}
			if fails > 0 {
				fail("AUX", "commit-write-failure-injected", "")
				if ferr == nil {
					fail("C04,C08", "block:failed-commit-reported-as-success", "%s: a page write of the commit failed but ExecuteSignedBlock returned nil", o)
				}
				if after := n.key(); after != before {
					fail("C04,C08", "block:failed-commit-changed-the-database", "%s: a page write of the commit failed (%v) but the stored state changed", o, ferr)
					n.M = nil
					return "failed-commit-changed-state"
				}
			}
		}
		pan, msg := catch(func() { err = n.V.ExecuteSignedBlock(*sb) })
		if pan {
			fail("C04", "block:panic", "%s: panic %s", o, msg)
			return "panic"
		}
		want := m.CheckBlock(sb)
		if (err == nil) != (want == "") {
			props := "C04"
			switch {
			case strings.Contains(want, "coins"):
				props += ",C01"
			case strings.Contains(want, "hours"):
				props += ",C03"
			case strings.Contains(want, "double-spend"), strings.Contains(want, "input-not-unspent"), strings.Contains(want, "dup-input"), strings.Contains(want, "duplicate-created"):
				props += ",C02,C01" // an output spent twice is paid out twice: the accepted block also creates coins
			case strings.Contains(want, "txn:malformed"), strings.Contains(want, "wrong-signer"):
				props += ",C02"
			}
			if want == "" {
				fail(props, "block:valid-block-rejected", "%s rejected: %v", o, err)
			} else {
				fail(props, "block:invalid-block-accepted:"+sigClass(want), "%s accepted although: %s", o, want)
			}
		}
		if err == nil {
			// the model follows the node only when the block really is valid; otherwise the state is "dishonest" and is not explored further
			if want == "" {
				for i := range sb.Body.Transactions {
					n.checkBlockTxn(&sb.Body.Transactions[i], fail)
				}
				m.Apply(*sb)
			} else {
				n.M = nil
				return "accepted-invalid"
			}
			return "block:accepted"
		}
		if check && n.key() != keyBefore {
			fail("C04", "block:rejected-block-changed-state", "%s was rejected (%v) but the database content changed", o, err)
		}
		return "block:rejected:" + sigClass(want)

	case "publish":
		return n.publish(o, fail)

	case "refresh":
		got, err := n.V.RefreshUnconfirmed()
		want := m.Refresh()
		if err != nil {
			fail("C06", "refresh:error", "%v", err)
		} else if !sameHashes(got, want) {
			fail("C06", "refresh:now-valid-list-differs", "RefreshUnconfirmed returned %v, rules say %v", hxs(got), hxs(want))
		}
		return fmt.Sprintf("refresh:%d", len(want))

	case "remove-invalid":
		got, err := n.V.RemoveInvalidUnconfirmed()
		want := m.RemoveInvalid()
		if err != nil {
			fail("C06", "remove-invalid:error", "%v", err)
		} else if !sameHashes(got, want) {
			fail("C06", "remove-invalid:removed-list-differs", "RemoveInvalidUnconfirmed removed %v, rules say %v", hxs(got), hxs(want))
		}
		return fmt.Sprintf("remove-invalid:%d", len(want))

	case "reopen":
		// close and run the real start-up path again; Init runs RemoveInvalid
		kb := ""
		if check {
			kb = n.key()
		}
		n.DB.Close()
		nn, err := openNode(n.W, n.Path)
		if err != nil {
			fail("C07,C08", "reopen:failed", "restart on an intact database failed: %v", err)
			panic("CHECK-BROKEN: reopen failed: " + err.Error())
		}
		n.DB, n.V = nn.DB, nn.V
		rm := m.RemoveInvalid()
		if check && len(rm) == 0 && n.key() != kb {
			fail("C07", "reopen:state-changed", "restart changed the database content although no pending transaction was invalid")
		}
		return fmt.Sprintf("reopen:%d", len(rm))

	case "rebuild-indexes":
		var perB map[string]string
		if check {
			perB, _ = dumpDB(n.DB, nil)
		}
		err := n.DB.Update("verif: drop index markers", func(tx *dbutil.Tx) error {
			if err := historydb.New().Erase(tx); err != nil {
				return err
			}
			return tx.Tx.Bucket([]byte("unspent_meta")).Delete([]byte("addr_index_height"))
		})
		if err != nil {
			panic("CHECK-BROKEN: cannot drop index markers: " + err.Error())
		}
		n.DB.Close()
		nn, err := openNode(n.W, n.Path)
		if err != nil {
			fail("C07", "rebuild-indexes:restart-failed", "node cannot rebuild its indexes/history from the stored blocks (restart failed): %v", err)
			n.DB, n.M = nil, nil
			return "rebuild-indexes:failed"
		}
		n.DB, n.V = nn.DB, nn.V
		rm := m.RemoveInvalid()
		if check && len(rm) == 0 {
			perA, _ := dumpDB(n.DB, nil)
			for b, d := range perB {
				if perA[b] != d {
					fail("C07", "rebuild-indexes:bucket-differs:"+b, "bucket %s after rebuilding from the stored blocks differs from the incrementally maintained one", b)
				}
			}
		}
		return "rebuild-indexes"
	}
	panic("unknown op " + o.Kind)
}

// checkBlockTxn: per-transaction clauses of C01/C03 for a transaction of an accepted block, judged with exact arithmetic.
func (n *node) checkBlockTxn(t *coin.Transaction, fail failer) {
	m := n.M
	in, inH := newBig(), newBig()
	legacy := false
	for _, id := range t.In {
		ux := m.UTXO[id]
		in.Add(in, bigU(ux.Body.Coins))
		v, cls := ledger.Accrued(ux, m.Head().Head.Time)
		if cls == "final" {
			legacy = true
			continue
		}
		inH.Add(inH, v)
	}
	if in.Cmp(ledger.OutCoinsSum(t)) != 0 {
		fail("C01", "accepted-block:txn-coins-in!=out", "transaction %s: inputs %s coins, outputs %s", hx(t.Hash()), in, ledger.OutCoinsSum(t))
	}
	if oh := ledger.OutHoursSum(t); oh.Cmp(inH) > 0 {
		sig := "accepted-block:txn-creates-hours"
		if oh.Cmp(ledger.Two64) >= 0 {
			sig = "accepted-block:txn-output-hours-sum-wraps-2^64"
		}
		fail("C03", sig, "transaction %s: output hours %s exceed accrued input hours %s (legacy input exception applied: %v)", hx(t.Hash()), oh, inH, legacy)
	}
}

func sigClass(reason string) string {
	if i := strings.Index(reason, ":malformed:"); i >= 0 {
		return reason[:i] + ":malformed"
	}
	return reason
}

func orOK(s string) string {
	if s == "" {
		return "ok"
	}
	return s
}

func sameHashes(a []cipher.SHA256, b []ledger.Hash) bool {
	if len(a) != len(b) {
		return false
	}
	aa := append([]cipher.SHA256{}, a...)
	ledger.SortHashes(aa)
	for i := range aa {
		if aa[i] != b[i] {
			return false
		}
	}
	return true
}

func hxs(hs []cipher.SHA256) []string {
	var o []string
	for _, h := range hs {
		o = append(o, hx(h))
	}
	return o
}

// publish: the publisher creates a block from its pool (real CreateAndExecuteBlock under the virtual clock).
func (n *node) publish(o op, fail failer) string {
	m := n.M
	head := m.Head().Head
	dt := map[string]uint64{"1s": 1, "1h": 3600, "1e7s": 10000000}[o.Arg]
	vtime.SetUnix(int64(head.Time + dt))
	cands := m.Candidates()
	exp := m.ExpectedSelection()
	var sb coin.SignedBlock
	var err error
	pan, msg := catch(func() { sb, err = n.V.CreateAndExecuteBlock() })
	if pan {
		fail("C05", "publish:panic", "CreateAndExecuteBlock panicked: %s", msg)
		n.M = nil
		return "panic"
	}
	nElig := 0
	for _, c := range cands {
		if c.Elig {
			nElig++
		}
	}
	if err != nil {
		if nElig > 0 {
			fail("C05", "publish:failed-although-eligible-transactions-pending", "CreateAndExecuteBlock: %v with %d eligible pending transactions", err, nElig)
		}
		return "publish:none"
	}
	if nElig == 0 {
		fail("C05", "publish:block-from-ineligible-pool", "a block was created although no pending transaction satisfies hard+soft rules")
	}
	byHash := map[cipher.SHA256]ledger.Candidate{}
	for _, c := range cands {
		byHash[c.Hash] = c
	}
	// clause: only eligible transactions
	var incl []ledger.Candidate
	size := 0
	for _, t := range sb.Body.Transactions {
		c, ok := byHash[t.Hash()]
		if !ok {
			fail("C05", "publish:includes-unknown-transaction", "block contains %s which is not pending", hx(t.Hash()))
			continue
		}
		if !c.Elig {
			fail("C05", "publish:includes-ineligible-transaction:"+strings.SplitN(c.Class, ":", 2)[0], "block contains %s which violates %s", hx(c.Hash), c.Class)
		}
		incl = append(incl, c)
		size += c.Size
	}
	if size > int(m.P.MaxBlockSize) {
		fail("C05", "publish:exceeds-block-size", "transactions total %d bytes > limit %d", size, m.P.MaxBlockSize)
	}
	// clause: order = fee per kB descending, hash ascending
	for i := 1; i < len(incl); i++ {
		a, b := incl[i-1], incl[i]
		if !a.Elig || !b.Elig {
			continue
		}
		if c := a.Prio.Cmp(b.Prio); c < 0 || c == 0 && bytes.Compare(a.Hash[:], b.Hash[:]) > 0 {
			fail("C05", "publish:order", "transactions not ordered by fee/kB desc, hash asc: %s(prio %s) before %s(prio %s)", hx(a.Hash), a.Prio, hx(b.Hash), b.Prio)
		}
	}
	// clause: conflicts — at most one member of a conflict class, and it is the first eligible member in block order
	spentBy := map[cipher.SHA256]cipher.SHA256{}
	for _, c := range incl {
		for _, in := range c.Txn.In {
			if other, dup := spentBy[in]; dup {
				fail("C05", "publish:conflicting-transactions-both-included", "%s and %s spend the same output", hx(other), hx(c.Hash))
			}
			spentBy[in] = c.Hash
		}
	}
	pos := map[cipher.SHA256]int{}
	for i, c := range cands {
		pos[c.Hash] = i
	}
	for _, c := range incl {
		for _, d := range cands {
			if !d.Elig || d.Hash == c.Hash || pos[d.Hash] > pos[c.Hash] {
				continue
			}
			for _, a := range c.Txn.In {
				for _, b := range d.Txn.In {
					if a == b {
						fail("C05", "publish:conflict-not-won-by-first-in-order", "included %s conflicts with %s which comes earlier in fee/hash order", hx(c.Hash), hx(d.Hash))
					}
				}
			}
		}
	}
	// exact reference pipeline (filter → sort → size prefix → arbitration); a difference that breaks no clause above is only noted
	var g, w []string
	for _, c := range incl {
		g = append(g, hx(c.Hash))
	}
	for _, c := range exp {
		w = append(w, hx(c.Hash))
	}
	if strings.Join(g, ",") != strings.Join(w, ",") {
		fail("C05", "publish:selection-differs-from-reference-pipeline", "block has %v, reference pipeline selects %v", g, w)
	}
	if sb.Head.Time != head.Time+dt {
		fail("C05", "publish:block-time", "block time %d, clock said %d", sb.Head.Time, head.Time+dt)
	}
	// clause: acceptable to an independent node holding the same chain (judged by the model's follower rules;
	// the real follower is exercised in followerAccepts)
	if r := m.CheckBlock(&sb); r != "" {
		fail("C05", "publish:block-invalid-for-follower:"+sigClass(r), "created block violates: %s", r)
		n.M = nil
		return "publish:invalid"
	}
	if !n.followerAccepts(sb, fail) {
		n.M = nil
		return "publish:follower-rejects"
	}
	for i := range sb.Body.Transactions {
		n.checkBlockTxn(&sb.Body.Transactions[i], fail)
	}
	m.Apply(sb)
	eligSize := 0
	for _, c := range cands {
		if c.Elig {
			eligSize += c.Size
		}
	}
	if eligSize > int(m.P.MaxBlockSize) {
		return "publish:size-limit-binds"
	}
	if len(incl) < nElig {
		return "publish:conflict-arbitrated"
	}
	return "publish:all-eligible-included"
}

// followerAccepts replays the publisher's chain into a fresh real follower node and offers it the new block.
func (n *node) followerAccepts(sb coin.SignedBlock, fail failer) bool {
	fw := n.W
	fw.Publisher = false
	f, err := openNode(fw, newPath())
	if err != nil {
		panic("CHECK-BROKEN: follower: " + err.Error())
	}
	defer f.close()
	for i := 1; i < len(n.M.Chain); i++ {
		if err := f.V.ExecuteSignedBlock(n.M.Chain[i]); err != nil {
			fail("C05,C04", "follower:rejects-earlier-publisher-block", "follower rejects block %d of the publisher's chain: %v", i, err)
			return false
		}
	}
	if err := f.V.ExecuteSignedBlock(sb); err != nil {
		fail("C05", "follower:rejects-new-publisher-block", "independent node rejects the created block: %v", err)
		return false
	}
	return true
}

var _ = visor.AscOrder
