package main

import (
	"fmt"
	"math/big"

	"github.com/skycoin/skycoin/src/cipher"
	"github.com/skycoin/skycoin/src/coin"

	"verif/model/ledger"
)

// A template instantiates one transaction shape against the CURRENT model state (deterministically: first
// unspent output of the owner in creation order).  Templates are chosen to collide: several spend the same
// output (conflicting siblings), touch arithmetic boundaries, or break exactly one rule.
type tmpl struct {
	Name  string
	Build func(m *ledger.Model) *coin.Transaction // nil when not instantiable in this state
}

func firstOut(m *ledger.Model, owner ident, idx int) *coin.UxOut {
	outs := m.OutputsOf(owner.Addr)
	if idx >= len(outs) {
		return nil
	}
	return &outs[idx]
}

func accruedU64(m *ledger.Model, ux coin.UxOut) (uint64, bool) {
	v, cls := ledger.Accrued(ux, m.Head().Head.Time)
	if cls != "" || !v.IsUint64() {
		return 0, false
	}
	return v.Uint64(), true
}

type outSpec struct {
	To    cipher.Address
	Coins uint64
	Hours uint64
}

func build(ins []coin.UxOut, keys []cipher.SecKey, outs []outSpec) *coin.Transaction {
	var t coin.Transaction
	for _, in := range ins {
		t.In = append(t.In, in.Hash())
	}
	for _, o := range outs {
		t.Out = append(t.Out, coin.TransactionOutput{Address: o.To, Coins: o.Coins, Hours: o.Hours})
	}
	signTxn(&t, keys)
	return &t
}

// pay spends the idx-th output of from: `coins` to to (0 = half, rounded down to a whole coin, at least 1 coin), change back to from.
// hoursNum/hoursDen of the accrued hours are passed on (the rest is burned), split evenly over the outputs.
func pay(m *ledger.Model, from, to ident, idx int, signer *ident, hoursNum, hoursDen uint64, tweak func(ux coin.UxOut, outs []outSpec, avail uint64) []outSpec) *coin.Transaction {
	ux := firstOut(m, from, idx)
	if ux == nil {
		return nil
	}
	avail, ok := accruedU64(m, *ux)
	if !ok {
		avail = 0
	}
	c := ux.Body.Coins / 2 / 1e6 * 1e6
	if c == 0 {
		c = ux.Body.Coins
	}
	var outs []outSpec
	// hours to hand on, computed exactly
	keep := new(big.Int).Mul(new(big.Int).SetUint64(avail), new(big.Int).SetUint64(hoursNum))
	keep.Div(keep, new(big.Int).SetUint64(hoursDen))
	k := keep.Uint64()
	if c == ux.Body.Coins {
		outs = []outSpec{{to.Addr, c, k}}
	} else {
		outs = []outSpec{{to.Addr, c, k / 2}, {from.Addr, ux.Body.Coins - c, k - k/2}}
	}
	if tweak != nil {
		outs = tweak(*ux, outs, avail)
		if outs == nil {
			return nil
		}
	}
	s := from
	if signer != nil {
		s = *signer
	}
	return build([]coin.UxOut{*ux}, []cipher.SecKey{s.Sec}, outs)
}

func templates() []tmpl {
	var ts []tmpl
	add := func(name string, f func(m *ledger.Model) *coin.Transaction) { ts = append(ts, tmpl{name, f}) }

	// --- well-behaved payments; G→A and G→B conflict (same input), so do A→B / A→C
	add("pay-G-A", func(m *ledger.Model) *coin.Transaction { return pay(m, idG, idA, 0, nil, 1, 2, nil) })
	add("pay-G-B", func(m *ledger.Model) *coin.Transaction { return pay(m, idG, idB, 0, nil, 1, 4, nil) })
	add("pay-A-B", func(m *ledger.Model) *coin.Transaction { return pay(m, idA, idB, 0, nil, 1, 2, nil) })
	add("pay-A-C", func(m *ledger.Model) *coin.Transaction { return pay(m, idA, idC, 0, nil, 1, 3, nil) })
	add("pay-B-A", func(m *ledger.Model) *coin.Transaction { return pay(m, idB, idA, 0, nil, 1, 2, nil) })
	// spends A's second output completely (no change back to the sender)
	add("payall-A2-C", func(m *ledger.Model) *coin.Transaction {
		ux := firstOut(m, idA, 1)
		if ux == nil {
			return nil
		}
		h, ok := accruedU64(m, *ux)
		if !ok {
			return nil
		}
		return build([]coin.UxOut{*ux}, []cipher.SecKey{idA.Sec}, []outSpec{{idC.Addr, ux.Body.Coins, h / 2}})
	})
	add("pay-A3-B", func(m *ledger.Model) *coin.Transaction { return pay(m, idA, idB, 2, nil, 1, 2, nil) })
	add("pay-A2-C", func(m *ledger.Model) *coin.Transaction { return pay(m, idA, idC, 1, nil, 1, 2, nil) })
	add("pay-G2-A", func(m *ledger.Model) *coin.Transaction { return pay(m, idG, idA, 1, nil, 1, 2, nil) })
	// same fee-per-kB as pay-G-A but different destination: exercises the hash tie-break among conflicting siblings
	add("pay-G-C-samefee", func(m *ledger.Model) *coin.Transaction { return pay(m, idG, idC, 0, nil, 1, 2, nil) })
	add("merge-A", func(m *ledger.Model) *coin.Transaction {
		a, b := firstOut(m, idA, 0), firstOut(m, idA, 1)
		if a == nil || b == nil {
			return nil
		}
		ha, ok1 := accruedU64(m, *a)
		hb, ok2 := accruedU64(m, *b)
		if !ok1 || !ok2 {
			return nil
		}
		return build([]coin.UxOut{*a, *b}, []cipher.SecKey{idA.Sec, idA.Sec}, []outSpec{{idA.Addr, a.Body.Coins + b.Body.Coins, (ha + hb) / 2}})
	})
	// the "ladder" (root of the 1 KiB-block world): G pays five outputs of 1, 10, 100, 1000, 10000 coins with 1000 hours each to U;
	// ladder-k spends the k-th of them (2 outputs, ~220 bytes) with fee ceil(hours/2)+4-k: the fee per kB falls as the coins rise
	add("ladder-fanout", func(m *ledger.Model) *coin.Transaction {
		ux := firstOut(m, idG, 0)
		if ux == nil || len(m.OutputsOf(idU.Addr)) > 0 {
			return nil
		}
		avail, ok := accruedU64(m, *ux)
		if !ok || avail < 20000 || ux.Body.Coins < 20000e6 {
			return nil
		}
		outs := []outSpec{}
		var sum uint64
		for _, c := range []uint64{1e6, 10e6, 100e6, 1000e6, 10000e6} {
			outs = append(outs, outSpec{idU.Addr, c, 1000})
			sum += c
		}
		outs = append(outs, outSpec{idG.Addr, ux.Body.Coins - sum, avail/2 - 5000})
		return build([]coin.UxOut{*ux}, []cipher.SecKey{idG.Sec}, outs)
	})
	for k := 0; k < 5; k++ {
		k := k
		add(fmt.Sprintf("ladder-%d", k), func(m *ledger.Model) *coin.Transaction {
			want := []uint64{1e6, 10e6, 100e6, 1000e6, 10000e6}[k]
			for _, ux := range m.OutputsOf(idU.Addr) {
				if ux.Body.Coins != want {
					continue
				}
				avail, ok := accruedU64(m, ux)
				if !ok || avail < 100 {
					return nil
				}
				fee := (avail+1)/2 + uint64(4-k)
				rest := avail - fee
				if want == 1e6 {
					return build([]coin.UxOut{ux}, []cipher.SecKey{idU.Sec}, []outSpec{{idC.Addr, want, rest}})
				}
				return build([]coin.UxOut{ux}, []cipher.SecKey{idU.Sec}, []outSpec{{idC.Addr, want / 2 / 1e6 * 1e6, rest / 2}, {idU.Addr, want - want/2/1e6*1e6, rest - rest/2}})
			}
			return nil
		})
	}
	// spends the 10 000-coin ladder output with a fee one hour below the pool's requirement (ceil(hours/20)): soft-invalid when it
	// arrives, fully valid one block later (the output earns 10 000 hours per hour against its 1000) - a pool entry whose validity
	// flag, written at arrival, is stale
	add("ladder-4-underpaid", func(m *ledger.Model) *coin.Transaction {
		for _, ux := range m.OutputsOf(idU.Addr) {
			if ux.Body.Coins != 10000e6 {
				continue
			}
			avail, ok := accruedU64(m, ux)
			if !ok || avail < 40 || avail > 5000 {
				return nil // only while the output is young: later the same shape is simply valid
			}
			fee := (avail+19)/20 - 1
			return build([]coin.UxOut{ux}, []cipher.SecKey{idU.Sec}, []outSpec{{idC.Addr, 10000e6, avail - fee}})
		}
		return nil
	})
	// one transaction creating 200 outputs (7.6 KB, valid): a block that creates far more outputs than any other in the alphabet
	add("fanout-200-G", func(m *ledger.Model) *coin.Transaction {
		ux := firstOut(m, idG, 0)
		if ux == nil || ux.Body.Coins < 100000e6 {
			return nil
		}
		avail, ok := accruedU64(m, *ux)
		if !ok || avail < 1000 || avail > 1<<62 {
			return nil
		}
		outs := make([]outSpec, 0, 200)
		var sum uint64
		for i := uint64(0); i < 199; i++ {
			c := (i + 1) * 1e6
			outs = append(outs, outSpec{idC.Addr, c, i})
			sum += c
		}
		outs = append(outs, outSpec{idG.Addr, ux.Body.Coins - sum, avail / 4})
		return build([]coin.UxOut{*ux}, []cipher.SecKey{idG.Sec}, outs)
	})
	// oversized transactions (901 outputs, > 32 KiB = the default size limit of every rule set): size is a SOFT rule and must be
	// judged after the hard rules - an oversized transaction that also creates hours is refused outright, an oversized but
	// otherwise valid one is kept (flagged invalid) when it comes from a peer
	huge := func(createHours bool) func(m *ledger.Model) *coin.Transaction {
		return func(m *ledger.Model) *coin.Transaction {
			ux := firstOut(m, idG, 0)
			if ux == nil || ux.Body.Coins < 1000e6 {
				return nil
			}
			avail, ok := accruedU64(m, *ux)
			if !ok || avail < 4 || avail > 1<<62 {
				return nil
			}
			outs := make([]outSpec, 0, 901)
			var sum uint64
			for i := uint64(0); i < 900; i++ {
				c := (i + 1) * 1e3
				outs = append(outs, outSpec{idC.Addr, c, 0})
				sum += c
			}
			outs = append(outs, outSpec{idG.Addr, ux.Body.Coins - sum, 0})
			if createHours {
				outs[0].Hours = avail + 1
			} else {
				outs[0].Hours = avail / 2
			}
			return build([]coin.UxOut{*ux}, []cipher.SecKey{idG.Sec}, outs)
		}
	}
	add("huge-creates-hours-G", huge(true))
	add("huge-valid-G", huge(false))
	// fund the locked distribution address, then try to spend from it (soft: locked)
	add("pay-G-L", func(m *ledger.Model) *coin.Transaction { return pay(m, idG, idL, 0, nil, 1, 8, nil) })
	add("pay-L-A", func(m *ledger.Model) *coin.Transaction { return pay(m, idL, idA, 0, nil, 1, 2, nil) })

	// --- soft-rule boundaries
	// burns 6 %: enough for the unconfirmed parameters (burn factor 20), not for user / block creation (10)
	add("lowfee-A-B", func(m *ledger.Model) *coin.Transaction { return pay(m, idA, idB, 0, nil, 94, 100, nil) })
	add("lowfee-G-B", func(m *ledger.Model) *coin.Transaction { return pay(m, idG, idB, 0, nil, 94, 100, nil) })
	add("zerofee-G-A", func(m *ledger.Model) *coin.Transaction { return pay(m, idG, idA, 0, nil, 1, 1, nil) })
	// fee exactly one hour short of ceil(total/20)
	add("fee-minus-1-G-A", func(m *ledger.Model) *coin.Transaction {
		return pay(m, idG, idA, 0, nil, 1, 2, func(ux coin.UxOut, outs []outSpec, avail uint64) []outSpec {
			if avail < 40 {
				return nil
			}
			req := (avail + 19) / 20
			keep := avail - req + 1
			outs[0].Hours = keep
			for i := 1; i < len(outs); i++ {
				outs[i].Hours = 0
			}
			return outs
		})
	})
	add("fee-exact-G-A", func(m *ledger.Model) *coin.Transaction {
		return pay(m, idG, idA, 0, nil, 1, 2, func(ux coin.UxOut, outs []outSpec, avail uint64) []outSpec {
			if avail < 40 {
				return nil
			}
			req := (avail + 19) / 20
			outs[0].Hours = avail - req
			for i := 1; i < len(outs); i++ {
				outs[i].Hours = 0
			}
			return outs
		})
	})
	// 4 decimals: fine for unconfirmed (precision 4), soft-invalid for user/block creation (precision 3)
	add("precision4-G-A", func(m *ledger.Model) *coin.Transaction {
		return pay(m, idG, idA, 0, nil, 1, 2, func(ux coin.UxOut, outs []outSpec, avail uint64) []outSpec {
			if len(outs) < 2 || outs[1].Coins < 200 {
				return nil
			}
			outs[0].Coins += 100
			outs[1].Coins -= 100
			return outs
		})
	})
	add("precision6-G-A", func(m *ledger.Model) *coin.Transaction {
		return pay(m, idG, idA, 0, nil, 1, 2, func(ux coin.UxOut, outs []outSpec, avail uint64) []outSpec {
			if len(outs) < 2 || outs[1].Coins < 2 {
				return nil
			}
			outs[0].Coins++
			outs[1].Coins--
			return outs
		})
	})
	add("null-address-G", func(m *ledger.Model) *coin.Transaction {
		return pay(m, idG, ident{Name: "null"}, 0, nil, 1, 2, nil)
	})

	// --- hard-rule violations (each breaks exactly one rule)
	add("create-coins-G", func(m *ledger.Model) *coin.Transaction {
		return pay(m, idG, idA, 0, nil, 1, 2, func(ux coin.UxOut, outs []outSpec, _ uint64) []outSpec {
			if outs[0].Coins > 1<<63 {
				return nil
			}
			outs[0].Coins += 1e6
			return outs
		})
	})
	add("destroy-coins-G", func(m *ledger.Model) *coin.Transaction {
		return pay(m, idG, idA, 0, nil, 1, 2, func(ux coin.UxOut, outs []outSpec, _ uint64) []outSpec {
			if outs[0].Coins <= 1e6 {
				return nil
			}
			outs[0].Coins -= 1e6
			return outs
		})
	})
	// two outputs of 2^63+k each: their 64-bit sum wraps to exactly the input amount
	add("wrap-coin-sum-G", func(m *ledger.Model) *coin.Transaction {
		return pay(m, idG, idA, 0, nil, 1, 2, func(ux coin.UxOut, _ []outSpec, avail uint64) []outSpec {
			c := ux.Body.Coins
			if c%2 != 0 || c == 0 {
				return nil
			}
			return []outSpec{{idA.Addr, 1<<63 + c/2, avail / 4}, {idB.Addr, 1<<63 + c/2, avail / 4}}
		})
	})
	// three outputs: the first two sum to exactly 2^64 (a running 64-bit total passes through 0 in the MIDDLE of the sum), the third
	// equals the input amount
	add("wrap-coin-sum-mid-G", func(m *ledger.Model) *coin.Transaction {
		return pay(m, idG, idA, 0, nil, 1, 2, func(ux coin.UxOut, _ []outSpec, avail uint64) []outSpec {
			return []outSpec{{idA.Addr, 1 << 63, avail / 8}, {idB.Addr, 1 << 63, avail / 8}, {idC.Addr, ux.Body.Coins, avail / 8}}
		})
	})
	// four outputs, overflow at the third addition, remainder added afterwards
	add("wrap-coin-sum-mid4-G", func(m *ledger.Model) *coin.Transaction {
		return pay(m, idG, idA, 0, nil, 1, 2, func(ux coin.UxOut, _ []outSpec, avail uint64) []outSpec {
			c := ux.Body.Coins
			if c < 4 || c%2 != 0 {
				return nil
			}
			return []outSpec{{idA.Addr, 1 << 63, avail / 8}, {idB.Addr, c / 2, avail / 8}, {idC.Addr, 1 << 63, avail / 8}, {idA.Addr, c / 2, 0}}
		})
	})
	add("wrap-hour-sum-mid-G", func(m *ledger.Model) *coin.Transaction {
		return pay(m, idG, idA, 0, nil, 1, 2, func(ux coin.UxOut, outs []outSpec, avail uint64) []outSpec {
			c := ux.Body.Coins
			if c < 3e6 {
				return nil
			}
			return []outSpec{{idA.Addr, 1e6, 1 << 63}, {idB.Addr, 1e6, 1 << 63}, {idC.Addr, c - 2e6, avail / 4}}
		})
	})
	// output hours 2^64-1 and a small value: wraps to the small value inside a block; creates an output whose hours overflow once it earns anything
	add("wrap-hour-sum-max-G", func(m *ledger.Model) *coin.Transaction {
		return pay(m, idG, idA, 0, nil, 1, 2, func(ux coin.UxOut, outs []outSpec, avail uint64) []outSpec {
			if len(outs) < 2 {
				return nil
			}
			return []outSpec{{idA.Addr, outs[0].Coins, ^uint64(0)}, {idB.Addr, outs[1].Coins, avail/4 + 1}}
		})
	})
	// spends [a normal output, an output whose accrued hours overflow (legacy exception: counts 0)]; the "overflow" variant hands on more
	// hours than the normal input has, the "ok" variant half of them
	legacy := func(num, den uint64) func(m *ledger.Model) *coin.Transaction {
		return func(m *ledger.Model) *coin.Transaction {
			var leg, norm *coin.UxOut
			for _, id := range m.Order {
				ux, ok := m.UTXO[id]
				if !ok {
					continue
				}
				if _, known := byAddr[ux.Body.Address]; !known {
					continue
				}
				_, cls := ledger.Accrued(ux, m.Head().Head.Time)
				u := ux
				if cls == "final" && leg == nil {
					leg = &u
				} else if cls == "" && norm == nil && ux.Body.Hours > 10 && ux.Body.Hours < 1<<62 {
					norm = &u
				}
			}
			if leg == nil || norm == nil || leg.Body.Coins > 1<<62 || norm.Body.Coins > 1<<62 {
				return nil
			}
			hn, ok := accruedU64(m, *norm)
			if !ok || hn < 10 {
				return nil
			}
			return build([]coin.UxOut{*norm, *leg}, []cipher.SecKey{byAddr[norm.Body.Address].Sec, byAddr[leg.Body.Address].Sec},
				[]outSpec{{idC.Addr, norm.Body.Coins + leg.Body.Coins, hn / den * num}})
		}
	}
	add("spend-legacy-overflow-creates-hours", legacy(3, 2))
	add("spend-legacy-overflow-ok", legacy(1, 2))
	add("create-hours-G", func(m *ledger.Model) *coin.Transaction {
		return pay(m, idG, idA, 0, nil, 1, 1, func(ux coin.UxOut, outs []outSpec, avail uint64) []outSpec {
			if avail == ^uint64(0) {
				return nil
			}
			outs[0].Hours++
			return outs
		})
	})
	// output hours 2^63 + 2^63 + small: the 64-bit sum wraps to "small" (tolerated inside a block by the documented legacy rule)
	add("wrap-hour-sum-G", func(m *ledger.Model) *coin.Transaction {
		return pay(m, idG, idA, 0, nil, 1, 2, func(ux coin.UxOut, outs []outSpec, avail uint64) []outSpec {
			if len(outs) < 2 {
				return nil
			}
			return []outSpec{{idA.Addr, outs[0].Coins, 1 << 63}, {idB.Addr, outs[1].Coins, 1<<63 + avail/4}}
		})
	})
	// a valid signed payment whose HEADER a third party altered afterwards (no key needed): the recorded length, the type byte, the
	// inner hash.  Every path into the pool must refuse it - in particular the path for the user's own submissions
	hdrTamper := func(name string, f func(t *coin.Transaction)) {
		add(name, func(m *ledger.Model) *coin.Transaction {
			t := pay(m, idG, idA, 0, nil, 1, 2, nil)
			if t == nil {
				return nil
			}
			f(t)
			return t
		})
	}
	hdrTamper("hdr-length-plus-1-G", func(t *coin.Transaction) { t.Length++ })
	hdrTamper("hdr-type-1-G", func(t *coin.Transaction) { t.Type = 1 })
	hdrTamper("hdr-innerhash-bit-G", func(t *coin.Transaction) { t.InnerHash[31] ^= 1 })
	add("wrong-signer-G", func(m *ledger.Model) *coin.Transaction { return pay(m, idG, idA, 0, &idB, 1, 2, nil) })
	add("unsigned-G", func(m *ledger.Model) *coin.Transaction { return pay(m, idG, idA, 0, &ident{}, 1, 2, nil) })
	add("dup-output-G", func(m *ledger.Model) *coin.Transaction {
		return pay(m, idG, idA, 0, nil, 1, 2, func(ux coin.UxOut, _ []outSpec, avail uint64) []outSpec {
			c := ux.Body.Coins
			if c%2 != 0 {
				return nil
			}
			return []outSpec{{idA.Addr, c / 2, avail / 8}, {idA.Addr, c / 2, avail / 8}}
		})
	})
	add("dup-input-G", func(m *ledger.Model) *coin.Transaction {
		ux := firstOut(m, idG, 0)
		if ux == nil || ux.Body.Coins > 1<<62 {
			return nil
		}
		return build([]coin.UxOut{*ux, *ux}, []cipher.SecKey{idG.Sec, idG.Sec}, []outSpec{{idA.Addr, 2 * ux.Body.Coins, 0}})
	})
	add("zero-coin-output-G", func(m *ledger.Model) *coin.Transaction {
		return pay(m, idG, idA, 0, nil, 1, 2, func(ux coin.UxOut, outs []outSpec, avail uint64) []outSpec {
			return append(outs, outSpec{idC.Addr, 0, 0})
		})
	})
	// spends an output that only exists as the predicted output of a pending transaction
	add("spend-unconfirmed", func(m *ledger.Model) *coin.Transaction {
		hs := make([]ledger.Hash, 0, len(m.Pool))
		for h := range m.Pool {
			hs = append(hs, h)
		}
		if len(hs) == 0 {
			return nil
		}
		ledger.SortHashes(hs)
		p := m.Pool[hs[0]].Txn
		uxs := coin.CreateUnspents(coin.BlockHeader{BkSeq: m.Head().Head.BkSeq + 1, Time: m.Head().Head.Time + 10}, p)
		ux := uxs[0]
		owner, ok := byAddr[ux.Body.Address]
		if !ok {
			return nil
		}
		return build([]coin.UxOut{ux}, []cipher.SecKey{owner.Sec}, []outSpec{{idC.Addr, ux.Body.Coins, 0}})
	})
	// spends an output that the chain already spent
	add("spend-spent", func(m *ledger.Model) *coin.Transaction {
		for _, id := range m.Order {
			c := m.Outs[id]
			if c.Spent {
				owner, ok := byAddr[c.Out.Body.Address]
				if !ok {
					continue
				}
				return build([]coin.UxOut{c.Out}, []cipher.SecKey{owner.Sec}, []outSpec{{idC.Addr, c.Out.Body.Coins, 0}})
			}
		}
		return nil
	})
	return ts
}
