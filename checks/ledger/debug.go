package main

import "fmt"

// debugAlphabet prints the operations offered at the two roots of the follower world (developer aid).
func debugAlphabet() {
	w := worldsFor("follower")[0]
	n := freshNode(w)
	for _, o := range seedOps(w) {
		fmt.Println("seed", o, n.apply(o, false, nil))
	}
	for _, o := range n.ops("") {
		fmt.Println(o)
	}
	for _, o := range []op{{"inject-foreign", "fee-minus-1-G-A"}, {"block", "valid[pay-A-B]+1h"}, {"refresh", ""}} {
		fmt.Println("scenario", o, n.apply(o, true, func(props, sig, f string, a ...interface{}) { fmt.Println("   FAIL", props, sig, fmt.Sprintf(f, a...)) }))
		for h, e := range n.M.Pool {
			fmt.Println("   model pool", hx(h), e.Valid)
		}
	}
	for _, a := range users {
		fmt.Println(a.Name, len(n.M.OutputsOf(a.Addr)))
	}
	n.close()
}

// debugPublisher replays a fixed publisher history with the oracles on (developer aid).
func debugPublisher() {
	w := worldsFor("publisher")[0]
	n := freshNode(w)
	for _, o := range seedOps(w) {
		fmt.Println("seed", o, n.apply(o, false, nil))
	}
	for _, o := range []op{{"inject-user", "pay-A-B"}, {"publish", "1h"}, {"publish", "1s"}, {"publish", "1h"}} {
		fmt.Println("scenario", o, n.apply(o, true, func(props, sig, f string, a ...interface{}) { fmt.Println("   FAIL", props, sig, fmt.Sprintf(f, a...)) }))
		if n.M == nil {
			break
		}
		for h, e := range n.M.Pool {
			fmt.Println("   model pool", hx(h), e.Valid)
		}
		for _, c := range n.M.Candidates() {
			var outH uint64
			for _, o := range c.Txn.Out {
				outH += o.Hours
			}
			fmt.Println("   candidate", hx(c.Hash), c.Elig, c.Class, "fee", n.M.Fee(&c.Txn), "outHours", outH, "head", n.M.Head().Head.Time)
		}
	}
	n.close()
}
