package main

import "fmt"

// debugAlphabet prints the operations offered at the two roots of the follower world (developer aid).
func debugAlphabet() {
	w := worldsFor("follower")[0]
	n := freshNode(w)
	for _, o := range seedOps(w) {
		fmt.Println("seed", o, n.apply(o, false, nil))
	}
	for _, o := range n.ops("") {
		fmt.Println(o)
	}
	for _, a := range users {
		fmt.Println(a.Name, len(n.M.OutputsOf(a.Addr)))
	}
	n.close()
}
