package main

import (
	"crypto/sha256"
	"fmt"
	"os"
	"path/filepath"
	"sync"
	"sync/atomic"
	"time"

	"github.com/boltdb/bolt"

	"github.com/skycoin/skycoin/src/cipher"
	secp "github.com/skycoin/skycoin/src/cipher/secp256k1-go/secp256k1-go2"
	"github.com/skycoin/skycoin/src/coin"
	"github.com/skycoin/skycoin/src/params"
	"github.com/skycoin/skycoin/src/visor"
	"github.com/skycoin/skycoin/src/visor/dbutil"

	"verif/engine"
	"verif/model/ledger"
	"verif/shim/vtime"
)

// Fixture identities (deterministic).
type ident struct {
	Name string
	Sec  cipher.SecKey
	Pub  cipher.PubKey
	Addr cipher.Address
}

func mkIdent(name string) ident {
	p, s := cipher.MustGenerateDeterministicKeyPair([]byte("verif-ledger-" + name))
	return ident{Name: name, Sec: s, Pub: p, Addr: cipher.AddressFromPubKey(p)}
}

var (
	idP = mkIdent("publisher")
	idX = mkIdent("intruder") // a key that is not the publisher's
	idG = mkIdent("genesis")
	idA = mkIdent("alice")
	idB = mkIdent("bob")
	idC = mkIdent("carol")
	idU = mkIdent("dist-unlocked")
	idL = mkIdent("dist-locked")

	users   = []ident{idG, idA, idB, idC, idU, idL}
	byAddr  = map[cipher.Address]ident{}
	genesisT = uint64(1500000000)
)

func init() {
	for _, u := range users {
		byAddr[u.Addr] = u
	}
}

func nameOf(a cipher.Address) string {
	if u, ok := byAddr[a]; ok {
		return u.Name
	}
	if a == (cipher.Address{}) {
		return "null"
	}
	return a.String()[:6]
}

// detSign signs hash with sec through the repository's own signing routine (secp256k1-go2 Signature.Sign) but with a
// deterministic nonce, so that the same logical transaction has the same bytes in every execution (state keys,
// hash tie-breaks and replays are reproducible).  The signature is a normal skycoin signature (low-s, recid<4).
func detSign(h cipher.SHA256, sec cipher.SecKey) cipher.Sig {
	type k struct {
		h cipher.SHA256
		s cipher.SecKey
	}
	if v, ok := sigMemo.Load(k{h, sec}); ok {
		return v.(cipher.Sig)
	}
	sig := detSignSlow(h, sec)
	sigMemo.Store(k{h, sec}, sig)
	return sig
}

var sigMemo sync.Map

func detSignSlow(h cipher.SHA256, sec cipher.SecKey) cipher.Sig {
	for ctr := byte(0); ; ctr++ {
		d := sha256.Sum256(append(append(append([]byte("verif-nonce"), sec[:]...), h[:]...), ctr))
		var k, key, msg secp.Number
		k.SetBytes(d[:])
		if k.Sign() == 0 || k.Cmp(&secp.TheCurve.Order.Int) >= 0 {
			continue
		}
		key.SetBytes(sec[:])
		msg.SetBytes(h[:])
		var s secp.Signature
		var recid int
		if s.Sign(&key, &msg, &k, &recid) != 1 {
			continue
		}
		var sig cipher.Sig
		copy(sig[:64], s.Bytes())
		sig[64] = byte(recid)
		return sig
	}
}

// signTxn fills txn.Sigs using keys[i] for input i (a zero key leaves a null signature) and updates the header.
func signTxn(txn *coin.Transaction, keys []cipher.SecKey) {
	txn.InnerHash = txn.HashInner()
	txn.Sigs = make([]cipher.Sig, len(txn.In))
	for i := range txn.In {
		if keys[i] == (cipher.SecKey{}) {
			continue
		}
		txn.Sigs[i] = detSign(cipher.AddSHA256(txn.InnerHash, txn.In[i]), keys[i])
	}
	b, err := txn.Serialize()
	if err != nil {
		panic(err)
	}
	txn.Length = uint32(len(b))
}

func signBlock(b coin.Block, sec cipher.SecKey) coin.SignedBlock {
	return coin.SignedBlock{Block: b, Sig: detSign(b.HashHeader(), sec)}
}

// ---------------------------------------------------------------- node configuration

type world struct {
	Name          string
	Publisher     bool   // publisher node (arbitrating, creates blocks) or follower (non-arbitrating)
	GenesisCoins  uint64
	MaxBlockSize  uint32
	OfferBlocks   bool // publisher (arbitrating) node that is also OFFERED externally built publisher-signed blocks
	SmallTxn      bool // run with USER_MAX_TXN_SIZE=1024 (set in the environment of the worker processes): 1 KiB transaction and block limits
}

var (
	vpUnconfirmed = params.VerifyTxn{BurnFactor: 20, MaxTransactionSize: 32768, MaxDropletPrecision: 4}
	vpCreateBlock = params.VerifyTxn{BurnFactor: 10, MaxTransactionSize: 32768, MaxDropletPrecision: 3}
)

func (w world) dist() params.Distribution {
	return params.Distribution{
		MaxCoinSupply:        w.GenesisCoins / 1e6 / 2 * 2,
		InitialUnlockedCount: 1,
		UnlockAddressRate:    5,
		UnlockTimeInterval:   60 * 60 * 24 * 365,
		Addresses:            []string{idU.Addr.String(), idL.Addr.String()},
	}
}

func (w world) genesisBlock() coin.SignedBlock {
	b, err := coin.NewGenesisBlock(idG.Addr, w.GenesisCoins, genesisT)
	if err != nil {
		panic(err)
	}
	return signBlock(*b, idP.Sec)
}

func (w world) config() visor.Config {
	c := visor.NewConfig()
	c.IsBlockPublisher = w.Publisher
	c.Arbitrating = w.Publisher
	c.BlockchainPubkey = idP.Pub
	if w.Publisher {
		c.BlockchainSeckey = idP.Sec
	}
	c.UnconfirmedVerifyTxn = vpUnconfirmed
	c.CreateBlockVerifyTxn = vpCreateBlock
	if w.SmallTxn {
		c.UnconfirmedVerifyTxn.MaxTransactionSize = 1024
		c.CreateBlockVerifyTxn.MaxTransactionSize = 1024
	}
	c.MaxBlockTransactionsSize = w.MaxBlockSize
	c.Distribution = w.dist()
	c.GenesisAddress = idG.Addr
	c.GenesisSignature = w.genesisBlock().Sig
	c.GenesisTimestamp = genesisT
	c.GenesisCoinVolume = w.GenesisCoins
	return c
}

func (w world) modelParams() ledger.Params {
	u := params.UserVerifyTxn
	ms := func(v uint32) uint32 {
		if w.SmallTxn {
			return 1024
		}
		return v
	}
	if w.SmallTxn && u.MaxTransactionSize != 1024 {
		panic("CHECK-BROKEN: small-transaction world needs USER_MAX_TXN_SIZE=1024 in the environment")
	}
	_ = ms
	return ledger.Params{
		Pubkey:       idP.Pub,
		Locked:       map[cipher.Address]bool{idL.Addr: true},
		Unconfirmed:  ledger.VerifyParams{Burn: vpUnconfirmed.BurnFactor, MaxSize: ms(vpUnconfirmed.MaxTransactionSize), Precision: vpUnconfirmed.MaxDropletPrecision},
		CreateBlock:  ledger.VerifyParams{Burn: vpCreateBlock.BurnFactor, MaxSize: ms(vpCreateBlock.MaxTransactionSize), Precision: vpCreateBlock.MaxDropletPrecision},
		User:         ledger.VerifyParams{Burn: u.BurnFactor, MaxSize: u.MaxTransactionSize, Precision: u.MaxDropletPrecision},
		MaxBlockSize: w.MaxBlockSize,
		Arbitrating:  w.Publisher,
	}
}

// ---------------------------------------------------------------- live node

// node is a live instance: real Visor on its own bolt file + the reference model.
type node struct {
	W    world
	Path string
	DB   *dbutil.DB
	V    *visor.Visor
	M    *ledger.Model
	// per-state caches of the instantiated alphabet (dropped whenever the model changes)
	txCache map[string]*coin.Transaction
	bkCache []blockCand
	bkDone  bool
	deepVerify bool // also run visor.CheckDatabase in the state oracle (C04, C07)
	// Log of ux ids ever removed from the model (for C02 at-most-once); kept in the model itself (Created.NSpent).
}

var nodeCtr int64

func newPath() string {
	n := atomic.AddInt64(&nodeCtr, 1)
	return filepath.Join(engine.Scratch(), fmt.Sprintf("n%d.db", n))
}

// openNode opens (or creates) the database at path and runs the real start-up path: visor.New + Init.
func openNode(w world, path string) (*node, error) { return openNodeInit(w, path, true) }

// openNodeInit: init=false skips Visor.Init (which removes invalid pending transactions) so that a saved state is re-obtained unchanged.
func openNodeInit(w world, path string, init bool) (*node, error) {
	bdb, err := bolt.Open(path, 0600, &bolt.Options{Timeout: 5 * time.Second, NoGrowSync: true, InitialMmapSize: 8 << 20})
	if err != nil {
		return nil, err
	}
	bdb.NoSync = true
	db := dbutil.WrapDB(bdb)
	v, err := visor.New(w.config(), db, nil)
	if err != nil {
		db.Close()
		return nil, fmt.Errorf("visor.New: %v", err)
	}
	if init {
		if err := v.Init(); err != nil {
			db.Close()
			return nil, fmt.Errorf("visor.Init: %v", err)
		}
	}
	return &node{W: w, Path: path, DB: db, V: v}, nil
}

func (n *node) close() {
	if n.DB != nil {
		n.DB.Close()
		n.DB = nil
	}
	if n.Path != "" {
		os.Remove(n.Path)
	}
}

// freshNode creates a node on an empty database: genesis only.
func freshNode(w world) *node {
	vtime.SetUnix(int64(genesisT) + 1)
	n, err := openNode(w, newPath())
	if err != nil {
		panic(fmt.Sprintf("CHECK-BROKEN: cannot create node: %v", err))
	}
	n.M = ledger.New(w.modelParams())
	n.M.Apply(w.genesisBlock())
	return n
}

type snapshot struct {
	img []byte
	m   *ledger.Model
}

func (n *node) save() any {
	// bolt with NoSync still writes through the page cache; reading the file gives the committed image
	b, err := os.ReadFile(n.Path)
	if err != nil {
		panic(err)
	}
	return &snapshot{img: b, m: n.M.Clone()}
}

func loadNode(w world, s *snapshot) *node {
	p := newPath()
	if err := os.WriteFile(p, s.img, 0600); err != nil {
		panic(err)
	}
	n, err := openNodeInit(w, p, false)
	if err != nil {
		panic(fmt.Sprintf("CHECK-BROKEN: reopen of a saved image failed: %v", err))
	}
	n.M = s.m.Clone()
	return n
}
