package main

import (
	"fmt"
	"strings"

	"github.com/skycoin/skycoin/src/cipher"
	"github.com/skycoin/skycoin/src/coin"
	"github.com/skycoin/skycoin/src/daemon"

	"verif/engine"
	"verif/model/ledger"
)

// C33 — nodes syncing from peers converge on the publisher's chain.
// World: a publisher chain of N blocks (built with the reference model from the transaction templates); a REAL follower
// Visor behind the REAL GiveBlocksMessage / AnnounceBlocksMessage handlers (daemoner implemented by a recording stub).
// Explicit-state search over every message of the alphabet in every reachable follower state, to fixpoint.
func init() { register("C33", "model_checking", c33) }

type syncMsg struct {
	Name   string
	Blocks []coin.SignedBlock
	Ann    bool
	AnnSeq uint64
}

// publisherChain builds N valid blocks over genesis using the model (blocks 1..N; index 0 = genesis).
func publisherChain(w world, n int) ([]coin.SignedBlock, *ledger.Model) {
	m := ledger.New(w.modelParams())
	m.Apply(w.genesisBlock())
	for i := 0; i < n; i++ {
		cache := map[string]*coin.Transaction{}
		inst := func(name string) *coin.Transaction {
			if t, ok := cache[name]; ok {
				return t
			}
			t := instantiate(m, name)
			cache[name] = t
			return t
		}
		var pick *coin.SignedBlock
		want := "valid["
		if i%2 == 1 {
			want = "valid2["
		}
		cands := blockCandidates(m, inst)
		if want == "valid2[" {
			// prefer a two-transaction block whose order is NOT the arbitration order (fee per kB, then hash): a node that
			// re-sorts what it is offered would store a different body than the signed one
			for _, c := range cands {
				if strings.HasPrefix(c.Name, want) && m.CheckBlock(&c.B) == "" && !arbitrationSorted(m, &c.B) {
					b := c.B
					pick = &b
					break
				}
			}
		}
		for _, c := range cands {
			if pick == nil && strings.HasPrefix(c.Name, want) {
				b := c.B
				pick = &b
				break
			}
		}
		if pick == nil {
			for _, c := range cands {
				if strings.HasPrefix(c.Name, "valid[") {
					b := c.B
					pick = &b
					break
				}
			}
		}
		if pick == nil || m.CheckBlock(pick) != "" {
			panic("CHECK-BROKEN: cannot build the publisher chain")
		}
		m.Apply(*pick)
	}
	return m.Chain, m
}

// arbitrationSorted: are the block's transactions in the order an arbitrating node would sort them into?
func arbitrationSorted(m *ledger.Model, b *coin.SignedBlock) bool {
	sorted, err := coin.SortTransactions(b.Body.Transactions, func(t *coin.Transaction) (uint64, error) { return m.Fee(t).Uint64(), nil })
	if err != nil || len(sorted) != len(b.Body.Transactions) {
		return true
	}
	for i := range sorted {
		if sorted[i].Hash() != b.Body.Transactions[i].Hash() {
			return false
		}
	}
	return true
}

func syncAlphabet(chain []coin.SignedBlock) []syncMsg {
	n := len(chain) - 1
	var out []syncMsg
	add := func(name string, bs ...coin.SignedBlock) {
		out = append(out, syncMsg{Name: name, Blocks: append([]coin.SignedBlock{}, bs...)})
	}
	rng := func(i, j int) []coin.SignedBlock { return append([]coin.SignedBlock{}, chain[i:j+1]...) }
	for i := 0; i <= n; i++ {
		for j := i; j <= n; j++ {
			add(fmt.Sprintf("GIVB[%d..%d]", i, j), rng(i, j)...)
		}
	}
	add("GIVB[]")
	for i := 1; i <= n; i++ {
		if i+1 <= n {
			add(fmt.Sprintf("GIVB[%d,%d,%d](duplicate)", i, i, i+1), chain[i], chain[i], chain[i+1])
			add(fmt.Sprintf("GIVB[%d,%d](reversed)", i+1, i), chain[i+1], chain[i])
		}
		if i+2 <= n {
			add(fmt.Sprintf("GIVB[%d,%d](gap)", i, i+2), chain[i], chain[i+2])
			add(fmt.Sprintf("GIVB[%d,%d,%d](out-of-order)", i, i+2, i+1), chain[i], chain[i+2], chain[i+1])
		}
		// forged variants of block i, delivered alone, after its genuine predecessor and before its genuine successor
		forged := map[string]coin.SignedBlock{}
		{
			b := chain[i]
			b.Sig = detSign(b.Block.HashHeader(), idX.Sec)
			forged["signed-by-intruder"] = b
		}
		{
			b := chain[i]
			b.Sig = cipher.Sig{}
			forged["unsigned"] = b
		}
		{
			b := chain[i]
			other := chain[(i%n)+1]
			if other.Head.BkSeq != b.Head.BkSeq {
				b.Body = other.Body
				forged["body-replaced-signature-kept"] = b
			}
		}
		{
			b := chain[i]
			b.Head.PrevHash = chain[0].Block.HashHeader()
			if i == 1 {
				b.Head.PrevHash = cipher.SumSHA256([]byte("other parent"))
			}
			forged["prevhash-altered-resigned-by-publisher"] = signBlock(b.Block, idP.Sec)
		}
		{
			b := chain[i]
			b.Head.Time += 5
			forged["time-altered-signature-kept"] = b
		}
		for name, fb := range forged {
			add(fmt.Sprintf("GIVB[forged %d:%s]", i, name), fb)
			if i > 1 {
				add(fmt.Sprintf("GIVB[%d,forged %d:%s]", i-1, i, name), chain[i-1], fb)
			}
			if i+1 <= n {
				add(fmt.Sprintf("GIVB[forged %d:%s,%d]", i, name, i+1), fb, chain[i+1])
			}
		}
	}
	for k := 0; k <= n+1; k++ {
		out = append(out, syncMsg{Name: fmt.Sprintf("ANNB(%d)", k), Ann: true, AnnSeq: uint64(k)})
	}
	// deterministic order
	return out
}

type syncLive struct {
	n *node
}

func c33(r *engine.Run) {
	N := r.Pick(4, 6)
	w := worldsFor("follower")[0]
	chain, _ := publisherChain(w, N)
	unsorted := 0
	{
		m := ledger.New(w.modelParams())
		m.Apply(w.genesisBlock())
		for i := 1; i < len(chain); i++ {
			if len(chain[i].Body.Transactions) > 1 && !arbitrationSorted(m, &chain[i]) {
				unsorted++
			}
			m.Apply(chain[i])
		}
	}
	if unsorted == 0 {
		r.Broken("vacuous: the publisher chain has no multi-transaction block outside the arbitration order")
	}
	msgs := syncAlphabet(chain)
	byName := map[string]syncMsg{}
	var names []string
	for _, m := range msgs {
		if _, dup := byName[m.Name]; !dup {
			names = append(names, m.Name)
		}
		byName[m.Name] = m
	}
	outcomes := engine.NewCounter()
	genuine := func(b coin.SignedBlock) bool {
		s := b.Head.BkSeq
		// (the genesis block is created by every node itself; a block-creating node signs it with its own nonce, so for block 0 the
		// signature is only required to verify - which the caller checks - not to be the same bytes)
		return s < uint64(len(chain)) && string(b.Head.Bytes()) == string(chain[s].Head.Bytes()) && (b.Sig == chain[s].Sig || s == 0) && string(b.Body.Bytes()) == string(chain[s].Body.Bytes())
	}
	cfg := daemon.NewConfig().Daemon
	cfg.DisableNetworking = false
	converges := engine.NewCounter()

	var perWorld []map[string]interface{}
	var res engine.BFSResult
	// the syncing node is explored in both roles: an ordinary follower, and a node in block-creating (arbitrating) mode that
	// catches up from peers (a stand-by or restarted publisher) - its ExecuteSignedBlock path sorts and filters transactions
	for wi, w := range []world{worldsFor("follower")[0], worldsFor("publisher-offered")[0]} {
		w := w
		reached := engine.NewSet()
		sp := engine.Space[*syncLive, string]{
			New:   func() *syncLive { return &syncLive{n: freshNode(w)} },
			Close: func(l *syncLive) { l.n.close() },
			Ops: func(l *syncLive) []string {
				if l.n.M == nil {
					return nil // a diverged (dishonest) state was reported already and is not explored further
				}
				return names
			},
			Key: func(l *syncLive) string {
				if l.n.M == nil {
					return "diverged:" + l.n.key()
				}
				return l.n.key()
			},
			Apply: func(l *syncLive, name string, check bool) string {
				if l.n.M == nil {
					return "dead"
				}
				msg := byName[name]
				v := l.n.V
				m := l.n.M
				d := &daemon.VerifDaemoner{Config: cfg,
					HeadBkSeq:          v.HeadBkSeq,
					ExecuteSignedBlock: v.ExecuteSignedBlock,
					GetBlocksSince:     v.GetSignedBlocksSince}
				headBefore := m.Head().Head.BkSeq
				fail := func(sig, format string, a ...interface{}) {
					if check {
						r.Failf(sig, map[string]interface{}{"head_before": headBefore, "message": name}, "follower head=%d, message %s: %s", headBefore, name, fmt.Sprintf(format, a...))
					}
				}
				if msg.Ann {
					pan, pm := catch(func() { daemon.VerifProcessAnnounceBlocks(d, msg.AnnSeq, "9.9.9.9:6000") })
					if pan {
						fail("AnnounceBlocksMessage.process:panic", "%s", pm)
						return "panic"
					}
					wantReq := msg.AnnSeq > headBefore
					gotReq := false
					for _, s := range d.Sent {
						if g, ok := s.Msg.(*daemon.GetBlocksMessage); ok && s.Addr == "9.9.9.9:6000" && g.LastBlock == headBefore && g.RequestedBlocks > 0 {
							gotReq = true
						}
					}
					if wantReq != gotReq {
						fail("AnnounceBlocksMessage.process:request-above-head", "peer announced %d: request for blocks above %d sent=%v, expected %v (messages %d)", msg.AnnSeq, headBefore, gotReq, wantReq, len(d.Sent))
					}
					if wantReq {
						return "ANNB:request"
					}
					return "ANNB:ignored"
				}
				pan, pm := catch(func() { daemon.VerifProcessGiveBlocks(d, msg.Blocks, "9.9.9.9:6000") })
				if pan {
					fail("GiveBlocksMessage.process:panic", "%s", pm)
					return "panic"
				}
				// reference semantics on the model: skip known (seq <= head at arrival), accept valid next blocks, stop at the first failure
				accepted := 0
				for i := range msg.Blocks {
					b := msg.Blocks[i]
					if b.Head.BkSeq <= headBefore {
						continue
					}
					if m.CheckBlock(&b) != "" {
						break
					}
					if !genuine(b) {
						fail("reference:non-genuine-block-valid", "the reference rules accept a block that is not the publisher's block %d — alphabet problem", b.Head.BkSeq)
					}
					m.Apply(b)
					accepted++
				}
				// real outcome
				hs, _, err := v.HeadBkSeq()
				if err != nil {
					fail("follower:head-unreadable", "%v", err)
					return "error"
				}
				if hs != m.Head().Head.BkSeq {
					fail("follower:head-differs-from-longest-prefix-semantics", "follower head %d, reference (skip known, accept consecutive genuine, stop at first failure) %d", hs, m.Head().Head.BkSeq)
				}
				// safety: every stored block is the publisher's block at that height, byte for byte, with a signature by the publisher
				stored, err := v.GetBlocksInRange(0, hs)
				if err != nil {
					fail("follower:blocks-unreadable", "%v", err)
				}
				for _, sb := range stored {
					if !genuine(sb) {
						fail("follower:holds-block-that-is-not-the-publishers", "stored block %d differs from the publisher's block (header %+v)", sb.Head.BkSeq, sb.Head)
						l.n.M = nil
						return "dishonest"
					}
					if e := cipher.VerifyPubKeySignedHash(idP.Pub, sb.Sig, sb.Block.HashHeader()); e != nil {
						fail("follower:stored-signature-not-by-publisher", "block %d: %v", sb.Head.BkSeq, e)
					}
				}
				if hs != m.Head().Head.BkSeq {
					l.n.M = nil
					return "diverged"
				}
				// liveness clause: after an advance the follower announces and requests blocks above its new head
				if accepted > 0 {
					ann, req := false, false
					for _, s := range d.Sent {
						switch g := s.Msg.(type) {
						case *daemon.AnnounceBlocksMessage:
							if g.MaxBkSeq == hs {
								ann = true
							}
						case *daemon.GetBlocksMessage:
							if g.LastBlock == hs && g.RequestedBlocks > 0 {
								req = true
							}
						}
					}
					if !req {
						fail("GiveBlocksMessage.process:no-request-above-new-head", "advanced to %d but did not request blocks above it", hs)
					}
					if !ann {
						fail("GiveBlocksMessage.process:no-announcement-of-new-head", "advanced to %d but did not announce it", hs)
					}
					return fmt.Sprintf("GIVB:advanced-by-%d", accepted)
				}
				if len(msg.Blocks) > 0 && strings.Contains(name, "forged") {
					return "GIVB:forged-refused"
				}
				return "GIVB:no-advance"
			},
			Invariant: func(l *syncLive, h []string) {
				if l.n.M == nil {
					return
				}
				head := l.n.M.Head().Head.BkSeq
				reached.Add(fmt.Sprint(head))
				// the node also serves its chain correctly: GetBlocksMessage answered with the blocks above the asked height
				d := &daemon.VerifDaemoner{Config: cfg, HeadBkSeq: l.n.V.HeadBkSeq, ExecuteSignedBlock: l.n.V.ExecuteSignedBlock, GetBlocksSince: l.n.V.GetSignedBlocksSince}
				for last := uint64(0); last <= head+1; last++ {
					d.Sent = nil
					daemon.VerifProcessGetBlocks(d, last, 20, "8.8.8.8:6000")
					var got []uint64
					for _, s := range d.Sent {
						if g, ok := s.Msg.(*daemon.GiveBlocksMessage); ok {
							for _, b := range g.Blocks {
								got = append(got, b.Head.BkSeq)
								if !genuine(b) {
									r.Failf("GetBlocksMessage.process:serves-non-genuine-block", h, "history %v: served block %d is not the publisher's", h, b.Head.BkSeq)
								}
							}
						}
					}
					var want []uint64
					for s := last + 1; s <= head; s++ {
						want = append(want, s)
					}
					if fmt.Sprint(got) != fmt.Sprint(want) {
						r.Failf("GetBlocksMessage.process:wrong-blocks-served", h, "history %v: asked above %d, served %v want %v", h, last, got, want)
					}
				}
			},
			MaxDepth: N + 3,
			Workers:  8,
		}
		x := engine.BFS(sp)
		for k, v := range x.Outcomes {
			outcomes.AddN(k, v)
		}
		perWorld = append(perWorld, map[string]interface{}{"world": w.Name, "states": x.States, "transitions": x.Transitions, "exhaustive": x.Exhaustive, "honest_heads_reached": reached.Len()})
		if wi == 0 {
			res = x
		} else {
			res.States += x.States
			res.Transitions += x.Transitions
			res.Exhaustive = res.Exhaustive && x.Exhaustive
			for k, v := range x.Outcomes {
				res.Outcomes[k] += v
			}
		}
		// graph property: the honest states are exactly heads 0..N (every prefix reachable, nothing else), and from each of them the
		// exact answer to the follower's request (blocks head+1..N) leads to head N — checked by the transitions above, since
		// GIVB[head+1..N] is in the alphabet of every state and its outcome is compared with the reference.
		if reached.Len() != N+1 {
			r.Failf("sync:not-all-prefixes-reachable", map[string]interface{}{"world": w.Name, "reached": reached.Len()}, "%s: reachable honest heads: %d, expected %d (0..%d)", w.Name, reached.Len(), N+1, N)
		}
	}
	_ = converges
	if outcomes.Get("GIVB:forged-refused") == 0 || outcomes.Get("ANNB:request") == 0 || res.States < 2*(N+1) {
		r.Broken("vacuous: %v", outcomes.Map())
	}
	cov := res.Coverage("BFS to fixpoint over follower states; every message of the alphabet (all contiguous GIVB ranges incl. genesis, duplicates, reversed, gaps, out-of-order, five forged variants of every block alone / after its predecessor / before its successor, empty, ANNB(0..N+1)) is processed by the real GiveBlocksMessage/AnnounceBlocksMessage handlers over a real follower Visor in every reachable state; oracle: head = reference semantics (skip known, accept consecutive model-valid blocks, stop at first failure), every stored block byte-identical to the publisher's, request+announcement after every advance, request after ANNB above head; GetBlocksMessage served correctly in every state")
	cov["messages_in_alphabet"] = len(names)
	cov["publisher_chain_blocks"] = N
	cov["per_world"] = perWorld
	cov["request_fan_out_through_the_real_daemon"] = c33Fanout(r, outcomes)
	cov["multi_transaction_blocks_outside_arbitration_order"] = unsorted
	r.Assumptions = append(r.Assumptions, "chain of N blocks, one peer address; network transport and message framing are C22's subject; periodic re-request timer of the daemon is not modelled (requests observed on advance and on announcement)")
	r.Finish(cov)
}
