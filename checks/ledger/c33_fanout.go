package main

import (
	"fmt"
	"sort"

	"github.com/skycoin/skycoin/src/daemon"
	"github.com/skycoin/skycoin/src/daemon/gnet"

	"verif/engine"
)

// C33 part F — "keeps requesting blocks above its head", through the REAL Daemon.
//
// The main exploration puts a recording stub behind the handlers' daemoner interface, so it sees that the handlers ASK for a
// broadcast.  Whether the request then reaches the peers is decided by Daemon.broadcastMessage over the daemon's connection
// table.  Here a real Daemon (real follower Visor, real Connections, real gnet pool run offline with one connection record per
// peer and no write loop, so that queued messages stay readable) has three peers in EVERY combination of the states pending /
// connected (no introduction yet) / introduced, receives the publisher's blocks 1..2 through the real GiveBlocksMessage handler
// and then fires its block-request ticker action.  Every introduced peer must then hold, in order: the announcement of head 2,
// the request for blocks above 2 (from the handler), and the request for blocks above 2 (from the ticker) - whatever the other
// peers' states are.  Each combination is repeated (the connection table is a Go map: its iteration order varies per call).
func c33Fanout(r *engine.Run, outcomes *engine.Counter) map[string]interface{} {
	w := worldsFor("follower")[0]
	chain, _ := publisherChain(w, 2)
	states := []string{"pending", "connected", "introduced"}
	peers := []string{"10.1.0.1:6000", "10.2.0.2:6000", "10.3.0.3:6000"}
	reps := r.Pick(24, 64)
	combos, runs := 0, 0
	type fcase struct {
		States []string `json:"peer_states"`
	}
	one := func(assign []string) (string, string) {
		n := freshNode(w)
		defer n.close()
		dm, stop := daemon.VerifFanoutDaemon(n.V)
		defer stop()
		conns := make([]*gnet.Connection, len(peers))
		for i, p := range peers {
			gc, err := daemon.VerifFanoutPeer(dm, p, assign[i], uint32(1000+i))
			if err != nil {
				return "harness", fmt.Sprintf("peer %s into state %s: %v", p, assign[i], err)
			}
			conns[i] = gc
		}
		daemon.VerifDaemonProcessGiveBlocks(dm, chain[1:3])
		if seq, _, _ := n.V.HeadBkSeq(); seq != 2 {
			return "harness", fmt.Sprintf("follower head is %d after blocks 1..2", seq)
		}
		_ = daemon.VerifRequestBlocks(dm) // with no introduced peer it reports that there is nobody to ask: not judged
		for i, gc := range conns {
			var got []string
			if gc != nil {
			drain:
				for {
					select {
					case m := <-gc.WriteQueue:
						switch x := m.(type) {
						case *daemon.AnnounceBlocksMessage:
							got = append(got, fmt.Sprintf("ANNB(%d)", x.MaxBkSeq))
						case *daemon.GetBlocksMessage:
							got = append(got, fmt.Sprintf("GETB(above %d)", x.LastBlock))
						default:
							got = append(got, fmt.Sprintf("%T", m))
						}
					default:
						break drain
					}
				}
			}
			want := []string{}
			if assign[i] == "introduced" {
				want = []string{"ANNB(2)", "GETB(above 2)", "GETB(above 2)"}
			}
			if fmt.Sprint(got) != fmt.Sprint(want) {
				sig := "sync:request-does-not-reach-introduced-peer"
				if assign[i] != "introduced" {
					sig = "sync:message-sent-to-peer-that-has-not-introduced-itself"
				}
				return sig, fmt.Sprintf("peers %v in states %v; blocks 1..2 processed by the real Daemon, then the request ticker: peer %s (%s) was queued %v, expected %v", peers, assign, peers[i], assign[i], got, want)
			}
		}
		return "", ""
	}
	total := 1
	for range peers {
		total *= len(states)
	}
	for code := 0; code < total; code++ {
		assign := make([]string, len(peers))
		c := code
		for i := range assign {
			assign[i] = states[c%len(states)]
			c /= len(states)
		}
		combos++
		key := append([]string{}, assign...)
		sort.Strings(key)
		for rep := 0; rep < reps; rep++ {
			runs++
			sig, detail := one(assign)
			if sig == "harness" {
				r.Broken("C33 part F: %s", detail)
				return nil
			}
			if sig != "" {
				a := append([]string{}, assign...)
				r.Fail(engine.Failure{Sig: sig, Case: fcase{a}, Detail: detail + fmt.Sprintf(" (repetition %d of %d)", rep+1, reps),
					Repro: func() bool {
						for k := 0; k < reps; k++ {
							if s, _ := one(a); s == sig {
								return true
							}
						}
						return false
					}})
				break
			}
			outcomes.Add("fanout:ok")
		}
	}
	return map[string]interface{}{
		"what":                    "real Daemon (real follower Visor, Connections, gnet pool offline): 3 peers × {pending, connected, introduced}; blocks 1..2 through the real GiveBlocksMessage handler, then the request ticker action; every introduced peer is queued ANNB(2), GETB(2), GETB(2), nobody else anything",
		"peer_state_combinations": combos,
		"repetitions_each":        reps,
		"runs":                    runs,
		"note":                    "the combinations are enumerated exhaustively; the repetitions are there because the daemon iterates a Go map (order varies per call) - on code whose answer does not depend on that order every repetition is identical",
	}
}
