package main

import (
	"bufio"
	"crypto/sha256"
	"encoding/hex"
	"encoding/json"
	"fmt"
	"os"
	"os/exec"
	"path/filepath"
	"sort"
	"strings"
	"sync"
	"time"

	"github.com/boltdb/bolt"

	"github.com/skycoin/skycoin/src/coin"
	"github.com/skycoin/skycoin/src/skycoin"
	"github.com/skycoin/skycoin/src/visor"
	"github.com/skycoin/skycoin/src/visor/dbutil"

	"verif/engine"
	"verif/model/ledger"
	"verif/shim/vtime"
)

// C08 — the chain database recovers from a crash at any point.
//
// A scripted node life-cycle runs ONCE on the real code with a recorder on bolt's page writes / truncates / syncs
// (overlay of the bolt module, bolt's logic untouched).  Crash images are then CONSTRUCTED from the log:
//   * every prefix of the log (crash between two file operations),
//   * within the sync epoch in flight: every subset of its page writes (unsynced writes may persist in any combination),
//   * the last write of a prefix torn at every 512-byte sector boundary,
// and the REAL restart path (OpenDB → checkAndUpdateDB → visor.New → Init → CheckDatabase) runs on each image in a
// worker process with a deadline, in four variants {ForceVerify} × {ResetCorruptDB}; then the remaining blocks of the
// never-crashed chain are fed and the result is compared with the never-crashed node.
func init() { register("C08", "fault_enumeration", c08) }

type logEntry struct {
	Kind string // write | truncate | sync
	Off  int64
	Data []byte
}

type lifeStep struct {
	Name    string
	LogLen  int    // number of log entries once the step completed
	Head    uint64 // chain head after the step (0 before genesis exists: see HasGenesis)
	Genesis bool
}

type lifecycle struct {
	Name  string
	Log   []logEntry
	Steps []lifeStep
	Chain []coin.SignedBlock // never-crashed chain (index = seq)
	World world
	Final map[string]string // bucket digests of the never-crashed node (chain-derived buckets)
}

var chainBuckets = []string{"blocks", "block_tree", "block_sigs", "blockchain_meta", "unspent_pool", "unspent_pool_addr_index", "unspent_meta",
	"transactions", "uxouts", "address_in", "address_txns", "history_meta"}

func chainDigest(db *dbutil.DB) map[string]string {
	per, _ := dumpDB(db, nil)
	out := map[string]string{}
	for _, b := range chainBuckets {
		out[b] = per[b]
	}
	return out
}

const appVersion = "0.27.0"

// runLifecycle executes the scripted life-cycle on the real code and records bolt's file operations.
func runLifecycle(name string, w world) *lifecycle {
	lc := &lifecycle{Name: name, World: w}
	path := filepath.Join(engine.Scratch(), "life-"+name+".db")
	os.Remove(path)
	var mu sync.Mutex
	bolt.VerifHook = func(p, kind string, off int64, data []byte) {
		if p != path {
			return
		}
		mu.Lock()
		lc.Log = append(lc.Log, logEntry{Kind: kind, Off: off, Data: append([]byte{}, data...)})
		mu.Unlock()
	}
	defer func() { bolt.VerifHook = nil }()
	step := func(n string, head uint64, genesis bool) {
		lc.Steps = append(lc.Steps, lifeStep{Name: n, LogLen: len(lc.Log), Head: head, Genesis: genesis})
	}
	vtime.SetUnix(int64(genesisT) + 100)
	db, err := visor.OpenDB(path, false)
	must(err)
	step("open", 0, false)
	db, err = skycoin.VerifCheckAndUpdateDB(db, false, false, appVersion, idP.Pub, nil)
	must(err)
	step("check-and-set-version", 0, false)
	v, err := visor.New(w.config(), db, nil)
	must(err)
	step("visor.New", 0, false)
	must(v.Init())
	step("visor.Init(genesis)", 0, true)
	m := ledger.New(w.modelParams())
	m.Apply(w.genesisBlock())
	n := &node{W: w, Path: path, DB: db, V: v, M: m}
	do := func(o op) {
		oc := n.apply(o, true, func(props, sig, f string, a ...interface{}) {})
		if n.M == nil {
			panic("CHECK-BROKEN: life-cycle step " + o.String() + " → " + oc)
		}
		step(o.String()+"→"+oc, n.M.Head().Head.BkSeq, true)
	}
	if w.Publisher {
		do(op{"inject-user", "pay-G-A"})
		do(op{"publish", "1h"})
		do(op{"inject-user", "pay-A-B"})
		do(op{"inject-foreign", "pay-G-B"})
		do(op{"publish", "1h"})
		do(op{"inject-foreign", "pay-B-A"})
		do(op{"inject-foreign", "lowfee-G-B"})
		do(op{"publish", "1s"})
		do(op{"refresh", ""})
		do(op{"remove-invalid", ""})
	} else {
		do(op{"inject-foreign", "pay-G-A"})
		do(op{"block", "valid[pay-G-A]+1h"})
		do(op{"inject-foreign", "pay-A-B"})
		do(op{"inject-foreign", "pay-G-B"})
		do(op{"block", "valid2[pay-G-A,pay-A-B]+10s"})
		do(op{"block", "valid2-same-owner[pay-A-B,payall-A2-C]+10s"}) // two transactions spending outputs of one owner, the second without change
		do(op{"inject-foreign", "pay-G-C-samefee"})
		do(op{"block", "valid[pay-G-A]+10s"}) // conflicts with the pending pay-G-B / pay-G-C (same input): they become stale
		do(op{"refresh", ""})
		do(op{"remove-invalid", ""})
	}
	lc.Chain = append([]coin.SignedBlock{}, n.M.Chain...)
	// the publisher signs with random nonces: take the stored signatures
	if w.Publisher {
		bs, err := v.GetBlocksInRange(0, uint64(len(lc.Chain)))
		must(err)
		lc.Chain = bs
	}
	lc.Final = chainDigest(db)
	must(db.Close())
	step("close", uint64(len(lc.Chain)-1), true)
	os.Remove(path)
	return lc
}

func must(err error) {
	if err != nil {
		panic("CHECK-BROKEN: " + err.Error())
	}
}

// image is a crash-image recipe over the log.
type image struct {
	Prefix   int   // entries [0,Prefix) fully applied
	Omit     []int // indices < Prefix of the in-flight epoch NOT applied (unsynced writes that did not persist)
	TornAt   int   // index of a write applied only up to TornLen bytes (-1 none); always Prefix (the next write)
	TornLen  int
	Desc     string
}

func buildImage(log []logEntry, im image) []byte {
	var f []byte
	apply := func(e logEntry, n int) {
		switch e.Kind {
		case "write":
			end := int(e.Off) + n
			if end > len(f) {
				f = append(f, make([]byte, end-len(f))...)
			}
			copy(f[e.Off:], e.Data[:n])
		case "truncate":
			if int(e.Off) > len(f) {
				f = append(f, make([]byte, int(e.Off)-len(f))...)
			} else {
				f = f[:e.Off]
			}
		}
	}
	omit := map[int]bool{}
	for _, i := range im.Omit {
		omit[i] = true
	}
	for i := 0; i < im.Prefix; i++ {
		if omit[i] {
			continue
		}
		apply(log[i], len(log[i].Data))
	}
	if im.TornAt >= 0 {
		apply(log[im.TornAt], im.TornLen)
	}
	return f
}

// enumerateImages builds the image families.  full=false: prefixes, single omissions, torn next write at sector granularity for
// meta pages only; full=true: every subset of the in-flight epoch's writes and torn writes for every page.
func enumerateImages(log []logEntry, full bool) []image {
	var out []image
	epochStart := 0
	for p := 0; p <= len(log); p++ {
		// writes of the in-flight epoch that are already issued: indices in [epochStart, p) of kind write
		var inflight []int
		for i := epochStart; i < p; i++ {
			if log[i].Kind == "write" {
				inflight = append(inflight, i)
			}
		}
		out = append(out, image{Prefix: p, TornAt: -1, Desc: fmt.Sprintf("prefix %d", p)})
		if len(inflight) > 0 {
			if full && len(inflight) <= 10 {
				for mask := 1; mask < 1<<len(inflight); mask++ {
					var om []int
					for b, idx := range inflight {
						if mask&(1<<b) != 0 {
							om = append(om, idx)
						}
					}
					out = append(out, image{Prefix: p, Omit: om, TornAt: -1, Desc: fmt.Sprintf("prefix %d, unsynced writes %v lost", p, om)})
				}
			} else {
				for _, idx := range inflight {
					out = append(out, image{Prefix: p, Omit: []int{idx}, TornAt: -1, Desc: fmt.Sprintf("prefix %d, unsynced write %d lost", p, idx)})
				}
				if len(inflight) > 1 {
					out = append(out, image{Prefix: p, Omit: inflight, TornAt: -1, Desc: fmt.Sprintf("prefix %d, all unsynced writes lost", p)})
				}
			}
		}
		if p < len(log) && log[p].Kind == "write" {
			isMeta := log[p].Off < 8192 && len(log[p].Data) <= 4096
			if full || isMeta {
				for cut := 512; cut < len(log[p].Data); cut += 512 {
					out = append(out, image{Prefix: p, TornAt: p, TornLen: cut, Desc: fmt.Sprintf("prefix %d + first %d bytes of write %d", p, cut, p)})
				}
			} else {
				out = append(out, image{Prefix: p, TornAt: p, TornLen: len(log[p].Data) / 2 / 512 * 512, Desc: fmt.Sprintf("prefix %d + first half of write %d", p, p)})
			}
		}
		if p < len(log) && log[p].Kind == "sync" {
			epochStart = p + 1
		}
	}
	return out
}

// ---------------------------------------------------------------- worker: real restart on one image

type restartReq struct {
	Image       string
	ForceVerify bool
	Reset       bool
	Publisher   bool
	ChainFile   string
}

type restartRes struct {
	Stage     string // how far the restart got: open | check | new | init | verify | catchup | done
	Err       string
	Head      uint64
	HadGenesis bool
	Reset     bool // the database was set aside and recreated
	Digest    map[string]string
	CaughtUp  bool
}

func c08Worker() {
	in := bufio.NewScanner(os.Stdin)
	in.Buffer(make([]byte, 1<<20), 1<<20)
	out := bufio.NewWriter(os.Stdout)
	var chain []coin.SignedBlock
	for in.Scan() {
		var rq restartReq
		if err := json.Unmarshal(in.Bytes(), &rq); err != nil {
			os.Exit(3)
		}
		if chain == nil {
			b, err := os.ReadFile(rq.ChainFile)
			must(err)
			must(json.Unmarshal(b, &chain))
		}
		res := restartOnImage(rq, chain)
		b, _ := json.Marshal(res)
		out.Write(b)
		out.WriteByte('\n')
		out.Flush()
	}
}

func restartOnImage(rq restartReq, chain []coin.SignedBlock) (res restartRes) {
	defer func() {
		if e := recover(); e != nil {
			res.Err = "panic: " + fmt.Sprint(e)
		}
	}()
	w := world{Name: "restart", Publisher: rq.Publisher, GenesisCoins: normalCoins, MaxBlockSize: 32768}
	res.Stage = "open"
	db, err := visor.OpenDB(rq.Image, false)
	if err != nil {
		res.Err = err.Error()
		return
	}
	defer func() {
		if db != nil {
			db.Close()
		}
		// a reset leaves corrupt copies next to the image
		if ms, _ := filepath.Glob(rq.Image + ".corrupt.*"); len(ms) > 0 {
			for _, m := range ms {
				os.Remove(m)
			}
		}
	}()
	res.Stage = "check"
	before := db
	db2, err := skycoin.VerifCheckAndUpdateDB(db, rq.ForceVerify, rq.Reset, appVersion, idP.Pub, nil)
	if err != nil {
		res.Err = err.Error()
		return
	}
	if db2 != before {
		res.Reset = true
	}
	db = db2
	res.Stage = "new"
	vtime.SetUnix(int64(genesisT) + 100)
	v, err := visor.New(w.config(), db, nil)
	if err != nil {
		res.Err = err.Error()
		return
	}
	res.Stage = "init"
	if err := v.Init(); err != nil {
		res.Err = err.Error()
		return
	}
	res.Stage = "verify"
	if err := visor.CheckDatabase(db, idP.Pub, nil); err != nil {
		res.Err = err.Error()
		return
	}
	hs, ok, err := v.HeadBkSeq()
	if err != nil || !ok {
		res.Err = fmt.Sprintf("no head after init: %v", err)
		return
	}
	res.Head, res.HadGenesis = hs, true
	res.Stage = "catchup"
	for s := hs + 1; s < uint64(len(chain)); s++ {
		if err := v.ExecuteSignedBlock(chain[s]); err != nil {
			res.Err = fmt.Sprintf("block %d of the never-crashed chain refused: %v", s, err)
			return
		}
	}
	// the recovered blocks must be the never-crashed ones
	bs, err := v.GetBlocksInRange(0, uint64(len(chain)))
	if err != nil {
		res.Err = err.Error()
		return
	}
	for i := range bs {
		if bs[i].Block.HashHeader() != chain[i].Block.HashHeader() {
			res.Err = fmt.Sprintf("recovered block %d differs from the never-crashed chain", i)
			return
		}
	}
	if err := visor.CheckDatabase(db, idP.Pub, nil); err != nil {
		res.Err = "after catch-up: " + err.Error()
		return
	}
	res.CaughtUp = true
	res.Digest = chainDigest(db)
	res.Stage = "done"
	return
}

// workerPool runs restart requests in batch worker processes with a per-request deadline.
type c08Job struct {
	Req  restartReq
	Res  *restartRes
	Note string // "no-return" | "worker-died"
}

func runRestarts(jobs []*c08Job, deadline time.Duration) {
	exe, _ := os.Executable()
	var mu sync.Mutex
	next := 0
	take := func() *c08Job {
		mu.Lock()
		defer mu.Unlock()
		if next >= len(jobs) {
			return nil
		}
		j := jobs[next]
		next++
		return j
	}
	var wg sync.WaitGroup
	for wi := 0; wi < 16; wi++ {
		wg.Add(1)
		go func() {
			defer wg.Done()
			var cmd *exec.Cmd
			var stdin *bufio.Writer
			var lines chan string
			start := func() {
				cmd = exec.Command("/bin/bash", "-c", "ulimit -v 4194304; exec \"$0\" --worker c08", exe)
				cmd.Env = append(os.Environ(), "GOMAXPROCS=2")
				pi, _ := cmd.StdinPipe()
				po, _ := cmd.StdoutPipe()
				must(cmd.Start())
				stdin = bufio.NewWriter(pi)
				lines = make(chan string, 1)
				go func(ch chan string) {
					sc := bufio.NewScanner(po)
					sc.Buffer(make([]byte, 1<<20), 1<<20)
					for sc.Scan() {
						ch <- sc.Text()
					}
					close(ch)
				}(lines)
			}
			stop := func() {
				if cmd != nil {
					cmd.Process.Kill()
					cmd.Wait()
					cmd = nil
				}
			}
			defer stop()
			for {
				j := take()
				if j == nil {
					return
				}
				if cmd == nil {
					start()
				}
				b, _ := json.Marshal(j.Req)
				stdin.Write(b)
				stdin.WriteByte('\n')
				stdin.Flush()
				select {
				case l, ok := <-lines:
					if !ok {
						j.Note = "worker-died"
						stop()
						continue
					}
					var r restartRes
					if err := json.Unmarshal([]byte(l), &r); err != nil {
						j.Note = "worker-died"
						stop()
						continue
					}
					j.Res = &r
				case <-time.After(deadline):
					j.Note = "no-return"
					stop()
				}
			}
		}()
	}
	wg.Wait()
}

func c08(r *engine.Run) {
	full := true // the subset/torn families are cheap enough for both tiers; thorough adds the publisher life-cycle
	deadline := time.Duration(r.Pick(60, 300)) * time.Second
	var lcs []*lifecycle
	lcs = append(lcs, runLifecycle("follower", worldsFor("follower")[0]))
	if r.Thorough() {
		lcs = append(lcs, runLifecycle("publisher", worldsFor("publisher")[0]))
	}
	evals, distinctNT := 0, engine.NewSet()
	outcomes := engine.NewCounter()
	var samples []interface{}
	cov := engine.Coverage{}
	lifeInfo := map[string]interface{}{}
	for _, lc := range lcs {
		// sanity: the whole log reproduces a database that restarts at the final head
		imgs := enumerateImages(lc.Log, full)
		chainFile := filepath.Join(engine.Scratch(), "chain-"+lc.Name+".json")
		cb, _ := json.Marshal(lc.Chain)
		must(os.WriteFile(chainFile, cb, 0600))
		// commit-boundary images (for the "distinct from every commit boundary" count)
		boundary := map[string]bool{}
		for p := 0; p <= len(lc.Log); p++ {
			if p == len(lc.Log) || lc.Log[p].Kind == "sync" {
				h := sha256.Sum256(buildImage(lc.Log, image{Prefix: p, TornAt: -1}))
				boundary[hex.EncodeToString(h[:])] = true
			}
		}
		seen := map[string]int{}
		var jobs []*c08Job
		type meta struct {
			im   image
			hash string
		}
		var metas []meta
		nWrites, nSyncs := 0, 0
		for _, e := range lc.Log {
			if e.Kind == "write" {
				nWrites++
			} else if e.Kind == "sync" {
				nSyncs++
			}
		}
		dir := filepath.Join(engine.Scratch(), "img-"+lc.Name)
		os.MkdirAll(dir, 0700)
		for _, im := range imgs {
			data := buildImage(lc.Log, im)
			h := sha256.Sum256(data)
			hs := hex.EncodeToString(h[:])
			if _, dup := seen[hs]; dup {
				continue
			}
			seen[hs] = len(metas)
			metas = append(metas, meta{im, hs})
			for variant := 0; variant < 4; variant++ {
				p := filepath.Join(dir, fmt.Sprintf("%d-%d.db", len(metas)-1, variant))
				if len(data) > 0 { // an empty image = the file does not exist yet
					must(os.WriteFile(p, data, 0600))
				}
				jobs = append(jobs, &c08Job{Req: restartReq{Image: p, ForceVerify: variant&1 != 0, Reset: variant&2 != 0, Publisher: lc.World.Publisher, ChainFile: chainFile}})
			}
		}
		runRestarts(jobs, deadline)
		for ji, j := range jobs {
			evals++
			mi := ji / 4
			im := metas[mi].im
			if !boundary[metas[mi].hash] {
				distinctNT.Add(lc.Name + metas[mi].hash)
			}
			variant := fmt.Sprintf("forceVerify=%v,resetCorruptDB=%v", j.Req.ForceVerify, j.Req.Reset)
			cs := map[string]interface{}{"lifecycle": lc.Name, "image": im.Desc, "variant": variant, "in_flight_step": stepAt(lc, im.Prefix)}
			os.Remove(j.Req.Image)
			if j.Note == "no-return" {
				outcomes.Add("no-return")
				stage := "?"
				r.Failf("restart:does-not-return-within-deadline:"+c08Class(lc, im)+":forceVerify="+fmt.Sprint(j.Req.ForceVerify), cs,
					"%s [%s] %s: restart did not return within %v (stage %s)", lc.Name, im.Desc, variant, deadline, stage)
				continue
			}
			tornCreate := im.TornAt == 0 && im.Prefix == 0 // bolt's very first write (database creation) torn
			if j.Note != "" || j.Res == nil {
				outcomes.Add("worker-died")
				if tornCreate {
					r.Failf("restart:cannot-open:database-creation-write-torn", cs, "%s [%s] %s: restart process died in bolt.Open", lc.Name, im.Desc, variant)
					continue
				}
				r.Failf("restart:process-died:"+c08Class(lc, im), cs, "%s [%s] %s: restart process died", lc.Name, im.Desc, variant)
				continue
			}
			res := j.Res
			if res.Err != "" && tornCreate && (res.Stage == "open" || res.Stage == "check") {
				outcomes.Add("restart-fails@open")
				r.Failf("restart:cannot-open:database-creation-write-torn", cs, "%s [%s] %s: %s", lc.Name, im.Desc, variant, res.Err)
				continue
			}
			if res.Err != "" {
				outcomes.Add("restart-fails@" + res.Stage)
				r.Failf("restart:fails-at-"+res.Stage+":"+c08Class(lc, im)+":"+errClass(res.Err), cs, "%s [%s] %s: restart failed at stage %s: %s", lc.Name, im.Desc, variant, res.Stage, res.Err)
				continue
			}
			if res.Reset {
				outcomes.Add("reset-and-resynced")
				// a reset is only a recovery if the image really was corrupt; images of an ordered-write crash never are
				r.Failf("restart:database-reset-although-image-is-a-legal-crash-state:"+c08Class(lc, im), cs, "%s [%s] %s: the database was set aside as corrupt and recreated", lc.Name, im.Desc, variant)
			}
			lo, hi := headWindow(lc, im.Prefix)
			if !res.Reset && (res.Head < lo || res.Head > hi) {
				r.Failf("restart:recovered-head-outside-commit-window:"+c08Class(lc, im), cs, "%s [%s] %s: recovered head %d, expected between %d and %d", lc.Name, im.Desc, variant, res.Head, lo, hi)
			}
			diff := []string{}
			for _, b := range chainBuckets {
				if res.Digest[b] != lc.Final[b] {
					diff = append(diff, b)
				}
			}
			if len(diff) > 0 {
				sort.Strings(diff)
				outcomes.Add("state-differs-after-catch-up")
				r.Failf("restart:state-after-catch-up-differs-from-never-crashed-node:"+strings.Join(diff, "+"), cs, "%s [%s] %s: after catching up, buckets %v differ from the node that never crashed (recovered head %d)", lc.Name, im.Desc, variant, diff, res.Head)
				continue
			}
			if !res.Reset {
				outcomes.Add(fmt.Sprintf("recovered@head%d", res.Head))
			}
		}
		if len(samples) < 4 && len(metas) > 3 {
			samples = append(samples, map[string]interface{}{"lifecycle": lc.Name, "image": metas[len(metas)/2].im.Desc}, map[string]interface{}{"lifecycle": lc.Name, "image": metas[len(metas)-2].im.Desc})
		}
		var steps []string
		for _, s := range lc.Steps {
			steps = append(steps, fmt.Sprintf("%s (log %d, head %d)", s.Name, s.LogLen, s.Head))
		}
		lifeInfo[lc.Name] = map[string]interface{}{"log_entries": len(lc.Log), "page_writes": nWrites, "syncs": nSyncs, "image_recipes": len(imgs), "distinct_images": len(metas), "steps": steps}
		os.RemoveAll(dir)
	}
	if outcomes.Len() < 3 || evals < 100 {
		r.Broken("vacuous: %v", outcomes.Map())
	}
	cov["evaluations"] = evals
	cov["distinct_nontrivial"] = distinctNT.Len()
	cov["rule"] = "crash images constructed from the recorded bolt write/truncate/sync log of a scripted life-cycle: every log prefix, lost unsynced writes of the in-flight epoch (quick: each single write and all of them; thorough: every subset), torn next write at 512-byte sectors (quick: meta pages fully, data pages at half; thorough: every sector of every page); each distinct image × 4 restart variants runs the real restart path in a worker process; non-trivial = distinct image contents that differ from every commit-boundary image"
	cov["samples"] = samples
	cov["exhaustive"] = true
	cov["outcome_histogram"] = outcomes.Map()
	cov["lifecycles"] = lifeInfo
	r.Assumptions = append(r.Assumptions, "crash model: writes of a sync epoch persist in any subset, a write may be torn at sector granularity, synced data is durable; no bit rot, no lost file-length updates beyond truncate ordering",
		"restart = visor.OpenDB, skycoin.checkAndUpdateDB (real dbVerify), visor.New, Init, visor.CheckDatabase, then the remaining blocks of the never-crashed chain; deadline per restart "+deadline.String())
	r.Finish(cov)
}

func errClass(e string) string {
	e = strings.ToLower(e)
	for _, k := range []string{"missing signature", "invalid database", "checksum", "not found in outputs", "refused", "differs", "no head", "panic", "version", "corrupt", "bucket"} {
		if strings.Contains(e, k) {
			return strings.ReplaceAll(k, " ", "-")
		}
	}
	if len(e) > 40 {
		e = e[:40]
	}
	return strings.ReplaceAll(e, " ", "-")
}

func stepAt(lc *lifecycle, prefix int) string {
	for _, s := range lc.Steps {
		if prefix <= s.LogLen {
			return s.Name
		}
	}
	return "after-close"
}

// c08Class names the life-cycle step in flight (stable across runs): part of the violation signature.
func c08Class(lc *lifecycle, im image) string {
	s := stepAt(lc, im.Prefix)
	if i := strings.Index(s, "→"); i >= 0 {
		s = s[:i]
	}
	kind := "between-file-operations"
	if len(im.Omit) > 0 {
		kind = "unsynced-writes-lost"
	}
	if im.TornAt >= 0 {
		kind = "torn-write"
	}
	return "during[" + s + "]:" + kind
}

// headWindow: the recovered head must lie between the head before the step in flight and the head after it.
func headWindow(lc *lifecycle, prefix int) (uint64, uint64) {
	var lo, hi uint64
	for _, s := range lc.Steps {
		if s.LogLen <= prefix {
			lo = s.Head
		}
		hi = s.Head
		if prefix <= s.LogLen {
			break
		}
	}
	if hi < lo {
		hi = lo
	}
	return lo, hi
}

var _ = dbutil.WrapDB
