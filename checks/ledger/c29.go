package main

import (
	"encoding/json"
	"net/http/httptest"
	"net/url"
	"strconv"
	"strings"

	"fmt"
	"github.com/skycoin/skycoin/src/api"
	"math"
	"math/big"
	"sync/atomic"

	"github.com/skycoin/skycoin/src/cipher"
	"github.com/skycoin/skycoin/src/visor"

	"verif/engine"
)

// C29 — transaction paging partitions the result list.
// Alphabet (exhaustive product): size 1..100 × list length 0..L × page numbers {1..N+3} ∪ huge boundary pages.
// Oracle: pages 1..N concatenate to the list exactly once; reported page count = N = ceil(len/size); pages > N are empty.
func init() { register("C29", "exploration", c29) }

type pageCase struct {
	Filter string
	Order  string
	Size   uint64
	Page   uint64
}

func c29(r *engine.Run) {
	maxLen := r.Pick(120, 250)
	var evals, nontrivial int64
	outcomes := engine.NewCounter()
	type cs struct {
		Size, Len, Page uint64
	}
	var sample atomic.Value
	engine.ParFor(100, func(si int) {
		size := uint64(si + 1)
		for n := 0; n <= maxLen; n++ {
			N := uint64(n) / size
			if uint64(n)%size != 0 {
				N++
			}
			pages := []uint64{}
			for p := uint64(1); p <= N+3; p++ {
				pages = append(pages, p)
			}
			// pages for which size*(page-1) wraps around 2^64
			two64 := new(big.Int).Lsh(big.NewInt(1), 64)
			q := new(big.Int).Div(two64, new(big.Int).SetUint64(size)).Uint64() // floor(2^64/size)
			huge := []uint64{1 << 32, 1<<32 + 1, 1 << 63, 1<<63 + 1, math.MaxUint64, math.MaxUint64 - 1,
				q - 1, q, q + 1, q + 2, q + 3, math.MaxUint64/size + 1, math.MaxUint64/size + 2, 1<<63/size + 1, 1<<63/size + 2}
			for _, h := range huge {
				if h > N+3 {
					pages = append(pages, h)
				}
			}
			covered := make([]int, n)
			for _, p := range pages {
				atomic.AddInt64(&evals, 1)
				pi, err := visor.NewPageIndex(size, p)
				if err != nil {
					r.Failf("NewPageIndex:unexpected-error", cs{size, uint64(n), p}, "NewPageIndex(%d,%d): %v", size, p, err)
					continue
				}
				var seqs []uint64
				var total uint64
				if pan, msg := engine.Catch(func() { seqs, total, err = visor.VerifPaginate(n, pi) }); pan {
					r.Failf("Pagination:panic", cs{size, uint64(n), p}, "size=%d len=%d page=%d: panic %s", size, n, p, msg)
					continue
				}
				if err != nil {
					r.Failf("Pagination:unexpected-error", cs{size, uint64(n), p}, "size=%d len=%d page=%d: %v", size, n, p, err)
					continue
				}
				if total != N {
					r.Failf("Pagination:total-pages", cs{size, uint64(n), p}, "size=%d len=%d page=%d: total=%d want %d", size, n, p, total, N)
				}
				// expected slice
				var want []uint64
				if p <= N {
					s := size * (p - 1)
					e := s + size
					if e > uint64(n) {
						e = uint64(n)
					}
					for i := s; i < e; i++ {
						want = append(want, i)
					}
				}
				if fmt.Sprint(seqs) != fmt.Sprint(want) {
					sig := "Pagination:wrong-slice"
					if p > N && len(seqs) > 0 {
						sig = "Pagination:page-beyond-last-returns-data"
						if p > N+3 {
							sig = "PageIndex.Cal:size*(page-1)-wraps:page-beyond-last-returns-data"
						}
					}
					r.Failf(sig, cs{size, uint64(n), p}, "size=%d len=%d page=%d: got items %v want %v", size, n, p, seqs, want)
				}
				if p <= N {
					for _, s := range seqs {
						if s < uint64(n) {
							covered[s]++
						}
					}
					outcomes.Add("data-page")
				} else if p <= N+3 {
					outcomes.Add("just-beyond-last")
				} else {
					outcomes.Add("huge-page")
					atomic.AddInt64(&nontrivial, 1)
				}
				if p == N && uint64(n)%size != 0 {
					atomic.AddInt64(&nontrivial, 1) // short last page
				}
			}
			for i, c := range covered {
				if c != 1 {
					r.Failf("Pagination:not-a-partition", cs{size, uint64(n), 0}, "size=%d len=%d: item %d covered %d times by pages 1..%d", size, n, i, c, N)
				}
			}
		}
		sample.Store(cs{size, uint64(maxLen), 2})
	})
	// argument validation of NewPageIndex: size 0, page 0, size > 100 must be refused
	for _, bad := range [][2]uint64{{0, 1}, {1, 0}, {101, 1}, {math.MaxUint64, 1}} {
		evals++
		if _, err := visor.NewPageIndex(bad[0], bad[1]); err == nil {
			r.Failf("NewPageIndex:accepts-out-of-range", bad, "NewPageIndex(%d,%d) accepted", bad[0], bad[1])
		}
		outcomes.Add("invalid-index-rejected")
	}
	realEvals, realNT := c29RealNode(r, outcomes)
	evals += int64(realEvals)
	nontrivial += int64(realNT)
	if outcomes.Len() < 3 {
		r.Broken("vacuous: outcome classes %v", outcomes.Map())
	}
	r.Assumptions = append(r.Assumptions,
		"list lengths bounded by "+fmt.Sprint(maxLen)+"; page numbers = all small pages up to N+3 plus the 64-bit boundary pages where size*(page-1) wraps",
		"the paged list is the real txnHashesContainer (de-duplicating) filled through its own Add")
	r.Finish(engine.Coverage{
		"evaluations":         evals,
		"distinct_nontrivial": nontrivial,
		"rule":                "full product size 1..100 × len 0..maxLen × pages; non-trivial = short last page or a page number beyond 2^32 (wrap candidates); every (size,len,page) is distinct by construction",
		"samples":             []interface{}{sample.Load(), cs{2, 5, 1<<63 + 1}, cs{7, 20, 3}},
		"exhaustive":          true,
		"outcome_histogram":   outcomes.Map(),
		"alphabet":            map[string]interface{}{"sizes": 100, "lengths": maxLen + 1},
	})
}

// c29RealNode pages the address queries of a REAL node: a follower Visor holding a 7-block chain built from the fixture, with
// pending transactions on top.  For every filter × order × page size the pages 1..N must be consecutive slices of the unpaged
// result (which C07 compares with the chain), the reported page count must be N, and pages beyond N must be empty.
func c29RealNode(r *engine.Run, outcomes *engine.Counter) (int, int) {
	w := worldsFor("follower")[0]
	chain, _ := publisherChain(w, 7)
	n := freshNode(w)
	defer n.close()
	for i := 1; i < len(chain); i++ {
		if err := n.V.ExecuteSignedBlock(chain[i]); err != nil {
			r.Broken("C29 fixture: block %d refused: %v", i, err)
			return 0, 0
		}
		n.M.Apply(chain[i])
	}
	for _, name := range []string{"pay-G-A", "pay-A-B", "pay-B-A"} {
		if t := instantiate(n.M, name); t != nil {
			n.V.InjectForeignTransaction(*t)
		}
	}
	filters := map[string][]visor.TxFilter{
		"none":            nil,
		"genesis":         {visor.NewAddrsFilter([]cipher.Address{idG.Addr})},
		"alice":           {visor.NewAddrsFilter([]cipher.Address{idA.Addr})},
		"alice+bob":       {visor.NewAddrsFilter([]cipher.Address{idA.Addr, idB.Addr})},
		"alice-confirmed": {visor.NewAddrsFilter([]cipher.Address{idA.Addr}), visor.NewConfirmedTxFilter(true)},
		"unconfirmed":     {visor.NewConfirmedTxFilter(false)},
		// pending transactions with several outputs to the queried addresses (payment + change): listed once each
		"alice-unconfirmed":             {visor.NewAddrsFilter([]cipher.Address{idA.Addr}), visor.NewConfirmedTxFilter(false)},
		"alice+bob-unconfirmed":         {visor.NewAddrsFilter([]cipher.Address{idA.Addr, idB.Addr}), visor.NewConfirmedTxFilter(false)},
		"genesis+alice+bob-unconfirmed": {visor.NewAddrsFilter([]cipher.Address{idG.Addr, idA.Addr, idB.Addr}), visor.NewConfirmedTxFilter(false)},
		"nobody":                        {visor.NewAddrsFilter([]cipher.Address{unknownAddr})},
	}
	evals, nt := 0, 0
	hashes := func(ts []visor.Transaction) []string {
		var o []string
		for _, t := range ts {
			o = append(o, hx(t.Transaction.Hash()))
		}
		return o
	}
	for fname, flts := range filters {
		for oname, order := range map[string]visor.SortOrder{"asc": visor.AscOrder, "desc": visor.DescOrder} {
			all, _, err := n.V.GetTransactions(flts, order, nil)
			if err != nil {
				r.Failf("GetTransactions:unpaged-error", pageCase{fname, oname, 0, 0}, "%v", err)
				continue
			}
			full := hashes(all)
			L := uint64(len(full))
			seenH := map[string]bool{}
			for _, h := range full {
				if seenH[h] {
					r.Failf("Visor.GetTransactions:unpaged-list-has-duplicates", pageCase{fname, oname, 0, 0}, "filter %s order %s: the unpaged result lists transaction %s more than once: %v", fname, oname, h, full)
					break
				}
				seenH[h] = true
			}
			for _, size := range []uint64{1, 2, 3, 4, 7, 10, 100} {
				N := L / size
				if L%size != 0 {
					N++
				}
				pages := []uint64{}
				for p := uint64(1); p <= N+3; p++ {
					pages = append(pages, p)
				}
				for _, h := range []uint64{1 << 32, 1 << 63, 1<<63 + 1, math.MaxUint64, math.MaxUint64/size + 1, math.MaxUint64/size + 2} {
					if h > N+3 { // (the last two wrap to 0 / 1 for size 1)
						pages = append(pages, h)
					}
				}
				var concat []string
				for _, p := range pages {
					evals++
					pi, err := visor.NewPageIndex(size, p)
					if err != nil {
						r.Failf("NewPageIndex:unexpected-error", pageCase{fname, oname, size, p}, "%v", err)
						continue
					}
					var got []visor.Transaction
					var total uint64
					pan, msg := engine.Catch(func() { got, total, err = n.V.GetTransactions(flts, order, pi) })
					cs := pageCase{fname, oname, size, p}
					if pan {
						r.Failf("Visor.GetTransactions:paged:panic", cs, "filter %s order %s size %d page %d (list of %d): panic %s", fname, oname, size, p, L, msg)
						continue
					}
					if err != nil {
						r.Failf("Visor.GetTransactions:paged:error", cs, "filter %s order %s size %d page %d: %v", fname, oname, size, p, err)
						continue
					}
					if total != N {
						r.Failf("Visor.GetTransactions:paged:total-pages", cs, "filter %s order %s size %d page %d: reported %d pages, list of %d items needs %d", fname, oname, size, p, total, L, N)
					}
					var want []string
					if p <= N {
						s, e := size*(p-1), size*p
						if e > L {
							e = L
						}
						want = full[s:e]
						concat = append(concat, hashes(got)...)
						outcomes.Add("real-node-data-page")
						if L%size != 0 && p == N {
							nt++
						}
					} else {
						outcomes.Add("real-node-page-beyond-last")
						nt++
					}
					if fmt.Sprint(hashes(got)) != fmt.Sprint(want) {
						sig := "Visor.GetTransactions:paged:wrong-slice"
						if p > N && len(got) > 0 {
							sig = "Visor.GetTransactions:paged:page-beyond-last-returns-data"
						}
						r.Failf(sig, cs, "filter %s order %s size %d page %d of a list of %d: got %v want %v", fname, oname, size, p, L, hashes(got), want)
					}
				}
				if fmt.Sprint(concat) != fmt.Sprint(full) {
					r.Failf("Visor.GetTransactions:paged:pages-do-not-partition-the-list", pageCase{fname, oname, size, 0}, "filter %s order %s size %d: pages 1..%d give %v, unpaged list %v", fname, oname, size, N, concat, full)
				}
			}
		}
	}
	he, hn := c29HTTP(r, outcomes, n.V, idA.Addr, idB.Addr)
	return evals + he, nt + hn
}

// c29Gateway puts the real Visor behind the two gateway methods the transactions endpoint uses.
type c29Gateway struct {
	api.Gatewayer
	V *visor.Visor
}

func (g *c29Gateway) GetTransactions(flts []visor.TxFilter, order visor.SortOrder, page *visor.PageIndex) ([]visor.Transaction, uint64, error) {
	return g.V.GetTransactions(flts, order, page)
}

func (g *c29Gateway) GetTransactionsWithInputs(flts []visor.TxFilter, order visor.SortOrder, page *visor.PageIndex) ([]visor.Transaction, [][]visor.TransactionInput, uint64, error) {
	return g.V.GetTransactionsWithInputs(flts, order, page)
}

type c29HTTPCase struct {
	Addrs    string   `json:"addrs"`
	Requests []string `json:"requests_in_order_on_one_handler"`
}

// c29HTTP: the pages as a CLIENT of one running node gets them - the real handler of GET /api/v2/transactions over the real
// Visor.  One handler value serves a whole sequence of requests (as one node does); the request alphabet leaves `page` and
// `limit` out or gives them, and every sequence of up to 2 (thorough 3) requests is run.  Every answer must be the slice the
// documented meaning of ITS OWN request names (page 1 and 10 per page when left out) of the unpaged list, with the matching
// page_info - whatever was asked before.
func c29HTTP(r *engine.Run, outcomes *engine.Counter, v *visor.Visor, a, b cipher.Address) (int, int) {
	type rq struct{ page, limit string }
	var alphabet []rq
	for _, p := range []string{"", "1", "2", "3"} {
		for _, l := range []string{"", "1", "2", "3"} {
			alphabet = append(alphabet, rq{p, l})
		}
	}
	depth := r.Pick(2, 3)
	evals, nt := 0, 0
	for _, addrs := range []string{"", a.String(), a.String() + "," + b.String()} {
		var flts []visor.TxFilter
		if addrs != "" {
			var as []cipher.Address
			for _, s := range strings.Split(addrs, ",") {
				as = append(as, cipher.MustDecodeBase58Address(s))
			}
			flts = append(flts, visor.NewAddrsFilter(as))
		}
		all, _, err := v.GetTransactions(flts, visor.AscOrder, nil)
		if err != nil {
			r.Broken("C29 HTTP part: unpaged list: %v", err)
			return evals, nt
		}
		var full []string
		for _, t := range all {
			full = append(full, t.Transaction.Hash().Hex())
		}
		L := uint64(len(full))
		var seqs [][]int
		var gen func(prefix []int)
		gen = func(prefix []int) {
			if len(prefix) > 0 {
				seqs = append(seqs, append([]int{}, prefix...))
			}
			if len(prefix) == depth {
				return
			}
			for i := range alphabet {
				gen(append(prefix, i))
			}
		}
		gen(nil)
		for _, seq := range seqs {
			if len(seq) < depth && depth > 1 {
				continue // a prefix of a longer sequence: judged there
			}
			h := api.VerifTransactionsHandlerV2(&c29Gateway{V: v})
			var trail []string
			for _, qi := range seq {
				q := alphabet[qi]
				vals := url.Values{}
				if addrs != "" {
					vals.Set("addrs", addrs)
				}
				if q.page != "" {
					vals.Set("page", q.page)
				}
				if q.limit != "" {
					vals.Set("limit", q.limit)
				}
				trail = append(trail, "page="+q.page+"&limit="+q.limit)
				req := httptest.NewRequest("GET", "/api/v2/transactions?"+vals.Encode(), nil)
				rec := httptest.NewRecorder()
				cs := c29HTTPCase{addrs, append([]string{}, trail...)}
				if pan, msg := engine.Catch(func() { h.ServeHTTP(rec, req) }); pan {
					r.Failf("GET /api/v2/transactions:panic", cs, "requests %v: panic: %s", trail, msg)
					break
				}
				evals++
				var body struct {
					Data struct {
						PageInfo struct {
							TotalPages  uint64 `json:"total_pages"`
							PageSize    uint64 `json:"page_size"`
							CurrentPage uint64 `json:"current_page"`
						} `json:"page_info"`
						Txns []struct {
							Txn struct {
								Hash string `json:"txid"`
							} `json:"txn"`
						} `json:"txns"`
					} `json:"data"`
				}
				if rec.Code != 200 || json.Unmarshal(rec.Body.Bytes(), &body) != nil {
					r.Failf("GET /api/v2/transactions:unexpected-answer", cs, "requests %v: status %d body %.200s", trail, rec.Code, rec.Body.String())
					break
				}
				size, page := uint64(10), uint64(1)
				if q.limit != "" {
					size, _ = strconv.ParseUint(q.limit, 10, 64)
				}
				if q.page != "" {
					page, _ = strconv.ParseUint(q.page, 10, 64)
				}
				N := L / size
				if L%size != 0 {
					N++
				}
				var want []string
				if page <= N {
					s, e := size*(page-1), size*page
					if e > L {
						e = L
					}
					want = full[s:e]
				}
				var got []string
				for _, t := range body.Data.Txns {
					got = append(got, t.Txn.Hash)
				}
				first := len(trail) == 1
				if !first {
					nt++
				}
				outcomes.Add(fmt.Sprintf("http:page-given=%v:limit-given=%v", q.page != "", q.limit != ""))
				pi := body.Data.PageInfo
				if fmt.Sprint(got) != fmt.Sprint(want) || pi.TotalPages != N || pi.PageSize != size || pi.CurrentPage != page {
					sig := "GET /api/v2/transactions:wrong-page"
					if !first {
						sig += ":after-earlier-requests"
					}
					r.Failf(sig, cs, "one handler, requests in order %v (addrs %q, list of %d): the last answer is page_info{total_pages %d, page_size %d, current_page %d} with %d transactions %v; its own request means page %d of %d with %d per page: %v",
						trail, addrs, L, pi.TotalPages, pi.PageSize, pi.CurrentPage, len(got), got, page, N, size, want)
					break
				}
			}
		}
	}
	return evals, nt
}
