package main

import (
	"bytes"
	"compress/flate"
	"encoding/gob"
	"encoding/json"
	"fmt"
	"os"
	"strings"
	"sync"
	"time"

	"github.com/skycoin/skycoin/src/coin"

	"verif/engine"
	"verif/model/ledger"
)

// explore runs the ledger state-space search for one property: the same real-code exploration, with only the
// oracles tagged with that property reporting (so every check command is independent).
type exploreCfg struct {
	Worlds    []world
	MaxDepth  int
	MaxStates int
	Budget    time.Duration
	FullViews bool // evaluate the C07 view oracles in every state
	Roots     []string
	// LegacyRoot adds, for follower worlds, a third root whose chain already contains a legacy hour-overflow output (C03)
	LegacyRoot bool
}

var normalCoins = uint64(100e6 * 1e6)

func worldsFor(kind string) []world {
	switch kind {
	case "follower":
		return []world{{Name: "follower", Publisher: false, GenesisCoins: normalCoins, MaxBlockSize: 32768}}
	case "publisher":
		return []world{{Name: "publisher", Publisher: true, GenesisCoins: normalCoins, MaxBlockSize: 32768}}
	case "both":
		return append(worldsFor("follower"), worldsFor("publisher")...)
	case "follower+offered": // a follower, and a publisher (arbitrating) node that creates blocks AND is offered publisher-signed blocks
		return append(worldsFor("follower"), worldsFor("publisher-offered")...)
	case "publisher-offered":
		return []world{{Name: "publisher-offered-blocks", Publisher: true, OfferBlocks: true, GenesisCoins: normalCoins, MaxBlockSize: 32768}}
	case "publisher-small":
		return []world{{Name: "publisher-small", Publisher: true, GenesisCoins: normalCoins, MaxBlockSize: 1024, SmallTxn: true}}
	case "extreme":
		return []world{{Name: "follower-extreme", Publisher: false, GenesisCoins: ^uint64(0) - 1, MaxBlockSize: 32768}}
	}
	panic(kind)
}

// seedOps is the scripted prefix of the "distributed" root: the genesis output is split over several owners so that
// the search also starts from a state with many spendable outputs (non-initial root).
// rootsOf: the roots explored in a world (the 1 KiB-block world has a third one, see seedOpsFor)
func rootsOf(cfg exploreCfg, w world) []string {
	if w.SmallTxn {
		return append(append([]string{}, cfg.Roots...), "ladder")
	}
	if cfg.LegacyRoot && !w.Publisher {
		return append(append([]string{}, cfg.Roots...), "legacy")
	}
	return cfg.Roots
}

func seedOpsFor(w world, root string) []op {
	switch root {
	case "distributed":
		return seedOps(w)
	case "legacy":
		// a chain that contains a "legacy" output: its hours (2^64-1, created by a block whose output-hour sum wraps - the documented
		// tolerance) overflow as soon as it has earned anything, and one more block has passed, so that transactions spending it
		// together with a normal output can be offered at once
		return []op{{"block", "valid[pay-G-A]+1h"}, {"block", "bad-txn[wrap-hour-sum-max-G]"}, {"block", "valid[pay-A-B]+1h"}}
	case "ladder":
		// five outputs of one owner with equal hours and 1, 10, ... 10 000 coins (one block), then four of the five "ladder"
		// spends pending: their fee per kB DEcreases while the coins INcrease, and five of them exceed the 1 KiB block, so which
		// four a publisher selects is sensitive to the time base (coin hours accrue per coin) and to any coin-dependent term in
		// its ranking; the fifth injection and the publication are left to the search
		return []op{{"inject-user", "ladder-fanout"}, {"publish", "1h"}, {"inject-user", "ladder-0"}, {"inject-user", "ladder-1"}, {"inject-user", "ladder-2"}, {"inject-user", "ladder-3"}}
	}
	return nil
}

func seedOps(w world) []op {
	if w.SmallTxn {
		// six spendable outputs, so that five non-conflicting ~220-byte transactions can be pending against the 1 KiB block limit
		return []op{{"inject-user", "pay-G-A"}, {"publish", "1h"}, {"inject-user", "pay-G-A"}, {"inject-user", "pay-A-B"}, {"publish", "1h"},
			{"inject-user", "pay-G-A"}, {"inject-user", "pay-B-A"}, {"publish", "1h"}}
	}
	if w.Publisher {
		return []op{{"inject-user", "pay-G-A"}, {"publish", "1h"}, {"inject-user", "pay-A-B"}, {"publish", "1h"}, {"inject-foreign", "fee-minus-1-G-A"}}
	}
	// two blocks, then a pending transaction that is soft-invalid now (fee one hour short) and a valid one
	return []op{{"block", "valid[pay-G-A]+1h"}, {"block", "valid2[pay-G-A,pay-A-B]+10s"}, {"inject-foreign", "fee-minus-1-G-A"}, {"inject-foreign", "pay-B-A"}}
}

func runExplore(r *engine.Run, prop string, cfg exploreCfg, rule string) {
	var mu sync.Mutex
	tagged := map[string]int{} // failures of other properties seen while exploring (reported in evidence, not as violations of this one)
	var hist func() string
	_ = hist
	mkFail := func(ctx func() string, cs func() replayCase) failer {
		return func(props, sig, format string, a ...interface{}) {
			detail := fmt.Sprintf(format, a...)
			for _, p := range strings.Split(props, ",") {
				if p == prop {
					r.Fail(engine.Failure{Sig: sig, Detail: ctx() + ": " + detail, Case: cs()})
					return
				}
			}
			mu.Lock()
			tagged[props+" "+sig]++
			mu.Unlock()
		}
	}
	ncalls, callNo := 0, 0
	for _, w := range cfg.Worlds {
		ncalls += len(rootsOf(cfg, w))
	}
	begin := time.Now()
	total := engine.BFSResult{Outcomes: map[string]int{}}
	allAux := map[string]int{}
	perWorld := map[string]interface{}{}
	for _, w := range cfg.Worlds {
		for _, root := range rootsOf(cfg, w) {
			w, root := w, root
			callNo++
			deadline := begin.Add(cfg.Budget * time.Duration(callNo) / time.Duration(ncalls))
			type live struct {
				n    *node
				hist []op
				last *op // the operation applied last on this instance (appended to the history when the state is saved)
			}
			newRoot := func() *live {
				l := &live{n: freshNode(w)}
				if root != "genesis" {
					for _, o := range seedOpsFor(w, root) {
						oc := l.n.apply(o, false, nil)
						if !strings.Contains(oc, "accepted") && !strings.HasPrefix(oc, "inject:ok") && !strings.HasPrefix(oc, "inject:soft") && !strings.HasPrefix(oc, "publish:") {
							panic(fmt.Sprintf("CHECK-BROKEN: seed op %s gave %s", o, oc))
						}
						l.hist = append(l.hist, o)
					}
				}
				return l
			}
			ctxOf := func(l *live, o *op) func() string {
				return func() string {
					s := fmt.Sprintf("world=%s root=%s history=%v", w.Name, root, l.hist)
					if o != nil {
						s += " op=" + o.String()
					}
					return s
				}
			}
			sp := engine.MP[*live, op]{Run: r, Procs: 16,
				EncodeSnap: func(a any) []byte { return encodeSaved(a.(*savedLive)) },
				DecodeSnap: func(b []byte) any { return decodeSaved(b) },
				Counters: func() map[string]int {
					mu.Lock()
					defer mu.Unlock()
					t := tagged
					tagged = map[string]int{}
					return t
				},
				Space: engine.Space[*live, op]{
					New:   newRoot,
					Close: func(l *live) { l.n.close() },
					Ops: func(l *live) []op {
						if l.n.M == nil {
							return nil
						}
						if w.SmallTxn {
							return l.n.ops("C05small")
						}
						return l.n.ops(prop)
					},
					Apply: func(l *live, o op, check bool) string {
						if l.n.M == nil {
							return "dead"
						}
						oc := l.n.apply(o, check, mkFail(ctxOf(l, &o), caseOf(w, root, l.hist, &o)))
						if !check {
							l.hist = append(l.hist, o)
						} else {
							l.last = &o
						}
						// outcome class for the histogram: strip the counts
						if i := strings.LastIndex(oc, ":"); i > 0 && strings.ContainsAny(oc[i:], "0123456789") && !strings.Contains(oc, "inject") && !strings.Contains(oc, "block") {
							oc = oc[:i]
						}
						return oc
					},
					Key: func(l *live) string {
						if l.n.DB == nil {
							return "dead"
						}
						if l.n.M == nil {
							return "dishonest:" + l.n.key()
						}
						return l.n.key()
					},
					Invariant: func(l *live, h []op) {
						if l.n.M == nil {
							return
						}
						l.n.deepVerify = prop == "C04" || prop == "C07"
						l.n.checkState(mkFail(ctxOf(l, nil), caseOf(w, root, l.hist, nil)), cfg.FullViews)
					},
					Save: func(l *live) any {
						h := append([]op{}, l.hist...)
						if l.last != nil {
							h = append(h, *l.last)
						}
						if l.n.M == nil {
							return &savedLive{dead: true, hist: h}
						}
						return &savedLive{snap: l.n.save().(*snapshot), hist: h}
					},
					Load: func(s any) *live {
						sl := s.(*savedLive)
						if sl.dead {
							return &live{n: &node{W: w}, hist: sl.hist}
						}
						return &live{n: loadNode(w, sl.snap), hist: append([]op{}, sl.hist...)}
					},
					MaxDepth:  cfg.MaxDepth,
					MaxStates: cfg.MaxStates,
					Stop:      func() bool { return time.Now().After(deadline) },
				}}
			// the self-loop shortcut of the BFS appends to hist of a reused instance; histories in failure messages therefore
			// show rejected operations too (they did not change the state)
			if w.SmallTxn {
				os.Setenv("USER_MAX_TXN_SIZE", "1024")
			} else {
				os.Unsetenv("USER_MAX_TXN_SIZE")
			}
			// (the master process itself runs with the default limits: it only deduplicates, the workers do the real work)
			res := engine.BFSMP(sp)
			os.Unsetenv("USER_MAX_TXN_SIZE")
			for k, v := range res.Aux {
				allAux[k] += v
			}
			total.States += res.States
			total.Transitions += res.Transitions
			total.SelfLoops += res.SelfLoops
			if res.DepthCompleted > total.DepthCompleted {
				total.DepthCompleted = res.DepthCompleted
			}
			total.FrontierLeft += res.FrontierLeft
			for k, v := range res.Outcomes {
				total.Outcomes[k] += v
			}
			total.Samples = append(total.Samples, res.Samples...)
			if res.CapHit != "" {
				total.CapHit += fmt.Sprintf("[%s/%s: %s] ", w.Name, root, res.CapHit)
			}
			perWorld[w.Name+"/"+root] = map[string]interface{}{"states": res.States, "transitions": res.Transitions, "depth_completed": res.DepthCompleted,
				"frontier_left": res.FrontierLeft, "states_per_depth": res.PerDepth, "cap_hit": res.CapHit}
		}
	}
	total.Exhaustive = total.CapHit == ""
	if len(total.Samples) > 6 {
		total.Samples = total.Samples[:6]
	}
	cov := total.Coverage(rule)
	cov["worlds"] = perWorld
	cov["other_property_signals_and_aux"] = allAux
	cov["alphabet"] = map[string]interface{}{"transaction_templates": len(allTemplates), "ops_per_state_max": "≈ 2×templates + ≈45 block candidates (follower) or 3 publish deltas (publisher) + 4 maintenance ops"}
	// vacuity guard: both accepting and rejecting outcomes must have been exercised
	acc, rej := 0, 0
	for k, v := range total.Outcomes {
		if strings.Contains(k, "accepted") || strings.HasPrefix(k, "inject:ok") || strings.HasPrefix(k, "publish:") && !strings.Contains(k, "none") {
			acc += v
		}
		if strings.Contains(k, "rejected") || strings.HasPrefix(k, "inject:hard") || strings.HasPrefix(k, "inject:soft") {
			rej += v
		}
	}
	if acc == 0 || rej == 0 || total.States < 10 {
		r.Broken("vacuous exploration: accepting=%d rejecting=%d states=%d", acc, rej, total.States)
	}
	r.Assumptions = append(r.Assumptions,
		"bounded: operation alphabet instantiated on the first output of each owner; depth/state caps as reported (cap_hit); amounts of the fixture (genesis volume per world)",
		"reference model trusts hashing/encoding (decided by C09/C21) and the signature primitive (C10/C14)",
		"bolt opened with NoSync on tmpfs; crash behaviour is C08's subject")
	r.Finish(cov)
}

// replayCase is the replayable artefact of a ledger violation: world, root, the state-changing history and the failing operation.
type replayCase struct {
	World string `json:"world"`
	Root  string `json:"root"`
	Ops   []op   `json:"ops"`
	Op    *op    `json:"op,omitempty"`
}

func caseOf(w world, root string, hist []op, o *op) func() replayCase {
	return func() replayCase {
		c := replayCase{World: w.Name, Root: root, Ops: append([]op{}, hist...)}
		if o != nil {
			oo := *o
			c.Op = &oo
		}
		return c
	}
}

// replayLedger re-executes the cases of a replay file without the explorer: fresh node, seed operations of the root, the recorded
// history, then the failing operation (or the state oracle), with the oracles of the file's property switched on.
func replayLedger(prop, file string) int {
	b, err := os.ReadFile(file)
	if err != nil {
		fmt.Fprintln(os.Stderr, "CHECK-BROKEN:", err)
		return 2
	}
	var rf struct {
		Property  string `json:"property"`
		Signature string `json:"signature"`
		Failures  []struct {
			Case json.RawMessage `json:"case"`
		} `json:"failures"`
	}
	if err := json.Unmarshal(b, &rf); err != nil {
		fmt.Fprintln(os.Stderr, "CHECK-BROKEN:", err)
		return 2
	}
	worlds := map[string]world{}
	for _, k := range []string{"follower", "publisher", "publisher-small", "extreme"} {
		for _, w := range worldsFor(k) {
			worlds[w.Name] = w
		}
	}
	reproduced := 0
	for i, f := range rf.Failures {
		var c replayCase
		raw := f.Case
		var asString string
		if json.Unmarshal(raw, &asString) == nil { // cases that travelled through a worker process are JSON strings
			raw = json.RawMessage(asString)
		}
		if err := json.Unmarshal(raw, &c); err != nil || c.World == "" {
			fmt.Printf("case %d: not a ledger replay case\n", i)
			continue
		}
		w, ok := worlds[c.World]
		if !ok {
			fmt.Printf("case %d: unknown world %s\n", i, c.World)
			continue
		}
		if w.SmallTxn && os.Getenv("USER_MAX_TXN_SIZE") != "1024" {
			fmt.Printf("case %d: world %s needs USER_MAX_TXN_SIZE=1024 in the environment of the replay\n", i, c.World)
			continue
		}
		n := freshNode(w)
		n.deepVerify = prop == "C04" || prop == "C07"
		hit := false
		fail := func(props, sig, format string, a ...interface{}) {
			for _, p := range strings.Split(props, ",") {
				if p == prop {
					fmt.Printf("case %d: %s: %s\n", i, sig, fmt.Sprintf(format, a...))
					if sig == rf.Signature {
						hit = true
					}
				}
			}
		}
		ops := c.Ops
		if so := seedOpsFor(w, c.Root); len(so) > 0 && !(len(ops) >= len(so) && fmt.Sprint(ops[:len(so)]) == fmt.Sprint(so)) {
			ops = append(append([]op{}, so...), ops...)
		}
		for _, o := range ops {
			n.apply(o, false, nil)
		}
		if c.Op != nil {
			if n.M != nil {
				n.apply(*c.Op, true, fail)
			}
		} else if n.M != nil {
			n.checkState(fail, prop == "C07")
		}
		n.close()
		if hit {
			reproduced++
		}
		fmt.Printf("case %d: world=%s root=%s ops=%v op=%v reproduced=%v\n", i, c.World, c.Root, c.Ops, c.Op, hit)
	}
	if reproduced > 0 {
		fmt.Printf("VIOLATION property=%s replay=%s\n", prop, file)
		return 1
	}
	return 0
}

type savedLive struct {
	snap *snapshot
	hist []op
	dead bool
}

type wireSaved struct {
	Img  []byte
	M    *ledger.Model
	Hist []op
	Dead bool
}

var flateW *flate.Writer // workers are single-threaded in the BFS loop

func encodeSaved(s *savedLive) []byte {
	w := wireSaved{Hist: s.hist, Dead: s.dead}
	if s.snap != nil {
		w.Img, w.M = s.snap.img, s.snap.m
	}
	var buf bytes.Buffer
	if flateW == nil {
		flateW, _ = flate.NewWriter(&buf, flate.BestSpeed)
	} else {
		flateW.Reset(&buf)
	}
	if err := gob.NewEncoder(flateW).Encode(&w); err != nil {
		panic("CHECK-BROKEN: snapshot encode: " + err.Error())
	}
	flateW.Close()
	return buf.Bytes()
}

func decodeSaved(b []byte) *savedLive {
	var w wireSaved
	if err := gob.NewDecoder(flate.NewReader(bytes.NewReader(b))).Decode(&w); err != nil {
		panic("CHECK-BROKEN: snapshot decode: " + err.Error())
	}
	s := &savedLive{hist: w.Hist, dead: w.Dead}
	if !w.Dead {
		if w.M.UTXO == nil {
			w.M.UTXO = map[ledger.Hash]coin.UxOut{}
		}
		if w.M.Outs == nil {
			w.M.Outs = map[ledger.Hash]*ledger.Created{}
		}
		if w.M.Pool == nil {
			w.M.Pool = map[ledger.Hash]*ledger.PoolEntry{}
		}
		s.snap = &snapshot{img: w.Img, m: w.M}
	}
	return s
}
