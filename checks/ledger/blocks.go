package main

import (
	"github.com/skycoin/skycoin/src/cipher"
	"github.com/skycoin/skycoin/src/coin"

	"verif/model/ledger"
)

// mkBlock builds a next block over the model head with the given transactions (no validation), signed by sec.
func mkBlock(m *ledger.Model, txns []coin.Transaction, dt uint64, sec cipher.SecKey, mut func(b *coin.Block)) coin.SignedBlock {
	head := m.Head()
	body := coin.BlockBody{Transactions: coin.Transactions(txns)}
	var fee uint64
	for i := range txns {
		ok := true
		for _, in := range txns[i].In {
			if _, e := m.UTXO[in]; !e {
				ok = false
			}
		}
		if ok {
			if f := m.Fee(&txns[i]); f.Sign() >= 0 && f.IsUint64() {
				fee += f.Uint64()
			}
		}
	}
	b := coin.Block{
		Head: coin.BlockHeader{
			Version:  head.Head.Version,
			Time:     head.Head.Time + dt,
			BkSeq:    head.Head.BkSeq + 1,
			Fee:      fee,
			PrevHash: head.Block.HashHeader(),
			BodyHash: body.Hash(),
			UxHash:   m.UxHash(),
		},
		Body: body,
	}
	if mut != nil {
		mut(&b)
	}
	return signBlock(b, sec)
}

type blockCand struct {
	Name string
	B    coin.SignedBlock
}

func instantiate(m *ledger.Model, name string) *coin.Transaction {
	for _, t := range allTemplates {
		if t.Name == name {
			return t.Build(m)
		}
	}
	return nil
}

var allTemplates = templates()

// blockCandidates is the block alphabet offered to a follower in the state: valid next blocks, every header-field mutation
// (re-signed by the publisher and not re-signed), foreign signer, body swaps, replays, and publisher-signed blocks that
// contain a rule-breaking transaction or a double spend.
func blockCandidates(m *ledger.Model, inst func(string) *coin.Transaction) []blockCand {
	var out []blockCand
	add := func(name string, b coin.SignedBlock) { out = append(out, blockCand{name, b}) }

	// valid transactions available in this state (hard-valid in a block, per the model), in preference order
	var valid []coin.Transaction
	var validNames []string
	for _, name := range []string{"pay-G-A", "pay-A-B", "pay-B-A", "pay-G2-A", "pay-G-L", "merge-A", "pay-A-C", "lowfee-A-B", "pay-L-A"} {
		t := inst(name)
		if t == nil || m.HardInBlock(t) != "" {
			continue
		}
		conflict := false
		for _, v := range valid {
			for _, a := range v.In {
				for _, b := range t.In {
					if a == b {
						conflict = true
					}
				}
			}
		}
		if conflict {
			continue
		}
		valid = append(valid, *t)
		validNames = append(validNames, name)
	}
	if len(valid) == 0 {
		return out
	}
	t1 := valid[0]
	base := func(mut func(b *coin.Block)) coin.SignedBlock { return mkBlock(m, []coin.Transaction{t1}, 10, idP.Sec, mut) }
	add("valid["+validNames[0]+"]+10s", base(nil))
	add("valid["+validNames[0]+"]+1h", mkBlock(m, []coin.Transaction{t1}, 3600, idP.Sec, nil))
	add("valid["+validNames[0]+"]+1e7s", mkBlock(m, []coin.Transaction{t1}, 10000000, idP.Sec, nil))
	if len(valid) >= 2 {
		// a block that leaves the first candidate's input alone (pending transactions on it stay valid and accrue hours)
		add("valid["+validNames[1]+"]+1h", mkBlock(m, []coin.Transaction{valid[1]}, 3600, idP.Sec, nil))
		add("valid2["+validNames[0]+","+validNames[1]+"]+10s", mkBlock(m, valid[:2], 10, idP.Sec, nil))
		// same two transactions listed in the other order, header recomputed: still a valid block for a follower
		add("valid2-swapped+10s", mkBlock(m, []coin.Transaction{valid[1], valid[0]}, 10, idP.Sec, nil))
		add("valid2:uxhash-flip:resigned", mkBlock(m, valid[:2], 10, idP.Sec, func(b *coin.Block) { b.Head.UxHash[0] ^= 1 }))
		add("valid2:bodyhash-flip:resigned", mkBlock(m, valid[:2], 10, idP.Sec, func(b *coin.Block) { b.Head.BodyHash[5] ^= 4 }))
		// body swapped but header (and signature) of the original order kept
		o := mkBlock(m, valid[:2], 10, idP.Sec, nil)
		o.Body.Transactions = coin.Transactions{valid[1], valid[0]}
		add("valid2-body-reordered-header-kept", o)
		// body replaced by another valid transaction, header kept
		o2 := base(nil)
		o2.Body.Transactions = coin.Transactions{valid[1]}
		add("body-replaced-header-kept", o2)
	}
	// two transactions of one block spending different outputs of the SAME owner (second one without change back to the owner)
	if a, b := inst("pay-A-B"), inst("payall-A2-C"); a != nil && b != nil && m.HardInBlock(a) == "" && m.HardInBlock(b) == "" {
		add("valid2-same-owner[pay-A-B,payall-A2-C]+10s", mkBlock(m, []coin.Transaction{*a, *b}, 10, idP.Sec, nil))
		add("valid2-same-owner[payall-A2-C,pay-A-B]+1h", mkBlock(m, []coin.Transaction{*b, *a}, 3600, idP.Sec, nil))
	}
	head := m.Head().Head
	genesisHash := m.Chain[0].Block.HashHeader()
	type hm struct {
		name string
		f    func(b *coin.Block)
	}
	muts := []hm{
		{"version=1", func(b *coin.Block) { b.Head.Version = 1 }},
		{"fee+1", func(b *coin.Block) { b.Head.Fee++ }},
		{"time=head", func(b *coin.Block) { b.Head.Time = head.Time }},
		{"time=head-1", func(b *coin.Block) { b.Head.Time = head.Time - 1 }},
		{"time=0", func(b *coin.Block) { b.Head.Time = 0 }},
		{"time=max", func(b *coin.Block) { b.Head.Time = ^uint64(0) }},
		{"seq=head", func(b *coin.Block) { b.Head.BkSeq = head.BkSeq }},
		{"seq=head+2", func(b *coin.Block) { b.Head.BkSeq = head.BkSeq + 2 }},
		{"seq=0", func(b *coin.Block) { b.Head.BkSeq = 0 }},
		{"prev=zero", func(b *coin.Block) { b.Head.PrevHash = cipher.SHA256{} }},
		{"prev=genesis", func(b *coin.Block) { b.Head.PrevHash = genesisHash }},
		{"prev=other", func(b *coin.Block) { b.Head.PrevHash = cipher.SumSHA256([]byte("no such block")) }},
		{"bodyhash-flip", func(b *coin.Block) { b.Head.BodyHash[0] ^= 1 }},
		{"uxhash-flip", func(b *coin.Block) { b.Head.UxHash[31] ^= 0x80 }},
	}
	for _, mu := range muts {
		if mu.name == "prev=genesis" && head.BkSeq == 0 {
			continue // identical to the valid block
		}
		add("hdr:"+mu.name+":resigned", base(mu.f))
		nb := base(nil)
		mu.f(&nb.Block)
		add("hdr:"+mu.name+":sig-kept", nb)
	}
	add("signed-by-intruder", mkBlock(m, []coin.Transaction{t1}, 10, idX.Sec, nil))
	ns := base(nil)
	ns.Sig = cipher.Sig{}
	add("null-signature", ns)
	hs := base(nil)
	hs.Sig[64] ^= 1
	add("sig-recid-flipped", hs)
	add("genesis-again", m.Chain[0])
	if len(m.Chain) > 1 {
		add("head-again", *m.Head())
	}
	// publisher-signed blocks with rule-breaking content
	for _, name := range []string{"create-coins-G", "destroy-coins-G", "wrap-coin-sum-G", "wrap-coin-sum-mid-G", "wrap-coin-sum-mid4-G", "create-hours-G", "wrap-hour-sum-G", "wrap-hour-sum-mid-G", "wrap-hour-sum-max-G", "spend-legacy-overflow-creates-hours", "spend-legacy-overflow-ok", "wrong-signer-G",
		"unsigned-G", "dup-output-G", "dup-input-G", "zero-coin-output-G", "spend-unconfirmed", "spend-spent"} {
		t := inst(name)
		if t == nil {
			continue
		}
		add("bad-txn["+name+"]", mkBlock(m, []coin.Transaction{*t}, 10, idP.Sec, nil))
	}
	if bad := inst("create-coins-G"); bad != nil && len(valid) >= 2 {
		add("valid+bad[create-coins-G]", mkBlock(m, []coin.Transaction{valid[1], *bad}, 10, idP.Sec, nil))
	}
	// double spends inside one block
	a, b := inst("pay-G-A"), inst("pay-G-B")
	if a != nil && b != nil && m.HardInBlock(a) == "" && m.HardInBlock(b) == "" {
		add("double-spend-in-block[pay-G-A,pay-G-B]", mkBlock(m, []coin.Transaction{*a, *b}, 10, idP.Sec, nil))
	}
	// the later transaction's SECOND input is the earlier transaction's input
	if c, d := inst("pay-A2-C"), inst("merge-A"); c != nil && d != nil && m.HardInBlock(c) == "" && m.HardInBlock(d) == "" {
		add("double-spend-in-block[pay-A2-C,merge-A:second-input]", mkBlock(m, []coin.Transaction{*c, *d}, 10, idP.Sec, nil))
		add("double-spend-in-block[merge-A,pay-A2-C]", mkBlock(m, []coin.Transaction{*d, *c}, 10, idP.Sec, nil))
	}
	// three transactions: the FIRST and the LAST spend the same output, an unrelated valid one stands between them (pairwise
	// checks that only look at neighbours miss it); and three unrelated valid ones in both directions
	if a != nil && b != nil && m.HardInBlock(a) == "" && m.HardInBlock(b) == "" {
		for _, mid := range []string{"pay-A-B", "pay-B-A", "pay-A2-C"} {
			if x := inst(mid); x != nil && m.HardInBlock(x) == "" {
				add("double-spend-in-block3[pay-G-A,"+mid+",pay-G-B]", mkBlock(m, []coin.Transaction{*a, *x, *b}, 10, idP.Sec, nil))
				add("double-spend-in-block3[pay-G-B,"+mid+",pay-G-A]", mkBlock(m, []coin.Transaction{*b, *x, *a}, 10, idP.Sec, nil))
				break
			}
		}
		if x, y := inst("pay-A-B"), inst("pay-B-A"); x != nil && y != nil && m.HardInBlock(x) == "" && m.HardInBlock(y) == "" {
			add("valid3[pay-G-A,pay-A-B,pay-B-A]+10s", mkBlock(m, []coin.Transaction{*a, *x, *y}, 10, idP.Sec, nil))
			add("valid3[pay-B-A,pay-A-B,pay-G-A]+1h", mkBlock(m, []coin.Transaction{*y, *x, *a}, 3600, idP.Sec, nil))
		}
	}
	if f := inst("fanout-200-G"); f != nil && m.HardInBlock(f) == "" {
		add("valid-fanout200[fanout-200-G]+10s", mkBlock(m, []coin.Transaction{*f}, 10, idP.Sec, nil))
	}
	add("same-txn-twice", mkBlock(m, []coin.Transaction{t1, t1}, 10, idP.Sec, nil))
	// second transaction spends an output created by the first one in the same block
	{
		uxs := coin.CreateUnspents(coin.BlockHeader{BkSeq: head.BkSeq + 1, Time: head.Time + 10}, t1)
		if owner, ok := byAddr[uxs[0].Body.Address]; ok {
			t2 := build([]coin.UxOut{uxs[0]}, []cipher.SecKey{owner.Sec}, []outSpec{{idC.Addr, uxs[0].Body.Coins, 0}})
			add("spend-output-created-in-same-block", mkBlock(m, []coin.Transaction{t1, *t2}, 10, idP.Sec, nil))
		}
	}
	// empty block
	add("no-transactions", mkBlock(m, nil, 10, idP.Sec, nil))
	return out
}
