package main

import (
	"bytes"
	"crypto/sha256"
	"encoding/hex"
	"sort"

	"github.com/boltdb/bolt"

	"github.com/skycoin/skycoin/src/visor/dbutil"
)

// bucket value canonicalisation: fields that no listed property observes or that are unordered sets.
//   unconfirmed_txns : trailing Received/Checked/Announced timestamps zeroed (IsValid kept)
//   block_sigs       : value replaced by a marker (signatures made by the publisher use random nonces;
//                      that every stored signature verifies over the stored header is an invariant (C04), not part of the key)
//   *_index, address_in, address_txns : lists of 32-byte hashes, sorted (they are sets; order depends on the path)
var hashListBuckets = map[string]bool{"unspent_pool_addr_index": true, "address_in": true, "address_txns": true}

func canonValue(bucket string, v []byte) []byte {
	switch {
	case bucket == "unconfirmed_txns" && len(v) >= 25:
		c := append([]byte{}, v...)
		for i := len(c) - 25; i < len(c)-1; i++ {
			c[i] = 0
		}
		return c
	case bucket == "block_sigs":
		return []byte("sig")
	case hashListBuckets[bucket] && len(v) >= 4 && (len(v)-4)%32 == 0:
		n := (len(v) - 4) / 32
		hs := make([][]byte, n)
		for i := 0; i < n; i++ {
			hs[i] = v[4+32*i : 4+32*(i+1)]
		}
		sort.Slice(hs, func(i, j int) bool { return bytes.Compare(hs[i], hs[j]) < 0 })
		c := append([]byte{}, v[:4]...)
		for _, h := range hs {
			c = append(c, h...)
		}
		return c
	}
	return v
}

// dumpDB returns per bucket a digest of its canonicalised content, and the overall key.
func dumpDB(db *dbutil.DB, skip map[string]bool) (map[string]string, string) {
	per := map[string]string{}
	err := db.View("verif dump", func(tx *dbutil.Tx) error {
		return tx.Tx.ForEach(func(name []byte, b *bolt.Bucket) error {
			if skip[string(name)] {
				return nil
			}
			h := sha256.New()
			n := 0
			err := b.ForEach(func(k, v []byte) error {
				h.Write([]byte{byte(len(k)), byte(len(k) >> 8)})
				h.Write(k)
				cv := canonValue(string(name), v)
				h.Write([]byte{byte(len(cv)), byte(len(cv) >> 8), byte(len(cv) >> 16)})
				h.Write(cv)
				n++
				return nil
			})
			per[string(name)] = hex.EncodeToString(h.Sum(nil)[:12])
			return err
		})
	})
	if err != nil {
		panic(err)
	}
	names := make([]string, 0, len(per))
	for k := range per {
		names = append(names, k)
	}
	sort.Strings(names)
	h := sha256.New()
	for _, k := range names {
		h.Write([]byte(k + "=" + per[k] + ";"))
	}
	return per, hex.EncodeToString(h.Sum(nil)[:16])
}

func (n *node) key() string {
	_, k := dumpDB(n.DB, nil)
	return k
}
