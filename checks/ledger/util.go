package main

import "math/big"

func newBig() *big.Int           { return new(big.Int) }
func bigU(v uint64) *big.Int     { return new(big.Int).SetUint64(v) }
