package main

import (
	"bytes"
	"fmt"
	"math/big"
	"sort"
	"strings"

	"github.com/skycoin/skycoin/src/cipher"
	"github.com/skycoin/skycoin/src/coin"
	"github.com/skycoin/skycoin/src/visor"
	"github.com/skycoin/skycoin/src/visor/dbutil"

	"verif/model/ledger"
)

func hx(h cipher.SHA256) string { return h.Hex()[:10] }

func uxString(ux coin.UxOut) string {
	return fmt.Sprintf("%s{%s c=%d h=%d t=%d seq=%d src=%s}", hx(ux.Hash()), nameOf(ux.Body.Address), ux.Body.Coins, ux.Body.Hours, ux.Head.Time, ux.Head.BkSeq, hx(ux.Body.SrcTransaction))
}

func sortedUx(uxs []coin.UxOut) []string {
	out := make([]string, len(uxs))
	for i, u := range uxs {
		out[i] = uxString(u)
	}
	sort.Strings(out)
	return out
}

// fail reports a violation for the properties listed in props (comma separated).
type failer func(props, sig string, format string, a ...interface{})

var allAddrs = []cipher.Address{idG.Addr, idA.Addr, idB.Addr, idC.Addr, idU.Addr, idL.Addr}
var unknownAddr = mkIdent("nobody").Addr

// checkState is the state oracle: every query view of the real node against values recomputed from the model.
func (n *node) checkState(fail failer, full bool) {
	m, v := n.M, n.V
	head := m.Head()

	// ---- C01/C02: unspent set
	uxs, err := v.GetAllUnspentOutputs()
	if err != nil {
		fail("C01,C02", "GetAllUnspentOutputs:error", "%v", err)
		return
	}
	var want []coin.UxOut
	for _, u := range m.UTXO {
		want = append(want, u)
	}
	g, w := sortedUx(uxs), sortedUx(want)
	if strings.Join(g, ";") != strings.Join(w, ";") {
		fail("C02", "unspent-set:differs-from-created-minus-spent", "real unspent set %v, model %v", g, w)
	}
	total := new(big.Int)
	for _, u := range uxs {
		total.Add(total, new(big.Int).SetUint64(u.Body.Coins))
	}
	if total.Cmp(new(big.Int).SetUint64(n.W.GenesisCoins)) != 0 {
		fail("C01", "coin-supply:not-conserved", "sum of unspent coins %s != genesis volume %d", total, n.W.GenesisCoins)
	}
	for id, c := range m.Outs {
		if c.NSpent > 1 {
			fail("C02", "output:spent-more-than-once", "output %s spent %d times", hx(id), c.NSpent)
		}
	}
	md, err := v.GetBlockchainMetadata()
	if err != nil {
		fail("C07", "GetBlockchainMetadata:error", "%v", err)
	} else {
		if md.Unspents != uint64(len(m.UTXO)) {
			fail("C01,C07", "metadata:unspent-count", "metadata.Unspents=%d model %d", md.Unspents, len(m.UTXO))
		}
		if md.Unconfirmed != uint64(len(m.Pool)) {
			fail("C06,C07", "metadata:unconfirmed-count", "metadata.Unconfirmed=%d model %d", md.Unconfirmed, len(m.Pool))
		}
		if md.HeadBlock.Block.HashHeader() != head.Block.HashHeader() {
			fail("C04,C07", "metadata:head-block", "head %s model %s", hx(md.HeadBlock.Block.HashHeader()), hx(head.Block.HashHeader()))
		}
	}

	// ---- C04: the stored chain is exactly the model chain, bit for bit, and every stored signature verifies over the stored header
	blocks, err := v.GetBlocksInRange(0, head.Head.BkSeq+3)
	if err != nil {
		fail("C04,C07", "GetBlocksInRange:error", "%v", err)
	} else {
		if len(blocks) != len(m.Chain) {
			fail("C04,C07", "chain:length", "stored %d blocks, model %d", len(blocks), len(m.Chain))
		}
		for i := range blocks {
			if i >= len(m.Chain) {
				break
			}
			if !bytes.Equal(blocks[i].Head.Bytes(), m.Chain[i].Head.Bytes()) {
				fail("C04", "chain:stored-header-differs-from-accepted-header", "block %d stored header %+v, submitted/accepted header %+v", i, blocks[i].Head, m.Chain[i].Head)
			}
			if !bytes.Equal(blocks[i].Body.Bytes(), m.Chain[i].Body.Bytes()) {
				fail("C04", "chain:stored-body-differs", "block %d body differs", i)
			}
			if err := cipher.VerifyPubKeySignedHash(idP.Pub, blocks[i].Sig, blocks[i].Block.HashHeader()); err != nil {
				fail("C04", "chain:stored-signature-does-not-cover-stored-header", "block %d: stored signature does not verify over the stored header: %v", i, err)
			}
		}
	}

	// ---- C06: pool content and flags
	pool, err := v.GetAllUnconfirmedTransactions()
	if err != nil {
		fail("C06", "GetAllUnconfirmedTransactions:error", "%v", err)
	} else {
		var gp, wp []string
		for _, u := range pool {
			gp = append(gp, fmt.Sprintf("%s:%d", hx(u.Transaction.Hash()), u.IsValid))
		}
		for h, e := range m.Pool {
			f := 0
			if e.Valid {
				f = 1
			}
			wp = append(wp, fmt.Sprintf("%s:%d", hx(h), f))
		}
		sort.Strings(gp)
		sort.Strings(wp)
		if strings.Join(gp, ",") != strings.Join(wp, ",") {
			fail("C06", "pool:content-or-flags-differ", "real pool (hash:valid) %v, model %v", gp, wp)
		}
	}
	if n.deepVerify {
		// the node's own integrity verification (signatures of all stored blocks + history consistency) must pass in every state
		var err error
		if pan, msg := catch(func() { err = visor.CheckDatabase(n.DB, idP.Pub, nil) }); pan {
			fail("C04,C07", "CheckDatabase:panic", "the node's own database verification panicked: %s", msg)
		} else if err != nil {
			fail("C04,C07", "CheckDatabase:fails-on-a-state-reached-by-accepted-operations", "the node's own database verification fails: %v", err)
		}
	}
	if !full {
		return
	}

	// ---- C07: per-address unspent index for every subset of the fixture addresses + an unknown address
	byA := map[cipher.Address][]coin.UxOut{}
	for _, u := range m.UTXO {
		byA[u.Body.Address] = append(byA[u.Body.Address], u)
	}
	for mask := 0; mask < 1<<len(allAddrs)+1; mask++ {
		var set []cipher.Address
		if mask == 1<<len(allAddrs) {
			set = []cipher.Address{unknownAddr, idA.Addr}
		} else {
			for i, a := range allAddrs {
				if mask&(1<<i) != 0 {
					set = append(set, a)
				}
			}
		}
		got, err := v.GetUnspentsOfAddrs(set)
		if err != nil {
			fail("C07", "GetUnspentsOfAddrs:error", "%v", err)
			break
		}
		for _, a := range set {
			if strings.Join(sortedUx(got[a]), ";") != strings.Join(sortedUx(byA[a]), ";") {
				fail("C07", "address-unspent-index:differs", "address %s (query set of %d): index %v, chain %v", nameOf(a), len(set), sortedUx(got[a]), sortedUx(byA[a]))
			}
		}
		for a := range got {
			found := false
			for _, s := range set {
				if s == a {
					found = true
				}
			}
			if !found {
				fail("C07", "address-unspent-index:foreign-address-returned", "address %s returned but not asked", nameOf(a))
			}
		}
	}
	if cnt, err := v.AddressCount(); err != nil {
		fail("C07", "AddressCount:error", "%v", err)
	} else if cnt != uint64(len(byA)) {
		fail("C07", "AddressCount:differs", "AddressCount=%d, addresses with unspent outputs %d", cnt, len(byA))
	}
	// unspent-set checksum as stored vs xor recomputed from scratch
	var stored cipher.SHA256
	n.DB.View("verif xorhash", func(tx *dbutil.Tx) error {
		if b := tx.Tx.Bucket([]byte("unspent_meta")); b != nil {
			copy(stored[:], b.Get([]byte("xorhash")))
		}
		return nil
	})
	if stored != m.UxHash() {
		fail("C07", "unspent-checksum:differs", "stored xor checksum %s, recomputed %s", hx(stored), hx(m.UxHash()))
	}

	// ---- C07: history of every output ever created
	for _, id := range m.Order {
		c := m.Outs[id]
		h, _, err := v.GetUxOutByID(id)
		if err != nil || h == nil {
			fail("C07", "GetUxOutByID:missing", "output %s: %v", uxString(c.Out), err)
			continue
		}
		if uxString(h.Out) != uxString(c.Out) {
			fail("C07", "GetUxOutByID:fields-differ", "got %s want %s", uxString(h.Out), uxString(c.Out))
		}
		var wantTxn cipher.SHA256
		var wantSeq uint64
		if c.Spent {
			wantTxn, wantSeq = c.SpentTxn, c.SpentSeq
		}
		if h.SpentTxnID != wantTxn || h.SpentBlockSeq != wantSeq {
			fail("C07", "GetUxOutByID:spent-info-differs", "output %s: history says spent by %s in block %d, chain says %s in block %d", hx(id), hx(h.SpentTxnID), h.SpentBlockSeq, hx(wantTxn), wantSeq)
		}
	}
	if h, _, _ := v.GetUxOutByID(cipher.SumSHA256([]byte("never created"))); h != nil {
		fail("C07", "GetUxOutByID:unknown-id", "unknown id returned %v", h)
	}
	// outputs ever received per address
	for _, a := range allAddrs {
		res, _, err := v.GetSpentOutputsForAddresses([]cipher.Address{a})
		if err != nil {
			fail("C07", "GetSpentOutputsForAddresses:error", "%v", err)
			continue
		}
		var gotL, wantL []string
		for _, o := range res[0] {
			gotL = append(gotL, fmt.Sprintf("%s spent=%s@%d", uxString(o.Out), hx(o.SpentTxnID), o.SpentBlockSeq))
		}
		for _, id := range m.Order {
			c := m.Outs[id]
			if c.Out.Body.Address != a {
				continue
			}
			var st cipher.SHA256
			var ss uint64
			if c.Spent {
				st, ss = c.SpentTxn, c.SpentSeq
			}
			wantL = append(wantL, fmt.Sprintf("%s spent=%s@%d", uxString(c.Out), hx(st), ss))
		}
		sort.Strings(gotL)
		sort.Strings(wantL)
		if strings.Join(gotL, ";") != strings.Join(wantL, ";") {
			fail("C07", "address-output-history:differs", "address %s: history %v, chain %v", nameOf(a), gotL, wantL)
		}
	}

	// ---- C07: transaction views
	n.checkTxnViews(fail)
	// ---- C07: balances
	n.checkBalances(fail)
	// ---- C07: block queries
	n.checkBlockQueries(fail)
}

type mtxn struct {
	Hash      cipher.SHA256
	Confirmed bool
	Seq       uint64
	Time      uint64
	Addrs     map[cipher.Address]bool
	PaysTo    map[cipher.Address]bool
}

// modelTxns lists every transaction of the chain and the pool with the addresses it touches (owner of an input or receiver of an output).
func (n *node) modelTxns() []mtxn {
	m := n.M
	var out []mtxn
	ownerOf := func(id cipher.SHA256) (cipher.Address, bool) {
		if c, ok := m.Outs[id]; ok {
			return c.Out.Body.Address, true
		}
		return cipher.Address{}, false
	}
	for _, b := range m.Chain {
		for _, t := range b.Body.Transactions {
			x := mtxn{Hash: t.Hash(), Confirmed: true, Seq: b.Head.BkSeq, Time: b.Head.Time, Addrs: map[cipher.Address]bool{}}
			for _, in := range t.In {
				if a, ok := ownerOf(in); ok {
					x.Addrs[a] = true
				}
			}
			for _, o := range t.Out {
				x.Addrs[o.Address] = true
			}
			out = append(out, x)
		}
	}
	for h, e := range m.Pool {
		x := mtxn{Hash: h, Addrs: map[cipher.Address]bool{}, PaysTo: map[cipher.Address]bool{}}
		for _, in := range e.Txn.In {
			if a, ok := ownerOf(in); ok {
				x.Addrs[a] = true
			}
		}
		for _, o := range e.Txn.Out {
			x.Addrs[o.Address] = true
			x.PaysTo[o.Address] = true
		}
		out = append(out, x)
	}
	return out
}

func (n *node) checkTxnViews(fail failer) {
	all := n.modelTxns()
	headSeq := n.M.Head().Head.BkSeq
	filters := [][]cipher.Address{nil, {idG.Addr}, {idA.Addr}, {idB.Addr}, {idC.Addr}, {idL.Addr}, {idA.Addr, idB.Addr}, {unknownAddr}, {idG.Addr, idA.Addr, idB.Addr, idC.Addr, idU.Addr, idL.Addr}}
	for _, addrs := range filters {
		for _, mode := range []string{"all", "confirmed", "unconfirmed"} {
			for _, order := range []visor.SortOrder{visor.AscOrder, visor.DescOrder} {
				var flts []visor.TxFilter
				if len(addrs) > 0 {
					flts = append(flts, visor.NewAddrsFilter(addrs))
				}
				switch mode {
				case "confirmed":
					flts = append(flts, visor.NewConfirmedTxFilter(true))
				case "unconfirmed":
					flts = append(flts, visor.NewConfirmedTxFilter(false))
				}
				var got []visor.Transaction
				var err error
				pan, msg := catch(func() { got, _, err = n.V.GetTransactions(flts, order, nil) })
				desc := fmt.Sprintf("GetTransactions(addrs=%v, %s, order=%v)", names(addrs), mode, order)
				if pan {
					fail("C07", "GetTransactions:panic:"+mode, "%s panicked: %s", desc, msg)
					continue
				}
				if err != nil {
					fail("C07", "GetTransactions:error:"+mode, "%s: %v", desc, err)
					continue
				}
				want := map[string]bool{}
				must := map[string]bool{} // for pending transactions filtered by address only the ones paying to the address are demanded
				for _, t := range all {
					if mode == "confirmed" && !t.Confirmed || mode == "unconfirmed" && t.Confirmed {
						continue
					}
					if len(addrs) > 0 {
						rel := false
						for _, a := range addrs {
							if t.Addrs[a] {
								rel = true
							}
						}
						if !rel {
							continue
						}
					}
					if t.Confirmed {
						want[fmt.Sprintf("%s conf seq=%d h=%d t=%d", hx(t.Hash), t.Seq, headSeq-t.Seq+1, t.Time)] = true
					} else {
						want[fmt.Sprintf("%s pending", hx(t.Hash))] = true
					}
				}
				for k := range want {
					must[k] = true
				}
				if len(addrs) > 0 {
					for _, t := range all {
						if t.Confirmed {
							continue
						}
						pays := false
						for _, a := range addrs {
							if t.PaysTo[a] {
								pays = true
							}
						}
						if !pays {
							delete(must, fmt.Sprintf("%s pending", hx(t.Hash)))
						}
					}
				}
				gotS := map[string]bool{}
				var seqs []uint64
				dup := false
				for _, t := range got {
					var k string
					if t.Status.Confirmed {
						k = fmt.Sprintf("%s conf seq=%d h=%d t=%d", hx(t.Transaction.Hash()), t.Status.BlockSeq, t.Status.Height, t.Time)
						seqs = append(seqs, t.Status.BlockSeq)
					} else {
						k = fmt.Sprintf("%s pending", hx(t.Transaction.Hash()))
					}
					if gotS[k] {
						dup = true
					}
					gotS[k] = true
				}
				if dup {
					fail("C07", "GetTransactions:duplicate-entry", "%s returned a transaction twice: %v", desc, keys(gotS))
				}
				bad := false
				for k := range gotS {
					if !want[k] {
						bad = true
					}
				}
				for k := range must {
					if !gotS[k] {
						bad = true
					}
				}
				if bad {
					fail("C07", "GetTransactions:set-differs:"+mode, "%s = %v, chain+pool say %v (of which required %v)", desc, keys(gotS), keys(want), keys(must))
				}
				for i := 1; i < len(seqs); i++ {
					if order == visor.AscOrder && seqs[i] < seqs[i-1] || order == visor.DescOrder && seqs[i] > seqs[i-1] {
						fail("C07", "GetTransactions:order", "%s: block seqs %v not ordered", desc, seqs)
						break
					}
				}
				// the verbose form of the same query (what ?verbose=1 serves): same transactions, and for each of them exactly its
				// inputs, each the output the chain recorded under that id.  Judged only when every pending transaction of the
				// result still has all inputs unspent (the call cannot resolve a spent input of a pending transaction).
				resolvable := true
				for _, t := range got {
					if !t.Status.Confirmed {
						for _, in := range t.Transaction.In {
							if _, ok := n.M.UTXO[in]; !ok {
								resolvable = false
							}
						}
					}
				}
				if resolvable {
					var vt []visor.Transaction
					var vin [][]visor.TransactionInput
					var verr error
					vdesc := "GetTransactionsWithInputs" + desc[len("GetTransactions"):]
					if pan, msg := catch(func() { vt, vin, _, verr = n.V.GetTransactionsWithInputs(flts, order, nil) }); pan {
						fail("C07", "GetTransactionsWithInputs:panic:"+mode, "%s panicked: %s", vdesc, msg)
					} else if verr != nil {
						fail("C07", "GetTransactionsWithInputs:error:"+mode, "%s: %v (the plain query answers with %d transactions)", vdesc, verr, len(got))
					} else if len(vt) != len(got) || len(vin) != len(vt) {
						fail("C07", "GetTransactionsWithInputs:differs-from-plain-query", "%s: %d transactions with %d input lists, the plain query returns %d", vdesc, len(vt), len(vin), len(got))
					} else {
						for i := range vt {
							if vt[i].Transaction.Hash() != got[i].Transaction.Hash() {
								fail("C07", "GetTransactionsWithInputs:differs-from-plain-query", "%s: entry %d is another transaction than in the plain query", vdesc, i)
								break
							}
							if len(vin[i]) != len(vt[i].Transaction.In) {
								fail("C07", "GetTransactionsWithInputs:wrong-number-of-inputs", "%s: transaction %d (confirmed=%v, block %d) has %d inputs, %d reported", vdesc, i, vt[i].Status.Confirmed, vt[i].Status.BlockSeq, len(vt[i].Transaction.In), len(vin[i]))
								break
							}
							for j, ti := range vin[i] {
								id := vt[i].Transaction.In[j]
								rec, ok := n.M.Outs[id]
								if ti.UxOut.Hash() != id || (ok && (ti.UxOut.Body.Address != rec.Out.Body.Address || ti.UxOut.Body.Coins != rec.Out.Body.Coins)) {
									fail("C07", "GetTransactionsWithInputs:wrong-input", "%s: transaction %d input %d is reported as output %s of %s with %d droplets", vdesc, i, j, hx(ti.UxOut.Hash()), ti.UxOut.Body.Address, ti.UxOut.Body.Coins)
									break
								}
							}
						}
					}
				}
			}
		}
	}
}

func names(as []cipher.Address) []string {
	var o []string
	for _, a := range as {
		o = append(o, nameOf(a))
	}
	return o
}

func keys(m map[string]bool) []string {
	o := make([]string, 0, len(m))
	for k := range m {
		o = append(o, k)
	}
	sort.Strings(o)
	return o
}

func catch(f func()) (bool, string) {
	var pan bool
	var msg string
	func() {
		defer func() {
			if e := recover(); e != nil {
				pan, msg = true, fmt.Sprint(e)
			}
		}()
		f()
	}()
	return pan, msg
}

// checkBalances: confirmed = sum over the address' unspent outputs (coins, accrued hours at head time);
// predicted = confirmed − outputs spent by pending transactions + outputs pending transactions would create for the address.
func (n *node) checkBalances(fail failer) {
	m := n.M
	headT := m.Head().Head.Time
	type bal struct{ c, h *big.Int }
	sum := func(uxs []coin.UxOut) (bal, bool) {
		b := bal{new(big.Int), new(big.Int)}
		ok := true
		for _, u := range uxs {
			b.c.Add(b.c, new(big.Int).SetUint64(u.Body.Coins))
			hv, cls := ledger.Accrued(u, headT)
			if cls != "" {
				ok = false
			}
			b.h.Add(b.h, hv)
		}
		return b, ok
	}
	spentByPool := map[cipher.SHA256]bool{}
	incoming := map[cipher.Address][]coin.UxOut{}
	for _, e := range m.Pool {
		for _, in := range e.Txn.In {
			spentByPool[in] = true
		}
		for _, u := range coin.CreateUnspents(m.Head().Head, e.Txn) {
			incoming[u.Body.Address] = append(incoming[u.Body.Address], u)
		}
	}
	sets := [][]cipher.Address{{idG.Addr}, {idA.Addr}, {idB.Addr}, {idC.Addr}, {idL.Addr}, {unknownAddr}, allAddrs, {idA.Addr, idA.Addr}}
	for _, set := range sets {
		var got []struct{ cc, ch, pc, ph uint64 }
		var err error
		pan, msg := catch(func() {
			bps, e := n.V.GetBalanceOfAddresses(set)
			err = e
			for _, bp := range bps {
				got = append(got, struct{ cc, ch, pc, ph uint64 }{bp.Confirmed.Coins, bp.Confirmed.Hours, bp.Predicted.Coins, bp.Predicted.Hours})
			}
		})
		if pan {
			fail("C07", "GetBalanceOfAddresses:panic", "addresses %v: %s", names(set), msg)
			continue
		}
		if err != nil {
			// hours that do not fit 64 bits cannot be expressed by the view: an error is the only honest answer then
			unrep := false
			for _, a := range set {
				us := append(append([]coin.UxOut{}, m.OutputsOf(a)...), incoming[a]...)
				if b, ok := sum(us); !ok || b.h.Cmp(ledger.Two64) >= 0 || b.c.Cmp(ledger.Two64) >= 0 {
					unrep = true
				}
			}
			if unrep {
				continue
			}
			// classify: does the pool hold a transaction whose input is no longer unspent?
			stale := false
			for in := range spentByPool {
				if _, ok := m.UTXO[in]; !ok {
					stale = true
				}
			}
			sig := "GetBalanceOfAddresses:error"
			if stale {
				sig = "GetBalanceOfAddresses:error:pool-holds-transaction-with-spent-input"
			}
			fail("C07", sig, "addresses %v: %v", names(set), err)
			continue
		}
		if len(got) != len(set) {
			fail("C07", "GetBalanceOfAddresses:length", "asked %d addresses, got %d balances", len(set), len(got))
			continue
		}
		for i, a := range set {
			var conf, pred []coin.UxOut
			for _, u := range m.OutputsOf(a) {
				conf = append(conf, u)
				if !spentByPool[u.Hash()] {
					pred = append(pred, u)
				}
			}
			pred = append(pred, incoming[a]...)
			cb, ok1 := sum(conf)
			pb, ok2 := sum(pred)
			if !ok1 || !ok2 || cb.h.Cmp(ledger.Two64) >= 0 || pb.h.Cmp(ledger.Two64) >= 0 || pb.c.Cmp(ledger.Two64) >= 0 {
				continue // hours not representable: outside what the view can express
			}
			g := got[i]
			if new(big.Int).SetUint64(g.cc).Cmp(cb.c) != 0 || new(big.Int).SetUint64(g.ch).Cmp(cb.h) != 0 {
				fail("C07", "balance:confirmed-differs", "address %s confirmed balance %d coins %d hours, chain says %s coins %s hours", nameOf(a), g.cc, g.ch, cb.c, cb.h)
			}
			if new(big.Int).SetUint64(g.pc).Cmp(pb.c) != 0 || new(big.Int).SetUint64(g.ph).Cmp(pb.h) != 0 {
				sig := "balance:predicted-differs"
				if len(conf) == 0 && len(incoming[a]) > 0 {
					sig = "balance:predicted-ignores-incoming-for-address-without-confirmed-outputs"
				}
				fail("C07", sig, "address %s predicted balance %d coins %d hours, chain+pool say %s coins %s hours (confirmed outputs %d, pending incoming %d)", nameOf(a), g.pc, g.ph, pb.c, pb.h, len(conf), len(incoming[a]))
			}
		}
	}
}

func (n *node) checkBlockQueries(fail failer) {
	m, v := n.M, n.V
	headSeq := m.Head().Head.BkSeq
	hh := func(bs []coin.SignedBlock) string {
		var s []string
		for _, b := range bs {
			s = append(s, fmt.Sprintf("%d:%s", b.Head.BkSeq, hx(b.Block.HashHeader())))
		}
		return strings.Join(s, ",")
	}
	wantRange := func(a, b uint64) string {
		var bs []coin.SignedBlock
		for i := a; i <= b && i < uint64(len(m.Chain)); i++ {
			bs = append(bs, m.Chain[i])
		}
		return hh(bs)
	}
	for a := uint64(0); a <= headSeq+1; a++ {
		for b := uint64(0); b <= headSeq+2; b++ {
			got, err := v.GetBlocksInRange(a, b)
			w := ""
			if a <= b {
				w = wantRange(a, b)
			}
			if err != nil || hh(got) != w {
				fail("C07", "GetBlocksInRange:differs", "GetBlocksInRange(%d,%d)=%s,%v want %s", a, b, hh(got), err, w)
			}
		}
	}
	for num := uint64(0); num <= headSeq+3; num++ {
		got, err := v.GetLastBlocks(num)
		w := ""
		if num > 0 {
			start := uint64(0)
			if headSeq+1 > num {
				start = headSeq + 1 - num
			}
			w = wantRange(start, headSeq)
		}
		if err != nil || hh(got) != w {
			fail("C07", "GetLastBlocks:differs", "GetLastBlocks(%d)=%s,%v want %s", num, hh(got), err, w)
		}
	}
	for seq := uint64(0); seq <= headSeq+1; seq++ {
		for ct := uint64(0); ct <= headSeq+2; ct++ {
			got, err := v.GetSignedBlocksSince(seq, ct)
			w := ""
			if ct > 0 && seq < headSeq {
				end := seq + ct
				if end > headSeq {
					end = headSeq
				}
				w = wantRange(seq+1, end)
			}
			if err != nil || hh(got) != w {
				fail("C07", "GetSignedBlocksSince:differs", "GetSignedBlocksSince(%d,%d)=%s,%v want %s", seq, ct, hh(got), err, w)
			}
		}
		b, err := v.GetSignedBlockBySeq(seq)
		if seq <= headSeq {
			if err != nil || b == nil || b.Block.HashHeader() != m.Chain[seq].Block.HashHeader() {
				fail("C07", "GetSignedBlockBySeq:differs", "seq %d: %v %v", seq, b, err)
			} else if bh, err := v.GetSignedBlockByHash(b.Block.HashHeader()); err != nil || bh == nil || bh.Head.BkSeq != seq {
				fail("C07", "GetSignedBlockByHash:differs", "seq %d: %v %v", seq, bh, err)
			}
		} else if b != nil {
			fail("C07", "GetSignedBlockBySeq:beyond-head", "seq %d beyond head returned a block", seq)
		}
	}
	if s, ok, err := v.HeadBkSeq(); err != nil || !ok || s != headSeq {
		fail("C07", "HeadBkSeq:differs", "HeadBkSeq=%d,%v,%v want %d", s, ok, err, headSeq)
	}
	if nt, err := v.GetTransactionsNum(); err == nil {
		w := 0
		for _, b := range m.Chain {
			w += len(b.Body.Transactions)
		}
		if nt != uint64(w) {
			fail("C07", "GetTransactionsNum:differs", "GetTransactionsNum=%d, chain has %d", nt, w)
		}
	}
}
