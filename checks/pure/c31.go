package main

import (
	"fmt"
	"math"
	"math/big"
	"sync/atomic"

	"github.com/skycoin/skycoin/src/coin"
	"github.com/skycoin/skycoin/src/util/fee"
	"github.com/skycoin/skycoin/src/util/mathutil"

	"verif/engine"
	"verif/model/lattice"
)

// C31 — checked arithmetic, fee and coin-hour formulas.
// Full products over the 64-bit boundary lattice against math/big.
func init() { register("C31", "exploration", c31) }

var two64 = new(big.Int).Lsh(big.NewInt(1), 64)
var two32 = new(big.Int).Lsh(big.NewInt(1), 32)

func bu(v uint64) *big.Int { return new(big.Int).SetUint64(v) }

func c31(r *engine.Run) {
	r.RaceWorkload = "text" // supplement: free-running race-detector pass over the same API (can only add findings)
	L := lattice.L64()
	L32 := lattice.L32()
	var evals int64
	nontriv := engine.NewSet()
	outcomes := engine.NewCounter()
	type pair struct{ A, B uint64 }

	// AddUint64 / MultUint64 over L×L
	engine.ParFor(len(L), func(i int) {
		a := L[i]
		for _, b := range L {
			atomic.AddInt64(&evals, 2)
			exact := new(big.Int).Add(bu(a), bu(b))
			got, err := mathutil.AddUint64(a, b)
			if exact.Cmp(two64) >= 0 {
				outcomes.Add("add-overflow")
				nontriv.Add(fmt.Sprintf("add %d %d", a, b))
				if err == nil {
					r.Failf("AddUint64:overflow-not-reported", pair{a, b}, "AddUint64(%d,%d)=%d nil error, exact %s", a, b, got, exact)
				}
			} else {
				outcomes.Add("add-ok")
				if err != nil || got != exact.Uint64() {
					r.Failf("AddUint64:wrong-result", pair{a, b}, "AddUint64(%d,%d)=%d,%v exact %s", a, b, got, err, exact)
				}
			}
			exact = new(big.Int).Mul(bu(a), bu(b))
			got, err = mathutil.MultUint64(a, b)
			if exact.Cmp(two64) >= 0 {
				outcomes.Add("mult-overflow")
				nontriv.Add(fmt.Sprintf("mul %d %d", a, b))
				if err == nil {
					r.Failf("MultUint64:overflow-not-reported", pair{a, b}, "MultUint64(%d,%d)=%d nil error, exact %s", a, b, got, exact)
				}
			} else {
				outcomes.Add("mult-ok")
				if err != nil || got != exact.Uint64() {
					r.Failf("MultUint64:wrong-result", pair{a, b}, "MultUint64(%d,%d)=%d,%v exact %s", a, b, got, err, exact)
				}
			}
		}
	})
	// AddUint32 over L32×L32
	for _, a := range L32 {
		for _, b := range L32 {
			evals++
			exact := uint64(a) + uint64(b)
			got, err := mathutil.AddUint32(a, b)
			if exact > math.MaxUint32 {
				outcomes.Add("add32-overflow")
				nontriv.Add(fmt.Sprintf("add32 %d %d", a, b))
				if err == nil {
					r.Failf("AddUint32:overflow-not-reported", pair{uint64(a), uint64(b)}, "AddUint32(%d,%d)=%d nil", a, b, got)
				}
			} else if err != nil || uint64(got) != exact {
				r.Failf("AddUint32:wrong-result", pair{uint64(a), uint64(b)}, "AddUint32(%d,%d)=%d,%v", a, b, got, err)
			}
		}
	}
	// conversions
	for _, a := range L {
		evals += 3
		g, err := mathutil.Uint64ToInt64(a)
		if a > math.MaxInt64 {
			nontriv.Add(fmt.Sprintf("u2i %d", a))
			if err == nil {
				r.Failf("Uint64ToInt64:overflow-not-reported", a, "Uint64ToInt64(%d)=%d", a, g)
			}
		} else if err != nil || uint64(g) != a {
			r.Failf("Uint64ToInt64:wrong-result", a, "Uint64ToInt64(%d)=%d,%v", a, g, err)
		}
		s := int64(a)
		g2, err := mathutil.Int64ToUint64(s)
		if s < 0 {
			nontriv.Add(fmt.Sprintf("i2u %d", s))
			if err == nil {
				r.Failf("Int64ToUint64:underflow-not-reported", s, "Int64ToUint64(%d)=%d", s, g2)
			}
		} else if err != nil || g2 != uint64(s) {
			r.Failf("Int64ToUint64:wrong-result", s, "Int64ToUint64(%d)=%d,%v", s, g2, err)
		}
		in := int(a)
		g3, err := mathutil.IntToUint32(in)
		if in < 0 || in > math.MaxUint32 {
			nontriv.Add(fmt.Sprintf("i2u32 %d", in))
			if err == nil {
				r.Failf("IntToUint32:range-not-reported", in, "IntToUint32(%d)=%d", in, g3)
			}
		} else if err != nil || int(g3) != in {
			r.Failf("IntToUint32:wrong-result", in, "IntToUint32(%d)=%d,%v", in, g3, err)
		}
	}
	// fee: RequiredFee = ceil(h/b), RemainingHours = h - ceil(h/b) (never underflows), VerifyTransactionFeeForHours
	burns := []uint32{1, 2, 3, 10, 1 << 16, math.MaxUint32}
	for _, h := range L {
		for _, b := range burns {
			evals += 2
			want := new(big.Int).Add(bu(h), bu(uint64(b)-1))
			want.Div(want, bu(uint64(b)))
			got := fee.RequiredFee(h, b)
			if bu(got).Cmp(want) != 0 {
				r.Failf("RequiredFee:wrong-result", pair{h, uint64(b)}, "RequiredFee(%d,%d)=%d want %s", h, b, got, want)
			}
			rem := fee.RemainingHours(h, b)
			wr := new(big.Int).Sub(bu(h), want)
			if wr.Sign() < 0 || bu(rem).Cmp(wr) != 0 {
				r.Failf("RemainingHours:wrong-result", pair{h, uint64(b)}, "RemainingHours(%d,%d)=%d want %s", h, b, rem, wr)
			}
			if h%uint64(b) != 0 {
				nontriv.Add(fmt.Sprintf("fee %d %d", h, b))
			}
		}
	}
	for _, hours := range L {
		for _, f := range L {
			for _, b := range burns {
				evals++
				err := fee.VerifyTransactionFeeForHours(hours, f, b)
				total := new(big.Int).Add(bu(hours), bu(f))
				var wantOK bool
				switch {
				case f == 0:
					wantOK = false
				case total.Cmp(two64) >= 0:
					wantOK = false
				default:
					req := new(big.Int).Add(total, bu(uint64(b)-1))
					req.Div(req, bu(uint64(b)))
					wantOK = bu(f).Cmp(req) >= 0
				}
				if wantOK {
					outcomes.Add("fee-ok")
				} else {
					outcomes.Add("fee-rejected")
				}
				if (err == nil) != wantOK {
					r.Failf("VerifyTransactionFeeForHours:wrong-verdict", []uint64{hours, f, uint64(b)}, "VerifyTransactionFeeForHours(%d,%d,%d)=%v want ok=%v", hours, f, b, err, wantOK)
				}
			}
		}
	}
	// CoinHours over coins × seconds × initial hours (+ start times)
	coinsL := lattice.Dedup(append(append([]uint64{}, L...), 999999, 1e6+999999, (1<<20)*1e6+999999, 1e14+1, 123456789, 3600e6-1, 3600e6+1))
	secsL := lattice.Dedup(append(append([]uint64{}, L...), 3599, 3601, 1<<44-1, 1<<44, 86400*365, 17592186044415))
	// pairs whose whole-coin seconds are within a whisker of 2^64: W*s in [2^64-2^20, 2^64+2^20]
	type cp struct{ c, s uint64 }
	var near []cp
	for _, s := range []uint64{1 << 20, 1<<20 + 1, 3600, 1 << 32, 1<<44 - 1, 1000003} {
		w := new(big.Int).Div(two64, bu(s)).Uint64()
		for _, dw := range []uint64{0, 1} {
			for _, d := range []uint64{0, 1, 999999, 500000} {
				W := w - 1 + dw
				c := new(big.Int).Mul(bu(W), bu(1e6))
				c.Add(c, bu(d))
				if c.IsUint64() {
					near = append(near, cp{c.Uint64(), s})
				}
			}
		}
	}
	hoursL := []uint64{0, 1, 3600, 1 << 32, 1 << 63, math.MaxUint64 - 4886713167, math.MaxUint64 - 1, math.MaxUint64}
	t0L := []uint64{0, 1, 1 << 32, math.MaxUint64 - 1}
	evalCH := func(c, s, h0, t0 uint64) {
		t := new(big.Int).Add(bu(t0), bu(s))
		if !t.IsUint64() {
			return
		}
		atomic.AddInt64(&evals, 1)
		ux := coin.UxOut{Head: coin.UxHead{Time: t0}, Body: coin.UxBody{Coins: c, Hours: h0}}
		got, err := ux.CoinHours(t.Uint64())
		W, d := c/1e6, c%1e6
		ws := new(big.Int).Mul(bu(W), bu(s))
		ds := new(big.Int).Mul(bu(d), bu(s))
		cs := new(big.Int).Add(ws, new(big.Int).Div(ds, bu(1e6)))
		earned := new(big.Int).Div(cs, bu(3600))
		total := new(big.Int).Add(bu(h0), earned)
		// cross-check of the closed formula of the statement: floor(coins*seconds/3.6e9)
		closed := new(big.Int).Mul(bu(c), bu(s))
		closed.Div(closed, bu(3600e6))
		if closed.Cmp(earned) != 0 {
			r.Broken("reference model inconsistent: %s vs %s", closed, earned)
		}
		cse := []uint64{c, s, h0, t0}
		var wantErr string
		switch {
		case ws.Cmp(two64) >= 0:
			wantErr = "whole-coin-seconds"
		case ds.Cmp(two64) >= 0:
			wantErr = "droplet-seconds"
		case cs.Cmp(two64) >= 0:
			wantErr = "coin-seconds-sum"
		case total.Cmp(two64) >= 0:
			wantErr = "final-sum"
		}
		if wantErr != "" {
			outcomes.Add("coinhours-overflow-" + wantErr)
			nontriv.Add(fmt.Sprint("ch", cse))
			if err == nil {
				r.Failf("UxOut.CoinHours:overflow-not-reported:"+wantErr, cse, "coins=%d seconds=%d hours=%d: CoinHours=%d with nil error but %s does not fit 64 bits (exact earned %s)", c, s, h0, got, wantErr, earned)
			}
			return
		}
		outcomes.Add("coinhours-ok")
		if earned.Sign() > 0 {
			nontriv.Add(fmt.Sprint("ch", cse))
		}
		if err != nil || bu(got).Cmp(total) != 0 {
			r.Failf("UxOut.CoinHours:wrong-result", cse, "coins=%d seconds=%d hours=%d: got %d,%v want %s", c, s, h0, got, err, total)
		}
	}
	engine.ParFor(len(coinsL), func(i int) {
		for _, s := range secsL {
			for _, h0 := range hoursL {
				for _, t0 := range t0L {
					evalCH(coinsL[i], s, h0, t0)
				}
			}
		}
	})
	for _, n := range near {
		for _, h0 := range hoursL {
			evalCH(n.c, n.s, h0, 0)
			evalCH(n.c, n.s, h0, 5)
		}
	}
	// t before the output's own time: hours unchanged
	for _, h0 := range hoursL {
		evals++
		ux := coin.UxOut{Head: coin.UxHead{Time: 100}, Body: coin.UxBody{Coins: 5e6, Hours: h0}}
		if got, err := ux.CoinHours(99); err != nil || got != h0 {
			r.Failf("UxOut.CoinHours:before-creation", h0, "t<created: got %d,%v want %d", got, err, h0)
		}
	}
	if r.Thorough() {
		c31Narrow(r, &evals, nontriv, outcomes)
	}
	if outcomes.Len() < 8 {
		r.Broken("vacuous: outcome classes %v", outcomes.Map())
	}
	r.Assumptions = append(r.Assumptions,
		"64-bit statement decided only on the boundary lattice (sizes in coverage.alphabet); values between lattice points are not covered",
		"CoinHours intermediates = whole-coin seconds, droplet seconds, their combined coin-seconds, final sum (the quantities the implementation forms); the closed formula floor(coins*seconds/3.6e9) is cross-checked to be equal on every case")
	r.Finish(engine.Coverage{
		"evaluations":         evals,
		"distinct_nontrivial": nontriv.Len(),
		"rule":                "full Cartesian products over the boundary lattices; non-trivial = distinct argument tuples on which the exact result overflows/underflows, the fee division has a remainder, or coin hours are actually earned",
		"samples":             []interface{}{pair{1 << 63, 2}, []uint64{(1<<20)*1e6 + 999999, 1<<44 - 1, 0, 0}, []uint64{math.MaxUint64, 1, 10}},
		"exhaustive":          true,
		"outcome_histogram":   outcomes.Map(),
		"alphabet":            map[string]int{"L64": len(L), "L32": len(L32), "coins": len(coinsL), "seconds": len(secsL), "hours": len(hoursL), "t0": len(t0L), "near_2^64_pairs": len(near), "burn_factors": len(burns)},
	})
}
