package main

import "verif/engine"

// c31Narrow is filled in by the generated reduced-width layer (see checks/pure/pregen.sh); the default is a no-op.
var c31Narrow = func(r *engine.Run, evals *int64, nontriv *engine.Set, outcomes *engine.Counter) {}
