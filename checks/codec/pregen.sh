#!/bin/bash
# checks/codec/pregen.sh <builddir> — run by ./run and setup.sh after ovgen.
# Generates the C21 codec registry (export files + main-package registry) from the current /repo tree
# and adds it to <builddir>/overlay.json.  Any failure is loud (CHECK-BROKEN, exit 2).
B=$1
[ -n "$B" ] && [ -f "$B/overlay.json" ] || { echo "CHECK-BROKEN: codec pregen: no $B/overlay.json" >&2; exit 2; }
ROOT=$(cd "$(dirname "$0")/../.." && pwd)
cd "$ROOT" || exit 2
export GOFLAGS=-mod=mod GOPROXY=off GOSUMDB=off GOTOOLCHAIN=local GOCACHE=$ROOT/.cache
go build -o "$B/codecgen" ./checks/codec/gen || { echo "CHECK-BROKEN: codec pregen: generator does not build" >&2; exit 2; }
"$B/codecgen" "$B" >/dev/null || exit 2
