// Command gen (group "codec", property C21) builds the codec registry from the CURRENT /repo tree.
//
//	gen <builddir>
//
// It scans every *_skyencoder.go below /repo/src (honouring files already replaced in
// <builddir>/overlay.json, e.g. by a mutant) for
//
//	func encodeSize<X>(obj *<T>) uint64
//
// checks that the four companion functions encode<X>, encode<X>ToBuffer, decode<X>, decode<X>Exact exist
// with the expected shapes, and writes
//
//	<builddir>/_gen/codec_export__<pkgdir>.go   added to the repo package as zz_verif_codec_export.go (//go:build verif)
//	<builddir>/_gen/codec_registry_main.go      added to /verif/checks/codec as zz_codec_registry_gen.go
//
// and ADDS both to <builddir>/overlay.json (existing entries are kept).  Anything unexpected (a skyencoder
// file without an encodeSize function, a missing companion, an unresolvable type qualifier, no codecs at
// all, an anchored directory without codecs) is a loud failure: "CHECK-BROKEN: ..." and exit 2.
package main

import (
	"bytes"
	"encoding/json"
	"fmt"
	"go/ast"
	"go/format"
	"go/parser"
	"go/token"
	"os"
	"path/filepath"
	"sort"
	"strconv"
	"strings"
)

// repo is /repo; VERIF_CODECGEN_REPO overrides it for the generator's own tests only
var repo = func() string {
	if r := os.Getenv("VERIF_CODECGEN_REPO"); r != "" {
		return r
	}
	return "/repo"
}()

var verifRoot = func() string {
	if r := os.Getenv("VERIF_ROOT"); r != "" {
		return r
	}
	return "/verif"
}()

// directories named by the property's anchors: each must still contain at least one codec
var anchoredDirs = []string{"src/coin", "src/daemon", "src/visor", "src/visor/blockdb", "src/visor/historydb"}

func die(format string, a ...interface{}) {
	fmt.Fprintf(os.Stderr, "CHECK-BROKEN: codec registry generator: "+format+"\n", a...)
	os.Exit(2)
}

type codec struct {
	X        string // function name suffix
	TypeExpr string // type expression as written in the skyencoder file, e.g. "coin.UxOut"
	File     string // repo relative file
}

type pkg struct {
	Dir     string // repo relative dir
	Name    string // package clause
	Codecs  []codec
	Imports map[string]string // import path -> local name needed by the export file
}

func exprString(e ast.Expr) string {
	var b bytes.Buffer
	format.Node(&b, token.NewFileSet(), e)
	return b.String()
}

func isIdent(e ast.Expr, name string) bool {
	id, ok := e.(*ast.Ident)
	return ok && id.Name == name
}

func isByteSlice(e ast.Expr) bool {
	at, ok := e.(*ast.ArrayType)
	return ok && at.Len == nil && isIdent(at.Elt, "byte")
}

// params flattens a field list into one type expression per parameter
func params(fl *ast.FieldList) []ast.Expr {
	var out []ast.Expr
	if fl == nil {
		return nil
	}
	for _, f := range fl.List {
		n := len(f.Names)
		if n == 0 {
			n = 1
		}
		for i := 0; i < n; i++ {
			out = append(out, f.Type)
		}
	}
	return out
}

func main() {
	if len(os.Args) != 2 {
		die("usage: gen <builddir>")
	}
	build := os.Args[1]
	ovPath := filepath.Join(build, "overlay.json")
	var ov struct {
		Replace map[string]string
	}
	if b, err := os.ReadFile(ovPath); err != nil {
		die("read %s: %v (ovgen must run first)", ovPath, err)
	} else if err := json.Unmarshal(b, &ov); err != nil {
		die("parse %s: %v", ovPath, err)
	}
	if ov.Replace == nil {
		ov.Replace = map[string]string{}
	}
	modPath := ""
	if b, err := os.ReadFile(filepath.Join(repo, "go.mod")); err != nil {
		die("%v", err)
	} else {
		for _, l := range strings.Split(string(b), "\n") {
			if strings.HasPrefix(l, "module ") {
				modPath = strings.TrimSpace(strings.TrimPrefix(l, "module "))
			}
		}
	}
	if modPath == "" {
		die("no module path in /repo/go.mod")
	}

	var files []string
	err := filepath.Walk(filepath.Join(repo, "src"), func(p string, info os.FileInfo, err error) error {
		if err != nil {
			return err
		}
		if info.IsDir() {
			if info.Name() == "vendor" || info.Name() == "testdata" || strings.HasPrefix(info.Name(), "_") || strings.HasPrefix(info.Name(), ".") {
				return filepath.SkipDir
			}
			return nil
		}
		if strings.HasSuffix(p, "_skyencoder.go") {
			files = append(files, p)
		} else if strings.HasSuffix(p, ".go") && !strings.HasSuffix(p, "_test.go") {
			// a generated codec that moved to a differently named file must not drop out of the registry unnoticed
			if b, err := os.ReadFile(p); err == nil && bytes.Contains(b, []byte("\nfunc encodeSize")) {
				die("%s declares a func encodeSize... outside a *_skyencoder.go file (renamed codec file?)", p)
			}
		}
		return nil
	})
	if err != nil {
		die("walk: %v", err)
	}
	sort.Strings(files)

	pkgs := map[string]*pkg{}
	for _, p := range files {
		srcPath := p
		if r, ok := ov.Replace[p]; ok {
			if r == "" {
				die("%s is deleted by the overlay", p)
			}
			srcPath = r
		}
		src, err := os.ReadFile(srcPath)
		if err != nil {
			die("%v", err)
		}
		fset := token.NewFileSet()
		f, err := parser.ParseFile(fset, p, src, 0)
		if err != nil {
			die("parse %s: %v", p, err)
		}
		rel, _ := filepath.Rel(repo, p)
		dir := filepath.Dir(rel)
		pk := pkgs[dir]
		if pk == nil {
			pk = &pkg{Dir: dir, Name: f.Name.Name, Imports: map[string]string{}}
			pkgs[dir] = pk
		}
		if pk.Name != f.Name.Name {
			die("%s: package clause %s differs from %s in the same directory", rel, f.Name.Name, pk.Name)
		}
		funcs := map[string]*ast.FuncDecl{}
		for _, d := range f.Decls {
			if fd, ok := d.(*ast.FuncDecl); ok && fd.Recv == nil {
				funcs[fd.Name.Name] = fd
			}
		}
		found := 0
		names := make([]string, 0, len(funcs))
		for n := range funcs {
			names = append(names, n)
		}
		sort.Strings(names)
		for _, n := range names {
			if !strings.HasPrefix(n, "encodeSize") {
				continue
			}
			fd := funcs[n]
			X := strings.TrimPrefix(n, "encodeSize")
			ps, rs := params(fd.Type.Params), params(fd.Type.Results)
			if X == "" || len(ps) != 1 || len(rs) != 1 || !isIdent(rs[0], "uint64") {
				die("%s: %s does not have the shape func encodeSize<X>(obj *T) uint64", rel, n)
			}
			st, ok := ps[0].(*ast.StarExpr)
			if !ok {
				die("%s: %s: parameter is not a pointer", rel, n)
			}
			texpr := exprString(st.X)
			switch t := st.X.(type) {
			case *ast.Ident:
			case *ast.SelectorExpr:
				q, ok := t.X.(*ast.Ident)
				if !ok {
					die("%s: %s: unsupported type expression %s", rel, n, texpr)
				}
				ipath := ""
				for _, is := range f.Imports {
					path, _ := strconv.Unquote(is.Path.Value)
					local := filepath.Base(path)
					if is.Name != nil {
						local = is.Name.Name
					}
					if local == q.Name {
						ipath = path
					}
				}
				if ipath == "" {
					die("%s: %s: cannot resolve package qualifier %q", rel, n, q.Name)
				}
				if old, ok := pk.Imports[ipath]; ok && old != q.Name {
					die("%s: import %s used under two names (%s, %s)", rel, ipath, old, q.Name)
				}
				pk.Imports[ipath] = q.Name
			default:
				die("%s: %s: unsupported type expression %s", rel, n, texpr)
			}
			// companions
			want := func(name string, check func(ps, rs []ast.Expr) bool, shape string) {
				c, ok := funcs[name]
				if !ok {
					die("%s: companion function %s of %s is missing (codec generator changed?)", rel, name, n)
				}
				if !check(params(c.Type.Params), params(c.Type.Results)) {
					die("%s: %s does not have the shape %s", rel, name, shape)
				}
			}
			isPtrT := func(e ast.Expr) bool {
				s, ok := e.(*ast.StarExpr)
				return ok && exprString(s.X) == texpr
			}
			want("encode"+X, func(ps, rs []ast.Expr) bool {
				return len(ps) == 1 && isPtrT(ps[0]) && len(rs) == 2 && isByteSlice(rs[0]) && isIdent(rs[1], "error")
			}, "func(obj *T) ([]byte, error)")
			want("encode"+X+"ToBuffer", func(ps, rs []ast.Expr) bool {
				return len(ps) == 2 && isByteSlice(ps[0]) && isPtrT(ps[1]) && len(rs) == 1 && isIdent(rs[0], "error")
			}, "func(buf []byte, obj *T) error")
			want("decode"+X, func(ps, rs []ast.Expr) bool {
				return len(ps) == 2 && isByteSlice(ps[0]) && isPtrT(ps[1]) && len(rs) == 2 && isIdent(rs[0], "uint64") && isIdent(rs[1], "error")
			}, "func(buf []byte, obj *T) (uint64, error)")
			want("decode"+X+"Exact", func(ps, rs []ast.Expr) bool {
				return len(ps) == 2 && isByteSlice(ps[0]) && isPtrT(ps[1]) && len(rs) == 1 && isIdent(rs[0], "error")
			}, "func(buf []byte, obj *T) error")
			pk.Codecs = append(pk.Codecs, codec{X: X, TypeExpr: texpr, File: rel})
			found++
		}
		if found == 0 {
			die("%s: generated codec file without a func encodeSize<X>(obj *T) uint64 declaration — the codec would be skipped", rel)
		}
	}
	if len(pkgs) == 0 {
		die("no *_skyencoder.go files below %s/src", repo)
	}
	for _, d := range anchoredDirs {
		if pkgs[d] == nil {
			die("anchored directory %s no longer contains a generated codec", d)
		}
	}

	gen := filepath.Join(build, "_gen")
	if err := os.MkdirAll(gen, 0o755); err != nil {
		die("%v", err)
	}
	dirs := make([]string, 0, len(pkgs))
	for d := range pkgs {
		dirs = append(dirs, d)
	}
	sort.Strings(dirs)

	const entryType = `struct {
	Name           string
	File           string
	New            func() interface{}
	Size           func(obj interface{}) uint64
	Encode         func(obj interface{}) ([]byte, error)
	EncodeToBuffer func(buf []byte, obj interface{}) error
	Decode         func(buf []byte, obj interface{}) (uint64, error)
	DecodeExact    func(buf []byte, obj interface{}) error
}`

	total := 0
	var reg bytes.Buffer
	reg.WriteString("//go:build verif\n\n// Code generated by /verif/checks/codec/gen from the current /repo tree. DO NOT EDIT.\n\npackage main\n\nimport (\n")
	for i, d := range dirs {
		fmt.Fprintf(&reg, "\tp%d %q\n", i, modPath+"/"+filepath.ToSlash(d))
	}
	reg.WriteString(")\n\nfunc init() {\n")
	for i, d := range dirs {
		pk := pkgs[d]
		if pk.Name == "main" {
			die("%s: codecs in a main package cannot be imported", d)
		}
		sort.Slice(pk.Codecs, func(a, b int) bool { return pk.Codecs[a].X < pk.Codecs[b].X })
		var b bytes.Buffer
		fmt.Fprintf(&b, "//go:build verif\n\n// Code generated by /verif/checks/codec/gen from the current /repo tree. DO NOT EDIT.\n\npackage %s\n\n", pk.Name)
		if len(pk.Imports) > 0 {
			b.WriteString("import (\n")
			ips := make([]string, 0, len(pk.Imports))
			for ip := range pk.Imports {
				ips = append(ips, ip)
			}
			sort.Strings(ips)
			for _, ip := range ips {
				fmt.Fprintf(&b, "\t%s %q\n", pk.Imports[ip], ip)
			}
			b.WriteString(")\n\n")
		}
		fmt.Fprintf(&b, "// VerifCodecs lists every generated codec of this package (scanned from the encodeSize<X> declarations).\nvar VerifCodecs = []%s{\n", entryType)
		for _, c := range pk.Codecs {
			fmt.Fprintf(&b, "\t{\n\t\tName: %q,\n\t\tFile: %q,\n", pk.Name+"."+c.X+"("+c.TypeExpr+")", c.File)
			fmt.Fprintf(&b, "\t\tNew: func() interface{} { return new(%s) },\n", c.TypeExpr)
			fmt.Fprintf(&b, "\t\tSize: func(obj interface{}) uint64 { return encodeSize%s(obj.(*%s)) },\n", c.X, c.TypeExpr)
			fmt.Fprintf(&b, "\t\tEncode: func(obj interface{}) ([]byte, error) { return encode%s(obj.(*%s)) },\n", c.X, c.TypeExpr)
			fmt.Fprintf(&b, "\t\tEncodeToBuffer: func(buf []byte, obj interface{}) error { return encode%sToBuffer(buf, obj.(*%s)) },\n", c.X, c.TypeExpr)
			fmt.Fprintf(&b, "\t\tDecode: func(buf []byte, obj interface{}) (uint64, error) { return decode%s(buf, obj.(*%s)) },\n", c.X, c.TypeExpr)
			fmt.Fprintf(&b, "\t\tDecodeExact: func(buf []byte, obj interface{}) error { return decode%sExact(buf, obj.(*%s)) },\n", c.X, c.TypeExpr)
			b.WriteString("\t},\n")
			total++
		}
		b.WriteString("}\n")
		out, err := format.Source(b.Bytes())
		if err != nil {
			die("format export file for %s: %v", d, err)
		}
		dst := filepath.Join(gen, "codec_export__"+strings.ReplaceAll(d, "/", "__")+".go")
		if err := os.WriteFile(dst, out, 0o644); err != nil {
			die("%v", err)
		}
		target := filepath.Join(repo, d, "zz_verif_codec_export.go")
		if _, err := os.Stat(target); err == nil {
			die("%s exists in the repository", target)
		}
		ov.Replace[target] = dst
		fmt.Fprintf(&reg, "\taddCodecs(%q, p%d.VerifCodecs)\n", d, i)
	}
	reg.WriteString("}\n")
	out, err := format.Source(reg.Bytes())
	if err != nil {
		die("format registry: %v", err)
	}
	dst := filepath.Join(gen, "codec_registry_main.go")
	if err := os.WriteFile(dst, out, 0o644); err != nil {
		die("%v", err)
	}
	ov.Replace[filepath.Join(verifRoot, "checks", "codec", "zz_codec_registry_gen.go")] = dst

	ob, _ := json.MarshalIndent(map[string]interface{}{"Replace": ov.Replace}, "", " ")
	if err := os.WriteFile(ovPath, ob, 0o644); err != nil {
		die("%v", err)
	}
	fmt.Printf("codecgen: %d codecs in %d packages\n", total, len(dirs))
}
