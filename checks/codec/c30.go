package main

import (
	"bufio"
	"encoding/json"
	"fmt"
	"math"
	"math/big"
	"os"
	"sort"
	"strings"
	"sync"
	"sync/atomic"
	"time"

	"github.com/skycoin/skycoin/src/util/droplet"
	wh "github.com/skycoin/skycoin/src/util/http"

	"verif/engine"
	md "verif/model/droplet"
)

// C30 — coin amount text conversion (droplet.FromString / droplet.ToString) is exact.
//
// Alphabet: (A) amounts 0..10^4 (thorough 0..10^6), 10^k and 10^k±1 (k<=19), 2^k and 2^k±1 (k<=64), the six-digit carries,
// 2^63-1, 2^63, 2^64-1 ...; (B) every string of length <= 5 (thorough 6) over {0 1 9 . - + e ' '}; (C) boundary
// digit strings (around 2^63, 2^64, 10^19, 10^6) with the point at every position 0..8 from the right x leading zeros x
// trailing zeros x exponent suffixes; (D) huge exponents, each in its own worker subprocess (ulimit -v, deadline).
// Oracle (model/droplet, big.Int): ToString(n) is the six-decimal text of n and parses back to n for n <= 2^63-1, and
// above that it fails or is still exact; for plain syntax [0-9]+(\.[0-9]*)? FromString accepts <=> value*10^6 is an integer
// in [0, 2^63-1], and the result is that integer; any other accepted text must be a well-formed decimal literal whose
// value*10^6 is exactly the non-negative result; a rejection returns 0; no panic; every call returns.
func init() {
	register("C30", "exploration", c30)
	workers["c30-fromstring"] = c30Worker
}

type c30Case struct {
	Op     string `json:"op"`
	Input  string `json:"input"`
	Source string `json:"source"`
}

func c30Class(s string) string {
	switch {
	case strings.ContainsAny(s, "eE"):
		return "exponent-syntax"
	case strings.HasPrefix(s, "+") || strings.HasPrefix(s, "-"):
		return "signed"
	case strings.HasPrefix(s, "."):
		return "leading-point"
	}
	return "plain"
}

func errKind(err error) string {
	switch err {
	case nil:
		return "accepted"
	case droplet.ErrNegativeValue:
		return "negative"
	case droplet.ErrTooManyDecimals:
		return "too-many-decimals"
	case droplet.ErrTooLarge:
		return "too-large"
	}
	return "syntax-error"
}

// checkFromString judges one FromString observation against the model. It returns the outcome class.
func checkFromString(r *engine.Run, s, source string, n uint64, err error, panicked bool, pmsg string) string {
	cs := c30Case{Op: "FromString", Input: s, Source: source}
	if panicked {
		r.Failf("FromString:panic", cs, "FromString(%q) panics: %s", s, pmsg)
		return "panic"
	}
	num, wellFormed := md.Parse(s)
	kind := errKind(err)
	if err != nil && n != 0 {
		r.Failf("FromString:nonzero-result-with-error", cs, "FromString(%q) = %d together with error %v", s, n, err)
	}
	if wellFormed && num.Plain {
		want, ok := num.Representable()
		switch {
		case ok && err != nil:
			r.Failf("FromString:rejects-representable-amount:"+kind, cs, "FromString(%q) fails with %q but the amount is exactly %d droplets", s, err, want)
		case ok && n != want:
			r.Failf("FromString:inexact-result", cs, "FromString(%q) = %d, exact value is %d droplets", s, n, want)
		case !ok && err == nil:
			d, class := num.Droplets()
			r.Failf("FromString:accepts-unrepresentable-amount:"+class, cs, "FromString(%q) = %d but value*10^6 is %v (%s): not an integer in [0, 2^63-1]", s, n, d, class)
		}
		if err == nil {
			return "plain:accepted"
		}
		return "plain:rejected:" + kind
	}
	// other syntax: only soundness of what is accepted
	if err == nil {
		if !wellFormed {
			r.Failf("FromString:accepts-malformed-text", cs, "FromString(%q) = %d but the text is not a decimal literal ([+-]digits[.digits][e[+-]digits])", s, n)
			return "other:accepted-malformed"
		}
		want, ok := num.Representable()
		if !ok || want != n {
			d, class := num.Droplets()
			r.Failf("FromString:unsound-result:"+c30Class(s), cs, "FromString(%q) = %d but value*10^6 is %v (%s)", s, n, d, class)
		}
		return "other:accepted:" + c30Class(s)
	}
	if wellFormed {
		// a refusal of another spelling is not judged, except where its stated reason is false of the amount: "too large"
		// for an amount that is an exact droplet count within the signed 64-bit range
		if want, ok := num.Representable(); ok && err == droplet.ErrTooLarge {
			r.Failf("FromString:calls-representable-amount-too-large:"+c30Class(s), cs, "FromString(%q) fails with %q but the amount is exactly %d droplets (<= 2^63-1)", s, err, want)
		}
		return "other:rejected-wellformed:" + kind
	}
	return "other:rejected-malformed"
}

func c30Amounts(thorough bool) []uint64 {
	set := map[uint64]bool{}
	lim := uint64(10000)
	if thorough {
		lim = 1000000
	}
	for i := uint64(0); i <= lim; i++ {
		set[i] = true
	}
	p := uint64(1)
	for k := 0; k <= 19; k++ {
		set[p], set[p-1], set[p+1] = true, true, true
		if k < 19 {
			p *= 10
		}
	}
	for k := uint(0); k < 64; k++ {
		v := uint64(1) << k
		set[v], set[v-1], set[v+1] = true, true, true
	}
	for _, v := range []uint64{999999, 1000000, 1000001, 1999999, 2000000, 9999999, 10000001, 123000456, 100100, 1001000,
		math.MaxInt64 - 1, math.MaxInt64, math.MaxInt64 + 1, math.MaxInt64 + 2, math.MaxUint64 - 1, math.MaxUint64,
		9223372036854000000, 9223372036854775806, 9223372036855000000, 9999999999999999999, 10000000000000000000, 18446744073709000000} {
		set[v] = true
	}
	out := make([]uint64, 0, len(set))
	for v := range set {
		out = append(out, v)
	}
	sort.Slice(out, func(i, j int) bool { return out[i] < out[j] })
	return out
}

func c30Structured() []string {
	two := func(k uint) *big.Int { return new(big.Int).Lsh(big.NewInt(1), k) }
	ten := func(k int64) *big.Int { return new(big.Int).Exp(big.NewInt(10), big.NewInt(k), nil) }
	add := func(a *big.Int, d int64) *big.Int { return new(big.Int).Add(a, big.NewInt(d)) }
	var bases []*big.Int
	for _, b := range []*big.Int{big.NewInt(0), big.NewInt(1), big.NewInt(9), big.NewInt(10), big.NewInt(999999), big.NewInt(1000000), big.NewInt(1000001),
		add(two(63), -2), add(two(63), -1), two(63), add(two(63), 1), add(ten(19), -1), ten(19), add(ten(19), 1),
		add(two(64), -1), two(64), add(two(64), 1), ten(18), ten(20), ten(25), big.NewInt(9223372036854), big.NewInt(9223372036855),
		add(two(63), 9), new(big.Int).Mul(two(63), big.NewInt(10)), add(new(big.Int).Mul(two(63), big.NewInt(10)), -10)} {
		bases = append(bases, b)
	}
	exps := []string{"", "e0", "e1", "e6", "e-6", "e-7", "e11", "e12", "E+12", "e13", "e14", "e18", "e400", "E2", "e+2", "e-0", "e-400", "e19", "e20", "e-19"}
	set := map[string]bool{}
	for _, b := range bases {
		ds := b.String()
		for k := 0; k <= 8; k++ {
			d := ds
			for len(d) <= k {
				d = "0" + d
			}
			ip, fp := d[:len(d)-k], d[len(d)-k:]
			for _, lead := range []string{"", "0", "000"} {
				for _, trail := range []string{"", "0", "00", "0000000"} {
					var mant []string
					if fp == "" && trail == "" {
						mant = []string{lead + ip, lead + ip + "."}
					} else {
						mant = []string{lead + ip + "." + fp + trail}
					}
					for _, m := range mant {
						for _, e := range exps {
							set[m+e] = true
						}
					}
				}
			}
		}
	}
	for _, s := range []string{"9223372036854.775807", "9223372036854.775808", "9223372036854.7758070", "9223372036854.7758071", "9223372036855", "9223372036854.775806999",
		"18446744073709.551615", "18446744073709.551616", "0.0000001", "0.0000010", "1.0000000", "1.0000001", ".5", "5.", "+1", "-0", "-0.0", "+.5", "-.5", ".", "+", "-", "e", "1e", "1e+", ".e1", "0x10", "1_000", "1,000", "１", "NaN", "Inf", "infinity", "1e1e1", "1..1", "1.1.1", ".+1", ".-1", "1.+1", "1.-1", "+-1", "--1", " 1", "1 ", "1\n", "\t1", "100SKY", ""} {
		set[s] = true
	}
	out := make([]string, 0, len(set))
	for s := range set {
		out = append(out, s)
	}
	sort.Strings(out)
	return out
}

// dangerous inputs: each runs alone in a worker subprocess. class names the shape for the signature.
type c30Danger struct {
	S     string
	Class string
}

func c30Dangerous(thorough bool) []c30Danger {
	d := []c30Danger{
		{"1e1000000", "exponent-1e6"},
		{"1e2147483641", "huge-positive-exponent"},
		{"0e2147483641", "huge-positive-exponent"},
		{"1e2147483647", "huge-positive-exponent"},
		{"1e2147483648", "exponent-beyond-int32"},
		{"1e-2147483648", "huge-negative-exponent"},
		{"0.000001e2147483647", "huge-positive-exponent"},
		{"1e1000000000", "huge-positive-exponent"},
	}
	if thorough {
		d = append(d,
			c30Danger{"1e10000000", "exponent-1e7"},
			c30Danger{"9223372036854775807e2147483640", "huge-positive-exponent"},
			c30Danger{"-1e2147483641", "huge-positive-exponent"},
			c30Danger{"1e-2147483649", "exponent-beyond-int32"},
			c30Danger{"1E2147483641", "huge-positive-exponent"},
			c30Danger{"1e+2147483641", "huge-positive-exponent"},
			c30Danger{"1e99999999999999999999", "exponent-beyond-int32"},
			c30Danger{"0.1e2147483647", "huge-positive-exponent"},
		)
	}
	return d
}

type c30WorkerOut struct {
	S     string `json:"s"`
	N     uint64 `json:"n"`
	Err   string `json:"err"`
	Kind  string `json:"kind"`
	Panic string `json:"panic,omitempty"`
}

// worker body: one input per line on stdin, one JSON line per completed call on stdout.
func c30Worker(args []string) {
	sc := bufio.NewScanner(os.Stdin)
	sc.Buffer(make([]byte, 1<<20), 1<<20)
	w := bufio.NewWriter(os.Stdout)
	for sc.Scan() {
		var s string
		if err := json.Unmarshal(sc.Bytes(), &s); err != nil {
			os.Exit(4)
		}
		var o c30WorkerOut
		o.S = s
		var err error
		if pan, msg := engine.Catch(func() { o.N, err = droplet.FromString(s) }); pan {
			o.Panic = msg
			if o.Panic == "" {
				o.Panic = "panic"
			}
		}
		if err != nil {
			o.Err = err.Error()
		}
		o.Kind = errKind(err)
		b, _ := json.Marshal(o)
		w.Write(b)
		w.WriteByte('\n')
		w.Flush()
	}
}

func c30(r *engine.Run) {
	r.RaceWorkload = "text" // supplement: free-running race-detector pass over the same API (can only add findings)
	outcomes := engine.NewCounter()
	nontrivial := engine.NewSet()
	var evals int64

	// (D) dangerous inputs first, in the background: one worker each, at most 16 at a time
	dangerous := c30Dangerous(r.Thorough())
	deadline := time.Duration(r.Pick(60, 300)) * time.Second
	var wg sync.WaitGroup
	sem := make(chan struct{}, 16)
	dres := make([]string, len(dangerous))
	for i, d := range dangerous {
		wg.Add(1)
		go func(i int, d c30Danger) {
			defer wg.Done()
			sem <- struct{}{}
			defer func() { <-sem }()
			in, _ := json.Marshal(d.S)
			t0 := time.Now()
			wr := engine.RunWorker(append(in, '\n'), 2<<20, deadline, "c30-fromstring")
			el := time.Since(t0)
			atomic.AddInt64(&evals, 1)
			cs := c30Case{Op: "FromString", Input: d.S, Source: "dangerous (worker subprocess, ulimit -v 2 GiB)"}
			var o c30WorkerOut
			returned := false
			for _, line := range strings.Split(string(wr.Stdout), "\n") { // the code under test may log to stdout
				var c c30WorkerOut
				if strings.HasPrefix(line, "{") && json.Unmarshal([]byte(line), &c) == nil && c.S == d.S && c.Kind != "" {
					o, returned = c, true
				}
			}
			if returned {
				// the call returned
				var err error
				switch o.Kind {
				case "accepted":
				case "negative":
					err = droplet.ErrNegativeValue
				case "too-many-decimals":
					err = droplet.ErrTooManyDecimals
				case "too-large":
					err = droplet.ErrTooLarge
				default:
					err = fmt.Errorf("%s", o.Err)
				}
				cl := checkFromString(r, d.S, cs.Source, o.N, err, o.Panic != "", o.Panic)
				dres[i] = "returned:" + cl
				outcomes.Add("dangerous:returned")
				nontrivial.Add("D:" + d.S)
				return
			}
			how := fmt.Sprintf("worker exited with code %d after %.1fs, stderr: %s", wr.ExitCode, el.Seconds(), firstLine(wr.Stderr))
			if wr.TimedOut {
				how = fmt.Sprintf("no result within the %v deadline", deadline)
			} else if !wr.Died {
				how = "worker ended without a result: " + firstLine(wr.Stderr)
			}
			outcomes.Add("dangerous:no-return")
			nontrivial.Add("D:" + d.S)
			dres[i] = "no-return"
			r.Failf("FromString:does-not-return:"+d.Class, cs, "FromString(%q) does not return (process limited to 2 GiB of address space): %s", d.S, how)
		}(i, d)
	}

	// (A) amounts
	amounts := c30Amounts(r.Thorough())
	engine.ParFor(len(amounts), func(i int) {
		n := amounts[i]
		atomic.AddInt64(&evals, 1)
		cs := c30Case{Op: "ToString", Input: fmt.Sprint(n), Source: "amount alphabet"}
		var s string
		var err error
		if pan, msg := engine.Catch(func() { s, err = droplet.ToString(n) }); pan {
			r.Failf("ToString:panic", cs, "ToString(%d) panics: %s", n, msg)
			return
		}
		want := md.Format(n)
		if n > math.MaxInt64 {
			if err == nil {
				outcomes.Add("ToString:above-2^63-1:text")
				if s != want {
					r.Failf("ToString:inexact-text-above-int64", cs, "ToString(%d) = %q, exact text is %q", n, s, want)
				}
			} else {
				outcomes.Add("ToString:above-2^63-1:error")
				if s != "" {
					r.Failf("ToString:text-with-error", cs, "ToString(%d) = %q together with error %v", n, s, err)
				}
			}
			nontrivial.Add(fmt.Sprintf("A:%d", n))
			return
		}
		if err != nil {
			r.Failf("ToString:rejects-representable-amount", cs, "ToString(%d) fails: %v", n, err)
			return
		}
		outcomes.Add("ToString:ok")
		if s != want {
			r.Failf("ToString:inexact-text", cs, "ToString(%d) = %q, exact six-decimal text is %q", n, s, want)
		}
		var back uint64
		if pan, msg := engine.Catch(func() { back, err = droplet.FromString(s) }); pan {
			r.Failf("FromString:panic", cs, "FromString(ToString(%d) = %q) panics: %s", n, s, msg)
		} else if err != nil || back != n {
			r.Failf("ToString-FromString:round-trip", cs, "FromString(ToString(%d) = %q) = %d, %v", n, s, back, err)
		}
		if n%1000000 != 0 || n >= 1<<62 {
			nontrivial.Add(fmt.Sprintf("A:%d", n))
		}
	})

	// (B) all short strings + (C) structured boundary strings
	alpha := []byte{'0', '1', '9', '.', '-', '+', 'e', ' '}
	maxLen := r.Pick(5, 6)
	var apiEvals int64
	run := func(s, source string) {
		atomic.AddInt64(&evals, 1)
		var n uint64
		var err error
		pan, msg := engine.Catch(func() { n, err = droplet.FromString(s) })
		cl := checkFromString(r, s, source, n, err, pan, msg)
		outcomes.Add(cl)
		// the same text as the API's amount parameter (wh.Coins, the type of to[].coins in the transaction requests): it must
		// mean what FromString says it means
		if !pan {
			var c wh.Coins
			var aerr error
			jb, _ := json.Marshal(s)
			if apan, amsg := engine.Catch(func() { aerr = c.UnmarshalJSON(jb) }); apan {
				r.Failf("wh.Coins.UnmarshalJSON:panic", c30Case{Op: "wh.Coins.UnmarshalJSON", Input: s, Source: source}, "wh.Coins.UnmarshalJSON(%s) panics: %s", jb, amsg)
			} else if (aerr == nil) != (err == nil) || (err == nil && uint64(c) != n) {
				r.Failf("wh.Coins.UnmarshalJSON:differs-from-FromString:"+c30Class(s), c30Case{Op: "wh.Coins.UnmarshalJSON", Input: s, Source: source},
					"the API amount parameter %s decodes to %d droplets, error %v; droplet.FromString(%q) = %d, error %v", jb, uint64(c), aerr, s, n, err)
			}
			atomic.AddInt64(&apiEvals, 1)
		}
		if cl != "other:rejected-malformed" {
			nontrivial.Add("S:" + s)
		}
	}
	// shard by the first two characters
	var shards [][]byte
	shards = append(shards, []byte{})
	for _, a := range alpha {
		shards = append(shards, []byte{a})
	}
	var pre2 [][]byte
	for _, a := range alpha {
		for _, b := range alpha {
			pre2 = append(pre2, []byte{a, b})
		}
	}
	shortCount := int64(0)
	engine.ParFor(len(shards)+len(pre2), func(i int) {
		if i < len(shards) {
			run(string(shards[i]), "short string")
			atomic.AddInt64(&shortCount, 1)
			return
		}
		p := pre2[i-len(shards)]
		var rec func(cur []byte)
		rec = func(cur []byte) {
			run(string(cur), "short string")
			atomic.AddInt64(&shortCount, 1)
			if len(cur) == maxLen {
				return
			}
			for _, a := range alpha {
				rec(append(cur, a))
			}
		}
		rec(append([]byte{}, p...))
	})
	structured := c30Structured()
	engine.ParFor(len(structured), func(i int) { run(structured[i], "structured boundary string") })

	wg.Wait()

	// vacuity guards
	wantShort := int64(0)
	pw := int64(1)
	for l := 0; l <= maxLen; l++ {
		wantShort += pw
		pw *= int64(len(alpha))
	}
	if shortCount != wantShort {
		r.Broken("short strings: %d evaluated, %d expected", shortCount, wantShort)
	}
	for _, k := range []string{"plain:accepted", "plain:rejected:too-large", "plain:rejected:too-many-decimals", "other:rejected-malformed", "other:rejected-wellformed:negative", "ToString:ok"} {
		if outcomes.Get(k) == 0 {
			r.Broken("vacuous: outcome class %q never seen: %v", k, outcomes.Map())
		}
	}
	if outcomes.Get("ToString:above-2^63-1:error")+outcomes.Get("ToString:above-2^63-1:text") == 0 {
		r.Broken("vacuous: no amount above 2^63-1 evaluated")
	}
	if outcomes.Get("dangerous:returned")+outcomes.Get("dangerous:no-return") != len(dangerous) {
		r.Broken("dangerous inputs: %d results for %d inputs", outcomes.Get("dangerous:returned")+outcomes.Get("dangerous:no-return"), len(dangerous))
	}
	if outcomes.Get("dangerous:returned") == 0 {
		r.Broken("no worker returned a result (worker plumbing broken?): %v", dres)
	}
	dmap := map[string]string{}
	for i, d := range dangerous {
		dmap[d.S] = dres[i]
	}
	r.Assumptions = append(r.Assumptions,
		"amounts and strings outside the alphabet are not explored (the alphabet is built from the boundaries 10^k, 2^k, 2^63, 2^64, six decimals)",
		"for syntax other than [0-9]+(\\.[0-9]*)? only soundness of accepted inputs is demanded (exact, non-negative, a well-formed decimal literal); rejecting such inputs is allowed",
		"ToString above 2^63-1 may fail or return the exact text",
		fmt.Sprintf("'every call returns': dangerous inputs run in a worker with 2 GiB address space and a %v deadline; a death or a missed deadline is reported as does-not-return", deadline))
	r.Finish(engine.Coverage{
		"evaluations":                      evals,
		"api_amount_parameter_evaluations": apiEvals,
		"distinct_nontrivial":              nontrivial.Len(),
		"rule":                             "distinct inputs that are not trivially rejected as malformed text: amounts with a fractional part or >= 2^62, strings that are well-formed decimal literals or accepted, structured boundary strings, dangerous exponents",
		"samples":                          []interface{}{c30Case{"FromString", "9223372036854.775807", "structured boundary string"}, c30Case{"FromString", "1e-6", "short string"}, c30Case{"ToString", "9223372036854775807", "amount alphabet"}},
		"exhaustive":                       true,
		"outcome_histogram":                outcomes.Map(),
		"alphabet": map[string]interface{}{
			"amounts": len(amounts), "short_strings": shortCount, "short_string_max_len": maxLen, "short_string_chars": "01 9.-+e<space>",
			"structured_strings": len(structured), "dangerous_inputs": len(dangerous),
		},
		"dangerous_results": dmap,
	})
}

func firstLine(b []byte) string {
	s := strings.TrimSpace(string(b))
	if i := strings.IndexByte(s, '\n'); i >= 0 {
		s = s[:i]
	}
	if len(s) > 200 {
		s = s[:200]
	}
	return s
}
