package main

import (
	"bytes"
	"encoding/binary"
	"encoding/hex"
	"errors"
	"fmt"
	"io"
	"runtime"
	"sort"
	"strings"
	"sync"
	"sync/atomic"

	"github.com/skycoin/skycoin/src/cipher"
	"github.com/skycoin/skycoin/src/coin"
	"github.com/skycoin/skycoin/src/daemon"
	"github.com/skycoin/skycoin/src/daemon/gnet"

	"verif/engine"
	wf "verif/model/wireframing"
)

// C22 — the wire protocol frames and parses any byte stream correctly.
//
// Real code driven: gnet ConnectionPool.readLoop (bufio reader, readData, decodeData, msgChan) on a scripted
// net.Conn for EVERY chunking of every stream, then ConnectionPool.receiveMessage (convertToMessage,
// deserializeMessage, the generated decoders, Message.Handle) on the delivered frames with a recording daemoner.
// Oracle: model/wireframing.Frame (independent of chunking).
func init() { register("C22", "exploration", c22) }

type c22Stream struct {
	Section string
	Name    string
	Max     int
	Bytes   []byte
	Marks   []int // frame boundaries (guide the chunkings of very long streams)
}

type c22Case struct {
	Section string `json:"section"`
	Name    string `json:"name"`
	Max     int    `json:"max_incoming_len"`
	Stream  string `json:"stream_hex"`
	Len     int    `json:"stream_len"`
	Cuts    []int  `json:"chunk_ends"`
}

// rig is one worker's instance of the real objects.
type rig struct {
	pool *gnet.ConnectionPool
	rec  *daemon.VerifRecorder
	sc   *scriptConn
	conn *gnet.Connection
}

func newRig() *rig {
	rec := &daemon.VerifRecorder{Cfg: daemon.NewDaemonConfig()}
	rec.Cfg.LogPings = false
	cfg := gnet.NewConfig()
	cfg.ReadTimeout = 0
	pool, err := gnet.NewConnectionPool(cfg, rec)
	if err != nil {
		panic(err)
	}
	go pool.RunOffline() //nolint: strand processor, needed by receiveMessage->updateLastRecv
	sc := newScriptConn([4]byte{10, 1, 2, 3}, 6000)
	return &rig{pool: pool, rec: rec, sc: sc, conn: gnet.NewConnection(pool, 1, sc, 4, false)}
}

func (g *rig) close() { g.pool.Shutdown() }

type rigPool chan *rig

func newRigPool(n int) rigPool {
	p := make(rigPool, n)
	for i := 0; i < n; i++ {
		p <- newRig()
	}
	return p
}
func (p rigPool) closeAll() {
	for {
		select {
		case g := <-p:
			g.close()
		default:
			return
		}
	}
}

// stage 1: the real readLoop over one chunking.
func (g *rig) readLoop(s *c22Stream, cuts []int, capN int) (frames [][]byte, class string, panicMsg string) {
	g.pool.Config.MaxIncomingMessageLength = s.Max
	g.sc.reset(s.Bytes, cuts)
	g.conn.Buffer = &bytes.Buffer{} // a fresh buffer per execution: capacity grown by an earlier stream must not leak into this one (it decides when the buffer recycles its storage)
	var err error
	if p, msg := engine.Catch(func() { frames, err = gnet.VerifReadLoop(g.pool, g.conn, capN) }); p {
		return nil, "panic", msg
	}
	return frames, classifyReadErr(err), ""
}

func classifyReadErr(err error) string {
	var re *gnet.ReadError
	switch {
	case err == nil:
		return "returned-nil"
	case errors.As(err, &re) && re.Err == io.EOF:
		return "eof"
	case err == gnet.ErrDisconnectInvalidMessageLength:
		return wf.InvalidLength
	case strings.Contains(err.Error(), "msgChan is closed or full"):
		return "queue-full"
	}
	return "other:" + err.Error()
}

type handled struct {
	ID    string
	Canon []byte
}

// stage 2: the real receiveMessage over the delivered frames, as handleConnection's receive goroutine does
// (stops at the first error).
func (g *rig) receive(frames [][]byte) (hs []handled, class string, panicMsg string) {
	g.rec.Handled = g.rec.Handled[:0]
	g.rec.Other = g.rec.Other[:0]
	class = wf.None
	for _, f := range frames {
		var err error
		nEv, nCfg := len(g.rec.Handled), g.rec.CfgCalls
		if p, msg := engine.Catch(func() { err = gnet.VerifReceiveMessage(g.pool, g.conn, f) }); p {
			return nil, "panic", msg
		}
		g.rec.VerifNoteHandled(nEv, nCfg)
		if len(g.rec.Handled) > nEv+1 {
			return nil, "handle-recorded-more-than-one-event", ""
		}
		if err != nil {
			switch err {
			case gnet.ErrDisconnectUnknownMessage:
				class = wf.UnknownID
			case gnet.ErrDisconnectMalformedMessage:
				class = wf.Malformed
			case gnet.ErrDisconnectMessageDecodeUnderflow:
				class = wf.Trailing
			case gnet.ErrDisconnectTruncatedMessageID:
				class = "truncated-id"
			default:
				class = "other:" + err.Error()
			}
			break
		}
	}
	for _, h := range g.rec.Handled {
		var m gnet.Message = h.Msg
		if h.Pong {
			m = &daemon.PongMessage{}
		}
		if m == nil {
			hs = append(hs, handled{ID: "?nil"})
			continue
		}
		b, err := gnet.EncodeMessage(m)
		if err != nil || len(b) < 8 {
			hs = append(hs, handled{ID: "?encode"})
			continue
		}
		hs = append(hs, handled{ID: string(b[4:8]), Canon: b})
	}
	if len(g.rec.Other) != 0 {
		class = "handle-called:" + strings.Join(g.rec.Other, ",")
	}
	return hs, class, ""
}

func framesKey(fs [][]byte) string {
	var b strings.Builder
	for _, f := range fs {
		fmt.Fprintf(&b, "%d:", len(f))
		b.Write(f)
	}
	return b.String()
}

func isSubsequence(sub, full [][]byte) bool {
	i := 0
	for _, f := range full {
		if i < len(sub) && bytes.Equal(sub[i], f) {
			i++
		}
	}
	return i == len(sub)
}

// dropHypothesis predicts the delivered frames under the hypothesis "decodeData discards the frames it has already
// extracted in this call when it then meets an incomplete frame (>= 5 bytes buffered) or a bad length prefix".  It is used ONLY to give
// a frame-loss violation a precise signature; it never makes a case pass.
func dropHypothesis(stream []byte, max int, reads []int) [][]byte {
	var out [][]byte
	start := 0 // start of the undecoded part of the buffer
	for _, end := range reads {
		var batch [][]byte
		for end-start > 4 {
			n := int(binary.LittleEndian.Uint32(stream[start:]))
			if n < 4 || n > max {
				return out
			}
			if end-start-4 < n {
				batch = nil
				break
			}
			batch = append(batch, stream[start+4:start+4+n])
			start += 4 + n
		}
		out = append(out, batch...)
	}
	return out
}

func wrapFrames(fs [][]byte) []byte {
	var out []byte
	for _, f := range fs {
		var p [4]byte
		binary.LittleEndian.PutUint32(p[:], uint32(len(f)))
		out = append(append(out, p[:]...), f...)
	}
	return out
}

// ---- alphabet --------------------------------------------------------------------------------------------

type alphaMsg struct {
	Name  string
	Frame []byte
}

func c22Alphabet() []alphaMsg {
	enc := func(name string, m gnet.Message) alphaMsg {
		b, err := gnet.EncodeMessage(m)
		if err != nil {
			panic(err)
		}
		return alphaMsg{name, b}
	}
	h := func(b byte) cipher.SHA256 { var x cipher.SHA256; x[0], x[31] = b, b; return x }
	blk := coin.SignedBlock{}
	blk.Block.Head.BkSeq = 3
	blk.Sig[0] = 7
	txn := coin.Transaction{Type: 0, Out: []coin.TransactionOutput{{Coins: 1e6, Hours: 5}}}
	txn.Length = 86
	a := []alphaMsg{
		enc("INTR/noextra", &daemon.IntroductionMessage{Mirror: 0x01020304, ListenPort: 6000, ProtocolVersion: 2}),
		enc("INTR/extra3", &daemon.IntroductionMessage{Mirror: 0x01020304, ListenPort: 6000, ProtocolVersion: 2, Extra: []byte{1, 2, 3}}),
		enc("GETP", daemon.NewGetPeersMessage()),
		enc("GIVP/0", &daemon.GivePeersMessage{}),
		enc("GIVP/2", &daemon.GivePeersMessage{Peers: []daemon.IPAddr{{IP: 0x0a000001, Port: 6000}, {IP: 0x0a000002, Port: 6001}}}),
		enc("PING", &daemon.PingMessage{}),
		enc("PONG", &daemon.PongMessage{}),
		enc("GETB", daemon.NewGetBlocksMessage(5, 20)),
		enc("GIVB/0", &daemon.GiveBlocksMessage{}),
		enc("GIVB/1", &daemon.GiveBlocksMessage{Blocks: []coin.SignedBlock{blk}}),
		enc("ANNB", daemon.NewAnnounceBlocksMessage(7)),
		enc("GETT/0", &daemon.GetTxnsMessage{}),
		enc("GETT/1", &daemon.GetTxnsMessage{Transactions: []cipher.SHA256{h(1)}}),
		enc("GIVT/0", &daemon.GiveTxnsMessage{}),
		enc("GIVT/1", &daemon.GiveTxnsMessage{Transactions: []coin.Transaction{txn}}),
		enc("ANNT/2", &daemon.AnnounceTxnsMessage{Transactions: []cipher.SHA256{h(2), h(3)}}),
		enc("DISC/7", &daemon.DisconnectMessage{ReasonCode: 7}),
		enc("DISC/reserved2", &daemon.DisconnectMessage{ReasonCode: 13, Reserved: []byte{9, 9}}),
	}
	// legal but non-canonical: INTR whose omitempty Extra is written with an explicit zero count
	intr := append([]byte{}, a[0].Frame...)
	intr = append(intr, 0, 0, 0, 0)
	binary.LittleEndian.PutUint32(intr, uint32(len(intr)-4))
	a = append(a, alphaMsg{"INTR/extra-explicit-0", intr})
	return a
}

func rawFrame(prefix uint32, rest ...[]byte) []byte {
	var p [4]byte
	binary.LittleEndian.PutUint32(p[:], prefix)
	out := append([]byte{}, p[:]...)
	for _, r := range rest {
		out = append(out, r...)
	}
	return out
}

func c22Streams(r *engine.Run, alpha []alphaMsg) []c22Stream {
	const mib = 1 << 20
	var out []c22Stream
	seen := map[string]bool{}
	add := func(section, name string, max int, marks []int, parts ...[]byte) {
		var b []byte
		for _, p := range parts {
			b = append(b, p...)
		}
		k := fmt.Sprintf("%d/%s", max, b)
		if seen[k] {
			return
		}
		seen[k] = true
		out = append(out, c22Stream{Section: section, Name: name, Max: max, Bytes: b, Marks: marks})
	}
	// A. message sequences
	depth := r.Pick(2, 3)
	add("A:sequences", "empty", mib, nil)
	var rec func(prefix []int)
	rec = func(prefix []int) {
		if len(prefix) > 0 {
			var parts [][]byte
			var names []string
			for _, i := range prefix {
				parts = append(parts, alpha[i].Frame)
				names = append(names, alpha[i].Name)
			}
			add("A:sequences", strings.Join(names, " "), mib, nil, parts...)
		}
		if len(prefix) == depth {
			return
		}
		for i := range alpha {
			rec(append(append([]int{}, prefix...), i))
		}
	}
	rec(nil)
	ping := alpha[5].Frame
	// B. invalid / boundary length prefixes
	for _, max := range []int{8, 64, mib} {
		for _, p := range []uint32{0, 1, 2, 3, 4, 5, 8, uint32(max) - 1, uint32(max), uint32(max) + 1, 1<<31 - 1, 1 << 31, 1<<32 - 1} {
			nm := fmt.Sprintf("max=%d prefix=%d", max, p)
			add("B:length-prefix", nm+" alone", max, nil, rawFrame(p))
			add("B:length-prefix", nm+" +1byte", max, nil, rawFrame(p, []byte{0}))
			add("B:length-prefix", "PING "+nm+" alone", max, nil, ping, rawFrame(p))
			add("B:length-prefix", "PING "+nm+" +1byte", max, nil, ping, rawFrame(p, []byte{0x50}))
			add("B:length-prefix", "PING PING "+nm+" +5bytes", max, nil, ping, ping, rawFrame(p, []byte("PING?")))
			if p >= 4 && int64(p) <= int64(max)+1 {
				// a complete frame of exactly p bytes: id PING + zeros (valid iff p == 4 and p <= max)
				body := make([]byte, p)
				copy(body, "PING")
				marks := []int{4 + int(p), 12 + int(p)}
				add("B:length-prefix", nm+" full PING-frame", max, marks, rawFrame(p, body))
				add("B:length-prefix", "PING "+nm+" full PING-frame PING", max, marks, ping, rawFrame(p, body), ping)
				// and one with a GIVP whose count says the body is all peers
				if p >= 8 && (p-8)%6 == 0 {
					b2 := make([]byte, p)
					copy(b2, "GIVP")
					binary.LittleEndian.PutUint32(b2[4:], (p-8)/6)
					add("B:length-prefix", nm+" full GIVP-frame PING", max, marks, rawFrame(p, b2), ping)
				}
			}
		}
	}
	// C. unknown ids
	for _, id := range []string{"XXXX", "PINg", "ping", "\x00\x00\x00\x00", "PIN\x00", "PING\x00"[1:], "INTS", "GIVX", "disc", "\xff\xff\xff\xff", "GETP"[:3] + " "} {
		for _, body := range [][]byte{nil, {0, 0}} {
			f := rawFrame(uint32(4+len(body)), []byte(id), body)
			nm := fmt.Sprintf("id=%q body=%d", id, len(body))
			add("C:unknown-id", nm, mib, nil, f)
			add("C:unknown-id", "PING "+nm, mib, nil, ping, f)
			add("C:unknown-id", nm+" PING", mib, nil, f, ping)
			add("C:unknown-id", "GETB "+nm+" GETP", mib, nil, alpha[7].Frame, f, alpha[2].Frame)
		}
	}
	// D. body truncated / extended by one byte (length prefix consistent with the altered body), and the
	//    unaltered frame with one byte missing / one stray byte in the stream
	for _, m := range alpha {
		f := m.Frame
		if len(f) > 8 {
			short := rawFrame(uint32(len(f)-5), f[4:len(f)-1])
			add("D:body±1", m.Name+" body-1", mib, nil, short)
			add("D:body±1", "PING "+m.Name+" body-1 PING", mib, nil, ping, short, ping)
		}
		long := rawFrame(uint32(len(f)-3), f[4:], []byte{0})
		add("D:body±1", m.Name+" body+1", mib, nil, long)
		add("D:body±1", "PING "+m.Name+" body+1 PING", mib, nil, ping, long, ping)
		add("D:body±1", m.Name+" stream-1", mib, nil, f[:len(f)-1])
		add("D:body±1", "PING "+m.Name+" stream-1", mib, nil, ping, f[:len(f)-1])
		add("D:body±1", m.Name+" stream+1", mib, nil, f, []byte{0})
		add("D:body±1", m.Name+" stream+5", mib, nil, f, []byte{8, 0, 0, 0, 'P'})
	}
	// D2. element counts at / above the per-message limits
	for _, c := range []struct {
		id    string
		elem  int
		limit uint32
	}{{"GIVP", 6, 512}, {"GETT", 32, 256}, {"ANNT", 32, 256}} {
		for _, n := range []uint32{c.limit, c.limit + 1} {
			body := make([]byte, 4+int(n)*c.elem)
			binary.LittleEndian.PutUint32(body, n)
			f := rawFrame(uint32(4+len(body)), []byte(c.id), body)
			add("D2:count-limit", fmt.Sprintf("%s count=%d", c.id, n), mib, []int{len(f)}, f, ping)
		}
	}
	for _, n := range []uint32{1 << 31, 1<<32 - 1, 0x10000} {
		body := make([]byte, 8)
		binary.LittleEndian.PutUint32(body, n)
		for _, id := range []string{"GIVP", "GIVB", "GIVT", "GETT", "ANNT"} {
			add("D2:count-limit", fmt.Sprintf("%s count=%d body=8", id, n), mib, nil, rawFrame(12, []byte(id), body))
		}
		add("D2:count-limit", fmt.Sprintf("DISC reserved-len=%d", n), mib, nil, rawFrame(12, []byte("DISC"), body[2:], []byte{0, 0}))
		add("D2:count-limit", fmt.Sprintf("INTR extra-len=%d", n), mib, nil, rawFrame(18, []byte("INTR"), make([]byte, 10), body[:4]))
	}
	return out
}

// rawStreams enumerates section E: every byte string of length 0..maxLen over the symbol set, and every
// 4..extra-symbol string behind a fixed 4-byte length prefix (so that complete frames with arbitrary ids occur).
func c22RawCount(syms int, maxLen int) int {
	n, p := 0, 1
	for l := 0; l <= maxLen; l++ {
		n += p
		p *= syms
	}
	return n
}

func c22(r *engine.Run) {
	gnet.VerifQuiet()
	daemon.VerifRegisterMessages()
	alpha := c22Alphabet()
	streams := c22Streams(r, alpha)

	workers := runtime.NumCPU()
	rigs := newRigPool(workers)
	defer rigs.closeAll()

	var evals, nontrivial, stage2runs, lateLen, dropOnErr int64
	outcomes := engine.NewCounter()
	sections := engine.NewCounter()
	deliveredTypes := engine.NewCounter()
	var samples atomicSamples

	// check one stream against the model over all its chunkings
	checkStream := func(g *rig, s *c22Stream, section string) {
		exp := wf.Frame(s.Bytes, s.Max)
		capN := len(exp.Frames) + 2
		mkCase := func(cuts []int) c22Case {
			return c22Case{section, s.Name, s.Max, hexCap(s.Bytes), len(s.Bytes), capCuts(cuts)}
		}
		stage2 := map[string]bool{}
		var localEvals, localNontrivial int64
		n := forEachChunking(len(s.Bytes), s.Marks, func(cuts []int) {
			localEvals++
			if len(cuts) >= 2 || exp.Reason != wf.None {
				localNontrivial++
			}
			frames, class, pmsg := g.readLoop(s, cuts, capN)
			repro := func() func() bool {
				cc := append([]int{}, cuts...)
				return func() bool {
					g2 := newRig()
					defer g2.close()
					f2, c2, _ := g2.readLoop(s, cc, capN)
					return c2 == class && framesKey(f2) == framesKey(frames)
				}
			}
			switch {
			case class == "panic":
				r.Fail(engine.Failure{Sig: "readLoop:panic", Case: mkCase(cuts), Detail: fmt.Sprintf("%s [%s] chunks %v: readLoop panicked: %s", s.Name, section, capCuts(cuts), pmsg), Repro: repro()})
				return
			case class == "queue-full":
				r.Broken("harness: msgChan full for %s (cap %d)", s.Name, capN)
				return
			}
			// ---- stage 1 oracle
			if exp.FramingReason == wf.None {
				if class != "eof" {
					r.Fail(engine.Failure{Sig: "readLoop:disconnect-without-framing-error:" + class, Case: mkCase(cuts),
						Detail: fmt.Sprintf("%s [%s] chunks %v: no bad length prefix in the stream, but readLoop ended with %q (want read EOF)", s.Name, section, capCuts(cuts), class), Repro: repro()})
				}
				if framesKey(frames) != framesKey(exp.Frames) {
					sig := "readLoop:frames-mismatch:well-framed-stream"
					hyp := dropHypothesis(s.Bytes, s.Max, effectiveReads(cuts))
					if len(frames) < len(exp.Frames) && isSubsequence(frames, exp.Frames) {
						sig = "readLoop:complete-frame-not-delivered:well-framed-stream"
						if framesKey(hyp) == framesKey(frames) {
							sig = "decodeData:frames-extracted-before-an-incomplete-frame-in-the-same-read-are-dropped"
						}
					}
					r.Fail(engine.Failure{Sig: sig, Case: mkCase(cuts),
						Detail: fmt.Sprintf("%s [%s] stream of %d bytes read in chunks ending at %v: %d complete frames on the wire, readLoop delivered %d (%s) — want %s", s.Name, section, len(s.Bytes), capCuts(cuts), len(exp.Frames), len(frames), frameIDs(frames), frameIDs(exp.Frames)), Repro: repro()})
				}
			} else {
				want := wf.InvalidLength
				if class != want {
					if class == "eof" && exp.BadPrefixAtEnd {
						atomic.AddInt64(&lateLen, 1) // see assumptions: the prefix is only looked at once a 5th byte is buffered
					} else {
						r.Fail(engine.Failure{Sig: "readLoop:bad-length-prefix-not-refused:" + class, Case: mkCase(cuts),
							Detail: fmt.Sprintf("%s [%s] chunks %v: stream has a length prefix <4 or >%d after %d frames, readLoop ended with %q", s.Name, section, capCuts(cuts), s.Max, len(exp.Frames), class), Repro: repro()})
					}
				}
				if !isSubsequence(frames, exp.Frames) {
					r.Fail(engine.Failure{Sig: "readLoop:invented-or-reordered-frames:stream-with-bad-prefix", Case: mkCase(cuts),
						Detail: fmt.Sprintf("%s [%s] chunks %v: delivered %s, frames on the wire %s", s.Name, section, capCuts(cuts), frameIDs(frames), frameIDs(exp.Frames)), Repro: repro()})
				} else if len(frames) < len(exp.Frames) {
					atomic.AddInt64(&dropOnErr, 1)
				}
			}
			outcomes.Add("readLoop:" + class)
			// ---- stage 2 (once per distinct delivered frame list of this stream)
			k := framesKey(frames)
			if stage2[k] {
				return
			}
			stage2[k] = true
			atomic.AddInt64(&stage2runs, 1)
			exp2 := exp
			if k != framesKey(exp.Frames) {
				exp2 = wf.Frame(wrapFrames(frames), 1<<31-1)
			}
			hs, class2, pmsg2 := g.receive(frames)
			if class2 == "panic" {
				r.Fail(engine.Failure{Sig: "receiveMessage:panic", Case: mkCase(cuts), Detail: fmt.Sprintf("%s [%s]: receiveMessage panicked: %s", s.Name, section, pmsg2)})
				return
			}
			want2 := exp2.Reason
			if want2 == wf.InvalidLength {
				want2 = wf.None
			}
			if class2 != want2 {
				sig := fmt.Sprintf("receiveMessage:wrong-verdict:want=%s:got=%s", orNone(want2), orNone(class2))
				r.Fail(engine.Failure{Sig: sig, Case: mkCase(cuts),
					Detail: fmt.Sprintf("%s [%s]: frames %s: receiveMessage verdict %q, reference parser says %q", s.Name, section, frameIDs(frames), orNone(class2), orNone(want2))})
			}
			outcomes.Add("receive:" + orNone(class2))
			if len(hs) != len(exp2.Delivered) {
				r.Fail(engine.Failure{Sig: "receiveMessage:handled-count", Case: mkCase(cuts),
					Detail: fmt.Sprintf("%s [%s]: frames %s: %d messages handled, reference %d", s.Name, section, frameIDs(frames), len(hs), len(exp2.Delivered))})
				return
			}
			for i, h := range hs {
				e := exp2.Delivered[i]
				if h.ID != e.ID || !bytes.Equal(h.Canon, e.Canon) {
					r.Fail(engine.Failure{Sig: "receiveMessage:handled-message-differs", Case: mkCase(cuts),
						Detail: fmt.Sprintf("%s [%s]: message %d handled as %s %x, reference %s %x", s.Name, section, i, h.ID, h.Canon, e.ID, e.Canon)})
					return
				}
				deliveredTypes.Add(h.ID)
			}
		})
		atomic.AddInt64(&evals, localEvals)
		atomic.AddInt64(&nontrivial, localNontrivial)
		sections.AddN(section+" streams", 1)
		sections.AddN(section+" chunkings", n)
		switch {
		case exp.Reason != wf.None:
			outcomes.AddN("model:"+exp.Reason, 1)
		case exp.Tail > 0:
			outcomes.AddN("model:incomplete-tail", 1)
		default:
			outcomes.AddN("model:clean", 1)
		}
		samples.maybe(section, mkCase([]int{len(s.Bytes)}))
	}

	// sections A-D
	engine.ParFor(len(streams), func(i int) {
		g := <-rigs
		defer func() { rigs <- g }()
		checkStream(g, &streams[i], streams[i].Section)
	})

	// section E: raw byte streams
	syms := []byte{0x00, 0x01, 0x04, 0x05, 0xff, 'P', 'I', 'N', 'G'}
	rawLen := r.Pick(5, 6)
	gen := func(idx, l int) []byte {
		b := make([]byte, l)
		for i := l - 1; i >= 0; i-- {
			b[i] = syms[idx%len(syms)]
			idx /= len(syms)
		}
		return b
	}
	type job struct {
		l, from, to int
		prefix      []byte
		section     string
	}
	var jobs []job
	pow := func(l int) int {
		p := 1
		for i := 0; i < l; i++ {
			p *= len(syms)
		}
		return p
	}
	addJobs := func(l int, prefix []byte, section string) {
		total := pow(l)
		step := 2048
		for from := 0; from < total; from += step {
			to := from + step
			if to > total {
				to = total
			}
			jobs = append(jobs, job{l, from, to, prefix, section})
		}
	}
	for l := 1; l <= rawLen; l++ {
		addJobs(l, nil, "E:raw≤"+fmt.Sprint(rawLen))
	}
	addJobs(4, []byte{4, 0, 0, 0}, "E2:len4+4symbols")
	if r.Thorough() {
		addJobs(5, []byte{5, 0, 0, 0}, "E2:len5+5symbols")
	}
	engine.ParFor(len(jobs), func(i int) {
		g := <-rigs
		defer func() { rigs <- g }()
		j := jobs[i]
		for idx := j.from; idx < j.to; idx++ {
			b := append(append([]byte{}, j.prefix...), gen(idx, j.l)...)
			s := c22Stream{Section: j.section, Name: "raw " + hex.EncodeToString(b), Max: 64, Bytes: b}
			checkStream(g, &s, j.section)
		}
	})

	// ---- vacuity guards
	for _, k := range []string{"readLoop:eof", "readLoop:" + wf.InvalidLength, "receive:none", "receive:" + wf.UnknownID, "receive:" + wf.Malformed, "receive:" + wf.Trailing,
		"model:clean", "model:incomplete-tail", "model:" + wf.InvalidLength, "model:" + wf.UnknownID, "model:" + wf.Malformed, "model:" + wf.Trailing} {
		if outcomes.Get(k) == 0 {
			r.Broken("vacuous: outcome class %q never seen (%v)", k, outcomes.Map())
		}
	}
	for _, id := range daemon.VerifMessageIDs() {
		if deliveredTypes.Get(id) == 0 {
			r.Broken("vacuous: no %s message was ever delivered", id)
		}
	}
	r.Assumptions = append(r.Assumptions,
		"the scripted net.Conn returns each chunk in one Read (never more than the caller's buffer) and io.EOF after the last chunk; read deadlines are no-ops",
		"the message channel handed to readLoop has capacity = number of frames in the stream + 2 (premise: bursts fit the receive queue)",
		"stage 2 (receiveMessage on the delivered frames, recording daemoner as message state) is executed once per distinct delivered frame list of a stream, not once per chunking: it is a function of the frame list only",
		"streams with a protocol defect: the oracle demands the disconnect class of the FIRST defect for the frames that reach receiveMessage and a refusal by readLoop for a bad length prefix; frames read together with a bad prefix may be discarded (counted in frames_dropped_with_bad_prefix), which the statement allows",
		fmt.Sprintf("a bad length prefix that is the LAST 4 bytes of the stream is only noticed once a 5th byte is buffered; the stream then ends with read-EOF (a disconnect as well): %d chunkings", lateLen),
		fmt.Sprintf("streams longer than %d bytes (1 MiB frames) use the restricted chunking family documented in conn.go", longFrom),
	)
	hist := outcomes.Map()
	for k, v := range deliveredTypes.Map() {
		hist["delivered:"+k] = v
	}
	nodePart := c22NodePath(r, outcomes)
	r.Finish(engine.Coverage{
		"node_configuration_path":        nodePart,
		"evaluations":                    evals,
		"distinct_nontrivial":            nontrivial,
		"rule":                           "one evaluation = one real readLoop run over one (stream, chunking) pair; streams are de-duplicated and chunkings of a stream are distinct by construction; non-trivial = the chunking has >= 2 reads or the stream contains a protocol defect",
		"samples":                        samples.list(),
		"exhaustive":                     true,
		"outcome_histogram":              hist,
		"sections":                       sections.Map(),
		"receive_stage_runs":             stage2runs,
		"frames_dropped_with_bad_prefix": dropOnErr,
		"bad_prefix_at_end_seen_as_eof":  lateLen,
		"alphabet": map[string]interface{}{
			"messages": len(alpha), "sequence_depth": r.Pick(2, 3), "structured_streams": len(streams),
			"raw_symbols": len(syms), "raw_max_len": rawLen, "raw_streams": c22RawCount(len(syms), rawLen) - 1,
			"message_names": alphaNames(alpha),
		},
	})
}

func alphaNames(a []alphaMsg) []string {
	var out []string
	for _, m := range a {
		out = append(out, fmt.Sprintf("%s(%dB)", m.Name, len(m.Frame)))
	}
	return out
}

func orNone(s string) string {
	if s == "" {
		return "none"
	}
	return s
}

func hexCap(b []byte) string {
	if len(b) > 600 {
		return hex.EncodeToString(b[:600]) + fmt.Sprintf("…(+%d bytes)", len(b)-600)
	}
	return hex.EncodeToString(b)
}

func capCuts(c []int) []int {
	if len(c) > 40 {
		return append(append([]int{}, c[:20]...), c[len(c)-20:]...)
	}
	return append([]int{}, c...)
}

func frameIDs(fs [][]byte) string {
	var out []string
	for _, f := range fs {
		id := f
		if len(id) > 4 {
			id = id[:4]
		}
		out = append(out, fmt.Sprintf("%q/%d", id, len(f)))
	}
	return "[" + strings.Join(out, " ") + "]"
}

// atomicSamples keeps one sample case per section.
type atomicSamples struct {
	mu sync.Mutex
	m  map[string]c22Case
}

func (a *atomicSamples) maybe(section string, c c22Case) {
	a.mu.Lock()
	defer a.mu.Unlock()
	if a.m == nil {
		a.m = map[string]c22Case{}
	}
	if _, ok := a.m[section]; !ok || (len(c.Stream) > len(a.m[section].Stream) && len(c.Stream) < 200) {
		a.m[section] = c
	}
}
func (a *atomicSamples) list() []interface{} {
	a.mu.Lock()
	defer a.mu.Unlock()
	var ks []string
	for k := range a.m {
		ks = append(ks, k)
	}
	sort.Strings(ks)
	var out []interface{}
	for _, k := range ks {
		out = append(out, a.m[k])
	}
	return out
}
