package main

import (
	"encoding/binary"
	"encoding/hex"
	"fmt"
	"hash/fnv"
	"runtime/pprof"
	"sort"
	"strings"
	"sync/atomic"

	"github.com/skycoin/skycoin/src/cipher"
	"github.com/skycoin/skycoin/src/daemon"
	"github.com/skycoin/skycoin/src/daemon/gnet"

	"verif/engine"
	wi "verif/model/wireintro"
)

// C25 — only correctly introduced peers reach the protocol.
//
//	(a) IntroductionMessage.Verify against the reference parser model/wireintro over the full product of
//	    mirror × version × Extra(pubkey part × burn × size × precision × user agent × genesis hash), plus every
//	    truncation and every single-byte substitution of valid Extras;
//	(b) the pre-introduction gate: a real Daemon (daemon.New, real Connections, real pex, real visor on a scratch
//	    bolt db, real gnet pool running offline) fed every sequence of <= 3 messages on a fresh connection (c25gate.go).
func init() { register("C25", "exploration", c25) }

type c25Case struct {
	Mirror  string `json:"mirror"`
	Version int32  `json:"protocol_version"`
	Extra   string `json:"extra_hex"`
	Desc    string `json:"extra_built_from"`
}

var c25ReasonClass = map[error]string{
	daemon.ErrDisconnectSelf:                        wi.Self,
	daemon.ErrDisconnectVersionNotSupported:         wi.Version,
	daemon.ErrDisconnectBlockchainPubkeyNotProvided: wi.NoPubkey,
	daemon.ErrDisconnectInvalidExtraData:            wi.ExtraData,
	daemon.ErrDisconnectBlockchainPubkeyNotMatched:  wi.PubkeyMismatch,
	daemon.ErrDisconnectInvalidBurnFactor:           wi.BurnFactor,
	daemon.ErrDisconnectInvalidMaxTransactionSize:   wi.MaxTxnSize,
	daemon.ErrDisconnectInvalidMaxDropletPrecision:  wi.DropletPrec,
	daemon.ErrDisconnectInvalidUserAgent:            wi.UserAgent,
}

const (
	c25OwnMirror   = uint32(0x11223344)
	c25OtherMirror = uint32(0x55667788)
	c25MinVersion  = int32(2)
)

func c25Pubkey() cipher.PubKey {
	pk, _ := cipher.MustGenerateDeterministicKeyPair([]byte("verif C25 blockchain key"))
	return pk
}

type namedBytes struct {
	Name string
	B    []byte
}

func le32(v uint32) []byte { b := make([]byte, 4); binary.LittleEndian.PutUint32(b, v); return b }

func uaField(lenPrefix uint32, s string) []byte { return append(le32(lenPrefix), s...) }

func c25UserAgents() []namedBytes {
	valid := "skycoin:0.25.0"
	long256 := strings.Repeat("a", 256-len(":0.25.0")) + ":0.25.0"
	long257 := "a" + long256
	str := func(name, s string) namedBytes { return namedBytes{name, uaField(uint32(len(s)), s)} }
	return []namedBytes{
		str("valid", valid),
		str("valid+remark", "skycoin:0.25.1-rc1+b7(linux; amd64)"),
		str("empty", ""),
		str("256chars", long256),
		str("257chars", long257),
		str("illegal-chars-stripped-to-valid", "sky<coin>:0.25.0"),
		str("illegal-chars-stripped-to-invalid", "skycoin:0.25.0<script>"),
		str("non-printable-bytes", "sky\x00coin:0.\xff25.0\n"),
		str("no-version", "skycoin"),
		str("two-part-version", "skycoin:0.25"),
		str("leading-zero-version", "skycoin:0.025.0"),
		str("bad-remark", "skycoin:0.25.0(a(b))"),
		{"len-prefix-0", uaField(0, valid)},
		{"len-prefix-len-1", uaField(uint32(len(valid)-1), valid)},
		{"len-prefix-len+1", uaField(uint32(len(valid)+1), valid)},
		{"len-prefix-2^32-1", uaField(1<<32-1, valid)},
		{"len-prefix-truncated-to-3-bytes", []byte{14, 0, 0}},
	}
}

func c25(r *engine.Run) {
	gnet.VerifQuiet()
	daemon.VerifRegisterMessages()
	pk := c25Pubkey()
	dc := daemon.DaemonConfig{Mirror: c25OwnMirror, MinProtocolVersion: c25MinVersion, ProtocolVersion: c25MinVersion, BlockchainPubkey: pk}
	ref := wi.Config{Mirror: c25OwnMirror, MinVersion: c25MinVersion}
	copy(ref.Pubkey[:], pk[:])

	var evals int64
	nontrivial := &hashBag{}
	outcomes := engine.NewCounter()
	defectSets := engine.NewSet()

	// one evaluation of the real Verify against the reference
	check := func(loc map[string]int, nt *[]uint64, mirror uint32, version int32, extra []byte, descf func() string) {
		desc := ""
		atomic.AddInt64(&evals, 1)
		mname := "other"
		if mirror == c25OwnMirror {
			mname = "own"
		}
		cs := func() c25Case { desc = descf(); return c25Case{mname, version, hex.EncodeToString(extra), desc} }
		in := &daemon.IntroductionMessage{Mirror: mirror, ListenPort: 6000, ProtocolVersion: version, Extra: append([]byte{}, extra...)}
		var err error
		if p, msg := engine.Catch(func() { err = in.Verify(dc, nil) }); p {
			r.Failf("IntroductionMessage.Verify:panic", cs(), "mirror=%s version=%d extra=%s (%s): Verify panicked: %s", mname, version, hex.EncodeToString(extra), desc, msg)
			loc["panic"]++
			return
		}
		defects, want := wi.Verify(ref, wi.Intro{Mirror: mirror, Version: version, Extra: extra})
		if len(defects) > 0 {
			h := fnv.New64a()
			h.Write([]byte{byte(mirror), byte(mirror >> 8), byte(mirror >> 16), byte(mirror >> 24), byte(version), byte(version >> 8)}) //nolint
			h.Write(extra)                                                                                                              //nolint
			*nt = append(*nt, h.Sum64())
			if len(defects) > 1 {
				defectSets.Add(strings.Join(defects, "+"))
			}
		}
		if err == nil {
			loc["accepted"]++
			if len(defects) > 0 {
				r.Failf("IntroductionMessage.Verify:accepts-invalid-introduction:"+defects[0], cs(), "mirror=%s version=%d extra=%s (%s): Verify accepted, reference finds %v", mname, version, hex.EncodeToString(extra), desc, defects)
				return
			}
			got := wi.Parsed{Burn: in.UnconfirmedVerifyTxn.BurnFactor, MaxSize: in.UnconfirmedVerifyTxn.MaxTransactionSize, Precision: in.UnconfirmedVerifyTxn.MaxDropletPrecision,
				Coin: in.UserAgent.Coin, UAVersion: in.UserAgent.Version, Remark: in.UserAgent.Remark, Genesis: in.GenesisHash}
			if got != want {
				r.Failf("IntroductionMessage.Verify:parsed-fields-differ", cs(), "extra=%s (%s): parsed %+v, reference %+v", hex.EncodeToString(extra), desc, got, want)
			}
			return
		}
		class, known := c25ReasonClass[err]
		if !known {
			class = "other:" + err.Error()
		}
		loc["refused:"+class]++
		if len(defects) == 0 {
			r.Failf("IntroductionMessage.Verify:refuses-valid-introduction:"+class, cs(), "mirror=%s version=%d extra=%s (%s): Verify says %q, reference finds no defect", mname, version, hex.EncodeToString(extra), desc, err)
			return
		}
		for _, d := range defects {
			if d == class {
				return
			}
		}
		r.Failf("IntroductionMessage.Verify:reason-not-among-the-defects:"+class, cs(), "mirror=%s version=%d extra=%s (%s): Verify says %q, but the introduction's defects are %v", mname, version, hex.EncodeToString(extra), desc, err, defects)
	}

	// ---- alphabet of the product
	var pubkeys []namedBytes
	pubkeys = append(pubkeys, namedBytes{"right", pk[:]})
	w1, w2 := append([]byte{}, pk[:]...), append([]byte{}, pk[:]...)
	w1[0] ^= 1
	w2[32] ^= 0x80
	other, _ := cipher.MustGenerateDeterministicKeyPair([]byte("another chain"))
	pubkeys = append(pubkeys, namedBytes{"wrong-first-byte", w1}, namedBytes{"wrong-last-byte", w2}, namedBytes{"other-chain", other[:]})
	for n := 0; n <= 32; n++ {
		pubkeys = append(pubkeys, namedBytes{fmt.Sprintf("truncated-to-%d", n), pk[:n]})
	}
	burns := []uint32{0, 1, 2, 1<<32 - 1}
	sizes := []uint32{0, 1023, 1024}
	precs := []uint8{0, 6, 7}
	uas := c25UserAgents()
	var genesis []namedBytes
	gh := make([]byte, 33)
	for i := range gh {
		gh[i] = byte(0x07 + i*5) // first byte non-printable, others mixed
	}
	genesis = append(genesis, namedBytes{"absent", nil})
	for n := 1; n <= 33; n++ {
		genesis = append(genesis, namedBytes{fmt.Sprintf("%d-bytes", n), gh[:n]})
	}
	mirrors := []uint32{c25OwnMirror, c25OtherMirror}
	versions := []int32{c25MinVersion - 1, c25MinVersion, c25MinVersion + 1}

	engine.ParFor(len(pubkeys)*len(uas), func(i int) {
		p, u := pubkeys[i/len(uas)], uas[i%len(uas)]
		loc := map[string]int{}
		var nt []uint64
		defer func() {
			for k, v := range loc {
				outcomes.AddN(k, v)
			}
			nontrivial.AddAll(nt)
		}()
		for _, b := range burns {
			for _, s := range sizes {
				for _, pr := range precs {
					for _, g := range genesis {
						extra := append([]byte{}, p.B...)
						extra = append(extra, le32(b)...)
						extra = append(extra, le32(s)...)
						extra = append(extra, pr)
						extra = append(extra, u.B...)
						extra = append(extra, g.B...)
						b, s, pr, g := b, s, pr, g
						desc := func() string {
							return fmt.Sprintf("pubkey=%s burn=%d size=%d precision=%d ua=%s genesis=%s", p.Name, b, s, pr, u.Name, g.Name)
						}
						for _, m := range mirrors {
							for _, v := range versions {
								check(loc, &nt, m, v, extra, desc)
							}
						}
					}
				}
			}
		}
	})
	productEvals := evals
	tProduct := r.Elapsed().Seconds()

	// ---- every truncation and every single-byte substitution of valid Extras
	mkValid := func(ua namedBytes, g []byte) []byte {
		e := append([]byte{}, pk[:]...)
		e = append(e, le32(10)...)
		e = append(e, le32(32768)...)
		e = append(e, 3)
		e = append(e, ua.B...)
		return append(e, g...)
	}
	bases := []namedBytes{
		{"valid(ua,genesis)", mkValid(uas[0], gh[:32])},
		{"valid(ua+remark,no-genesis)", mkValid(uas[1], nil)},
	}
	for _, base := range bases {
		if d, _ := wi.Verify(ref, wi.Intro{Mirror: c25OtherMirror, Version: c25MinVersion, Extra: base.B}); len(d) != 0 {
			r.Broken("alphabet: base extra %s is not valid for the reference: %v", base.Name, d)
		}
		loc := map[string]int{}
		var nt []uint64
		for n := 0; n <= len(base.B); n++ {
			n := n
			check(loc, &nt, c25OtherMirror, c25MinVersion, base.B[:n], func() string { return fmt.Sprintf("%s truncated to %d of %d bytes", base.Name, n, len(base.B)) })
		}
		for k, v := range loc {
			outcomes.AddN(k, v)
		}
		nontrivial.AddAll(nt)
		b := base
		engine.ParFor(len(b.B), func(pos int) {
			loc := map[string]int{}
			var nt []uint64
			defer func() {
				for k, v := range loc {
					outcomes.AddN(k, v)
				}
				nontrivial.AddAll(nt)
			}()
			for v := 0; v < 256; v++ {
				if byte(v) == b.B[pos] {
					continue
				}
				e := append([]byte{}, b.B...)
				e[pos] = byte(v)
				v := v
				check(loc, &nt, c25OtherMirror, c25MinVersion, e, func() string { return fmt.Sprintf("%s with byte %d = 0x%02x", b.Name, pos, v) })
			}
		})
	}
	// no extra at all
	{
		loc := map[string]int{}
		var nt []uint64
		check(loc, &nt, c25OtherMirror, c25MinVersion, nil, func() string { return "no extra" })
		check(loc, &nt, c25OwnMirror, c25MinVersion-1, nil, func() string { return "no extra" })
		for k, v := range loc {
			outcomes.AddN(k, v)
		}
		nontrivial.AddAll(nt)
	}
	verifyEvals := evals
	tVerify := r.Elapsed().Seconds()

	for _, k := range []string{"accepted", "refused:" + wi.Self, "refused:" + wi.Version, "refused:" + wi.NoPubkey, "refused:" + wi.ExtraData, "refused:" + wi.PubkeyMismatch,
		"refused:" + wi.BurnFactor, "refused:" + wi.MaxTxnSize, "refused:" + wi.DropletPrec, "refused:" + wi.UserAgent} {
		if outcomes.Get(k) == 0 {
			r.Broken("vacuous: Verify outcome %q never seen: %v", k, outcomes.Map())
		}
	}

	// ---- (b) the gate
	gate := c25Gate(r)

	for k, v := range gate.outcomes.Map() {
		outcomes.AddN("gate:"+k, v)
	}
	r.Assumptions = append(r.Assumptions,
		"(a) an introduction with several defects may be refused for any one of them (the statement fixes no order): the real reason must be one of the defects the reference parser establishes; with exactly one defect it must be that one",
		"(a) user agents are validated after stripping non-printable and forbidden characters, as the daemon documents and does (a user agent that is valid after stripping is accepted); bytes after a complete genesis hash are ignored",
		"(b) the daemon run loop is replaced by the harness calling the real handleEvent for each queued event in order; gnet's sendLoop is replaced by draining the connection's write queue and handing a sent DisconnectMessage to the real handleMessageSendResult; no sockets, no timers",
		"(b) observation of 'processed' is by effect (PONG/GIVP/GETB/GETT replies queued, peer height recorded, pex additions, disconnect events); GETT, GIVT and GIVB with the small payloads used have no observable effect, for them only the disconnect is checked",
	)
	smp := []interface{}{
		c25Case{"other", c25MinVersion, hex.EncodeToString(bases[0].B), bases[0].Name},
		c25Case{"other", c25MinVersion, hex.EncodeToString(bases[0].B[:60]), bases[0].Name + " truncated to 60"},
	}
	smp = append(smp, gate.samples...)
	sets := []string{}
	_ = sets
	pprof.StopCPUProfile() // no-op unless VERIF_CPUPROFILE is set (main.go)
	r.Finish(engine.Coverage{
		"evaluations":                       verifyEvals + gate.evals,
		"distinct_nontrivial":               nontrivial.Distinct() + gate.nontrivial,
		"rule":                              "(a) one evaluation = one (mirror, version, Extra) through the real Verify; non-trivial = distinct introductions (by 64-bit FNV hash of mirror, version, Extra) with at least one defect. (b) one evaluation = one message sequence on a fresh connection through the real daemon; non-trivial = distinct sequences in which at least one message is refused, ignored or disconnects",
		"samples":                           smp,
		"exhaustive":                        true,
		"outcome_histogram":                 outcomes.Map(),
		"verify_product_evals":              productEvals,
		"verify_mutation_evals":             verifyEvals - productEvals,
		"verify_distinct_multi_defect_sets": defectSets.Len(),
		"phase_seconds":                     map[string]float64{"verify_product": tProduct, "verify_mutations": tVerify - tProduct, "gate": r.Elapsed().Seconds() - tVerify},
		"gate_sequences":                    gate.evals,
		"gate_messages_fed":                 gate.messages,
		"alphabet": map[string]interface{}{
			"mirrors": len(mirrors), "versions": len(versions), "pubkey_parts": len(pubkeys), "burn": len(burns), "max_size": len(sizes), "precision": len(precs),
			"user_agents": names(uas), "genesis_lengths": len(genesis), "mutation_bases": len(bases), "gate_alphabet": gate.alphabet, "gate_depth": gate.depth,
		},
	})
}

func names(a []namedBytes) []string {
	var out []string
	for _, x := range a {
		out = append(out, x.Name)
	}
	sort.Strings(out)
	return out
}
