package main

import (
	"fmt"
	"os"
	"path/filepath"
	"sort"
	"strings"

	"github.com/skycoin/skycoin/src/cipher"
	"github.com/skycoin/skycoin/src/coin"
	"github.com/skycoin/skycoin/src/daemon"
	"github.com/skycoin/skycoin/src/daemon/gnet"
	"github.com/skycoin/skycoin/src/params"
	"github.com/skycoin/skycoin/src/util/useragent"
	"github.com/skycoin/skycoin/src/visor"

	"verif/engine"
	wi "verif/model/wireintro"
)

// ---- C25 (b): the pre-introduction gate on a real Daemon ---------------------------------------------------

type gateResult struct {
	evals      int64
	nontrivial int
	messages   int64
	outcomes   *engine.Counter
	samples    []interface{}
	alphabet   []string
	depth      int
}

// one letter of the gate alphabet
type gateMsg struct {
	Name  string
	ID    string
	Frame []byte
	// for INTR letters
	Valid  bool
	Reason error // disconnect reason the daemon must give for an invalid INTR
	Port   uint16
	UA     string
}

type gateCase struct {
	Sequence []string `json:"message_sequence"`
	Step     int      `json:"failing_step"`
	Expected string   `json:"expected"`
	Observed string   `json:"observed"`
}

// what is observable after one message has been fed and the daemon has run to quiescence
type gateObs struct {
	Out    []string // messages the daemon queued for the peer, in order ("DISC:<reason>" for disconnect messages)
	Disc   []string // disconnect events (reason) the daemon handled
	State  string   // connected | introduced | gone
	Intro  string   // what the daemon remembers of the introduction (introduced state only)
	Height uint64   // peer height recorded (GETB processed)
	Pex    []string // which of the watched addresses the peer list holds
}

func (o gateObs) String() string {
	return fmt.Sprintf("out=%v disconnects=%v state=%s intro=%q height=%d pex=%v", o.Out, o.Disc, o.State, o.Intro, o.Height, o.Pex)
}

const (
	gatePeerAddr   = "10.1.2.3:51000" // remote address of the scripted connection
	gateSeedPeer   = "44.44.44.44:6000"
	gateGivenPeer  = "55.55.55.55:6000"
	gateListenAddr = "10.1.2.3:6000"
)

type gateWorld struct {
	r      *engine.Run
	v      *visor.Visor
	pk     cipher.PubKey
	gh     cipher.SHA256
	dir    string
	alpha  []gateMsg
	dcfg   daemon.Config
	closer func()
}

func newGateWorld(r *engine.Run) *gateWorld {
	w := &gateWorld{r: r, dir: filepath.Join(engine.Scratch(), "c25gate")}
	if err := os.MkdirAll(w.dir, 0o755); err != nil {
		r.Broken("gate: scratch: %v", err)
		return nil
	}
	pk, sk := cipher.MustGenerateDeterministicKeyPair([]byte("verif C25 blockchain key"))
	w.pk = pk
	db, err := visor.OpenDB(filepath.Join(w.dir, "data.db"), false)
	if err != nil {
		r.Broken("gate: open db: %v", err)
		return nil
	}
	vc := visor.NewConfig()
	vc.IsBlockPublisher = true
	vc.BlockchainPubkey, vc.BlockchainSeckey = pk, sk
	vc.GenesisAddress = cipher.AddressFromPubKey(pk)
	vc.GenesisCoinVolume = 100e12
	vc.GenesisTimestamp = 1426562704
	vc.Distribution = params.MainNetDistribution
	v, err := visor.New(vc, db, nil)
	if err == nil {
		err = v.Init()
	}
	if err != nil {
		r.Broken("gate: visor: %v", err)
		return nil
	}
	w.v = v
	w.closer = func() { db.Close() } //nolint
	if seq, ok, err := v.HeadBkSeq(); err != nil || !ok || seq != 0 {
		r.Broken("gate: visor has no genesis block (%v %v %v)", seq, ok, err)
		return nil
	}
	w.gh[0] = 0x42

	c := daemon.NewConfig()
	c.Daemon.DataDirectory = w.dir
	c.Pex.DataDirectory = w.dir
	c.Pex.DownloadPeerList = false
	c.Daemon.BlockchainPubkey = pk
	c.Daemon.GenesisHash = w.gh
	c.Daemon.Mirror = c25OwnMirror
	c.Daemon.ProtocolVersion, c.Daemon.MinProtocolVersion = c25MinVersion, c25MinVersion
	c.Daemon.UserAgent = useragent.Data{Coin: "skycoin", Version: "0.25.0"}
	c.Daemon.LogPings = false
	c.Daemon.Port, c.Daemon.Address = 0, "127.0.0.1"
	w.dcfg = c

	// the alphabet (frames are produced with the real encoder after a first registration)
	daemon.VerifRegisterMessages()
	enc := func(m gnet.Message) []byte { return mustEncode(m) }
	extra := func(pub cipher.PubKey, ua string) []byte {
		e := append([]byte{}, pub[:]...)
		e = append(e, le32(10)...)
		e = append(e, le32(32768)...)
		e = append(e, 3)
		e = append(e, uaField(uint32(len(ua)), ua)...)
		return append(e, w.gh[:]...)
	}
	intr := func(name string, mirror uint32, ver int32, port uint16, ex []byte, valid bool, reason error, ua string) gateMsg {
		return gateMsg{Name: name, ID: "INTR", Frame: enc(&daemon.IntroductionMessage{Mirror: mirror, ListenPort: port, ProtocolVersion: ver, Extra: ex}), Valid: valid, Reason: reason, Port: port, UA: ua}
	}
	other, _ := cipher.MustGenerateDeterministicKeyPair([]byte("another chain"))
	var h1 cipher.SHA256
	h1[0], h1[5] = 0x99, 0x77
	plain := func(name, id string, m gnet.Message) gateMsg { return gateMsg{Name: name, ID: id, Frame: enc(m)} }
	w.alpha = []gateMsg{
		intr("INTR/valid-A", c25OtherMirror, c25MinVersion, 6000, extra(pk, "skycoin:0.25.0"), true, nil, "skycoin:0.25.0"),
		intr("INTR/valid-B", c25OtherMirror+1, c25MinVersion+1, 6001, extra(pk, "other:1.0.0"), true, nil, "other:1.0.0"),
		intr("INTR/wrong-pubkey", c25OtherMirror, c25MinVersion, 6000, extra(other, "skycoin:0.25.0"), false, daemon.ErrDisconnectBlockchainPubkeyNotMatched, ""),
		intr("INTR/self-mirror", c25OwnMirror, c25MinVersion, 6000, extra(pk, "skycoin:0.25.0"), false, daemon.ErrDisconnectSelf, ""),
		intr("INTR/no-extra", c25OtherMirror, c25MinVersion, 6000, nil, false, daemon.ErrDisconnectBlockchainPubkeyNotProvided, ""),
		intr("INTR/old-version", c25OtherMirror, c25MinVersion-1, 6000, extra(pk, "skycoin:0.25.0"), false, daemon.ErrDisconnectVersionNotSupported, ""),
		plain("GETP", "GETP", daemon.NewGetPeersMessage()),
		plain("GIVP", "GIVP", &daemon.GivePeersMessage{Peers: []daemon.IPAddr{{IP: 0x37373737, Port: 6000}}}),
		plain("PING", "PING", &daemon.PingMessage{}),
		plain("PONG", "PONG", &daemon.PongMessage{}),
		plain("GETB", "GETB", daemon.NewGetBlocksMessage(5, 20)),
		plain("GIVB", "GIVB", &daemon.GiveBlocksMessage{}),
		plain("ANNB", "ANNB", daemon.NewAnnounceBlocksMessage(9)),
		plain("GETT", "GETT", &daemon.GetTxnsMessage{Transactions: []cipher.SHA256{h1}}),
		plain("GIVT", "GIVT", &daemon.GiveTxnsMessage{Transactions: []coin.Transaction{}}),
		plain("ANNT", "ANNT", &daemon.AnnounceTxnsMessage{Transactions: []cipher.SHA256{h1}}),
		plain("DISC", "DISC", daemon.NewDisconnectMessage(daemon.ErrDisconnectIdle)),
	}
	// the reference parser must agree with the intended validity of the INTR letters
	ref := wi.Config{Mirror: c25OwnMirror, MinVersion: c25MinVersion}
	copy(ref.Pubkey[:], pk[:])
	for _, m := range w.alpha {
		if m.ID != "INTR" {
			continue
		}
		var im daemon.IntroductionMessage
		if _, err := im.Decode(m.Frame[8:]); err != nil {
			r.Broken("gate alphabet: %s does not decode: %v", m.Name, err)
		}
		d, _ := wi.Verify(ref, wi.Intro{Mirror: im.Mirror, Version: im.ProtocolVersion, Extra: im.Extra})
		if m.Valid != (len(d) == 0) || (!m.Valid && (len(d) != 1 || c25ReasonClass[m.Reason] != d[0])) {
			r.Broken("gate alphabet: %s: reference defects %v, intended valid=%v reason=%v", m.Name, d, m.Valid, m.Reason)
		}
	}
	return w
}

// reference transition: what the daemon must do with message m on a connection in state st.
func gateExpect(st string, intro string, height uint64, pex []string, m gateMsg) gateObs {
	e := gateObs{State: st, Intro: intro, Height: height, Pex: append([]string{}, pex...)}
	addPex := func(a string) {
		for _, x := range e.Pex {
			if x == a {
				return
			}
		}
		e.Pex = append(e.Pex, a)
		sort.Strings(e.Pex)
	}
	gone := func(reason error) {
		e.Disc = []string{reason.Error()}
		e.State, e.Intro, e.Height = wi.Gone, "", 0
	}
	switch {
	case st == wi.Gone:
		// the connection no longer exists for the daemon: whatever still arrives for it is dropped
	case m.ID == "PONG":
		// a pong carries nothing and is consumed by gnet (it only refreshes the connection's last-received time)
		if st == wi.Connected {
			// the statement: any message other than INTR/DISC/GIVP before the introduction causes a disconnect
			e.Out = []string{"DISC:" + daemon.ErrDisconnectNoIntroduction.Error()}
			gone(daemon.ErrDisconnectNoIntroduction)
		}
	case st == wi.Connected && !wi.AllowedBeforeIntroduction(m.ID):
		e.Out = []string{"DISC:" + daemon.ErrDisconnectNoIntroduction.Error()}
		gone(daemon.ErrDisconnectNoIntroduction)
	case m.ID == "INTR" && !m.Valid:
		e.Out = []string{"DISC:" + m.Reason.Error()}
		gone(m.Reason)
	case m.ID == "INTR" && st == wi.Connected:
		e.State = wi.Introduced
		e.Intro = fmt.Sprintf("port=%d ua=%s", m.Port, m.UA)
		e.Out = []string{"GETB"} // blocks are requested from a freshly introduced peer
		addPex(fmt.Sprintf("10.1.2.3:%d", m.Port))
	case m.ID == "INTR": // already introduced: introduced exactly once, nothing changes
	case m.ID == "DISC":
		gone(daemon.ErrDisconnectReceivedDisconnect)
	case m.ID == "GIVP":
		addPex(gateGivenPeer)
	case m.ID == "GETP":
		e.Out = []string{"GIVP"}
	case m.ID == "PING":
		e.Out = []string{"PONG"}
	case m.ID == "GETB":
		e.Height = 5
	case m.ID == "ANNB":
		e.Out = []string{"GETB"}
	case m.ID == "ANNT":
		e.Out = []string{"GETT"}
	case m.ID == "GIVB", m.ID == "GETT", m.ID == "GIVT":
		// empty / unknown payloads: nothing to answer
	}
	return e
}

// run one sequence on a fresh daemon; returns "" or a description of the first mismatch.
func (w *gateWorld) runSequence(seq []int, outcomes *engine.Counter, fed *int64) (failStep int, sig, exp, got string) {
	dm, err := daemon.VerifNewDaemon(w.dcfg, w.v)
	if err != nil {
		return 0, "harness", "", "daemon.New: " + err.Error()
	}
	pool := daemon.VerifGnetPool(dm)
	go pool.RunOffline() //nolint
	defer pool.Shutdown()
	px := daemon.VerifPex(dm)
	if err := px.AddPeer(gateSeedPeer); err != nil {
		return 0, "harness", "", "pex seed: " + err.Error()
	}
	if err := px.SetHasIncomingPort(gateSeedPeer, true); err != nil {
		return 0, "harness", "", "pex seed: " + err.Error()
	}
	sc := newScriptConn([4]byte{10, 1, 2, 3}, 51000)
	conn, err := gnet.VerifAddConn(pool, sc, false)
	if err != nil {
		return 0, "harness", "", "add conn: " + err.Error()
	}
	var discs []string
	pump := func() { // the daemon run loop: handle queued events until quiescent
		for {
			e, ok := daemon.VerifNextEvent(dm)
			if !ok {
				return
			}
			if info := daemon.VerifDescribeEvent(e); info.Kind == "disconnect" {
				discs = append(discs, info.Reason.Error())
			}
			daemon.VerifHandleEvent(dm, e)
		}
	}
	flush := func() (out []string) { // gnet's sendLoop: write what is queued; a written DISC makes the daemon drop the connection
		for _, m := range gnet.VerifDrainWriteQueue(conn) {
			b := mustEncode(m)
			name := string(b[4:8])
			if d, ok := m.(*daemon.DisconnectMessage); ok {
				name = "DISC:" + daemon.VerifDisconnectReason(d).Error()
			}
			out = append(out, name)
			daemon.VerifHandleSendResult(dm, gnet.SendResult{Addr: gatePeerAddr, Message: m})
			if _, ok := m.(*daemon.DisconnectMessage); ok {
				break
			}
		}
		return out
	}
	watched := []string{gateSeedPeer, gateGivenPeer, "10.1.2.3:6000", "10.1.2.3:6001"}
	observe := func(out []string) gateObs {
		o := gateObs{Out: out, Disc: discs}
		ci := daemon.VerifConn(dm, gatePeerAddr)
		switch {
		case !ci.Exists:
			o.State = wi.Gone
		case ci.State == daemon.ConnectionStateIntroduced:
			o.State = wi.Introduced
			ua, _ := ci.Details.UserAgent.Build()
			o.Intro = fmt.Sprintf("port=%d ua=%s", ci.Details.ListenPort, ua)
			o.Height = ci.Details.Height
		case ci.State == daemon.ConnectionStateConnected:
			o.State = wi.Connected
			o.Height = ci.Details.Height
		default:
			o.State = string(ci.State)
		}
		if o.State == wi.Gone && gnet.VerifPoolHas(pool, gatePeerAddr) {
			o.State = "gone-for-daemon-but-still-in-gnet-pool"
		}
		for _, a := range watched {
			if _, ok := px.GetPeer(a); ok {
				o.Pex = append(o.Pex, a)
			}
		}
		sort.Strings(o.Pex)
		return o
	}
	// connection set-up: the daemon greets with its own INTR
	pump()
	hello := flush()
	pump()
	o0 := observe(hello)
	if o0.State != wi.Connected || len(hello) != 1 || hello[0] != "INTR" || len(discs) != 0 {
		return 0, "harness", "", "fresh connection: " + o0.String()
	}
	st, intro, height, pexNow := wi.Connected, "", uint64(0), o0.Pex
	for i, li := range seq {
		m := w.alpha[li]
		*fed++
		discs = nil
		var rerr error
		pan, pmsg := engine.Catch(func() {
			rerr = gnet.VerifReceiveMessage(pool, conn, m.Frame[4:])
			pump()
		})
		if pan {
			return i, "gate:panic:" + st + ":" + m.ID, "", "panic: " + pmsg
		}
		if rerr != nil {
			return i, "gate:receiveMessage-error:" + m.ID, "", rerr.Error()
		}
		out := flush()
		pump()
		obs := observe(out)
		want := gateExpect(st, intro, height, pexNow, m)
		key := st + ":" + m.Name + "->" + want.State
		if obs.String() != want.String() {
			sig := "gate:" + st + ":" + m.ID + ":effects-differ"
			refusal := "DISC:" + daemon.ErrDisconnectNoIntroduction.Error()
			if st == wi.Connected && !wi.AllowedBeforeIntroduction(m.ID) {
				has := false
				for _, x := range obs.Out {
					if x == refusal {
						has = true
					}
				}
				switch {
				case !has && obs.State != wi.Gone:
					sig = "gate:before-introduction:" + m.ID + ":not-refused"
				case len(obs.Out) > 1 || obs.Height != 0 || strings.Join(obs.Pex, ",") != strings.Join(pexNow, ","):
					sig = "gate:before-introduction:" + m.ID + ":processed"
				}
			} else if st == wi.Introduced && m.ID == "INTR" && m.Valid && obs.Intro != intro {
				sig = "gate:introduced-twice"
			} else if m.ID == "INTR" && !m.Valid && obs.State != wi.Gone {
				sig = "gate:invalid-introduction-not-refused:" + c25ReasonClass[m.Reason]
			}
			return i, sig, want.String(), obs.String()
		}
		outcomes.Add(key)
		st, intro, height, pexNow = obs.State, obs.Intro, obs.Height, obs.Pex
	}
	return -1, "", "", ""
}

func c25Gate(r *engine.Run) gateResult {
	res := gateResult{outcomes: engine.NewCounter(), depth: r.Pick(3, 4)}
	w := newGateWorld(r)
	if w == nil {
		return res
	}
	defer w.closer()
	for _, m := range w.alpha {
		res.alphabet = append(res.alphabet, m.Name)
	}
	nontrivial, nfail := 0, 0
	var seq []int
	var rec func()
	rec = func() {
		if len(seq) > 0 {
			res.evals++
			names := make([]string, len(seq))
			for i, li := range seq {
				names[i] = w.alpha[li].Name
			}
			step, sig, exp, got := w.runSequence(seq, res.outcomes, &res.messages)
			switch {
			case sig == "harness":
				r.Broken("gate harness: %v: %s", names, got)
			case sig != "":
				nfail++
				r.Failf(sig, gateCase{names, step, exp, got}, "fresh connection, messages %v: after message %d (%s) expected {%s} but the daemon shows {%s}", names, step+1, names[step], exp, got)
			}
			// non-trivial: anything but "valid INTR first, then only messages that are simply processed"
			if !(w.alpha[seq[0]].Valid && w.alpha[seq[0]].ID == "INTR") || strings.Contains(strings.Join(names[1:], " "), "INTR") || strings.Contains(strings.Join(names, " "), "DISC") {
				nontrivial++
			}
			if len(res.samples) < 2 && len(seq) == 3 && seq[0] == 7 && seq[1] == 0 {
				res.samples = append(res.samples, gateCase{Sequence: names, Step: -1})
			}
		}
		if len(seq) == res.depth {
			return
		}
		for i := range w.alpha {
			seq = append(seq, i)
			rec()
			seq = seq[:len(seq)-1]
		}
	}
	rec()
	res.nontrivial = nontrivial
	// vacuity: every class of transition must have been exercised
	need := []string{
		"connected:INTR/valid-A->introduced", "connected:INTR/valid-B->introduced", "connected:INTR/wrong-pubkey->gone", "connected:INTR/self-mirror->gone",
		"connected:INTR/no-extra->gone", "connected:INTR/old-version->gone", "connected:DISC->gone", "connected:GIVP->connected", "connected:PING->gone", "connected:GETB->gone",
		"introduced:INTR/valid-B->introduced", "introduced:PING->introduced", "introduced:GETP->introduced", "introduced:GETB->introduced", "introduced:ANNT->introduced", "introduced:DISC->gone", "gone:PING->gone", "gone:INTR/valid-A->gone",
	}
	if nfail == 0 {
		for _, k := range need {
			if res.outcomes.Get(k) == 0 {
				r.Broken("vacuous: gate transition %q never observed", k)
			}
		}
	}
	return res
}
