package main

import (
	"bytes"
	"encoding/binary"
	"fmt"
	"net"
	"sort"
	"strconv"
	"strings"
	"sync/atomic"

	"github.com/skycoin/skycoin/src/cipher"
	"github.com/skycoin/skycoin/src/coin"
	"github.com/skycoin/skycoin/src/daemon"
	"github.com/skycoin/skycoin/src/daemon/gnet"
	"github.com/skycoin/skycoin/src/daemon/pex"

	"verif/engine"
	wf "verif/model/wireframing"
)

// C23 — outgoing peer messages always fit the size limit.
//
// Real code driven: NewGiveBlocksMessage / NewGiveTxnsMessage / NewGivePeersMessage / NewAnnounceTxnsMessage /
// NewGetTxnsMessage (which call the truncate* functions) and then gnet's sendMessage (the body of sendLoop for one
// message: EncodeMessage, the comparison with MaxOutgoingMessageLength, conn.Write) on a recording net.Conn.
// "Fits the configured maximum outgoing length" is judged by exactly that comparison: gnet refuses
// (ErrMsgExceedsMaxLen, after which sendLoop returns and the connection is dropped) iff len(EncodeMessage(m)) > max,
// where the encoding consists of the 4-byte length prefix, the 4-byte id and the body.  skycoin.go configures the
// daemon's MaxOutgoingMessageLength (used for truncation) and the pool's (used by sendMessage) from one value.
func init() { register("C23", "exploration", c23) }

const sigH6 = "truncate*:budget-omits-the-4-byte-length-prefix:sent-length-minus-max-in-[1,4]:chosen-prefix-is-longest-fitting-max+4"

type c23Case struct {
	Message  string `json:"message"`
	List     string `json:"list"`
	Items    int    `json:"items_requested"`
	Max      int    `json:"max_outgoing_len"`
	Sent     int    `json:"encoded_len"`
	Chosen   int    `json:"items_in_message"`
	Expected int    `json:"longest_prefix_that_fits"`
}

// one item list of one message kind
type c23List struct {
	Kind  string // GIVB ...
	Name  string
	N     int   // requested items (before cap / filtering)
	Sizes []int // reference sizes of the items that are eligible (after the per-message cap and address filtering), in order
	Cap   int
	Extra int                           // encoded size of the first requested item beyond the cap (0 if none): the sweep goes far enough to admit it
	Full  []byte                        // real encoding of the untruncated message holding all eligible items
	Make  func(max uint64) gnet.Message // the real constructor
	Count func(m gnet.Message) int
}

func mkTxn(i int) (coin.Transaction, int) {
	shapes := [][2]int{{1, 1}, {2, 2}, {3, 1}}
	sh := shapes[i%3]
	t := coin.Transaction{Type: 0}
	t.InnerHash[0], t.InnerHash[1], t.InnerHash[2] = byte(i), byte(i>>8), 0xA5
	t.Sigs = make([]cipher.Sig, sh[0])
	t.In = make([]cipher.SHA256, sh[0])
	for k := range t.In {
		t.In[k][0], t.In[k][1], t.In[k][31] = byte(i), byte(i>>8), byte(k+1)
		t.Sigs[k][0] = byte(k + 1)
	}
	t.Out = make([]coin.TransactionOutput, sh[1])
	for k := range t.Out {
		t.Out[k].Coins, t.Out[k].Hours = uint64(1e6*(k+1)), uint64(i)
	}
	size := wf.TxnSize(sh[0], sh[0], sh[1])
	t.Length = uint32(size)
	return t, size
}

func mkBlock(i int) (coin.SignedBlock, int) {
	var b coin.SignedBlock
	b.Block.Head.BkSeq = uint64(i)
	b.Sig[0] = byte(i)
	var ts []int
	for k := 0; k < 1+i%3; k++ {
		t, s := mkTxn(i + 2*k)
		b.Block.Body.Transactions = append(b.Block.Body.Transactions, t)
		ts = append(ts, s)
	}
	return b, wf.BlockSize(ts)
}

func mkHash(i int) cipher.SHA256 {
	var h cipher.SHA256
	h[0], h[1], h[31] = byte(i), byte(i>>8), 0x5A
	return h
}

// refValidPeerAddr: what the wire format can carry — a dotted IPv4 address and a decimal port that fits 16 bits.
func refValidPeerAddr(a string) bool {
	i := strings.LastIndex(a, ":")
	if i <= 0 {
		return false
	}
	ip := net.ParseIP(a[:i])
	if ip == nil || ip.To4() == nil || strings.Contains(a[:i], ":") {
		return false
	}
	p, err := strconv.ParseUint(a[i+1:], 10, 16)
	_ = p
	return err == nil
}

func mustEncode(m gnet.Message) []byte {
	b, err := gnet.EncodeMessage(m)
	if err != nil {
		panic(err)
	}
	return b
}

// handlerCfg: the daemon configuration a request handler sees - the outgoing limit is the swept value, every other limit is
// different from it (a handler that reads the wrong field builds a reply for another limit)
func handlerCfg(max uint64) daemon.DaemonConfig {
	return daemon.DaemonConfig{MaxOutgoingMessageLength: max, MaxIncomingMessageLength: 4*max + 4096, MaxGetBlocksResponseCount: 1000, MaxTxnAnnounceNum: 1000}
}

func c23Lists() []c23List {
	var out []c23List
	for _, n := range []int{0, 1, 2, 3, 127, 128, 129} {
		n := n
		var items []coin.SignedBlock
		var sizes []int
		for i := 0; i < n; i++ {
			b, s := mkBlock(i)
			items = append(items, b)
			sizes = append(sizes, s)
		}
		elig, extra := items, 0
		if len(elig) > 128 {
			extra = sizes[128]
			elig, sizes = elig[:128], sizes[:128]
		}
		out = append(out, c23List{Kind: "GIVB", Name: fmt.Sprintf("%d blocks (1-3 txns each, shapes 1x1 2x2 3x1)", n), N: n, Sizes: sizes, Cap: 128, Extra: extra,
			Full:  mustEncode(&daemon.GiveBlocksMessage{Blocks: elig}),
			Make:  func(max uint64) gnet.Message { return daemon.NewGiveBlocksMessage(items, max) },
			Count: func(m gnet.Message) int { return len(m.(*daemon.GiveBlocksMessage).Blocks) }})
		if n > 0 {
			// the same list as the reply the GetBlocksMessage handler builds (limits taken from the daemon configuration: the
			// outgoing limit is the swept value, the incoming one is larger)
			out = append(out, c23List{Kind: "GIVB", Name: fmt.Sprintf("%d blocks, reply built by the GETB handler", n), N: n, Sizes: sizes, Cap: 128, Extra: extra,
				Full: mustEncode(&daemon.GiveBlocksMessage{Blocks: elig}),
				Make: func(max uint64) gnet.Message {
					r := &daemon.VerifReplier{Blocks: items}
					r.Cfg = handlerCfg(max)
					m := daemon.VerifHandlerReply(r, "GETB")
					if m == nil {
						return &daemon.GiveBlocksMessage{}
					}
					return m
				},
				Count: func(m gnet.Message) int { return len(m.(*daemon.GiveBlocksMessage).Blocks) }})
		}
	}
	for _, n := range []int{0, 1, 2, 3, 255, 256, 257} {
		n := n
		var items []coin.Transaction
		var sizes []int
		for i := 0; i < n; i++ {
			t, s := mkTxn(i)
			items = append(items, t)
			sizes = append(sizes, s)
		}
		elig, extra := items, 0
		if len(elig) > 256 {
			extra = sizes[256]
			elig, sizes = elig[:256], sizes[:256]
		}
		out = append(out, c23List{Kind: "GIVT", Name: fmt.Sprintf("%d txns (shapes 1x1 2x2 3x1)", n), N: n, Sizes: sizes, Cap: 256, Extra: extra,
			Full:  mustEncode(&daemon.GiveTxnsMessage{Transactions: elig}),
			Make:  func(max uint64) gnet.Message { return daemon.NewGiveTxnsMessage(items, max) },
			Count: func(m gnet.Message) int { return len(m.(*daemon.GiveTxnsMessage).Transactions) }})
		if n > 0 {
			out = append(out, c23List{Kind: "GIVT", Name: fmt.Sprintf("%d txns, reply built by the GETT handler", n), N: n, Sizes: sizes, Cap: 256, Extra: extra,
				Full: mustEncode(&daemon.GiveTxnsMessage{Transactions: elig}),
				Make: func(max uint64) gnet.Message {
					r := &daemon.VerifReplier{Known: items}
					r.Cfg = handlerCfg(max)
					m := daemon.VerifHandlerReply(r, "GETT")
					if m == nil {
						return &daemon.GiveTxnsMessage{}
					}
					return m
				},
				Count: func(m gnet.Message) int { return len(m.(*daemon.GiveTxnsMessage).Transactions) }})
		}
	}
	for _, n := range []int{0, 1, 2, 3, 4, 255, 256, 257} {
		n := n
		var items []cipher.SHA256
		var sizes []int
		for i := 0; i < n; i++ {
			items = append(items, mkHash(i))
			sizes = append(sizes, wf.HashSize)
		}
		elig, extra := items, 0
		if len(elig) > 256 {
			extra = wf.HashSize
			elig, sizes = elig[:256], sizes[:256]
		}
		out = append(out, c23List{Kind: "ANNT", Name: fmt.Sprintf("%d hashes", n), N: n, Sizes: sizes, Cap: 256, Extra: extra,
			Full:  mustEncode(&daemon.AnnounceTxnsMessage{Transactions: elig}),
			Make:  func(max uint64) gnet.Message { return daemon.NewAnnounceTxnsMessage(items, max) },
			Count: func(m gnet.Message) int { return len(m.(*daemon.AnnounceTxnsMessage).Transactions) }})
		out = append(out, c23List{Kind: "GETT", Name: fmt.Sprintf("%d hashes", n), N: n, Sizes: sizes, Cap: 256, Extra: extra,
			Full:  mustEncode(&daemon.GetTxnsMessage{Transactions: elig}),
			Make:  func(max uint64) gnet.Message { return daemon.NewGetTxnsMessage(items, max) },
			Count: func(m gnet.Message) int { return len(m.(*daemon.GetTxnsMessage).Transactions) }})
		if n > 0 {
			out = append(out, c23List{Kind: "GETT", Name: fmt.Sprintf("%d hashes, request built by the ANNT handler", n), N: n, Sizes: sizes, Cap: 256, Extra: extra,
				Full: mustEncode(&daemon.GetTxnsMessage{Transactions: elig}),
				Make: func(max uint64) gnet.Message {
					r := &daemon.VerifReplier{Unknown: items}
					r.Cfg = handlerCfg(max)
					m := daemon.VerifHandlerReply(r, "ANNT")
					if m == nil {
						return &daemon.GetTxnsMessage{}
					}
					return m
				},
				Count: func(m gnet.Message) int { return len(m.(*daemon.GetTxnsMessage).Transactions) }})
		}
	}
	bad := []string{"not-an-address", "1.2.3.4", "[::1]:6000", "1.2.3.4:99999", "", ":6000", "2001:db8::1:6000"}
	for _, variant := range []string{"all-valid", "every-3rd-unparsable", "first-unparsable"} {
		for _, n := range []int{0, 1, 2, 3, 511, 512, 513} {
			n, variant := n, variant
			var items []pex.Peer
			for i := 0; i < n; i++ {
				a := fmt.Sprintf("10.%d.%d.%d:%d", i>>16&255, i>>8&255, i&255, 6000+i%7)
				if variant == "every-3rd-unparsable" && i%3 == 1 || variant == "first-unparsable" && i == 0 {
					a = bad[(i/3)%len(bad)]
				}
				items = append(items, pex.Peer{Addr: a})
			}
			capped, extra := items, 0
			if len(capped) > 512 {
				capped, extra = capped[:512], wf.PeerSize
			}
			var elig []daemon.IPAddr
			var sizes []int
			for _, p := range capped {
				if !refValidPeerAddr(p.Addr) {
					continue
				}
				h, ps, _ := net.SplitHostPort(p.Addr)
				port, _ := strconv.Atoi(ps)
				elig = append(elig, daemon.IPAddr{IP: binary.BigEndian.Uint32(net.ParseIP(h).To4()), Port: uint16(port)})
				sizes = append(sizes, wf.PeerSize)
			}
			out = append(out, c23List{Kind: "GIVP", Name: fmt.Sprintf("%d peers %s", n, variant), N: n, Sizes: sizes, Cap: 512, Extra: extra,
				Full:  mustEncode(&daemon.GivePeersMessage{Peers: elig}),
				Make:  func(max uint64) gnet.Message { return daemon.NewGivePeersMessage(items, max) },
				Count: func(m gnet.Message) int { return len(m.(*daemon.GivePeersMessage).Peers) }})
		}
	}
	return out
}

func c23(r *engine.Run) {
	gnet.VerifQuiet()
	daemon.VerifRegisterMessages()
	lists := c23Lists()

	// Calibrate what gnet's enforcement point counts: the smallest limit under which sendMessage writes an empty-body
	// message (PING: 4-byte length prefix + 4-byte id on the wire).  8 = the limit counts the whole encoding (pinned tree),
	// 4 = the limit counts id + body only (like MaxIncomingMessageLength in decodeData).  The reference below uses the
	// same measure, so the check judges "fits" exactly as the node's send path does.
	counted := -1
	{
		sc := newScriptConn([4]byte{10, 9, 9, 9}, 6000)
		for max := 0; max <= 16; max++ {
			if err := gnet.VerifSendMessage(sc, &daemon.PingMessage{}, max); err == nil {
				counted = max
				break
			}
		}
	}
	if counted != 8 && counted != 4 {
		r.Broken("calibration: sendMessage accepts an empty PING from limit %d (expected 8 or 4)", counted)
		r.Finish(nil)
	}
	uncounted := 8 - counted // bytes of the encoding that the limit does not count

	var evals int64
	nontrivial := engine.NewSet()
	outcomes := engine.NewCounter()
	byKind := engine.NewCounter()
	var h6min, h6max int64 = 1 << 30, 0
	h6window := engine.NewCounter() // "<kind>/<overshoot>"
	type job struct {
		li   int
		maxs []int
	}
	var jobs []job
	maxValues := 0
	for li, l := range lists {
		// reference check of the alphabet itself: item sizes must add up to the real encoding
		sum := wf.ListMsgEmpty
		for _, s := range l.Sizes {
			sum += s
		}
		if sum != len(l.Full) {
			r.Broken("alphabet: %s %s: reference sizes add up to %d, real encoding has %d bytes", l.Kind, l.Name, sum, len(l.Full))
		}
		set := map[int]bool{}
		dense := r.Thorough() || len(l.Sizes) <= 4
		if dense {
			for m := 4; m <= sum+l.Extra+16; m++ {
				set[m] = true
			}
		} else {
			b := wf.ListMsgEmpty
			for k := 0; k <= len(l.Sizes); k++ {
				for d := -16; d <= 16; d++ {
					if b+d >= 4 {
						set[b+d] = true
					}
				}
				if k < len(l.Sizes) {
					b += l.Sizes[k]
				} else if l.Extra > 0 {
					for d := -16; d <= 16; d++ {
						set[b+l.Extra+d] = true
					}
				}
			}
			for m := 4; m <= wf.ListMsgEmpty+16; m++ {
				set[m] = true
			}
		}
		var ms []int
		for m := range set {
			ms = append(ms, m)
		}
		sort.Ints(ms)
		maxValues += len(ms)
		for i := 0; i < len(ms); i += 512 {
			j := i + 512
			if j > len(ms) {
				j = len(ms)
			}
			jobs = append(jobs, job{li, ms[i:j]})
		}
	}
	var sample atomic.Value

	engine.ParFor(len(jobs), func(ji int) {
		l := &lists[jobs[ji].li]
		sc := newScriptConn([4]byte{10, 9, 9, 9}, 6000)
		for _, max := range jobs[ji].maxs {
			atomic.AddInt64(&evals, 1)
			byKind.Add(l.Kind)
			want := wf.LongestPrefix(l.Sizes, l.Cap, max+uncounted)
			cs := c23Case{Message: l.Kind, List: l.Name, Items: l.N, Max: max, Expected: want}
			var m gnet.Message
			pan, pmsg := engine.Catch(func() { m = l.Make(uint64(max)) })
			if want < 0 {
				// max is below the size of the empty message (header): outside the premise of the property; nothing can fit
				if pan {
					outcomes.Add("below-header:constructor-panics")
				} else {
					outcomes.Add("below-header:returns-a-message-that-cannot-fit")
				}
				continue
			}
			if pan {
				r.Failf("New"+l.Kind+"Message:panic", cs, "%s %s max=%d: constructor panicked: %s", l.Kind, l.Name, max, pmsg)
				continue
			}
			got := l.Count(m)
			cs.Chosen = got
			sc.reset(nil, nil)
			var sendErr error
			if pan, pmsg := engine.Catch(func() { sendErr = gnet.VerifSendMessage(sc, m, max) }); pan {
				r.Failf("sendMessage:panic", cs, "%s %s max=%d: sendMessage panicked: %s", l.Kind, l.Name, max, pmsg)
				continue
			}
			if sendErr != nil && sendErr != gnet.ErrMsgExceedsMaxLen {
				r.Failf("sendMessage:cannot-encode-or-write:"+l.Kind, cs, "%s %s max=%d: constructor kept %d items (item limit %d) and sendMessage fails with: %v", l.Kind, l.Name, max, got, l.Cap, sendErr)
				continue
			}
			var enc []byte
			if sendErr == nil && len(sc.written) == 1 {
				enc = sc.written[0]
			} else {
				enc = mustEncode(m)
			}
			cs.Sent = len(enc)
			// what the chosen items should be: the first `got` eligible items
			itemBytes := 0
			for i := 0; i < got && i < len(l.Sizes); i++ {
				itemBytes += l.Sizes[i]
			}
			prefixOK := got <= len(l.Sizes) && len(enc) == wf.ListMsgEmpty+itemBytes &&
				bytes.Equal(enc[wf.ListMsgEmpty:], l.Full[wf.ListMsgEmpty:wf.ListMsgEmpty+itemBytes]) &&
				binary.LittleEndian.Uint32(enc[8:]) == uint32(got) && string(enc[4:8]) == l.Kind &&
				binary.LittleEndian.Uint32(enc) == uint32(len(enc)-4)
			if !prefixOK {
				r.Failf("New"+l.Kind+"Message:not-a-prefix-of-the-requested-items", cs, "%s %s max=%d: message carries %d items / %d bytes which is not the encoding of the first %d requested items", l.Kind, l.Name, max, got, len(enc), got)
				continue
			}
			fits := len(enc)-uncounted <= max
			refused := sendErr == gnet.ErrMsgExceedsMaxLen
			switch {
			case sendErr != nil && !refused:
				r.Failf("sendMessage:unexpected-error", cs, "%s %s max=%d: %v", l.Kind, l.Name, max, sendErr)
				continue
			case refused == fits:
				r.Failf("sendMessage:length-comparison-disagrees-with-encoded-length", cs, "%s %s max=%d: encoded %d bytes, refused=%v", l.Kind, l.Name, max, len(enc), refused)
				continue
			case !refused && len(sc.written) != 1:
				r.Failf("sendMessage:written-bytes-differ-from-encoding", cs, "%s %s max=%d: wrote %d buffers", l.Kind, l.Name, max, len(sc.written))
				continue
			}
			nt := got != len(l.Sizes) || max-len(enc) < 48
			if nt {
				nontrivial.Add(fmt.Sprintf("%s/%s/%d", l.Kind, l.Name, max))
			}
			switch {
			case fits && got == want:
				if got == len(l.Sizes) {
					outcomes.Add("fits:all-eligible-items")
				} else if got == 0 {
					outcomes.Add("fits:empty-message(no-item-fits)")
				} else {
					outcomes.Add("fits:longest-prefix")
				}
				if nt && got > 0 && got < len(l.Sizes) {
					sample.Store(cs)
				}
			case fits && got < want:
				r.Failf("New"+l.Kind+"Message:prefix-shorter-than-the-longest-that-fits", cs, "%s %s max=%d: message has %d items (%d bytes on the wire) but the first %d items fit (%d eligible)", l.Kind, l.Name, max, got, len(enc), want, len(l.Sizes))
			case !fits:
				over := len(enc) - uncounted - max
				if over >= 1 && over <= 4 && got == wf.LongestPrefix(l.Sizes, l.Cap, max+uncounted+4) {
					outcomes.Add("H6:over-by-1..4")
					if got < len(l.Sizes) {
						h6window.Add(fmt.Sprintf("%s/%d", l.Kind, over))
					}
					for {
						o := atomic.LoadInt64(&h6min)
						if int64(over) >= o || atomic.CompareAndSwapInt64(&h6min, o, int64(over)) {
							break
						}
					}
					for {
						o := atomic.LoadInt64(&h6max)
						if int64(over) <= o || atomic.CompareAndSwapInt64(&h6max, o, int64(over)) {
							break
						}
					}
					r.Failf(sigH6, cs, "%s %s, MaxOutgoingMessageLength=%d: New%sMessage kept %d items, the message is %d bytes on the wire (%d over the limit) and gnet.sendMessage refuses it with ErrMsgExceedsMaxLen; the longest prefix that fits has %d items", l.Kind, l.Name, max, l.Kind, got, len(enc), over, want)
				} else {
					r.Failf("New"+l.Kind+"Message:exceeds-max-outgoing-length", cs, "%s %s max=%d: message has %d items, %d bytes on the wire (%d over the limit; longest prefix that fits: %d items)", l.Kind, l.Name, max, got, len(enc), over, want)
				}
			default: // fits && got > want is impossible (want is maximal) unless the cap is broken
				r.Failf("New"+l.Kind+"Message:more-items-than-the-reference-allows", cs, "%s %s max=%d: %d items, reference maximum %d (item cap %d)", l.Kind, l.Name, max, got, want, l.Cap)
			}
		}
	})

	// The H6 class is "the budget is exactly 4 bytes too generous".  If it shows for a message kind, every overshoot 1,2,3,4
	// must show for that kind; a narrower window is a different defect hiding inside the same class.
	for _, k := range []string{"GIVB", "GIVT", "GIVP", "ANNT", "GETT"} {
		seen := 0
		for o := 1; o <= 4; o++ {
			if h6window.Get(fmt.Sprintf("%s/%d", k, o)) > 0 {
				seen++
			}
		}
		if seen != 0 && seen != 4 {
			r.Failf("truncate"+k+":overshoot-window-is-not-exactly-[1,4]", h6window.Map(), "%s: truncated messages overshoot the limit, but not by every amount in 1..4 (%v): the truncation budget is not simply 4 bytes too generous", k, h6window.Map())
		}
	}
	for _, k := range []string{"fits:all-eligible-items", "fits:longest-prefix"} {
		if outcomes.Get(k) == 0 {
			r.Broken("vacuous: outcome %q never seen: %v", k, outcomes.Map())
		}
	}
	if outcomes.Get("fits:empty-message(no-item-fits)") == 0 && outcomes.Get("H6:over-by-1..4") == 0 {
		r.Broken("vacuous: the no-item-fits case was never reached: %v", outcomes.Map())
	}
	for _, k := range []string{"GIVB", "GIVT", "GIVP", "ANNT", "GETT"} {
		if byKind.Get(k) == 0 {
			r.Broken("vacuous: no %s evaluations", k)
		}
	}
	r.Assumptions = append(r.Assumptions,
		"'fits' is judged by gnet.sendMessage's own comparison len(EncodeMessage(m)) > MaxOutgoingMessageLength (length prefix + id + body), with the pool limit equal to the limit given to the constructor (skycoin.go sets both from Node.MaxOutgoingMessageLength)",
		"premise 'maximum length at or above the message header size': max must admit the empty list message by the calibrated measure (12 bytes on the pinned tree: length prefix, id, element count); below that no message of the type fits and the evaluations are only counted (below-header:*)",
		"quick: lists with more than 4 eligible items sweep max over ±16 around every item boundary (and 4..28); thorough: every integer from 4 to full size + 16 for every list",
		"unparsable / IPv6 peer addresses are not 'requested items': the reference keeps the parsable IPv4 ones among the first 512",
	)
	var smp []interface{}
	if s := sample.Load(); s != nil {
		smp = append(smp, s)
	}
	smp = append(smp, c23Case{Message: "ANNT", List: "1 hashes", Items: 1, Max: 43, Expected: 0})
	cov := engine.Coverage{
		"evaluations":         evals,
		"distinct_nontrivial": nontrivial.Len(),
		"rule":                "one evaluation = one (message kind, item list, max) triple through the real constructor and gnet.sendMessage; all triples are distinct; non-trivial = the message was truncated, or max is within 48 bytes of the encoded size",
		"samples":             smp,
		"exhaustive":          true,
		"outcome_histogram":   outcomes.Map(),
		"evaluations_by_kind": byKind.Map(),
		"alphabet":            map[string]interface{}{"lists": len(lists), "max_values_total": maxValues, "kinds": 5},
		"bytes_of_the_encoding_counted_by_sendMessage_for_an_empty_message": counted,
	}
	if h6max > 0 {
		cov["H6_overshoot_range"] = []int64{h6min, h6max}
	}
	r.Finish(cov)
}
