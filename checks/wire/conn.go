package main

import (
	"io"
	"net"
	"sort"
	"sync"
	"time"
)

// scriptConn is a scripted net.Conn: Read hands out the bytes of stream chunk by chunk (a Read never crosses
// a chunk end, and never returns more than len(p)), then io.EOF.  Writes are recorded.
type scriptConn struct {
	stream  []byte
	cuts    []int // ascending chunk end offsets; the last one is len(stream) (empty for an empty stream)
	pos     int
	ci      int
	remote  net.Addr
	written [][]byte
	closed  bool
}

func (c *scriptConn) reset(stream []byte, cuts []int) {
	c.stream, c.cuts, c.pos, c.ci = stream, cuts, 0, 0
	c.written = c.written[:0]
	c.closed = false
}

func (c *scriptConn) Read(p []byte) (int, error) {
	for c.ci < len(c.cuts) && c.pos >= c.cuts[c.ci] {
		c.ci++
	}
	if c.ci >= len(c.cuts) || c.pos >= len(c.stream) {
		return 0, io.EOF
	}
	end := c.cuts[c.ci]
	if end-c.pos > len(p) {
		end = c.pos + len(p)
	}
	n := copy(p, c.stream[c.pos:end])
	c.pos += n
	return n, nil
}

func (c *scriptConn) Write(p []byte) (int, error) {
	c.written = append(c.written, append([]byte{}, p...))
	return len(p), nil
}
func (c *scriptConn) Close() error { c.closed = true; return nil }
func (c *scriptConn) LocalAddr() net.Addr {
	return &net.TCPAddr{IP: net.IPv4(127, 0, 0, 1), Port: 6677}
}
func (c *scriptConn) RemoteAddr() net.Addr               { return c.remote }
func (c *scriptConn) SetDeadline(t time.Time) error      { return nil }
func (c *scriptConn) SetReadDeadline(t time.Time) error  { return nil }
func (c *scriptConn) SetWriteDeadline(t time.Time) error { return nil }

func newScriptConn(ip [4]byte, port int) *scriptConn {
	return &scriptConn{remote: &net.TCPAddr{IP: net.IPv4(ip[0], ip[1], ip[2], ip[3]), Port: port}}
}

// effectiveReads returns the end offsets of the pieces gnet's readLoop sees for a chunking: every conn.Read is
// issued by a bufio.Reader with a 4096 byte buffer and handed on through a 1024 byte buffer.
func effectiveReads(cuts []int) []int {
	var out []int
	pos := 0
	for _, end := range cuts {
		for pos < end {
			fill := end
			if fill-pos > 4096 {
				fill = pos + 4096
			}
			for pos < fill {
				p := fill
				if p-pos > 1024 {
					p = pos + 1024
				}
				out = append(out, p)
				pos = p
			}
		}
	}
	return out
}

// forEachChunking calls f with every chunking (ascending end offsets, last = n) of a stream of n bytes:
// n <= 14: every composition of n (2^(n-1));
// n <= longFrom: every split into at most 3 chunks, plus one byte per read;
// longer: one chunk, 1024 byte chunks, one byte per read (if n <= 1<<21), and every split into <= 2 chunks at a
// cut within 16 bytes of the start, the end or one of the marks (frame boundaries), plus pairs of those near-mark cuts
// that are at most 8 apart.
// The cuts slice is reused between calls.
const longFrom = 1500

func forEachChunking(n int, marks []int, f func(cuts []int)) int {
	count := 0
	emit := func(c []int) { count++; f(c) }
	if n == 0 {
		emit(nil)
		return count
	}
	buf := make([]int, 0, n)
	if n <= 14 {
		for mask := 0; mask < 1<<uint(n-1); mask++ {
			buf = buf[:0]
			for i := 1; i < n; i++ {
				if mask&(1<<uint(i-1)) != 0 {
					buf = append(buf, i)
				}
			}
			buf = append(buf, n)
			emit(buf)
		}
		return count
	}
	if n <= longFrom {
		emit(append(buf[:0], n))
		for i := 1; i < n; i++ {
			emit(append(buf[:0], i, n))
		}
		for i := 1; i < n; i++ {
			for j := i + 1; j < n; j++ {
				emit(append(buf[:0], i, j, n))
			}
		}
		buf = buf[:0]
		for i := 1; i <= n; i++ {
			buf = append(buf, i)
		}
		emit(buf)
		return count
	}
	emit(append(buf[:0], n))
	buf = buf[:0]
	for i := 1024; i < n; i += 1024 {
		buf = append(buf, i)
	}
	emit(append(buf, n))
	if n <= 1<<21 {
		all := make([]int, n)
		for i := range all {
			all[i] = i + 1
		}
		emit(all)
	}
	near := map[int]bool{}
	for _, m := range append([]int{0, n}, marks...) {
		for d := -16; d <= 16; d++ {
			if c := m + d; c > 0 && c < n {
				near[c] = true
			}
		}
	}
	var cs []int
	for c := range near {
		cs = append(cs, c)
	}
	sortInts(cs)
	for _, c := range cs {
		emit(append(buf[:0], c, n))
	}
	for a, c := range cs {
		for _, d := range cs[a+1:] {
			if d-c > 8 {
				break
			}
			emit(append(buf[:0], c, d, n))
		}
	}
	return count
}

func sortInts(a []int) {
	for i := 1; i < len(a); i++ {
		for j := i; j > 0 && a[j-1] > a[j]; j-- {
			a[j-1], a[j] = a[j], a[j-1]
		}
	}
}

// hashBag collects 64-bit hashes of cases from many workers (each worker appends to its own slice and hands it in
// once); Distinct sorts them and counts the distinct values.
type hashBag struct {
	mu  sync.Mutex
	all []uint64
}

func (b *hashBag) AddAll(h []uint64) {
	b.mu.Lock()
	b.all = append(b.all, h...)
	b.mu.Unlock()
}

func (b *hashBag) Distinct() int {
	b.mu.Lock()
	defer b.mu.Unlock()
	sort.Slice(b.all, func(i, j int) bool { return b.all[i] < b.all[j] })
	n := 0
	for i, v := range b.all {
		if i == 0 || v != b.all[i-1] {
			n++
		}
	}
	return n
}
