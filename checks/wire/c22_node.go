package main

import (
	"bytes"
	"fmt"

	"github.com/skycoin/skycoin/src/daemon"
	"github.com/skycoin/skycoin/src/daemon/gnet"

	"verif/engine"
)

// C22 part N — "the configured maximum" as a node means it.
//
// The main product sets gnet's receive limit itself.  A node gets it from its settings: daemon.Config.Pool carries an incoming
// and an outgoing maximum, daemon.New / NewPool hand them to the gnet pool.  Here the pool of a real Daemon is made from
// configurations whose two maxima differ (in both directions) or agree, and single well-formed frames with a length prefix at
// and around BOTH maxima go through the real readLoop: a frame is delivered exactly when its length prefix is within the
// configured INCOMING maximum, otherwise the connection is refused with the invalid-length disconnect.
func c22NodePath(r *engine.Run, outcomes *engine.Counter) map[string]interface{} {
	w := newGateWorld(r)
	if w == nil {
		return nil
	}
	defer w.closer()
	pairs := [][2]int{{40000, 65536}, {65536, 40000}, {50000, 50000}, {262144, 33000}, {33000, 262144}} // (the outgoing maximum must fit one maximum-sized block: >= 32969)
	evals := 0
	for _, p := range pairs {
		in, out := p[0], p[1]
		cfg := w.dcfg
		cfg.Pool.MaxIncomingMessageLength, cfg.Pool.MaxOutgoingMessageLength = in, out
		cfg.Daemon.MaxIncomingMessageLength, cfg.Daemon.MaxOutgoingMessageLength = uint64(in), uint64(out)
		dm, err := daemon.VerifNewDaemon(cfg, w.v)
		if err != nil {
			r.Broken("C22 part N: daemon.New(in=%d,out=%d): %v", in, out, err)
			continue
		}
		pool := daemon.VerifGnetPool(dm)
		go pool.RunOffline() //nolint
		lens := map[int]bool{}
		for _, m := range []int{in, out} {
			for d := -1; d <= 1; d++ {
				if m+d >= 4 {
					lens[m+d] = true
				}
			}
		}
		lens[4], lens[5] = true, true
		for L := range lens {
			// one frame: length prefix L, message id PING, L-4 payload bytes
			frame := append(le32(uint32(L)), []byte("PING")...)
			frame = append(frame, bytes.Repeat([]byte{0}, L-4)...)
			sc := newScriptConn([4]byte{10, 9, 8, 7}, 6000)
			sc.reset(frame, []int{len(frame)})
			conn := gnet.NewConnection(pool, 1, sc, 4, false)
			var frames [][]byte
			var rerr error
			cs := map[string]interface{}{"configured_incoming_maximum": in, "configured_outgoing_maximum": out, "frame_length_prefix": L}
			if pan, msg := engine.Catch(func() { frames, rerr = gnet.VerifReadLoop(pool, conn, 4) }); pan {
				r.Failf("readLoop:panic:node-configuration-path", cs, "daemon configured with incoming maximum %d, outgoing maximum %d: frame with length prefix %d: panic: %s", in, out, L, msg)
				continue
			}
			evals++
			cls := classifyReadErr(rerr)
			delivered := len(frames) == 1 && len(frames[0]) == L
			want := L <= in
			outcomes.Add(fmt.Sprintf("node-path:delivered=%v", delivered))
			switch {
			case want && !delivered:
				r.Failf("readLoop:frame-within-the-configured-incoming-maximum-not-delivered:node-configuration-path", cs,
					"daemon configured with incoming maximum %d, outgoing maximum %d: a frame with length prefix %d is not delivered (readLoop: %s, %d frames)", in, out, L, cls, len(frames))
			case !want && (delivered || len(frames) > 0):
				r.Failf("readLoop:frame-above-the-configured-incoming-maximum-delivered:node-configuration-path", cs,
					"daemon configured with incoming maximum %d, outgoing maximum %d: a frame with length prefix %d is delivered", in, out, L)
			case !want && rerr != gnet.ErrDisconnectInvalidMessageLength:
				r.Failf("readLoop:frame-above-the-configured-incoming-maximum-not-refused:node-configuration-path", cs,
					"daemon configured with incoming maximum %d, outgoing maximum %d: a frame with length prefix %d ends with %s instead of the invalid-length disconnect", in, out, L, cls)
			}
		}
		pool.Shutdown()
	}
	return map[string]interface{}{
		"what":           "gnet pool of a real Daemon made by daemon.New from settings with (incoming, outgoing) maxima (40000,65536) (65536,40000) (50000,50000) (262144,33000) (33000,262144); single frames with length prefix at and around both maxima through the real readLoop: delivered iff within the incoming maximum",
		"configurations": len(pairs),
		"frames":         evals,
	}
}
