// Command racepass/peers: free-running concurrent workloads on the lock-protected structures of the peers group
// (daemon.Connections, pex.Pex) for the race-detector supplement (engine.RacePass "peers:<workload>").  Every exported
// or event-handler entrance is called from 8 goroutines on ONE shared object; a report means an access that is not
// covered by the structure's lock.  It can only add findings.
package main

import (
	"fmt"
	"github.com/skycoin/skycoin/src/util/logging"
	"os"
	"sync"

	"github.com/skycoin/skycoin/src/cipher"
	"github.com/skycoin/skycoin/src/daemon"
	"github.com/skycoin/skycoin/src/daemon/pex"
	"github.com/skycoin/skycoin/src/params"
	"github.com/skycoin/skycoin/src/util/useragent"
)

const goroutines = 8

func par(rounds int, f func(g, i int)) {
	var wg sync.WaitGroup
	for g := 0; g < goroutines; g++ {
		wg.Add(1)
		go func(g int) {
			defer wg.Done()
			for i := 0; i < rounds; i++ {
				func() {
					defer func() { recover() }() //nolint:errcheck
					f(g, i)
				}()
			}
		}(g)
	}
	wg.Wait()
}

func intro(mirror uint32, port uint16) *daemon.IntroductionMessage {
	return &daemon.IntroductionMessage{Mirror: mirror, ListenPort: port, ProtocolVersion: 2,
		UserAgent:            useragent.Data{Coin: "skycoin", Version: "0.26.0"},
		UnconfirmedVerifyTxn: params.VerifyTxn{BurnFactor: 10, MaxTransactionSize: 32768, MaxDropletPrecision: 3},
		GenesisHash:          cipher.SumSHA256([]byte("genesis"))}
}

func main() {
	if len(os.Args) < 2 {
		os.Exit(2)
	}
	logging.Disable()
	switch os.Args[1] {
	case "connections": // C24
		c := daemon.NewConnections()
		par(300, func(g, i int) {
			addr := fmt.Sprintf("10.0.%d.%d:%d", g%3, i%4, 6000+i%3)
			id := uint64(g*1000 + i%5 + 1)
			switch i % 9 {
			case 0:
				daemon.VerifPending(c, addr) //nolint:errcheck
			case 1:
				daemon.VerifConnected(c, addr, id) //nolint:errcheck
			case 2:
				daemon.VerifIntroduced(c, addr, id, intro(uint32(g+1), uint16(6000+i%3))) //nolint:errcheck
			case 3:
				daemon.VerifRemove(c, addr, id) //nolint:errcheck
			case 4:
				daemon.VerifGet(c, addr)
				daemon.VerifGetByGnetID(c, id)
			case 5:
				daemon.VerifGetByListenAddr(c, addr)
				daemon.VerifAll(c)
			case 6:
				c.SetHeight(addr, id, uint64(i)) //nolint:errcheck
			case 7:
				c.IPCount(fmt.Sprintf("10.0.%d.%d", g%3, i%4))
				c.Len()
			case 8:
				c.OutgoingLen()
				c.PendingLen()
			}
		})
	case "pex": // C26
		dir, err := os.MkdirTemp("/dev/shm", "racepass-pex")
		if err != nil {
			dir, err = os.MkdirTemp("", "racepass-pex")
		}
		if err != nil {
			fmt.Fprintln(os.Stderr, err)
			os.Exit(2)
		}
		defer os.RemoveAll(dir)
		pc := pex.NewConfig()
		pc.DataDirectory = dir
		pc.Max = 6
		pc.DownloadPeerList = false
		pc.NetworkDisabled = true
		px, err := pex.New(pc)
		if err != nil {
			fmt.Fprintln(os.Stderr, err)
			os.Exit(2)
		}
		par(1500, func(g, i int) {
			a := fmt.Sprintf("11.%d.0.%d:6000", g%2, i%5+1)
			b := fmt.Sprintf("12.%d.0.%d:6000", g%2, i%3+1)
			switch i % 12 {
			case 0:
				px.AddPeer(a) //nolint:errcheck
			case 1:
				px.AddPeers([]string{a, b, "not-an-address"})
			case 2:
				px.RemovePeer(a)
			case 3:
				pex.VerifSetTrusted(px, a) //nolint:errcheck
			case 4:
				px.IncreaseRetryTimes(a)
				px.ResetRetryTimes(b)
			case 5:
				px.SetHasIncomingPort(a, true)                                         //nolint:errcheck
				px.SetUserAgent(a, useragent.Data{Coin: "skycoin", Version: "0.26.0"}) //nolint:errcheck
			case 6:
				px.RandomExchangeable(3)
				px.Random(2)
			case 7:
				px.Trusted()
				px.AllTrusted()
				px.ResetAllRetryTimes()
			case 8:
				px.GetPeer(a)
				px.IsFull()
			case 9:
				pex.VerifClearOld(px)
			case 10:
				pex.VerifSave(px) //nolint:errcheck
			case 11:
				pex.VerifDump(px)
			}
		})
	default:
		os.Exit(2)
	}
}
