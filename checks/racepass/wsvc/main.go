// Command racepass/wsvc: free-running concurrent workload on ONE wallet.Service (C19) for the race-detector supplement
// (engine.RacePass "wsvc:walletsvc").  Every exported method is called from 8 goroutines; a report means state of the
// service that is reached outside its lock.  It can only add findings.
package main

import (
	"errors"
	"fmt"
	"github.com/skycoin/skycoin/src/util/logging"
	"os"
	"sync"

	"github.com/skycoin/skycoin/src/cipher"
	"github.com/skycoin/skycoin/src/cipher/crypto"
	"github.com/skycoin/skycoin/src/wallet"
	_ "github.com/skycoin/skycoin/src/wallet/bip44wallet"
	_ "github.com/skycoin/skycoin/src/wallet/collection"
	_ "github.com/skycoin/skycoin/src/wallet/deterministic"
	_ "github.com/skycoin/skycoin/src/wallet/xpubwallet"
)

const goroutines = 8

type noActivity struct{}

func (noActivity) AddressesActivity(addrs []cipher.Addresser) ([]bool, error) {
	return make([]bool, len(addrs)), nil
}

func main() {
	if len(os.Args) < 2 || os.Args[1] != "walletsvc" {
		os.Exit(2)
	}
	cipher.DebugLevel1, cipher.DebugLevel2 = false, false
	logging.Disable()
	dir, err := os.MkdirTemp("/dev/shm", "racepass-wsvc")
	if err != nil {
		dir, err = os.MkdirTemp("", "racepass-wsvc")
	}
	if err != nil {
		fmt.Fprintln(os.Stderr, err)
		os.Exit(2)
	}
	defer os.RemoveAll(dir)
	cfg := wallet.NewConfig()
	cfg.WalletDir = dir
	cfg.EnableWalletAPI = true
	cfg.EnableSeedAPI = true
	cfg.CryptoType = crypto.CryptoTypeSha256Xor
	s, err := wallet.NewService(cfg)
	if err != nil {
		fmt.Fprintln(os.Stderr, err)
		os.Exit(2)
	}
	pw := []byte("pw")
	var wg sync.WaitGroup
	for g := 0; g < goroutines; g++ {
		wg.Add(1)
		go func(g int) {
			defer wg.Done()
			for i := 0; i < 40; i++ {
				func() {
					defer func() { recover() }()          //nolint:errcheck
					id := fmt.Sprintf("w%d.wlt", (g+i)%3) // three wallet ids shared by all goroutines
					switch i % 12 {
					case 0:
						s.CreateWallet(id, wallet.Options{Type: wallet.WalletTypeDeterministic, Seed: fmt.Sprintf("seed %d", (g+i)%3), Label: "l", CryptoType: crypto.CryptoTypeSha256Xor}) //nolint:errcheck
					case 1:
						s.NewAddresses(id, nil, wallet.OptionGenerateN(1)) //nolint:errcheck
						s.NewAddresses(id, pw, wallet.OptionGenerateN(1))  //nolint:errcheck
					case 2:
						s.UpdateWalletLabel(id, fmt.Sprintf("label-%d", g)) //nolint:errcheck
					case 3:
						s.EncryptWallet(id, pw) //nolint:errcheck
					case 4:
						s.DecryptWallet(id, pw) //nolint:errcheck
					case 5:
						s.GetWallets()  //nolint:errcheck
						s.GetWallet(id) //nolint:errcheck
					case 6:
						s.ScanAddresses(id, nil, 2, noActivity{}) //nolint:errcheck
					case 7:
						s.Update(id, func(w wallet.Wallet) error { w.SetLabel("u"); return nil })        //nolint:errcheck
						s.UpdateSecrets(id, pw, func(w wallet.Wallet) error { return errors.New("no") }) //nolint:errcheck
					case 8:
						s.View(id, func(w wallet.Wallet) error { _ = w.Label(); return nil })           //nolint:errcheck
						s.ViewSecrets(id, pw, func(w wallet.Wallet) error { _ = w.Seed(); return nil }) //nolint:errcheck
					case 9:
						s.GetWalletSeed(id, pw) //nolint:errcheck
						s.WalletDir()           //nolint:errcheck
					case 10:
						s.RecoverWallet(id, fmt.Sprintf("seed %d", (g+i)%3), "", nil) //nolint:errcheck
					case 11:
						if g == 0 {
							s.UnloadWallet(id) //nolint:errcheck
						}
					}
				}()
			}
		}(g)
	}
	wg.Wait()
}
