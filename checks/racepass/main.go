// Command racepass: free-running concurrent workloads for the race-detector supplement (engine.RacePass).
// Each workload calls re-entrant library functions from 8 goroutines with DIFFERENT inputs for a fixed number of rounds.
package main

import (
	"fmt"
	"os"
	"sync"

	"github.com/skycoin/skycoin/src/cipher"
	"github.com/skycoin/skycoin/src/cipher/base58"
	"github.com/skycoin/skycoin/src/cipher/bip32"
	"github.com/skycoin/skycoin/src/cipher/bip39"
	"github.com/skycoin/skycoin/src/cipher/encoder"
	"github.com/skycoin/skycoin/src/coin"
	"github.com/skycoin/skycoin/src/params"
	"github.com/skycoin/skycoin/src/transaction"
	"github.com/skycoin/skycoin/src/util/droplet"
	"github.com/skycoin/skycoin/src/util/fee"
	"github.com/skycoin/skycoin/src/util/mathutil"
)

const goroutines = 8

func par(rounds int, f func(g, i int)) {
	var wg sync.WaitGroup
	for g := 0; g < goroutines; g++ {
		wg.Add(1)
		go func(g int) {
			defer wg.Done()
			for i := 0; i < rounds; i++ {
				f(g, i)
			}
		}(g)
	}
	wg.Wait()
}

type kp struct {
	pub  cipher.PubKey
	sec  cipher.SecKey
	addr cipher.Address
}

func keys() []kp {
	var ks []kp
	for g := 0; g < goroutines; g++ {
		p, s := cipher.MustGenerateDeterministicKeyPair([]byte(fmt.Sprintf("racepass-%d", g)))
		ks = append(ks, kp{p, s, cipher.AddressFromPubKey(p)})
	}
	return ks
}

func mkTxn(k kp, n int) (coin.Transaction, coin.UxArray) {
	ux := coin.UxOut{Head: coin.UxHead{Time: 100, BkSeq: 2}, Body: coin.UxBody{SrcTransaction: cipher.SumSHA256([]byte{byte(n)}), Address: k.addr, Coins: 10e6, Hours: 1000}}
	var t coin.Transaction
	t.PushInput(ux.Hash())                             //nolint:errcheck
	t.PushOutput(k.addr, 4e6, 100)                     //nolint:errcheck
	t.PushOutput(cipher.Address{Version: 0}, 6e6, 200) //nolint:errcheck
	t.SignInputs([]cipher.SecKey{k.sec})
	t.UpdateHeader() //nolint:errcheck
	return t, coin.UxArray{ux}
}

func main() {
	if len(os.Args) < 2 {
		os.Exit(2)
	}
	ks := keys()
	switch os.Args[1] {
	case "signatures": // C10, C14
		type sg struct {
			h      cipher.SHA256
			sig    cipher.Sig
			mirror cipher.Sig
		}
		sgs := make([]sg, goroutines)
		for g := range sgs {
			h := cipher.SumSHA256([]byte(fmt.Sprintf("msg-%d", g)))
			s := cipher.MustSignHash(h, ks[g].sec)
			m := s
			m[64] ^= 1
			sgs[g] = sg{h, s, m}
		}
		par(100, func(g, i int) {
			x := sgs[g]
			cipher.VerifyPubKeySignedHash(ks[g].pub, x.sig, x.h)                //nolint:errcheck
			cipher.VerifyAddressSignedHash(ks[g].addr, x.sig, x.h)              //nolint:errcheck
			cipher.VerifySignatureRecoverPubKey(x.mirror, x.h)                  //nolint:errcheck
			cipher.PubKeyFromSig(x.sig, x.h)                                    //nolint:errcheck
			cipher.VerifyPubKeySignedHash(ks[(g+1)%goroutines].pub, x.sig, x.h) //nolint:errcheck
			if i%20 == 0 {
				cipher.SignHash(x.h, ks[g].sec)                  //nolint:errcheck
				cipher.ECDH(ks[(g+1)%goroutines].pub, ks[g].sec) //nolint:errcheck
				cipher.PubKeyFromSecKey(ks[g].sec)               //nolint:errcheck
			}
		})
	case "transactions": // C09, C11
		dist := params.MainNetDistribution
		par(50, func(g, i int) {
			t, uxs := mkTxn(ks[g], g)
			t.Verify()                   //nolint:errcheck
			t.VerifyUnsigned()           //nolint:errcheck
			t.VerifyInputSignatures(uxs) //nolint:errcheck
			b, _ := t.Serialize()
			coin.DeserializeTransaction(b) //nolint:errcheck
			head := coin.BlockHeader{Time: 5000, BkSeq: 3}
			transaction.VerifySingleTxnHardConstraints(t, head, uxs, transaction.TxnSigned)           //nolint:errcheck
			transaction.VerifySingleTxnSoftConstraints(t, head.Time, uxs, dist, params.UserVerifyTxn) //nolint:errcheck
			fee.TransactionFee(&t, head.Time, uxs)                                                    //nolint:errcheck
			uxs[0].CoinHours(uint64(5000 + g))                                                        //nolint:errcheck
		})
	case "text": // C15, C30, C31
		par(400, func(g, i int) {
			s := ks[g].addr.String()
			cipher.DecodeBase58Address(s) //nolint:errcheck
			b, _ := base58.Decode(s)
			base58.Encode(b)
			d, _ := droplet.FromString(fmt.Sprintf("%d.%06d", g+1, i))
			droplet.ToString(d)                       //nolint:errcheck
			mathutil.AddUint64(uint64(g), uint64(i))  //nolint:errcheck
			mathutil.MultUint64(uint64(g), uint64(i)) //nolint:errcheck
			fee.RequiredFee(uint64(i*1000+g), 10)
		})
	case "hd": // C16
		// one reloaded extended public key shared by all goroutines (a wallet's account xpub): concurrent child derivations
		shared, err := bip32.DeserializeEncodedPublicKey("xpub661MyMwAqRbcFtXgS5sYJABqqG9YLmC4Q1Rdap9gSE8NqtwybGhePY2gZ29ESFjqJoCu1Rupje8YtGqsefD265TMg7usUDFdp6W1EGMcet8")
		if err == nil {
			cl := shared.Clone()
			par(200, func(g, i int) {
				shared.NewPublicChildKey(uint32(g*1000 + i)) //nolint:errcheck
				cl.NewPublicChildKey(uint32(g*1000 + i))     //nolint:errcheck
			})
		}
		par(12, func(g, i int) {
			ent, _ := bip39.NewEntropy(128)
			_ = ent
			m := "abandon abandon abandon abandon abandon abandon abandon abandon abandon abandon abandon about"
			bip39.ValidateMnemonic(m) //nolint:errcheck
			seed, _ := bip39.NewSeed(m, fmt.Sprintf("pw%d", g))
			k, err := bip32.NewMasterKey(seed)
			if err != nil {
				return
			}
			c, err := k.NewPrivateChildKey(uint32(g))
			if err == nil {
				c.PublicKey().NewPublicChildKey(uint32(i))     //nolint:errcheck
				bip32.DeserializeEncodedPrivateKey(c.String()) //nolint:errcheck
			}
		})
	case "codec": // C21
		par(80, func(g, i int) {
			t, _ := mkTxn(ks[g], g+i)
			b := encoder.Serialize(&t)
			var t2 coin.Transaction
			encoder.DeserializeRawExact(b, &t2) //nolint:errcheck
			bs, _ := t.Serialize()
			coin.DeserializeTransaction(bs) //nolint:errcheck
			blk := coin.SignedBlock{}
			blk.Body.Transactions = coin.Transactions{t}
			encoder.Serialize(&blk)
			blk.Block.HashHeader()
		})
	default:
		os.Exit(2)
	}
}
