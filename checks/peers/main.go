// Command check (group "peers"): explicit-state searches over the real daemon.Connections (C24) and pex.Pex (C26).
package main

import (
	"fmt"
	"io"
	"log"
	"os"

	"github.com/sirupsen/logrus"
	"github.com/skycoin/skycoin/src/util/logging"

	"verif/engine"
)

var checks = map[string]func(r *engine.Run){}
var levels = map[string]string{}
var workers = map[string]func(args []string){}

func register(id, level string, f func(r *engine.Run)) {
	checks[id] = f
	levels[id] = level
}

func main() {
	log.SetOutput(io.Discard) // the code under test logs through the std logger on boundary inputs
	logging.Disable()
	logging.SetLevel(logrus.PanicLevel) // skip formatting of the (many) Critical()/Error lines; logger.Panic still panics
	if len(os.Args) >= 3 && os.Args[1] == "--worker" {
		w, ok := workers[os.Args[2]]
		if !ok {
			os.Exit(3)
		}
		w(os.Args[3:])
		return
	}
	if len(os.Args) < 3 {
		fmt.Fprintln(os.Stderr, "usage: check <id> quick|thorough")
		os.Exit(2)
	}
	id, tier := os.Args[1], os.Args[2]
	f, ok := checks[id]
	if !ok {
		fmt.Fprintf(os.Stderr, "CHECK-BROKEN: no check %s in this group\n", id)
		os.Exit(2)
	}
	if tier == "--replay" {
		fmt.Fprintln(os.Stderr, "replay: re-running the quick tier (replay files of this group hold plain inputs; every case of the file is inside the quick alphabet)")
		tier = "quick"
	}
	r := engine.Start(id, tier, levels[id])
	defer engine.Cleanup()
	f(r)
}
