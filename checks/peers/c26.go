package main

import (
	"verif/shim/vlock"
	"encoding/json"
	"fmt"
	"os"
	"path/filepath"
	"sort"
	"strconv"
	"strings"
	"sync"
	"time"

	"github.com/skycoin/skycoin/src/daemon/pex"

	"verif/engine"
	model "verif/model/peers"
	"verif/shim/vrand"
	"verif/shim/vtime"
)

// C26 — the peer list only contains valid peers and respects its bound.
//
// Part A (deep): explicit-state search (engine.BFS, replay states) over the REAL pex.Pex for each configuration
// Max ∈ {2,3} × AllowLocalhost ∈ {false,true}.  The clock (vtime) is virtual — advancing it is an operation — and
// every Shuffle answer of AddPeers (vrand) is a separate operation variant.  vtime/vrand are process-global, so each
// configuration is searched by its own worker subprocess (sequential BFS inside).
// Part B (wide): every address string of the full alphabet goes through every way an address can enter the list
// (AddPeer, AddPeers alone / next to a valid one under both shuffle answers, peers.json cache, custom peers file,
// default connections) on a fresh Pex.
// Oracle: model/peers (independent validator + step relation written from the statement).
func init() {
	register("C26", "model_checking", c26)
	workers["c26bfs"] = c26worker
}

const c26T0 = int64(1700000000)

var (
	c26P1, c26P2, c26P3 = "1.2.3.4:6000", "5.6.7.8:6001", "9.10.11.12:1024"
	c26LH               = "127.0.0.1:6000"
	c26I1, c26I2        = "1.2.3.4:1023", "224.0.0.1:6000"
	c26W                = " 1.2.3.4:6000\t" // white-space spelling of P1
	c26AddAlphabet      = []string{c26P1, c26P2, c26P3, c26LH, c26I1, c26I2, c26W}
	c26Storable         = []string{c26P1, c26P2, c26P3, c26LH}
	c26Lists            = [][]string{
		{c26P1, c26P2},
		{c26P2, c26P3},
		{c26P1, c26P2, c26P3},
		{c26P3, c26LH, c26P1},
		{c26P1, c26I1, c26P2},
		{c26I1, c26I2},
		{c26P2, c26P2, c26P3}, // duplicate inside the batch
		{c26W, c26P1, c26P3},  // two spellings of one peer inside the batch
		{c26LH},
	}
	c26Clock = map[string]time.Duration{"+1h": time.Hour, "+25h": 25 * time.Hour, "+8d": 8 * 24 * time.Hour}
)

type c26op struct {
	K   string `json:"op"`
	A   string `json:"addr,omitempty"`
	L   int    `json:"list,omitempty"`
	Ans []int  `json:"shuffle,omitempty"`
	D   string `json:"advance,omitempty"`
}

func (o c26op) String() string {
	switch o.K {
	case model.OpAddPeers:
		return fmt.Sprintf("AddPeers(%q shuffle=%v)", c26Lists[o.L], o.Ans)
	case model.OpClock:
		return "clock" + o.D
	case model.OpClearOld, model.OpReload:
		return o.K
	}
	return fmt.Sprintf("%s(%q)", o.K, o.A)
}

type c26fail struct {
	Sig    string      `json:"sig"`
	Detail string      `json:"detail"`
	Case   interface{} `json:"case"`
}

// c26sink collects failures and counters inside a worker (engine.Run lives in the parent).
type c26sink struct {
	Fails    []c26fail `json:"fails"`
	perSig   map[string]int
	Counters map[string]int `json:"counters"`
	Broken   string         `json:"broken"`
}

func newSink() *c26sink { return &c26sink{perSig: map[string]int{}, Counters: map[string]int{}} }
func (s *c26sink) failf(sig string, c interface{}, format string, a ...interface{}) {
	s.perSig[sig]++
	if s.perSig[sig] <= 5 {
		s.Fails = append(s.Fails, c26fail{sig, fmt.Sprintf(format, a...), c})
	}
}
func (s *c26sink) broken(format string, a ...interface{}) {
	if s.Broken == "" {
		s.Broken = fmt.Sprintf(format, a...)
	}
}

type c26cfg struct {
	Max            int
	AllowLocalhost bool
}

func (c c26cfg) String() string {
	return fmt.Sprintf("Max=%d,AllowLocalhost=%v", c.Max, c.AllowLocalhost)
}

type c26live struct {
	px       *pex.Pex
	dir      string
	now      time.Time     // this instance's virtual clock
	advanced time.Duration // explicit clock operations so far
	hist     []c26op
}

var c26dirSeq int

func c26newPex(cfg c26cfg, dir string, defaults []string, custom string) (*pex.Pex, error) {
	pc := pex.NewConfig()
	pc.DataDirectory = dir
	pc.Max = cfg.Max
	pc.AllowLocalhost = cfg.AllowLocalhost
	pc.DownloadPeerList = false // no network activity
	pc.NetworkDisabled = true
	pc.DefaultConnections = defaults
	pc.CustomPeersFile = custom
	return pex.New(pc)
}

func c26view(px *pex.Pex) ([]model.PeerView, []pex.VerifPeer, bool) {
	d := pex.VerifDump(px)
	out := make([]model.PeerView, 0, len(d))
	nilEntry := false
	for _, p := range d {
		if p.Nil {
			nilEntry = true
		}
		out = append(out, model.PeerView{Key: p.Key, Addr: p.Addr, LastSeen: p.LastSeen, Trusted: p.Trusted, Retry: p.RetryTimes})
	}
	return out, d, nilEntry
}

type c26search struct {
	cfg  c26cfg
	sink *c26sink
}

func (x *c26search) newLive() *c26live {
	c26dirSeq++
	dir := filepath.Join(engine.Scratch(), fmt.Sprintf("c26-%d", c26dirSeq))
	os.MkdirAll(dir, 0o755)
	vtime.SetUnix(c26T0)
	vrand.Install(&vrand.Script{})
	px, err := c26newPex(x.cfg, dir, nil, "")
	if err != nil {
		x.sink.broken("pex.New on an empty directory failed: %v", err)
		panic(err)
	}
	now, _ := vtime.Peek()
	return &c26live{px: px, dir: dir, now: now}
}

func (x *c26search) key(l *c26live) string {
	d := pex.VerifDump(l.px)
	now := l.now.Unix()
	// rank of LastSeen (ties share a rank) + whole hours of age: with an auto-tick of 1 s and clock operations
	// in whole hours the seconds part of an age is in [1,3600) and never decides a comparison with 24 h / 7 d
	ls := []int64{}
	for _, p := range d {
		ls = append(ls, p.LastSeen)
	}
	sort.Slice(ls, func(i, j int) bool { return ls[i] < ls[j] })
	rank := map[int64]int{}
	for _, v := range ls {
		if _, ok := rank[v]; !ok {
			rank[v] = len(rank)
		}
	}
	var b strings.Builder
	for _, p := range d {
		fmt.Fprintf(&b, "[%q %q nil=%v ageh=%d rank=%d T=%v R=%d I=%v]", p.Key, p.Addr, p.Nil, (now-p.LastSeen)/3600, rank[p.LastSeen], p.Trusted, p.RetryTimes, p.HasIncomingPort)
	}
	return b.String()
}

func perms(arity []int) [][]int {
	out := [][]int{{}}
	for _, n := range arity {
		var nx [][]int
		for _, p := range out {
			for a := 0; a < n; a++ {
				nx = append(nx, append(append([]int{}, p...), a))
			}
		}
		out = nx
	}
	return out
}

func (x *c26search) ops(l *c26live) []c26op {
	d := pex.VerifDump(l.px)
	var ops []c26op
	for _, a := range c26AddAlphabet {
		ops = append(ops, c26op{K: model.OpAdd, A: a})
	}
	full := len(d) >= x.cfg.Max
	for i, lst := range c26Lists {
		k := 0
		for _, a := range lst {
			if model.ClassifyPeerAddr(model.StripSpace(a), x.cfg.AllowLocalhost).OK {
				k++
			}
		}
		var arity []int
		if !full { // a full list returns before the shuffle: no choice point
			for n := k; n >= 2; n-- {
				arity = append(arity, n)
			}
		}
		for _, ans := range perms(arity) {
			ops = append(ops, c26op{K: model.OpAddPeers, L: i, Ans: ans})
		}
	}
	for _, a := range append(append([]string{}, c26Storable...), c26W) {
		ops = append(ops, c26op{K: model.OpRemove, A: a})
	}
	for _, a := range append(append([]string{}, c26Storable...), c26I1) {
		ops = append(ops, c26op{K: model.OpTrust, A: a})
	}
	for _, a := range []string{c26P1, c26P2, c26LH} {
		// 11 failed connection attempts in a row; offered while the counter is small (22 is already far beyond MaxPeerRetryTimes)
		for _, p := range d {
			if p.Key == a && p.RetryTimes <= 11 {
				ops = append(ops, c26op{K: model.OpRetry, A: a})
			}
		}
	}
	for _, dname := range []string{"+1h", "+25h", "+8d"} {
		ops = append(ops, c26op{K: model.OpClock, D: dname})
	}
	ops = append(ops, c26op{K: model.OpClearOld}, c26op{K: model.OpReload})
	return ops
}

func (x *c26search) apply(l *c26live, op c26op, check bool) string {
	vtime.Set(l.now)
	vtime.SetAutoTick(time.Second)
	sc := &vrand.Script{Answers: op.Ans}
	vrand.Install(sc)
	pre, _, _ := c26view(l.px)
	nowPre := l.now.Unix()
	l.hist = append(l.hist, op)
	cse := map[string]interface{}{"config": x.cfg.String(), "ops": append([]c26op{}, l.hist...), "trace": fmt.Sprint(l.hist)}

	var args []string
	var err error
	var n int
	outcome := op.K
	panicked, pmsg := engine.Catch(func() {
		switch op.K {
		case model.OpAdd:
			args = []string{op.A}
			err = l.px.AddPeer(op.A)
		case model.OpAddPeers:
			args = append([]string{}, c26Lists[op.L]...)
			n = l.px.AddPeers(append([]string{}, args...))
		case model.OpRemove:
			args = []string{op.A}
			l.px.RemovePeer(op.A)
		case model.OpTrust:
			args = []string{op.A}
			err = pex.VerifSetTrusted(l.px, op.A)
		case model.OpRetry:
			args = []string{op.A}
			for i := 0; i < 11; i++ {
				l.px.IncreaseRetryTimes(op.A)
			}
		case model.OpClock:
			vtime.Advance(c26Clock[op.D])
			l.advanced += c26Clock[op.D]
		case model.OpClearOld:
			pex.VerifClearOld(l.px)
		case model.OpReload:
			// the node's default connections are its trusted peers: New() re-creates the trusted flags from them
			for _, p := range pre {
				if p.Trusted {
					args = append(args, p.Key)
				}
			}
			if err = pex.VerifSave(l.px); err != nil {
				return
			}
			var npx *pex.Pex
			npx, err = c26newPex(x.cfg, l.dir, args, "")
			if err == nil {
				l.px = npx
			}
		}
	})
	l.now, _ = vtime.Peek()
	if ticks := l.now.Sub(time.Unix(c26T0, 0)) - l.advanced; ticks >= time.Hour {
		x.sink.broken("auto-ticks accumulated to %v: the hour abstraction of the state key is no longer exact", ticks)
	}
	if !check {
		return ""
	}
	post, dump, nilEntry := c26view(l.px)
	if panicked {
		x.sink.failf("Pex."+op.K+":panic", cse, "%v: panic %s", l.hist, pmsg)
		return op.K + ":panic"
	}
	if nilEntry {
		x.sink.failf("Pex."+op.K+":nil-entry-in-peer-map", cse, "%v", l.hist)
	}
	step := model.PexStep{Op: op.K, Args: args, Max: x.cfg.Max, AllowLoopback: x.cfg.AllowLocalhost, Now: nowPre,
		Expiration: int64(l.px.Config.Expiration / time.Second), Pre: pre, Post: post}
	for _, v := range model.JudgePexStep(step) {
		x.sink.failf(v.Sig, cse, "[%s] after %v: %s", x.cfg, l.hist, v.Detail)
	}
	// outcome classes + what the return values promise
	inPost := func(a string) bool {
		for _, p := range post {
			if p.Key == a {
				return true
			}
		}
		return false
	}
	switch op.K {
	case model.OpAdd:
		ca := model.StripSpace(op.A)
		switch {
		case err == nil && !inPost(ca):
			x.sink.failf("Pex.add:nil-error-but-peer-absent", cse, "[%s] after %v", x.cfg, l.hist)
		case err == nil && len(post) == len(pre) && len(pre) > 0 && !samePeers(pre, post):
			outcome += ":evicted-one"
		case err == nil && len(post) > len(pre):
			outcome += ":added"
		case err == nil:
			outcome += ":seen-again"
		case err == pex.ErrPeerlistFull:
			outcome += ":full"
		case err == pex.ErrInvalidAddress:
			outcome += ":invalid"
		default:
			outcome += ":other-error"
		}
		if err != nil && !samePeers(pre, post) {
			x.sink.failf("Pex.add:error-but-list-changed", cse, "[%s] after %v: %v", x.cfg, l.hist, err)
		}
	case model.OpAddPeers:
		grown := len(post) - len(pre)
		valid := 0
		for _, a := range args {
			if model.ClassifyPeerAddr(model.StripSpace(a), x.cfg.AllowLocalhost).OK {
				valid++
			}
		}
		switch {
		case len(pre) >= x.cfg.Max:
			outcome += ":full-noop"
		case valid > x.cfg.Max-len(pre):
			outcome += ":truncated"
		case grown == 0:
			outcome += ":nothing-new"
		default:
			outcome += ":all-fit"
		}
		if n < grown {
			x.sink.failf("Pex.addPeers:return-value-below-peers-added", cse, "[%s] after %v: returned %d, list grew by %d", x.cfg, l.hist, n, grown)
		}
		// the harness enumerates the shuffle answers from its own idea of how many addresses are valid
		want := 0
		if len(pre) < x.cfg.Max && valid >= 2 {
			want = valid - 1
		}
		if len(sc.Arity) != want {
			x.sink.broken("AddPeers(%q) in %s consumed %d shuffle choices, harness expected %d", args, x.cfg, len(sc.Arity), want)
		}
	case model.OpRemove:
		if len(post) < len(pre) {
			outcome += ":removed"
		} else {
			outcome += ":absent"
		}
	case model.OpTrust:
		if err == nil {
			outcome += ":ok"
		} else {
			outcome += ":error"
		}
	case model.OpClearOld:
		if len(post) < len(pre) {
			outcome += ":dropped-stale"
		} else {
			outcome += ":nothing-stale"
		}
	case model.OpReload:
		if err != nil {
			x.sink.failf("Pex.reload:cannot-load-own-file", cse, "[%s] after %v: %v", x.cfg, l.hist, err)
			outcome += ":error"
		} else if len(post) < len(pre) {
			outcome += ":dropped-retried-out-peer"
		} else {
			outcome += ":same-peers"
		}
	}
	x.observe(l, dump, cse)
	return outcome
}

func samePeers(a, b []model.PeerView) bool {
	if len(a) != len(b) {
		return false
	}
	for i := range a {
		if a[i].Key != b[i].Key {
			return false
		}
	}
	return true
}

// observe: the public read side must agree with the private map and never hand out an invalid address.
func (x *c26search) observe(l *c26live, dump []pex.VerifPeer, cse interface{}) {
	saved, _ := vtime.Peek()
	defer vtime.Set(saved)
	vrand.Install(&vrand.Script{})
	in := map[string]pex.VerifPeer{}
	for _, p := range dump {
		in[p.Key] = p
	}
	chk := func(site string, ps pex.Peers) {
		x.sink.Counters["getter_calls"]++
		for _, p := range ps {
			q, ok := in[p.Addr]
			if !ok {
				x.sink.failf("Pex."+site+":returns-peer-not-in-list", cse, "[%s] after %v: %s", x.cfg, l.hist, p.Addr)
				continue
			}
			if q.Trusted != p.Trusted || q.LastSeen != p.LastSeen {
				x.sink.failf("Pex."+site+":returns-stale-copy", cse, "[%s] after %v: %+v vs %+v", x.cfg, l.hist, p, q)
			}
			if c := model.ClassifyPeerAddr(p.Addr, x.cfg.AllowLocalhost); !c.OK {
				x.sink.failf("Pex."+site+":returns-invalid-address:"+c.Reason, cse, "[%s] after %v: %q", x.cfg, l.hist, p.Addr)
			}
		}
	}
	if pan, msg := engine.Catch(func() {
		chk("Random", l.px.Random(0))
		chk("RandomExchangeable", l.px.RandomExchangeable(0))
		chk("Trusted", l.px.Trusted())
		chk("AllTrusted", l.px.AllTrusted())
	}); pan {
		x.sink.failf("Pex.getters:panic", cse, "[%s] after %v: %s", x.cfg, l.hist, msg)
	}
	for _, a := range c26Storable {
		x.sink.Counters["getter_calls"]++
		p, ok := l.px.GetPeer(a)
		if _, has := in[a]; has != ok || (ok && p.Addr != a) {
			x.sink.failf("Pex.GetPeer:disagrees-with-list", cse, "[%s] after %v: GetPeer(%s)=%v,%v", x.cfg, l.hist, a, p.Addr, ok)
		}
	}
	if l.px.IsFull() != (len(dump) >= x.cfg.Max) {
		x.sink.failf("Pex.IsFull:disagrees-with-list", cse, "[%s] after %v: IsFull=%v with %d/%d peers", x.cfg, l.hist, l.px.IsFull(), len(dump), x.cfg.Max)
	}
}

type c26workerOut struct {
	Config string           `json:"config"`
	Res    engine.BFSResult `json:"res"`
	Sink   *c26sink         `json:"sink"`
}

// c26worker: args = max allowLocalhost depth budgetSeconds
func c26worker(args []string) {
	defer engine.Cleanup()
	max, _ := strconv.Atoi(args[0])
	allow := args[1] == "true"
	depth, _ := strconv.Atoi(args[2])
	budget, _ := strconv.Atoi(args[3])
	x := &c26search{cfg: c26cfg{max, allow}, sink: newSink()}
	deadline := time.Now().Add(time.Duration(budget) * time.Second)
	sp := engine.Space[*c26live, c26op]{
		New:      x.newLive,
		Close:    func(l *c26live) { os.RemoveAll(l.dir) },
		Ops:      x.ops,
		Apply:    x.apply,
		Key:      x.key,
		MaxDepth: depth,
		Workers:  1, // vtime / vrand are process-global
		Stop:     func() bool { return time.Now().After(deadline) },
		Invariant: func(l *c26live, hist []c26op) {
			v, _, _ := c26view(l.px)
			for _, f := range model.JudgeList(v, x.cfg.Max, x.cfg.AllowLocalhost, "Pex.state") {
				x.sink.failf(f.Sig, map[string]interface{}{"config": x.cfg.String(), "ops": hist, "trace": fmt.Sprint(hist)}, "[%s] after %v: %s", x.cfg, hist, f.Detail)
			}
			x.sink.Counters[fmt.Sprintf("states_with_%d_peers", len(v))]++
			nt := 0
			for _, p := range v {
				if p.Trusted {
					nt++
				}
			}
			if nt > 0 {
				x.sink.Counters["states_with_trusted_peer"]++
			}
		},
	}
	var out c26workerOut
	if pan, msg := engine.Catch(func() { out.Res = engine.BFS(sp) }); pan {
		x.sink.broken("worker panic: %s", msg)
	}
	out.Config = x.cfg.String()
	out.Sink = x.sink
	json.NewEncoder(os.Stdout).Encode(out)
}

// ---------------------------------------------------------------------------------------------
// Part B: the full address alphabet through every entrance (single step, fresh Pex each time).
// ---------------------------------------------------------------------------------------------

var c26FullAlphabet = []string{
	// IP classes
	"1.2.3.4:6000", "8.8.8.8:1024", "8.8.8.8:65535", "10.0.0.1:6000", "192.168.1.1:6000", "172.16.0.1:6000", "100.64.0.1:6000", "240.0.0.1:6000",
	"127.0.0.1:6000", "127.255.255.254:6000", "127.0.0.1:1023", "169.254.1.1:6000", "224.0.0.1:6000", "239.255.255.255:6000", "255.255.255.255:6000", "0.0.0.0:6000", "0.1.2.3:6000",
	// ports
	"1.2.3.4:0", "1.2.3.4:1023", "1.2.3.4:1024", "1.2.3.4:65535", "1.2.3.4:65536", "1.2.3.4:", "1.2.3.4:+1024", "1.2.3.4:01024", "1.2.3.4:0000001024", "1.2.3.4:-1", "1.2.3.4:1e4", "1.2.3.4:0x1770", "1.2.3.4:99999999999999999999", "1.2.3.4:6_000",
	// IPv6 forms
	"[::1]:6000", "::1:6000", "[2001:db8::1]:6000", "2001:db8::1:6000", "::ffff:1.2.3.4:6000", "[::ffff:1.2.3.4]:6000", "fe80::1%eth0:6000", "::6000", "[1.2.3.4]:6000",
	// white space
	" 1.2.3.4:6000", "1.2.3.4:6000\n", "1.2.3.4 :6000", "1.2. 3.4:6000", "1.2.3.4:60 00", "1.2.3.4:\t6000", " 1.2.3.4:6000", "1.2.3.4:6000 ", "1.2.3.4:6000\r\n", " ",
	// colons
	"1.2.3.4", "1.2.3.4:6000:7000", ":6000", "1.2.3.4::6000", ":", "1.2.3.4:6000:",
	// non-ASCII digits
	"１.2.3.4:6000", "1.2.3.4:６000", "1.2.3.4:٦٠٠٠", "١.2.3.4:6000",
	// other
	"", "localhost:6000", "example.com:6000", "1.2.3:6000", "1.2.3.4.5:6000", "256.1.1.1:6000", "01.2.3.4:6000", "1.2.3.4:6000/", "0x1.2.3.4:6000", "1.2.3.4:6000\x00", "1.2.3.4:6000#x", "#1.2.3.4:6000",
}

type c26wide struct {
	evals      int
	outcomes   *engine.Counter
	nontrivial *engine.Set
}

func c26partB(r *engine.Run) *c26wide {
	w := &c26wide{outcomes: engine.NewCounter(), nontrivial: engine.NewSet()}
	vtime.SetUnix(c26T0)
	vtime.SetAutoTick(0)
	seq := 0
	freshDir := func() string {
		seq++
		d := filepath.Join(engine.Scratch(), fmt.Sprintf("c26b-%d", seq))
		os.MkdirAll(d, 0o755)
		return d
	}
	valid := "44.44.44.44:4444"
	type cs struct {
		Entrance, Addr string
		AllowLocalhost bool
		Shuffle        []int
	}
	for _, allow := range []bool{false, true} {
		cfg := c26cfg{Max: 3, AllowLocalhost: allow}
		judge := func(c cs, px *pex.Pex, args []string) {
			w.evals++
			v, _, _ := c26view(px)
			fs := model.JudgeList(v, cfg.Max, allow, "Pex."+c.Entrance)
			clean := map[string]bool{}
			for _, a := range args {
				clean[model.StripSpace(a)] = true
			}
			for _, p := range v {
				if !clean[p.Key] {
					fs = append(fs, model.Verdict{Sig: "Pex." + c.Entrance + ":stores-address-not-given", Detail: fmt.Sprintf("%q stored, arguments %q", p.Key, args)})
				}
			}
			for _, f := range fs {
				r.Failf(f.Sig, c, "%s(%q) AllowLocalhost=%v: %s", c.Entrance, c.Addr, allow, f.Detail)
			}
			stored := false
			for _, p := range v {
				if p.Key == model.StripSpace(c.Addr) {
					stored = true
					if !model.ClassifyPeerAddr(p.Key, allow).Canonical {
						w.outcomes.Add("stored:valid-but-port-has-leading-zeros")
					}
				}
			}
			cl := model.ClassifyPeerAddr(model.StripSpace(c.Addr), allow)
			switch {
			case stored:
				w.outcomes.Add(c.Entrance + ":stored")
			case cl.OK:
				w.outcomes.Add(c.Entrance + ":refused-although-valid-after-trimming")
			default:
				w.outcomes.Add(c.Entrance + ":refused:" + cl.Reason)
				w.nontrivial.Add(fmt.Sprintf("%v|%s|%q", allow, c.Entrance, c.Addr))
			}
		}
		for _, a := range c26FullAlphabet {
			// validateAddress itself: what it returns is what gets stored
			w.evals++
			if out, err := pex.VerifValidateAddress(a, allow); err == nil {
				if c := model.ClassifyPeerAddr(out, allow); !c.OK {
					r.Failf("validateAddress:accepts-invalid-address:"+c.Reason, cs{"validateAddress", a, allow, nil}, "validateAddress(%q, %v) = %q (%s)", a, allow, out, c.Reason)
				}
				if out != model.StripSpace(a) {
					r.Failf("validateAddress:returns-different-address", cs{"validateAddress", a, allow, nil}, "validateAddress(%q) = %q", a, out)
				}
			}
			// AddPeer
			func() {
				px, err := c26newPex(cfg, freshDir(), nil, "")
				if err != nil {
					r.Broken("pex.New: %v", err)
					return
				}
				c := cs{"AddPeer", a, allow, nil}
				if pan, msg := engine.Catch(func() { px.AddPeer(a) }); pan { //nolint:errcheck
					r.Failf("Pex.AddPeer:panic", c, "AddPeer(%q): %s", a, msg)
					return
				}
				judge(c, px, []string{a})
			}()
			// AddPeers alone, and next to / around a valid address under every shuffle answer
			for _, lst := range [][]string{{a}, {valid, a}, {a, valid, a}} {
				k := 0
				for _, e := range lst {
					if model.ClassifyPeerAddr(model.StripSpace(e), allow).OK {
						k++
					}
				}
				var arity []int
				for n := k; n >= 2; n-- {
					arity = append(arity, n)
				}
				for _, ans := range perms(arity) {
					px, err := c26newPex(cfg, freshDir(), nil, "")
					if err != nil {
						r.Broken("pex.New: %v", err)
						continue
					}
					c := cs{fmt.Sprintf("AddPeers/%d", len(lst)), a, allow, ans}
					sc := &vrand.Script{Answers: ans}
					vrand.Install(sc)
					if pan, msg := engine.Catch(func() { px.AddPeers(append([]string{}, lst...)) }); pan {
						r.Failf("Pex.AddPeers:panic", c, "AddPeers(%q): %s", lst, msg)
						continue
					}
					vrand.Install(nil)
					judge(c, px, lst)
				}
			}
			// peers.json cache written by hand
			func() {
				dir := freshDir()
				js, _ := json.Marshal(map[string]interface{}{a: map[string]interface{}{"Addr": a, "LastSeen": c26T0 - 10, "Trusted": true, "HasIncomingPort": true}})
				os.WriteFile(filepath.Join(dir, pex.PeerCacheFilename), js, 0o600)
				c := cs{"peers.json", a, allow, nil}
				var px *pex.Pex
				var err error
				if pan, msg := engine.Catch(func() { px, err = c26newPex(cfg, dir, nil, "") }); pan {
					r.Failf("Pex.New:panic:peers.json", c, "%q: %s", a, msg)
					return
				}
				if err != nil {
					w.evals++
					w.outcomes.Add("peers.json:New-fails")
					return
				}
				judge(c, px, []string{a})
			}()
			// custom peers file and default connections
			for _, ent := range []string{"CustomPeersFile", "DefaultConnections"} {
				func() {
					dir := freshDir()
					custom, defaults := "", []string(nil)
					if ent == "CustomPeersFile" {
						custom = filepath.Join(dir, "custom.txt")
						os.WriteFile(custom, []byte(valid+"\n"+a+"\n"), 0o600)
					} else {
						defaults = []string{valid, a}
					}
					c := cs{ent, a, allow, nil}
					var px *pex.Pex
					var err error
					if pan, msg := engine.Catch(func() { px, err = c26newPex(cfg, dir, defaults, custom) }); pan {
						r.Failf("Pex.New:panic:"+ent, c, "%q: %s", a, msg)
						return
					}
					if err != nil {
						w.evals++
						w.outcomes.Add(ent + ":New-fails")
						w.nontrivial.Add(fmt.Sprintf("%v|%s|%q", allow, ent, a))
						return
					}
					judge(c, px, []string{valid, a})
				}()
			}
		}
	}
	// a peers.json that holds as many / more peers than Max (e.g. Max was lowered between runs): after the load the
	// bound must hold, whichever entries the map iteration keeps; with and without a default connection on top
	pool := []string{"11.1.1.1:6000", "11.1.1.2:6000", "11.1.1.3:6000", "11.1.1.4:6000", "11.1.1.5:6000", "11.1.1.6:6000"}
	for _, max := range []int{2, 3} {
		for n := max - 1; n <= max+3; n++ {
			for _, age := range []int64{10, 25 * 3600} {
				for _, withDefault := range []bool{false, true} {
					vtime.SetUnix(c26T0)
					dir := freshDir()
					m := map[string]interface{}{}
					for _, a := range pool[:n] {
						m[a] = map[string]interface{}{"Addr": a, "LastSeen": c26T0 - age, "HasIncomingPort": true}
					}
					js, _ := json.Marshal(m)
					os.WriteFile(filepath.Join(dir, pex.PeerCacheFilename), js, 0o600)
					var defaults []string
					if withDefault {
						defaults = []string{valid}
					}
					c := cs{fmt.Sprintf("peers.json/%d-entries/Max=%d/default=%v/age=%ds", n, max, withDefault, age), "", false, nil}
					w.evals++
					px, err := c26newPex(c26cfg{Max: max}, dir, defaults, "")
					if err != nil {
						w.outcomes.Add("peers.json/oversize:New-fails:" + err.Error())
						continue
					}
					v, _, _ := c26view(px)
					for _, f := range model.JudgeList(v, max, false, "Pex.New:peers.json-with-many-entries") {
						r.Failf(f.Sig, c, "%s: %s", c.Entrance, f.Detail)
					}
					if withDefault {
						ok := false
						for _, p := range v {
							ok = ok || (p.Key == valid && p.Trusted)
						}
						if !ok {
							r.Failf("Pex.New:default-connection-missing-or-untrusted", c, "%s: %v", c.Entrance, v)
						}
					}
					if n > max {
						w.outcomes.Add("peers.json/oversize:loaded-within-bound")
					} else {
						w.outcomes.Add("peers.json/fits:loaded")
					}
				}
			}
		}
	}
	// a custom peers file (operator supplied, read at start-up by one bulk addition) with as many / more addresses than Max, on an
	// empty and on a part-filled cache
	for _, max := range []int{2, 3} {
		for n := max - 1; n <= max+3; n++ {
			for cached := 0; cached <= 1; cached++ {
				vtime.SetUnix(c26T0)
				dir := freshDir()
				if cached == 1 {
					js, _ := json.Marshal(map[string]interface{}{valid: map[string]interface{}{"Addr": valid, "LastSeen": c26T0 - 10, "HasIncomingPort": true}})
					os.WriteFile(filepath.Join(dir, pex.PeerCacheFilename), js, 0o600)
				}
				custom := filepath.Join(dir, "custom.txt")
				os.WriteFile(custom, []byte(strings.Join(pool[:n], "\n")+"\n"), 0o600)
				c := cs{fmt.Sprintf("custom-peers-file/%d-lines/Max=%d/cached=%d", n, max, cached), "", false, nil}
				w.evals++
				px, err := c26newPex(c26cfg{Max: max}, dir, nil, custom)
				if err != nil {
					w.outcomes.Add("custom-peers-file/oversize:New-fails:" + err.Error())
					continue
				}
				v, _, _ := c26view(px)
				for _, f := range model.JudgeList(v, max, false, "Pex.New:custom-peers-file-with-many-lines") {
					r.Failf(f.Sig, c, "%s: %s", c.Entrance, f.Detail)
				}
				w.outcomes.Add("custom-peers-file:loaded")
			}
		}
	}
	// timestamp tie (no auto-tick): two untrusted peers added in the same second are both "oldest"; which one a
	// full list evicts depends on map iteration order — either is fine, a trusted one or a fresh one is not.
	for rep := 0; rep < 8; rep++ {
		for _, trust := range []string{"", c26P1, c26P2} {
			cfg := c26cfg{Max: 2}
			vtime.SetUnix(c26T0)
			px, err := c26newPex(cfg, freshDir(), nil, "")
			if err != nil {
				r.Broken("pex.New: %v", err)
				continue
			}
			vrand.Install(&vrand.Script{})
			px.AddPeers([]string{c26P1, c26P2})
			if trust != "" {
				pex.VerifSetTrusted(px, trust) //nolint:errcheck
			}
			vtime.Advance(25 * time.Hour)
			pre, _, _ := c26view(px)
			now, _ := vtime.Peek()
			err = px.AddPeer(c26P3)
			post, _, _ := c26view(px)
			w.evals++
			c := cs{"AddPeer/tie", "trusted=" + trust, false, nil}
			for _, v := range model.JudgePexStep(model.PexStep{Op: model.OpAdd, Args: []string{c26P3}, Max: 2, Now: now.Unix(), Pre: pre, Post: post}) {
				r.Failf(v.Sig+":timestamp-tie", c, "tie scenario trusted=%q: %s", trust, v.Detail)
			}
			if err == nil {
				w.outcomes.Add("tie:evicted-one-of-the-oldest")
			} else {
				w.outcomes.Add("tie:" + err.Error())
			}
		}
	}
	vrand.Install(nil)
	return w
}

func c26(r *engine.Run) {
	r.RaceWorkload = "peers:pex" // supplement: free-running race-detector pass on one shared object (can only add findings)
	depth := r.Pick(4, 6)
	budget := r.Pick(70, 16*60)
	var cfgs []c26cfg
	for _, m := range []int{2, 3} {
		for _, al := range []bool{false, true} {
			cfgs = append(cfgs, c26cfg{m, al})
		}
	}
	outs := make([]c26workerOut, len(cfgs))
	errs := make([]string, len(cfgs))
	var wg sync.WaitGroup
	for i, c := range cfgs {
		wg.Add(1)
		go func(i int, c c26cfg) {
			defer wg.Done()
			wr := engine.RunWorker(nil, 8<<20, time.Duration(budget+120)*time.Second, "c26bfs",
				strconv.Itoa(c.Max), strconv.FormatBool(c.AllowLocalhost), strconv.Itoa(depth), strconv.Itoa(budget))
			if wr.TimedOut || wr.Died {
				errs[i] = fmt.Sprintf("worker %s: timedOut=%v died=%v exit=%d stderr=%s", c, wr.TimedOut, wr.Died, wr.ExitCode, tail(wr.Stderr))
				return
			}
			if err := json.Unmarshal(wr.Stdout, &outs[i]); err != nil {
				errs[i] = fmt.Sprintf("worker %s: bad output: %v (%s)", c, err, tail(wr.Stdout))
			}
		}(i, c)
	}
	// Part B runs in this process meanwhile (it is the only user of vtime/vrand here)
	wide := c26partB(r)
	lockEvals, lockPoints := c26partC(r, wide)
	wg.Wait()

	total := engine.BFSResult{Outcomes: map[string]int{}, Exhaustive: true}
	counters := map[string]int{}
	perCfg := map[string]interface{}{}
	for i, o := range outs {
		if errs[i] != "" {
			r.Broken("%s", errs[i])
			continue
		}
		if o.Sink.Broken != "" {
			r.Broken("worker %s: %s", o.Config, o.Sink.Broken)
		}
		for _, f := range o.Sink.Fails {
			r.Fail(engine.Failure{Sig: f.Sig, Detail: f.Detail, Case: f.Case})
		}
		total.States += o.Res.States
		total.Transitions += o.Res.Transitions
		total.SelfLoops += o.Res.SelfLoops
		total.FrontierLeft += o.Res.FrontierLeft
		if i == 0 || o.Res.DepthCompleted < total.DepthCompleted {
			total.DepthCompleted = o.Res.DepthCompleted
		}
		if !o.Res.Exhaustive {
			total.Exhaustive = false
		}
		if o.Res.CapHit != "" {
			total.CapHit += o.Config + ": " + o.Res.CapHit + "; "
		}
		for k, v := range o.Res.Outcomes {
			total.Outcomes[k] += v
		}
		for k, v := range o.Sink.Counters {
			counters[k] += v
		}
		if len(o.Res.Samples) > 0 {
			total.Samples = append(total.Samples, o.Config+" "+o.Res.Samples[len(o.Res.Samples)-1])
		}
		perCfg[o.Config] = map[string]interface{}{"states": o.Res.States, "transitions": o.Res.Transitions, "states_per_depth": o.Res.PerDepth,
			"depth_completed": o.Res.DepthCompleted, "cap_hit": o.Res.CapHit, "frontier_left": o.Res.FrontierLeft}
	}
	// vacuity guards
	for _, n := range []string{"add:added", "add:seen-again", "add:full", "add:invalid", "add:evicted-one", "addPeers:full-noop", "addPeers:truncated",
		"addPeers:all-fit", "remove:removed", "trust:ok", "trust:error", "clearOld:dropped-stale", "clearOld:nothing-stale",
		"reload:same-peers", "reload:dropped-retried-out-peer", "retry", "clock"} {
		if total.Outcomes[n] == 0 {
			r.Broken("vacuous: outcome class %q never observed in the deep search (histogram %v)", n, total.Outcomes)
		}
	}
	if total.States < 1000 {
		r.Broken("vacuous: only %d states", total.States)
	}
	if counters["states_with_trusted_peer"] == 0 {
		r.Broken("vacuous: no state with a trusted peer")
	}
	wo := wide.outcomes.Map()
	for _, n := range []string{"AddPeer:stored", "AddPeer:refused:port-below-1024", "AddPeer:refused:loopback-not-allowed", "AddPeer:refused:multicast-ip",
		"AddPeer:refused:link-local-ip", "AddPeer:refused:not-ip:port", "AddPeers/2:stored", "peers.json:stored", "CustomPeersFile:New-fails", "tie:evicted-one-of-the-oldest", "peers.json/oversize:loaded-within-bound"} {
		if wo[n] == 0 {
			r.Broken("vacuous: outcome class %q never observed in the single-step product (histogram %v)", n, wo)
		}
	}
	r.Assumptions = append(r.Assumptions,
		"deep search: reduced alphabet "+fmt.Sprintf("%q", c26AddAlphabet)+", "+strconv.Itoa(len(c26Lists))+" AddPeers batches × every Shuffle answer vector, clock steps +1h/+25h/+8d, Expiration = 7 d (default config), Max ∈ {2,3} × AllowLocalhost ∈ {false,true}",
		"the virtual clock auto-ticks 1 s per time.Now() call so that no two LastSeen values tie (a tie makes the evicted peer depend on Go map iteration order); the tie case is exercised separately in the single-step part with an order-independent oracle",
		"state key: peers with whole hours of age, LastSeen rank, trusted flag, retry counter — exact for the 24 h / 7 d comparisons because ages are whole hours plus 1..3599 tick seconds (guarded)",
		"reload = save() then pex.New on the same directory with DefaultConnections = the currently trusted peers (in the node trusted peers ARE the default connections; New() clears and re-derives the trusted flags)",
		"set-trusted and clearOld go through the private methods exactly as New() and the Run loop call them; IncreaseRetryTimes is applied 11× per step and offered while the counter is ≤ 11",
		"oracle demands only the statement: stored addresses valid (independent validator; leading zeros in a port are accepted as decimal and counted), size ≤ Max, trusted peers stay, AddPeer evicts at most one untrusted peer unseen ≥ 24 h, clearOld drops only untrusted peers unseen > Expiration; WHICH valid addresses are accepted is not judged",
		"CustomPeersFile entries are added without a capacity check by design of loadCustom (operator-supplied list); not part of the deep alphabet")
	cov := total.Coverage("every operation of the alphabet (7 AddPeer, up to 32 AddPeers variants, 5 RemovePeer, 5 set-trusted, ≤3 retry×11, 3 clock steps, clearOld, save→reload) applied to the real pex.Pex in every distinct state of each of the 4 configurations; states replayed from a fresh pex.New on an empty scratch directory")
	cov["max_depth"] = depth
	cov["configurations"] = perCfg
	cov["state_counters"] = counters
	cov["lock_boundary_interleavings"] = map[string]interface{}{"evaluations": lockEvals, "acquisition_points_seen": lockPoints,
		"rule": "for Max ∈ {2,3} × initial fill ∈ {Max-2, Max-1} × first operation A ∈ {AddPeers(3 new), AddPeers(1 known + 2 new), AddPeer(new)} × second operation B ∈ {AddPeer(new), AddPeers(2 new), RemovePeer(known)}: B is run to completion at EVERY lock-acquisition point of A (shim/vlock), then the list is judged (size ≤ Max, valid addresses)"}
	cov["single_step"] = map[string]interface{}{
		"address_alphabet":    len(c26FullAlphabet),
		"evaluations":         wide.evals,
		"distinct_refused":    wide.nontrivial.Len(),
		"outcome_histogram":   wo,
		"entrances":           []string{"validateAddress", "AddPeer", "AddPeers/1", "AddPeers/2 (both orders)", "AddPeers/3 (all orders)", "peers.json", "CustomPeersFile", "DefaultConnections"},
		"allow_localhost_set": []bool{false, true},
	}
	r.Finish(cov)
}

// c26partC enumerates the schedules in which a second peer-list operation runs to completion between two critical sections of a
// bulk add (one preemption at a lock boundary): shim/vlock calls back before every Lock/RLock of the first operation.
func c26partC(r *engine.Run, w *c26wide) (int, int) {
	vtime.SetUnix(c26T0)
	known := []string{"44.44.44.1:4001", "44.44.44.2:4002", "44.44.44.3:4003"}
	fresh := []string{"55.55.55.1:5001", "55.55.55.2:5002", "55.55.55.3:5003"}
	other := []string{"66.66.66.1:6001", "66.66.66.2:6002"}
	type opf struct {
		name string
		run  func(px *pex.Pex)
	}
	evals, maxPoints := 0, 0
	seq := 0
	for _, max := range []int{2, 3} {
		for _, fill := range []int{max - 2, max - 1} {
			if fill < 0 {
				continue
			}
			as := []opf{
				{"AddPeers(3 new)", func(px *pex.Pex) { px.AddPeers(fresh) }},
				{"AddPeers(1 known + 2 new)", func(px *pex.Pex) { px.AddPeers([]string{known[0], fresh[0], fresh[1]}) }},
				{"AddPeer(new)", func(px *pex.Pex) { px.AddPeer(fresh[0]) }}, //nolint:errcheck
			}
			bs := []opf{
				{"AddPeer(new)", func(px *pex.Pex) { px.AddPeer(other[0]) }}, //nolint:errcheck
				{"AddPeers(2 new)", func(px *pex.Pex) { px.AddPeers(other) }},
				{"RemovePeer(known)", func(px *pex.Pex) { px.RemovePeer(known[0]) }},
			}
			for _, a := range as {
				for _, b := range bs {
					for target := 1; target <= 12; target++ {
						seq++
						dir := filepath.Join(engine.Scratch(), fmt.Sprintf("c26c-%d", seq))
						os.MkdirAll(dir, 0o755)
						px, err := c26newPex(c26cfg{Max: max}, dir, nil, "")
						if err != nil {
							r.Broken("part C: pex.New: %v", err)
							return evals, maxPoints
						}
						for i := 0; i < fill; i++ {
							px.AddPeer(known[i]) //nolint:errcheck
						}
						points, fired := 0, false
						vlock.Interleave = func() {
							points++
							if points == target {
								fired = true
								b.run(px)
							}
						}
						pan, msg := engine.Catch(func() { a.run(px) })
						vlock.Interleave = nil
						if points > maxPoints {
							maxPoints = points
						}
						os.RemoveAll(dir)
						if !fired {
							break // A has fewer acquisition points than target
						}
						evals++
						cs := map[string]interface{}{"max": max, "initial_peers": fill, "A": a.name, "B": b.name, "B_runs_before_lock_acquisition_no": target}
						if pan {
							r.Failf("Pex:panic:interleaved-at-lock-boundary", cs, "%s with %s at acquisition %d: panic %s", a.name, b.name, target, msg)
							continue
						}
						v, _, _ := c26view(px)
						w.outcomes.Add("lock-boundary:" + a.name + "|" + b.name)
						for _, f := range model.JudgeList(v, max, false, "Pex.interleaved") {
							r.Failf(f.Sig+":second-operation-between-two-critical-sections", cs, "Max=%d, %d peers, %s with %s executed before its lock acquisition no. %d: %s", max, fill, a.name, b.name, target, f.Detail)
						}
					}
				}
			}
		}
	}
	return evals, maxPoints
}

func tail(b []byte) string {
	s := string(b)
	if len(s) > 400 {
		s = s[len(s)-400:]
	}
	return s
}
