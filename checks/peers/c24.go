package main

import (
	"errors"
	"fmt"
	"sort"
	"strings"
	"sync/atomic"
	"time"

	"github.com/skycoin/skycoin/src/cipher"
	"github.com/skycoin/skycoin/src/daemon"
	"github.com/skycoin/skycoin/src/params"
	"github.com/skycoin/skycoin/src/util/useragent"

	"verif/engine"
	model "verif/model/peers"
)

// C24 — connection bookkeeping matches the set of live connections.
//
// Explicit-state search (engine.BFS, replay states) over the REAL daemon.Connections state machine.
// Every event of the alphabet is applied in every reachable state; after every event the five private
// maps (read through overlay/peers/src/daemon/zz_verif_export.go) are compared with the maps recomputed
// from the live set by model/peers.ConnModel, the returned error is compared with the model's
// state/id rules, and the getters are interrogated.
func init() { register("C24", "model_checking", c24) }

var (
	c24Addrs   = []string{"1.1.1.1:6000", "1.1.1.1:6001", "2.2.2.2:6000"} // two share an IP; ports collide with listen ports
	c24Mirrors = []uint32{0, 7, 8}
	c24Ports   = []uint16{0, 6000, 6001}
	c24IPs     = []string{"1.1.1.1", "2.2.2.2"}
	c24LAddrs  = []string{"", "1.1.1.1:6000", "1.1.1.1:6001", "2.2.2.2:6000", "2.2.2.2:6001"}
)

const c24NeverIssued = uint64(1) << 40 // a connection id gnet has not handed out (used as "stale" while nothing was retired yet)

type c24op struct {
	K  string `json:"op"`           // pending | connected | introduced | remove
	A  string `json:"addr"`         //
	ID string `json:"id,omitempty"` // fresh | own | stale | zero
	M  uint32 `json:"mirror,omitempty"`
	P  uint16 `json:"listenPort,omitempty"`
	S  string `json:"solicited,omitempty"` // daemon mode: the ConnectEvent says solicited | unsolicited
}

func (o c24op) String() string {
	switch o.K {
	case "pending":
		return "pending(" + o.A + ")"
	case "connected":
		if o.S != "" {
			return "ConnectEvent(" + o.A + "," + o.ID + "," + o.S + ")"
		}
		return "connected(" + o.A + "," + o.ID + ")"
	case "introduced":
		return fmt.Sprintf("introduced(%s,%s,mirror=%d,listenPort=%d)", o.A, o.ID, o.M, o.P)
	}
	return "remove(" + o.A + "," + o.ID + ")"
}

// c24item is one element of the difference between the real object and the model.
type c24item struct {
	kind   string // stable class, e.g. "ipCounts:zero-entry"
	detail string
	prune  bool // behaviour-relevant corruption: the state is not expanded further
}

type c24live struct {
	dm          *daemon.Daemon // daemon mode: connect / disconnect events go through the daemon's handlers
	stop        func()
	c           *daemon.Connections
	m           *model.ConnModel
	nextID      uint64
	lastRetired uint64
	hist        []c24op
	div         map[string]c24item // current divergence (key = kind+"|"+detail)
	corrupt     bool
	dump        *daemon.VerifConnMaps
	lastKey     string
}

type c24ctx struct {
	r         *engine.Run
	emptySeen int64 // transitions that removed the last live connection
	pruned    int64
	getterQ   int64
}

func errName(err error) string {
	switch err {
	case nil:
		return "ok"
	case daemon.ErrConnectionExists:
		return model.RExists
	case daemon.ErrConnectionNotExist:
		return model.RNotExist
	case daemon.ErrConnectionIPMirrorExists:
		return model.RIPMirrorExists
	case daemon.ErrConnectionStateNotConnected:
		return model.RStateNotConnected
	case daemon.ErrConnectionGnetIDMismatch:
		return model.RGnetIDMismatch
	case daemon.ErrConnectionAlreadyIntroduced:
		return model.RAlreadyIntroduced
	case daemon.ErrConnectionAlreadyConnected:
		return model.RAlreadyConnected
	case daemon.ErrInvalidGnetID:
		return model.RInvalidGnetID
	}
	return "other-error"
}

func c24intro(mirror uint32, port uint16) *daemon.IntroductionMessage {
	return &daemon.IntroductionMessage{
		Mirror:          mirror,
		ListenPort:      port,
		ProtocolVersion: 2,
		UserAgent:       useragent.Data{Coin: "skycoin", Version: "0.26.0"},
		UnconfirmedVerifyTxn: params.VerifyTxn{
			BurnFactor: 10, MaxTransactionSize: 32768, MaxDropletPrecision: 3,
		},
		GenesisHash: cipher.SumSHA256([]byte("genesis")),
	}
}

func (l *c24live) getDump() *daemon.VerifConnMaps {
	if l.dump == nil {
		d := daemon.VerifDumpConnections(l.c)
		l.dump = &d
	}
	return l.dump
}

// resolve turns the symbolic id of an op into a number for this instance.
func (l *c24live) resolve(o c24op) uint64 {
	switch o.ID {
	case "fresh":
		return l.nextID
	case "own":
		if c := l.m.Live[o.A]; c != nil {
			return c.ID
		}
		return 0
	case "stale":
		if l.lastRetired != 0 {
			return l.lastRetired
		}
		return c24NeverIssued
	}
	return 0
}

func sameConn(rc *daemon.VerifConn, mc *model.Conn) string {
	if rc == nil {
		return "nil connection"
	}
	var d []string
	if rc.Addr != mc.Addr {
		d = append(d, fmt.Sprintf("Addr %q want %q", rc.Addr, mc.Addr))
	}
	if rc.State != mc.State {
		d = append(d, fmt.Sprintf("State %s want %s", rc.State, mc.State))
	}
	if rc.Outgoing != mc.Outgoing {
		d = append(d, fmt.Sprintf("Outgoing %v want %v", rc.Outgoing, mc.Outgoing))
	}
	if rc.Mirror != mc.Mirror {
		d = append(d, fmt.Sprintf("Mirror %d want %d", rc.Mirror, mc.Mirror))
	}
	if rc.ListenPort != mc.ListenPort {
		d = append(d, fmt.Sprintf("ListenPort %d want %d", rc.ListenPort, mc.ListenPort))
	}
	if rc.GnetID != mc.ID {
		d = append(d, fmt.Sprintf("gnetID %d want %d", rc.GnetID, mc.ID))
	}
	if rc.ListenAddr != mc.ListenAddr() {
		d = append(d, fmt.Sprintf("ListenAddr() %q want %q", rc.ListenAddr, mc.ListenAddr()))
	}
	return strings.Join(d, ", ")
}

// diverge compares the real object (five maps + getters) with the model; returns the difference items.
func (x *c24ctx) diverge(l *c24live) map[string]c24item {
	out := map[string]c24item{}
	add := func(kind, detail string, prune bool) { out[kind+"|"+detail] = c24item{kind, detail, prune} }
	real := l.getDump()
	exp := l.m.Expected()

	// conns
	rc := map[string]*daemon.VerifConn{}
	for _, e := range real.Conns {
		rc[e.Key] = e.Conn
		if e.Conn == nil {
			add("conns:nil-entry", e.Key, true)
		} else if _, ok := l.m.Live[e.Key]; !ok {
			add("conns:extra", e.Key+" is not live", true)
		}
	}
	for i := range exp.Conns {
		mc := &exp.Conns[i]
		c, ok := rc[mc.Addr]
		if !ok {
			add("conns:missing", mc.Addr, true)
		} else if c != nil {
			if d := sameConn(c, mc); d != "" {
				add("conns:fields", mc.Addr+": "+d, true)
			}
		}
	}
	// mirrors
	type mk struct {
		m  uint32
		ip string
	}
	rm := map[mk]uint16{}
	for _, e := range real.Mirrors {
		rm[mk{e.Mirror, e.IP}] = e.Port
	}
	em := map[mk]uint16{}
	for _, e := range exp.Mirrors {
		em[mk{e.Mirror, e.IP}] = e.Port
		p, ok := rm[mk{e.Mirror, e.IP}]
		if !ok {
			cls := "mirror-nonzero"
			if e.Mirror == 0 {
				cls = "mirror-0"
			}
			add("mirrors:missing:"+cls, fmt.Sprintf("mirrors[%d][%s] is missing although an introduced connection has this IP and mirror", e.Mirror, e.IP), true)
		} else if p != e.Port {
			add("mirrors:wrong-port", fmt.Sprintf("mirrors[%d][%s]=%d want %d", e.Mirror, e.IP, p, e.Port), true)
		}
	}
	for k, p := range rm {
		if _, ok := em[k]; !ok {
			add("mirrors:extra", fmt.Sprintf("mirrors[%d][%s]=%d but no introduced connection has this IP and mirror", k.m, k.ip, p), true)
		}
	}
	for _, m := range real.EmptyMirror {
		add("mirrors:empty-inner-map", fmt.Sprintf("mirrors[%d] is an empty map", m), false)
	}
	// ipCounts
	ei := map[string]int{}
	for _, e := range exp.IPCounts {
		ei[e.IP] = e.Count
	}
	ri := map[string]int{}
	for _, e := range real.IPCounts {
		ri[e.IP] = e.Count
		want, ok := ei[e.IP]
		switch {
		case !ok && e.Count == 0:
			add("ipCounts:zero-entry", fmt.Sprintf("ipCounts[%s]=0 is still present although no live connection has this IP", e.IP), false)
		case !ok:
			add("ipCounts:extra", fmt.Sprintf("ipCounts[%s]=%d but no live connection has this IP", e.IP, e.Count), true)
		case want != e.Count:
			add("ipCounts:wrong", fmt.Sprintf("ipCounts[%s]=%d want %d", e.IP, e.Count, want), true)
		}
	}
	for ip, n := range ei {
		if _, ok := ri[ip]; !ok {
			add("ipCounts:missing", fmt.Sprintf("ipCounts[%s] missing, want %d", ip, n), true)
		}
	}
	// gnetIDs
	eg := map[uint64]string{}
	for _, e := range exp.GnetIDs {
		eg[e.ID] = e.Addr
	}
	rg := map[uint64]string{}
	for _, e := range real.GnetIDs {
		rg[e.ID] = e.Addr
		want, ok := eg[e.ID]
		if !ok {
			add("gnetIDs:extra", fmt.Sprintf("gnetIDs[%d]=%s but no live connection has this id", e.ID, e.Addr), true)
		} else if want != e.Addr {
			add("gnetIDs:wrong", fmt.Sprintf("gnetIDs[%d]=%s want %s", e.ID, e.Addr, want), true)
		}
	}
	for id, a := range eg {
		if _, ok := rg[id]; !ok {
			add("gnetIDs:missing", fmt.Sprintf("gnetIDs[%d] missing, want %s", id, a), true)
		}
	}
	// listenAddrs
	el := map[string][]string{}
	for _, e := range exp.ListenAddrs {
		el[e.ListenAddr] = e.Addrs
	}
	rl := map[string]bool{}
	for _, e := range real.ListenAddrs {
		rl[e.ListenAddr] = true
		got := append([]string{}, e.Addrs...)
		sort.Strings(got)
		if e.ListenAddr == "" {
			add("listenAddrs:empty-key", `listenAddrs[""] exists (a connection whose listen address is unknown must not be indexed)`, false)
			continue
		}
		want, ok := el[e.ListenAddr]
		if !ok {
			add("listenAddrs:extra", fmt.Sprintf("listenAddrs[%s]=%v but no live connection has this listen address", e.ListenAddr, got), true)
		} else if fmt.Sprint(got) != fmt.Sprint(want) {
			add("listenAddrs:wrong", fmt.Sprintf("listenAddrs[%s]=%v want %v", e.ListenAddr, got, want), true)
		}
	}
	for la, as := range el {
		if !rl[la] {
			add("listenAddrs:missing", fmt.Sprintf("listenAddrs[%s] missing, want %v", la, as), true)
		}
	}

	// ---- getters ----
	q := int64(0)
	all := daemon.VerifAll(l.c)
	q++
	if len(all) != len(l.m.Live) {
		add("getter:all:count", fmt.Sprintf("all() returns %d connections, %d are live", len(all), len(l.m.Live)), false)
	}
	for i := range all {
		mc := l.m.Live[all[i].Addr]
		if mc == nil {
			add("getter:all:removed-connection", all[i].Addr, false)
		} else if d := sameConn(&all[i], mc); d != "" {
			add("getter:all:fields", all[i].Addr+": "+d, false)
		}
	}
	nOut, nPend := 0, 0
	for _, mc := range l.m.Live {
		if mc.Outgoing {
			nOut++
		}
		if mc.State == model.StPending {
			nPend++
		}
	}
	q += 3
	if n := l.c.Len(); n != len(l.m.Live) {
		add("getter:Len", fmt.Sprintf("Len()=%d want %d", n, len(l.m.Live)), false)
	}
	if n := l.c.OutgoingLen(); n != nOut {
		add("getter:OutgoingLen", fmt.Sprintf("OutgoingLen()=%d want %d", n, nOut), false)
	}
	if n := l.c.PendingLen(); n != nPend {
		add("getter:PendingLen", fmt.Sprintf("PendingLen()=%d want %d", n, nPend), false)
	}
	for _, ip := range c24IPs {
		q++
		if n := l.c.IPCount(ip); n != ei[ip] {
			add("getter:IPCount", fmt.Sprintf("IPCount(%s)=%d want %d", ip, n, ei[ip]), false)
		}
	}
	for _, a := range c24Addrs {
		q++
		g := daemon.VerifGet(l.c, a)
		mc := l.m.Live[a]
		switch {
		case mc == nil && g != nil:
			add("getter:get:removed-connection", a, false)
		case mc != nil && g == nil:
			add("getter:get:nil-for-live", a, false)
		case mc != nil:
			if d := sameConn(g, mc); d != "" {
				add("getter:get:fields", a+": "+d, false)
			}
		}
	}
	ids := []uint64{0, c24NeverIssued}
	for id := uint64(1); id < l.nextID; id++ {
		ids = append(ids, id)
	}
	for _, id := range ids {
		q++
		g := daemon.VerifGetByGnetID(l.c, id)
		want, live := eg[id]
		switch {
		case !live && g != nil:
			add("getter:getByGnetID:returns-connection-for-dead-id", fmt.Sprintf("getByGnetID(%d) returns %s", id, g.Addr), false)
		case live && g == nil:
			add("getter:getByGnetID:nil-for-live-id", fmt.Sprintf("getByGnetID(%d) = nil, want %s", id, want), false)
		case live:
			if d := sameConn(g, l.m.Live[want]); d != "" {
				add("getter:getByGnetID:fields", fmt.Sprintf("getByGnetID(%d): %s", id, d), false)
			}
		}
	}
	for _, la := range c24LAddrs {
		q++
		gs := daemon.VerifGetByListenAddr(l.c, la)
		cls := "known-listen-addr"
		if la == "" {
			cls = "empty-listen-addr"
		}
		var got []string
		// for the empty key every anomaly is the same defect class: an entry that does not describe a live
		// connection with that (unknown) listen address
		bad := func(kind, detail string) {
			if la == "" {
				add("getter:getByListenAddr:stale-or-nil-element:empty-listen-addr", detail, false)
			} else {
				add("getter:getByListenAddr:"+kind+":"+cls, detail, false)
			}
		}
		for _, g := range gs {
			if g == nil {
				bad("nil-element", fmt.Sprintf("getByListenAddr(%q) returns a nil *connection", la))
				continue
			}
			mc := l.m.Live[g.Addr]
			if mc == nil {
				bad("removed-connection", fmt.Sprintf("getByListenAddr(%q) returns %s which is not live", la, g.Addr))
				continue
			}
			if d := sameConn(g, mc); d != "" {
				bad("fields", fmt.Sprintf("getByListenAddr(%q): %s: %s", la, g.Addr, d))
			}
			if g.ListenAddr != la {
				bad("wrong-listen-addr", fmt.Sprintf("getByListenAddr(%q) returns %s whose listen address is %q", la, g.Addr, g.ListenAddr))
			}
			got = append(got, g.Addr)
		}
		if la != "" {
			sort.Strings(got)
			if fmt.Sprint(got) != fmt.Sprint(el[la]) {
				add("getter:getByListenAddr:wrong-set:"+cls, fmt.Sprintf("getByListenAddr(%q)=%v want %v", la, got, el[la]), false)
			}
		}
	}
	atomic.AddInt64(&x.getterQ, q)
	return out
}

// signature of a NEW divergence item, given the event that introduced it.
func c24sig(it c24item, op c24op, pre *model.Conn, realOK bool) string {
	switch it.kind {
	case "ipCounts:zero-entry":
		if op.K == "remove" && realOK {
			return "Connections.remove:ipCounts-zero-entry-left-for-ip-without-live-connection"
		}
	case "listenAddrs:empty-key":
		if op.K == "introduced" && realOK && pre != nil && !pre.Outgoing && op.P == 0 {
			return "Connections.introduced:listenAddrs-entry-under-empty-key:incoming-listen-port-0"
		}
	case "mirrors:missing:mirror-0":
		if op.K == "remove" && realOK && pre != nil && pre.State != model.StIntroduced {
			return "Connections.remove:never-introduced-connection-deletes-mirror-0-entry-of-another-connection"
		}
	}
	if strings.HasPrefix(it.kind, "getter:") {
		return "Connections." + strings.TrimPrefix(it.kind, "getter:")
	}
	return "Connections." + op.K + ":" + it.kind
}

func (x *c24ctx) apply(l *c24live, op c24op, check bool) string {
	id := l.resolve(op)
	var pre *model.Conn
	if c := l.m.Live[op.A]; c != nil {
		cp := *c
		pre = &cp
	}
	var rconn *daemon.VerifConn
	var rerr error
	if check && l.div == nil {
		l.div = x.diverge(l) // divergence of the pre-state (not maintained while replaying a prefix)
	}
	l.dump = nil
	panicked, pmsg := engine.Catch(func() {
		switch op.K {
		case "pending":
			if l.dm != nil {
				rerr = daemon.VerifConnectToPeer(l.dm, op.A) // the daemon's outgoing attempt (reserves the record, dials in the background)
				break
			}
			rconn, rerr = daemon.VerifPending(l.c, op.A)
		case "connected":
			if l.dm != nil {
				daemon.VerifOnConnectEvent(l.dm, op.A, id, op.S == "solicited")
				break
			}
			rconn, rerr = daemon.VerifConnected(l.c, op.A, id)
		case "introduced":
			rconn, rerr = daemon.VerifIntroduced(l.c, op.A, id, c24intro(op.M, op.P))
		case "remove":
			if l.dm != nil {
				daemon.VerifOnDisconnectEvent(l.dm, op.A, id)
				break
			}
			rerr = daemon.VerifRemove(l.c, op.A, id)
		}
	})

	var rej []string
	switch op.K {
	case "pending":
		if l.dm != nil {
			// an outgoing attempt through the daemon is refused - and must leave no trace - when the address is already held or
			// another connection of the same base IP exists; otherwise it is the pending event
			ip := strings.Split(op.A, ":")[0]
			for a := range l.m.Live {
				if strings.Split(a, ":")[0] == ip {
					rej = []string{"refused-by-daemon"}
				}
			}
			if len(rej) == 0 {
				rej = l.m.Pending(op.A)
			}
			break
		}
		rej = l.m.Pending(op.A)
	case "connected":
		rej = l.m.Connected(op.A, id)
		if op.ID == "fresh" {
			l.nextID++ // gnet never reuses an id, whatever the daemon did with the event
		}
	case "introduced":
		rej = l.m.Introduced(op.A, id, op.M, op.P)
	case "remove":
		rej = l.m.Remove(op.A, id)
		if len(rej) == 0 && pre != nil && pre.ID != 0 {
			l.lastRetired = pre.ID
		}
	}
	l.hist = append(l.hist, op)
	if !check {
		// replay of a prefix whose steps were judged when they were first executed
		l.div, l.lastKey = nil, ""
		return ""
	}
	// the daemon's handlers return nothing: for events delivered through them the verdict is taken from the model and only the
	// resulting maps (and getters) are judged
	blind := l.dm != nil && (op.K == "connected" || op.K == "remove" || op.K == "pending")
	if blind && !panicked && len(rej) > 0 {
		rerr = errors.New(rej[0])
	}
	got := errName(rerr)
	if blind && len(rej) > 0 {
		got = rej[0]
	}
	outcome := op.K + ":" + got
	cse := func() interface{} {
		return map[string]interface{}{"events": append([]c24op{}, l.hist...), "trace": fmt.Sprint(l.hist)}
	}
	stepBad := false
	if panicked {
		outcome = op.K + ":panic"
		stepBad = true
		if check {
			x.r.Failf("Connections."+op.K+":panic", cse(), "after %v: panic %s", l.hist, pmsg)
		}
	} else if len(rej) == 0 && rerr != nil {
		stepBad = true
		if check {
			x.r.Failf("Connections."+op.K+":rejected-although-allowed:"+got, cse(), "after %v: %v returned %v, the model allows the event", l.hist[:len(l.hist)-1], op, rerr)
		}
	} else if len(rej) > 0 && rerr == nil {
		stepBad = true
		if check {
			x.r.Failf("Connections."+op.K+":accepted-although-forbidden:"+rej[0], cse(), "after %v: %v succeeded, the model forbids it (%v)", l.hist[:len(l.hist)-1], op, rej)
		}
	} else if len(rej) > 0 {
		found := false
		for _, r := range rej {
			if r == got {
				found = true
			}
		}
		if !found && check {
			x.r.Failf("Connections."+op.K+":wrong-error:"+got, cse(), "after %v: %v returned %v, applicable reasons are %v", l.hist[:len(l.hist)-1], op, rerr, rej)
		}
	}
	// returned connection
	if !panicked && op.K != "remove" && check && !blind {
		if rerr != nil && rconn != nil {
			x.r.Failf("Connections."+op.K+":returns-connection-with-error", cse(), "after %v: non-nil connection together with %v", l.hist, rerr)
		}
		if rerr == nil && len(rej) == 0 {
			if d := sameConn(rconn, l.m.Live[op.A]); d != "" {
				x.r.Failf("Connections."+op.K+":returned-connection-differs", cse(), "after %v: returned connection: %s", l.hist, d)
			}
		}
	}
	// maps + getters
	nd := x.diverge(l)
	keys := make([]string, 0, len(nd))
	for k := range nd {
		keys = append(keys, k)
	}
	sort.Strings(keys)
	// Report only what this step introduced, and only the most specific layer of it: a wrong verdict of the step
	// explains the map differences it causes, and a new map difference explains what the getters then return.
	corrupt := false
	reportMaps, reportGetters := check && !stepBad, check && !stepBad
	for _, k := range keys {
		it := nd[k]
		if it.prune {
			corrupt = true
		}
		if _, old := l.div[k]; !old && !strings.HasPrefix(it.kind, "getter:") {
			reportGetters = false
		}
	}
	for _, k := range keys {
		it := nd[k]
		if _, old := l.div[k]; old {
			continue
		}
		isGetter := strings.HasPrefix(it.kind, "getter:")
		if (isGetter && !reportGetters) || (!isGetter && !reportMaps) {
			continue
		}
		x.r.Failf(c24sig(it, op, pre, rerr == nil && !panicked), cse(), "after %v: %s", l.hist, it.detail)
	}
	l.div = nd
	l.corrupt = corrupt
	if check && op.K == "remove" && len(rej) == 0 && len(l.m.Live) == 0 {
		// "removing every connection leaves all of these maps empty": the expected maps are all empty here, so
		// any left-over entry is an item of the comparison above; count the occasions for the vacuity guard
		atomic.AddInt64(&x.emptySeen, 1)
		d := l.getDump()
		if n := len(d.Conns) + len(d.Mirrors) + len(d.EmptyMirror) + len(d.IPCounts) + len(d.GnetIDs) + len(d.ListenAddrs); n != 0 && len(nd) == 0 {
			x.r.Broken("live set empty, %d map entries left, but the map comparison reported nothing", n)
		}
	}
	// an event that did not change the state is dropped from the recorded history (BFS keeps using the
	// instance after a self-loop), so that reported event sequences are shortest paths
	nk := l.computeKey()
	if nk == l.lastKey {
		l.hist = l.hist[:len(l.hist)-1]
	}
	l.lastKey = nk
	return outcome
}

// key: canonical form of the real maps and of the model; connection ids are renamed to the address of the
// connection that holds them (the code only compares ids for equality and with 0), ids held by nobody get a rank.
func (l *c24live) key() string {
	if l.lastKey == "" {
		l.lastKey = l.computeKey()
	}
	return l.lastKey
}

func (l *c24live) computeKey() string {
	d := l.getDump()
	ren := map[uint64]string{0: "0"}
	for _, e := range d.Conns {
		if e.Conn != nil && e.Conn.GnetID != 0 {
			if _, ok := ren[e.Conn.GnetID]; !ok {
				ren[e.Conn.GnetID] = "id@" + e.Key
			}
		}
	}
	var rest []uint64
	seen := map[uint64]bool{}
	note := func(id uint64) {
		if _, ok := ren[id]; !ok && !seen[id] {
			seen[id] = true
			rest = append(rest, id)
		}
	}
	for _, e := range d.GnetIDs {
		note(e.ID)
	}
	maddrs := make([]string, 0, len(l.m.Live))
	for a, c := range l.m.Live {
		maddrs = append(maddrs, a)
		note(c.ID)
	}
	sort.Strings(maddrs)
	sort.Slice(rest, func(i, j int) bool { return rest[i] < rest[j] })
	for i, id := range rest {
		ren[id] = fmt.Sprintf("dead%d", i)
	}
	var b strings.Builder
	for _, e := range d.Conns {
		if e.Conn == nil {
			fmt.Fprintf(&b, "C[%s nil]", e.Key)
			continue
		}
		c := e.Conn
		fmt.Fprintf(&b, "C[%s %s %s %v %d %d %s]", e.Key, c.Addr, c.State, c.Outgoing, c.Mirror, c.ListenPort, ren[c.GnetID])
	}
	for _, e := range d.Mirrors {
		fmt.Fprintf(&b, "M[%d %s %d]", e.Mirror, e.IP, e.Port)
	}
	for _, m := range d.EmptyMirror {
		fmt.Fprintf(&b, "ME[%d]", m)
	}
	for _, e := range d.IPCounts {
		fmt.Fprintf(&b, "I[%s %d]", e.IP, e.Count)
	}
	gs := make([]string, 0, len(d.GnetIDs))
	for _, e := range d.GnetIDs {
		gs = append(gs, ren[e.ID]+">"+e.Addr)
	}
	sort.Strings(gs)
	fmt.Fprintf(&b, "G%v", gs)
	for _, e := range d.ListenAddrs {
		// the stored order and multiplicity of a list do not influence any of the four methods; the oracle
		// judges them, the key keeps the set (this keeps the space finite even when an entry leaks)
		set := map[string]bool{}
		for _, a := range e.Addrs {
			set[a] = true
		}
		as := make([]string, 0, len(set))
		for a := range set {
			as = append(as, a)
		}
		sort.Strings(as)
		fmt.Fprintf(&b, "L[%q %v]", e.ListenAddr, as)
	}
	b.WriteString("|model:")
	for _, a := range maddrs {
		c := l.m.Live[a]
		fmt.Fprintf(&b, "[%s %s %v %d %d %s]", a, c.State, c.Outgoing, c.Mirror, c.ListenPort, ren[c.ID])
	}
	return b.String()
}

func (x *c24ctx) ops(l *c24live) []c24op {
	if l.div == nil {
		// instance obtained by replay: judge the state (the divergence is a function of the state)
		l.div = x.diverge(l)
		for _, it := range l.div {
			if it.prune {
				l.corrupt = true
			}
		}
	}
	if l.corrupt {
		return nil // behaviour-relevant divergence: reported at the step that introduced it; not explored further
	}
	var ops []c24op
	for _, a := range c24Addrs {
		ops = append(ops, c24op{K: "pending", A: a})
	}
	for _, a := range c24Addrs {
		if l.dm != nil {
			ops = append(ops, c24op{K: "connected", A: a, ID: "fresh", S: "solicited"}, c24op{K: "connected", A: a, ID: "fresh", S: "unsolicited"})
			continue
		}
		ops = append(ops, c24op{K: "connected", A: a, ID: "fresh"})
	}
	for _, a := range c24Addrs {
		ids := []string{"stale", "zero"}
		if c := l.m.Live[a]; c != nil && c.ID != 0 {
			ids = []string{"own", "stale", "zero"}
		}
		for _, id := range ids {
			for _, m := range c24Mirrors {
				for _, p := range c24Ports {
					ops = append(ops, c24op{K: "introduced", A: a, ID: id, M: m, P: p})
				}
			}
		}
		for _, id := range ids {
			ops = append(ops, c24op{K: "remove", A: a, ID: id})
		}
	}
	return ops
}

func c24(r *engine.Run) {
	r.RaceWorkload = "peers:connections" // supplement: free-running race-detector pass on one shared object (can only add findings)
	x := &c24ctx{r: r}
	if r.Quick() {
		r.SetBudget(70 * time.Second)
	} else {
		r.SetBudget(15 * time.Minute)
	}
	sp := engine.Space[*c24live, c24op]{
		New: func() *c24live {
			l := &c24live{c: daemon.NewConnections(), m: model.NewConnModel(), nextID: 1}
			return l
		},
		Ops:   func(l *c24live) []c24op { return x.ops(l) },
		Apply: func(l *c24live, op c24op, check bool) string { return x.apply(l, op, check) },
		Key:   func(l *c24live) string { return l.key() },
		Invariant: func(l *c24live, hist []c24op) {
			if l.corrupt {
				atomic.AddInt64(&x.pruned, 1)
			}
			cse := map[string]interface{}{"events": hist, "trace": fmt.Sprint(hist)}
			// two introduced connections never share (IP, mirror) — judged on the REAL conns map
			seen := map[string]string{}
			for _, e := range l.getDump().Conns {
				if e.Conn == nil || e.Conn.State != model.StIntroduced {
					continue
				}
				ip := strings.Split(e.Conn.Addr, ":")[0]
				k := fmt.Sprintf("%s/%d", ip, e.Conn.Mirror)
				if o, ok := seen[k]; ok {
					r.Failf("Connections:two-introduced-connections-share-ip-and-mirror", cse, "after %v: %s and %s are both introduced with IP/mirror %s", hist, o, e.Key, k)
				}
				seen[k] = e.Key
			}
			if s := l.m.SharedIPMirror(); s != "" {
				r.Broken("model reached a state with a shared (IP, mirror): %s", s)
			}
		},
		MaxDepth: r.Pick(7, 40), // thorough: the space is finite, the fixpoint is reached long before the bound
		Stop:     r.OutOfTime,
	}
	res := engine.BFS(sp)

	// second exploration: the same events, but connect and disconnect events are delivered through the daemon's own handlers
	// (onConnectEvent, onDisconnectEvent) on the Connections of a Daemon - a caller that touches the records it gets back from
	// Connections is part of what keeps the maps right
	spD := sp
	spD.New = func() *c24live {
		dm, stop := daemon.VerifMiniDaemon()
		return &c24live{dm: dm, stop: stop, c: daemon.VerifDaemonConnections(dm), m: model.NewConnModel(), nextID: 1}
	}
	spD.Close = func(l *c24live) {
		if l.stop != nil {
			l.stop()
		}
	}
	spD.MaxDepth = r.Pick(4, 6)
	resD := engine.BFS(spD)
	for k, v := range resD.Outcomes {
		res.Outcomes["daemon:"+k] += v
	}

	// third exploration: addresses in unusual but accepted spellings - a port with a leading zero (the peer list keeps such a
	// string as it was read from a peers file; it names the same listen address as the plain spelling) and port 0
	saveA, saveL := c24Addrs, c24LAddrs
	c24Addrs = []string{"1.1.1.1:06000", "1.1.1.1:6000", "2.2.2.2:0"}
	c24LAddrs = []string{"", "1.1.1.1:6000", "1.1.1.1:06000", "1.1.1.1:6001", "2.2.2.2:0", "2.2.2.2:6000"}
	spS := sp
	spS.MaxDepth = r.Pick(4, 6)
	resS := engine.BFS(spS)
	c24Addrs, c24LAddrs = saveA, saveL
	for k, v := range resS.Outcomes {
		res.Outcomes["spelling:"+k] += v
	}

	// vacuity guards
	need := []string{"pending:ok", "pending:" + model.RExists, "connected:ok", "connected:" + model.RAlreadyConnected,
		"connected:" + model.RAlreadyIntroduced, "introduced:ok", "introduced:" + model.RNotExist, "introduced:" + model.RStateNotConnected,
		"introduced:" + model.RGnetIDMismatch, "introduced:" + model.RAlreadyIntroduced, "introduced:" + model.RIPMirrorExists,
		"introduced:" + model.RInvalidGnetID, "remove:ok", "remove:" + model.RNotExist, "remove:" + model.RGnetIDMismatch}
	for _, n := range need {
		if res.Outcomes[n] == 0 {
			r.Broken("vacuous: outcome class %q never observed (histogram %v)", n, res.Outcomes)
		}
	}
	if res.States < 500 {
		r.Broken("vacuous: only %d states", res.States)
	}
	if x.emptySeen == 0 {
		r.Broken("vacuous: never returned to an empty live set")
	}
	r.Assumptions = append(r.Assumptions,
		"alphabet: addresses "+fmt.Sprint(c24Addrs)+", mirrors "+fmt.Sprint(c24Mirrors)+", listen ports "+fmt.Sprint(c24Ports)+"; the other IntroductionMessage fields are fixed and valid",
		"connection ids: connected() always receives a fresh id (gnet hands out unique ids), introduced()/remove() receive the connection's own id, 0 (connect failure) or a stale id (the most recently retired id, or a never-issued one); two live connections never share an id",
		"state key renames ids by the address of their holder — sound because Connections compares ids only for equality and with 0; listenAddrs lists enter the key as sets",
		"events the daemon itself guards against (pending/connected on an existing address) are included; the model expects the documented error and no state change",
		"a state in which conns, mirrors, gnetIDs or a non-zero ipCounts/listenAddrs entry differ from the model is reported at the event that introduced the difference and is not expanded further (leaked zero ipCounts entries and listenAddrs[\"\"] do not influence the four methods and are explored through); only NEW differences of a step are reported",
		"ConnectedAt (wall clock) is not observed by the property and is left out of the state key")
	cov := res.Coverage("every event of the alphabet (3 pending, 3 connected, up to 81 introduced, up to 9 remove) is applied to the real daemon.Connections in every distinct state; states are replayed from a fresh NewConnections(); maps + error + getters compared with the reference model after every event")
	cov["through_daemon_handlers"] = map[string]interface{}{"what": "same events, ConnectEvent (solicited / unsolicited) and DisconnectEvent delivered through Daemon.onConnectEvent / onDisconnectEvent of a Daemon with a real offline gnet pool; maps and getters compared with the model after every event",
		"states": resD.States, "transitions": resD.Transitions, "max_depth": spD.MaxDepth, "exhaustive": resD.Exhaustive}
	cov["unusual_address_spellings"] = map[string]interface{}{"addresses": []string{"1.1.1.1:06000", "1.1.1.1:6000", "2.2.2.2:0"}, "states": resS.States, "transitions": resS.Transitions, "max_depth": spS.MaxDepth}
	cov["max_depth"] = sp.MaxDepth
	cov["events_per_state_max"] = 96
	cov["transitions_removing_last_connection"] = x.emptySeen
	cov["corrupt_states_not_expanded"] = x.pruned
	cov["getter_queries"] = x.getterQ
	cov["alphabet"] = map[string]interface{}{"addresses": c24Addrs, "mirrors": c24Mirrors, "listen_ports": c24Ports, "ids": []string{"fresh", "own", "stale", "zero"}}
	r.Finish(cov)
}
