package main

import (
	"fmt"
	"os"
	"runtime/pprof"
	"time"

	"github.com/skycoin/skycoin/src/cipher"
	"github.com/skycoin/skycoin/src/wallet"
)

// "bench" worker: single-threaded cost of the basic service operations (diagnostics, not a check).
func init() {
	workers["bench"] = func(args []string) {
		if len(args) > 0 && args[0] == "nodebug" {
			cipher.DebugLevel1, cipher.DebugLevel2 = false, false
		}
		tm := func(name string, n int, f func(i int)) {
			t0 := time.Now()
			for i := 0; i < n; i++ {
				f(i)
			}
			fmt.Printf("%-40s %8.2f ms/op\n", name, float64(time.Since(t0).Microseconds())/1000/float64(n))
		}
		var ls []*c19Live
		tm("NewService(empty dir)", 20, func(i int) { ls = append(ls, c19New()) })
		tm("CreateWallet det plain", 20, func(i int) {
			ls[i].apply(c19Op{Kind: "CreateWallet", Slot: -1, Type: wallet.WalletTypeDeterministic, Name: "fresh", Mode: "plain"}, false)
		})
		tm("CreateWallet bip44 enc", 20, func(i int) {
			ls[i].apply(c19Op{Kind: "CreateWallet", Slot: -1, Type: wallet.WalletTypeBip44, Seed: 1, Name: "fresh", Mode: "encrypted"}, false)
		})
		tm("CreateWallet xpub", 20, func(i int) {
			ls[i].apply(c19Op{Kind: "CreateWallet", Slot: -1, Type: wallet.WalletTypeXPub, Seed: 2, Name: "fresh", Mode: "plain"}, false)
		})
		tm("NewAddresses det n=1", 20, func(i int) { ls[i].apply(c19Op{Kind: "NewAddresses", Slot: 0, Pw: "none", Arg: "n=1"}, false) })
		tm("NewAddresses bip44 n=1", 20, func(i int) { ls[i].apply(c19Op{Kind: "NewAddresses", Slot: 1, Pw: "right", Arg: "n=1"}, false) })
		tm("UpdateWalletLabel", 20, func(i int) { ls[i].apply(c19Op{Kind: "UpdateWalletLabel", Slot: 0, Arg: "label-2"}, false) })
		tm("EncryptWallet det", 20, func(i int) { ls[i].apply(c19Op{Kind: "EncryptWallet", Slot: 0, Pw: "right"}, false) })
		tm("checked step (label) incl. snapshots", 20, func(i int) { ls[i].apply(c19Op{Kind: "UpdateWalletLabel", Slot: 0, Arg: "label-2"}, true) })
		pf, _ := os.Create("/dev/shm/wsvc-bench.prof")
		pprof.StartCPUProfile(pf)
		tm("Key", 200, func(i int) { c19Key(ls[i%20]) })
		tm("state oracle (3 wallets)", 200, func(i int) { c19State(ls[i%20], "x") })
		pprof.StopCPUProfile()
		pf.Close()
		for _, l := range ls {
			c19Close(l)
		}
		os.Exit(0)
	}
}
