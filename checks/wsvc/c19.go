package main

import (
	"crypto/sha256"
	"encoding/hex"
	"errors"
	"fmt"
	"os"
	"path/filepath"
	"regexp"
	"sort"
	"strings"
	"sync"
	"sync/atomic"
	"time"

	"github.com/skycoin/skycoin/src/cipher"
	"github.com/skycoin/skycoin/src/cipher/crypto"
	"github.com/skycoin/skycoin/src/wallet"

	"verif/engine"
	wsvc "verif/model/wsvc"
	"verif/model/wsvcfs"
	"verif/shim/vos"
)

// C19 — the wallet service's memory and disk views never diverge.
//
// Explicit-state search (engine.BFS, replay states): a state is re-obtained by replaying its operation history on
// a fresh wallet.Service over a fresh scratch directory.  The transition function is the real service.  Oracles:
//
//	step  : an operation that returned an error changed neither the memory of the service nor any byte of the
//	        directory; an operation on a temporary wallet never touches the directory; no operation panics.
//	state : every loaded non-temporary wallet ≡ wallet.Load(its file); GetWallets/GetWallet hand out clones;
//	        no two loaded wallets share a fingerprint or a (type, seed); a fresh wallet.NewService on the same
//	        directory succeeds and loads every loaded non-temporary wallet with equal content, plus at most the
//	        files of wallets that were unloaded (UnloadWallet removes a wallet from the service only).
func init() { register("C19", "model_checking", c19) }

type c19Op struct {
	Kind string `json:"op"`
	Slot int    `json:"slot"`           // target wallet (creation-order number), -1 = none
	Type string `json:"type,omitempty"` // create: wallet type
	Seed int    `json:"seed,omitempty"` // create: seed number
	Name string `json:"name,omitempty"` // create: fresh | generated | slot<k> (reuse the name of wallet k)
	Mode string `json:"mode,omitempty"` // create: plain | encrypted | temporary | bad:<what>
	Pw   string `json:"password,omitempty"`
	Arg  string `json:"arg,omitempty"`
	RO   bool   `json:"read_only_directory,omitempty"` // the wallet directory refuses writes (EACCES) during this operation
}

func (o c19Op) String() string {
	s := o.Kind
	if o.Slot >= 0 {
		s += fmt.Sprintf("(w%d", o.Slot)
	} else {
		s += "("
	}
	for _, p := range []string{o.Type, o.Mode, o.Name, o.Pw, o.Arg} {
		if p != "" {
			s += " " + p
		}
	}
	if o.Kind == "CreateWallet" && (o.Type == "deterministic" || o.Type == "bip44" || o.Type == "xpub") {
		s += fmt.Sprintf(" seed%d", o.Seed)
	}
	if o.RO {
		s += " READ-ONLY-DIR"
	}
	return s + ")"
}

type c19Live struct {
	dir    string
	svc    *wallet.Service
	tr     *wsvc.Tracker
	broken string
	hist   []c19Op // operations replayed so far (maintained while replaying)
}

func c19New() *c19Live {
	l := &c19Live{dir: freshDir("c19"), tr: &wsvc.Tracker{}}
	s, err := wallet.NewService(svcConfig(l.dir))
	if err != nil {
		l.broken = err.Error()
	}
	l.svc = s
	return l
}

func c19Close(l *c19Live) {
	vos.SetReadOnly(l.dir, false)
	os.RemoveAll(l.dir)
}

var c19MaxSlots = 3

// c19Ops is the operation menu of a state; it depends on the bookkeeping (part of the state key) only.
func c19Ops(l *c19Live) []c19Op {
	t := l.tr
	var ops []c19Op
	add := func(o c19Op) { ops = append(ops, o) }
	// --- a service that starts on a directory it did not fill itself ------------------------------------
	if len(t.Slots) == 0 {
		// a wallet file lying in the directory under another name than the one recorded inside it (restored from a backup,
		// renamed by hand, a legacy file): the service is restarted on it; from then on it is wallet w0
		add(c19Op{Kind: "AdoptRenamedFile", Slot: -1})
	}
	// --- CreateWallet ---------------------------------------------------------------------------
	if len(t.Slots) < c19MaxSlots {
		used := t.UsedSeeds()
		seedChoices := []int{}
		for s := 0; s <= used && s < len(seeds); s++ { // every seed already in use (duplicates!) and the next unused one
			seedChoices = append(seedChoices, s)
		}
		for _, typ := range []string{wallet.WalletTypeDeterministic, wallet.WalletTypeBip44} {
			for _, sd := range seedChoices {
				for _, mode := range []string{"plain", "encrypted", "temporary"} {
					add(c19Op{Kind: "CreateWallet", Slot: -1, Type: typ, Seed: sd, Name: "fresh", Mode: mode})
				}
			}
		}
		for _, mode := range []string{"plain", "encrypted", "temporary"} {
			add(c19Op{Kind: "CreateWallet", Slot: -1, Type: wallet.WalletTypeCollection, Seed: -1, Name: "fresh", Mode: mode})
		}
		for _, sd := range seedChoices {
			for _, mode := range []string{"plain", "temporary"} {
				add(c19Op{Kind: "CreateWallet", Slot: -1, Type: wallet.WalletTypeXPub, Seed: sd, Name: "fresh", Mode: mode})
			}
		}
		// re-use of a wallet id that is already taken: by a loaded wallet (name conflict) or by the file of an unloaded one
		next := used % len(seeds)
		for i := range t.Slots {
			if t.CanonName(t.Slots[i].Name) != fmt.Sprintf("<name%d>", i) {
				continue // each distinct existing name once
			}
			nm := fmt.Sprintf("slot%d", i)
			if t.SlotOf(t.Slots[i].Name) >= 0 {
				add(c19Op{Kind: "CreateWallet", Slot: -1, Type: wallet.WalletTypeDeterministic, Seed: next, Name: nm, Mode: "plain"})
				add(c19Op{Kind: "CreateWallet", Slot: -1, Type: wallet.WalletTypeCollection, Seed: -1, Name: nm, Mode: "temporary"})
			} else {
				for _, sd := range []int{t.Slots[i].Seed, next} {
					if sd < 0 {
						continue
					}
					add(c19Op{Kind: "CreateWallet", Slot: -1, Type: wallet.WalletTypeDeterministic, Seed: sd, Name: nm, Mode: "plain"})
					add(c19Op{Kind: "CreateWallet", Slot: -1, Type: wallet.WalletTypeDeterministic, Seed: sd, Name: nm, Mode: "temporary"})
				}
				add(c19Op{Kind: "CreateWallet", Slot: -1, Type: wallet.WalletTypeBip44, Seed: next, Name: nm, Mode: "encrypted"})
			}
		}
		// service-generated file name: only while no unloaded wallet file lies around (the generated name is random)
		if len(t.UnloadedOnDisk()) == 0 {
			add(c19Op{Kind: "CreateWallet", Slot: -1, Type: wallet.WalletTypeDeterministic, Seed: used % len(seeds), Name: "generated", Mode: "plain"})
			add(c19Op{Kind: "CreateWallet", Slot: -1, Type: wallet.WalletTypeBip44, Seed: used % len(seeds), Name: "generated", Mode: "temporary"})
		}
		// bad parameters
		for _, bad := range []string{"bad:no-label", "bad:no-seed", "bad:seed-passphrase-on-deterministic", "bad:encrypt-without-password", "bad:password-without-encrypt",
			"bad:encrypted-temporary", "bad:unknown-type", "bad:invalid-mnemonic-bip44", "bad:xpub-encrypted", "bad:xpub-garbage",
			"bad:label-not-utf8", "bad:seed-not-utf8"} {
			add(c19Op{Kind: "CreateWallet", Slot: -1, Type: wallet.WalletTypeDeterministic, Seed: used % len(seeds), Name: "fresh", Mode: bad})
		}
		// the directory refuses writes
		add(c19Op{Kind: "CreateWallet", Slot: -1, Type: wallet.WalletTypeDeterministic, Seed: used % len(seeds), Name: "fresh", Mode: "plain", RO: true})
		add(c19Op{Kind: "CreateWallet", Slot: -1, Type: wallet.WalletTypeBip44, Seed: used % len(seeds), Name: "fresh", Mode: "encrypted", RO: true})
	}
	// --- operations on a loaded wallet ---------------------------------------------------------------
	for _, i := range t.LoadedSlots() {
		right := "none"
		if t.Encrypted(i) {
			right = "right"
		}
		enc := t.Encrypted(i)
		add(c19Op{Kind: "NewAddresses", Slot: i, Pw: "none", Arg: "n=1"})
		add(c19Op{Kind: "NewAddresses", Slot: i, Pw: "right", Arg: "n=1"})
		if enc {
			add(c19Op{Kind: "NewAddresses", Slot: i, Pw: "wrong", Arg: "n=1"})
		}
		add(c19Op{Kind: "NewAddresses", Slot: i, Pw: right, Arg: "n=2"})
		add(c19Op{Kind: "NewAddresses", Slot: i, Pw: right, Arg: "n=1", RO: true})
		add(c19Op{Kind: "ScanAddresses", Slot: i, Pw: right, Arg: "none-active"})
		add(c19Op{Kind: "ScanAddresses", Slot: i, Pw: right, Arg: "last-active"})
		add(c19Op{Kind: "ScanAddresses", Slot: i, Pw: right, Arg: "finder-error"})
		add(c19Op{Kind: "ScanAddresses", Slot: i, Pw: right, Arg: "change-chain-only-active"})
		add(c19Op{Kind: "ScanAddresses", Slot: i, Pw: right, Arg: "first-external-active"})
		add(c19Op{Kind: "ScanAddresses", Slot: i, Pw: "wrong", Arg: "last-active"})
		add(c19Op{Kind: "ScanAddresses", Slot: i, Pw: right, Arg: "last-active", RO: true})
		add(c19Op{Kind: "UpdateWalletLabel", Slot: i, Arg: "label-2"})
		add(c19Op{Kind: "UpdateWalletLabel", Slot: i, Arg: "label-2", RO: true})
		add(c19Op{Kind: "UpdateWalletLabel", Slot: i, Arg: "label\xffnot-utf8"})
		add(c19Op{Kind: "EncryptWallet", Slot: i, Pw: "right"})
		add(c19Op{Kind: "DecryptWallet", Slot: i, Pw: "right"})
		if enc {
			add(c19Op{Kind: "DecryptWallet", Slot: i, Pw: "wrong"})
			add(c19Op{Kind: "DecryptWallet", Slot: i, Pw: "right", RO: true})
			for _, sd := range []string{"right-seed", "wrong-seed"} {
				for _, pw := range []string{"none", "new"} {
					add(c19Op{Kind: "RecoverWallet", Slot: i, Pw: pw, Arg: sd})
				}
			}
			add(c19Op{Kind: "RecoverWallet", Slot: i, Pw: "new", Arg: "right-seed", RO: true})
		} else {
			add(c19Op{Kind: "EncryptWallet", Slot: i, Pw: "none"})
			add(c19Op{Kind: "EncryptWallet", Slot: i, Pw: "right", RO: true})
			add(c19Op{Kind: "RecoverWallet", Slot: i, Pw: "new", Arg: "right-seed"})
		}
		add(c19Op{Kind: "UpdateSecrets", Slot: i, Pw: right, Arg: "generate-address"})
		add(c19Op{Kind: "UpdateSecrets", Slot: i, Pw: right, Arg: "mutate-then-fail"})
		add(c19Op{Kind: "UpdateSecrets", Slot: i, Pw: "wrong", Arg: "generate-address"})
		add(c19Op{Kind: "UpdateSecrets", Slot: i, Pw: right, Arg: "generate-address", RO: true})
		add(c19Op{Kind: "Update", Slot: i, Arg: "set-label"})
		add(c19Op{Kind: "Update", Slot: i, Arg: "mutate-then-fail"})
		add(c19Op{Kind: "Update", Slot: i, Arg: "set-label", RO: true})
		add(c19Op{Kind: "View", Slot: i, Pw: right, Arg: "mutate-inside-view"})
		add(c19Op{Kind: "UnloadWallet", Slot: i})
	}
	// --- operations on a wallet id the service does not hold -------------------------------------------------
	add(c19Op{Kind: "UpdateWalletLabel", Slot: -1, Arg: "label-2"})
	add(c19Op{Kind: "UnloadWallet", Slot: -1})
	if us := t.UnloadedOnDisk(); len(us) > 0 {
		add(c19Op{Kind: "NewAddresses", Slot: us[0], Pw: "none", Arg: "n=1"})
		add(c19Op{Kind: "EncryptWallet", Slot: us[0], Pw: "right"})
	}
	return ops
}

func (l *c19Live) password(slot int, which string) []byte {
	switch which {
	case "right":
		if slot >= 0 && l.tr.Slots[slot].Password != "" {
			return []byte(l.tr.Slots[slot].Password)
		}
		return []byte(pw1) // "right" on an unencrypted wallet: a password where none is expected
	case "wrong":
		return []byte(pwWrong)
	case "new":
		return []byte(pw2)
	}
	return nil
}

func (l *c19Live) id(slot int) string {
	if slot < 0 {
		return "no-such-wallet.wlt"
	}
	return l.tr.Slots[slot].Name
}

type c19Snap struct {
	mem  string
	disk *wsvcfs.Image
}

func (l *c19Live) memString() string {
	ws, fps := wallet.VerifDump(l.svc)
	var b strings.Builder
	b.WriteString(viewString(walletsView(ws)))
	keys := make([]string, 0, len(fps))
	for k := range fps {
		keys = append(keys, k)
	}
	sort.Strings(keys)
	for _, k := range keys {
		fmt.Fprintf(&b, "fp %s -> %s\n", k, fps[k])
	}
	return b.String()
}

func (l *c19Live) snap() c19Snap {
	im, err := wsvcfs.Read(l.dir)
	must(err)
	return c19Snap{mem: l.memString(), disk: im}
}

var c19Transitions int64
var c19RO = engine.NewCounter()
var c19Obs = engine.NewCounter()
var c19Time = engine.NewCounter() // microseconds spent per operation kind (incl. step oracle snapshots), diagnostics only

// c19Apply executes one operation on the real service.
func (l *c19Live) apply(op c19Op, check bool) (class string, vs []c19Violation) {
	if l.broken != "" {
		return "service-did-not-start", nil
	}
	if !check {
		l.hist = append(l.hist, op)
	}
	hist := func() []c19Op { return append(append([]c19Op{}, l.hist...), op) }
	fail := func(sig, detail string) { vs = append(vs, c19Violation{sig, detail}) }
	atomic.AddInt64(&c19Transitions, 1)
	var before c19Snap
	if check {
		before = l.snap()
	}
	s, t := l.svc, l.tr
	var err error
	var onSuccess func()
	touchesTemp := op.Slot >= 0 && t.Slots[op.Slot].Temp && t.Slots[op.Slot].Loaded
	if op.RO {
		vos.SetReadOnly(l.dir, true)
	}
	t0 := time.Now()
	defer func() { c19Time.AddN(op.Kind+"/"+op.Type, int(time.Since(t0).Microseconds())) }()
	pan, pmsg := engine.Catch(func() {
		switch op.Kind {
		case "CreateWallet":
			o := wallet.Options{Type: op.Type, Label: "label-1", CryptoType: crypto.CryptoTypeSha256Xor}
			switch op.Type {
			case wallet.WalletTypeDeterministic, wallet.WalletTypeBip44:
				o.Seed = seeds[op.Seed]
			case wallet.WalletTypeXPub:
				o.XPub = xpubs[op.Seed]
			case wallet.WalletTypeCollection:
				o.CollectionPrivateKeys = collKeys[:2]
			}
			pw := ""
			switch op.Mode {
			case "plain":
			case "encrypted":
				o.Encrypt, o.Password, pw = true, []byte(pw1), pw1
			case "temporary":
				o.Temp = true
				touchesTemp = true
			case "bad:no-label":
				o.Label = ""
			case "bad:no-seed":
				o.Seed = ""
			case "bad:seed-passphrase-on-deterministic":
				o.SeedPassphrase = "passphrase"
			case "bad:encrypt-without-password":
				o.Encrypt = true
			case "bad:password-without-encrypt":
				o.Password = []byte(pw1)
			case "bad:encrypted-temporary":
				o.Encrypt, o.Password, o.Temp = true, []byte(pw1), true
			case "bad:unknown-type":
				o.Type = "no-such-type"
			case "bad:invalid-mnemonic-bip44":
				o.Type, o.Seed = wallet.WalletTypeBip44, "this is not a valid bip39 mnemonic at all"
			case "bad:xpub-encrypted":
				o.Type, o.XPub, o.Encrypt, o.Password = wallet.WalletTypeXPub, xpubs[0], true, []byte(pw1)
			case "bad:xpub-garbage":
				o.Type, o.XPub = wallet.WalletTypeXPub, "xpub-garbage"
			case "bad:label-not-utf8":
				// text that the JSON wallet file cannot hold as it is (an HTTP form value can carry such bytes)
				o.Label = "label\xffone"
			case "bad:seed-not-utf8":
				o.Type, o.Seed = wallet.WalletTypeDeterministic, "seed\xffbytes"
			}
			name := ""
			switch {
			case op.Name == "fresh":
				name = fmt.Sprintf("wallet-%d.wlt", len(t.Slots))
			case op.Name == "generated":
				name = ""
			case strings.HasPrefix(op.Name, "slot"):
				var k int
				fmt.Sscanf(op.Name, "slot%d", &k)
				name = t.Slots[k].Name
			}
			var w wallet.Wallet
			w, err = s.CreateWallet(name, o)
			if err == nil {
				fn := w.Filename()
				seed := op.Seed
				if op.Type == wallet.WalletTypeCollection {
					seed = -1
				}
				if strings.HasPrefix(op.Mode, "bad:") {
					// a "bad parameter" that the service accepts creates whatever it creates; book it by what came back
					seed = -1
					for k, sd := range seeds {
						if w.Seed() == sd {
							seed = k
						}
					}
					if w.IsEncrypted() {
						pw = pw1
					}
				}
				temp := w.IsTemp()
				typ := w.Type()
				onSuccess = func() {
					if check {
						// observations that the statement does not judge (see assumptions)
						if o := t.DiskOwner(fn); o >= 0 && !t.Slots[o].Loaded && !temp {
							c19Obs.Add("CreateWallet-overwrote-the-file-of-an-unloaded-wallet")
						}
						for _, i := range t.LoadedSlots() {
							if sl := t.Slots[i]; seed >= 0 && sl.Seed == seed && sl.Type != typ && sl.Type != wallet.WalletTypeXPub && typ != wallet.WalletTypeXPub {
								c19Obs.Add("same-mnemonic-accepted-for-a-deterministic-and-a-bip44-wallet")
							}
						}
					}
					t.Created(fn, typ, seed, temp, pw)
				}
			}
		case "AdoptRenamedFile":
			tmp := freshDir("c19adopt")
			defer os.RemoveAll(tmp)
			var ts *wallet.Service
			if ts, err = wallet.NewService(svcConfig(tmp)); err != nil {
				panic("harness: " + err.Error())
			}
			if _, err = ts.CreateWallet("orig.wlt", wallet.Options{Type: wallet.WalletTypeDeterministic, Seed: seeds[0], Label: "label-1", CryptoType: crypto.CryptoTypeSha256Xor}); err != nil {
				panic("harness: " + err.Error())
			}
			var b []byte
			if b, err = os.ReadFile(filepath.Join(tmp, "orig.wlt")); err != nil {
				panic("harness: " + err.Error())
			}
			if err = os.WriteFile(filepath.Join(l.dir, "renamed.wlt"), b, 0o600); err != nil {
				panic("harness: " + err.Error())
			}
			var ns *wallet.Service
			ns, err = wallet.NewService(svcConfig(l.dir))
			if err == nil {
				l.svc, s = ns, ns
				onSuccess = func() { t.Created("renamed.wlt", wallet.WalletTypeDeterministic, 0, false, "") }
			}
		case "NewAddresses":
			n := uint64(1)
			if op.Arg == "n=2" {
				n = 2
			}
			_, err = s.NewAddresses(l.id(op.Slot), l.password(op.Slot, op.Pw), wallet.OptionGenerateN(n))
		case "ScanAddresses":
			mode := map[string]string{"none-active": "none", "last-active": "last", "finder-error": "error", "change-chain-only-active": "second-call-last", "first-external-active": "first-call-first"}[op.Arg]
			calls := 0
			_, err = s.ScanAddresses(l.id(op.Slot), l.password(op.Slot, op.Pw), 2, fakeTF{mode, &calls})
		case "UpdateWalletLabel":
			err = s.UpdateWalletLabel(l.id(op.Slot), op.Arg)
		case "EncryptWallet":
			pw := l.password(-1, op.Pw)
			_, err = s.EncryptWallet(l.id(op.Slot), pw)
			onSuccess = func() { t.SetPassword(op.Slot, string(pw)) }
		case "DecryptWallet":
			_, err = s.DecryptWallet(l.id(op.Slot), l.password(op.Slot, op.Pw))
			onSuccess = func() { t.SetPassword(op.Slot, "") }
		case "RecoverWallet":
			seed := wrongSeed
			if op.Arg == "right-seed" && op.Slot >= 0 && t.Slots[op.Slot].Seed >= 0 && t.Slots[op.Slot].Type != wallet.WalletTypeXPub {
				seed = seeds[t.Slots[op.Slot].Seed]
			}
			pw := l.password(op.Slot, op.Pw)
			_, err = s.RecoverWallet(l.id(op.Slot), seed, "", pw)
			onSuccess = func() { t.SetPassword(op.Slot, string(pw)) }
		case "UpdateSecrets":
			err = s.UpdateSecrets(l.id(op.Slot), l.password(op.Slot, op.Pw), func(w wallet.Wallet) error {
				if _, e := w.GenerateAddresses(wallet.OptionGenerateN(1)); e != nil {
					return e
				}
				if op.Arg == "mutate-then-fail" {
					w.SetLabel("label-from-failed-update")
					return errors.New("callback failed after mutating its wallet")
				}
				return nil
			})
		case "Update":
			err = s.Update(l.id(op.Slot), func(w wallet.Wallet) error {
				w.SetLabel("label-3")
				if op.Arg == "mutate-then-fail" {
					return errors.New("callback failed after mutating its wallet")
				}
				return nil
			})
		case "View":
			mut := func(w wallet.Wallet) error {
				w.SetLabel("label-from-view")
				w.Erase()
				return nil
			}
			if op.Slot >= 0 && t.Encrypted(op.Slot) {
				err = s.ViewSecrets(l.id(op.Slot), l.password(op.Slot, op.Pw), mut)
			} else {
				err = s.View(l.id(op.Slot), mut)
			}
			if err == nil {
				_, _, err = s.GetWalletSeed(l.id(op.Slot), l.password(op.Slot, op.Pw))
				if err != nil && !(op.Slot >= 0 && t.Encrypted(op.Slot)) {
					err = nil // GetWalletSeed is only defined for encrypted wallets
				}
			}
		case "UnloadWallet":
			err = s.UnloadWallet(l.id(op.Slot))
			if op.Slot >= 0 {
				onSuccess = func() { t.Unloaded(op.Slot) }
			}
		default:
			panic("harness: unknown op " + op.Kind)
		}
	})
	if op.RO {
		vos.SetReadOnly(l.dir, false)
	}
	if pan {
		if check {
			fail("Service."+op.Kind+":panic", fmt.Sprintf("history %v: panic: %s", hist(), pmsg))
		}
		return op.Kind + ":panic", vs
	}
	if err == nil && onSuccess != nil {
		onSuccess()
	}
	class = op.Kind + ":" + errClass(err)
	if op.RO {
		class = op.Kind + "[read-only-dir]:" + errClass(err)
		c19RO.Add(errClass(err))
	}
	if !check {
		return class, nil
	}
	after := l.snap()
	if err != nil {
		if after.mem != before.mem {
			fail("Service."+op.Kind+":failed-operation-changed-memory",
				fmt.Sprintf("history %v: the last operation returned %q but the service memory changed:\n--- before\n%s--- after\n%s", hist(), err, before.mem, after.mem))
		}
		if !after.disk.Equal(before.disk) {
			sig := "Service." + op.Kind + ":failed-operation-changed-disk"
			if c19WalletFiles(after.disk) == c19WalletFiles(before.disk) {
				sig = "Service." + op.Kind + ":failed-operation-left-temporary-file"
			}
			fail(sig, fmt.Sprintf("history %v: the last operation returned %q but the wallet directory changed: %s", hist(), err, before.disk.Diff(after.disk)))
		}
	} else if touchesTemp && !after.disk.Equal(before.disk) {
		sig := "Service." + op.Kind + ":temporary-wallet-touched-disk"
		fail(sig, fmt.Sprintf("history %v: the last operation works on a temporary wallet but changed the wallet directory: %s", hist(), before.disk.Diff(after.disk)))
	}
	return class, vs
}

// c19WalletFiles: the part of a directory image a starting service looks at.
func c19WalletFiles(im *wsvcfs.Image) string {
	var b strings.Builder
	for _, n := range im.Names() {
		if strings.HasSuffix(n, wallet.WalletExt) {
			fmt.Fprintf(&b, "%s %x\n", n, sha256.Sum256(im.Files[n]))
		}
	}
	return b.String()
}

var reSecrets = regexp.MustCompile(`"secrets": "([^"]*)"`)

// canon makes a serialised wallet independent of wall-clock time, generated file names and encryption nonces.
func (l *c19Live) canon(text string, slot int) string {
	text = reTm.ReplaceAllString(text, `"tm": "T"`)
	text = reSecrets.ReplaceAllStringFunc(text, func(m string) string {
		sub := reSecrets.FindStringSubmatch(m)
		if sub[1] == "" {
			return m
		}
		// the ciphertext depends on a random nonce; its length depends on the plaintext length only
		return fmt.Sprintf(`"secrets": "<ciphertext of %d characters>"`, len(sub[1]))
	})
	return l.tr.CanonText(text)
}

func c19Key(l *c19Live) string {
	if l.broken != "" {
		return "BROKEN " + l.broken
	}
	var b strings.Builder
	b.WriteString(l.tr.Canon())
	ws, fps := wallet.VerifDump(l.svc)
	names := make([]string, 0, len(ws))
	for n := range ws {
		names = append(names, n)
	}
	sort.Slice(names, func(i, j int) bool { return l.tr.CanonName(names[i]) < l.tr.CanonName(names[j]) })
	for _, n := range names {
		fmt.Fprintf(&b, "MEM %s\n%s\n", l.tr.CanonName(n), l.canon(serial(ws[n]), l.tr.SlotOf(n)))
	}
	var fl []string
	for k, v := range fps {
		fl = append(fl, k+" -> "+l.tr.CanonName(v))
	}
	sort.Strings(fl)
	b.WriteString(strings.Join(fl, "\n"))
	im, err := wsvcfs.Read(l.dir)
	must(err)
	var dl []string
	for _, n := range im.Names() {
		owner := l.tr.DiskOwner(n)
		dl = append(dl, fmt.Sprintf("\nFILE %s\n%s", l.tr.CanonText(n), l.canon(string(im.Files[n]), owner)))
	}
	sort.Strings(dl)
	b.WriteString(strings.Join(dl, ""))
	h := sha256.Sum256([]byte(b.String()))
	return hex.EncodeToString(h[:])
}

type c19Violation struct{ sig, detail string }

// c19State evaluates the state oracles.
func c19State(l *c19Live, last string) (vs []c19Violation) {
	if l.broken != "" {
		return []c19Violation{{"wallet.NewService:fails-on-empty-directory", l.broken}}
	}
	add := func(sig, f string, a ...interface{}) { vs = append(vs, c19Violation{sig, fmt.Sprintf(f, a...)}) }
	s, t := l.svc, l.tr
	mem, _ := wallet.VerifDump(s)
	memBefore := l.memString()

	// the service holds exactly the wallets that were created and not unloaded
	for _, i := range t.LoadedSlots() {
		if _, ok := mem[t.Slots[i].Name]; !ok {
			add("Service."+last+":loaded-wallet-missing-from-memory", "wallet w%d (%s) was created and never unloaded but the service does not hold it", i, t.Slots[i].Name)
		}
	}
	// memory == file for loaded non-temporary wallets; nothing on disk for temporary ones
	type fpOwner struct{ name, fp string }
	var fpsSeen []fpOwner
	for name, w := range mem {
		slot := t.SlotOf(name)
		if slot < 0 {
			add("Service."+last+":unknown-wallet-in-memory", "the service holds %q which no successful CreateWallet produced (or which was unloaded)", name)
			continue
		}
		if fp := w.Fingerprint(); fp != "" {
			fpsSeen = append(fpsSeen, fpOwner{name, fp})
		}
		path := filepath.Join(l.dir, name)
		if w.IsTemp() != t.Slots[slot].Temp {
			add("Service."+last+":temporary-flag-changed", "wallet w%d: IsTemp()=%v but it was created with temp=%v", slot, w.IsTemp(), t.Slots[slot].Temp)
		}
		if w.IsTemp() {
			if _, err := os.Stat(path); err == nil && t.DiskOwner(name) < 0 {
				add("Service."+last+":temporary-wallet-has-file", "temporary wallet w%d has a file %s", slot, name)
			}
			continue
		}
		fw, err := wallet.Load(path)
		if err != nil || fw == nil {
			add("Service."+last+":loaded-wallet-file-unreadable", "wallet w%d is loaded and not temporary, but wallet.Load(%s) fails: %v", slot, name, err)
			continue
		}
		if a, b := serial(w), serial(fw); a != b {
			add("Service."+last+":memory-differs-from-file", "wallet w%d (%s): the in-memory wallet and the wallet loaded from its file differ\n--- memory\n%s\n--- file\n%s", slot, name, a, b)
		}
	}
	// no two loaded wallets share a fingerprint / a (type, seed)
	sort.Slice(fpsSeen, func(i, j int) bool { return fpsSeen[i].name < fpsSeen[j].name })
	for i := range fpsSeen {
		for j := i + 1; j < len(fpsSeen); j++ {
			if fpsSeen[i].fp == fpsSeen[j].fp {
				add("Service."+last+":two-loaded-wallets-share-fingerprint", "wallets %s and %s are both loaded and share fingerprint %s", fpsSeen[i].name, fpsSeen[j].name, fpsSeen[i].fp)
			}
		}
	}
	ls := t.LoadedSlots()
	for x, i := range ls {
		for _, j := range ls[x+1:] {
			a, b := t.Slots[i], t.Slots[j]
			if a.Seed >= 0 && a.Type == b.Type && a.Seed == b.Seed {
				add("Service."+last+":two-loaded-wallets-share-seed", "wallets w%d and w%d are both loaded %s wallets of seed %d", i, j, a.Type, a.Seed)
			}
		}
	}
	// GetWallets / GetWallet hand out clones
	if ws, err := s.GetWallets(); err != nil {
		add("Service.GetWallets:error", "%v", err)
	} else {
		if a, b := viewString(walletsView(ws)), viewString(walletsView(mem)); a != b {
			add("Service.GetWallets:differs-from-memory", "GetWallets returned\n%s\nbut the service holds\n%s", a, b)
		}
		for name, w := range ws {
			c19Mutate(w)
			if w2, err := s.GetWallet(name); err == nil {
				c19Mutate(w2)
			}
		}
		if after := l.memString(); after != memBefore {
			add("Service.GetWallets:returns-shared-state", "mutating the wallets returned by GetWallets/GetWallet changed the service memory:\n--- before\n%s--- after\n%s", memBefore, after)
		}
	}
	// a fresh service on the same directory
	var fresh *wallet.Service
	var ferr error
	if pan, msg := engine.Catch(func() { fresh, ferr = wallet.NewService(svcConfig(l.dir)) }); pan {
		add("wallet.NewService:restart-panics:after-"+last, "a fresh wallet.NewService on the directory panics: %s", msg)
		return
	}
	if ferr != nil {
		dup, unl := t.DuplicateOnDisk()
		switch {
		case strings.Contains(ferr.Error(), "duplicate wallet found") && dup && unl:
			add("wallet.NewService:restart-fails:duplicate-fingerprint-on-disk:unloaded-wallet-file-plus-recreated-same-seed",
				"a fresh wallet.NewService on the directory fails: %v — an unloaded wallet left its file behind, UnloadWallet freed its fingerprint, and CreateWallet accepted the same seed again under another file name", ferr)
		case strings.Contains(ferr.Error(), "duplicate wallet found"):
			add("wallet.NewService:restart-fails:duplicate-fingerprint-on-disk:after-"+last, "a fresh wallet.NewService on the directory fails: %v", ferr)
		case strings.Contains(ferr.Error(), "empty wallet file found"):
			add("wallet.NewService:restart-fails:empty-wallet:after-"+last, "a fresh wallet.NewService on the directory fails: %v", ferr)
		default:
			add("wallet.NewService:restart-fails:wallet-file-unreadable:after-"+last, "a fresh wallet.NewService on the directory fails: %v", ferr)
		}
		return
	}
	fws, _ := wallet.VerifDump(fresh)
	for name, w := range mem {
		if w.IsTemp() {
			continue
		}
		fw, ok := fws[name]
		if !ok {
			add("wallet.NewService:restart-misses-loaded-wallet:after-"+last, "wallet %s is loaded and not temporary but a fresh service does not load it", name)
			continue
		}
		if a, b := serial(w), serial(fw); a != b {
			add("wallet.NewService:restart-loads-different-content:after-"+last, "wallet %s: memory and the freshly started service differ\n--- memory\n%s\n--- fresh service\n%s", name, a, b)
		}
	}
	for name := range fws {
		if w, ok := mem[name]; ok && !w.IsTemp() {
			continue
		}
		if o := t.DiskOwner(name); o >= 0 && !t.Slots[o].Loaded {
			continue // the file of an unloaded wallet
		}
		add("wallet.NewService:restart-loads-unexpected-wallet:after-"+last, "a fresh service loads %s, which is neither a loaded non-temporary wallet nor the file of an unloaded wallet", name)
	}
	return
}

func c19Mutate(w wallet.Wallet) {
	engine.Catch(func() {
		w.SetLabel("label-mutated-by-caller")
		if !w.IsEncrypted() {
			w.GenerateAddresses(wallet.OptionGenerateN(1)) //nolint:errcheck
		}
		w.SetTimestamp(1)
		w.Erase()
	})
}

func c19Replay(hist []c19Op) *c19Live {
	l := c19New()
	for _, op := range hist {
		l.apply(op, false)
	}
	return l
}

// c19ReproStep re-runs a history whose LAST step violated the step oracle and reports whether the signature shows again.
func c19ReproStep(hist []c19Op, sig string) func() bool {
	return func() bool {
		l := c19Replay(hist[:len(hist)-1])
		defer c19Close(l)
		_, vs := l.apply(hist[len(hist)-1], true)
		for _, v := range vs {
			if v.sig == sig {
				return true
			}
		}
		return false
	}
}

func c19(r *engine.Run) {
	r.RaceWorkload = "wsvc:walletsvc" // supplement: free-running race-detector pass on one shared object (can only add findings)
	// the crypto layer's paranoia self-checks (re-deriving and re-verifying every generated key) are the
	// subject of other properties; they cost 6x here
	cipher.DebugLevel1, cipher.DebugLevel2 = false, false
	depth := r.Pick(3, 4)
	c19MaxSlots = 2
	r.SetBudget(time.Duration(r.Pick(75, 1000)) * time.Second)
	stateViol := engine.NewCounter()
	lockOutcomes := engine.NewCounter()
	var fmu sync.Mutex
	var found []engine.Failure
	fail := func(f engine.Failure) {
		fmu.Lock()
		found = append(found, f)
		fmu.Unlock()
	}
	sp := engine.Space[*c19Live, c19Op]{
		New:   c19New,
		Close: c19Close,
		Ops:   c19Ops,
		Key:   c19Key,
		Stop:  r.OutOfTime,
	}
	sp.Apply = func(l *c19Live, op c19Op, check bool) string {
		cls, vs := l.apply(op, check)
		for _, v := range vs {
			h := append(append([]c19Op{}, l.hist...), op)
			stateViol.Add(v.sig)
			fail(engine.Failure{Sig: v.sig, Case: h, Detail: v.detail, Repro: c19ReproStep(h, v.sig)})
		}
		return cls
	}
	deepSamples := map[int]string{}
	sp.Invariant = func(l *c19Live, hist []c19Op) {
		fmu.Lock()
		if cur, ok := deepSamples[len(hist)]; len(hist) > 1 && (!ok || fmt.Sprint(hist) > cur) {
			deepSamples[len(hist)] = fmt.Sprint(hist) // deterministic pick: the lexicographically last history of each depth
		}
		fmu.Unlock()
		last := "NewService"
		if len(hist) > 0 {
			last = hist[len(hist)-1].Kind
		}
		for _, v := range c19State(l, last) {
			v := v
			stateViol.Add(v.sig)
			h := append([]c19Op{}, hist...)
			fail(engine.Failure{Sig: v.sig, Case: h, Detail: fmt.Sprintf("history %v: %s", h, v.detail),
				Repro: func() bool {
					l2 := c19Replay(h)
					defer c19Close(l2)
					for _, v2 := range c19State(l2, last) {
						if v2.sig == v.sig {
							return true
						}
					}
					return false
				}})
		}
	}
	// determinism self-check of the canonical key: the same histories replayed twice (different random file names,
	// encryption nonces, possibly different wall-clock seconds) must give the same key
	for _, h := range [][]c19Op{
		{{Kind: "CreateWallet", Slot: -1, Type: wallet.WalletTypeDeterministic, Name: "generated", Mode: "plain"}, {Kind: "EncryptWallet", Slot: 0, Pw: "right"}, {Kind: "NewAddresses", Slot: 0, Pw: "right", Arg: "n=2"}},
		{{Kind: "CreateWallet", Slot: -1, Type: wallet.WalletTypeBip44, Name: "generated", Mode: "temporary"}, {Kind: "CreateWallet", Slot: -1, Type: wallet.WalletTypeBip44, Seed: 1, Name: "fresh", Mode: "encrypted"}, {Kind: "RecoverWallet", Slot: 1, Pw: "new", Arg: "right-seed"}},
		{{Kind: "CreateWallet", Slot: -1, Type: wallet.WalletTypeXPub, Name: "fresh", Mode: "plain"}, {Kind: "UnloadWallet", Slot: 0}, {Kind: "CreateWallet", Slot: -1, Type: wallet.WalletTypeCollection, Seed: -1, Name: "slot0", Mode: "encrypted"}},
	} {
		a, b := c19Replay(h), c19Replay(h)
		ka, kb := c19Key(a), c19Key(b)
		if len(a.tr.Slots) == 0 || len(a.tr.Slots) != len(b.tr.Slots) {
			r.Broken("determinism self-check: history %v did not create its wallets", h)
		}
		c19Close(a)
		c19Close(b)
		if ka != kb {
			r.Broken("nondeterminism: history %v replayed twice gives two different state keys", h)
		}
	}
	sp.MaxDepth = depth
	res := engine.BFS(sp)
	var res2 *engine.BFSResult
	if r.Thorough() && !r.OutOfTime() {
		// second exploration: one wallet more, one step less
		c19MaxSlots, sp.MaxDepth = 3, 3
		x := engine.BFS(sp)
		res2 = &x
		for k, v := range x.Outcomes {
			res.Outcomes[k] += v
		}
		c19MaxSlots = 2
	}

	partI := c19Interleave(r, fail, lockOutcomes)

	// report in a deterministic order (shortest history first), whatever the worker scheduling was
	hops := func(c interface{}) []c19Op {
		if h, ok := c.([]c19Op); ok {
			return h
		}
		ic := c.(c19iCase)
		return append(append(append([]c19Op{}, ic.Base...), ic.A, ic.B), make([]c19Op, 8)...) // interleavings after the plain histories
	}
	sort.SliceStable(found, func(i, j int) bool {
		a, b := hops(found[i].Case), hops(found[j].Case)
		if len(a) != len(b) {
			return len(a) < len(b)
		}
		return fmt.Sprint(a) < fmt.Sprint(b)
	})
	for _, f := range found {
		r.Fail(f)
	}
	// vacuity guards: the exploration must have seen the interesting classes
	need := []string{"CreateWallet:ok", "NewAddresses:ok", "ScanAddresses:ok", "UpdateWalletLabel:ok", "EncryptWallet:ok", "DecryptWallet:ok",
		"RecoverWallet:ok", "UnloadWallet:ok", "UpdateSecrets:ok", "Update:ok", "View:ok"}
	for _, k := range need {
		if res.Outcomes[k] == 0 {
			r.Broken("vacuous: outcome class %q never seen", k)
		}
	}
	seen := func(sub string) int {
		n := 0
		for k, v := range res.Outcomes {
			if strings.Contains(k, sub) {
				n += v
			}
		}
		return n
	}
	for _, sub := range []string{"invalid password", "fingerprint conflict", "wallet name would conflict", "doesn't exist", "permission denied", "wallet is encrypted", "wallet is not encrypted", "seed or seed passphrase is wrong", "callback failed"} {
		if seen(sub) == 0 {
			r.Broken("vacuous: no operation ever failed with %q", sub)
		}
	}
	if res.States < 50 {
		r.Broken("vacuous: only %d states", res.States)
	}
	cov := res.Coverage("a state = canonical (bookkeeping, wallets in service memory, fingerprint table, every file of the wallet directory); file names, timestamps and encryption nonces canonicalised")
	cov["depth"] = depth
	for d := 2; d <= depth; d++ {
		if h, ok := deepSamples[d]; ok {
			cov["samples"] = append(cov["samples"].([]interface{}), h)
		}
	}
	if res2 != nil {
		c2 := res2.Coverage("same, up to 3 wallets per history, depth 3")
		delete(c2, "outcome_histogram") // merged into the main histogram
		cov["second_exploration_3_wallets_depth_3"] = c2
	}
	partI["pair_histogram"] = lockOutcomes.Map()
	cov["lock_boundary_interleavings"] = partI
	cov["max_wallets_per_history"] = c19MaxSlots
	cov["real_operations_executed_incl_replays"] = atomic.LoadInt64(&c19Transitions)
	cov["state_oracle_violation_histogram"] = stateViol.Map()
	cov["read_only_directory_outcomes"] = c19RO.Map()
	cov["observations_not_judged"] = c19Obs.Map()
	cov["diagnostic_cpu_microseconds_by_operation"] = c19Time.Map()
	r.Assumptions = append(r.Assumptions,
		"service configured with the sha256-xor cipher (scrypt-chacha20poly1305 costs 1 GiB and seconds per call); every wallet is created with Options.CryptoType=sha256-xor",
		fmt.Sprintf("histories up to depth %d, at most %d wallets created per history (thorough adds a second search: depth 3, 3 wallets), 2 address counts, fixed labels/passwords; seeds are interchangeable (the service only compares fingerprints), so a create offers every seed already in use plus ONE unused seed", depth, c19MaxSlots),
		"UnloadWallet removes a wallet from the service only: the file of an unloaded wallet is excepted from memory=disk like a temporary wallet, but a fresh service must still start",
		"'share a seed' is read as same wallet type and same seed; a deterministic and a bip44 wallet generated from the same mnemonic have different fingerprints and are both accepted by the service (counted, not judged)",
		"write failures are injected only as 'directory refuses writes' (EACCES on open/rename/remove through the vos seam) — the sandbox runs as root, chmod cannot produce them; I/O errors in the middle of a write are not injected",
		"file names generated by the service (random) are only exercised while no unloaded wallet file exists; otherwise the harness passes explicit names")
	r.Finish(cov)
}
