package main

import (
	"encoding/json"
	"fmt"
	"os"
	"path/filepath"
	"sort"
	"strings"
	"sync"

	"github.com/skycoin/skycoin/src/cipher/crypto"
	"github.com/skycoin/skycoin/src/kvstorage"
	"github.com/skycoin/skycoin/src/wallet"

	"verif/engine"
	"verif/model/wsvcfs"
	"verif/shim/vos"
)

// C20 — wallet and key-value files survive a crash during a save.
//
// For every save history H (previous content P on disk, one REAL service operation producing N, observed
// through the vos operation log) every crash image is constructed: initial directory image + every prefix of
// the log at operation granularity, plus every data write cut at every byte offset (ordered-write crash
// model).  On each image the REAL recovery path runs — wallet.NewService(dir) / kvstorage.NewManager — and
// must (a) succeed and (b) load content ∈ {P, N}.  A kv file that "recovers" to an empty store because the
// unreadable file was set aside as .corrupt.* is data loss.
func init() { register("C20", "fault_enumeration", c20) }

type c20History struct {
	Name string
	Kind string // wallet | kv
	// run prepares P in dir, then performs the operation under recording; returns P and N views.
	run func(dir string, record func() func()) (p, n map[string]string, err error)
}

func detOpts(seed int, label string, enc bool) wallet.Options {
	o := wallet.Options{Type: wallet.WalletTypeDeterministic, Seed: seeds[seed], Label: label, CryptoType: crypto.CryptoTypeSha256Xor}
	if enc {
		o.Encrypt = true
		o.Password = []byte(pw1)
	}
	return o
}

func bip44Opts(seed int, label string, enc bool) wallet.Options {
	o := detOpts(seed, label, enc)
	o.Type = wallet.WalletTypeBip44
	return o
}

// walletHistory: setup creates the previous content, op is the operation whose save is interrupted.
func walletHistory(name string, setup func(s *wallet.Service) error, op func(s *wallet.Service) error) c20History {
	return c20History{Name: name, Kind: "wallet", run: func(dir string, record func() func()) (map[string]string, map[string]string, error) {
		s, err := wallet.NewService(svcConfig(dir))
		if err != nil {
			return nil, nil, fmt.Errorf("setup NewService: %v", err)
		}
		if err := setup(s); err != nil {
			return nil, nil, fmt.Errorf("setup: %v", err)
		}
		ws, _ := wallet.VerifDump(s)
		p := walletsView(ws)
		stop := record()
		err = op(s)
		stop()
		if err != nil {
			return nil, nil, fmt.Errorf("operation failed: %v", err)
		}
		ws, _ = wallet.VerifDump(s)
		return p, walletsView(ws), nil
	}}
}

func kvConfig(dir string) kvstorage.Config {
	return kvstorage.Config{StorageDir: dir, EnabledStorages: []kvstorage.Type{kvstorage.TypeGeneral, kvstorage.TypeTxIDNotes}, EnableStorageAPI: true}
}

func kvView(m *kvstorage.Manager) (map[string]string, error) {
	out := map[string]string{}
	for _, t := range []kvstorage.Type{kvstorage.TypeGeneral, kvstorage.TypeTxIDNotes} {
		vals, err := m.GetAllStorageValues(t)
		if err != nil {
			return nil, err
		}
		b, _ := json.Marshal(vals) // map keys are sorted by encoding/json
		out[string(t)] = string(b)
	}
	return out, nil
}

func kvHistory(name string, setup func(m *kvstorage.Manager) error, op func(m *kvstorage.Manager) error) c20History {
	return c20History{Name: name, Kind: "kv", run: func(dir string, record func() func()) (map[string]string, map[string]string, error) {
		m, err := kvstorage.NewManager(kvConfig(dir))
		if err != nil {
			return nil, nil, fmt.Errorf("setup NewManager: %v", err)
		}
		if err := setup(m); err != nil {
			return nil, nil, fmt.Errorf("setup: %v", err)
		}
		p, err := kvView(m)
		if err != nil {
			return nil, nil, err
		}
		stop := record()
		err = op(m)
		stop()
		if err != nil {
			return nil, nil, fmt.Errorf("operation failed: %v", err)
		}
		n, err := kvView(m)
		return p, n, err
	}}
}

func c20Histories(thorough bool) []c20History {
	none := func(*wallet.Service) error { return nil }
	oneDet := func(s *wallet.Service) error {
		_, err := s.CreateWallet("a.wlt", detOpts(0, "label A", false))
		return err
	}
	twoWallets := func(s *wallet.Service) error {
		if err := oneDet(s); err != nil {
			return err
		}
		_, err := s.CreateWallet("b.wlt", bip44Opts(1, "label B", false))
		return err
	}
	detEnc := func(s *wallet.Service) error {
		_, err := s.CreateWallet("a.wlt", detOpts(0, "label A", true))
		return err
	}
	bipEnc := func(s *wallet.Service) error {
		_, err := s.CreateWallet("a.wlt", bip44Opts(0, "label A", true))
		return err
	}
	kvTwo := func(m *kvstorage.Manager) error {
		if err := m.AddStorageValue(kvstorage.TypeGeneral, "key1", "value one"); err != nil {
			return err
		}
		if err := m.AddStorageValue(kvstorage.TypeGeneral, "key2", "value two"); err != nil {
			return err
		}
		return m.AddStorageValue(kvstorage.TypeTxIDNotes, "a3f1", "note on a transaction")
	}
	hs := []c20History{
		walletHistory("CreateWallet/first-wallet", none, oneDet),
		walletHistory("CreateWallet/second-wallet", oneDet, func(s *wallet.Service) error {
			_, err := s.CreateWallet("b.wlt", detOpts(1, "label B", false))
			return err
		}),
		walletHistory("CreateWallet/bip44-encrypted", oneDet, func(s *wallet.Service) error {
			_, err := s.CreateWallet("b.wlt", bip44Opts(1, "label B", true))
			return err
		}),
		walletHistory("NewAddresses/deterministic", twoWallets, func(s *wallet.Service) error {
			_, err := s.NewAddresses("a.wlt", nil, wallet.OptionGenerateN(2))
			return err
		}),
		walletHistory("NewAddresses/deterministic-encrypted", detEnc, func(s *wallet.Service) error {
			_, err := s.NewAddresses("a.wlt", []byte(pw1), wallet.OptionGenerateN(1))
			return err
		}),
		walletHistory("NewAddresses/bip44-encrypted", bipEnc, func(s *wallet.Service) error {
			_, err := s.NewAddresses("a.wlt", nil, wallet.OptionGenerateN(1))
			return err
		}),
		walletHistory("ScanAddresses/deterministic", oneDet, func(s *wallet.Service) error {
			_, err := s.ScanAddresses("a.wlt", nil, 2, fakeTF{mode: "last"})
			return err
		}),
		walletHistory("UpdateWalletLabel", twoWallets, func(s *wallet.Service) error {
			return s.UpdateWalletLabel("a.wlt", "a new and longer label for wallet A")
		}),
		walletHistory("UpdateWalletLabel/shorter", twoWallets, func(s *wallet.Service) error {
			return s.UpdateWalletLabel("b.wlt", "B")
		}),
		walletHistory("EncryptWallet", twoWallets, func(s *wallet.Service) error {
			_, err := s.EncryptWallet("a.wlt", []byte(pw1))
			return err
		}),
		walletHistory("DecryptWallet", detEnc, func(s *wallet.Service) error {
			_, err := s.DecryptWallet("a.wlt", []byte(pw1))
			return err
		}),
		walletHistory("RecoverWallet", detEnc, func(s *wallet.Service) error {
			_, err := s.RecoverWallet("a.wlt", seeds[0], "", []byte(pw2))
			return err
		}),
		{Name: "kvstorage/first-start", Kind: "kv", run: func(dir string, record func() func()) (map[string]string, map[string]string, error) {
			stop := record() // the very first start creates the storage files: empty directory -> two empty stores
			m, err := kvstorage.NewManager(kvConfig(dir))
			stop()
			if err != nil {
				return nil, nil, err
			}
			n, err := kvView(m)
			return n, n, err
		}},
		kvHistory("kvstorage/add-new-key", kvTwo, func(m *kvstorage.Manager) error {
			return m.AddStorageValue(kvstorage.TypeGeneral, "key3", "value three")
		}),
		kvHistory("kvstorage/add-replace-value", kvTwo, func(m *kvstorage.Manager) error {
			return m.AddStorageValue(kvstorage.TypeGeneral, "key1", "v")
		}),
		kvHistory("kvstorage/remove", kvTwo, func(m *kvstorage.Manager) error {
			return m.RemoveStorageValue(kvstorage.TypeGeneral, "key1")
		}),
		kvHistory("kvstorage/remove-last-note", kvTwo, func(m *kvstorage.Manager) error {
			return m.RemoveStorageValue(kvstorage.TypeTxIDNotes, "a3f1")
		}),
	}
	if !thorough {
		return hs
	}
	// thorough tier: the other wallet types, the callback-style updates, and bigger files
	bigDet := func(s *wallet.Service) error {
		if err := oneDet(s); err != nil {
			return err
		}
		_, err := s.NewAddresses("a.wlt", nil, wallet.OptionGenerateN(19))
		return err
	}
	kvBig := func(m *kvstorage.Manager) error {
		for i := 0; i < 40; i++ {
			if err := m.AddStorageValue(kvstorage.TypeTxIDNotes, fmt.Sprintf("%064x", i), fmt.Sprintf("note number %d on a transaction", i)); err != nil {
				return err
			}
		}
		return nil
	}
	return append(hs,
		walletHistory("CreateWallet/collection", oneDet, func(s *wallet.Service) error {
			_, err := s.CreateWallet("c.wlt", wallet.Options{Type: wallet.WalletTypeCollection, Label: "label C", CryptoType: crypto.CryptoTypeSha256Xor, CollectionPrivateKeys: collKeys[:2]})
			return err
		}),
		walletHistory("CreateWallet/xpub", oneDet, func(s *wallet.Service) error {
			_, err := s.CreateWallet("x.wlt", wallet.Options{Type: wallet.WalletTypeXPub, Label: "label X", XPub: xpubs[1]})
			return err
		}),
		walletHistory("NewAddresses/xpub", func(s *wallet.Service) error {
			_, err := s.CreateWallet("x.wlt", wallet.Options{Type: wallet.WalletTypeXPub, Label: "label X", XPub: xpubs[1]})
			return err
		}, func(s *wallet.Service) error {
			_, err := s.NewAddresses("x.wlt", nil, wallet.OptionGenerateN(2))
			return err
		}),
		walletHistory("Update/callback-sets-label", twoWallets, func(s *wallet.Service) error {
			return s.Update("b.wlt", func(w wallet.Wallet) error { w.SetLabel("label set by Update"); return nil })
		}),
		walletHistory("UpdateSecrets/encrypted-generate-address", detEnc, func(s *wallet.Service) error {
			return s.UpdateSecrets("a.wlt", []byte(pw1), func(w wallet.Wallet) error {
				_, err := w.GenerateAddresses(wallet.OptionGenerateN(1))
				return err
			})
		}),
		walletHistory("NewAddresses/large-wallet", bigDet, func(s *wallet.Service) error {
			_, err := s.NewAddresses("a.wlt", nil, wallet.OptionGenerateN(5))
			return err
		}),
		walletHistory("ScanAddresses/bip44-encrypted", bipEnc, func(s *wallet.Service) error {
			_, err := s.ScanAddresses("a.wlt", nil, 3, fakeTF{mode: "last"})
			return err
		}),
		kvHistory("kvstorage/add-to-large-store", kvBig, func(m *kvstorage.Manager) error {
			return m.AddStorageValue(kvstorage.TypeTxIDNotes, "ffff", "one more note")
		}),
		kvHistory("kvstorage/remove-from-large-store", kvBig, func(m *kvstorage.Manager) error {
			return m.RemoveStorageValue(kvstorage.TypeTxIDNotes, fmt.Sprintf("%064x", 7))
		}),
	)
}

// recovery runs the real start-up path on dir and returns the loaded content.
func c20Recover(kind, dir string) (view map[string]string, err error, panicked string) {
	pan, msg := engine.Catch(func() {
		if kind == "wallet" {
			var s *wallet.Service
			s, err = wallet.NewService(svcConfig(dir))
			if err == nil {
				ws, _ := wallet.VerifDump(s)
				view = walletsView(ws)
			}
			return
		}
		var m *kvstorage.Manager
		m, err = kvstorage.NewManager(kvConfig(dir))
		if err == nil {
			view, err = kvView(m)
		}
	})
	if pan {
		panicked = msg
	}
	return
}

type c20Image struct {
	Hist    int
	Prefix  int // number of log operations applied completely
	Partial int // -1, or: operation number Prefix (a data write) applied up to this many bytes
}

type c20Case struct {
	History   string            `json:"history"`
	OpsTotal  int               `json:"log_operations"`
	Prefix    int               `json:"operations_applied"`
	Partial   int               `json:"bytes_of_next_write_applied"`
	CrashedIn string            `json:"crash_point"`
	Culprit   string            `json:"culprit_operation"`
	Files     map[string]string `json:"image_files"`
	Log       []string          `json:"log"`
}

func opString(i int, op vos.Op) string {
	s := fmt.Sprintf("#%d %s %s", i, op.Kind, op.Path)
	switch op.Kind {
	case "open":
		var fl []string
		for _, f := range []struct {
			v int
			n string
		}{{vos.O_WRONLY, "O_WRONLY"}, {vos.O_RDWR, "O_RDWR"}, {vos.O_CREATE, "O_CREATE"}, {vos.O_EXCL, "O_EXCL"}, {vos.O_TRUNC, "O_TRUNC"}, {vos.O_APPEND, "O_APPEND"}} {
			if op.Flags&f.v != 0 {
				fl = append(fl, f.n)
			}
		}
		s += " " + strings.Join(fl, "|")
	case "write":
		s += fmt.Sprintf(" %d bytes @%d", len(op.Data), op.Off)
	case "rename":
		s += " -> " + op.Path2
	}
	s += " [" + op.Site + "]"
	if op.Err != "" {
		s += " FAILED: " + op.Err
	}
	return s
}

func c20(r *engine.Run) {
	hists := c20Histories(r.Thorough())
	type prepared struct {
		h        c20History
		ops      []vos.Op
		i0, fin  *wsvcfs.Image
		p, n     map[string]string
		writers  map[string]map[string]bool // path -> sites that write data to it
		logLines []string
	}
	preps := make([]*prepared, len(hists))
	var images []c20Image
	perHist := map[string]map[string]int{}
	for hi, h := range hists {
		dir := freshDir("c20-hist")
		var log *vos.Log
		var i0 *wsvcfs.Image
		var ops []vos.Op
		record := func() func() {
			var err error
			i0, err = wsvcfs.Read(dir)
			must(err)
			log = vos.Record(dir)
			return func() { ops = log.Stop() }
		}
		p, n, err := h.run(dir, record)
		if err != nil {
			r.Broken("history %s: %v", h.Name, err)
			continue
		}
		fin, err := wsvcfs.Read(dir)
		must(err)
		pr := &prepared{h: h, ops: ops, i0: i0, fin: fin, p: p, n: n, writers: map[string]map[string]bool{}}
		// the model must explain the real final directory: initial image + whole log == what is on disk now
		rp := wsvcfs.NewReplayer(i0)
		handlePath := map[int]string{}
		nwrites := 0
		for i, op := range ops {
			pr.logLines = append(pr.logLines, opString(i, op))
			if err := rp.Apply(i, op, -1); err != nil {
				r.Broken("history %s: log not understood: %v", h.Name, err)
			}
			if op.Kind == "open" {
				handlePath[op.Handle] = op.Path
			}
			if op.Kind == "write" && op.Err == "" {
				nwrites++
				pth := handlePath[op.Handle]
				if pr.writers[pth] == nil {
					pr.writers[pth] = map[string]bool{}
				}
				pr.writers[pth][op.Site] = true
			}
		}
		if !rp.Im.Equal(fin) {
			r.Broken("history %s: initial image + vos log does not reproduce the final directory (%s) — an unlogged file operation?\n%s", h.Name, rp.Im.Diff(fin), strings.Join(pr.logLines, "\n"))
			continue
		}
		// P and N must be what recovery yields on the untouched / the final image, and (except for first-start) differ
		if h.Name != "kvstorage/first-start" {
			if viewsEqual(p, n) {
				r.Broken("history %s: vacuous, operation did not change the content", h.Name)
			}
			if nwrites == 0 {
				r.Broken("history %s: vacuous, no data write in the log", h.Name)
			}
		}
		preps[hi] = pr
		st := map[string]int{"log_operations": len(ops), "data_writes": nwrites}
		perHist[h.Name] = st
		for i := 0; i <= len(ops); i++ {
			images = append(images, c20Image{hi, i, -1})
			st["prefix_images"]++
			if i < len(ops) && ops[i].Kind == "write" && ops[i].Err == "" {
				for k := 1; k < len(ops[i].Data); k++ {
					images = append(images, c20Image{hi, i, k})
					st["torn_write_images"]++
				}
			}
		}
	}

	outcomes := engine.NewCounter()
	distinct := engine.NewSet()
	nontrivial := engine.NewSet()
	var hmu sync.Mutex
	histOutcomes := map[string]map[string]int{}
	var samples []interface{}

	evalImage := func(ic c20Image, count, report bool) (sig string) {
		pr := preps[ic.Hist]
		if pr == nil {
			return ""
		}
		rp := wsvcfs.NewReplayer(pr.i0)
		for i := 0; i < ic.Prefix; i++ {
			if err := rp.Apply(i, pr.ops[i], -1); err != nil {
				r.Broken("replay: %v", err)
				return ""
			}
		}
		crashPoint := "before the first operation"
		if ic.Prefix > 0 {
			crashPoint = "after " + pr.logLines[ic.Prefix-1]
		}
		if ic.Partial >= 0 {
			if err := rp.Apply(ic.Prefix, pr.ops[ic.Prefix], ic.Partial); err != nil {
				r.Broken("replay: %v", err)
				return ""
			}
			crashPoint = fmt.Sprintf("%d bytes into %s", ic.Partial, pr.logLines[ic.Prefix])
		}
		im := rp.Im
		if count {
			ih := pr.h.Name + "/" + im.Hash()
			distinct.Add(ih)
			if !im.Equal(pr.i0) && !im.Equal(pr.fin) {
				nontrivial.Add(ih)
			}
		}
		dir := freshDir("c20-img")
		defer os.RemoveAll(dir)
		if err := im.Write(dir); err != nil {
			r.Broken("materialise image: %v", err)
			return ""
		}
		view, err, pan := c20Recover(pr.h.Kind, dir)
		oc, symptom, what := "", "", ""
		switch {
		case pan != "":
			oc, symptom = "recovery-panics", pr.h.Kind+"-start-panics"
			what = "recovery panicked: " + pan
		case err != nil:
			oc = "recovery-fails"
			if pr.h.Kind == "wallet" {
				symptom = "wallet-service-start-fails"
			} else {
				symptom = "kv-manager-start-fails"
			}
			what = "recovery failed: " + err.Error()
		case viewsEqual(view, pr.p):
			oc = "recovered-previous-content"
		case viewsEqual(view, pr.n):
			oc = "recovered-new-content"
		default:
			oc = "recovered-other-content"
			symptom = pr.h.Kind + "-content-neither-old-nor-new"
			what = "recovery loaded content that is neither the previous nor the new one:\n" + viewString(view)
			if pr.h.Kind == "kv" {
				if ms, _ := filepath.Glob(filepath.Join(dir, "*.corrupt.*")); len(ms) > 0 {
					oc = "kv-set-aside-as-corrupt"
					symptom = "kv-data-lost"
					what = fmt.Sprintf("the storage file was unreadable, was renamed to %s and the store restarted with %s (previous %s, new %s)",
						filepath.Base(ms[0]), viewLine(view), viewLine(pr.p), viewLine(pr.n))
				}
			}
		}
		if count {
			outcomes.Add(oc)
			hmu.Lock()
			if histOutcomes[pr.h.Name] == nil {
				histOutcomes[pr.h.Name] = map[string]int{}
			}
			histOutcomes[pr.h.Name][oc]++
			hmu.Unlock()
		}
		if symptom == "" {
			return ""
		}
		// attribute the damage: the file whose bytes are neither the old nor the new ones, and the last operation that touched it
		ext := ".wlt"
		if pr.h.Kind == "kv" {
			ext = ".json"
		}
		culpritIdx, damaged, state := -1, "", ""
		names := map[string]bool{}
		for n := range pr.i0.Files {
			names[n] = true
		}
		for n := range pr.fin.Files {
			names[n] = true
		}
		for n := range im.Files {
			names[n] = true
		}
		var sorted []string
		for n := range names {
			if strings.HasSuffix(n, ext) {
				sorted = append(sorted, n)
			}
		}
		sort.Strings(sorted)
		for _, n := range sorted {
			cur, okc := im.Files[n]
			old, oko := pr.i0.Files[n]
			nw, okn := pr.fin.Files[n]
			if (okc == oko && string(cur) == string(old)) || (okc == okn && string(cur) == string(nw)) {
				continue
			}
			damaged = n
			switch {
			case !okc:
				state = "missing-file"
			case okn && len(cur) < len(nw) && string(nw[:len(cur)]) == string(cur):
				state = "truncated-file" // a proper prefix of the new content (possibly empty)
			case len(cur) == 0:
				state = "truncated-file"
			default:
				state = "mixed-file"
			}
			if li, ok := rp.LastTouch[n]; ok {
				culpritIdx = li
			}
			break
		}
		site, mech, culprit := "unattributed", "no-damaged-file", ""
		if culpritIdx >= 0 {
			op := pr.ops[culpritIdx]
			site = op.Site
			culprit = pr.logLines[culpritIdx]
			switch {
			case op.Kind == "rename" || op.Kind == "remove" || op.Kind == "removeall":
				mech = op.Kind
			case pr.writers[damaged][op.Site]:
				mech = "in-place-rewrite"
			case op.Kind == "open" && op.Flags&vos.O_TRUNC != 0:
				mech = "O_TRUNC-before-save"
			default:
				mech = op.Kind
			}
		}
		sig = fmt.Sprintf("%s:%s:%s:%s", site, mech, state, symptom)
		if report {
			files := map[string]string{}
			for _, n := range im.Names() {
				b := im.Files[n]
				desc := fmt.Sprintf("%d bytes", len(b))
				if old, ok := pr.i0.Files[n]; ok && string(old) == string(b) {
					desc += " (= previous content)"
				} else if nw, ok := pr.fin.Files[n]; ok && string(nw) == string(b) {
					desc += " (= new content)"
				} else if ok && len(b) < len(nw) && string(nw[:len(b)]) == string(b) {
					desc += fmt.Sprintf(" (first %d of the %d new bytes)", len(b), len(nw))
				}
				files[n] = desc
			}
			cs := c20Case{History: pr.h.Name, OpsTotal: len(pr.ops), Prefix: ic.Prefix, Partial: ic.Partial, CrashedIn: crashPoint, Culprit: culprit, Files: files, Log: pr.logLines}
			icc := ic
			r.Fail(engine.Failure{Sig: sig, Case: cs,
				Detail: fmt.Sprintf("history %s, crash %s: %s; damaged file %q, last touched by %s; image %v", pr.h.Name, crashPoint, what, damaged, culprit, files),
				Repro:  func() bool { return c20Reeval(icc) == sig }})
		}
		return sig
	}
	c20Reeval = func(ic c20Image) string { return evalImage(ic, false, false) }

	// parallel pass: verdict per image; then the failing images are reported in enumeration order (deterministic replay files)
	sigs := make([]string, len(images))
	engine.ParFor(len(images), func(i int) { sigs[i] = evalImage(images[i], true, false) })
	reported := map[string]int{}
	for i, sg := range sigs {
		if sg == "" {
			continue
		}
		if reported[sg] < 20 {
			reported[sg]++
			if evalImage(images[i], false, true) != sg {
				r.Broken("nondeterminism: image %v judged %q first and differently on re-evaluation", images[i], sg)
			}
		} else {
			r.Fail(engine.Failure{Sig: sg}) // counted; the engine keeps the first 20 cases per signature
		}
	}

	for _, ic := range []int{0, len(images) / 2, len(images) - 1} {
		if ic >= 0 && ic < len(images) && preps[images[ic].Hist] != nil {
			im := images[ic]
			samples = append(samples, map[string]interface{}{"history": hists[im.Hist].Name, "operations_applied": im.Prefix, "bytes_of_next_write": im.Partial, "log": preps[im.Hist].logLines})
		}
	}
	// vacuity guards
	for _, h := range hists {
		oc := histOutcomes[h.Name]
		if oc["recovered-previous-content"] == 0 && h.Name != "kvstorage/first-start" {
			r.Broken("vacuous: history %s never recovered the previous content (not even from the untouched image)", h.Name)
		}
		if oc["recovered-new-content"] == 0 && h.Name != "kvstorage/first-start" {
			r.Broken("vacuous: history %s never recovered the new content (not even from the complete log)", h.Name)
		}
	}
	if nontrivial.Len() < 100 {
		r.Broken("vacuous: only %d crash images differ from the pre/post images", nontrivial.Len())
	}
	for h, st := range perHist {
		for k, v := range histOutcomes[h] {
			st["outcome:"+k] = v
		}
	}
	r.Assumptions = append(r.Assumptions,
		"crash model: ordered writes — every file-system call issued before the crash is durable, the call in flight is absent or (data write) cut at an arbitrary byte; no reordering of unsynced data, no lost rename, no bit rot",
		"the operation log is taken at the os/ioutil call boundary of src/util/file, src/kvstorage and src/wallet (import rewrite to verif/shim/vos); the log is validated per history: initial image + log reproduces the real final directory",
		"wallet service configured with the sha256-xor cipher; one or a few representative histories per operation (listed in per_history), wallet files of 1-3 KiB (thorough: up to ~8 KiB, all four wallet types)",
		"recovery = wallet.NewService / kvstorage.NewManager on the image, content compared as serialised wallets / JSON of the stored maps")
	r.Finish(engine.Coverage{
		"evaluations":         len(images),
		"distinct_nontrivial": nontrivial.Len(),
		"rule":                "a case = (save history, number of logged file-system operations applied, bytes of the next data write applied); all of them are enumerated; non-trivial = the resulting directory image differs from both the pre-operation and the post-operation image of its history; distinct = by content hash of the image (names + bytes) within its history",
		"distinct_images":     distinct.Len(),
		"histories":           len(hists),
		"per_history":         perHist,
		"outcome_histogram":   outcomes.Map(),
		"exhaustive":          true,
		"samples":             samples,
		"alphabet":            map[string]int{"histories": len(hists), "crash_images": len(images)},
	})
}

var c20Reeval func(ic c20Image) string

func viewLine(v map[string]string) string {
	b, _ := json.Marshal(v)
	return string(b)
}
