package main

import (
	"fmt"
	"sort"
	"sync"

	"github.com/skycoin/skycoin/src/wallet"

	"verif/engine"
	"verif/shim/vlock"
)

// C19 part I — lock-boundary interleavings of two service calls.
//
// wallet/service.go is built with sync → shim/vlock, whose RWMutex calls a per-goroutine hook before every Lock/RLock of
// the calling goroutine.  For a set of base states, every ordered pair (A, B) of operations of the state's menu and every
// lock acquisition k of A, the real A is executed with the real B run to completion just before A's k-th acquisition:
// all schedules of two client calls with one preemption at a lock boundary.  (While every exported Service method takes
// its lock once and keeps it, k = 1 is the only point and the run equals "B, then A with arguments chosen before B" —
// the part exists so that an operation that is split into two critical sections, check-then-act, is seen.)  Oracle: the
// C19 state oracle (memory ≡ files, fingerprints unique, a fresh service starts and loads the same) after both returned.

type c19iCase struct {
	Base   []c19Op `json:"base_history"`
	A      c19Op   `json:"A"`
	B      c19Op   `json:"B"`
	Target int     `json:"B_runs_before_lock_acquisition_no_of_A"`
}

func c19iBases() [][]c19Op {
	det := func(seed int, mode string) c19Op {
		return c19Op{Kind: "CreateWallet", Slot: -1, Type: wallet.WalletTypeDeterministic, Seed: seed, Name: "fresh", Mode: mode}
	}
	b44 := func(seed int, mode string) c19Op {
		return c19Op{Kind: "CreateWallet", Slot: -1, Type: wallet.WalletTypeBip44, Seed: seed, Name: "fresh", Mode: mode}
	}
	return [][]c19Op{
		{},
		{det(0, "plain")},
		{b44(0, "encrypted")},
		{det(0, "temporary")},
		{det(0, "plain"), {Kind: "UnloadWallet", Slot: 0}},
		{det(0, "plain"), b44(1, "encrypted")},
	}
}

// c19iRun executes one case; fired reports whether A reached its Target-th lock acquisition.
func c19iRun(c c19iCase) (l *c19Live, fired bool, points int, pan bool, msg string) {
	l = c19Replay(c.Base)
	vlock.SetGoroutineInterleave(func() {
		points++
		if points == c.Target {
			fired = true
			l.apply(c.B, false)
		}
	})
	pan, msg = engine.Catch(func() { l.apply(c.A, false) })
	vlock.SetGoroutineInterleave(nil)
	return
}

func c19Interleave(r *engine.Run, fail func(engine.Failure), outcomes *engine.Counter) map[string]interface{} {
	bases := c19iBases()
	if !r.Thorough() {
		bases = bases[:5]
	}
	var cases []c19iCase
	for _, base := range bases {
		l := c19Replay(base)
		var ops []c19Op
		for _, o := range c19Ops(l) {
			if o.Kind != "AdoptRenamedFile" { // a restart of the service, not a client call
				ops = append(ops, o)
			}
		}
		c19Close(l)
		for _, a := range ops {
			for _, b := range ops {
				cases = append(cases, c19iCase{Base: base, A: a, B: b})
			}
		}
	}
	var mu sync.Mutex
	evals, maxPoints, skipped := 0, 0, 0
	perBase := map[string]int{}
	engine.ParFor(len(cases), func(i int) {
		if r.OutOfTime() {
			mu.Lock()
			skipped++
			mu.Unlock()
			return
		}
		for target := 1; target <= 8; target++ {
			c := cases[i]
			c.Target = target
			l, fired, points, pan, msg := c19iRun(c)
			mu.Lock()
			if points > maxPoints {
				maxPoints = points
			}
			if fired {
				evals++
				perBase[fmt.Sprint(c.Base)]++
			}
			mu.Unlock()
			if !fired {
				c19Close(l)
				return
			}
			last := c.A.Kind + "‖" + c.B.Kind
			if pan {
				fail(engine.Failure{Sig: "Service:panic:second-call-at-lock-boundary", Case: c, Detail: fmt.Sprintf("%v, then %v with %v run before its lock acquisition no. %d: panic: %s", c.Base, c.A, c.B, target, msg)})
				c19Close(l)
				continue
			}
			outcomes.Add("lock-boundary:" + c.A.Kind + "|" + c.B.Kind)
			for _, v := range c19State(l, last) {
				v, c := v, c
				fail(engine.Failure{Sig: v.sig + ":second-call-between-two-critical-sections", Case: c,
					Detail: fmt.Sprintf("base %v; %v executed with %v run to completion before its lock acquisition no. %d: %s", c.Base, c.A, c.B, target, v.detail),
					Repro: func() bool {
						l2, fired2, _, _, _ := c19iRun(c)
						defer c19Close(l2)
						if !fired2 {
							return false
						}
						for _, v2 := range c19State(l2, last) {
							if v2.sig == v.sig {
								return true
							}
						}
						return false
					}})
			}
			c19Close(l)
		}
	})
	keys := make([]string, 0, len(perBase))
	for k := range perBase {
		keys = append(keys, k)
	}
	sort.Strings(keys)
	pb := map[string]interface{}{}
	for _, k := range keys {
		pb[k] = perBase[k]
	}
	return map[string]interface{}{
		"what":                               "every ordered pair (A,B) of menu operations in each base state × every lock acquisition k of A: real A with real B run to completion before A's k-th acquisition (vlock per-goroutine hook), then the state oracle",
		"base_states":                        len(bases),
		"pairs":                              len(cases),
		"executions":                         evals,
		"pairs_skipped_out_of_time":          skipped,
		"max_lock_acquisitions_of_one_call":  maxPoints,
		"executions_per_base":                pb,
		"exhaustive_within_the_stated_bound": skipped == 0,
	}
}
