package main

import (
	"fmt"
	"os"
	"path/filepath"
	"regexp"
	"sort"
	"strings"
	"sync/atomic"

	"github.com/skycoin/skycoin/src/cipher"
	"github.com/skycoin/skycoin/src/cipher/bip39"
	"github.com/skycoin/skycoin/src/cipher/bip44"
	"github.com/skycoin/skycoin/src/cipher/crypto"
	"github.com/skycoin/skycoin/src/wallet"
	_ "github.com/skycoin/skycoin/src/wallet/bip44wallet"
	_ "github.com/skycoin/skycoin/src/wallet/collection"
	_ "github.com/skycoin/skycoin/src/wallet/deterministic"
	_ "github.com/skycoin/skycoin/src/wallet/xpubwallet"

	"verif/engine"
)

// Fixed seeds: valid BIP39 mnemonics, so that the same string can seed a deterministic and a bip44 wallet.
var seeds = []string{
	"abandon abandon abandon abandon abandon abandon abandon abandon abandon abandon abandon about",
	"legal winner thank year wave sausage worth useful legal winner thank yellow",
	"letter advice cage absurd amount doctor acoustic avoid letter advice cage above",
	"zoo zoo zoo zoo zoo zoo zoo zoo zoo zoo zoo wrong",
}

// a valid mnemonic that is never the seed of any wallet of the fixture ("wrong seed" of RecoverWallet)
const wrongSeed = "void come effort suffer camp survey warrior heavy shoot primary clutch crush open amazing screen patrol group space point ten exist slush involve unfold"

const (
	pw1     = "pw-one"
	pw2     = "pw-two"
	pwWrong = "not-the-password"
)

var (
	xpubs    []string        // external-chain xpub of account 0 of each seed
	collKeys []cipher.SecKey // private keys for collection wallets
)

func initFixture() {
	for _, s := range seeds {
		sd, err := bip39.NewSeed(s, "")
		must(err)
		c, err := bip44.NewCoin(sd, bip44.CoinTypeSkycoin)
		must(err)
		a, err := c.Account(0)
		must(err)
		e, err := a.External()
		must(err)
		xpubs = append(xpubs, e.PublicKey().String())
	}
	for i := 0; i < 4; i++ {
		_, sk := cipher.MustGenerateDeterministicKeyPair([]byte(fmt.Sprintf("collection key %d", i)))
		collKeys = append(collKeys, sk)
	}
}

func must(err error) {
	if err != nil {
		fmt.Fprintf(os.Stderr, "CHECK-BROKEN: fixture: %v\n", err)
		engine.Cleanup()
		os.Exit(2)
	}
}

// svcConfig: the wallet service as the node configures it, except for the cheap cipher
// (scrypt-chacha20poly1305 with default cost needs 1 GiB and seconds per call).
func svcConfig(dir string) wallet.Config {
	bc := bip44.CoinTypeSkycoin
	return wallet.Config{
		WalletDir:       dir,
		CryptoType:      crypto.CryptoTypeSha256Xor,
		EnableWalletAPI: true,
		EnableSeedAPI:   true,
		Bip44Coin:       &bc,
	}
}

var dirSeq int64

// freshDir returns a new empty directory below the scratch area.
func freshDir(prefix string) string {
	d := filepath.Join(engine.Scratch(), fmt.Sprintf("%s-%d", prefix, atomic.AddInt64(&dirSeq, 1)))
	must(os.MkdirAll(d, 0o700))
	return d
}

// serial returns the serialised form of a wallet ("" + error text if it cannot be serialised).
func serial(w wallet.Wallet) string {
	b, err := w.Serialize()
	if err != nil {
		return "SERIALIZE-ERROR: " + err.Error()
	}
	return string(b)
}

// walletsView: filename -> serialised wallet, for comparing two sets of wallets.
func walletsView(ws wallet.Wallets) map[string]string {
	out := make(map[string]string, len(ws))
	for name, w := range ws {
		out[name] = serial(w)
	}
	return out
}

func viewString(v map[string]string) string {
	names := make([]string, 0, len(v))
	for n := range v {
		names = append(names, n)
	}
	sort.Strings(names)
	var b strings.Builder
	for _, n := range names {
		fmt.Fprintf(&b, "== %s\n%s\n", n, v[n])
	}
	return b.String()
}

func viewsEqual(a, b map[string]string) bool {
	if len(a) != len(b) {
		return false
	}
	for k, v := range a {
		if w, ok := b[k]; !ok || w != v {
			return false
		}
	}
	return true
}

var rePath = regexp.MustCompile(`/[^ :"]*/[^ :"]*`)

var reTm = regexp.MustCompile(`"tm": "[0-9]*"`)

// fakeTF is the TransactionsFinder of ScanAddresses: active[i] is decided by position only.
type fakeTF struct {
	mode  string // "none" | "last" | "error" | "second-call-last" (bip44: only the change chain shows activity) | "first-call-first"
	calls *int
}

func (f fakeTF) AddressesActivity(addrs []cipher.Addresser) ([]bool, error) {
	if f.mode == "error" {
		return nil, fmt.Errorf("fake transactions finder failure")
	}
	out := make([]bool, len(addrs))
	call := 0
	if f.calls != nil {
		*f.calls++
		call = *f.calls
	}
	switch {
	case f.mode == "last" && len(out) > 0:
		out[len(out)-1] = true
	case f.mode == "second-call-last" && call == 2 && len(out) > 0:
		out[len(out)-1] = true
	case f.mode == "first-call-first" && call == 1 && len(out) > 0:
		out[0] = true
	}
	return out, nil
}

func errClass(err error) string {
	if err == nil {
		return "ok"
	}
	s := rePath.ReplaceAllString(err.Error(), "<wallet-dir>/<file>")
	if len(s) > 70 {
		s = s[:70]
	}
	return "err:" + s
}
